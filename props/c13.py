"""C13 — hashing to groups yields valid subgroup points per the documented map (DESIGN §2 C13).

Three oracle layers per case: (1) validity (on the curve, [r]P = O, identity only where the construction yields it),
(2) determinism (same bytes from a second call after unrelated work / curve re-selection, and under a second poison
pattern), (3) equality with the reference construction (engine/ref/h2c.py: RFC 9380 expand_message_xmd, simplified
SWU, Shallue-van de Woestijne, isogeny, Elligator 2; SwiftEC; try-and-increment; reference cofactor clearing)."""
import hashlib
import struct

from hypothesis import strategies as st

from engine import ecctx, pcctx
from engine.core import Target, Violation, Unsupported
from engine.gen import ints
from engine.proto import Prog, HarnessError
from engine.ref import ec as rec
from engine.ref import fp as rfp
from engine.ref import h2c

PROPERTY = "C13"
RULE = ("messages of length {0,1,31..33,55,56,63..65,127..129,255,256,300,1000} with random / constant content for every "
        "map entry point (ep_map, ep_map_basic/sswum/swift, g1_map; ep2_map*, g2_map on the BN/SM9/BLS twists; eb_map; "
        "ed_map, ed_map_dst with generated tags) on every selectable curve (one curve per worker job); for ep_map_rnd "
        "uniform strings SOLVED by the reference so that each field element is 0, +-1, a root of the SSWU / SvdW "
        "exceptional equation, small, the negative / a copy of the other half, a non-reduced representative u + k*p, "
        "an all-ones string, or uniform (SwiftEC builds: u, t in {0, +-1, pole u^3+b+t^2=0, uniform} x sign bit; "
        "try-and-increment builds: x in {0, p-1, uniform}); too-short strings must be refused. oracle = reference "
        "validity ([r]P = O, on curve, identity only when the construction yields it) + byte-for-byte determinism "
        "(second call after an unrelated map call and a curve re-selection, second poison pattern) + equality with "
        "the reference construction (up to sign where the source does not fix the root: try-and-increment variants). "
        "non-trivial: message length != 32, or a solved / exceptional uniform string, or an expected refusal. "
        "distinct = distinct (target, cfg, case) hashes")
ASSUMPTIONS = [
    "curve parameters (a, b, G, n, h; twist a', b', G2, r, h2; binary / Edwards parameters) and the published map "
    "constants (ep_map_u, sqrt(-3), isogeny tables, RLC_STRING, security level) are read from the library and "
    "validated by the reference (RFC 9380 criteria for Z, c^2 = -3, psi(G2) = [p]G2, generator on curve of order n)",
    "domain separation: the tag bytes and their length are taken from the source (ep_map_sswum / ep_map_swift: "
    "\"RELIC\\0\" = sizeof(RLC_DSTAG); ep_map_basic, ep2_map_*, ed_map: \"RELIC\" without the NUL); lengths "
    "elm = ceil((FP_PRIME + level)/8), big-endian reduction mod p, halves in the order the source consumes them "
    "(ep2_map_swift interleaves u0, t0, u1, t1)",
    "SwiftEC: candidate order (u + 4Y^2, (-X/Y - u)/2, (X/Y - u)/2) for the published root of -3 and the parity "
    "convention of the sign bit are read from the source (the paper leaves both free); membership of the result in "
    "the candidate set is checked independently of that order",
    "try-and-increment variants (ep_map_basic, ep2_map_basic, eb_map) do not fix which square root / quadratic "
    "solution is taken: the result is compared up to negation",
    "eb_map: the first abscissa candidate is the digest prefix as a polynomial reduced modulo f (the source feeds the "
    "unreduced representative to the field arithmetic when the prefix is wider than the field), later candidates are "
    "(k + i) mod 2^m for the prefix integer k",
    "curves with b = 0 (SwiftEC variant for j = 1728) are checked for validity and determinism only",
    "ep_map_rnd with more than ep_map_rnd_size() bytes: validity and determinism only",
]
BUDGET_S = {"quick": 230, "thorough": 1700}
JOB_SIZE = {"quick": 400, "thorough": 1000}
# pf-377: B12_P377, a BLS12 curve whose parameter is POSITIVE and fits one digit (the 381-bit one is negative): the sign
# handling of the cofactor clearing by 1 - x differs
OPTIONAL_CFGS = ["md-sh224", "md-sh384", "md-sh512", "p381-map-swift", "pf-377"]

# Hypothesis produces the all-zero draw far more often than 2^-n: the 'uniform' classes are shifted by a fixed
# constant so that such draws do not collapse into the 'zero' class (still a bijection of the draw space)
OFFSET = int.from_bytes(hashlib.sha512(b"C13 uniform offset").digest(), "big")
MSG_LENS = [0, 1, 31, 32, 33, 55, 56, 63, 64, 65, 127, 128, 129, 255, 256, 300, 1000]
DTYPE, MTYPE = 1, 2


# ------------------------------------------------------------------------------------------ generators

# st.integers / st.booleans are biased towards the minimal value; the common, cheap alternative goes first
RESELECT4 = st.sampled_from([False, False, False, True])
RESELECT16 = st.sampled_from([False] * 15 + [True])

@st.composite
def messages(draw):
    n = draw(st.sampled_from(MSG_LENS))
    kind = draw(st.sampled_from(["rand", "rand", "rand", "const"]))
    if kind == "const":
        return bytes([draw(st.sampled_from([0, 0xFF, 0x80, 0x61, 0x5A]))]) * n
    if n <= 65:
        return draw(st.binary(min_size=n, max_size=n))
    seed = draw(st.binary(min_size=16, max_size=16))
    return hashlib.shake_256(seed).digest(n)


def other_message(msg):
    """a different message for the intervening call (same length class, one byte flipped / appended)"""
    if not msg:
        return b"\x01"
    return bytes([msg[0] ^ 0x80]) + msg[1:]


def msg_labels(msg):
    lab = ["len:%d" % len(msg)]
    if len(msg) > 1 and len(set(msg)) == 1:
        lab.append("content:constant")
    return lab


# ------------------------------------------------------------------------------------------ common checks

def chk_call(call, what, allow_error=False):
    if call.unsupported:
        raise Unsupported()
    if call.ub:
        raise Violation("undefined behaviour in %s: %s" % (what, call.ub), ub=call.ub)
    if call.errored and not allow_error:
        raise Violation("%s reported an error (caught=%d e=%d code=%d) for an admissible input" % (
            what, call.caught, call.e, call.code), kind="error")


def hash_name(ids, md_map):
    """ids = dict name -> numeric id as published by the build"""
    for k, v in ids.items():
        if v == md_map:
            return k
    return None


def md_map_digest(hname, msg):
    if hname in h2c.HASHES:
        return h2c.HASHES[hname][0](msg).digest()
    if hname == "b2s160":
        return hashlib.blake2s(msg, digest_size=20).digest()
    if hname == "b2s256":
        return hashlib.blake2s(msg, digest_size=32).digest()
    raise Unsupported()


# ------------------------------------------------------------------------------------------ prime curves: context

class MapCtx:
    pass


_MC = {}


def mapctx(env, cfg, c):
    key = (cfg, c.cid)
    if key in _MC:
        return _MC[key]

    def build(p):
        p.call("h2c_ep_consts")
        p.call("h2c_ep_iso")
        s = p.bn(0)
        p.call("fp_prime_get_par", s)
        p.dump(s)
        return s
    res, s = ecctx.run(env, cfg, c.cid, build, 0x3C)
    k, ki = res.calls[0], res.calls[1]
    if k.unsupported or ki.unsupported:
        raise Unsupported()
    if k.errored or ki.errored:
        raise HarnessError("h2c_ep_consts failed")
    m = MapCtx()
    p = c.F.p
    m.c, m.p = c, p
    m.F = h2c.HFp(p)
    m.E = c.E
    m.u = c.F.dec(k.blobs[0])[0]
    m.consts = [c.F.dec(b)[0] for b in k.blobs[1:6]]
    m.dst_full = bytes(k.blobs[6])                 # RLC_STRING with its trailing NUL: sizeof(RLC_DSTAG) bytes
    m.dst = m.dst_full[:-1]                        # strlen(RLC_DSTAG) bytes
    r = k.rets
    m.ctmap, m.level, m.fp_prime = r[0], r[1], r[2]
    ids = dict(sha224=r[6], sha256=r[7], sha384=r[8], sha512=r[9])
    m.hash = hash_name(ids, r[4])
    m.md_len = r[5]
    m.ep_map = {r[10]: "basic", r[11]: "sswum", r[12]: "swift"}[r[3]]
    m.rnd_size, m.mod18, m.fp_bytes = r[13], r[14], r[15]
    m.elm = (m.fp_prime + m.level + 7) // 8
    m.par = res.dumps[s].value
    m.iso = None
    F = m.F
    if ki.rets and ki.rets[0]:
        dxn, dxd, dyn, dyd = ki.rets[1:5]
        bl = [c.F.dec(b)[0] for b in ki.blobs]
        if len(bl) != 2 + dxn + dxd + dyn + dyd + 4 or any(v is None for v in bl):
            raise Violation("isogeny table of curve %d is malformed (degrees out of range / non-canonical)" % c.cid)
        o = 2
        m.iso = dict(a=bl[0], b=bl[1])
        for nm, d in (("xn", dxn), ("xd", dxd), ("yn", dyn), ("yd", dyd)):
            m.iso[nm] = bl[o:o + d + 1]
            o += d + 1
    ab = c.a % p != 0 and c.b % p != 0
    m.kind = "sswu" if (m.ctmap or ab) else "svdw"
    m.zproblem = None
    m.exc_us = []
    if m.u is None:
        raise Violation("ep_map_u of curve %d is not canonical" % c.cid)
    if m.kind == "sswu":
        if m.ctmap:
            if m.iso is None:
                raise Violation("curve %d is flagged ctmap but publishes no isogeny" % c.cid)
            m.A, m.B = m.iso["a"], m.iso["b"]
        else:
            m.A, m.B = c.a, c.b
        m.zproblem = h2c.sswu_z_check(F, m.A, m.B, m.u)
        m.exc_us = h2c.sswu_exceptional_us(F, m.u)
    else:
        m.A, m.B = c.a, c.b
        m.zproblem = h2c.svdw_z_check(F, m.A, m.B, m.u)
        try:
            m.svdw = h2c.svdw_consts(F, m.A, m.B, m.u)
        except h2c.RefError as e:
            m.svdw = None
            m.zproblem = m.zproblem or str(e)
        m.exc_us = h2c.svdw_exceptional_us(F, m.A, m.B, m.u)
    # SwiftEC applicability as the source documents it: ordinary curve, p = 1 mod 3, a = 0 (b = 0: j = 1728 variant)
    m.swift = None
    if not c.is_super and m.mod18 % 3 != 2:
        if c.a % p == 0 and c.b % p != 0:
            m.swift = "a0"
        elif c.b % p == 0 and c.a % p != 0:
            m.swift = "b0"
    m.s3 = m.consts[4]
    # effective cofactor used for clearing: BLS12 curves use 1 - x (Piellard, cited by the source) when the build
    # supports endomorphisms; every other curve its cofactor h
    m.heff = c.h
    m.family = None
    if h2c.bn_param(p, c.n, [m.par]) is not None:
        m.family = "bn"
    elif h2c.bls12_param(p, c.n, [m.par]) is not None:
        m.family = "bls12"
        if c.inf[11]:
            m.heff = 1 - m.par
    _MC[key] = m
    return m


def ep_elems(m, ub, count):
    return [h2c.os2ip_mod(ub[i * m.elm:(i + 1) * m.elm], m.p) for i in range(count)]


def ref_map_half(m, u):
    """One field element through the map the source selects (SSWU [+ isogeny] or SvdW). Returns (Q, info)."""
    F = m.F
    if m.kind == "sswu":
        Q, info = h2c.map_sswu(F, m.A, m.B, m.u, u)
        if info["exceptional"] and m.zproblem:
            raise h2c.RefError("SSWU exceptional input with a Z violating RFC 9380 6.6.2: " + m.zproblem)
        if m.iso is not None:
            if not F.eq(F.sqr(Q[1]), h2c.rhs(F, m.A, m.B, Q[0])):
                raise HarnessError("reference SSWU left the isogenous curve")
            Q = h2c.iso_map(F, m.iso, Q)
            if Q is None:
                info = dict(info, kernel=True)
    else:
        if m.svdw is None:
            raise h2c.RefError("SvdW constants undefined: " + str(m.zproblem))
        Q, info = h2c.map_svdw(F, m.A, m.B, m.u, u, m.svdw)
    if Q is not None and not m.E.on_curve(Q):
        if m.iso is not None:
            # the map to the isogenous curve is the reference's own (its output satisfies that curve's equation by
            # construction); the rational map is evaluated from the coefficient table the library publishes
            raise Violation("curve %d: the published isogeny coefficients do not map the isogenous curve onto the "
                            "curve (plain polynomial evaluation of xn/xd, y*yn/yd)" % m.c.cid, kind="isogeny-table")
        raise HarnessError("reference map left the curve")
    return Q, info


def half_label(m, info):
    return "half:%s:%s:sgn%d%s" % (m.kind, info["branch"], info["sgn"], ":exceptional" if info["exceptional"] else "")


def ref_two_halves(m, us):
    """(expected point, labels, identity_possible); raises RefError when the construction is undefined."""
    Q, lab = [], []
    for u in us:
        q, info = ref_map_half(m, u)
        Q.append(q)
        lab.append(half_label(m, info))
    S = m.E.add(Q[0], Q[1])
    if S is None:
        lab.append("sum:identity")
    elif m.E.eq(Q[0], Q[1]):
        lab.append("sum:doubling")
    return m.E.mul(m.heff, S), lab


def ref_basic(m, x0):
    """try-and-increment from x0: first x >= x0 (mod p) with g(x) a non-zero square; both roots are admissible."""
    F = m.F
    x, steps = x0 % m.p, 0
    while True:
        g = h2c.rhs(F, m.c.a, m.c.b, x)
        if g != 0 and F.is_square(g):
            break
        x = (x + 1) % m.p
        steps += 1
        if steps > 4000:
            raise h2c.RefError("try-and-increment did not terminate in 4000 steps")
    y = F.sqrt(g)
    P = m.E.mul(m.heff, (x, y))
    return P, ["basic:steps=%s" % (steps if steps < 4 else "4+")] + (["basic:wrapped"] if x < x0 % m.p else [])


def ref_swift(m, u, t, s):
    """SwiftEC (a = 0). Returns (expected point or 'exceptional', candidate set, labels)."""
    F = m.F
    cand = h2c.swift_candidates(F, m.c.b, m.s3, u, t)
    if cand is None:
        return "exceptional", None, ["swift:exceptional"]
    x1, x2, x3 = cand
    for nm, x in (("x3", x3), ("x2", x2), ("x1", x1)):
        g = h2c.rhs(F, 0, m.c.b, x)
        if F.is_square(g):
            break
    else:
        raise HarnessError("SwiftEC reference: no candidate on the curve")
    y = F.sqrt(g)
    # source convention: sign bit 1 -> even y, sign bit 0 -> odd y
    if (y & 1) != (1 - s):
        y = (-y) % m.p
    return m.E.mul(m.heff, (x, y)), cand, ["swift:%s:s%d" % (nm, s)]


def check_point(m, blob, what, want, identity_ok, up_to_sign=False, extra=None):
    """validity + (optional) equality; want = affine point / None / Ellipsis (no reference value)"""
    c = m.c
    extra = extra or {}
    P, meta = ecctx.dec_point(c, blob, what)
    if P is not None and not m.E.on_curve(P):
        raise Violation("%s: result is not on the curve" % what, kind="off-curve", got=P, **extra)
    if P is not None and m.E.mul(c.n, P) is not None:
        raise Violation("%s: result is not in the order-r subgroup ([r]P != O)" % what, kind="order", got=P, **extra)
    if want is Ellipsis:
        if P is None and not identity_ok:
            raise Violation("%s: identity returned where the construction cannot yield it" % what, kind="identity", **extra)
        return P
    ok = m.E.eq(P, want) or (up_to_sign and m.E.eq(P, m.E.neg(want)))
    if not ok:
        raise Violation("%s: result differs from the reference construction" % what, kind="mismatch", got=P, want=want,
                        **extra)
    return P


def same_bytes(blobs, what, extra=None):
    first = blobs[0]
    for i, b in enumerate(blobs[1:]):
        if b != first:
            raise Violation("%s: not a deterministic function of the input bytes (run %d differs: repeated call / other "
                            "stale-storage pattern)" % (what, i + 1), kind="nondeterministic", first=first.hex(),
                            other=b.hex(), **(extra or {}))


# ------------------------------------------------------------------------------------------ prime curves: messages

EP_OPS = ["ep_map", "ep_map_sswum", "ep_map_sswum", "ep_map_basic", "ep_map_swift", "g1_map"]


def job_pick(env, items):
    """one curve per worker job; consecutive jobs of a (target, cfg) have consecutive seeds: even coverage"""
    if not items:
        raise Unsupported()
    return items[env.job_seed % len(items)]


def strat_ep_msg(env, cfg):
    c = job_pick(env, ecctx.discover(env, cfg)["curves"])
    mapctx(env, cfg, c)

    @st.composite
    def s(draw):
        return dict(cid=c.cid, op=draw(st.sampled_from(EP_OPS)), msg=draw(messages()),
                    reselect=draw(RESELECT4), stale=draw(st.integers(0, 1)), poison=draw(st.integers(0, 255)))
    return s()


def ep_msg_reference(m, op, msg):
    """(want, labels, up_to_sign, expect_error). want may be Ellipsis (validity only)."""
    variant = {"ep_map": m.ep_map, "g1_map": m.ep_map}.get(op, op[len("ep_map_"):])
    if m.hash is None:
        raise Unsupported()
    if variant == "sswum":
        ub = h2c.expand_message_xmd(msg, m.dst_full, 2 * m.elm, m.hash)
        try:
            want, lab = ref_two_halves(m, ep_elems(m, ub, 2))
        except h2c.RefError:
            return Ellipsis, ["ref:validity-only(construction undefined: Z criterion)"], False, False
        return want, lab, False, False
    if variant == "basic":
        ub = h2c.expand_message_xmd(msg, m.dst, m.elm, m.hash)
        want, lab = ref_basic(m, h2c.os2ip_mod(ub, m.p))
        return want, lab, True, False
    # swift
    if m.swift is None:
        return None, ["swift:refused"], False, True
    if m.swift == "b0":
        return Ellipsis, ["ref:validity-only(b=0 SwiftEC variant)"], False, False
    ub = h2c.expand_message_xmd(msg, m.dst_full, 2 * m.elm + 1, m.hash)
    u, t = ep_elems(m, ub, 2)
    want, cand, lab = ref_swift(m, u, t, ub[2 * m.elm] & 1)
    if want == "exceptional":
        return Ellipsis, lab, False, False
    return want, lab, False, False


def run_ep_msg(env, cfg, case):
    c = ecctx.curve(env, cfg, case["cid"])
    m = mapctx(env, cfg, c)
    op, msg = case["op"], bytes(case["msg"])
    if op == "g1_map" and not c.is_pairf:
        op = "ep_map"
    what = "%s[cid=%d](len=%d)" % (op, c.cid, len(msg))
    want, lab, up_to_sign, expect_error = ep_msg_reference(m, op, msg)
    stale = c.G if case["stale"] else None

    def build(p):
        sm, so = p.buf(msg), p.buf(other_message(msg))
        r1, r2, r3 = (p.new("EP", ecctx.enc_point(c, stale)) for _ in range(3))
        p.call(op, r1, sm)
        p.dump(r1)
        p.call(op, r3, so)
        if case["reselect"]:
            p.call("ep_param_set", c.cid)
        p.call(op, r2, sm)
        p.dump(r2)
        return sm, so, r1, r2
    blobs = []
    for pz in (case["poison"], case["poison"] ^ 0xFF):
        res, (sm, so, r1, r2) = ecctx.run(env, cfg, c.cid, build, pz)
        calls = [res.calls[0], res.calls[-1]]
        if calls[0].unsupported:
            raise Unsupported()
        if expect_error:
            for cl in calls:
                if cl.ub:
                    raise Violation("undefined behaviour in %s: %s" % (what, cl.ub), ub=cl.ub)
                if not cl.errored:
                    raise Violation("%s: SwiftEC is not defined for this curve (a*b != 0 or p = 2 mod 3) yet no error "
                                    "was reported" % what, kind="no-error")
            continue
        for cl in res.calls:
            chk_call(cl, what)
            if sm in cl.changed or so in cl.changed:
                raise Violation("%s modified its input message" % what)
        blobs += [res.dumps[r1], res.dumps[r2]]
    labels = ["op:" + op, "cid:%d" % c.cid, "map:" + m.kind] + msg_labels(msg) + lab
    if case["reselect"]:
        labels.append("determinism:after-reselection")
    if m.zproblem:
        labels.append("zcheck:cid%d:%s" % (c.cid, m.zproblem))
    if expect_error:
        return True, labels
    same_bytes(blobs, what)
    P = check_point(m, blobs[0], what, want, identity_ok=False, up_to_sign=up_to_sign)
    labels.append("ref:validity-only" if want is Ellipsis else ("ref:equal-up-to-sign" if up_to_sign else "ref:equal"))
    if P is None:
        labels.append("result:identity")
    return len(msg) != 32, labels


# ------------------------------------------------------------------------------------------ prime curves: ep_map_rnd

# (sampled_from is biased towards the first entries: the plain uniform class goes first)
U_CLASSES = ["rand", "rand", "rand", "exc", "exc", "zero", "one", "minus1", "small", "neg-other", "same-other", "raw",
             "ones"]
SW_CLASSES = ["rand", "rand", "rand", "rand", "pole", "pole", "zero", "one", "minus1", "small"]
X_CLASSES = ["rand", "rand", "rand", "zero", "pm1", "small", "ones"]


def swift_applicable(c):
    p = c.F.p
    return (not c.is_super) and p % 3 == 1 and ((c.a % p == 0) != (c.b % p == 0))


def strat_ep_rnd(env, cfg):
    cs = ecctx.discover(env, cfg)["curves"]
    if not cs:
        raise Unsupported()
    if mapctx(env, cfg, cs[0]).ep_map == "swift":
        # SwiftEC builds refuse curves with a*b != 0 or p = 2 mod 3: one job in four checks the refusal
        app = [c for c in cs if swift_applicable(c)]
        cs = app * 3 + [c for c in cs if not swift_applicable(c)] if app else cs
    c = job_pick(env, cs)
    m = mapctx(env, cfg, c)
    top = (1 << (8 * m.elm)) - 1

    @st.composite
    def s(draw):
        def half(classes):
            return dict(cls=draw(st.sampled_from(classes)), r=draw(ints.uniform(0, top)), k=draw(ints.uniform(0, (1 << 64) - 1)))
        d = dict(cid=c.cid, variant=m.ep_map, reselect=draw(RESELECT4), stale=draw(st.integers(0, 1)),
                 poison=draw(st.integers(0, 255)),
                 length=draw(st.sampled_from(["exact"] * 20 + ["longer", "longer", "short", "short1", "empty"])),
                 extra=draw(st.binary(min_size=1, max_size=9)))
        if m.ep_map == "sswum":
            d["h0"], d["h1"] = half(U_CLASSES), half(U_CLASSES)
        elif m.ep_map == "swift":
            d["h0"], d["h1"] = half(SW_CLASSES), half(SW_CLASSES)
            d["s"] = draw(st.integers(0, 1))
            d["lastbyte"] = draw(st.integers(0, 127))
        else:
            d["h0"] = half(X_CLASSES)
        return d
    return s()


def lift(m, u, k, nbytes=None):
    """big-endian string of nbytes whose value is congruent to u: u + k'p with k' = k mod (number of representatives)"""
    nbytes = nbytes or m.elm
    top = (1 << (8 * nbytes)) - 1
    u %= m.p
    if u > top:
        raise Unsupported()
    reps = (top - u) // m.p + 1
    return (u + (k % reps) * m.p).to_bytes(nbytes, "big")


def resolve_u(m, spec, other=None):
    """(field element, byte string, class actually realised)"""
    cls, r, k, p = spec["cls"], spec["r"], spec["k"], m.p
    if cls == "raw":
        return r % p, r.to_bytes(m.elm, "big"), cls
    if cls == "ones":
        b = b"\xff" * m.elm
        return int.from_bytes(b, "big") % p, b, cls
    if cls == "exc" and not m.exc_us:
        cls = "rand"
    if cls in ("neg-other", "same-other") and other is None:
        cls = "rand"
    if cls == "zero":
        u = 0
    elif cls == "one":
        u = 1
    elif cls == "minus1":
        u = p - 1
    elif cls == "exc":
        u = m.exc_us[r % len(m.exc_us)]
    elif cls == "small":
        u = r % 17
    elif cls == "neg-other":
        u = (-other) % p
    elif cls == "same-other":
        u = other
    else:
        u = (r + OFFSET) % p
    return u, lift(m, u, k), cls


def run_ep_rnd(env, cfg, case):
    c = ecctx.curve(env, cfg, case["cid"])
    m = mapctx(env, cfg, c)
    if case["variant"] != m.ep_map:
        raise Unsupported()
    F, p = m.F, m.p
    labels = ["op:ep_map_rnd", "cid:%d" % c.cid, "rnd:" + m.ep_map]
    extra = {}
    identity_ok = False
    up_to_sign = False
    want = Ellipsis
    nt = False
    if m.ep_map == "sswum":
        labels.append("map:" + m.kind)
        u0, b0, c0 = resolve_u(m, case["h0"])
        u1, b1, c1 = resolve_u(m, case["h1"], other=u0)
        data = b0 + b1
        labels += ["u0:" + c0, "u1:" + c1]
        nt = c0 != "rand" or c1 != "rand"
        try:
            want, lab = ref_two_halves(m, [u0, u1])
            labels += lab
        except h2c.RefError as e:
            # the documented construction does not define the map here (constants violate the RFC's criteria):
            # validity and determinism only; the identity is acceptable only for u1 = -u0 != 0
            want = Ellipsis
            identity_ok = (u0 + u1) % p == 0 and u0 != 0
            labels.append("ref:validity-only(construction undefined: Z criterion)")
            extra = dict(zdefect=True, zproblem=m.zproblem)
        if m.zproblem:
            labels.append("zcheck:cid%d:%s" % (c.cid, m.zproblem))
    elif m.ep_map == "swift":
        if m.swift is None:
            want = None
        else:
            def st_elem(spec, u_for_pole=None):
                cls, r, k = spec["cls"], spec["r"], spec["k"]
                if cls == "pole":
                    if u_for_pole is None or m.swift != "a0":
                        cls = "rand"
                    else:
                        v = F.neg(F.add(F.mul(F.sqr(u_for_pole), u_for_pole), c.b))
                        if F.is_square(v):
                            y = F.sqrt(v)
                            return (y if r & 1 else F.neg(y)), cls
                        cls = "rand"
                if cls == "zero":
                    return 0, cls
                if cls == "one":
                    return 1, cls
                if cls == "minus1":
                    return p - 1, cls
                if cls == "small":
                    return r % 17, cls
                return (r + OFFSET) % p, "rand"
            u, cu = st_elem(dict(case["h0"], cls="rand" if case["h0"]["cls"] == "pole" else case["h0"]["cls"]))
            t, ct = st_elem(case["h1"], u_for_pole=u)
            s = case["s"]
            data = lift(m, u, case["h0"]["k"]) + lift(m, t, case["h1"]["k"]) + bytes([2 * case["lastbyte"] + s])
            labels += ["u:" + cu, "t:" + ct]
            nt = cu != "rand" or ct != "rand"
            if m.swift == "a0":
                want, cand, lab = ref_swift(m, u, t, s)
                labels += lab
                if want == "exceptional":
                    # the source documents the point at infinity here (ep_set_infty); the construction itself is
                    # undefined: require a valid, deterministic answer
                    want = Ellipsis
                    identity_ok = True
                    extra = dict(swift_exceptional=True)
                    nt = True
            else:
                want = Ellipsis
                identity_ok = True
                labels.append("ref:validity-only(b=0 SwiftEC variant)")
        if want is None:
            data = bytes(m.rnd_size)
    else:
        spec = case["h0"]
        cls = spec["cls"]
        nb = m.rnd_size
        if cls == "ones":
            data = b"\xff" * nb
            x0 = int.from_bytes(data, "big") % p
        else:
            x0 = {"zero": 0, "pm1": p - 1, "small": spec["r"] % 17}.get(cls, (spec["r"] + OFFSET) % p)
            data = lift(m, x0, spec["k"], nb)
        labels.append("x:" + cls)
        nt = cls != "rand"
        want, lab = ref_basic(m, x0)
        labels += lab
        up_to_sign = True
    # length classes
    length = case["length"]
    expect_error = False
    if m.ep_map == "swift" and m.swift is None:
        expect_error = True
        labels.append("swift:refused")
        length = "exact"
    if length == "longer" and m.ep_map != "sswum":
        length = "exact"          # the other variants consume the whole string: its length is part of the input
    if length == "longer":
        # extra bytes beyond ep_map_rnd_size(): the header does not say whether they are ignored -> layers (1)+(2) only
        data = data + bytes(case["extra"])
        labels.append("len:longer")
        if want is not Ellipsis:
            identity_ok = want is None
            want = Ellipsis
    elif length in ("short", "short1", "empty"):
        cut = {"short": max(0, len(data) - 1 - case["extra"][0] % 8), "short1": len(data) - 1, "empty": 0}[length]
        data = data[:cut]
        expect_error = True
        labels.append("len:too-short")
        nt = True
    else:
        labels.append("len:exact")
    what = "ep_map_rnd[cid=%d,%s](len=%d)" % (c.cid, m.ep_map, len(data))
    stale = c.G if case["stale"] else None

    def build(pr):
        sm, so = pr.buf(data), pr.buf(bytes(b ^ 0x5A for b in data[:m.rnd_size]) + b"\xa5" * max(0, m.rnd_size - len(data)))
        r1, r2, r3 = (pr.new("EP", ecctx.enc_point(c, stale)) for _ in range(3))
        pr.call("ep_map_rnd", r1, sm)
        pr.dump(r1)
        pr.call("ep_map_rnd", r3, so)
        if case["reselect"]:
            pr.call("ep_param_set", c.cid)
        pr.call("ep_map_rnd", r2, sm)
        pr.dump(r2)
        return sm, r1, r2
    blobs = []
    for pz in (case["poison"], case["poison"] ^ 0xFF):
        res, (sm, r1, r2) = ecctx.run(env, cfg, c.cid, build, pz)
        calls = [res.calls[0], res.calls[-1]]
        if calls[0].unsupported:
            raise Unsupported()
        for cl in calls:
            if cl.ub:
                raise Violation("undefined behaviour in %s: %s" % (what, cl.ub), ub=cl.ub, **extra)
            if expect_error:
                if not cl.errored:
                    raise Violation("%s: an input the map is not defined for (too short / SwiftEC not applicable) was "
                                    "accepted without an error" % what, kind="no-error")
            elif cl.errored:
                raise Violation("%s reported an error (caught=%d e=%d code=%d) for an admissible uniform string" % (
                    what, cl.caught, cl.e, cl.code), kind="error", **extra)
            if sm in cl.changed:
                raise Violation("%s modified its input" % what)
        blobs += [res.dumps[r1], res.dumps[r2]]
    if case["reselect"]:
        labels.append("determinism:after-reselection")
    if expect_error:
        return True, labels
    same_bytes(blobs, what, extra)
    P = check_point(m, blobs[0], what, want, identity_ok, up_to_sign, extra)
    if m.ep_map == "swift" and m.swift == "a0" and want is not Ellipsis and P is not None and c.h == 1:
        # order-independent part of the SwiftEC oracle: the abscissa is one of the three candidates
        if P[0] not in cand:
            raise Violation("%s: abscissa is none of the three SwiftEC candidates" % what, kind="mismatch")
    labels.append("ref:validity-only" if want is Ellipsis else ("ref:equal-up-to-sign" if up_to_sign else "ref:equal"))
    if P is None:
        labels.append("result:identity")
    return nt, labels


# ------------------------------------------------------------------------------------------ cofactor clearing itself

def strat_ep_cof(env, cfg):
    c = job_pick(env, ecctx.discover(env, cfg)["curves"])
    mapctx(env, cfg, c)
    n = c.n
    special = [1, 2, 3, n - 1, n - 2, 0, 5, n // 2]

    @st.composite
    def s(draw):
        k = draw(st.sampled_from([0, 0, 1, 2, 2] if c.h > 1 else [0, 0, 1]))
        if k == 0:
            P = {"m": draw(ints.uniform(1, n - 1))}
        elif k == 1:
            P = {"m": draw(st.sampled_from(special))}
        else:
            P = {"x": draw(ints.uniform(0, c.F.p - 1)), "s": draw(st.integers(0, 1))}
        return dict(cid=c.cid, P=P, alias=draw(st.sampled_from([0, 0, 1])), stale=draw(st.sampled_from([1, 0])),
                    poison=draw(st.integers(0, 255)))
    return s()


def run_ep_cof(env, cfg, case):
    c = ecctx.curve(env, cfg, case["cid"])
    m = mapctx(env, cfg, c)
    E = m.E
    spec = case["P"]
    if "m" in spec:
        P = ecctx.small_multiple(c, spec["m"]) if spec["m"] % c.n else None
    else:
        P = E.lift_x(spec["x"] % m.p)
        if P is None:
            raise Unsupported()
        if spec["s"]:
            P = E.neg(P)
    want = E.mul(m.heff, P)
    alias = case["alias"]
    stale = c.G if case["stale"] else None
    what = "ep_mul_cof[cid=%d](alias=%d)" % (c.cid, alias)

    def build(p):
        sp = p.new("EP", ecctx.enc_point(c, P))
        sr = sp if alias else p.new("EP", ecctx.enc_point(c, stale))
        p.call("ep_mul_cof", sr, sp)
        p.dump(sr)
        return sp, sr
    for pz in (case["poison"], case["poison"] ^ 0xFF):
        res, (sp, sr) = ecctx.run(env, cfg, c.cid, build, pz)
        cl = res.calls[0]
        chk_call(cl, what)
        got, meta = ecctx.dec_point(c, res.dumps[sr], what)
        if not alias and sp in cl.changed:
            raise Violation("%s modified its input" % what)
        if got is not None and not E.on_curve(got):
            raise Violation("%s: result is not on the curve" % what, kind="off-curve", got=got)
        if not E.eq(got, want):
            raise Violation("%s: result is not [h_eff]P (h_eff = %s)" % (what, "1 - x" if m.heff != c.h else "h"),
                            kind="mismatch", got=got, want=want, family=m.family,
                            output_untouched=(sr not in cl.changed), stale_is_answer=E.eq(stale, want))
        if got is not None and E.mul(c.n, got) is not None:
            raise Violation("%s: result is not in the order-r subgroup" % what, kind="order", got=got)
    lab = ["op:ep_mul_cof", "cid:%d" % c.cid, "alias:%d" % alias, "heff:%s" % ("1" if m.heff == 1 else ("1-x" if m.heff != c.h else "h"))]
    if "x" in spec:
        lab.append("point:outside-subgroup" if E.mul(c.n, P) is not None else "point:lifted-in-subgroup")
    if P is None:
        lab.append("point:identity")
    return P is not None and (not alias or m.heff != 1), lab


# ------------------------------------------------------------------------------------------ twists over Fp2

_M2 = {}


def map2ctx(env, cfg, x):
    key = (cfg, x.cid)
    if key in _M2:
        return _M2[key]
    m1 = mapctx(env, cfg, x.base)
    ecctx.invalidate(env, cfg)
    pcctx.discover(env, cfg)["cur"] = None      # the plain selection above may have dropped the twist

    def build(p):
        p.call("h2c_ep2_consts")
        p.call("h2c_ep2_iso")
        return None
    res, _ = pcctx.run(env, cfg, x, build, 0x3C)
    k, ki = res.calls[0], res.calls[1]
    if k.unsupported or ki.unsupported:
        raise Unsupported()
    F = x.F
    nb = F.nbytes

    def f2(b):
        v = (F.dec(b[:nb])[0], F.dec(b[nb:2 * nb])[0])
        if v[0] is None or v[1] is None:
            raise Violation("ep2 map constant not canonical (cid %d)" % x.cid)
        return v
    m = MapCtx()
    m.x, m.m1, m.p = x, m1, F.p
    if not x.qnr:
        raise Unsupported()
    m.F = h2c.HFp2(F.p, x.qnr)
    m.E = rec.Curve(m.F, tuple(x.a2), tuple(x.b2))
    m.a2, m.b2 = tuple(x.a2), tuple(x.b2)
    m.u = f2(k.blobs[0])
    m.ctmap = k.rets[0]
    m.elm, m.hash, m.md_len, m.fp_bytes, m.ep_map = m1.elm, m1.hash, m1.md_len, m1.fp_bytes, m1.ep_map
    m.iso = None
    if ki.rets and ki.rets[0]:
        dxn, dxd, dyn, dyd = ki.rets[1:5]
        bl = [f2(b) for b in ki.blobs]
        if len(bl) != 2 + dxn + dxd + dyn + dyd + 4:
            raise Violation("isogeny table of the twist of curve %d is malformed" % x.cid)
        o = 2
        m.iso = dict(a=bl[0], b=bl[1])
        for nm, d in (("xn", dxn), ("xd", dxd), ("yn", dyn), ("yd", dyd)):
            m.iso[nm] = bl[o:o + d + 1]
            o += d + 1
    F2 = m.F
    ab = not F2.is_zero(m.a2) and not F2.is_zero(m.b2)
    m.kind = "sswu" if (m.ctmap or ab) else "svdw"
    m.svdw = None
    if m.kind == "sswu":
        if m.ctmap and m.iso is None:
            raise Violation("twist of curve %d is flagged ctmap but publishes no isogeny" % x.cid)
        m.A, m.B = (m.iso["a"], m.iso["b"]) if m.ctmap else (m.a2, m.b2)
        m.zproblem = h2c.sswu_z_check(F2, m.A, m.B, m.u)
    else:
        m.A, m.B = m.a2, m.b2
        m.zproblem = h2c.svdw_z_check(F2, m.A, m.B, m.u)
        try:
            m.svdw = h2c.svdw_consts(F2, m.A, m.B, m.u)
        except h2c.RefError as e:
            m.zproblem = m.zproblem or str(e)
    m.s3 = m1.s3
    m.swift = "a0" if (F2.is_zero(m.a2) and not F2.is_zero(m.b2) and F.p % 3 == 1) else None
    # cofactor clearing: the endomorphism-based formulas the source cites, evaluated with the reference psi
    m.psi = h2c.twist_psi(F2, tuple(x.E2), F.p, x.ttype == MTYPE)
    G2 = tuple(tuple(v) for v in x.G2)
    if not m.E.on_curve(G2) or not m.E.eq(m.psi(G2), m.E.mul(F.p % x.r, G2)):
        raise HarnessError("reference psi does not act as [p] on G2 for curve %d" % x.cid)
    m.family = m1.family
    m.par = m1.par
    _M2[key] = m
    return m


def clear2(m, Q):
    if Q is None:
        return None
    if m.family == "bn":
        return h2c.clear_cofactor_bn_g2(m.E, m.psi, m.par, Q)
    if m.family == "bls12":
        return h2c.clear_cofactor_bls12_g2(m.E, m.psi, m.par, Q)
    return m.E.mul(m.x.h2, Q)


def ref2_map_half(m, u):
    F2 = m.F
    if m.kind == "sswu":
        Q, info = h2c.map_sswu(F2, m.A, m.B, m.u, u)
        if info["exceptional"] and m.zproblem:
            raise h2c.RefError("SSWU exceptional input with invalid Z")
        if m.iso is not None:
            Q = h2c.iso_map(F2, m.iso, Q)
    else:
        if m.svdw is None:
            raise h2c.RefError("SvdW constants undefined")
        Q, info = h2c.map_svdw(F2, m.A, m.B, m.u, u, m.svdw)
    if Q is not None and not m.E.on_curve(Q):
        if m.iso is not None:
            raise Violation("twist of curve %d: the published isogeny coefficients do not map the isogenous curve onto "
                            "the twist" % m.x.cid, kind="isogeny-table")
        raise HarnessError("reference map left the twist")
    return Q, info


EP2_OPS = ["ep2_map", "ep2_map_sswum", "ep2_map_sswum", "ep2_map_basic", "ep2_map_swift", "g2_map"]


def strat_ep2_msg(env, cfg):
    x = job_pick(env, pcctx.discover(env, cfg)["ctxs"])
    map2ctx(env, cfg, x)

    @st.composite
    def s(draw):
        return dict(cid=x.cid, op=draw(st.sampled_from(EP2_OPS)), msg=draw(messages()),
                    reselect=draw(RESELECT4), stale=draw(st.integers(0, 1)), poison=draw(st.integers(0, 255)))
    return s()


def ep2_reference(m, op, msg):
    F2, p, elm = m.F, m.p, m.elm
    variant = {"ep2_map": m.ep_map, "g2_map": m.ep_map}.get(op, op[len("ep2_map_"):])
    if m.hash is None:
        raise Unsupported()
    if variant == "sswum":
        ub = h2c.expand_message_xmd(msg, b"RELIC", 4 * elm, m.hash)
        e = [h2c.os2ip_mod(ub[i * elm:(i + 1) * elm], p) for i in range(4)]
        lab, Q = [], []
        try:
            for u in ((e[0], e[1]), (e[2], e[3])):
                q, info = ref2_map_half(m, u)
                Q.append(q)
                lab.append(half_label(m, info))
        except h2c.RefError:
            return Ellipsis, ["ref:validity-only(construction undefined: Z criterion)"], False
        return clear2(m, m.E.add(Q[0], Q[1])), lab, False
    if variant == "basic":
        d = md_map_digest(m.hash, msg)
        x0 = int.from_bytes(d[:min(m.fp_bytes, m.md_len)], "big") % p
        x, steps = (x0, 0), 0
        while True:
            g = h2c.rhs(F2, m.a2, m.b2, x)
            if F2.is_square(g) and not F2.is_zero(g):
                break
            x = ((x[0] + 1) % p, x[1])
            steps += 1
            if steps > 4000:
                raise HarnessError("ep2 try-and-increment reference did not terminate")
        y = F2.sqrt(g)
        return clear2(m, (x, y)), ["basic:steps=%s" % (steps if steps < 4 else "4+")], True
    if m.swift is None:
        return Ellipsis, ["ref:validity-only(SwiftEC variant not modelled)"], False
    ub = h2c.expand_message_xmd(msg, b"RELIC", 4 * elm + 1, m.hash)
    e = [h2c.os2ip_mod(ub[i * elm:(i + 1) * elm], p) for i in range(4)]
    u, t, s = (e[0], e[2]), (e[1], e[3]), ub[4 * elm] & 1
    cand = h2c.swift_candidates(F2, m.b2, F2.from_int(m.s3), u, t)
    if cand is None:
        return Ellipsis, ["swift:exceptional"], False
    for nm, xx in (("x3", cand[2]), ("x2", cand[1]), ("x1", cand[0])):
        g = h2c.rhs(F2, m.a2, m.b2, xx)
        if F2.is_square(g):
            break
    else:
        raise HarnessError("SwiftEC reference over Fp2: no candidate on the curve")
    y = F2.sqrt(g)
    # source convention over Fp2: sgn0(y) equals the sign bit
    if F2.sgn0(y) != s:
        y = F2.neg(y)
    return clear2(m, (xx, y)), ["swift:%s:s%d" % (nm, s)], False


def run_ep2_msg(env, cfg, case):
    x = pcctx.ctx_for(env, cfg, case["cid"])
    m = map2ctx(env, cfg, x)
    op, msg = case["op"], bytes(case["msg"])
    what = "%s[cid=%d](len=%d)" % (op, x.cid, len(msg))
    want, lab, up_to_sign = ep2_reference(m, op, msg)
    stale = x.G2 if case["stale"] else None

    def build(p):
        sm, so = p.buf(msg), p.buf(other_message(msg))
        r1, r2, r3 = (p.new("EP2", pcctx.enc_point2(x, stale)) for _ in range(3))
        p.call(op, r1, sm)
        p.dump(r1)
        p.call(op, r3, so)
        if case["reselect"]:
            p.call("ep_param_set", x.cid)
            p.call("ep2_curve_set_twist", x.ttype)
        p.call(op, r2, sm)
        p.dump(r2)
        return sm, so, r1, r2
    blobs = []
    for pz in (case["poison"], case["poison"] ^ 0xFF):
        res, (sm, so, r1, r2) = pcctx.run(env, cfg, x, build, pz)
        for cl in res.calls:
            chk_call(cl, what)
            if sm in cl.changed or so in cl.changed:
                raise Violation("%s modified its input message" % what)
        blobs += [res.dumps[r1], res.dumps[r2]]
    same_bytes(blobs, what)
    P, meta = pcctx.dec_point2(x, blobs[0], what)
    E = m.E
    if P is not None:
        P = (tuple(P[0]), tuple(P[1]))
        if not E.on_curve(P):
            raise Violation("%s: result is not on the twist" % what, kind="off-curve", got=P)
        if E.mul(x.r, P) is not None:
            raise Violation("%s: result is not in the order-r subgroup ([r]P != O)" % what, kind="order", got=P)
    labels = ["op:" + op, "cid:%d" % x.cid, "map:" + m.kind] + msg_labels(msg) + lab
    if case["reselect"]:
        labels.append("determinism:after-reselection")
    if m.zproblem:
        labels.append("zcheck:twist%d:%s" % (x.cid, m.zproblem))
    if want is Ellipsis:
        if P is None:
            raise Violation("%s: identity returned" % what, kind="identity")
        labels.append("ref:validity-only")
    else:
        ok = E.eq(P, want) or (up_to_sign and E.eq(P, E.neg(want)))
        if not ok:
            raise Violation("%s: result differs from the reference construction" % what, kind="mismatch", got=P, want=want)
        labels.append("ref:equal-up-to-sign" if up_to_sign else "ref:equal")
    if P is None:
        labels.append("result:identity")
    return len(msg) != 32, labels


# ------------------------------------------------------------------------------------------ binary curves

_EB = {}


def ebctx(env, cfg):
    if cfg in _EB:
        return _EB[cfg]
    r = env.runner(cfg)
    if "h2c_eb_map" not in r.ops():
        raise Unsupported()
    out = []
    for cid in range(1, 14):
        p = Prog()
        p.call("h2c_eb_param_set", cid)
        sn, sh = p.bn(0), p.bn(0)
        p.call("h2c_eb_params", sn, sh)
        p.dump(sn), p.dump(sh)
        res = r.run(p)
        if res.calls[0].errored or res.calls[1].errored:
            continue
        k = res.calls[1]
        le = lambda b: int.from_bytes(b, "little")
        e = MapCtx()
        e.cid = cid
        e.f, e.a, e.b = le(k.blobs[0]), le(k.blobs[1]), le(k.blobs[2])
        gx, gy, gz = le(k.blobs[3]), le(k.blobs[4]), le(k.blobs[5])
        rr = k.rets
        e.BASIC = rr[6]
        e.bits, e.fb_bytes, e.md_len = rr[3], rr[4], rr[5]
        ids = dict(sha224=rr[8], sha256=rr[9], sha384=rr[10], sha512=rr[11], b2s160=rr[12], b2s256=rr[13])
        e.hash = hash_name(ids, rr[7])
        e.n, e.h = res.dumps[sn].value, res.dumps[sh].value
        if e.f.bit_length() - 1 != e.bits:
            raise Violation("binary field polynomial has degree %d, FB_POLYN is %d" % (e.f.bit_length() - 1, e.bits))
        e.K = h2c.GF2m(e.f)
        e.C = h2c.BinaryCurve(e.K, e.a, e.b)
        e.G = (gx, gy)
        if rr[0] != e.BASIC or gz != 1 or not e.C.on_curve(e.G) or e.C.mul(e.n, e.G) is not None:
            raise Violation("binary curve %d: generator / order inconsistent (reference check)" % cid)
        out.append(e)
    _EB[cfg] = out
    return out


_EBSEL = {}


def eb_select(env, cfg, prog, cid):
    """eb_param_set costs ~0.3 s in the sanitized build: issue it only when this runner process is on another curve"""
    r = env.runner(cfg)
    key = r.epoch() + (cid,)
    if _EBSEL.get(cfg) != key:
        prog.call("h2c_eb_param_set", cid)
        return 1
    return 0


def eb_point(e, call, what):
    le = lambda b: int.from_bytes(b, "little")
    x, y, z = le(call.blobs[0]), le(call.blobs[1]), le(call.blobs[2])
    coord = call.rets[0]
    if max(x, y, z) >> e.bits:
        raise Violation("%s: coordinate has bits above the field degree" % what, kind="noncanonical")
    if z == 0:
        return None
    if coord == e.BASIC:
        if z != 1:
            raise Violation("%s: point tagged affine but z != 1" % what)
        return (x, y)
    zi = e.K.inv(z)            # Lopez-Dahab: x = X/Z, y = Y/Z^2
    return (e.K.mul(x, zi), e.K.mul(y, e.K.sqr(zi)))


def strat_eb(env, cfg):
    es = ebctx(env, cfg)
    if not es:
        raise Unsupported()
    e = job_pick(env, es)

    @st.composite
    def s(draw):
        return dict(cid=e.cid, msg=draw(messages()), reselect=draw(RESELECT16), poison=draw(st.integers(0, 255)),
                    order=draw(st.integers(0, 2)) == 0)
    return s()


def run_eb(env, cfg, case):
    es = [e for e in ebctx(env, cfg) if e.cid == case["cid"]]
    if not es:
        raise Unsupported()
    e = es[0]
    msg = bytes(case["msg"])
    what = "eb_map[cid=%d](len=%d)" % (e.cid, len(msg))
    K, C = e.K, e.C
    # reference: hash-and-increment on the abscissa, cofactor multiplication; the quadratic's root is not fixed
    # Candidates: the digest prefix read as a polynomial (when 8*min(FB_BYTES, MD_LEN) exceeds the field degree its
    # top bits are folded in by reduction modulo f — what polynomial arithmetic on that representative computes),
    # then the integers (k + 1) mod 2^m, (k + 2) mod 2^m, ... (the source reduces the counter with bn_mod_2b).
    d = md_map_digest(e.hash, msg)
    kint = int.from_bytes(d[:min(e.fb_bytes, e.md_len)], "big")
    wide = (kint >> e.bits) != 0
    steps = 0
    while True:
        pts = C.lift_x(K.red(kint))
        if pts is not None:
            break
        kint = (kint + 1) & K.mask
        steps += 1
        if steps > 4000:
            raise HarnessError("eb try-and-increment reference did not terminate")
    want = C.mul(e.h, pts[0])
    pts_out = []
    raw = []
    for pz in (case["poison"], case["poison"] ^ 0xFF):
        p = Prog(poison=pz)
        skip = eb_select(env, cfg, p, e.cid)
        sm, so = p.buf(msg), p.buf(other_message(msg))
        p.call("h2c_eb_map", sm)
        p.call("h2c_eb_map", so)
        if case["reselect"]:
            p.call("h2c_eb_param_set", e.cid)
        p.call("h2c_eb_map", sm)
        try:
            res = env.runner(cfg).run(p, timeout=10 + 5 * skip)
        except Exception:
            _EBSEL.pop(cfg, None)
            raise
        _EBSEL[cfg] = env.runner(cfg).epoch() + (e.cid,)
        for cl in res.calls:
            chk_call(cl, what)
            if sm in cl.changed or so in cl.changed:
                raise Violation("%s modified its input message" % what)
        for cl in (res.calls[skip], res.calls[-1]):
            raw.append(b"".join(cl.blobs) + bytes([cl.rets[0] & 0xFF]))
            pts_out.append(eb_point(e, cl, what))
    same_bytes(raw, what)
    P = pts_out[0]
    if P is None:
        raise Violation("%s: identity returned" % what, kind="identity")
    if not C.on_curve(P):
        raise Violation("%s: result is not on the curve" % what, kind="off-curve", got=P)
    if not (P == want or P == C.neg(want)):
        raise Violation("%s: result differs from hash-and-increment + cofactor multiplication (either root)" % what,
                        kind="mismatch", got=P, want=want)
    labels = ["op:eb_map", "ebcid:%d" % e.cid, "basic:steps=%s" % (steps if steps < 4 else "4+"), "ref:equal-up-to-sign"] + \
        msg_labels(msg) + (["eb:digest-prefix-wider-than-field"] if wide else [])
    if case["order"]:
        if C.mul(e.n, P) is not None:
            raise Violation("%s: result is not in the order-n subgroup" % what, kind="order", got=P)
        labels.append("order:[n]P=O checked")
    if case["reselect"]:
        labels.append("determinism:after-reselection")
    return len(msg) != 32, labels


# ------------------------------------------------------------------------------------------ Edwards

_ED = {}
ED25519 = 1


def edctx(env, cfg):
    if cfg in _ED:
        return _ED[cfg]
    r = env.runner(cfg)
    if "h2c_ed_map" not in r.ops():
        raise Unsupported()
    p = Prog()
    p.call("h2c_ed_param_set", ED25519)
    sn, sh = p.bn(0), p.bn(0)
    p.call("h2c_ed_params", sn, sh)
    p.dump(sn), p.dump(sh)
    p.call("info_fp")
    res = r.run(p)
    if res.calls[0].errored or res.calls[1].errored:
        _ED[cfg] = None
        raise Unsupported()
    k = res.calls[1]
    inf_fp = res.calls[2].rets
    W, digs = inf_fp[2], inf_fp[1]
    prime = int.from_bytes(k.blobs[0], "little")
    F = rfp.Field(0, prime, W, digs, inf_fp[3] == inf_fp[12])
    e = MapCtx()
    e.Fld = F
    e.p = prime
    e.a, e.d = F.dec(k.blobs[1])[0], F.dec(k.blobs[2])[0]
    rr = k.rets
    e.level, e.param, e.BASIC, e.fp_prime = rr[2], rr[3], rr[4], rr[5]
    ids = dict(sha224=rr[7], sha256=rr[8], sha384=rr[9], sha512=rr[10])
    e.hash = hash_name(ids, rr[6])
    e.n, e.h = res.dumps[sn].value, res.dumps[sh].value
    e.L = (e.fp_prime + e.level + 7) // 8
    if prime != h2c.P25519 or e.a != prime - 1 or e.d != h2c.ED25519_D or e.h != 8:
        raise Violation("Ed25519 parameters differ from the standard curve (p, a = -1, d = -121665/121666, h = 8)")
    e.E = h2c.Edwards(prime, e.a, e.d)
    _ED[cfg] = e
    return e


def ed_point(e, call, what):
    F = e.Fld
    vals = []
    for b in call.blobs[:3]:
        v, raw = F.dec(b)
        if v is None:
            raise Violation("%s: coordinate not canonical (raw >= p)" % what)
        vals.append(v)
    x, y, z = vals
    if z == 0:
        raise Violation("%s: z = 0" % what)
    if call.rets[0] == e.BASIC and z != 1:
        raise Violation("%s: point tagged affine but z != 1" % what)
    zi = pow(z, -1, e.p)
    P = (x * zi % e.p, y * zi % e.p)
    if call.rets[1]:
        t = F.dec(call.blobs[3])[0]
        if t is None or (t * zi - P[0] * P[1]) % e.p:
            raise Violation("%s: extended coordinate T is not X*Y/Z" % what, kind="extended")
    return P


DSTS = [b"RELIC", b"", b"D", b"QUUX-V01-CS02-with-edwards25519_XMD:SHA-512_ELL2_RO_", b"\x00" * 16, b"t" * 255]


def strat_ed(env, cfg):
    edctx(env, cfg)

    @st.composite
    def s(draw):
        op = draw(st.sampled_from(["ed_map", "ed_map_dst", "ed_map_dst"]))
        dst = draw(st.one_of(st.sampled_from(DSTS), st.binary(min_size=1, max_size=40))) if op == "ed_map_dst" else b"RELIC"
        return dict(op=op, msg=draw(messages()), dst=dst, reselect=draw(RESELECT4),
                    poison=draw(st.integers(0, 255)))
    return s()


def run_ed(env, cfg, case):
    e = edctx(env, cfg)
    if e is None or e.hash is None:
        raise Unsupported()
    op, msg, dst = case["op"], bytes(case["msg"]), bytes(case["dst"])
    what = "%s(len=%d, dst_len=%d)" % (op, len(msg), len(dst))
    want, infos = h2c.hash_to_edwards25519(msg, dst if op == "ed_map_dst" else b"RELIC", e.hash, e.L)
    raw, pts = [], []
    for pz in (case["poison"], case["poison"] ^ 0xFF):
        p = Prog(poison=pz)
        p.call("h2c_ed_param_set", ED25519)
        sm, so, sd = p.buf(msg), p.buf(other_message(msg)), p.buf(dst)
        args = (sm, sd) if op == "ed_map_dst" else (sm,)
        args_o = (so, sd) if op == "ed_map_dst" else (so,)
        p.call("h2c_" + op, *args)
        p.call("h2c_" + op, *args_o)
        if case["reselect"]:
            p.call("h2c_ed_param_set", ED25519)
        p.call("h2c_" + op, *args)
        res = env.runner(cfg).run(p)
        for cl in res.calls:
            chk_call(cl, what)
            if sm in cl.changed or so in cl.changed or sd in cl.changed:
                raise Violation("%s modified its input" % what)
        for cl in (res.calls[1], res.calls[-1]):
            raw.append(b"".join(cl.blobs) + bytes([cl.rets[0] & 0xFF]))
            pts.append(ed_point(e, cl, what))
    same_bytes(raw, what)
    P = pts[0]
    if not e.E.on_curve(P):
        raise Violation("%s: result is not on the curve" % what, kind="off-curve", got=P)
    if e.E.mul(e.n, P) != (0, 1):
        raise Violation("%s: result is not in the prime-order subgroup" % what, kind="order", got=P)
    if P != want:
        raise Violation("%s: result differs from hash_to_curve (Elligator 2, RFC 9380 6.7.1 / 6.8.2, h_eff = 8)" % what,
                        kind="mismatch", got=P, want=want)
    dl = len(dst)
    labels = ["op:" + op, "ref:equal", "dstlen:%s" % (dl if dl in (0, 1, 5, 255) else ("2..15" if dl < 16 else "16..254"))] + \
        msg_labels(msg) + \
        ["half:ell2:%s%s" % (i["branch"], ":exceptional" if i["exceptional"] else "") for i in infos]
    if P == (0, 1):
        labels.append("result:identity")
    if case["reselect"]:
        labels.append("determinism:after-reselection")
    return len(msg) != 32, labels


# ------------------------------------------------------------------------------------------ plumbing

def self_test():
    rec.self_test()
    rfp.self_test()
    h2c.self_test()


def _has_pc(env, cfg):
    try:
        return bool(pcctx.discover(env, cfg)["ctxs"])
    except Unsupported:
        return False


def _has_eb(env, cfg):
    try:
        return bool(ebctx(env, cfg))
    except Unsupported:
        return False


def _has_ed(env, cfg):
    try:
        return edctx(env, cfg) is not None
    except Unsupported:
        return False


MD = ["md-sh224", "md-sh384", "md-sh512"]

# Jobs are handed out in list order (the driver's interleaving key is monotone in the job number), so when the
# wall-clock budget is hit on a loaded machine the entries at the end of TARGETS would get nothing. Every search is
# therefore listed twice: a first pass "<name>" with a quarter of the cases of every target, then "<name>+" with the
# rest (same strategy and oracle, other seeds). `--only ep-rnd,ep-rnd+` selects one search completely.
_SPECS = [
    ("ep-rnd", strat_ep_rnd, run_ep_rnd,
     {"quick": ["base256", "map-swift"],
      "thorough": ["base256", "map-swift", "map-basic", "p255", "p381", "p381-map-swift", "ep-jacob", "ep-basic", "pf-377"]},
     12000, 40000, None),
    ("ep-msg", strat_ep_msg, run_ep_msg,
     {"quick": ["base256"], "thorough": ["base256", "p255", "p381", "ep-jacob", "ep-basic", "pf-377"] + MD}, 16000, 40000, None),
    ("ep2-msg", strat_ep2_msg, run_ep2_msg, {"quick": ["base256"], "thorough": ["base256", "p381", "md-sh512"]},
     4000, 15000, _has_pc),
    ("ed-msg", strat_ed, run_ed, {"quick": ["p255"], "thorough": ["p255", "p255-extnd", "p255-basic"]}, 5000, 15000, _has_ed),
    ("ep-cof", strat_ep_cof, run_ep_cof, {"quick": ["base256"], "thorough": ["base256", "p255", "p381", "pf-377"]}, 1200, 6000, None),
    ("eb-msg", strat_eb, run_eb, {"quick": ["base256"], "thorough": ["base256", "fb-163", "fb-233", "md-sh512"]},
     2000, 5000, _has_eb),
]
TARGETS = [Target(n, s_, r_, c_, quick=max(1, q // 4), thorough=max(1, t // 4), needs=nd) for n, s_, r_, c_, q, t, nd in _SPECS] + \
          [Target(n + "+", s_, r_, c_, quick=q - q // 4, thorough=t - t // 4, needs=nd) for n, s_, r_, c_, q, t, nd in _SPECS]


def _kf_sswu_z(case, v, entry):
    """ep_map_rnd on a curve whose published SSWU constant Z violates g(B/(Z*A)) square (RFC 9380 6.6.2 criterion 4),
    for a uniform string that reaches the exceptional case Z^2 u^4 + Z u^2 = 0 in at least one half: the result is
    off the curve / of the wrong order / the identity, or (affine builds) the addition of the two invalid halves
    raises an error. Only these outcomes on the listed curves are matched."""
    d = v.details
    return (case.get("cid") in entry.get("cids", []) and case.get("variant") == "sswum" and d.get("zdefect") is True and
            d.get("kind") in ("off-curve", "identity", "order", "error"))


def _kf_swift_exc(case, v, entry):
    """ep_map_rnd in a SwiftEC build for (u, t) on the exceptional set (u = 0, t = 0 or u^3 + b + t^2 = 0): the
    candidates are read from never-written stack variables; matched outcomes: result depends on stale storage or an
    error is raised."""
    d = v.details
    return (case.get("variant") == "swift" and d.get("swift_exceptional") is True and
            d.get("kind") in ("nondeterministic", "error", "off-curve", "order"))


def _kf_cof_bn(case, v, entry):
    """ep_mul_cof(r, p) with r != p on a BN curve (cofactor 1): the output is never written. Matched: BN family, no
    aliasing, the output slot was left untouched and the answer differs."""
    d = v.details
    return (case.get("alias") == 0 and d.get("family") == "bn" and d.get("kind") == "mismatch" and
            d.get("output_untouched") is True)


KNOWN_PREDICATES = {"c13_ep_mul_cof_bn_output_unwritten": _kf_cof_bn, "c13_sswu_invalid_z_exceptional": _kf_sswu_z, "c13_swift_exceptional_uninit": _kf_swift_exc}

"""C06 part B — curve / pairing / MPC protocols invert correctly and reject bad input (DESIGN §2 C06).

ECIES, ECDH, ECMQV, SOK, Boneh-Franklin IBE, BGN, Shamir sharing, multiplication triples, MPC group / pairing
triples, the three PSI protocols and the four delegated-pairing protocols."""
import hashlib
import itertools
import struct

from hypothesis import strategies as st

from engine import ecctx, pcctx
from engine.core import Target, Violation, Unsupported
from engine.gen import ints
from engine.proto import Prog, RLC_OK, RLC_ERR, RunnerCrash, sanitizer_signature
from engine.ref import ec as rec
from engine.ref import ext as rext
from engine.ref import proto_ref as pr
from engine.ref import sym

PROPERTY = "C06"
PART = "B"
RULE = ("every case = one generated protocol run: a DRBG seed (keys, ephemeral values and masks are deterministic "
        "functions of it), the protocol inputs and a list of adversarial variations, executed step by step through the "
        "library with the reference recomputing each transmitted value. ECIES: plaintext lengths 0..64 at the block "
        "boundaries with contents {uniform, zeros, 0xFF, padding look-alikes}; the reference recomputes body and tag "
        "from R and the private key, encrypts its own ciphertexts (valid, bad padding, non-block body) for the library "
        "to decrypt, and every single-byte mutation (all positions up to 64 bytes, else sampled + region boundaries), "
        "every truncation, extension, block swap and replaced R must be rejected without output; capacities "
        "exact-1/exact/+1. ECDH/ECMQV: seeded both-sides runs and direct runs on reference-built points (identity, "
        "x with leading zero octets, outside the subgroup on cofactor curves). SOK/IBE/BGN/PSI/delegation/MPC: see "
        "the per-target labels. non-trivial = boundary length, a rejected corrupted ciphertext, a non-full or "
        "below-threshold share subset, overlapping / duplicate / empty sets, a dishonest helper, a refused parameter "
        "set (k < 2, k > n, inadmissible length), or for triples / MPC a complete share-open-combine run whose inputs "
        "are not all trivial")
ASSUMPTIONS = [
    "curve / pairing parameters are read from the library getters and sanity-checked by the reference (C18 checks them)",
    "points handed to the protocols are normalised affine points as the library's own decoders / generators produce",
    "ECIES options not fixed by a standard follow src/cp/relic_cp_ecies.c: x encoded like java BigInteger.toByteArray "
    "(BouncyCastle compatibility comment), KDF2 output split as cipher key || MAC key of equal size "
    "max(128, level)/8, all-zero IV, HMAC over the CBC body, tag appended",
    "ECDH / ECMQV shared-secret octets are FE2OSP(x) (fixed field length) as IEEE 1363 / ANSI X9.63 / SEC 1 define",
    "cp_ecdh_key multiplies by the cofactor (ECSVDP-DHC); ECMQV is the cofactor-less ECSVDP-MQV",
    "the pairing value e(P, Q) used as an oracle input is the library's pc_map (validated by C04); exponentiation, "
    "serialisation, hashing and all group arithmetic around it are done by the Python reference",
    "PSI inputs are non-negative integers below the bignum precision (below the group order for PB-PSI)",
    "a below-threshold share subset is checked as 'does not reconstruct the secret' only on orders >= 2^120",
]
BUDGET_S = {"quick": 230, "thorough": 1700}
JOB_SIZE = {"quick": 100, "thorough": 400}

# which octet-string encoding of the shared x-coordinate the ECDH / ECMQV oracle expects ("fe2osp" = standard)
X_ENCODING = "fe2osp"

HASH_NAMES = ["SH224", "SH256", "SH384", "SH512", "B2S160", "B2S256"]
_INFO = {}


# ================================================================================================ helpers

def chk(c, what, allow_error=False):
    if c.unsupported:
        raise Unsupported()
    if c.ub:
        raise Violation("undefined behaviour in %s: %s" % (what, c.ub), ub=c.ub)
    if c.errored and not allow_error:
        raise Violation("%s reported an error (caught=%d e=%d code=%d) for valid input" % (what, c.caught, c.e, c.code),
                        what=what)


def ok(c):
    """the call reports success to its caller: returned RLC_OK and no error was raised"""
    return (not c.errored) and len(c.rets) > 0 and c.ret_i(0) == RLC_OK


def failed(c):
    """the call reports failure to its caller (RLC_ERR return value or a raised error)"""
    return c.errored or (len(c.rets) > 0 and c.ret_i(0) == RLC_ERR)


def cinfo(env, cfg, c):
    """protocol constants of the build for curve c: hash, digest length, security level, field bytes"""
    key = (cfg, c.cid)
    if key in _INFO:
        return _INFO[key]

    def build(p):
        p.call("info_cp_ec")
    res, _ = ecctx.run(env, cfg, c.cid, build, 0x11)
    r = res.calls[0].rets
    if res.calls[0].unsupported:
        raise Unsupported()
    ids = r[9:15]
    name = HASH_NAMES[ids.index(r[1])]
    inf = dict(md_len=r[0], hash=sym.hash_fn(name), hash_name=name, bc_len=r[2], fc_bytes=r[3], level=r[4],
               fp_bytes=r[5], bn_bits=r[6], dig=r[7], crt=r[8])
    inf["size"] = (max(128, inf["level"]) + 7) // 8
    if inf["hash"]().digest_size != inf["md_len"] or inf["fc_bytes"] != (c.F.p.bit_length() + 7) // 8:
        raise Violation("build constants inconsistent with the reference", info=repr(inf))
    _INFO[key] = inf
    return inf


def ep_out(p, c, poison):
    """an EP slot for an output: coordinates filled with the poison byte"""
    nb = c.F.nbytes
    body = bytes([poison]) * (3 * nb) + bytes([poison & 3])
    return p.new("EP", struct.pack("<I", len(body)) + body)


def ep_in(p, c, P):
    return p.new("EP", ecctx.enc_point(c, P))


def get_point(c, blob, what, need_affine=True):
    P, meta = ecctx.dec_point(c, blob, what)
    if P is not None and not c.E.on_curve(P):
        raise Violation("%s: point is not on the curve" % what)
    if need_affine and P is not None and (meta["coord"] != c.BASIC or meta["z"] != 1):
        raise Violation("%s: point not in normalised affine form" % what, coord=meta["coord"])
    return P


def pbuf(p, n, poison):
    return p.buf(bytes([poison]) * n)


def x_octets(x, p, mode):
    if mode == "fe2osp":
        return pr.fe2osp(x, p)
    if mode == "minimal":
        return pr.x_minimal(x)
    if mode == "java":
        return pr.x_java_biginteger(x)
    raise ValueError(mode)


SEED = st.binary(min_size=8, max_size=20)
POISON = st.integers(0, 255)


def content(n):
    """plaintext of n octets: uniform, all zero, all 0xFF, leading zeros, or ending like PKCS#7 padding"""
    if n == 0:
        return st.just(b"")

    @st.composite
    def s(draw):
        k = draw(st.integers(0, 6))
        if k <= 1:
            return draw(st.binary(min_size=n, max_size=n))
        if k == 2:
            return bytes(n)
        if k == 3:
            return b"\xff" * n
        if k == 4:
            z = draw(st.integers(1, n))
            return bytes(z) + draw(st.binary(min_size=n - z, max_size=n - z))
        b = draw(st.binary(min_size=n, max_size=n))
        t = draw(st.sampled_from([1, 2, 15, 16, 0, 17]))
        tail = bytes([t]) * max(1, min(t, n))
        return (b + tail)[-n:] if len(tail) < n else tail[:n]
    return s()


# ================================================================================================ ECIES

ECIES_LENS = [0, 1, 2, 15, 16, 17, 31, 32, 33, 47, 48, 49, 63, 64]


def strat_ecies(env, cfg):
    c = ecctx.job_curve(env, cfg)

    @st.composite
    def s(draw):
        n = draw(st.sampled_from(ECIES_LENS * 3 + list(range(0, 65))))
        return dict(cid=c.cid, seed=draw(SEED), m=draw(content(n)), poison=draw(POISON),
                    cap_delta=draw(st.sampled_from([0, 0, 1, 16])),
                    small_cap=draw(st.sampled_from(["need-1", "body", "body-1", "zero", "one"])),
                    masks=draw(st.binary(min_size=64, max_size=64)),
                    pos=draw(st.lists(st.integers(0, 4095), min_size=12, max_size=12)),
                    rmul=draw(ints.uniform(2, c.n - 2)),
                    m2=draw(content(draw(st.sampled_from([1, 15, 16, 17, 32, 40])))),
                    short=draw(st.sampled_from([False] * 7 + [True])))
    return s()


def _ecies_secret(c, d, R):
    P = c.E.mul(d, R)
    if P is None:
        return None
    return pr.x_java_biginteger(P[0])


def run_ecies(env, cfg, case):
    c = ecctx.curve(env, cfg, case["cid"])
    inf = cinfo(env, cfg, c)
    h, size, hl = inf["hash"], inf["size"], inf["md_len"]
    m, pz = case["m"], case["poison"]
    body_len = 16 * (len(m) // 16 + 1)
    need = body_len + hl
    cap = need + case["cap_delta"]
    small = {"need-1": need - 1, "body": body_len, "body-1": body_len - 1, "zero": 0, "one": 1}[case["small_cap"]]
    lab = ["ecies:len=%s" % (len(m) if len(m) in ECIES_LENS else "other"), "cid:%d" % c.cid]

    def b1(p):
        sd, sq = p.bn(0), ep_out(p, c, pz)
        p.call("cp_ecies_gen", sd, sq)
        sr, sin, sout = ep_out(p, c, pz), p.buf(m), pbuf(p, cap, pz)
        p.call("cp_ecies_enc", sr, sout, cap, sin, len(m), sq)
        sr2, sout2 = ep_out(p, c, pz), pbuf(p, small, pz)
        p.call("cp_ecies_enc", sr2, sout2, small, sin, len(m), sq)
        for s_ in (sd, sq, sr, sout):
            p.dump(s_)
        return sd, sq, sr, sout, sin
    res, (sd, sq, sr, sout, sin) = ecctx.run(env, cfg, c.cid, b1, pz, case["seed"])
    g, e1, e2 = res.calls
    chk(g, "cp_ecies_gen")
    if not ok(g):
        raise Violation("cp_ecies_gen failed")
    d = res.dumps[sd].value
    Q = get_point(c, res.dumps[sq], "ecies public key")
    if not (0 <= d < c.n) or not c.E.eq(Q, c.E.mul(d, c.G)):
        raise Violation("cp_ecies_gen: public key is not [d]G with 0 <= d < n", d=d)
    if Q is None:
        raise Unsupported()
    chk(e2, "cp_ecies_enc(small capacity)", allow_error=True)
    if not failed(e2) and len(m) > 0:
        raise Violation("cp_ecies_enc accepted an output capacity smaller than the ciphertext", cap=small, need=need)
    if sin in e1.changed or sin in e2.changed or sq in e1.changed:
        raise Violation("cp_ecies_enc modified its input")
    chk(e1, "cp_ecies_enc", allow_error=(len(m) == 0))
    if len(m) == 0 and failed(e1):
        # the block cipher layer refuses the empty plaintext (a domain decision of bc_aes_cbc_enc, see C14): the scheme
        # does not admit it; nothing must have been produced
        return True, lab + ["ecies:empty-plaintext-refused"]
    if not ok(e1):
        raise Violation("cp_ecies_enc failed for a valid plaintext and sufficient capacity", cap=cap, mlen=len(m))
    ol = e1.rets[1]
    out = res.dumps[sout]
    R = get_point(c, res.dumps[sr], "ecies ephemeral point")
    if R is None:
        raise Unsupported()
    z = _ecies_secret(c, d, R)
    if z is None:
        raise Unsupported()
    rbody, rtag = pr.ecies_encrypt(h, z, size, m)
    if ol != need:
        raise Violation("cp_ecies_enc: reported length %d, expected %d" % (ol, need))
    if out[:body_len] != rbody:
        raise Violation("cp_ecies_enc: body differs from AES-CBC(KDF2(x([d]R))) of the reference", mlen=len(m))
    if out[body_len:need] != rtag:
        raise Violation("cp_ecies_enc: tag differs from HMAC(body) of the reference", mlen=len(m))
    if out[need:] != bytes([pz]) * (cap - need):
        raise Violation("cp_ecies_enc wrote beyond the reported length")
    ct = out[:need]

    # ---------------------------------------------------------------- decryption attempts
    masks = case["masks"]
    attempts = []   # (label, ciphertext, R, capacity, expected plaintext or None, expect-untouched-output)

    def mut(i, k):
        b = bytearray(ct)
        b[i] ^= (masks[k % 64] or 1)
        return bytes(b)
    if need <= 64:
        positions = list(range(need))
    else:
        positions = sorted({0, 15, 16, body_len - 16, body_len - 1, body_len, body_len + 1, need - 1} |
                           {q % need for q in case["pos"]})
    for k, i in enumerate(positions):
        attempts.append(("mut:" + ("body" if i < body_len else "tag"), mut(i, k), R, body_len, None, True))
    for n in range(hl, need):
        attempts.append(("trunc>=tag", ct[:n], R, body_len, None, True))
    attempts.append(("extend", ct + bytes([masks[0]]), R, body_len + 16, None, True))
    attempts.append(("extend", ct + masks[:16], R, body_len + 16, None, True))
    if body_len >= 32 and ct[16:32] != ct[:16]:
        attempts.append(("blockswap", ct[16:32] + ct[:16] + ct[32:], R, body_len, None, True))
    attempts.append(("tag-moved", ct[body_len:] + ct[:body_len], R, body_len, None, True))
    # replaced ephemeral point: R + G, [k]R, identity; -R has the same x-coordinate and must still decrypt
    E = c.E
    for nm, R2 in (("R+G", E.add(R, c.G)), ("kR", E.mul(case["rmul"], R)), ("R=O", None)):
        if R2 is None or R2[0] != R[0]:
            attempts.append(("R:" + nm, ct, R2, body_len, None, True))
    attempts.append(("R:-R", ct, E.neg(R), body_len, m, False))
    # capacities
    for cp_, nm in ((body_len, "cap:body"), (body_len + 1, "cap:body+1"), (body_len - 1, "cap:body-1"),
                    (len(m), "cap:exact"), (len(m) - 1, "cap:exact-1"), (0, "cap:0")):
        if cp_ >= 0:
            attempts.append((nm, ct, R, cp_, m, False))
    # reference-built ciphertexts for the same R (the library must decrypt what the reference encrypts, and reject a
    # correctly authenticated body whose padding is malformed or whose length is not a block multiple)
    ke, km = pr.ecies_keys(h, z, size)
    m2 = case["m2"]

    def sealed(body):
        return body + sym.hmac(h, km, body)
    attempts.append(("ref:valid", sealed(sym.cbc_pkcs7_encrypt(ke, bytes(16), m2)), R, len(m2) + 16, m2, False))
    prefix = m2[:16 * (len(m2) // 16)]
    fill = (m2 + bytes(16))[:16]
    for nm, last in (("pad00", fill[:15] + b"\x00"), ("pad11", fill[:15] + b"\x11"), ("padff", fill[:15] + b"\xff"),
                     ("padmixed", fill[:13] + b"\x03\x02\x03"), ("pad16-broken", b"\x10" * 14 + b"\x0f\x10")):
        pt = prefix + last
        if sym.pkcs7_unpad(pt) is None:
            attempts.append(("ref:badpad:" + nm, sealed(sym.cbc_encrypt_raw(ke, bytes(16), pt)), R, len(pt) + 16, None, False))
    full = sym.cbc_pkcs7_encrypt(ke, bytes(16), m2)
    attempts.append(("ref:body-not-block-multiple", sealed(full[:-1]), R, len(full) + 16, None, False))
    attempts.append(("ref:body-not-block-multiple", sealed(full + b"\x00"), R, len(full) + 32, None, False))
    attempts.append(("ref:empty-body", sealed(b""), R, 16, None, False))

    def run_attempts(atts, tag):
        def b2(p):
            sdd = p.bn(d)
            sin_, sout_, sr_ = p.slot(), p.slot(), p.slot()
            outs = {}
            for k, (nm, cti, Ri, capi, want, _) in enumerate(atts):
                p.new("EP", ecctx.enc_point(c, Ri), slot=sr_)
                p.buf(cti, slot=sin_)
                if want is not None:
                    so = pbuf(p, capi, pz)
                    outs[k] = so
                else:
                    so = sout_
                    p.buf(bytes([pz]) * capi, slot=so)
                p.call("cp_ecies_dec", so, capi, sr_, sin_, len(cti), sdd)
                if want is not None:
                    p.dump(so)
                if p.next_slot > 90:
                    raise Unsupported()
            return outs, sin_, sr_, sdd
        r2, (outs, sin_, sr_, sdd) = ecctx.run(env, cfg, c.cid, b2, pz, case["seed"])
        for k, ((nm, cti, Ri, capi, want, untouched), cl) in enumerate(zip(atts, r2.calls)):
            what = "cp_ecies_dec[%s]" % nm
            chk(cl, what, allow_error=True)
            if sin_ in cl.changed or sr_ in cl.changed or sdd in cl.changed:
                raise Violation("%s modified its input" % what)
            if want is None:
                if not failed(cl):
                    raise Violation("%s: a ciphertext that must be rejected was accepted (rc=%d, out_len=%d)" % (
                        what, cl.ret_i(0), cl.rets[1]), kind=nm, ct_len=len(cti), mlen=len(m))
                if untouched and cl.changed:
                    raise Violation("%s: rejected, but output was written" % what, kind=nm)
                continue
            got = r2.dumps[outs[k]]
            padded = 16 * (len(want) // 16 + 1)
            if ok(cl):
                if capi < len(want):
                    raise Violation("%s: success reported with capacity %d < plaintext length" % (what, capi))
                if cl.rets[1] != len(want) or got[:len(want)] != want:
                    raise Violation("%s: decryption does not return the plaintext" % what, kind=nm, got_len=cl.rets[1],
                                    want_len=len(want))
            else:
                if capi >= padded:
                    raise Violation("%s: valid ciphertext rejected although the capacity (%d) covers the whole body" % (
                        what, capi), kind=nm, mlen=len(want))
    run_attempts(attempts, "main")
    for a in attempts:
        lab.append("ecies:" + a[0])
    if case["short"]:
        # every truncation below the tag length (kept in its own request: the suspected size_t underflow kills the runner)
        short = [("trunc<tag", ct[:n], R, body_len, None, True) for n in range(0, hl)]
        try:
            run_attempts(short, "short")
        except RunnerCrash as rc:
            kind, frames = sanitizer_signature(rc.stderr_tail)
            if rc.why == "timeout":
                raise
            ecctx.invalidate(env, cfg)
            raise Violation("cp_ecies_dec crashed on a ciphertext shorter than the tag (%s)" % (kind or "rc=%r" % rc.rc),
                            crash=True, kind=kind, frames=frames, ecies_short=True, stderr=rc.stderr_tail[-1500:])
        lab.append("ecies:trunc<tag")
    return True, sorted(set(lab))


# ================================================================================================ ECDH

KEYLENS = [0, 1, 16, 20, 31, 32, 33, 48, 64, 65, 100]


def peer_point(c):
    """public point handed to a key-agreement routine, built by the reference"""
    p = c.F.p

    @st.composite
    def s(draw):
        k = draw(st.integers(0, 9))
        if k <= 3:
            return {"kind": "mult", "m": draw(ints.uniform(1, c.n - 1))}
        if k == 4:
            return {"kind": "mult", "m": draw(st.sampled_from([1, 2, 3, c.n - 1, c.n - 2]))}
        if k == 5:
            return {"kind": "infty"}
        if k == 6:
            # target point with a short x-coordinate (leading zero octets in FE2OSP)
            return {"kind": "shortx", "bits": draw(st.sampled_from([8, 64, 128, p.bit_length() - 16, p.bit_length() - 9])),
                    "x0": draw(ints.uniform(1, (1 << 64) - 1)), "s": draw(st.integers(0, 1))}
        if k == 9:
            return {"kind": "offcurve", "m": draw(ints.uniform(1, c.n - 1)), "dy": draw(ints.uniform(1, p - 1))}
        if c.h > 1:
            return {"kind": "anypoint", "x0": draw(ints.uniform(0, p - 1)), "s": draw(st.integers(0, 1)),
                    "small": draw(st.integers(0, 2)) == 0}
        return {"kind": "mult", "m": draw(ints.uniform(1, c.n - 1))}
    return s()


def _lift_from(c, x0, sgn, limit=64):
    """first curve point with x >= x0 (deterministic walk), optionally negated"""
    p = c.F.p
    for i in range(limit):
        P = c.E.lift_x((x0 + i) % p)
        if P is not None:
            return c.E.neg(P) if sgn else P
    raise Unsupported()


def strat_ecdh(env, cfg):
    c = ecctx.job_curve(env, cfg)

    @st.composite
    def s(draw):
        mode = draw(st.sampled_from(["gen", "direct", "direct"]))
        d = draw(st.one_of(ints.uniform(1, c.n - 1), st.sampled_from([1, 2, c.n - 1, c.n // 2])))
        return dict(cid=c.cid, mode=mode, seed=draw(SEED), klen=draw(st.sampled_from(KEYLENS)), d=d,
                    Q=draw(peer_point(c)), poison=draw(POISON))
    return s()


def resolve_peer(c, spec, d=None):
    """(point, label). For 'shortx' the point is chosen so that [h d]Q has a short x-coordinate."""
    k = spec["kind"]
    if k == "mult":
        return c.E.mul(spec["m"], c.G), "subgroup"
    if k == "infty":
        return None, "identity"
    if k == "shortx":
        bits = min(spec["bits"], c.F.p.bit_length() - 9)
        T = _lift_from(c, spec["x0"] % (1 << bits), spec["s"])
        if c.h > 1:
            T = c.E.mul(c.h, T)              # into the prime-order subgroup
            if T is None:
                raise Unsupported()
            return T, "subgroup"             # x no longer short on cofactor curves; still a valid subgroup point
        if d is None:
            return T, "shortx"
        return c.E.mul(pow(c.h * d, -1, c.n), T), "shortx"
    if k == "offcurve":
        T = c.E.mul(spec["m"], c.G)
        return (T[0], (T[1] + spec["dy"]) % c.F.p), "offcurve"
    if k == "anypoint":
        T = _lift_from(c, spec["x0"], spec["s"])
        if spec["small"]:
            T = c.E.mul(c.n, T)              # order divides the cofactor
            return T, ("identity" if T is None else "small-order")
        return T, "outside-subgroup"
    raise ValueError(k)


def expect_ecdh(c, inf, d, Q, klen):
    """(key or None, reference point)"""
    P = pr.ecdh_point(c.E, c.h, d, Q)
    if P is None:
        return None, None
    return sym.kdf2(inf["hash"], x_octets(P[0], c.F.p, X_ENCODING), klen), P


def _minimal_variant(c, inf, P, klen):
    return sym.kdf2(inf["hash"], pr.x_minimal(P[0]), klen)


def run_ecdh(env, cfg, case):
    c = ecctx.curve(env, cfg, case["cid"])
    inf = cinfo(env, cfg, c)
    pz, klen = case["poison"], case["klen"]
    lab = ["ecdh:" + case["mode"], "cid:%d" % c.cid, "klen:%d" % klen]
    if case["mode"] == "gen":
        def b(p):
            da, qa, db, qb = p.bn(0), ep_out(p, c, pz), p.bn(0), ep_out(p, c, pz)
            p.call("cp_ecdh_gen", da, qa)
            p.call("cp_ecdh_gen", db, qb)
            ka, kb = pbuf(p, klen, pz), pbuf(p, klen, pz)
            p.call("cp_ecdh_key", ka, klen, da, qb)
            p.call("cp_ecdh_key", kb, klen, db, qa)
            for s_ in (da, qa, db, qb, ka, kb):
                p.dump(s_)
            return da, qa, db, qb, ka, kb
        res, (da, qa, db, qb, ka, kb) = ecctx.run(env, cfg, c.cid, b, pz, case["seed"])
        for cl in res.calls:
            chk(cl, cl.name)
            if not ok(cl):
                raise Violation("%s failed for honest keys" % cl.name)
        dA, dB = res.dumps[da].value, res.dumps[db].value
        QA, QB = get_point(c, res.dumps[qa], "QA"), get_point(c, res.dumps[qb], "QB")
        for d_, Q_ in ((dA, QA), (dB, QB)):
            if not (0 <= d_ < c.n) or not c.E.eq(Q_, c.E.mul(d_, c.G)):
                raise Violation("cp_ecdh_gen: public key is not [d]G with 0 <= d < n")
        if dA == dB:
            raise Violation("cp_ecdh_gen produced the same private key twice in one seeded run")
        kA, kB = res.dumps[ka], res.dumps[kb]
        if kA != kB:
            raise Violation("ECDH: the two parties derive different keys", klen=klen)
        want, P = expect_ecdh(c, inf, dA, QB, klen)
        if want is None:
            raise Unsupported()
        if kA != want:
            raise Violation("ECDH: key differs from KDF2(FE2OSP(x([h d]Q)))", klen=klen, x=P[0],
                            matches_minimal_x=(kA == _minimal_variant(c, inf, P, klen)),
                            x_has_leading_zero=(P[0].bit_length() <= 8 * (inf["fc_bytes"] - 1)))
        if P[0].bit_length() <= 8 * (inf["fc_bytes"] - 1):
            lab.append("ecdh:x-leading-zero")
        return klen in (0, 1, 31, 32, 33, 64, 65), lab
    d = case["d"]
    Q, qlab = resolve_peer(c, case["Q"], d)
    lab.append("ecdh:peer=" + qlab)

    def b(p):
        sd, sq, sk = p.bn(d), ep_in(p, c, Q), pbuf(p, klen, pz)
        p.call("cp_ecdh_key", sk, klen, sd, sq)
        p.dump(sk)
        return sd, sq, sk
    res, (sd, sq, sk) = ecctx.run(env, cfg, c.cid, b, pz, case["seed"])
    cl = res.calls[0]
    chk(cl, "cp_ecdh_key", allow_error=True)
    if sd in cl.changed or sq in cl.changed:
        raise Violation("cp_ecdh_key modified its input")
    if qlab == "offcurve":
        # a decoded ec_t is a curve point by the decoders' contract; the header promises no validation here, so the
        # only requirement is the absence of undefined behaviour (checked by chk and the sanitizers)
        return False, lab[:-1] + ["ecdh:peer=offcurve(robustness only)"]
    want, P = expect_ecdh(c, inf, d, Q, klen)
    if want is None:
        if not failed(cl):
            raise Violation("cp_ecdh_key: shared point is the identity (peer key %s) but no error is reported" % qlab,
                            peer=qlab)
        return True, lab + ["ecdh:identity-rejected"]
    if not ok(cl):
        raise Violation("cp_ecdh_key failed for a valid peer point", peer=qlab)
    if res.dumps[sk] != want:
        raise Violation("ECDH: key differs from KDF2(FE2OSP(x([h d]Q)))", klen=klen, x=P[0], peer=qlab,
                        matches_minimal_x=(res.dumps[sk] == _minimal_variant(c, inf, P, klen)),
                        x_has_leading_zero=(P[0].bit_length() <= 8 * (inf["fc_bytes"] - 1)))
    if P[0].bit_length() <= 8 * (inf["fc_bytes"] - 1):
        lab.append("ecdh:x-leading-zero")
    return True, lab


# ================================================================================================ ECMQV

def strat_ecmqv(env, cfg):
    c = ecctx.job_curve(env, cfg)
    sc = st.one_of(ints.uniform(1, c.n - 1), st.sampled_from([1, 2, c.n - 1]))

    @st.composite
    def s(draw):
        mode = draw(st.sampled_from(["gen", "gen", "direct", "direct", "direct", "direct", "identity", "shortx"]))
        return dict(cid=c.cid, mode=mode, seed=draw(SEED), klen=draw(st.sampled_from(KEYLENS)),
                    keys=[draw(sc) for _ in range(4)], x0=draw(ints.uniform(1, (1 << 64) - 1)),
                    bits=draw(st.sampled_from([8, 64, 128, c.F.p.bit_length() - 16, c.F.p.bit_length() - 9])),
                    which=draw(st.sampled_from(["both", "static", "ephemeral"])), poison=draw(POISON))
    return s()


def expect_mqv(c, inf, s_, u, V, Wp, Vp, klen):
    P = pr.mqv_point(c.E, c.n, s_, u, V, Wp, Vp)
    if P is None:
        return None, None
    return sym.kdf2(inf["hash"], x_octets(P[0], c.F.p, X_ENCODING), klen), P


def run_ecmqv(env, cfg, case):
    c = ecctx.curve(env, cfg, case["cid"])
    inf = cinfo(env, cfg, c)
    pz, klen, mode = case["poison"], case["klen"], case["mode"]
    E = c.E
    lab = ["ecmqv:" + mode, "cid:%d" % c.cid, "klen:%d" % klen]
    fc = inf["fc_bytes"]

    def mismatch(got, want, P, who):
        raise Violation("ECMQV (%s): key differs from KDF2(FE2OSP(x(e (V' + t' W'))))" % who, klen=klen, x=P[0],
                        matches_minimal_x=(got == _minimal_variant(c, inf, P, klen)),
                        x_has_leading_zero=(P[0].bit_length() <= 8 * (fc - 1)))
    if mode == "gen":
        def b(p):
            sl = []
            for _ in range(4):
                sd, sq = p.bn(0), ep_out(p, c, pz)
                p.call("cp_ecmqv_gen", sd, sq)
                sl.append((sd, sq))
            (d1a, q1a), (d2a, q2a), (d1b, q1b), (d2b, q2b) = sl
            ka, kb = pbuf(p, klen, pz), pbuf(p, klen, pz)
            p.call("cp_ecmqv_key", ka, klen, d1a, d2a, q2a, q1b, q2b)
            p.call("cp_ecmqv_key", kb, klen, d1b, d2b, q2b, q1a, q2a)
            for sd, sq in sl:
                p.dump(sd), p.dump(sq)
            p.dump(ka), p.dump(kb)
            return sl, ka, kb
        res, (sl, ka, kb) = ecctx.run(env, cfg, c.cid, b, pz, case["seed"])
        for cl in res.calls:
            chk(cl, cl.name)
            if not ok(cl):
                raise Violation("%s failed for honest keys" % cl.name)
        ks = []
        for sd, sq in sl:
            d_, Q_ = res.dumps[sd].value, get_point(c, res.dumps[sq], "mqv public key")
            if not (0 <= d_ < c.n) or not E.eq(Q_, E.mul(d_, c.G)):
                raise Violation("cp_ecmqv_gen: public key is not [d]G with 0 <= d < n")
            ks.append((d_, Q_))
        if any(Q_ is None for _, Q_ in ks):
            raise Unsupported()
        (d1a, Q1a), (d2a, Q2a), (d1b, Q1b), (d2b, Q2b) = ks
        kA, kB = res.dumps[ka], res.dumps[kb]
        if kA != kB:
            raise Violation("ECMQV: the two parties derive different keys", klen=klen)
        want, P = expect_mqv(c, inf, d1a, d2a, Q2a, Q1b, Q2b, klen)
        if want is None:
            raise Unsupported()
        if kA != want:
            mismatch(kA, want, P, "seeded run")
        if P[0].bit_length() <= 8 * (fc - 1):
            lab.append("ecmqv:x-leading-zero")
        return klen in (0, 1, 31, 32, 33, 64, 65), lab

    d1a, d2a, d1b, d2b = case["keys"]
    Q1a, Q2a, Q1b, Q2b = (E.mul(k, c.G) for k in (d1a, d2a, d1b, d2b))
    if mode == "identity":
        # the peer's public keys are the identity: the shared point is the identity for every own key
        if case["which"] in ("both", "static"):
            Q1b = None
        if case["which"] in ("both", "ephemeral"):
            Q2b = None
    if mode == "shortx":
        # choose the peer's ephemeral key so that the shared point has a short x-coordinate:
        # P = e (V' + t' W') with V' = T/e - t' W' needs t' = avf(V'), circular; instead fix W' = O-free variant:
        # pick the target T, the peer static key W' and search-free solve with the peer ephemeral point given first:
        # V' arbitrary, then W' = (T/e - V') / t'. All by the reference.
        if c.h > 1:
            raise Unsupported()
        bits = min(case["bits"], c.F.p.bit_length() - 9)
        T = _lift_from(c, case["x0"] % (1 << bits), 0)
        t = pr.mqv_avf(Q2a[0], c.n)
        e = (t * d1a + d2a) % c.n
        if e == 0:
            raise Unsupported()
        tp = pr.mqv_avf(Q2b[0], c.n)
        Q1b = E.mul(pow(tp, -1, c.n), E.sub(E.mul(pow(e, -1, c.n), T), Q2b))
        if Q1b is None:
            raise Unsupported()

    def b(p):
        s1, s2 = p.bn(d1a), p.bn(d2a)
        e2a, e1b, e2b = ep_in(p, c, Q2a), ep_in(p, c, Q1b), ep_in(p, c, Q2b)
        ka = pbuf(p, klen, pz)
        p.call("cp_ecmqv_key", ka, klen, s1, s2, e2a, e1b, e2b)
        p.dump(ka)
        kb = None
        if mode == "direct":
            t1, t2, f1a = p.bn(d1b), p.bn(d2b), ep_in(p, c, Q1a)
            kb = pbuf(p, klen, pz)
            p.call("cp_ecmqv_key", kb, klen, t1, t2, e2b, f1a, e2a)
            p.dump(kb)
        return ka, kb, (s1, s2, e2a, e1b, e2b)
    res, (ka, kb, ins) = ecctx.run(env, cfg, c.cid, b, pz, case["seed"])
    cl = res.calls[0]
    chk(cl, "cp_ecmqv_key", allow_error=True)
    if any(s_ in cl.changed for s_ in ins):
        raise Violation("cp_ecmqv_key modified its input")
    if Q2b is None and Q1b is not None:
        # only the peer's ephemeral key is the identity: its associate value is not defined by the standard, so there
        # is no expected key; the call must merely be free of undefined behaviour (checked above)
        return False, lab + ["ecmqv:ephemeral-identity(robustness only)"]
    if Q2b is None:
        want, P = None, None                  # V' + t' W' = O whatever t' is
    else:
        want, P = expect_mqv(c, inf, d1a, d2a, Q2a, Q1b, Q2b, klen)
    if want is None:
        if not failed(cl):
            raise Violation("cp_ecmqv_key: the shared point is the identity (peer keys: %s identity) but RLC_OK is "
                            "returned and a key is produced" % case["which"], mqv_identity=True, which=case["which"],
                            key=res.dumps[ka])
        return True, lab + ["ecmqv:identity-rejected"]
    if not ok(cl):
        raise Violation("cp_ecmqv_key failed for valid keys")
    if res.dumps[ka] != want:
        mismatch(res.dumps[ka], want, P, mode)
    if mode == "direct":
        chk(res.calls[1], "cp_ecmqv_key")
        if res.dumps[kb] != res.dumps[ka]:
            raise Violation("ECMQV: the two parties derive different keys", klen=klen)
    if P[0].bit_length() <= 8 * (fc - 1):
        lab.append("ecmqv:x-leading-zero")
    return True, lab


# ================================================================================================ pairing helpers

def g1_out(p, x, pz):
    return ep_out(p, x.base, pz)


def g1_in(p, x, P):
    return p.new("EP", ecctx.enc_point(x.base, P))


def g2_out(p, x, pz):
    body = bytes([pz]) * (6 * x.F.nbytes) + bytes([pz & 3])
    return p.new("EP2", bytes([2]) + struct.pack("<I", len(body)) + body)


def g2_in(p, x, Q):
    return p.new("EP2", pcctx.enc_point2(x, Q))


def gt_out(p, x, pz):
    body = bytes([pz]) * (12 * x.F.nbytes)
    return p.new("FPX", bytes([12]) + struct.pack("<I", len(body)) + body)


def gt_in(p, x, a):
    return p.new("FPX", pcctx.enc_gt(x, a))


def g1v(p, x, n, pts=()):
    return p.new("EPV", struct.pack("<II", n, len(pts)) + b"".join(ecctx.enc_point(x.base, P) for P in pts))


def g2v(p, x, n, pts=()):
    return p.new("EP2V", bytes([2]) + struct.pack("<II", n, len(pts)) + b"".join(pcctx.enc_point2(x, Q)[1:] for Q in pts))


def gtv(p, x, n, elems=()):
    body = b"".join(pcctx.enc_gt(x, a)[5:] for a in elems)
    return p.new("FPXV", bytes([12]) + struct.pack("<II", n, len(body)) + body)


def dec_g1(x, blob, what):
    return get_point(x.base, blob, what, need_affine=False)


def dec_g1s(x, blob, what):
    out = []
    for P, meta in ecctx.dec_points(x.base, blob, what):
        if P is not None and not x.base.E.on_curve(P):
            raise Violation("%s: point is not on the curve" % what)
        out.append(P)
    return out


def dec_g2s(x, blob, what):
    out = []
    for Q, meta in pcctx.dec_points2(x, blob, what):
        if Q is not None and not x.E2c.on_curve(Q):
            raise Violation("%s: point is not on the twist" % what)
        out.append(Q)
    return out


def dec_g2(x, blob, what):
    return dec_g2s(x, blob, what)[0]


def dec_gts(x, blob, what):
    n = 12 * x.F.nbytes
    return [pcctx.dec_gt(x, blob[i * n:(i + 1) * n], what) for i in range(len(blob) // n)]


def ser_gt(x, a):
    """uncompressed target-group encoding: the twelve Fp coefficients in tower order, each as a fixed-length
    big-endian integer"""
    fb = (x.F.p.bit_length() + 7) // 8
    return b"".join(v.to_bytes(fb, "big") for v in x.F12.flatten(a))


def ser_g1(x, P):
    fb = (x.F.p.bit_length() + 7) // 8
    return b"\x04" + P[0].to_bytes(fb, "big") + P[1].to_bytes(fb, "big")


_GPAIR = {}


def gpair(env, cfg, x):
    """g = e(G1, G2) from the library (validated: g != 1, g^r = 1 by the reference)"""
    key = (cfg, x.cid)
    if key in _GPAIR:
        return _GPAIR[key]

    def build(p):
        sg = gt_out(p, x, 0)
        p.call("pc_map", sg, g1_in(p, x, x.G1), g2_in(p, x, x.G2))
        p.dump(sg)
        return sg
    res, sg = pcctx.run(env, cfg, x, build, 0x21)
    chk(res.calls[0], "pc_map(G1, G2)")
    g = pcctx.dec_gt(x, res.dumps[sg], "pc_map")
    F12 = x.F12
    if F12.eq(g, F12.one) or not F12.eq(F12.pow(g, x.r), F12.one):
        raise Violation("pc_map(G1, G2) is degenerate or not of order r")
    _GPAIR[key] = g
    return g


def pinfo(env, cfg, x):
    key = (cfg, "pc", x.cid)
    if key in _INFO:
        return _INFO[key]

    def build(p):
        p.call("info_cp_ec")
    res, _ = pcctx.run(env, cfg, x, build, 0x11)
    r = res.calls[0].rets
    name = HASH_NAMES[r[9:15].index(r[1])]
    inf = dict(md_len=r[0], hash=sym.hash_fn(name), fp_bytes=r[5], dig=r[7], bn_bits=r[6], crt=r[8])
    _INFO[key] = inf
    return inf


def idstr():
    """identity strings (no NUL octet), including related pairs material"""
    return st.one_of(st.binary(min_size=1, max_size=20), st.binary(min_size=1, max_size=20), st.binary(min_size=1, max_size=3),
                     st.sampled_from([b"alice", b"bob", b"a", b"\xff", b"\x80abc", b""])).map(
        lambda b: bytes(v or 1 for v in b))


@st.composite
def id_pair(draw):
    a = draw(idstr())
    k = draw(st.sampled_from([0, 0, 1, 1, 2, 2, 3, 4, 4, 4, 4, 4]))
    if k == 0:
        b = a + draw(idstr())                      # a is a prefix of b
    elif k == 1 and a:
        b = a[:-1]                                  # b is a prefix of a
    elif k == 2 and a:
        i = draw(st.integers(0, len(a) - 1))
        b = a[:i] + bytes([(a[i] ^ draw(st.sampled_from([1, 0x80, 0x7f]))) or 1]) + a[i + 1:]
    elif k == 3:
        b = a                                       # same identity
    else:
        b = draw(idstr())
    return a, b


# ================================================================================================ SOK

def strat_sok(env, cfg):
    x = pcctx.job_ctx(env, cfg)

    @st.composite
    def s(draw):
        a, b = draw(id_pair())
        return dict(cid=x.cid, seed=draw(SEED), ida=a, idb=b, klen=draw(st.sampled_from(KEYLENS)), poison=draw(POISON))
    return s()


def run_sok(env, cfg, case):
    x = pcctx.ctx_for(env, cfg, case["cid"])
    inf = pinfo(env, cfg, x)
    pz, klen, ida, idb = case["poison"], case["klen"], case["ida"], case["idb"]
    F12 = x.F12

    def b(p):
        base = p.ncalls
        sm = p.bn(0)
        p.call("cp_sokaka_gen", sm)
        za, zb = p.buf(ida + b"\0"), p.buf(idb + b"\0")
        ra, rb = p.buf(ida), p.buf(idb)
        a1, a2, b1, b2 = g1_out(p, x, pz), g2_out(p, x, pz), g1_out(p, x, pz), g2_out(p, x, pz)
        p.call("cp_sokaka_gen_prv", a1, a2, za, sm)
        p.call("cp_sokaka_gen_prv", b1, b2, zb, sm)
        ka, kb = pbuf(p, klen, pz), pbuf(p, klen, pz)
        ca = p.call("cp_sokaka_key", ka, klen, za, a1, a2, zb) - base
        cb = p.call("cp_sokaka_key", kb, klen, zb, b1, b2, za) - base
        ha1, ha2, hb1, hb2 = g1_out(p, x, pz), g2_out(p, x, pz), g1_out(p, x, pz), g2_out(p, x, pz)
        p.call("g1_map", ha1, ra), p.call("g2_map", ha2, ra), p.call("g1_map", hb1, rb), p.call("g2_map", hb2, rb)
        e1, e2 = gt_out(p, x, pz), gt_out(p, x, pz)
        p.call("pc_map", e1, ha1, hb2)
        p.call("pc_map", e2, hb1, ha2)
        sl = dict(sm=sm, a1=a1, a2=a2, b1=b1, b2=b2, ka=ka, kb=kb, ha1=ha1, ha2=ha2, hb1=hb1, hb2=hb2, e1=e1, e2=e2)
        for s_ in sl.values():
            p.dump(s_)
        return sl, ca, cb, (za, zb)
    res, (sl, ca, cb, zs) = pcctx.run(env, cfg, x, b, pz, case["seed"])
    lab = ["sok:" + ("same-id" if ida == idb else "prefix" if ida.startswith(idb) or idb.startswith(ida) else
                     "same-length" if len(ida) == len(idb) else "other"), "cid:%d" % x.cid, "klen:%d" % klen]
    for i, cl in enumerate(res.calls):
        chk(cl, cl.name, allow_error=(i in (ca, cb)))
        if any(z in cl.changed for z in zs):
            raise Violation("%s modified an identity string" % cl.name)
    cka, ckb = res.calls[ca], res.calls[cb]
    if ida == idb:
        # a key with oneself is refused by the library (ERR_NO_VALID); both calls must agree on that
        if failed(cka) != failed(ckb):
            raise Violation("cp_sokaka_key: inconsistent handling of identical identities")
        return False, lab
    if not ok(cka) or not ok(ckb):
        raise Violation("cp_sokaka_key failed for two distinct identities", ida=ida, idb=idb)
    d = res.dumps
    master = d[sl["sm"]].value
    if not (0 <= master < x.r):
        raise Violation("cp_sokaka_gen: master key outside [0, r)")
    E, E2 = x.base.E, x.E2c
    HA1, HB1 = dec_g1(x, d[sl["ha1"]], "g1_map"), dec_g1(x, d[sl["hb1"]], "g1_map")
    HA2, HB2 = dec_g2(x, d[sl["ha2"]], "g2_map"), dec_g2(x, d[sl["hb2"]], "g2_map")
    if not E.eq(dec_g1(x, d[sl["a1"]], "sok s1"), E.mul(master, HA1)) or \
            not E.eq(dec_g1(x, d[sl["b1"]], "sok s1"), E.mul(master, HB1)):
        raise Violation("cp_sokaka_gen_prv: s1 != [master]H1(id)")
    if not E2.eq(dec_g2(x, d[sl["a2"]], "sok s2"), E2.mul(master, HA2) if master else None):
        raise Violation("cp_sokaka_gen_prv: s2 != [master]H2(id)")
    kA, kB = d[sl["ka"]], d[sl["kb"]]
    if kA != kB:
        raise Violation("SOK: the two parties derive different keys", ida=ida, idb=idb, klen=klen)
    e1 = pcctx.dec_gt(x, d[sl["e1"]], "pc_map")
    e2 = pcctx.dec_gt(x, d[sl["e2"]], "pc_map")
    # the shared key is KDF2 over the encoding of e(H1(first), H2(second))^master; which identity is 'first' is the
    # protocol's tie-break, so either orientation is accepted as long as both parties agree (checked above)
    wants = [sym.kdf2(inf["hash"], ser_gt(x, F12.pow(e, master)), klen) for e in (e1, e2)]
    if kA not in wants:
        raise Violation("SOK: key is not KDF2(encode(e(H1(id), H2(id'))^master))", ida=ida, idb=idb, klen=klen)
    return True, lab


# ================================================================================================ IBE

IBE_LENS = [0, 1, 2, 8, 16, 31, 32, 33, 48, 64]


def strat_ibe(env, cfg):
    x = pcctx.job_ctx(env, cfg)

    @st.composite
    def s(draw):
        a, b = draw(id_pair())
        n = draw(st.sampled_from([1, 2, 8, 16, 31, 32] * 3 + [0, 33, 48, 64] + list(range(1, 33))))
        return dict(cid=x.cid, seed=draw(SEED), id=a, id2=b, m=draw(content(n)), cap_delta=draw(st.sampled_from([0, 0, 1, 7])),
                    mask=draw(st.integers(1, 255)), pos=draw(st.integers(0, 4095)), poison=draw(POISON))
    return s()


def run_ibe(env, cfg, case):
    x = pcctx.ctx_for(env, cfg, case["cid"])
    inf = pinfo(env, cfg, x)
    pz, m, ida, idb = case["poison"], case["m"], case["id"], case["id2"]
    fb, hl = inf["fp_bytes"], inf["md_len"]
    hdr = 2 * fb + 1
    need = len(m) + hdr
    cap = need + case["cap_delta"]
    E, E2, F12 = x.base.E, x.E2c, x.F12
    lab = ["ibe:len=%s" % (len(m) if len(m) in IBE_LENS else "other"), "cid:%d" % x.cid]

    def b1(p):
        base = p.ncalls
        sm, spub = p.bn(0), g1_out(p, x, pz)
        p.call("cp_ibe_gen", sm, spub)
        za, zb, ra = p.buf(ida + b"\0"), p.buf(idb + b"\0"), p.buf(ida)
        prv, prv2 = g2_out(p, x, pz), g2_out(p, x, pz)
        p.call("cp_ibe_gen_prv", prv, za, sm)
        p.call("cp_ibe_gen_prv", prv2, zb, sm)
        hq = g2_out(p, x, pz)
        p.call("g2_map", hq, ra)
        sin, sout, ssmall = p.buf(m), pbuf(p, cap, pz), pbuf(p, max(need - 1, 0), pz)
        ce = p.call("cp_ibe_enc", sout, cap, sin, len(m), za, spub) - base
        cs = p.call("cp_ibe_enc", ssmall, max(need - 1, 0), sin, len(m), za, spub) - base
        sl = dict(sm=sm, spub=spub, prv=prv, prv2=prv2, hq=hq, sout=sout)
        for s_ in sl.values():
            p.dump(s_)
        return sl, ce, cs, (sin, za, spub)
    res, (sl, ce, cs, ins) = pcctx.run(env, cfg, x, b1, pz, case["seed"])
    for i, cl in enumerate(res.calls):
        chk(cl, cl.name, allow_error=(i in (ce, cs)))
    d = res.dumps
    master = d[sl["sm"]].value
    pub = dec_g1(x, d[sl["spub"]], "ibe public key")
    if not (0 <= master < x.r) or not E.eq(pub, E.mul(master, x.G1)):
        raise Violation("cp_ibe_gen: public key is not [master]G1 with 0 <= master < r")
    HQ = dec_g2(x, d[sl["hq"]], "g2_map")
    prv, prv2 = dec_g2(x, d[sl["prv"]], "ibe private key"), dec_g2(x, d[sl["prv2"]], "ibe private key")
    if not E2.eq(prv, E2.mul(master, HQ) if master else None):
        raise Violation("cp_ibe_gen_prv: private key != [master]H(id)")
    cenc, csmall = res.calls[ce], res.calls[cs]
    if any(s_ in cenc.changed for s_ in ins):
        raise Violation("cp_ibe_enc modified its input")
    if not failed(csmall):
        raise Violation("cp_ibe_enc accepted a capacity below the ciphertext length", cap=need - 1)
    if not (1 <= len(m) <= hl):
        # BasicIdent masks with one digest: plaintexts are 1..digest-length octets; anything else must be refused cleanly
        if not failed(cenc):
            raise Violation("cp_ibe_enc accepted a plaintext of %d octets (mask is one %d-octet digest)" % (len(m), hl))
        if cenc.changed:
            raise Violation("cp_ibe_enc refused the plaintext but wrote output")
        return len(m) in (0, hl + 1), lab + ["ibe:length-refused"]
    if not ok(cenc):
        raise Violation("cp_ibe_enc failed for an admissible plaintext", mlen=len(m), cap=cap)
    if cenc.rets[1] != need:
        raise Violation("cp_ibe_enc: reported length %d, expected %d" % (cenc.rets[1], need))
    ct = d[sl["sout"]][:need]
    if ct[0] != 4:
        raise Violation("cp_ibe_enc: ciphertext does not start with an uncompressed point")
    U = (int.from_bytes(ct[1:1 + fb], "big"), int.from_bytes(ct[1 + fb:hdr], "big"))
    if U[0] >= x.F.p or U[1] >= x.F.p or not E.on_curve(U):
        raise Violation("cp_ibe_enc: U is not a curve point")

    pos = case["pos"] % len(m)
    mutated = bytearray(ct)
    mutated[hdr + pos] ^= case["mask"]
    dec_list = [("honest", ct, len(m), sl["prv"]), ("cap+1", ct, len(m) + 1, sl["prv"]), ("cap-1", ct, len(m) - 1, sl["prv"]),
                ("wrongkey", ct, len(m), sl["prv2"]), ("malleate", bytes(mutated), len(m), sl["prv"]),
                ("header-only", ct[:hdr], 8, sl["prv"]), ("truncated-header", ct[:hdr - 1], 8, sl["prv"]),
                ("empty", b"", 8, sl["prv"]), ("too-long", ct + bytes(hl + 1 - len(m)), hl + 8, sl["prv"])]

    def b2(p):
        sp = {sl["prv"]: g2_in(p, x, prv), sl["prv2"]: g2_in(p, x, prv2)}
        outs = []
        for nm, cti, capi, key in dec_list:
            si, so = p.buf(cti), pbuf(p, max(capi, 0), pz)
            p.call("cp_ibe_dec", so, max(capi, 0), si, len(cti), sp[key])
            p.dump(so)
            outs.append((si, so))
        se = gt_out(p, x, pz)
        p.call("pc_map", se, g1_in(p, x, U), sp[sl["prv"]])
        p.dump(se)
        return outs, se
    r2, (outs, se) = pcctx.run(env, cfg, x, b2, pz, case["seed"])
    e = pcctx.dec_gt(x, r2.dumps[se], "pc_map")
    mask = inf["hash"](ser_gt(x, e)).digest()
    want_body = bytes(a ^ b_ for a, b_ in zip(m, mask))
    if ct[hdr:] != want_body:
        raise Violation("cp_ibe_enc: body != m xor H(encode(e(U, d_id)))", mlen=len(m))
    for (nm, cti, capi, key), cl, (si, so) in zip(dec_list, r2.calls, outs):
        what = "cp_ibe_dec[%s]" % nm
        chk(cl, what, allow_error=True)
        if si in cl.changed:
            raise Violation("%s modified its input" % what)
        got = r2.dumps[so]
        if nm in ("honest", "cap+1"):
            if not ok(cl) or cl.rets[1] != len(m) or got[:len(m)] != m:
                raise Violation("IBE: dec(enc(m)) != m (%s)" % nm, mlen=len(m), rc=cl.ret_i(0) if cl.rets else None)
            if got[len(m):] != bytes([pz]) * (capi - len(m)):
                raise Violation("%s wrote beyond the plaintext length" % what)
        elif nm == "wrongkey":
            if E2.eq(prv, prv2):
                continue
            if ok(cl) and len(m) >= 8 and got[:len(m)] == m:
                raise Violation("IBE: a private key of another identity decrypts the message", ida=ida, idb=idb)
        elif nm == "malleate":
            exp = bytearray(m)
            exp[pos] ^= case["mask"]
            if not ok(cl) or got[:len(m)] != bytes(exp):
                raise Violation("IBE: decryption is not m' = body xor mask (flipping ciphertext bits must flip the same "
                                "plaintext bits)")
        else:
            if not failed(cl):
                raise Violation("%s: malformed ciphertext / insufficient capacity accepted" % what, kind=nm)
            if so in cl.changed:
                raise Violation("%s: rejected, but output was written" % what, kind=nm)
    lab += ["ibe:dec:" + nm for nm, _, _, _ in dec_list]
    return True, lab


# ================================================================================================ BGN

def strat_bgn(env, cfg):
    x = pcctx.job_ctx(env, cfg)
    small = st.one_of(st.integers(1, 40), st.integers(0, 40), st.integers(2, 40), st.sampled_from([1, 2, 0]))

    @st.composite
    def s(draw):
        return dict(cid=x.cid, seed=draw(SEED), m=[draw(small) for _ in range(4)], poison=draw(POISON))
    return s()


def run_bgn(env, cfg, case):
    x = pcctx.ctx_for(env, cfg, case["cid"])
    pz = case["poison"]
    m1, m2, m3, m4 = case["m"]
    E, E2, F12 = x.base.E, x.E2c, x.F12
    r = x.r

    # request 1: key generation and the four encryptions; the ciphertexts are validated by the reference BEFORE any
    # decryption runs (a decryption of a wrong ciphertext searches the whole plaintext space, i.e. never returns)
    def b(p):
        prv, g, h = p.bnv([0, 0, 0]), g1v(p, x, 3), g2v(p, x, 3)
        p.call("cp_bgn_gen", prv, g, h)
        c1, c2, c3, c4 = g1v(p, x, 2), g2v(p, x, 2), g1v(p, x, 2), g2v(p, x, 2)
        p.call("cp_bgn_enc1", c1, m1, g, h)
        p.call("cp_bgn_enc2", c2, m2, g, h)
        p.call("cp_bgn_enc1", c3, m3, g, h)
        p.call("cp_bgn_enc2", c4, m4, g, h)
        sl = (prv, g, h, c1, c2, c3, c4)
        for s_ in sl:
            p.dump(s_)
        return sl
    res, (prv, g, h, c1, c2, c3, c4) = pcctx.run(env, cfg, x, b, pz, case["seed"])
    for cl in res.calls:
        chk(cl, cl.name)
        if not ok(cl):
            raise Violation("%s failed for honest input" % cl.name, m=case["m"])
        if cl.name.startswith("cp_bgn_enc") and (g in cl.changed or h in cl.changed):
            raise Violation("%s modified the public key" % cl.name)
    xs, ys, zs = (v.value for v in res.dumps[prv])
    if not all(0 <= v < r for v in (xs, ys, zs)):
        raise Violation("cp_bgn_gen: private key outside [0, r)")
    G = dec_g1s(x, res.dumps[g], "bgn public key")
    H = dec_g2s(x, res.dumps[h], "bgn public key")
    for P, k in zip(G, (xs, ys, zs)):
        if not E.eq(P, E.mul(k, x.G1)):
            raise Violation("cp_bgn_gen: G1 public key is not [k]G1")
    if not E2.eq(H[0], E2.mul(xs, x.G2) if xs else None):
        raise Violation("cp_bgn_gen: G2 public key is not [x]G2")
    w = (xs * ys - zs) % r
    if w == 0:
        raise Unsupported()
    # ciphertext (c0, c1) = ([y m + t]G, [z m + x t]G): x c0 - c1 = [m (x y - z)]G whatever the mask t is
    C = {}
    for nm, slot_, mm in (("c1", c1, m1), ("c3", c3, m3)):
        C[nm] = dec_g1s(x, res.dumps[slot_], "bgn ciphertext")
        if not E.eq(E.sub(E.mul(xs, C[nm][0]), C[nm][1]), E.mul(mm * w % r, x.G1)):
            raise Violation("cp_bgn_enc1: x c0 - c1 != [m (xy - z)]G1", m=mm)
    for nm, slot_, mm in (("c2", c2, m2), ("c4", c4, m4)):
        C[nm] = dec_g2s(x, res.dumps[slot_], "bgn ciphertext")
        lhs = E2.sub(E2.mul(xs, C[nm][0]) if xs else None, C[nm][1])
        k2 = mm * w % r
        if not E2.eq(lhs, E2.mul(k2, x.G2) if k2 else None):
            raise Violation("cp_bgn_enc2: x c0 - c1 != [m (xy - z)]G2", m=mm)

    # request 2: decryptions and the homomorphic operations on the validated ciphertexts
    def b2(p):
        base = p.ncalls
        sprv = p.bnv([xs, ys, zs])
        t1, t2, t3, t4 = g1v(p, x, 2, C["c1"]), g2v(p, x, 2, C["c2"]), g1v(p, x, 2, C["c3"]), g2v(p, x, 2, C["c4"])
        d1 = p.call("cp_bgn_dec1", t1, sprv) - base
        d2 = p.call("cp_bgn_dec2", t2, sprv) - base
        e12, e34, es, ed = gtv(p, x, 4), gtv(p, x, 4), gtv(p, x, 4), gtv(p, x, 4)
        p.call("cp_bgn_mul", e12, t1, t2)
        p.call("cp_bgn_mul", e34, t3, t4)
        p.call("cp_bgn_add", es, e12, e34)
        p.call("cp_bgn_add", ed, e12, e12)
        d12 = p.call("cp_bgn_dec", e12, sprv) - base
        ds = p.call("cp_bgn_dec", es, sprv) - base
        dd = p.call("cp_bgn_dec", ed, sprv) - base
        return (d1, d2, d12, ds, dd), (sprv, t1, t2, t3, t4)
    r2, ((d1, d2, d12, ds, dd), ins) = pcctx.run(env, cfg, x, b2, pz, case["seed"])
    for cl in r2.calls:
        chk(cl, cl.name)
        if not ok(cl):
            raise Violation("%s failed for honest input" % cl.name, m=case["m"])
        if any(s_ in cl.changed for s_ in ins):
            raise Violation("%s modified its input" % cl.name)
    for idx, want, nm in ((d1, m1, "dec1(enc1(m))"), (d2, m2, "dec2(enc2(m))"), (d12, m1 * m2, "dec(mul(c1, c2))"),
                          (ds, m1 * m2 + m3 * m4, "dec(add(mul(c1,c2), mul(c3,c4)))"), (dd, 2 * m1 * m2, "dec(add(e, e))")):
        got = r2.calls[idx].rets[1]
        if got != want:
            raise Violation("BGN: %s = %d, expected %d" % (nm, got, want), m=case["m"])
    lab = ["bgn", "cid:%d" % x.cid]
    if 0 in (m1, m2):
        lab.append("bgn:zero-plaintext")
    if m1 * m2 + m3 * m4 > 256:
        lab.append("bgn:sum>256")
    return (m1 * m2 > 1 and m3 * m4 > 0) or 0 in (m1, m2), lab


# ================================================================================================ delegated pairing

PCDEL = {"pdpub": 3, "lvpub": 2, "pdprv": 4, "lvprv": 3}
CHEATS = ["one", "other", "square", "nonmember", "swap"]      # single replaced element (+ "order2-coordinated")


def strat_pcdel(env, cfg):
    x = pcctx.job_ctx(env, cfg)
    sc = st.one_of(ints.uniform(1, x.r - 1), st.sampled_from([1, 2, x.r - 1]))

    @st.composite
    def s(draw):
        return dict(cid=x.cid, proto=draw(st.sampled_from(sorted(PCDEL))), seed=draw(SEED), a=draw(sc), b=draw(sc),
                    honest_only=draw(st.integers(0, 7)) == 0, strict=draw(st.integers(0, 2)) == 0, poison=draw(POISON))
    return s()


def run_pcdel(env, cfg, case):
    x = pcctx.ctx_for(env, cfg, case["cid"])
    proto, pz, a, b_ = case["proto"], case["poison"], case["a"], case["b"]
    used = PCDEL[proto]
    prv = proto.endswith("prv")
    E, E2, F12 = x.base.E, x.E2c, x.F12
    P, Q = E.mul(a, x.G1), E2.mul(b_, x.G2)
    want = F12.pow(gpair(env, cfg, x), a * b_ % x.r)
    ng = {"pdpub": 3, "lvpub": 2, "pdprv": 4, "lvprv": 4}[proto]

    def b1(p):
        base = p.ncalls
        sp, sq = g1_in(p, x, P), g2_in(p, x, Q)
        sc, sr = p.bn(0), gt_out(p, x, pz)
        sg = gtv(p, x, ng)
        if not prv:
            r, u1, u2, v2, e = p.bn(0), g1_out(p, x, pz), g2_out(p, x, pz), g2_out(p, x, pz), gt_out(p, x, pz)
            v1, w2 = g1_out(p, x, pz), g2_out(p, x, pz)
            if proto == "pdpub":
                p.call("cp_pdpub_gen", sc, r, u1, u2, v2, e)
                p.call("cp_pdpub_ask", v1, w2, sp, sq, sc, r, u1, u2, v2)
            else:
                p.call("cp_lvpub_gen", r, u1, u2, v2, e)
                p.call("cp_lvpub_ask", sc, v1, w2, sp, sq, r, u1, u2, v2)
            p.call("cp_%s_ans" % proto, sg, sp, sq, v1, v2, w2)
        else:
            r, u1, u2, v2, e = p.bnv([0, 0, 0]), g1v(p, x, 2), g2v(p, x, 2), g2v(p, x, 4), gtv(p, x, 2)
            v1, w2 = g1v(p, x, 3), g2v(p, x, 4)
            p.call("cp_%s_gen" % proto, sc, r, u1, u2, v2, e)
            p.call("cp_%s_ask" % proto, v1, w2, sp, sq, sc, r, u1, u2, v2)
            p.call("cp_%s_ans" % proto, sg, v1, w2)
        cv = p.call("cp_%s_ver" % proto, sr, sg, sc, e) - base
        sref = gt_out(p, x, pz)
        p.call("pc_map", sref, sp, sq)
        for s_ in (sc, e, sg, sr, sref):
            p.dump(s_)
        return sc, e, sg, sr, sref, cv, (sp, sq)
    res, (sc, e, sg, sr, sref, cv, ins) = pcctx.run(env, cfg, x, b1, pz, case["seed"])
    for cl in res.calls:
        chk(cl, cl.name)
        if any(s_ in cl.changed for s_ in ins):
            raise Violation("%s modified the pairing arguments" % cl.name)
    for cl in res.calls[:3]:
        if not ok(cl):
            raise Violation("%s failed" % cl.name)
    ver = res.calls[cv]
    got = pcctx.dec_gt(x, res.dumps[sr], "delegated pairing result")
    ref = pcctx.dec_gt(x, res.dumps[sref], "pc_map")
    if not F12.eq(ref, want):
        raise Violation("pc_map([a]G1, [b]G2) != e(G1, G2)^(ab)")
    if ver.ret_i(0) != 1 or not F12.eq(got, want):
        raise Violation("%s: honest helper, but ver returned %d / result %s e(P, Q)" % (
            proto, ver.ret_i(0), "==" if F12.eq(got, want) else "!="), proto=proto)
    lab = ["pcdel:" + proto, "cid:%d" % x.cid, "pcdel:honest"]
    if case["honest_only"]:
        return False, lab
    c = res.dumps[sc].value
    g = dec_gts(x, res.dumps[sg][:used * 12 * x.F.nbytes], "helper answer")
    ev = dec_gts(x, res.dumps[e], "precomputed pairing")
    gen = gpair(env, cfg, x)
    variants = []
    for i in range(used):
        for kind in CHEATS:
            if kind == "one":
                v = F12.one
            elif kind == "other":
                v = F12.mul(g[i], gen)
            elif kind == "square":
                v = F12.sqr(g[i])
            elif kind == "nonmember":
                v = tuple(F12.flatten(g[i]))
                v = F12.unflatten([(2 * t) % x.F.p for t in v])       # 2 g_i: not of order r
            else:
                v = g[(i + 1) % used]
            if F12.eq(v, g[i]):
                continue
            variants.append((i, kind, v))
    # coordinated cheat with an element of order 2 (w = -1, outside GT because r is odd): the element that determines
    # the output is multiplied by w and the comparison target by w^c (a helper guesses the parity of c with
    # probability 1/2, which is why the verifiers must test membership of the helper's answers)
    minus = F12.neg(F12.one)
    wc = minus if c % 2 else F12.one
    tgt = {"pdpub": 1, "lvpub": 1, "pdprv": 3, "lvprv": 2}[proto]
    for i in ([0, 2] if proto == "pdprv" else [0]):
        variants.append((i, "order2-coordinated", F12.mul(minus, g[i]), tgt, F12.mul(wc, g[tgt])))

    def b2(p):
        sc2 = p.bn(c)
        se = gtv(p, x, 2, ev) if prv else gt_in(p, x, ev[0])
        outs = []
        for var in variants:
            i, kind, v = var[:3]
            gg = list(g) + [F12.one] * (ng - used)
            gg[i] = v
            if len(var) > 3:
                gg[var[3]] = var[4]
            sgg, srr = gtv(p, x, ng, gg), gt_out(p, x, pz)
            p.call("cp_%s_ver" % proto, srr, sgg, sc2, se)
            p.dump(srr)
            outs.append(srr)
        return outs
    r2, outs = pcctx.run(env, cfg, x, b2, pz, case["seed"])
    bad = []
    for var, cl, so in zip(variants, r2.calls, outs):
        i, kind, v = var[:3]
        what = "cp_%s_ver[g[%d] := %s]" % (proto, i, kind)
        chk(cl, what)
        rv = pcctx.dec_gt(x, r2.dumps[so], what)
        unity, same = F12.eq(rv, F12.one), F12.eq(rv, want)
        if cl.ret_i(0) != 0 and not unity:
            # neither rejected by the return value nor by the library's failure marker (result forced to 1)
            raise Violation("%s: dishonest helper answer accepted: ver returned %d and a result that is not the identity "
                            "(result %s e(P, Q))" % (what, cl.ret_i(0), "==" if same else "!="), proto=proto, index=i,
                            cheat=kind, rc=cl.ret_i(0), result_is_unity=False, result_is_pairing=same)
        if cl.ret_i(0) != 0 and case.get("strict"):
            bad.append(Violation("%s: dishonest helper answer, but ver returned %d (result %s)" % (
                what, cl.ret_i(0), "is the identity" if unity else "== e(P, Q)" if same else "is neither 1 nor e(P, Q)"),
                proto=proto, index=i, cheat=kind, rc=cl.ret_i(0), result_is_unity=unity, result_is_pairing=same))
        lab.append("pcdel:cheat:" + kind)
    lab.append("pcdel:return-value-checked" if case.get("strict") else "pcdel:result-checked")
    if bad:
        # report a failure outside the known class (return value 1 with the result forced to the identity) first
        worst = [v for v in bad if not (v.details["rc"] == 1 and v.details["result_is_unity"])]
        raise (worst or bad)[0]
    return True, sorted(set(lab))


# ================================================================================================ Shamir sharing

P256N = 0xFFFFFFFF00000000FFFFFFFFFFFFFFFFBCE6FAADA7179E84F3B9CAC2FC632551
ORDERS = [11, 257, 65537, (1 << 61) - 1, (1 << 127) - 1, (1 << 255) - 19, P256N, (1 << 521) - 1]


def plain_run(env, cfg, builder, pz, seed):
    p = Prog(poison=pz, seed=seed)
    meta = builder(p)
    res = env.runner(cfg).run(p)
    if res.failed_new:
        raise Unsupported()
    for cl in res.calls:
        if cl.unsupported:
            raise Unsupported()
    return res, meta


def secret_in(q):
    return st.one_of(st.sampled_from([0, 1, q - 1, q // 2]), ints.uniform(0, q - 1))


def strat_sss(env, cfg):
    @st.composite
    def s(draw):
        q = draw(st.sampled_from(ORDERS + [P256N, (1 << 255) - 19]))
        n = draw(st.sampled_from([8, 7, 6, 5, 4, 3, 2, 8, 7, 6, 5, 4, 3, 2, 1]))
        k = draw(st.sampled_from(list(range(min(6, n), 1, -1)) * 4 + [1])) if n >= 2 else 1
        z = draw(st.sampled_from(list(range(30))))
        if z == 27:
            k = n + 1                                  # more shares required than parties: must be refused
        elif z == 28:
            n, k = 0, draw(st.sampled_from([0, 1, 2]))  # no parties at all
        elif z == 29:
            k = 0
        return dict(q=q, n=n, k=k, secret=draw(secret_in(q)), seed=draw(SEED), rot=draw(st.integers(0, 7)),
                    poison=draw(POISON))
    return s()


def _sss_batches(tasks, size=56):
    for i in range(0, len(tasks), size):
        yield tasks[i:i + size]


def run_sss(env, cfg, case):
    q, n, k, secret, pz = case["q"], case["n"], case["k"], case["secret"], case["poison"]
    lab = ["sss:k=%d" % min(k, 7), "sss:n=%d" % n, "sss:order-bits=%d" % q.bit_length()]

    def b(p):
        sx, sy = p.bnv([pz] * n), p.bnv([pz] * n)
        ss, sq = p.bn(secret), p.bn(q)
        p.call("mpc_sss_gen", sx, sy, ss, sq, k, n)
        p.dump(sx), p.dump(sy)
        return sx, sy, ss, sq
    res, (sx, sy, ss, sq) = plain_run(env, cfg, b, pz, case["seed"])
    g = res.calls[0]
    chk(g, "mpc_sss_gen", allow_error=True)
    if ss in g.changed or sq in g.changed:
        raise Violation("mpc_sss_gen modified its input")
    if k > n or k < 2:
        # k > n cannot be honoured; a threshold of 1 (constant polynomial) is refused by the library's interface
        if not failed(g):
            raise Violation("mpc_sss_gen accepted threshold %d for %d parties" % (k, n))
        if g.changed:
            raise Violation("mpc_sss_gen refused its parameters but wrote output")
        return True, lab + ["sss:refused:" + ("n=0" if n == 0 else "k>n" if k > n else "k=%d" % k)]
    if not ok(g):
        raise Violation("mpc_sss_gen failed for threshold %d of %d" % (k, n))
    xs = [v.value for v in res.dumps[sx]]
    ys = [v.value for v in res.dumps[sy]]
    if xs != list(range(1, n + 1)):
        raise Violation("mpc_sss_gen: share indices are not 1..n", xs=xs)
    if not all(0 <= y < q for y in ys):
        raise Violation("mpc_sss_gen: share value outside [0, order)")
    # all n shares lie on one polynomial of degree < k with constant term = secret (reference interpolation)
    if pr.lagrange_at_zero(xs[:k], ys[:k], q) != secret % q:
        raise Violation("mpc_sss_gen: the first k shares do not interpolate to the secret (reference)", k=k, n=n)
    for j in range(k, n):
        if pr.lagrange_at(xs[:k], ys[:k], xs[j], q) != ys[j]:
            raise Violation("mpc_sss_gen: share %d is not on the degree-(k-1) polynomial of the first k shares" % (j + 1))
    tasks = []          # (indices, expect-secret?)
    rot = case["rot"]
    for t, sub in enumerate(itertools.combinations(range(n), k)):
        sub = list(sub)
        r_ = (rot + t) % k
        sub = sub[r_:] + sub[:r_]
        if t % 3 == 2:
            sub.reverse()
        tasks.append((sub, True))
    for kk in range(k + 1, n + 1):                     # larger qualifying sets
        tasks.append((list(range(kk)), True))
        tasks.append((list(range(n - kk, n))[::-1], True))
    tasks.append(([0], None))                          # a single share / no share: refused by the interface
    tasks.append(([], None))
    nbelow = 0
    if k - 1 >= 2:
        for sub in itertools.combinations(range(n), k - 1):
            tasks.append((list(sub), False))
            nbelow += 1
    for batch in _sss_batches(tasks):
        def b2(p):
            sq2 = p.bn(q)
            tx, ty = p.slot(), p.slot()
            keys = []
            for sub, _ in batch:
                p.bnv([xs[i] for i in sub], slot=tx)
                p.bnv([ys[i] for i in sub], slot=ty)
                sk = p.bn(pz)
                p.call("mpc_sss_key", sk, tx, ty, sq2, len(sub))
                p.dump(sk)
                keys.append(sk)
            return keys, tx, ty
        r2, (keys, tx, ty) = plain_run(env, cfg, b2, pz, case["seed"])
        for (sub, expect), cl, sk in zip(batch, r2.calls, keys):
            what = "mpc_sss_key(shares %s)" % [i + 1 for i in sub]
            chk(cl, what, allow_error=(expect is None))
            if tx in cl.changed or ty in cl.changed:
                raise Violation("%s modified its input" % what)
            if expect is None:
                if not failed(cl) or cl.changed:
                    raise Violation("%s: fewer than two shares were not refused cleanly" % what)
                continue
            if not ok(cl):
                raise Violation("%s failed" % what)
            raw = r2.dumps[sk]
            got = raw.value
            ref = pr.lagrange_at_zero([xs[i] for i in sub], [ys[i] for i in sub], q)
            if raw.normal_form_error():
                raise Violation("%s: result not normalised: %s" % (what, raw.normal_form_error()))
            if got != ref:
                raise Violation("%s = %d differs from the reference Lagrange interpolation at 0" % (what, got), k=k, n=n,
                                order=q, subset=[i + 1 for i in sub])
            if expect and got != secret % q:
                raise Violation("%s does not reconstruct the secret" % what, k=k, n=n, order=q)
            if not expect and q.bit_length() >= 120 and got == secret % q:
                raise Violation("%s: a subset below the threshold reconstructs the secret" % what, k=k, n=n)
    lab.append("sss:subsets=%d" % (len(tasks) - nbelow - 2))
    if nbelow:
        lab.append("sss:below-threshold")
    return n > k or nbelow > 0, lab


# ================================================================================================ bn_lag / bn_evl

def strat_lag(env, cfg):
    @st.composite
    def s(draw):
        q = draw(st.sampled_from(ORDERS))
        n = draw(st.integers(0, 8))
        roots = []
        for i in range(n):
            if i and draw(st.integers(0, 5)) == 0:
                roots.append(roots[draw(st.integers(0, i - 1))])          # repeated root
            else:
                roots.append(draw(st.one_of(st.sampled_from([0, 1, q - 1]), ints.uniform(0, q - 1))))
        return dict(q=q, roots=roots, at=draw(st.one_of(st.sampled_from([0, 1, q - 1]), ints.uniform(0, q - 1))),
                    poison=draw(POISON))
    return s()


def run_lag(env, cfg, case):
    q, roots, at, pz = case["q"], case["roots"], case["at"], case["poison"]
    n = len(roots)
    want = pr.poly_from_roots(roots, q)

    def b(p):
        sc, sa, sq, sx, sv = p.bnv([pz] * (n + 1)), p.bnv(roots), p.bn(q), p.bn(at), p.bn(pz)
        p.call("c6_bn_lag", sc, sa, sq, n)
        p.call("c6_bn_evl", sv, sc, sx, sq, n + 1)
        p.dump(sc), p.dump(sv)
        return sc, sa, sq, sv
    res, (sc, sa, sq, sv) = plain_run(env, cfg, b, pz, b"")
    for cl in res.calls:
        chk(cl, cl.name[3:])
        if sa in cl.changed or sq in cl.changed:
            raise Violation("%s modified its input" % cl.name[3:])
    got = [v.value % q for v in res.dumps[sc]]
    if got != want:
        raise Violation("bn_lag: coefficients differ from prod (X - a_i) mod q", n=n, lag_n=n, got=got[:3], want=want[:3])
    ev = res.dumps[sv].value
    if ev % q != pr.poly_eval(want, at, q):
        raise Violation("bn_evl: wrong value of the polynomial", n=n)
    lab = ["lag:n=%d" % n]
    if len(set(roots)) < n:
        lab.append("lag:repeated-root")
    return n != 1, lab


# ================================================================================================ multiplication triples

def strat_mt(env, cfg):
    @st.composite
    def s(draw):
        q = draw(st.sampled_from(ORDERS))
        v = secret_in(q)
        return dict(q=q, seed=draw(SEED), x=[draw(v), draw(v)], y=[draw(v), draw(v)], poison=draw(POISON))
    return s()


def run_mt(env, cfg, case):
    q, pz = case["q"], case["poison"]
    xsh, ysh = case["x"], case["y"]

    def b(p):
        t0, t1, sq = p.bnv([pz] * 3), p.bnv([pz] * 3), p.bn(q)
        p.call("mpc_mt_gen", t0, t1, sq)
        d0, e0, d1, e1 = (p.bn(pz) for _ in range(4))
        x0, x1, y0, y1 = p.bn(xsh[0]), p.bn(xsh[1]), p.bn(ysh[0]), p.bn(ysh[1])
        p.call("mpc_mt_lcl", d0, e0, x0, y0, sq, t0)
        p.call("mpc_mt_lcl", d1, e1, x1, y1, sq, t1)
        for s_ in (t0, t1, d0, e0, d1, e1):
            p.dump(s_)
        return t0, t1, (d0, e0, d1, e1)
    res, (t0, t1, ds) = plain_run(env, cfg, b, pz, case["seed"])
    for cl in res.calls:
        chk(cl, cl.name)
    tri = [[v.value for v in res.dumps[t]] for t in (t0, t1)]
    for t in tri:
        if not all(0 <= v < q for v in t):
            raise Violation("mpc_mt_gen: share outside [0, order)", tri=t)
    a, b_, c_ = (tri[0][i] + tri[1][i] for i in range(3))
    if (a * b_ - c_) % q:
        raise Violation("mpc_mt_gen: (a0 + a1)(b0 + b1) != c0 + c1 mod order", order=q)
    d0, e0, d1, e1 = (res.dumps[s_].value for s_ in ds)
    for got, want, nm in ((d0, xsh[0] - tri[0][0], "d0"), (e0, ysh[0] - tri[0][1], "e0"), (d1, xsh[1] - tri[1][0], "d1"),
                          (e1, ysh[1] - tri[1][1], "e1")):
        if got != want % q:
            raise Violation("mpc_mt_lcl: %s != share - mask mod order" % nm, order=q)

    def b2(p):
        sq = p.bn(q)
        sd, se = p.bnv([d0, d1]), p.bnv([e0, e1])
        p.call("mpc_mt_bct", sd, se, sq)
        p.dump(sd), p.dump(se)
        return sd, se
    r2, (sd, se) = plain_run(env, cfg, b2, pz, case["seed"])
    chk(r2.calls[0], "mpc_mt_bct")
    dd, ee = [v.value for v in r2.dumps[sd]], [v.value for v in r2.dumps[se]]
    d, e = pr.beaver_open(xsh, ysh, [tri[0][0], tri[1][0]], [tri[0][1], tri[1][1]], q)
    if dd != [d, d] or ee != [e, e]:
        raise Violation("mpc_mt_bct: opened values differ from x - a, y - b", order=q)

    def b3(p):
        sq, sd, se = p.bn(q), p.bn(d), p.bn(e)
        u0, u1 = p.bnv(tri[0]), p.bnv(tri[1])
        r0, r1 = p.bn(pz), p.bn(pz)
        p.call("mpc_mt_mul", r0, sd, se, sq, u0, 0)
        p.call("mpc_mt_mul", r1, sd, se, sq, u1, 1)
        p.dump(r0), p.dump(r1)
        return r0, r1
    r3, (r0, r1) = plain_run(env, cfg, b3, pz, case["seed"])
    for cl in r3.calls:
        chk(cl, "mpc_mt_mul")
    v0, v1 = r3.dumps[r0].value, r3.dumps[r1].value
    if not (0 <= v0 < q and 0 <= v1 < q):
        raise Violation("mpc_mt_mul: product share outside [0, order)")
    x, y = sum(xsh) % q, sum(ysh) % q
    if (v0 + v1) % q != x * y % q:
        raise Violation("multiplication triple: product shares do not sum to x y mod order", order=q, x=x, y=y)
    lab = ["mt:order-bits=%d" % q.bit_length()]
    if sum(xsh) >= q or sum(ysh) >= q:
        lab.append("mt:share-sum-wraps")
    if 0 in (x, y):
        lab.append("mt:zero-operand")
    return True, lab


# ================================================================================================ MPC in G1 / G2 / GT / pairing

def strat_mpcg(env, cfg):
    x = pcctx.job_ctx(env, cfg)
    sc = st.one_of(st.sampled_from([0, 1, 2, x.r - 1]), ints.uniform(0, x.r - 1))

    @st.composite
    def s(draw):
        return dict(cid=x.cid, grp=draw(st.sampled_from(["g1", "g2", "gt", "pc", "pc"])), seed=draw(SEED),
                    k=[draw(sc), draw(sc)], a=[draw(sc), draw(sc)], b=[draw(sc), draw(sc)], poison=draw(POISON))
    return s()


def run_mpcg(env, cfg, case):
    x = pcctx.ctx_for(env, cfg, case["cid"])
    grp, pz = case["grp"], case["poison"]
    E, E2, F12, r = x.base.E, x.E2c, x.F12, x.r
    gen = gpair(env, cfg, x)
    lab = ["mpc:" + grp, "cid:%d" % x.cid]
    if grp == "pc":
        # shares of P = [a0 + a1]G1 and Q = [b0 + b1]G2; the parties end with shares of e(P, Q)
        Ps = [E.mul(v, x.G1) for v in case["a"]]
        Qs = [E2.mul(v, x.G2) if v % r else None for v in case["b"]]
        want = F12.pow(gen, sum(case["a"]) * sum(case["b"]) % r)

        def b(p):
            ta, tb, tc = g1v(p, x, 2), g2v(p, x, 2), gtv(p, x, 2)
            p.call("pc_map_tri", ta, tb, tc)
            p.dump(ta), p.dump(tb), p.dump(tc)
            return ta, tb, tc
        res, (ta, tb, tc) = pcctx.run(env, cfg, x, b, pz, case["seed"])
        chk(res.calls[0], "pc_map_tri")
        TA, TB = dec_g1s(x, res.dumps[ta], "pairing triple"), dec_g2s(x, res.dumps[tb], "pairing triple")
        TC = dec_gts(x, res.dumps[tc], "pairing triple")

        def b2(p):
            sa = [g1_in(p, x, T) for T in TA]
            sb = [g2_in(p, x, T) for T in TB]
            sc_ = [gt_in(p, x, T) for T in TC]
            chkm = gt_out(p, x, pz)
            sumA, sumB = g1_out(p, x, pz), g2_out(p, x, pz)
            p.call("g1_add", sumA, sa[0], sa[1]), p.call("g2_add", sumB, sb[0], sb[1])
            p.call("pc_map", chkm, sumA, sumB)
            sp = [g1_in(p, x, P) for P in Ps]
            sq = [g2_in(p, x, Q) for Q in Qs]
            sd, se = g1v(p, x, 2), g2v(p, x, 2)
            d_ = [g1_out(p, x, pz), g1_out(p, x, pz)]
            e_ = [g2_out(p, x, pz), g2_out(p, x, pz)]
            for i in range(2):
                p.call("pc_map_lcl", d_[i], e_[i], sp[i], sq[i], sa[i], sb[i], sc_[i])
            for s_ in d_ + e_ + [chkm]:
                p.dump(s_)
            return d_, e_, chkm
        r2, (d_, e_, chkm) = pcctx.run(env, cfg, x, b2, pz, case["seed"])
        for cl in r2.calls:
            chk(cl, cl.name)
        if not F12.eq(pcctx.dec_gt(x, r2.dumps[chkm], "pc_map"), F12.mul(TC[0], TC[1])):
            raise Violation("pc_map_tri: e(a0 + a1, b0 + b1) != c0 c1")
        D = [dec_g1(x, r2.dumps[s_], "pc_map_lcl") for s_ in d_]
        Eq = [dec_g2(x, r2.dumps[s_], "pc_map_lcl") for s_ in e_]
        for i in range(2):
            if not E.eq(D[i], E.sub(Ps[i], TA[i])) or not E2.eq(Eq[i], E2.sub(Qs[i], TB[i])):
                raise Violation("pc_map_lcl: public share != input share - triple share")

        def b3(p):
            sd, se = g1v(p, x, 2, D), g2v(p, x, 2, Eq)
            p.call("pc_map_bct", sd, se)
            p.dump(sd), p.dump(se)
            return sd, se
        r3, (sd, se) = pcctx.run(env, cfg, x, b3, pz, case["seed"])
        chk(r3.calls[0], "pc_map_bct")
        DD, EE = dec_g1s(x, r3.dumps[sd], "pc_map_bct"), dec_g2s(x, r3.dumps[se], "pc_map_bct")
        Dsum, Esum = E.add(D[0], D[1]), E2.add(Eq[0], Eq[1])
        if not (E.eq(DD[0], Dsum) and E.eq(DD[1], Dsum) and E2.eq(EE[0], Esum) and E2.eq(EE[1], Esum)):
            raise Violation("pc_map_bct: opened values are not the sums of the shares")

        def b4(p):
            sdd, see = g1_in(p, x, Dsum), g2_in(p, x, Esum)
            outs = []
            for i in range(2):
                so = gt_out(p, x, pz)
                p.call("pc_map_mpc", so, sdd, see, g1_in(p, x, TA[i]), g2_in(p, x, TB[i]), gt_in(p, x, TC[i]), i)
                p.dump(so)
                outs.append(so)
            return outs
        r4, outs = pcctx.run(env, cfg, x, b4, pz, case["seed"])
        for cl in r4.calls:
            chk(cl, "pc_map_mpc")
        sh = [pcctx.dec_gt(x, r4.dumps[s_], "pc_map_mpc") for s_ in outs]
        if not F12.eq(F12.mul(sh[0], sh[1]), want):
            raise Violation("MPC pairing: the product of the result shares is not e(P, Q)", a=case["a"], b=case["b"])
        if sum(case["a"]) % r == 0 or sum(case["b"]) % r == 0:
            lab.append("mpc:identity-input")
        return True, lab

    # scalar multiplication / exponentiation with a Beaver triple whose second component lives in the group
    k0, k1 = case["k"]
    k = (k0 + k1) % r
    a0, a1 = case["a"]                 # shares of the element's discrete log
    elem_log = (a0 + a1) % r

    def b(p):
        t0, t1, sq = p.bnv([pz] * 3), p.bnv([pz] * 3), p.bn(r)
        p.call("mpc_mt_gen", t0, t1, sq)
        p.dump(t0), p.dump(t1)
        return t0, t1
    res, (t0, t1) = pcctx.run(env, cfg, x, b, pz, case["seed"])
    chk(res.calls[0], "mpc_mt_gen")
    tri = [[v.value for v in res.dumps[t]] for t in (t0, t1)]
    if ((tri[0][0] + tri[1][0]) * (tri[0][1] + tri[1][1]) - tri[0][2] - tri[1][2]) % r:
        raise Violation("mpc_mt_gen: inconsistent triple over the group order")
    if grp == "g1":
        mulg = lambda v: E.mul(v, x.G1)
        vin, vout, vvec, dec1, decs = g1_in, g1_out, g1v, dec_g1, dec_g1s
        sub, add, eq = E.sub, E.add, E.eq
        names = ("g1_mul_lcl", "g1_mul_bct", "g1_mul_mpc")
    elif grp == "g2":
        mulg = lambda v: (E2.mul(v % r, x.G2) if v % r else None)
        vin, vout, vvec, dec1, decs = g2_in, g2_out, g2v, dec_g2, dec_g2s
        sub, add, eq = E2.sub, E2.add, E2.eq
        names = ("g2_mul_lcl", "g2_mul_bct", "g2_mul_mpc")
    else:
        mulg = lambda v: F12.pow(gen, v % r)
        vin, vout, vvec = gt_in, gt_out, gtv
        dec1 = lambda x_, blob, what: pcctx.dec_gt(x_, blob, what)
        decs = dec_gts
        sub = lambda u, v: F12.mul(u, F12.inv(v))
        add, eq = F12.mul, F12.eq
        names = ("gt_exp_lcl", "gt_exp_bct", "gt_exp_mpc")
    Psh = [mulg(a0), mulg(a1)]
    B = [mulg(tri[i][1]) for i in range(2)]
    C = [mulg(tri[i][2]) for i in range(2)]
    want = mulg(k * elem_log % r)

    def b2(p):
        outs = []
        for i in range(2):
            sd, sq_ = p.bn(pz), vout(p, x, pz)
            sb = vin(p, x, B[i])
            p.call(names[0], sd, sq_, p.bn(case["k"][i]), vin(p, x, Psh[i]), p.bnv(tri[i]), sb)
            p.dump(sd), p.dump(sq_), p.dump(sb)
            outs.append((sd, sq_, sb))
        return outs
    r2, outs = pcctx.run(env, cfg, x, b2, pz, case["seed"])
    ds, qs = [], []
    for i, ((sd, sq_, sb), cl) in enumerate(zip(outs, r2.calls)):
        chk(cl, names[0])
        if sb in cl.changed:
            raise Violation("%s modified the triple" % names[0])
        dv = r2.dumps[sd].value
        if dv != (case["k"][i] - tri[i][0]) % r:
            raise Violation("%s: masked scalar != k_i - a_i mod r" % names[0])
        qv = dec1(x, r2.dumps[sq_], names[0])
        if not eq(qv, sub(Psh[i], B[i])):
            raise Violation("%s: masked element != P_i - B_i" % names[0])
        ds.append(dv), qs.append(qv)

    def b3(p):
        sd, sq_ = p.bnv(ds), vvec(p, x, 2, qs)
        p.call(names[1], sd, sq_)
        p.dump(sd), p.dump(sq_)
        return sd, sq_
    r3, (sd, sq_) = pcctx.run(env, cfg, x, b3, pz, case["seed"])
    chk(r3.calls[0], names[1])
    dsum, qsum = sum(ds) % r, add(qs[0], qs[1])
    dd = [v.value for v in r3.dumps[sd]]
    qq = decs(x, r3.dumps[sq_], names[1])
    if dd != [dsum, dsum] or not (eq(qq[0], qsum) and eq(qq[1], qsum)):
        raise Violation("%s: opened values are not the sums of the shares" % names[1])

    def b4(p):
        sdd, sqq = p.bn(dsum), vin(p, x, qsum)
        outs_ = []
        for i in range(2):
            so = vout(p, x, pz)
            p.call(names[2], so, sdd, sqq, p.bnv(tri[i]), vin(p, x, B[i]), vin(p, x, C[i]), i)
            p.dump(so)
            outs_.append(so)
        return outs_
    r4, outs_ = pcctx.run(env, cfg, x, b4, pz, case["seed"])
    for cl in r4.calls:
        chk(cl, names[2])
    sh = [dec1(x, r4.dumps[s_], names[2]) for s_ in outs_]
    if not eq(add(sh[0], sh[1]), want):
        raise Violation("MPC %s: the result shares do not combine to [k]P / a^k" % grp, k=case["k"], a=case["a"])
    if k == 0 or elem_log == 0:
        lab.append("mpc:zero-scalar-or-identity")
    return True, lab


# ================================================================================================ PSI

def set_pair(elem, maxn=8):
    """two lists over a common pool with controlled sizes and overlap (empty, one-sided, identical, single element,
    duplicates, subset, disjoint); sizes and overlap are drawn uniformly, not through list lengths"""
    sizes = list(range(0, maxn + 1))

    @st.composite
    def s(draw):
        pool = draw(st.lists(elem, min_size=2 * maxn, max_size=2 * maxn, unique=True))
        kind = draw(st.sampled_from(["mixed"] * 7 + ["disjoint", "identical", "dup-x", "dup-y", "subset", "single", "x-empty",
                                                      "y-empty", "both-empty"]))
        mx, my = draw(st.integers(0, maxn)), draw(st.integers(0, maxn))
        if kind in ("mixed", "dup-x", "dup-y"):
            ov = draw(st.sampled_from(list(range(0, min(mx, my) + 1))))
            xs = pool[:mx]
            ys = xs[:ov] + pool[maxn:maxn + my - ov]
            ys = list(draw(st.permutations(ys)))
            xs = list(draw(st.permutations(xs)))
            tgt = xs if kind == "dup-x" else ys if kind == "dup-y" else None
            if tgt is not None:
                if not tgt:
                    tgt.append(pool[-1])
                if len(tgt) < maxn:
                    tgt.insert(draw(st.integers(0, len(tgt))), tgt[draw(st.integers(0, len(tgt) - 1))])
                else:
                    tgt[0] = tgt[-1]
        elif kind == "disjoint":
            xs, ys = pool[:max(mx, 1)], pool[maxn:maxn + max(my, 1)]
        elif kind == "identical":
            xs = pool[:max(mx, 1)]
            ys = list(draw(st.permutations(xs)))
        elif kind == "x-empty":
            xs, ys = [], pool[:my]
        elif kind == "y-empty":
            xs, ys = pool[:mx], []
        elif kind == "both-empty":
            xs, ys = [], []
        elif kind == "single":
            xs = [pool[0]]
            ys = draw(st.sampled_from([[pool[0]], [pool[1]], pool[:max(my, 1)], pool[1:1 + my]]))
        else:                                  # subset
            ys = pool[:max(my, 2)]
            xs = ys[:max(1, len(ys) // 2)]
            if draw(st.booleans()):
                xs, ys = ys, xs
        return dict(kind=kind, x=list(xs), y=list(ys))
    return s()


def psi_labels(case_sets, proto):
    xs, ys = case_sets["x"], case_sets["y"]
    inter = set(xs) & set(ys)
    lab = ["psi:" + proto, "psi:kind=" + case_sets["kind"], "psi:m=%d" % len(xs), "psi:l=%d" % len(ys),
           "psi:|int|=%d" % len(inter)]
    if len(set(xs)) < len(xs) or len(set(ys)) < len(ys):
        lab.append("psi:duplicates")
    return lab


def check_intersection(proto, xs, ys, zs, ln, cap):
    inter = set(xs) & set(ys)
    if ln > cap:
        raise Violation("%s: reported %d results for %d x %d inputs" % (proto, ln, len(xs), len(ys)))
    got = zs[:ln]
    if set(got) != inter:
        raise Violation("%s: output is not the intersection" % proto, psi_m=len(xs), psi_l=len(ys), x=xs, y=ys,
                        got=sorted(got), want=sorted(inter))
    if len(set(xs)) == len(xs) and len(set(ys)) == len(ys) and ln != len(inter):
        raise Violation("%s: duplicate-free inputs, but %d results for an intersection of %d" % (proto, ln, len(inter)))


def strat_psi(env, cfg):
    elem = st.one_of(st.integers(0, 20), ints.uniform(0, (1 << 64) - 1), ints.uniform(0, (1 << 1000) - 1),
                     st.sampled_from([(1 << 1024) - 1, 1 << 1023, 255, 256]))

    @st.composite
    def s(draw):
        return dict(proto=draw(st.sampled_from(["rsapsi", "shipsi"])), bits=draw(st.sampled_from([128, 256, 256, 384, 512])),
                    seed=draw(SEED), sets=draw(set_pair(elem)), poison=draw(POISON))
    return s()


def run_psi(env, cfg, case):
    proto, bits, pz = case["proto"], case["bits"], case["poison"]
    xs, ys = case["sets"]["x"], case["sets"]["y"]
    m, l = len(xs), len(ys)
    cap = m * l + 1

    def b(p):
        g, n = p.bn(pz), p.bn(pz)
        crt = None
        if proto == "rsapsi":
            p.call("cp_rsapsi_gen", g, n, bits)
        else:
            crt = p.bnv([0] * 6)
            p.call("cp_shipsi_gen", g, crt, bits)
        p.dump(g), p.dump(n if crt is None else crt)
        return g, n, crt
    res, (g, n, crt) = plain_run(env, cfg, b, pz, case["seed"])
    chk(res.calls[0], "cp_%s_gen" % proto)
    gv = res.dumps[g].value
    if crt is None:
        nv = res.dumps[n].value
        crtv = None
    else:
        crtv = [v.value for v in res.dumps[crt]]
        nv, pp, qq, dp, dq, qi = crtv
        if pp * qq != nv or dp != pp - 1 or dq != qq - 1 or (qi * qq) % pp != 1 or not pp < qq:
            raise Violation("cp_shipsi_gen: inconsistent CRT parameters")
    if not (1 < gv < nv) or nv.bit_length() not in (bits, bits - 1) or nv % 2 == 0:
        raise Violation("cp_%s_gen: bad modulus / generator" % proto, nbits=nv.bit_length(), bits=bits)

    def b2(p):
        base = p.ncalls
        sg, sn = p.bn(gv), p.bn(nv)
        sd, sr, sp_ = p.bn(pz), p.bn(pz), p.bnv([pz] * m)
        sx, sy = p.bnv(xs), p.bnv(ys)
        p.call("cp_%s_ask" % proto, sd, sr, sp_, sg, sn, sx, m)
        st_ = p.bnv([pz] * l)
        sz = p.bnv([pz] * cap)
        if proto == "rsapsi":
            su = p.bnv([pz] * l)
            p.call("cp_rsapsi_ans", st_, su, sd, sg, sn, sy, l)
            p.call("cp_rsapsi_int", sz, sr, sp_, sn, sx, m, st_, su, l)
        else:
            su = p.bn(pz)
            p.call("cp_shipsi_ans", st_, su, sd, sg, p.bnv(crtv), sy, l)
            p.call("cp_shipsi_int", sz, sr, sp_, sn, sx, m, st_, su, l)
        p.dump(sz), p.dump(sp_), p.dump(sd), p.dump(sr)
        return sz, sp_, sd, sr, (sx, sy, sg, sn)
    r2, (sz, sp_, sd, sr, ins) = plain_run(env, cfg, b2, pz, case["seed"])
    for i, cl in enumerate(r2.calls):
        chk(cl, cl.name)
        if not ok(cl):
            raise Violation("%s failed" % cl.name, psi_m=m, psi_l=l)
        if any(s_ in cl.changed for s_ in ins):
            raise Violation("%s modified its input" % cl.name)
    primes = [v.value for v in r2.dumps[sp_]]
    rv = r2.dumps[sr].value
    acc = pow(gv, rv, nv)
    for pr_ in primes:
        if pr_ % 2 == 0 or pr_ < 3:
            raise Violation("cp_%s_ask: element mapped to a non-prime" % proto)
        acc = pow(acc, pr_, nv)
    if r2.dumps[sd].value != acc:
        raise Violation("cp_%s_ask: accumulator != g^(r prod p_i) mod n" % proto, psi_m=m)
    ln = r2.calls[2].rets[1]
    zs = [v.value for v in r2.dumps[sz]][:min(ln, cap)]
    check_intersection("cp_%s_int" % proto, xs, ys, zs, ln, cap)
    return case["sets"]["kind"] != "mixed" or len(set(xs) & set(ys)) > 0, psi_labels(case["sets"], proto)


def strat_pbpsi(env, cfg):
    x = pcctx.job_ctx(env, cfg)
    elem = st.one_of(st.integers(0, 20), ints.uniform(0, x.r - 1), st.sampled_from([x.r - 1, x.r - 2]))

    @st.composite
    def s(draw):
        return dict(cid=x.cid, seed=draw(SEED), sets=draw(set_pair(elem, maxn=draw(st.sampled_from([3, 5, 8])))),
                    extra=draw(st.sampled_from([0, 0, 1, 2])), poison=draw(POISON))
    return s()


def run_pbpsi(env, cfg, case):
    x = pcctx.ctx_for(env, cfg, case["cid"])
    pz = case["poison"]
    xs, ys = case["sets"]["x"], case["sets"]["y"]
    m, l = len(xs), len(ys)
    mm = m + case["extra"]
    cap = m * l + 1
    E, E2, r = x.base.E, x.E2c, x.r

    def b(p):
        sk, ss, s_ = p.bn(pz), g1_out(p, x, pz), g2v(p, x, mm + 1)
        p.call("cp_pbpsi_gen", sk, ss, s_, mm)
        sd, sr, sx, sy = g2v(p, x, m + 1), p.bn(pz), p.bnv(xs), p.bnv(ys)
        p.call("cp_pbpsi_ask", sd, sr, sx, s_, m)
        st_, su = gtv(p, x, l), g1v(p, x, l)
        p.call("cp_pbpsi_ans", st_, su, ss, sd, sy, l)
        sz = p.bnv([pz] * cap)
        p.call("cp_pbpsi_int", sz, sd, sx, m, st_, su, l)
        for v in (sk, ss, sr, sz):
            p.dump(v)
        p.dump(sd)
        return sk, ss, sr, sz, sd, (sx, sy)
    res, (sk, ss, sr, sz, sd, ins) = pcctx.run(env, cfg, x, b, pz, case["seed"])
    for cl in res.calls:
        chk(cl, cl.name)
        if not ok(cl):
            raise Violation("%s failed" % cl.name, psi_m=m, psi_l=l)
        if any(s_ in cl.changed for s_ in ins):
            raise Violation("%s modified its input" % cl.name)
    skv, rv = res.dumps[sk].value, res.dumps[sr].value
    if not E.eq(dec_g1(x, res.dumps[ss], "pbpsi ss"), E.mul(skv, x.G1)):
        raise Violation("cp_pbpsi_gen: ss != [sk]G1")
    # d[0] = [r prod (sk - x_i)]G2 (the receiver's polynomial evaluated at the secret point, in the exponent)
    d0 = pcctx.dec_points2(x, res.dumps[sd][:6 * x.F.nbytes + 5], "pbpsi d")[0][0]
    ev = rv * pr.poly_eval(pr.poly_from_roots(xs, r), skv, r) % r
    if not E2.eq(d0, E2.mul(ev, x.G2) if ev else None):
        raise Violation("cp_pbpsi_ask: d[0] != [r p(sk)]G2 for p = prod (X - x_i)", psi_m=m)
    ln = res.calls[3].rets[1]
    zs = [v.value for v in res.dumps[sz]][:min(ln, cap)]
    check_intersection("cp_pbpsi_int", [v % r for v in xs], [v % r for v in ys], zs, ln, cap)
    return case["sets"]["kind"] != "mixed" or len(set(xs) & set(ys)) > 0, psi_labels(case["sets"], "pbpsi")


# ================================================================================================ registry

def self_test():
    rec.self_test()
    rext.self_test()
    pr.self_test()


def _cfgs():
    return {"quick": ["base256"], "thorough": ["base256", "p381"]}


def _cfgs_int():
    """integer-only protocols do not depend on the field size"""
    return {"quick": ["base256"], "thorough": ["base256"]}


TARGETS = [
    Target("ecies", strat_ecies, run_ecies, _cfgs(), quick=2400, thorough=9000),
    Target("ecdh", strat_ecdh, run_ecdh, _cfgs(), quick=4000, thorough=20000),
    Target("ecmqv", strat_ecmqv, run_ecmqv, _cfgs(), quick=3000, thorough=12000),
    # key agreement on the 381-bit curve in the quick tier as well (group order of odd bit length, other cofactor)
    Target("ecdh-381", strat_ecdh, run_ecdh, {"quick": ["p381"], "thorough": ["p381"]}, quick=500, thorough=500),
    Target("ecmqv-381", strat_ecmqv, run_ecmqv, {"quick": ["p381"], "thorough": ["p381"]}, quick=500, thorough=500),
    Target("sok", strat_sok, run_sok, _cfgs(), quick=900, thorough=3500),
    Target("ibe", strat_ibe, run_ibe, _cfgs(), quick=1500, thorough=6000),
    Target("bgn", strat_bgn, run_bgn, _cfgs(), quick=700, thorough=2800),
    Target("pcdel", strat_pcdel, run_pcdel, _cfgs(), quick=1000, thorough=4000),
    Target("sss", strat_sss, run_sss, _cfgs_int(), quick=3000, thorough=20000),
    Target("lag", strat_lag, run_lag, _cfgs_int(), quick=2500, thorough=15000),
    Target("mt", strat_mt, run_mt, _cfgs_int(), quick=2500, thorough=15000),
    Target("mpcg", strat_mpcg, run_mpcg, _cfgs(), quick=800, thorough=3000),
    Target("psi", strat_psi, run_psi, _cfgs_int(), quick=1500, thorough=8000),
    Target("pbpsi", strat_pbpsi, run_pbpsi, _cfgs(), quick=500, thorough=2000),
]


# ================================================================================================ known findings

def _k_ecies_short(case, v, entry):
    """cp_ecies_dec with in_len < RLC_MD_LEN: size_t underflow of in_len - RLC_MD_LEN, crash inside md_hmac"""
    return bool(case.get("short")) and bool(v.details.get("ecies_short")) and \
        any("md_hmac" in f or "cp_ecies_dec" in f for f in (v.details.get("frames") or ["cp_ecies_dec"]))


def _k_x_minimal(case, v, entry):
    """ECDH / ECMQV: shared x-coordinate with leading zero octet(s) is fed to the KDF without them"""
    return v.details.get("x_has_leading_zero") is True and v.details.get("matches_minimal_x") is True


def _k_mqv_identity(case, v, entry):
    return case.get("mode") == "identity" and case.get("which") == "both" and v.details.get("mqv_identity") is True


def _k_pcdel_ver(case, v, entry):
    """the four delegated-pairing verifiers return 1 when the check equation fails (they only force the result to 1)"""
    return bool(case.get("strict")) and v.details.get("rc") == 1 and v.details.get("result_is_unity") is True and \
        v.details.get("cheat") in CHEATS


def _k_lag0(case, v, entry):
    return case.get("roots") == [] and v.details.get("lag_n") == 0


def _k_pbpsi_m1(case, v, entry):
    """PB-PSI with a one-element receiver set never reports a match (consequence of bn_lag(n = 0) = 0)"""
    return len(case.get("sets", {}).get("x", [0, 0])) == 1 and v.details.get("psi_m") == 1 and v.details.get("got") == []


KNOWN_PREDICATES = {"ecies_dec_short_input": _k_ecies_short, "kdf_input_x_minimal_length": _k_x_minimal,
                    "ecmqv_identity_accepted": _k_mqv_identity, "pcdel_ver_returns_1_on_failed_check": _k_pcdel_ver,
                    "bn_lag_zero_roots": _k_lag0, "pbpsi_single_element_set": _k_pbpsi_m1}

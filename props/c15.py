"""C15 — the deterministic random generator follows Hash_DRBG for every call history (DESIGN §2 C15).

A case is a whole call history (one Hypothesis value, shrinks as a whole). It is executed in one runner request;
after EVERY step the raw working state (ctx->rand = scratch byte || V || C, ctx->counter, ctx->seeded) is read back
and compared with a lock-step SP 800-90A reference (engine/ref/hashdrbg.py), so a wrong carry is caught at the step
where it happens. Integer / field sampling is checked against the reference's interpretation of the same stream."""
import json
import os

from hypothesis import strategies as st

from engine import core
from engine.core import Target, Violation, Unsupported
from engine.gen import ints
from engine.proto import Prog, ERR, RLC_ERR, RLC_POS, RLC_NEG
from engine.ref import hashdrbg
from engine.ref.hashdrbg import HashDRBG, RequestTooLarge, carry_profile

PROPERTY = "C15"
RULE = ("a case is a whole call history generated as one Hypothesis value: instantiate(seed, 1..200 bytes incl. 55/56/64), "
        "then up to 39 steps of reseed(data) / generate(len in {0,1,31,32,33,54,55,56,63,64,65,110,111,1000,65535,65536, "
        "random}) / refused generate(len > 2^16) / refused reseed(len 0) / burn(n requests) / bn_rand(sign, bits) / "
        "bn_rand_mod(b) / fp_rand / fb_rand; second family: histories built around seeds found by a reference-side search "
        "whose n-th state update ripples a carry through >= 2 bytes (or whose V ends in 0xFFFF); third family: long "
        "histories whose reseed counter crosses 255->256 and beyond. Oracle: lock-step SP 800-90A Hash_DRBG reference, "
        "bytes and raw state (V, C, counter, seeded) compared after every step; sampled integers equal the reference "
        "replay on the same stream and satisfy the range / sign / normal-form conditions. "
        "non-trivial: history with >= 3 steps containing a generate whose length is not a multiple of the digest "
        "length, or a reseed between generates, or a multi-byte carry in the state update. "
        "distinct = distinct (target, cfg, whole history) hashes")
ASSUMPTIONS = [
    "rand_seed maps to SP 800-90A as: unseeded context -> Instantiate with seed_material = the given bytes (entropy_input || "
    "nonce, no personalization string); seeded context -> Reseed with entropy_input = the given bytes, no additional input; "
    "rand_bytes -> Generate without additional input and without prediction resistance",
    "an instance from a chosen seed is obtained by clearing the public field ctx->seeded before rand_seed (what rand_init does)",
    "bn_rand(bits) issues exactly one generate request of ceil(bits/W)*W/8 bytes (also for bits = 0) and interprets the bytes as "
    "little-endian digits in memory order (little-endian host); fp_rand / fb_rand request DIGS*W/8 bytes",
    "bn_rand_mod(b) is specified for |b| >= 2 (the documented range [1, |b|) is empty otherwise; |b| = 1 never terminates and "
    "b = 0 is a division by zero) and for bits(b) + 40 not exceeding the storage of a bn_t; reduction uses the library's floor "
    "semantics (remainder has the sign of the divisor) which C01 establishes for bn_div_rem",
    "requests that exceed the storage of a bn_t (bits > RLC_BN_SIZE*W) are only issued in protected mode and must be refused "
    "before the generator is touched; in unprotected mode they are not generated (memory safety without handlers is C08/C19)",
    "the scratch byte ctx->rand[0] is not part of the standard's state and is not compared",
    "only SHA-2 builds (MD_MAP = SH224/SH256/SH384/SH512) are Hash_DRBG instances of SP 800-90A; BLAKE2s builds are out of scope",
]
BUDGET_S = {"quick": 200, "thorough": 1500}
JOB_SIZE = {"quick": 400, "thorough": 1500}
OPTIONAL_CFGS = ("md-sh224", "md-sh384", "md-sh512")

GEN_LENS = [0, 1, 31, 32, 33, 54, 55, 56, 63, 64, 65, 110, 111, 1000, 65535, 65536]
REFUSED_LENS = [65537, 65538, 1 << 17, (1 << 31) - 1, 1 << 31, (1 << 32) - 1, 1 << 32, (1 << 32) + 1, 1 << 63,
                (1 << 64) - 1]
SEED_LENS = [1, 2, 31, 32, 33, 54, 55, 56, 57, 63, 64, 65, 110, 111, 112, 199, 200]
KNOWN_INT16_MIN_COUNTER = 32513      # see known finding C15-rand_inc-int16

_INFO = {}


def info(env, cfg):
    if cfg not in _INFO:
        r = env.runner(cfg)
        if "drbg_state" not in r.ops():
            _INFO[cfg] = None
        else:
            b = r.info("info_bn")
            d = r.info("drbg_info")
            _INFO[cfg] = dict(W=b[0], BITS=b[1], DIGS=b[2], SIZE=b[3], HASH=d[0], MDLEN=d[1], RSIZE=d[2],
                              FP_BITS=d[4], FP_DIGS=d[5], FB_BITS=d[6], FB_DIGS=d[7])
            # known finding C15-rand_gen-zero-length: digest lengths that are not a power of two (SHA-224/384 builds)
            _INFO[cfg]["ZERO_CRASH"] = (d[1] & (d[1] - 1)) != 0
    return _INFO[cfg]


def supported(env, cfg):
    I = info(env, cfg)
    return I is not None and I["HASH"] in hashdrbg.PARAMS


# ------------------------------------------------------------------------------ carry table (reference-side search)

_CARRY = {}


def carry_table(hash_id):
    """Searched once per hash function (about 1.5 s), cached in .work/ and in the process (workers are forked)."""
    if hash_id in _CARRY:
        return _CARRY[hash_id]
    path = os.path.join(core.VERIF, ".work", "c15_carry_v2_%d.json" % hash_id)
    tab = None
    try:
        tab = json.load(open(path))
    except Exception:
        tab = None
    if not tab:
        tab = hashdrbg.search_carry_histories(hash_id)
        try:
            os.makedirs(os.path.dirname(path), exist_ok=True)
            tmp = "%s.%d.tmp" % (path, os.getpid())
            json.dump(tab, open(tmp, "w"))
            os.replace(tmp, path)
        except OSError:
            pass
    _CARRY[hash_id] = tab
    return tab


# ------------------------------------------------------------------------------ strategies

def _bytes_of_len(lens, lo, hi):
    """Byte strings: length from the boundary list or uniform; content random, constant or counting."""
    @st.composite
    def s(draw):
        n = draw(st.one_of(st.sampled_from(lens), ints.uniform(lo, hi)))
        kind = draw(st.integers(0, 5))
        if kind == 0:
            return bytes([draw(st.sampled_from([0x00, 0xFF, 0x80, 0x01]))]) * n
        if kind == 1:
            off = draw(st.integers(0, 255))
            return bytes((i + off) & 0xFF for i in range(n))
        return draw(st.binary(min_size=n, max_size=n))
    return s()


def _bn_rand_bits(I, unprot):
    W, cap = I["W"], I["SIZE"] * I["W"]
    base = sorted({b for b in (0, 1, 2, W - 1, W, W + 1, 2 * W - 1, 2 * W, 255, 256, 257, 1024, cap - W, cap - 1, cap)
                   if 0 <= b <= cap})
    opts = [st.sampled_from(base), ints.uniform(0, min(cap, 4 * W + 8)), ints.uniform(0, cap)]
    if not unprot:
        opts.append(st.sampled_from([cap + 1, cap + W, cap + W + 1, 4 * cap]))   # beyond the type: must be refused
    return st.one_of(*opts)


def _mod_bound(I):
    """Bounds for bn_rand_mod: |b| >= 2, at most RLC_BN_BITS bits and bits + 40 within the storage of a bn_t."""
    W = I["W"]
    maxbits = min(I["BITS"], I["SIZE"] * W - 40)
    maxd = maxbits // W

    @st.composite
    def s(draw):
        kind = draw(st.integers(0, 6))
        if kind == 0:
            m = draw(st.sampled_from([2, 3, 4, 5, 7, 8, 255, 256, 257, (1 << W) - 1, 1 << W, (1 << W) + 1]))
        elif kind == 1:
            k = draw(ints.uniform(1, maxbits - 1))
            m = (1 << k) + draw(st.sampled_from([-1, 0, 1]))
        elif kind == 2:
            m = (1 << maxbits) - draw(st.sampled_from([1, 2, 3, 1 << (maxbits // 2)]))    # full size
        elif kind == 3:
            m = draw(ints.uniform(2, (1 << maxbits) - 1))                                  # uniform, wide
        elif kind == 4:
            m = draw(ints.uniform(2, (1 << draw(ints.uniform(2, maxbits))) - 1))           # uniform bit length
        else:
            m = abs(draw(ints.g_int(W, maxd)))
        m = min(max(m, 2), (1 << maxbits) - 1)
        return -m if draw(st.integers(0, 2)) == 0 else m
    return s()


def _step(I, unprot, allow=("reseed", "gen", "refgen", "refseed", "burn", "bn_rand", "bn_rand_mod", "fp_rand", "fb_rand",
                            "inst")):
    W = I["W"]
    top = (1 << (W * I["SIZE"])) - 1
    stale = st.one_of(st.sampled_from([0, 1, -1, top, -top]), ints.uniform(-top, top))   # old content of the output object
    opts = {}
    opts["inst"] = st.builds(lambda s: dict(op="inst", seed=s), _bytes_of_len(SEED_LENS, 1, 200))
    opts["reseed"] = st.builds(lambda s: dict(op="reseed", data=s), _bytes_of_len(SEED_LENS, 1, 200))
    opts["refseed"] = st.just(dict(op="reseed", data=b""))
    opts["gen"] = st.builds(lambda n, pad: dict(op="gen", len=n, pad=pad),
                            st.one_of(st.sampled_from(GEN_LENS), st.sampled_from(GEN_LENS[:13]), ints.uniform(0, 300),
                                      ints.uniform(0, 4200)),
                            st.sampled_from([0, 0, 0, 1, 32]))
    opts["refgen"] = st.builds(lambda n, bl: dict(op="gen", len=n, pad=0, buflen=bl),
                               st.one_of(st.sampled_from(REFUSED_LENS), ints.uniform(65537, 1 << 20)),
                               st.sampled_from([0, 1, 32, 64]))
    opts["burn"] = st.builds(lambda n, ln: dict(op="burn", n=n, len=ln),
                             st.one_of(st.sampled_from([2, 3, 10, 100, 253, 254, 255, 256, 257, 300]), ints.uniform(2, 600)),
                             st.sampled_from([0, 0, 1, 32, 33, 55]))
    opts["bn_rand"] = st.builds(lambda neg, bits, s: dict(op="bn_rand", neg=neg, bits=bits, stale=s),
                                st.booleans(), _bn_rand_bits(I, unprot), stale)
    opts["bn_rand_mod"] = st.builds(lambda b, al, s: dict(op="bn_rand_mod", b=b, alias=al, stale=s),
                                    _mod_bound(I), st.sampled_from([False, False, True]), stale)
    if I["FP_BITS"]:
        opts["fp_rand"] = st.just(dict(op="fp_rand"))
    if I["FB_BITS"]:
        opts["fb_rand"] = st.just(dict(op="fb_rand"))
    weights = dict(inst=1, reseed=4, refseed=1, gen=8, refgen=2, burn=2, bn_rand=4, bn_rand_mod=4, fp_rand=2, fb_rand=1)
    pool = []
    for k in allow:
        if k in opts:
            pool.extend([opts[k]] * weights[k])
    return st.one_of(*pool)


def _header(draw, I):
    c = dict(unprot=draw(st.integers(0, 3)) == 0, poison=draw(st.integers(0, 255)),
             twice=draw(st.integers(0, 3)) == 0, fp=draw(st.integers(0, 1)), pre=draw(st.integers(0, 1)))
    if I["ZERO_CRASH"]:
        # builds hit by known finding C15-rand_gen-zero-length: every zero-length request crashes the runner, so the
        # class is excluded by construction in 15 of 16 histories (search continues past it) and kept in the rest
        c["md"] = I["MDLEN"]
        c["allow0"] = draw(st.integers(0, 15)) == 0
    return c


def _finish(c, hist):
    if c.get("allow0") is False:
        for s in hist:
            if s["op"] in ("gen", "burn") and s["len"] == 0:
                s["len"] = 1
            if s["op"] == "bn_rand" and s["bits"] == 0:
                s["bits"] = 1
    c["hist"] = hist
    return c


def strat_history(env, cfg):
    I = info(env, cfg)
    steps = {u: _step(I, u) for u in (False, True)}
    seeds = _bytes_of_len(SEED_LENS, 1, 200)

    @st.composite
    def s(draw):
        c = _header(draw, I)
        n = draw(st.sampled_from([0, 1, 2, 2, 3, 4, 5, 6, 8, 10, 12, 16, 20, 28, 39]))
        first = dict(op="inst", seed=draw(seeds))
        rest = draw(st.lists(steps[c["unprot"]], min_size=n, max_size=n))
        return _finish(c, [first] + rest)
    return s()


def strat_carry(env, cfg):
    I = info(env, cfg)
    tab = carry_table(I["HASH"])
    single = _step(I, True, ("gen", "bn_rand", "fp_rand", "fb_rand"))     # steps issuing exactly one generate request
    steps = {u: _step(I, u) for u in (False, True)}

    @st.composite
    def s(draw):
        c = _header(draw, I)
        e = tab[draw(st.integers(0, len(tab) - 1))]
        hist = [dict(op="inst", seed=bytes.fromhex(e["seed"]))]
        if e["reseed"] is not None:
            hist.append(dict(op="reseed", data=bytes.fromhex(e["reseed"])))
        before = e["n"] - 1
        j = draw(st.integers(0, min(before, 8)))
        if before - j == 1:
            j += 1
        if before - j > 0:
            hist.append(dict(op="burn", n=before - j, len=draw(st.sampled_from([0, 1, 33]))))
        # j checked single steps, the step in which the carry happens, then a few arbitrary steps on that state
        hist.extend(draw(st.lists(single, min_size=j + 1, max_size=j + 1)))
        t = draw(st.integers(0, 5))
        hist.extend(draw(st.lists(steps[c["unprot"]], min_size=t, max_size=t)))
        c["entry"] = e["cls"]
        return _finish(c, hist)
    return s()


def strat_long(env, cfg):
    I = info(env, cfg)
    single = _step(I, True, ("gen", "bn_rand", "fp_rand", "fb_rand"))
    steps = {u: _step(I, u) for u in (False, True)}
    seeds = _bytes_of_len(SEED_LENS, 1, 200)

    @st.composite
    def s(draw):
        c = _header(draw, I)
        c["twice"] = False
        hist = [dict(op="inst", seed=draw(seeds))]
        kind = draw(st.integers(0, 9))
        if kind <= 5:
            total = draw(st.sampled_from([250, 254, 255, 256, 257, 511, 512, 513, 1000, 4096]))
        elif kind <= 8:
            total = draw(st.one_of(st.sampled_from([16384, 32000, 32500, KNOWN_INT16_MIN_COUNTER - 2]),
                                   ints.uniform(1000, KNOWN_INT16_MIN_COUNTER - 2)))
        else:
            total = draw(st.sampled_from([KNOWN_INT16_MIN_COUNTER + 300, 32768, 33000, 65535, 65536, 65537, 70000]))
        # split: a burn to shortly before the boundary, then single checked steps across it, then a tail
        j = draw(st.integers(1, 6))
        hist.append(dict(op="burn", n=max(2, total - j), len=draw(st.sampled_from([0, 0, 1, 32, 33]))))
        k = j + draw(st.integers(0, 3))
        hist.extend(draw(st.lists(single, min_size=k, max_size=k)))
        t = draw(st.integers(0, 3))
        hist.extend(draw(st.lists(steps[c["unprot"]], min_size=t, max_size=t)))
        return _finish(c, hist)
    return s()


# ------------------------------------------------------------------------------ execution

def _nbytes_for_bits(bits, W):
    return -(-bits // W) * (W // 8)


def build_prog(I, case, poison):
    """One request for the whole history. Returns (prog, plan); plan[i] describes where step i's results are."""
    p = Prog(poison=poison, unprotected=case["unprot"])
    plan = []
    fp_call = None
    p.call("drbg_fresh", case.get("pre", 0))
    if any(s["op"] == "fp_rand" for s in case["hist"]):
        fp_call = p.call("drbg_fp_setup", case.get("fp", 0))
    for s in case["hist"]:
        op = s["op"]
        e = dict(op=op)
        if op in ("inst", "reseed"):
            data = s["seed"] if op == "inst" else s["data"]
            b = p.buf(data)
            e["call"] = p.call("drbg_inst" if op == "inst" else "drbg_reseed", b)
            e["in_slots"] = [b]
        elif op == "gen":
            n = s["len"]
            buflen = s["buflen"] if n > hashdrbg.MAX_REQUEST_BYTES else n + s.get("pad", 0)
            b = p.buf(bytes([poison]) * buflen)
            e["call"] = p.call("drbg_gen", b, n)
            p.dump(b)
            p.free(b)
            e["buf"] = b
            e["buflen"] = buflen
        elif op == "burn":
            e["call"] = p.call("drbg_burn", s["n"], s["len"])
        elif op == "bn_rand":
            a = p.bn(s["stale"])
            e["call"] = p.call("bn_rand", a, RLC_NEG if s["neg"] else RLC_POS, s["bits"])
            p.dump(a)
            e["out"] = a
        elif op == "bn_rand_mod":
            b = p.bn(s["b"])
            a = b if s["alias"] else p.bn(s["stale"])
            e["bits_call"] = p.call("bn_bits", b)
            e["call"] = p.call("bn_rand_mod", a, b)
            p.dump(a)
            e["out"] = a
            e["in_slots"] = [] if s["alias"] else [b]
        elif op == "fp_rand":
            e["call"] = p.call("drbg_fp_rand")
        elif op == "fb_rand":
            e["call"] = p.call("drbg_fb_rand")
        else:
            raise core.HarnessError("unknown step %r" % op)
        e["state"] = p.call("drbg_state")
        plan.append(e)
    return p, plan, fp_call


class _Int16Model(HashDRBG):
    """NOT a reference: a model of the wrong answer of known finding C15-rand_inc-int16 (the counter addition keeps
    its running sum in an int16_t), used only to match that finding narrowly."""

    def generate(self, nbytes, additional_input=b""):
        v, ctr = self.V, self.reseed_counter
        out = HashDRBG.generate(self, nbytes)
        V, h, C, ctr, _ = self.last_update
        s2 = (V + h + C) % self.mod
        t = (s2 & 0xFF) + ctr
        s = ((t + 32768) % 65536) - 32768
        self.V = (s2 - (s2 & 0xFF) + s) % self.mod
        return out


class _Ctx:
    """Reference side of one execution: the DRBG, labels, carry statistics."""

    def __init__(self, I):
        self.d = HashDRBG(I["HASH"])
        self.shadow = None
        self.labels = set()
        self.gens_since_seed = 0
        self.reseed_between = False
        self.partial = False
        self.multi_carry = False
        self.max_counter = 0

    def ensure_shadow(self, margin):
        """the defect model is identical to the reference below the threshold, so it may be started early"""
        if self.shadow is None and self.d.reseed_counter >= KNOWN_INT16_MIN_COUNTER - margin:
            self.shadow = _Int16Model(self.d.hash_id)
            self.shadow.V, self.shadow.C, self.shadow.reseed_counter = self.d.V, self.d.C, self.d.reseed_counter
            self.shadow.instantiated = True

    def generate(self, n, shadow=True):
        if shadow:
            self.ensure_shadow(1)
            if self.shadow is not None:
                self.shadow.generate(n)
        out = self.d.generate(n)
        prof = carry_profile(self.d.last_update, self.d.outlen, self.d.seedlen)
        ctr = self.d.last_update[3]
        self.max_counter = max(self.max_counter, ctr)
        if prof["h_ripple"] >= 2:
            self.labels.add("carry:H-add-ripple>=%d" % min(prof["h_ripple"], 3))
            self.multi_carry = True
        if prof["c_ripple"] >= 1:
            self.labels.add("carry:counter-add-ripple>=%d" % min(prof["c_ripple"], 3))
            if prof["c_ripple"] >= 2:
                self.multi_carry = True
        if prof["hashgen_ripple"] >= 1:
            self.labels.add("carry:hashgen-increment-ripple>=%d" % min(prof["hashgen_ripple"], 2))
        if prof["wrap"]:
            self.labels.add("carry:sum-wraps-2^seedlen")
        if ctr == 256:
            self.labels.add("counter:crossed-255->256")
        if ctr >= KNOWN_INT16_MIN_COUNTER:
            self.labels.add("counter:>=32513")
        self.gens_since_seed += 1
        return out


def _len_class(n, outlen):
    if n == 0:
        return "0"
    if n > hashdrbg.MAX_REQUEST_BYTES:
        return "refused(>2^16)"
    if n == hashdrbg.MAX_REQUEST_BYTES:
        return "max(2^16)"
    if n % outlen == 0:
        return "multiple-of-digest"
    return "partial-block(<digest)" if n < outlen else "partial-last-block"


def _expect_refused(call, what, unprot):
    if call.ub:
        raise Violation("undefined behaviour in %s: %s" % (what, call.ub), ub=call.ub)
    if unprot:
        ok = call.code == RLC_ERR and (call.first in (0, ERR["ERR_NO_VALID"]))
    else:
        ok = call.caught and call.e == ERR["ERR_NO_VALID"]
    if not ok:
        raise Violation("%s was not refused with ERR_NO_VALID" % what, call=repr(call), kind="not-refused")


def _expect_ok(call, what):
    if call.unsupported:
        raise Unsupported()
    if call.ub:
        raise Violation("undefined behaviour in %s: %s" % (what, call.ub), ub=call.ub)
    if call.errored:
        raise Violation("%s reported an error (caught=%d e=%d code=%d) for an admissible request" % (
            what, call.caught, call.e, call.code), call=repr(call), kind="unexpected-error")


def verify(I, case, res, plan, fp_call, poison):
    """Walk the history with the reference in lock-step. Returns (nontrivial, labels)."""
    W = I["W"]
    cx = _Ctx(I)
    d = cx.d
    labels = cx.labels
    hist = case["hist"]
    unprot = case["unprot"]
    prime = None
    if fp_call is not None:
        c = res.calls[fp_call]
        if c.unsupported:
            raise Unsupported()
        _expect_ok(c, "fp_param_set_any")
        prime = int.from_bytes(c.blobs[0], "little")
    seen_gen_since_seed = False
    seeded = 0
    bits_defect = None
    for i, (s, e) in enumerate(zip(hist, plan)):
        op = s["op"]
        call = res.calls[e["call"]]
        if call.unsupported:
            raise Unsupported()
        what = "step %d/%d %s" % (i, len(hist), op)
        refused = False
        deferred = None
        if op in ("inst", "reseed"):
            data = s["seed"] if op == "inst" else s["data"]
            what += "(len=%d)" % len(data)
            if len(data) == 0:
                _expect_refused(call, what, unprot)
                refused = True
                labels.add("reseed:refused(len=0)")
            else:
                _expect_ok(call, what)
                if op == "inst":
                    d.instantiate(data)
                    labels.add("seedlen:%s" % (len(data) if len(data) in (55, 56, 64) else
                                               ("<55" if len(data) < 55 else ">64")))
                else:
                    d.reseed(data)
                    labels.add("reseed")
                    if seen_gen_since_seed:
                        cx.pending_reseed = True
                seeded = 1
                cx.gens_since_seed = 0
                cx.shadow = None
            if any(b in call.changed for b in e["in_slots"]):
                raise Violation("%s modified its input buffer" % what, kind="input-modified")
        elif op == "gen":
            n = s["len"]
            what += "(len=%d)" % n
            got = res.dumps[e["buf"]]
            labels.add("gen:len=" + _len_class(n, d.outlen))
            if n > hashdrbg.MAX_REQUEST_BYTES:
                _expect_refused(call, what, unprot)
                refused = True
                if got != bytes([poison]) * e["buflen"]:
                    raise Violation("%s: refused request wrote to the buffer" % what, kind="refused-wrote")
            else:
                _expect_ok(call, what)
                want = cx.generate(n)
                if got[:n] != want:
                    k = next(j for j in range(n) if got[j] != want[j])
                    raise Violation("%s: output differs from Hash_DRBG at byte %d" % (what, k), kind="output",
                                    step=i, first_diff=k, got=got[max(0, k - 4):k + 12].hex(),
                                    want=want[max(0, k - 4):k + 12].hex(), counter=d.reseed_counter - 1)
                if got[n:] != bytes([poison]) * (e["buflen"] - n):
                    raise Violation("%s: bytes beyond the requested length were written" % what, kind="overrun")
                if n % d.outlen:
                    cx.partial = True
        elif op == "burn":
            what += "(n=%d,len=%d)" % (s["n"], s["len"])
            _expect_ok(call, what)
            want = b""
            for _ in range(s["n"]):
                want = cx.generate(s["len"])
            labels.add("burn")
            if call.blobs[0] != want:
                # raised after the state comparison: inside a burn the state goes wrong before the output does
                deferred = Violation("%s: output of the last request differs from Hash_DRBG" % what, kind="output",
                                     step=i, counter=d.reseed_counter - 1, got=call.blobs[0][:16].hex(),
                                     want=want[:16].hex())
            if s["len"] % d.outlen:
                cx.partial = True
        elif op == "bn_rand":
            bits = s["bits"]
            what += "(bits=%d)" % bits
            raw = res.dumps[e["out"]]
            if bits > I["SIZE"] * W:
                # the type cannot hold the request: must be refused before the generator is touched
                labels.add("bn_rand:refused(bits>capacity)")
                if call.ub:
                    raise Violation("undefined behaviour in %s: %s" % (what, call.ub), ub=call.ub)
                if not call.errored:
                    raise Violation("%s beyond the capacity of bn_t was not refused" % what, kind="not-refused")
                refused = True
            else:
                _expect_ok(call, what)
                nb = _nbytes_for_bits(bits, W)
                stream = cx.generate(nb)
                v = int.from_bytes(stream, "little") & ((1 << bits) - 1)
                want = -v if s["neg"] else v
                labels.add("bn_rand:bits=%s" % (bits if bits in (0, 1, W - 1, W, W + 1, 255, 256, 1024) else
                                                ("other<=%d" % (4 * W + 8) if bits <= 4 * W + 8 else "other-large")))
                _check_bn(raw, want, what, i, d)
                if abs(raw.value).bit_length() > bits:
                    raise Violation("%s: result has more than the requested bits" % what, kind="range")
                if nb % d.outlen:
                    cx.partial = True
        elif op == "bn_rand_mod":
            b = s["b"]
            what += "(bits(b)=%d,%s)" % (abs(b).bit_length(), "b<0" if b < 0 else "b>0")
            _expect_ok(call, what)
            raw = res.dumps[e["out"]]
            # the oversampling uses the library's own bn_bits(b); a wrong bn_bits is reported at the end of the history
            # (kind "bn_bits") so that the lock-step comparison continues with the stream the library really consumed
            lb = res.calls[e["bits_call"]].rets[0]
            if lb != abs(b).bit_length() and bits_defect is None:
                bits_defect = dict(b=b, got=lb, want=abs(b).bit_length(), step=i)
            if not (1 <= lb <= I["SIZE"] * W - 40):
                raise Violation("%s: bn_bits(b) = %d for a %d-bit bound" % (what, lb, abs(b).bit_length()), kind="bn_bits-wild")
            k = lb + 40
            nb = _nbytes_for_bits(k, W)
            cx.ensure_shadow(400)
            for gen in ([cx.shadow.generate] if cx.shadow is not None else []) + [lambda n_: cx.generate(n_, shadow=False)]:
                # (the defect model of the known finding does its own rejection sampling on its own stream)
                rounds = 0
                while True:
                    rounds += 1
                    stream = gen(nb)
                    v = int.from_bytes(stream, "little") & ((1 << k) - 1)
                    a = (-v if b < 0 else v) % b        # floor semantics: remainder carries the sign of the divisor
                    if a != 0 and abs(a) < abs(b):
                        break
                    if rounds > 200:
                        raise core.HarnessError("reference bn_rand_mod replay does not terminate")
            got = raw.value
            if not (1 <= abs(got) < abs(b)) or (got < 0) != (b < 0):
                raise Violation("%s: result outside [1, |b|) or with the wrong sign" % what, kind="range", got=got, b=b)
            try:
                _check_bn(raw, a, what, i, d)
            except Violation as v_:
                if rounds == 1:
                    raise
                deferred = v_       # several requests in one step: compare the state first (as for burn)
            labels.add("bn_rand_mod:%s" % ("b<0" if b < 0 else "b>0"))
            labels.add("bn_rand_mod:size=%s" % ("1-digit" if abs(b) < (1 << W) else
                                                ("full" if abs(b).bit_length() > I["BITS"] - W else "multi-digit")))
            if rounds > 1:
                labels.add("bn_rand_mod:rejection-resampled")
            if s["alias"]:
                labels.add("bn_rand_mod:alias(a==b)")
            elif any(x in call.changed for x in e["in_slots"]):
                raise Violation("%s modified its bound" % what, kind="input-modified")
            if nb % d.outlen:
                cx.partial = True
        elif op == "fp_rand":
            _expect_ok(call, what)
            nb = I["FP_DIGS"] * (W // 8)
            stream = cx.generate(nb)
            v = int.from_bytes(stream, "little")
            if I["FP_BITS"] % W:
                v &= (1 << I["FP_BITS"]) - 1
            if v >= prime:
                labels.add("fp_rand:reduced")
            got = int.from_bytes(call.blobs[0], "little")
            labels.add("fp_rand")
            if got != v % prime:
                raise Violation("%s: value is not the masked stream reduced modulo p" % what, kind="sample", step=i,
                                got=got, want=v % prime)
            if nb % d.outlen:
                cx.partial = True
        elif op == "fb_rand":
            _expect_ok(call, what)
            nb = I["FB_DIGS"] * (W // 8)
            stream = cx.generate(nb)
            v = int.from_bytes(stream, "little") & ((1 << I["FB_BITS"]) - 1)
            got = int.from_bytes(call.blobs[0], "little")
            labels.add("fb_rand")
            if got != v:
                raise Violation("%s: value is not the masked stream" % what, kind="sample", step=i, got=got, want=v)
            if nb % d.outlen:
                cx.partial = True
        # bookkeeping for the non-triviality rule: a reseed that has generates on both sides
        if op in ("gen", "burn", "bn_rand", "bn_rand_mod", "fp_rand", "fb_rand") and not refused:
            if getattr(cx, "pending_reseed", False):
                cx.reseed_between = True
                cx.pending_reseed = False
            seen_gen_since_seed = True
        if op == "inst" and not refused:
            seen_gen_since_seed = False
            cx.pending_reseed = False
        if refused:
            labels.add("refused-request")
        # the raw working state after this step
        st_call = res.calls[e["state"]]
        blob, counter, seeded_flag = st_call.blobs[0], st_call.ret_i(0), st_call.ret_i(1)
        if len(blob) != 1 + 2 * d.seedlen:
            raise Unsupported()
        want_state = d.state_bytes()
        gotV, gotC = blob[1:1 + d.seedlen], blob[1 + d.seedlen:]
        wantV, wantC = want_state[:d.seedlen], want_state[d.seedlen:]
        tag = " (state must be unchanged by a refused request)" if refused else ""
        if gotV != wantV:
            raise Violation("%s: V differs from the Hash_DRBG working state%s" % (what, tag), kind="state-V", step=i,
                            got=gotV.hex(), want=wantV.hex(), counter=d.reseed_counter - 1, refused=refused,
                            int16_model=bool(cx.shadow is not None and gotV == cx.shadow.state_bytes()[:d.seedlen]))
        if gotC != wantC:
            raise Violation("%s: C differs from the Hash_DRBG working state%s" % (what, tag), kind="state-C", step=i,
                            got=gotC.hex(), want=wantC.hex(), refused=refused)
        if counter != d.reseed_counter:
            raise Violation("%s: reseed counter is %d, Hash_DRBG has %d%s" % (what, counter, d.reseed_counter, tag),
                            kind="state-counter", step=i, refused=refused)
        if seeded_flag != 1:
            raise Violation("%s: context not marked as seeded (%d)" % (what, seeded_flag), kind="state-seeded", step=i)
        if deferred is not None:
            raise deferred
    if bits_defect is not None:
        raise Violation("step %d bn_rand_mod: bn_bits(b) = %d for a %d-bit bound, so the oversampling is not bits(b) + 40 "
                        "(everything else in the history matched)" % (bits_defect["step"], bits_defect["got"],
                                                                      bits_defect["want"]),
                        kind="bn_bits", W=W, **bits_defect)
    n = len(hist)
    labels.add("steps:%s" % ("1-2" if n < 3 else "3-5" if n <= 5 else "6-12" if n <= 12 else "13-24" if n <= 24 else "25+"))
    if cx.reseed_between:
        labels.add("reseed-between-generates")
    if cx.partial:
        labels.add("request-not-multiple-of-digest")
    if unprot:
        labels.add("mode:unprotected")
    labels.add("pre-state:%s" % ("used-generator" if case.get("pre") else "rand_clean"))
    nt = n >= 3 and (cx.partial or cx.reseed_between or cx.multi_carry)
    return nt, labels


def _check_bn(raw, want, what, i, d):
    nf = raw.normal_form_error()
    if nf:
        raise Violation("%s: result not normalised: %s" % (what, nf), kind="normal-form", raw=repr(raw))
    if raw.value != want:
        raise Violation("%s: value is not the reference's reading of the same byte stream" % what, kind="sample", step=i,
                        got=raw.value, want=want, counter=d.reseed_counter - 1)


def run_history(env, cfg, case):
    I = info(env, cfg)
    if I is None or I["HASH"] not in hashdrbg.PARAMS:
        raise Unsupported()
    for s in case["hist"]:
        if (s["op"] == "fp_rand" and not I["FP_BITS"]) or (s["op"] == "fb_rand" and not I["FB_BITS"]):
            raise Unsupported()
    poisons = [case["poison"]] + ([case["poison"] ^ 0xFF] if case.get("twice") else [])
    out = None
    first = None
    for pz in poisons:
        prog, plan, fp_call = build_prog(I, case, pz)
        res = env.runner(cfg).run(prog, timeout=120.0)
        if res.failed_new:
            raise Unsupported()
        out = verify(I, case, res, plan, fp_call, pz)
        # determinism: same seed + same history => identical observable results (stale memory must not matter)
        obs = [(c.status, c.e, c.code, tuple(c.rets), tuple(c.blobs)) for c in res.calls] + \
              [(k, (v.sign, v.used, tuple(v.digits)) if hasattr(v, "digits") else None) for k, v in sorted(res.dumps.items())]
        if first is None:
            first = obs
        elif obs != first:
            raise Violation("same seed and history gave different results in a second execution", kind="determinism")
    nt, labels = out
    labels = sorted(labels)
    if case.get("twice"):
        labels.append("executed-twice(determinism)")
    if "entry" in case:
        labels.append("carry-entry:" + case["entry"])
    return nt, labels




# ------------------------------------------------------------------------------ injected working states
# A seed search reaches carry chains of ~3 bytes only (2^-8 per extra byte); installing V / C / counter directly in
# the (public) context reaches chains of ANY length and position: the hashgen increment data + 1 across k trailing
# 0xFF bytes inside one request, and V + H + C + counter rippling through the whole state.

def strat_state(env, cfg):
    I = info(env, cfg)
    if I is None or I["HASH"] not in hashdrbg.PARAMS:
        return st.just(None)
    _, outlen, seedlen = hashdrbg.PARAMS[I["HASH"]]

    @st.composite
    def s(draw):
        def val():
            k = draw(st.integers(0, 5))
            rnd = int.from_bytes(draw(st.binary(min_size=seedlen, max_size=seedlen)), "big")
            if k == 0:
                return rnd
            t = draw(st.one_of(st.sampled_from([1, 2, 3, 4, 5, 8, 16, seedlen - 1, seedlen]), st.integers(1, seedlen)))
            if k in (1, 2):
                # trailing run of t 0xFF bytes, last byte lowered by a few so that a multi-block request crosses it
                low = draw(st.sampled_from([0, 0, 1, 2, 3, 7, 15, 40]))
                v = (rnd >> (8 * t) << (8 * t)) | ((1 << (8 * t)) - 1)
                return max(0, v - low)
            if k == 3:
                # 0xFF run in the middle of the state
                pos = draw(st.integers(0, seedlen - 1))
                m = ((1 << (8 * t)) - 1) << (8 * pos)
                return (rnd | m) & ((1 << (8 * seedlen)) - 1)
            if k == 4:
                return (1 << (8 * seedlen)) - 1 - draw(st.sampled_from([0, 1, 2, 255, 256]))
            return draw(st.sampled_from([0, 1, 255, 256, (1 << 32) - 1, (1 << 32), (1 << 64) - 1]))
        V, C = val(), val()
        counter = draw(st.sampled_from([1, 2, 255, 256, 257, 65535, 65536, 65537, (1 << 24) - 1, (1 << 24)]))   # an int counter: 2^31 requests without reseed are outside any practical history
        steps = []
        for _ in range(draw(st.integers(1, 5))):
            if draw(st.integers(0, 5)) == 0:
                steps.append({"op": "reseed", "data": draw(st.binary(min_size=1, max_size=70))})
            else:
                steps.append({"op": "gen", "len": draw(st.sampled_from([0, 1, outlen - 1, outlen, outlen + 1, 2 * outlen, 3 * outlen + 5,
                                                                         8 * outlen, 17 * outlen + 1, 41 * outlen, 64 * outlen]))})
        return dict(V=V, C=C, counter=counter, scratch=draw(st.sampled_from([0, 3, 0xA5])), steps=steps,
                    poison=draw(st.integers(0, 255)))
    return s()


def run_state(env, cfg, case):
    I = info(env, cfg)
    if case is None or I is None or I["HASH"] not in hashdrbg.PARAMS:
        raise Unsupported()
    if "drbg_set_state" not in env.runner(cfg).ops():
        raise Unsupported()
    _, outlen, seedlen = hashdrbg.PARAMS[I["HASH"]]
    ref = hashdrbg.HashDRBG(I["HASH"])
    ref.V, ref.C, ref.reseed_counter, ref.instantiated = case["V"], case["C"], case["counter"], True
    p = Prog(poison=case["poison"])
    sb = p.buf(ref.state_bytes())
    p.call("drbg_set_state", sb, case["counter"], case["scratch"])
    plan = []
    for stp in case["steps"]:
        if stp["op"] == "reseed":
            p.call("drbg_reseed", p.buf(stp["data"]))
            plan.append(("reseed", None))
        else:
            ob = p.buf(bytes(stp["len"]))
            p.call("drbg_gen", ob, stp["len"])
            p.dump(ob)
            plan.append(("gen", ob))
        p.call("drbg_state")
    res = env.runner(cfg).run(p, timeout=60.0)
    if res.failed_new:
        raise Unsupported()
    labels = ["state:counter=%s" % ("small" if case["counter"] < 256 else "2-byte" if case["counter"] < 65536 else "wide")]
    ci = 1
    for i, (stp, (kind, ob)) in enumerate(zip(case["steps"], plan)):
        c = res.calls[ci]
        if c.ub or c.errored:
            raise Violation("step %d (%s) on an injected state reported an error / UB" % (i, kind), call=repr(c))
        if kind == "reseed":
            ref.reseed(stp["data"])
            labels.append("state:reseed")
        else:
            v0 = ref.V
            want = ref.generate(stp["len"])
            if res.dumps[ob] != want:
                raise Violation("step %d: generate(%d) on an injected state differs from Hash_DRBG" % (i, stp["len"]),
                                step=i, first_diff=next((j for j in range(len(want)) if res.dumps[ob][j] != want[j]), None))
            m = -(-stp["len"] // outlen)
            if m > 1:
                # how many bytes does data + 1 ripple through inside this request?
                rip = max(((v0 + j) ^ (v0 + j + 1)).bit_length() for j in range(m - 1)) // 8
                labels.append("state:hashgen-ripple>=%d" % (4 if rip >= 4 else rip))
        st_call = res.calls[ci + 1]
        got = st_call.blobs[0][1:1 + 2 * seedlen]
        if got != ref.state_bytes() or st_call.ret_i(0) != ref.reseed_counter:
            raise Violation("step %d (%s): working state V || C / counter differs from Hash_DRBG after the step" % (i, kind),
                            step=i, counter_got=st_call.ret_i(0), counter_want=ref.reseed_counter)
        ci += 2
    return True, sorted(set(labels))


_Q = ["base256", "w8"]
_T = ["base256", "w8", "w16", "w32", "p255", "md-sh224", "md-sh384", "md-sh512"]

TARGETS = [
    Target("history", strat_history, run_history, {"quick": _Q, "thorough": _T}, quick=50000, thorough=90000,
           needs=supported),
    Target("carry", strat_carry, run_history, {"quick": _Q, "thorough": _T}, quick=14000, thorough=25000, needs=supported),
    Target("long", strat_long, run_history, {"quick": _Q, "thorough": _T}, quick=1000, thorough=2500, needs=supported),
    Target("state", strat_state, run_state, {"quick": _Q, "thorough": _T}, quick=12000, thorough=60000, needs=supported),
]


# ------------------------------------------------------------------------------ known findings

def _kf_int16(case, v, entry):
    """rand_inc() keeps the running sum in an int16_t; rand_bytes() passes the whole reseed counter as the initial
    carry, so from counter >= 32513 on (last byte + counter > 32767) the sum wraps and the library computes
    V + H + C + counter - 2^16. Matched only: V mismatch at a step in which a request with counter >= 32513 was served,
    and the observed V is exactly what the int16 model of the defect (_Int16Model) predicts for this history."""
    dt = v.details
    if dt.get("kind") != "state-V" or dt.get("refused"):
        return False
    if dt.get("counter", 0) < KNOWN_INT16_MIN_COUNTER:
        return False
    return dt.get("int16_model") is True


def _kf_zero_len(case, v, entry):
    """SHA-224 / SHA-384 builds (digest length not a power of two): a zero-length request makes rand_gen compute
    RLC_CEIL(0, RLC_MD_LEN) = ((size_t)0 - 1) / RLC_MD_LEN + 1, whose low 32 bits are non-zero, and write digest blocks
    past the buffer. Matched only: ASan buffer overflow with rand_gen on top, history contains a zero-length request,
    build has such a digest length."""
    dt = v.details
    if not dt.get("crash") or "buffer-overflow" not in (dt.get("kind") or ""):
        return False
    fr = dt.get("frames") or []
    if not fr or not fr[0].startswith("rand_gen@src/rand/relic_rand_hashd.c"):
        return False
    if case.get("md") not in (28, 48):
        return False
    return any((s["op"] in ("gen", "burn") and s["len"] == 0) or (s["op"] == "bn_rand" and s["bits"] == 0)
               for s in case["hist"])


def _lzcnt16_defect(a):
    """model of the WRONG answer of arch_lzcnt() in src/arch/relic_arch_none.c for WSIZE == 16 (matching only)"""
    table = [4, 3, 2, 2, 1, 1, 1, 1, 0, 0, 0, 0, 0, 0, 0, 0]
    off = 8 if a >= 256 else 0
    a >>= off
    return table[a & 0xF] + off if a >> 4 == 0 else table[a >> 4] + 4 + off


def _kf_lzcnt16(case, v, entry):
    """16-bit digit builds without an architecture backend: arch_lzcnt() is wrong, hence bn_bits(), hence the number of
    bits bn_rand_mod draws. Matched only: W = 16 and bn_bits(b) is exactly what the defective table lookup yields."""
    dt = v.details
    if dt.get("kind") != "bn_bits" or dt.get("W") != 16:
        return False
    m = abs(dt["b"])
    nd = (m.bit_length() + 15) // 16
    return dt["got"] == 16 * (nd - 1) + 16 - _lzcnt16_defect(m >> (16 * (nd - 1)))


KNOWN_PREDICATES = {"rand_inc_int16_counter": _kf_int16, "rand_gen_zero_length_sha224_384": _kf_zero_len,
                    "arch_lzcnt_w16_bn_bits": _kf_lzcnt16}


def self_test():
    checked = hashdrbg.self_test()
    if 256 not in checked:
        raise AssertionError("SHA-256 vector not checked")
    # carry table entries must show what they claim (replayed with the public reference API)
    tab = carry_table(256)
    if len(tab) < 20:
        raise AssertionError("carry search found too few histories: %d" % len(tab))
    for e in tab[:6] + tab[-3:]:
        d = HashDRBG(256)
        d.instantiate(bytes.fromhex(e["seed"]))
        if e["reseed"] is not None:
            d.reseed(bytes.fromhex(e["reseed"]))
        if e["cls"] == "fftail":
            assert d.state_bytes()[53:55] == b"\xff\xff"
            continue
        for _ in range(e["n"]):
            d.generate(0)
        prof = carry_profile(d.last_update, d.outlen, d.seedlen)
        assert prof["h_ripple"] == e["h_ripple"] and prof["c_ripple"] == e["c_ripple"], (e, prof)
        assert max(prof["h_ripple"], prof["c_ripple"]) >= 2
    # bn_rand_mod reference arithmetic: floor semantics for negative bounds
    assert (-7) % -5 == -2 and 7 % 5 == 2 and (-10) % -5 == 0

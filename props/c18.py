"""C18 — every built-in parameter set is internally consistent (DESIGN §2 C18).

Cases are (identifier, relation) pairs, exhaustively enumerated over every identifier the selection functions
accept at the built size, plus generated material (curve points by reference square roots, scalars, field
elements) where a relation is checked on points. The oracle is the reference arithmetic of engine/ref + sympy;
the library only contributes the *published* values (read raw from the context by engine/shim/b_c18.c) and the
maps whose consistency with those values is the relation (ep_mul_cof, ep_psi, ep2_frb, pc_map, fp_inv_jmpds)."""
import hashlib
import struct

from hypothesis import strategies as st

from engine.core import Target, Violation, Unsupported
from engine.gen import ints
from engine.proto import Prog, HarnessError, RunnerCrash
from engine.ref import fp as rfp
from engine.ref import ec as rec
from engine.ref import ext as rext
from engine.ref import bin as rbin
from engine.ref import edw as redw

PROPERTY = "C18"
EXHAUSTIVE = True
RULE = ("cases are (identifier, relation) pairs. 'exhaustive' refers to the identifier space: every enum value of "
        "fp_param_set (1..80), ep_param_set (1..80), fb_param_set (1..40), eb_param_set (1..30), ed_param_set (1..8) and "
        "both twist types of ep2_curve_set_twist is tried in every built configuration; the identifiers a build "
        "rejects (error / prime unchanged) are recorded as not selectable; for every selectable identifier EVERY "
        "relation of its family is evaluated once by the 'complete' target (labels pair:<cfg>:<kind>:<id>:<relation>, "
        "summary in coverage.exhaustive_pairs) and again, with Hypothesis-generated material, by the per-family targets: "
        "random curve points (x drawn uniformly, y by reference square root / half-trace) for #E = h*r, cofactor "
        "clearing, isogeny and Frobenius relations, random scalars for psi = [lambda] and the GLV lattice, random field "
        "elements for the divstep constant. Oracle = engine/ref (Z/pZ, towers, Weierstrass / binary / Edwards curves) + "
        "sympy.isprime; nothing from RELIC but the published values. non-trivial: a relation evaluated on a "
        "non-identity point or on a derived constant (not a table copy). distinct = distinct (cfg, identifier, "
        "relation, material) hashes")
ASSUMPTIONS = [
    "a binary-field identifier is 'selectable at this size' when the degree in its name equals FB_POLYN: fb_param_set "
    "accepts every identifier at every size and installs z^FB_POLYN + (the identifier's low terms); those foreign "
    "combinations are recorded (class fb-foreign:*) but not judged",
    "the twist type of a pairing set is the one for which b' = b/xi (D) or b*xi (M) holds; for the set chosen by "
    "ep_param_set_any_pairf() it must also be the type that function declares",
    "security level: 0 < level <= (bits(r)+1)/2 + 1 (generic square-root bound with one bit of slack for the "
    "conventional '128' of 253-bit groups) and, for pairing sets, level <= the GNFS estimate of a (k*bits(p))-bit "
    "field (NIST SP 800-57 formula); cryptanalytic adequacy (exTNFS) is not judged",
    "family polynomials are checked for BN, BLS12/24/48 (p, r, t) and KSS16/18 (p, t, r | numerator); for the other "
    "families only the embedding degree, the CM equation and #E = h*r are checked",
    "RFC 9380 criteria 1, 2, 4 (SSWU) and 1-4 (SvdW) are required; SSWU criterion 3 (g(x) - Z irreducible) is reported "
    "as a class only",
]
BUDGET_S = {"quick": 230, "thorough": 1700}
JOB_SIZE = {"quick": 400, "thorough": 1500}

QUICK_CFGS = ["base256", "p255", "p381"]
PF_SIZES = (315, 317, 330, 354, 377, 382, 383, 446, 455, 508, 509, 510, 544, 569, 575, 638, 765, 766, 768)
THOROUGH_CFGS = QUICK_CFGS + ["pf-%d" % b for b in PF_SIZES] + ["fb-163", "fb-233", "fb-409", "fb-571", "fp-quick"]
OPTIONAL_CFGS = [c for c in THOROUGH_CFGS if c not in QUICK_CFGS]

# public enum names (include/relic_fp.h, relic_ep.h, relic_fb.h, relic_eb.h, relic_ed.h) — for readable evidence only
FP_NAMES = ["MP_127", "SECG_160", "SECG_160D", "NIST_192", "SECG_192", "PRIME_22103", "NIST_224", "SECG_224",
            "PRIME_22605", "PRIME_25109", "SQI_251", "PRIME_H2ADC", "PRIME_25519", "NIST_256", "BSI_256", "SECG_256",
            "SM2_256", "PRIME_382105", "PRIME_383187", "NIST_384", "PRIME_448", "CTIDH_511", "PRIME_511187",
            "NIST_521", "BN_158", "BN_254", "BN_256", "SM9_256", "B24_315", "B24_317", "K16_330", "B12_377",
            "K18_354", "B12_381", "BN_382", "B12_383", "BN_446", "B12_446", "B12_455", "K18_508", "B24_509",
            "AFG16_510", "GMT8_544", "SG54_569", "B48_575", "BN_638", "B12_638", "K18_638", "SG18_638", "FM16_765",
            "K16_766", "AFG16_766", "FM18_768", "CTIDH_1024", "B12_1150", "SS_1536", "CTIDH_2048", "K1_3072",
            "SQALE_4096"]
EP_NAMES = ["SECG_P160", "SECG_K160", "NIST_P192", "SECG_K192", "CURVE_22103", "NIST_P224", "SECG_K224", "CURVE_4417",
            "CURVE_1174", "CURVE_25519", "TWEEDLEDUM", "NIST_P256", "BSI_P256", "SECG_K256", "SM2_P256", "CURVE_67254",
            "CURVE_383187", "NIST_P384", "CURVE_511187", "NIST_P521", "BN_P158", "BN_P254", "BN_P256", "SM9_P256",
            "B24_P315", "B24_P317", "K16_P330", "K18_P354", "B12_P377", "B12_P381", "BN_P382", "B12_P383", "BN_P446",
            "B12_P446", "B12_P455", "K18_P508", "B24_P509", "AFG16_P510", "OT8_P511", "GMT8_P544", "SG54_P569",
            "B48_P575", "BN_P638", "B12_P638", "K18_P638", "SG18_P638", "FM16_P765", "K16_P766", "AFG16_P766",
            "FM18_P768", "B12_P1150", "SS_P1536", "K1_P3072"]
FB_NAMES = ["PENTA_8", "PENTA_64", "TRINO_113", "TRINO_127", "PENTA_128", "PENTA_131", "NIST_163", "SQRT_163",
            "TRINO_193", "NIST_233", "SQRT_233", "SECG_239", "SQRT_239", "SQRT_251", "PENTA_251", "TRINO_257",
            "TRINO_271", "PENTA_271", "NIST_283", "SQRT_283", "TRINO_353", "TRINO_367", "NIST_409", "TRINO_439",
            "TRINO_511", "NIST_571", "SQRT_571", "TRINO_1223"]
EB_NAMES = ["NIST_B163", "NIST_K163", "NIST_B233", "NIST_K233", "EBACS_B251", "HALVE_B257", "SECG_K239", "NIST_B283",
            "NIST_K283", "NIST_B409", "NIST_K409", "NIST_B571", "NIST_K571"]
ED_NAMES = ["CURVE_ED25519"]


# the field size each identifier belongs to (the "#if FP_PRIME == n" / "FB_POLYN == n" guards of the *_param.c files)
_EP_SPECIAL = {"CURVE_22103": 221, "CURVE_4417": 226, "CURVE_1174": 251, "CURVE_25519": 255, "TWEEDLEDUM": 255,
               "CURVE_67254": 382, "CURVE_383187": 383, "CURVE_511187": 511, "OT8_P511": None}
_FP_SPECIAL = {"MP_127": 127, "SECG_160D": 160, "PRIME_22103": 221, "PRIME_22605": 226, "PRIME_25109": 251,
               "PRIME_H2ADC": 255, "PRIME_25519": 255, "PRIME_382105": 382, "PRIME_383187": 383, "PRIME_511187": 511}
EP2_TABLES = ("BN_P158", "BN_P254", "BN_P256", "SM9_P256", "B12_P377", "B12_P381", "BN_P382", "B12_P383", "BN_P446",
              "B12_P446", "B12_P455", "GMT8_P544", "BN_P638", "B12_P638", "B12_P1150")


def size_of(kind, name):
    import re
    if kind == "ep" and name in _EP_SPECIAL:
        return _EP_SPECIAL[name]
    if kind == "fp" and name in _FP_SPECIAL:
        return _FP_SPECIAL[name]
    if kind == "ed":
        return 255
    m = re.search(r"(\d+)$", name)
    return int(m.group(1)) if m else None


def expected_ids(kind, size):
    tab = dict(fp=FP_NAMES, ep=EP_NAMES, eb=EB_NAMES, ed=ED_NAMES)[kind]
    return [n for n in tab if size_of(kind, n) == size]


def _nm(tab, i, pfx):
    return tab[i - 1] if 1 <= i <= len(tab) else "%s%d" % (pfx, i)


def fb_degree(name):
    return int(name.rsplit("_", 1)[1])


# ---------------------------------------------------------------------------------------------- decoding helpers

def dec_bn(blob):
    if not blob:
        return 0
    v = int.from_bytes(blob[1:], "little")
    return -v if blob[0] else v


def dec_ints(blob):
    return list(struct.unpack("<%di" % (len(blob) // 4), blob))


def si(v):
    return v - (1 << 64) if v >> 63 else v


class Rec:
    """a bag of published values of one identifier"""

    def __repr__(self):
        return "Rec(%s)" % getattr(self, "name", "?")


def felems(F, blob):
    """list of (value or None, raw) for a blob of consecutive field elements"""
    nb = F.nbytes
    return [F.dec(blob[i * nb:(i + 1) * nb]) for i in range(len(blob) // nb)]


def fvals(F, blob, what):
    out = []
    for v, raw in felems(F, blob):
        if v is None:
            raise Violation("%s: stored field element is not canonical (raw digit vector >= p)" % what, raw=raw)
        out.append(v)
    return out


# ---------------------------------------------------------------------------------------------------- discovery

_DISC = {}


def _run(r, p):
    return r.run(p)


def _parse_fp(c1, c2, W_digs=None):
    """c18_fp_consts (+ optional c18_fpx_consts) call results -> Rec"""
    S = Rec()
    rets = c1.rets
    S.FP_PRIME, S.W, S.DIGS, S.room, S.monty = rets[0], rets[1], rets[2], bool(rets[3]), bool(rets[4])
    S.fp_id = rets[5]
    S.mod8, S.mod18, S.qnr, S.cnr, S.ad2 = rets[6], rets[7], si(rets[8]), si(rets[9]), si(rets[10])
    S.u = rets[11]
    S.sps_len, S.par_len = si(rets[12]), si(rets[13])
    S.g_mod8, S.g_mod18, S.g_qnr, S.g_cnr, S.g_ad2, S.g_u, S.g_id = (rets[14], rets[15], si(rets[16]), si(rets[17]),
                                                                   si(rets[18]), rets[19], rets[20])
    b = c1.blobs
    S.p = int.from_bytes(b[0], "little")
    S.p_bn = dec_bn(b[1])
    S.over3 = dec_bn(b[2])
    S.par = dec_bn(b[3])
    S.one_raw = int.from_bytes(b[4], "little")
    S.conv_raw = int.from_bytes(b[5], "little")
    S.inv_raw = int.from_bytes(b[6], "little")
    S.srt_blob, S.crt_blob = b[7], b[8]
    S.sps, S.par_sps = dec_ints(b[9]), dec_ints(b[10])
    S.g_sps, S.g_par_sps = dec_ints(b[11]), dec_ints(b[12])
    S.g_conv_raw = int.from_bytes(b[13], "little")
    S.g_srt_blob, S.g_crt_blob = b[14], b[15]
    S.F = rfp.Field(S.fp_id, S.p, S.W, S.DIGS, S.monty) if S.p > 2 else None
    S.fpx = None
    if c2 is not None and not c2.unsupported and not c2.errored and S.F is not None:
        X = Rec()
        r2 = c2.rets
        X.qnr2_ctx, X.cnr3_ctx, X.qnr2_get, X.cnr3_get = si(r2[0]), si(r2[1]), si(r2[2]), si(r2[3])
        X.frb3 = [si(r2[4]), si(r2[5]), si(r2[6])]
        X.frb4, X.frb8 = si(r2[7]), si(r2[8])
        X.blobs = c2.blobs
        S.fpx = X
    return S


def _discover_fp(r):
    import sympy
    inf = r.info("info_fp")
    bits = inf[0]
    can_dense = inf[3] != inf[13]          # FP_RDC == QUICK builds cannot install a dense (scrambled) modulus
    scr = int(sympy.nextprime((1 << (bits - 1)) + 0x1234567)) if can_dense else None
    out, rejected, notes = [], [], []
    dirty = True
    last = 0
    for fid in range(1, 81):
        if dirty and can_dense:
            p = Prog()
            p.call("fp_prime_set_dense", p.bn(scr))
            r.run(p)
            dirty = False
            last = scr
        p = Prog()
        p.call("fp_param_set", fid)
        p.call("c18_fp_consts")
        p.call("c18_fpx_consts")
        try:
            res = r.run(p)
        except RunnerCrash as rc:
            # the build cannot select this identifier and does not fail cleanly (recorded, not judged here)
            from engine.proto import sanitizer_signature
            kind, frames = sanitizer_signature(rc.stderr_tail)
            notes.append("fp_param_set(%s) crashes the runner: %s" % (_nm(FP_NAMES, fid, "FP#"), kind or rc.why))
            rejected.append(fid)
            dirty, last = True, 0
            continue
        c0, c1, c2 = res.calls
        if c1.unsupported:
            raise Unsupported()
        prime = int.from_bytes(c1.blobs[0], "little")
        if c0.errored:
            rejected.append(fid)
            dirty = prime != last
            last = prime
            continue
        if prime == last or prime <= 3:
            rejected.append(fid)
            continue
        dirty = True
        last = prime
        S = _parse_fp(c1, c2)
        S.id = fid
        S.name = _nm(FP_NAMES, fid, "FP#")
        S.sel_ub = c0.ub
        out.append(S)
    return out, rejected, notes


def _parse_ep(c):
    rets = c.rets
    E = Rec()
    (E.ep_id, E.opt_a, E.opt_b, E.is_endom, E.is_super, E.is_pairf, E.is_ctmap, E.embed, E.frdim, E.level) = \
        [si(v) for v in rets[:10]]
    E.g_coord, E.BASIC, E.fid = rets[10], rets[11], rets[12]
    E.has_ctmap = bool(rets[13])
    E.iso_deg = [si(v) for v in rets[14:18]]
    E.has_endom = bool(rets[18])
    fam = ["BN", "B12", "B24", "B48", "K16", "K18", "FM16", "FM18", "AFG16", "SG18", "SG54", "GMT8", "SS2", "K1"]
    E.FAM = {si(rets[19 + i]): fam[i] for i in range(14)}
    E.OPT = dict(ZERO=rets[33], ONE=rets[34], TWO=rets[35], MIN3=rets[36], TINY=rets[37], HUGE=rets[38])
    E.blobs = c.blobs
    return E


def _discover_ep(r):
    out, rejected, notes = [], [], []
    for cid in range(1, 81):
        p = Prog()
        p.call("ep_param_set", cid)
        p.call("c18_ep_consts")
        p.call("c18_fp_consts")
        p.call("c18_fpx_consts")
        p.call("c18_ep_accessors")
        try:
            res = r.run(p)
        except RunnerCrash as rc:
            from engine.proto import sanitizer_signature
            kind, frames = sanitizer_signature(rc.stderr_tail)
            notes.append("ep_param_set(%s) crashes the runner: %s" % (_nm(EP_NAMES, cid, "EP#"), kind or rc.why))
            rejected.append(cid)
            continue
        c0, c1, c2, c3, c4 = res.calls
        if c0.unsupported or c1.unsupported:
            raise Unsupported()
        if c0.errored:
            rejected.append(cid)
            continue
        E = _parse_ep(c1)
        E.acc = None if (c4.unsupported or c4.errored) else [dec_bn(b) for b in c4.blobs[:2]]
        E.id = cid
        E.name = _nm(EP_NAMES, cid, "EP#")
        E.fp = _parse_fp(c2, c3)
        E.fp.id = E.fp.fp_id
        E.fp.name = _nm(FP_NAMES, E.fp.fp_id, "FP#")
        E.sel_ub = c0.ub
        F = E.fp.F
        E.F = F
        b = E.blobs
        E.p = F.p
        E.raw = dict(a=int.from_bytes(b[0], "little"), b=int.from_bytes(b[1], "little"))
        E.desc = [si(v) for v in c1.rets[:13]]
        out.append(E)
    # what a parameter set ADVERTISES (identifier, option tags, endomorphism / supersingular / pairing-family flags,
    # embedding degree, Frobenius dimension, security level, order, cofactor) right after a set of ANOTHER kind was
    # active: the identifiers above are walked in ascending order, which hides a flag that is only written for some
    # kinds of curves (seed C18-5: the pairing-family flag kept from a pairing curve selected before a plain one)
    kinds = {}
    for E in out:
        kinds.setdefault("pairf" if E.is_pairf else ("endom" if E.is_endom else "plain"), E)
    for E in out:
        E.after = {}
        for kind, P in sorted(kinds.items()):
            if P.id == E.id:
                continue
            p = Prog()
            p.call("ep_param_set", P.id)
            p.call("ep_param_set", E.id)
            p.call("c18_ep_consts")
            p.call("c18_ep_accessors")
            try:
                res = r.run(p)
            except RunnerCrash as rc:
                notes.append("ep_param_set(%s) after %s crashes the runner: %s" % (E.name, P.name, rc.why))
                continue
            if any(cl.errored or cl.unsupported for cl in res.calls):
                E.after[P.name] = None
                continue
            E.after[P.name] = ([si(v) for v in res.calls[2].rets[:13]], [dec_bn(b) for b in res.calls[3].blobs[:2]])
    return out, rejected, notes


def _discover_pc(r, eps, ops):
    """twist sets over Fp2: for every pairing-friendly curve try both twist types"""
    out, notes = [], []
    if "ep2_curve_set_twist" not in ops or "c18_ep2_consts" not in ops:
        return out, notes, None
    declared = None
    if "ep_param_set_any_pairf" in ops:
        p = Prog()
        p.call("ep_param_set_any_pairf")
        p.call("ep_param_get")
        p.call("c18_ep2_consts")
        try:
            res = r.run(p)
            if not res.calls[0].errored and si(res.calls[0].rets[0]) == 0:
                declared = (si(res.calls[1].rets[0]), si(res.calls[2].rets[0]))
        except RunnerCrash:
            notes.append("ep_param_set_any_pairf crashed the runner")
    k_pc = None
    if "info_pc" in ops:
        k_pc = r.info("info_pc")[0]
    for E in eps:
        if not E.is_pairf:
            continue
        for ttype in (1, 2):
            p = Prog()
            p.call("ep_param_set", E.id)
            p.call("ep2_curve_set_twist", ttype)
            p.call("c18_ep2_consts")
            p.call("c18_fpx_consts")
            p.call("c18_ep2_accessors")
            try:
                res = r.run(p)
            except RunnerCrash as rc:
                notes.append("%s twist type %d: runner %s" % (E.name, ttype, rc.why))
                continue
            c0, c1, c2, c3, c4 = res.calls
            if c1.errored:
                notes.append("%s twist type %d: not selectable (error %d)" % (E.name, ttype, c1.e))
                break                       # no ep2 table for this curve: the other type fails the same way
            T = Rec()
            T.base = E
            T.ttype = ttype
            T.id = E.id * 10 + ttype
            T.name = "%s/%s" % (E.name, "D" if ttype == 1 else "M")
            rets = c2.rets
            T.is_twist, T.opt_a, T.opt_b, T.is_ctmap, T.g_coord = [si(v) for v in rets[:5]]
            T.DTYPE, T.MTYPE = rets[5], rets[6]
            T.has_ctmap = bool(rets[7])
            T.iso_deg = [si(v) for v in rets[8:12]]
            T.blobs = c2.blobs
            T.acc = None if (c4.unsupported or c4.errored) else [dec_bn(b) for b in c4.blobs[:2]]
            T.fp = _parse_fp_min(E, c3)
            T.k_pc = k_pc
            T.declared = declared
            T.sel_ub = c1.ub
            out.append(T)
    return out, notes, declared


def _parse_fp_min(E, c3):
    """fpx constants as seen after the twist was installed (they depend on the prime only)"""
    X = Rec()
    r2 = c3.rets
    X.qnr2_ctx, X.cnr3_ctx, X.qnr2_get, X.cnr3_get = si(r2[0]), si(r2[1]), si(r2[2]), si(r2[3])
    X.frb3 = [si(r2[4]), si(r2[5]), si(r2[6])]
    X.frb4, X.frb8 = si(r2[7]), si(r2[8])
    X.blobs = c3.blobs
    return X


def _discover_fb(r, m):
    out, foreign, rejected = [], [], []
    for fid in range(1, 41):
        p = Prog()
        p.call("c18_fb_param_set", fid)
        p.call("c18_fb_consts")
        try:
            res = r.run(p)
        except RunnerCrash as rc:
            foreign.append((fid, "crash:%s" % rc.why))
            continue
        c0, c1 = res.calls
        if c0.unsupported:
            raise Unsupported()
        if c0.errored:
            name = _nm(FB_NAMES, fid, "FB#")
            if fid <= len(FB_NAMES) and fb_degree(name) == m:
                # an identifier of this degree that the build refuses
                B = Rec()
                B.id, B.name, B.refused = fid, name, (c0.e, c0.code)
                out.append(B)
            elif fid <= len(FB_NAMES):
                foreign.append((fid, "error"))
            else:
                rejected.append(fid)
            continue
        B = Rec()
        B.refused = None
        B.id = fid
        B.name = _nm(FB_NAMES, fid, "FB#")
        rets = [si(v) for v in c1.rets]
        B.m, B.DIGS, B.W, B.fb_id = rets[0], rets[1], rets[2], rets[3]
        B.pabc, B.nabc, B.tabc = rets[4:7], rets[7:10], rets[10:13]
        B.g_rdc, B.g_trc = rets[13:16], rets[16:19]
        B.chain_len, B.half_rows, B.g_id, B.preco = rets[19], rets[20], rets[21], rets[22]
        nb = B.W * B.DIGS // 8
        B.nb = nb
        B.f = int.from_bytes(c1.blobs[0], "little")
        B.srz = int.from_bytes(c1.blobs[1], "little")
        B.chain = dec_ints(c1.blobs[2])
        B.half = c1.blobs[3]
        B.tab_srz = c1.blobs[4] if len(c1.blobs) > 4 else None
        B.sel_ub = c0.ub
        if fb_degree(B.name) == m if fid <= len(FB_NAMES) else False:
            out.append(B)
        else:
            foreign.append((fid, "accepted:%s" % ("irreducible" if rbin.irreducible(B.f) else "reducible")))
    return out, foreign, rejected


def _discover_eb(r):
    out, rejected = [], []
    for cid in range(1, 31):
        p = Prog()
        p.call("c18_eb_param_set", cid)
        p.call("c18_eb_consts")
        p.call("c18_fb_consts")
        res = r.run(p)
        c0, c1, c2 = res.calls
        if c0.unsupported:
            raise Unsupported()
        if c0.errored:
            rejected.append(cid)
            continue
        C = Rec()
        C.id, C.name = cid, _nm(EB_NAMES, cid, "EB#")
        rets = [si(v) for v in c1.rets]
        C.eb_id, C.opt_a, C.opt_b, C.is_kbltz, C.level, C.g_coord, C.fb_id, C.g_kbltz, C.g_id = rets[:9]
        C.OPT = dict(ZERO=rets[9], ONE=rets[10], TINY=rets[11], HUGE=rets[12])
        b = c1.blobs
        C.a, C.b, C.gx, C.gy, C.gz = [int.from_bytes(x, "little") for x in b[:5]]
        C.r, C.h = dec_bn(b[5]), dec_bn(b[6])
        C.m = si(c2.rets[0])
        C.W = si(c2.rets[2])
        C.f = int.from_bytes(c2.blobs[0], "little")
        C.sel_ub = c0.ub
        out.append(C)
    return out, rejected


def _discover_ed(r):
    out, rejected = [], []
    for cid in range(1, 9):
        p = Prog()
        p.call("c18_ed_param_set", cid)
        p.call("c18_ed_consts")
        p.call("c18_fp_consts")
        res = r.run(p)
        c0, c1, c2 = res.calls
        if c0.unsupported:
            raise Unsupported()
        if c0.errored:
            rejected.append(cid)
            continue
        D = Rec()
        D.id, D.name = cid, _nm(ED_NAMES, cid, "ED#")
        rets = [si(v) for v in c1.rets]
        D.ed_id, D.level, D.g_coord, D.fid, D.g_id = rets[:5]
        D.fp = _parse_fp(c2, None)
        D.F = D.fp.F
        D.blobs = c1.blobs
        D.r, D.h = dec_bn(c1.blobs[5]), dec_bn(c1.blobs[6])
        D.sel_ub = c0.ub
        out.append(D)
    return out, rejected


def kinds_for(cfg):
    """the binary sets depend on FB_POLYN only and the prime sets on FP_PRIME only: every distinct size is visited once"""
    if cfg.startswith("fb-"):
        return ("fb", "eb")
    if cfg == "base256":
        return ("fp", "ep", "pc", "fb", "eb", "ed")
    return ("fp", "ep", "pc", "ed")


class LazyD(dict):
    """discovery results of one configuration; every kind is discovered when first asked for (a replay of one
    prime-curve case does not have to enumerate the binary fields)"""

    def __init__(self, env, cfg):
        dict.__init__(self)
        self.cfg = cfg
        self.r = env.runner(cfg, timeout=120.0)
        ops = self.r.ops()
        if "c18_info" not in ops:
            raise Unsupported()
        inf = list(self.r.info("c18_info"))
        self.want = kinds_for(cfg)
        self["info_raw"] = list(inf)
        if "fp" not in self.want:
            inf[0] = inf[2] = inf[5] = 0
        if "fb" not in self.want:
            inf[1] = inf[4] = 0
        self.update(info=inf, notes=[], rejected={}, foreign=[], ops=ops)

    def __missing__(self, key):
        inf, ops, r = self["info"], self["ops"], self.r
        if key == "fp":
            self[key] = []
            if inf[0] and "c18_fp_consts" in ops:
                self[key], self["rejected"]["fp"], n = _discover_fp(r)
                self["notes"] += n
        elif key == "ep":
            self[key] = []
            if inf[2] and "c18_ep_consts" in ops:
                self[key], self["rejected"]["ep"], n = _discover_ep(r)
                self["notes"] += n
        elif key in ("pc", "declared"):
            self["pc"], self["declared"] = [], None
            if inf[2] and "c18_ep_consts" in ops and "pc" in self.want:
                self["pc"], n, self["declared"] = _discover_pc(r, self["ep"], ops)
                self["notes"] += n
        elif key == "fb":
            self[key] = []
            if inf[1] and "c18_fb_consts" in ops:
                self[key], self["foreign"], self["rejected"]["fb"] = _discover_fb(r, inf[1])
        elif key == "eb":
            self[key] = []
            if inf[4] and "c18_eb_consts" in ops:
                self[key], self["rejected"]["eb"] = _discover_eb(r)
        elif key == "ed":
            self[key] = []
            if inf[5] and "c18_ed_consts" in ops:
                self[key], self["rejected"]["ed"] = _discover_ed(r)
        elif key == "missing":
            self[key] = self._missing_ids()
        else:
            raise KeyError(key)
        return self[key]

    def _missing_ids(self):
        """identifiers that belong to this build's size must be selectable (a set whose installation fails, e.g.
        because the library's own beta/lambda cross-check throws, is a broken set, not an absent one). FP_RDC == QUICK
        builds cannot install dense primes at all and are exempt."""
        inf, ops, want = self["info"], self["ops"], self.want
        out = []
        if self.cfg == "fp-quick":
            return out
        for kind, size in (("fp", inf[0]), ("ep", inf[0] if inf[2] else 0), ("eb", inf[1] if inf[4] else 0),
                           ("ed", inf[0] if inf[5] else 0)):
            if not size or kind not in want:
                continue
            have = {S.name for S in self[kind]}
            for n in expected_ids(kind, size):
                if n not in have:
                    out.append("%s:%s" % (kind, n))
        if "pc" in want and inf[3] and "ep2_curve_set_twist" in ops:
            have = {T.base.name for T in self["pc"]}
            for E in self["ep"]:
                if E.name in EP2_TABLES and E.name not in have:
                    out.append("pc:%s" % E.name)
        return out


def disc(env, cfg):
    if cfg not in _DISC:
        _DISC[cfg] = LazyD(env, cfg)
    D = _DISC[cfg]
    D.r = env.runner(cfg, timeout=120.0)      # the cache outlives an Env (replays): always talk to the live runner
    return D


def rec_of(env, cfg, kind, ident):
    for S in disc(env, cfg)[kind]:
        if S.id == ident:
            return S
    raise Unsupported()


# ------------------------------------------------------------------------------------------------ generic helpers

def isprime(n):
    import sympy
    return bool(sympy.isprime(n))


def V(msg, **kw):
    return Violation(msg, **kw)


def vp(n, q):
    """(e, m) with n = q^e * m, q does not divide m"""
    e = 0
    while n % q == 0 and n:
        n //= q
        e += 1
    return e, n


class Src:
    """material source: Hypothesis draws in the generated targets, a hash stream in the 'complete' target"""

    def __init__(self, draw=None, key=b""):
        self.draw, self.key, self.ctr = draw, key, 0

    def u(self, lo, hi):
        if self.draw is not None:
            return self.draw(ints.uniform(lo, hi))
        self.ctr += 1
        span = hi - lo + 1
        nb = (span.bit_length() + 7) // 8 + 8
        h = b""
        i = 0
        while len(h) < nb:
            h += hashlib.sha256(self.key + struct.pack("<II", self.ctr, i)).digest()
            i += 1
        return lo + int.from_bytes(h[:nb], "little") % span

    def pick(self, seq):
        if self.draw is not None:
            return self.draw(st.sampled_from(list(seq)))
        return list(seq)[self.u(0, len(seq) - 1)]


def k_is_square(K, a):
    if isinstance(K, rec.PrimeField):
        return rfp.is_square(a, K.p)
    return K.is_square(a)


def k_sqrt(K, a):
    return K.sqrt(a)


def k_sgn0(K, a):
    """RFC 9380 section 4.1"""
    if isinstance(K, rec.PrimeField):
        return a % 2
    sign, zero = 0, 1
    for x in K.flatten(a):
        sign = sign or (zero and (x % 2))
        zero = zero and (x == 0)
    return int(sign)


def k_elem(K, v):
    return v if isinstance(K, rec.PrimeField) else tuple(v)


def k_rand(K, src):
    if isinstance(K, rec.PrimeField):
        return src.u(0, K.p - 1)
    return tuple(src.u(0, K.p - 1) for _ in range(K.d))


def k_next(K, x):
    """deterministic successor used when a drawn x has no point above it"""
    if isinstance(K, rec.PrimeField):
        return (x + 1) % K.p
    return ((x[0] + 1) % K.p,) + tuple(x[1:])


def lift(E, x, flip):
    """first curve point with abscissa x, x+1, ... (reference square root); returns (P, tries)"""
    K = E.K
    for t in range(1, 200):
        P = E.lift_x(x)
        if P is not None:
            if flip:
                P = E.neg(P)
            return P, t
        x = k_next(K, x)
    raise Unsupported()


def gnfs_bits(n):
    """NIST SP 800-57 / FIPS 140 IG 7.5 estimate of the strength of an n-bit finite-field DL"""
    import math
    if n <= 0:
        return 0
    x = n * math.log(2)
    return (1.923 * x ** (1.0 / 3) * (math.log(x)) ** (2.0 / 3) - 4.69) / math.log(2)


def poly_eval(K, coeffs, x):
    """Horner, coeffs[0] is the constant term"""
    acc = coeffs[-1]
    for c in reversed(coeffs[:-1]):
        acc = K.add(K.mul(acc, x), c)
    return acc


# --------------------------------------------------------------------------------------------------- FP relations

def fp_prime(ctx, S, case):
    p = S.p
    if S.p_bn != p or S.g_id != S.id or S.fp_id != S.id:
        raise V("fp: context prime / identifier disagree with what was selected", p=p, p_bn=S.p_bn, fp_id=S.fp_id)
    if not isprime(p):
        raise V("fp: modulus of %s is not prime" % S.name, p=p)
    nb = p.bit_length()
    if nb > S.FP_PRIME or nb <= (S.DIGS - 1) * S.W:
        raise V("fp: modulus of %s has %d bits in a %d-bit build" % (S.name, nb, S.FP_PRIME), p=p)
    return True, ["fp:bits=%s" % ("FP_PRIME" if nb == S.FP_PRIME else "FP_PRIME-%d" % (S.FP_PRIME - nb))]


def fp_getters(ctx, S, case):
    bad = []
    if (S.g_mod8, S.g_mod18, S.g_qnr, S.g_cnr, S.g_ad2, S.g_u) != (S.mod8, S.mod18, S.qnr, S.cnr, S.ad2, S.u):
        bad.append("mod8/mod18/qnr/cnr/2ad/rdc")
    if S.g_conv_raw != S.conv_raw or S.g_srt_blob != S.srt_blob or S.g_crt_blob != S.crt_blob:
        bad.append("conv/srt/crt")
    if S.g_sps != (S.sps if 0 < S.sps_len < ctx["terms"] else []):
        bad.append("sps")
    if S.g_par_sps != S.par_sps:
        bad.append("par_sps")
    if bad:
        raise V("fp: getters disagree with the context for %s: %s" % (S.name, bad))
    return False, []


def fp_sps(ctx, S, case):
    s = S.sps
    if not s:
        return False, ["fp:sps=none"]
    # fp_prime_set_pmers: top power, signed powers in between, s[0] a signed *value*; fp_rdcs_low treats s[0] as +-1
    v = 1 << s[-1]
    for e in s[1:-1]:
        v += (1 << e) if e > 0 else -(1 << -e)
    v += s[0]
    if v != S.p or abs(s[0]) != 1 or s[-1] <= 0:
        raise V("fp: sparse form of %s does not evaluate to the modulus" % S.name, sps=s, value=v, p=S.p)
    if [abs(e) for e in s[1:]] != sorted(abs(e) for e in s[1:]) or len(set(abs(e) for e in s[1:])) != len(s) - 1:
        raise V("fp: sparse form of %s is not strictly increasing" % S.name, sps=s)
    return True, ["fp:sps=%d-terms" % len(s)]


def fp_mods(ctx, S, case):
    p = S.p
    ad2, _ = vp(p - 1, 2)
    if (S.mod8, S.mod18, S.ad2) != (p % 8, p % 18, ad2):
        raise V("fp: mod8/mod18/2-adicity of %s wrong" % S.name, got=[S.mod8, S.mod18, S.ad2],
                want=[p % 8, p % 18, ad2])
    return True, ["fp:mod8=%d" % (p % 8), "fp:mod3=%d" % (p % 3)]


def fp_qnr(ctx, S, case):
    import sympy
    if S.qnr == 0 or sympy.jacobi_symbol(S.qnr % S.p, S.p) != -1:
        raise V("fp: qnr of %s is not a quadratic non-residue" % S.name, qnr=S.qnr, p=S.p)
    return True, ["fp:qnr=%d" % S.qnr]


def fp_cnr(ctx, S, case):
    p = S.p
    if p % 3 != 1:
        if S.cnr != 0:
            raise V("fp: cnr of %s non-zero although every element is a cube (p = 2 mod 3)" % S.name, cnr=S.cnr)
        return False, ["fp:cnr=none(p=2 mod 3)"]
    if S.cnr == 0 or pow(S.cnr % p, (p - 1) // 3, p) == 1:
        raise V("fp: cnr of %s is not a cubic non-residue" % S.name, cnr=S.cnr, p=p)
    return True, ["fp:cnr=%d" % S.cnr]


def fp_srt(ctx, S, case):
    p = S.p
    if p % 4 == 3:
        return False, ["fp:srt=unused(p=3 mod 4)"]
    w = fvals(S.F, S.srt_blob, "fp srt")[0]
    f, _ = vp(p - 1, 2)
    if pow(w, 1 << (f - 1), p) != p - 1:
        raise V("fp: srt of %s is not a primitive 2^%d-th root of unity" % (S.name, f), srt=w, p=p)
    return True, ["fp:srt=2^%d-th root" % f]


def fp_crt(ctx, S, case):
    p = S.p
    if p % 3 != 1:
        return False, ["fp:crt=unused(p=2 mod 3)"]
    w = fvals(S.F, S.crt_blob, "fp crt")[0]
    g, _ = vp(p - 1, 3)
    if pow(w, 3 ** g, p) != 1 or pow(w, 3 ** (g - 1), p) == 1:
        raise V("fp: crt of %s is not a primitive 3^%d-th root of unity" % (S.name, g), crt=w, p=p)
    return True, ["fp:crt=3^%d-th root%s" % (g, "" if p % 9 == 1 else "(unused: p != 1 mod 9)")]


def fp_monty(ctx, S, case):
    p = S.p
    R = 1 << (S.W * S.DIGS)
    if (S.u * p + 1) % (1 << S.W) != 0:
        raise V("fp: u*p != -1 mod 2^W for %s" % S.name, u=S.u, p=p)
    if S.one_raw != R % p:
        raise V("fp: 'one' of %s is not R mod p" % S.name, got=S.one_raw, want=R % p)
    if S.monty and S.conv_raw != R * R % p:
        raise V("fp: 'conv' of %s is not R^2 mod p" % S.name, got=S.conv_raw, want=R * R % p)
    return True, ["fp:monty" if S.monty else "fp:monty=conv-unused"]


def fp_over3(ctx, S, case):
    p = S.p
    if not (0 <= S.over3 < p) or (3 * S.over3 + 1) % p != 0:
        raise V("fp: over3 of %s is not -1/3 mod p" % S.name, over3=S.over3, p=p, pmod3=p % 3)
    return True, ["fp:over3:p=%d mod 3" % (p % 3)]


def inv_model(S):
    """the power of two the jump-divstep inversion must be corrected by, in the representation it works in
    (Bernstein-Yang: after d divsteps v*a = 2^d*f; sipa/safegcd-bounds gives d); every Montgomery reduction the
    routine performs on the way costs one factor R"""
    p = S.p
    d = (45907 * S.FP_PRIME + 26313) // 19929
    s = S.W - 2
    loops = d // s - (1 if d % s == 0 else 0)
    R = 1 << (S.W * S.DIGS)
    base = pow(pow(2, d, p), -1, p)
    if not S.monty:
        return base, d, loops, 0
    k = 3 + (loops - 1) // S.DIGS if S.room else 2 + loops
    return base * pow(R, k, p) % p, d, loops, k


def fp_inv_const(ctx, S, case):
    want, d, loops, k = inv_model(S)
    if S.inv_raw != want:
        raise V("fp: divstep constant of %s != 2^-%d * R^%d mod p" % (S.name, d, k), got=S.inv_raw, want=want,
                loops=loops, room=S.room)
    return True, ["fp:inv:d=%d,R^%d%s" % (d, k, ",room" if S.room else "")]


def fp_par_sps(ctx, S, case):
    s = S.par_sps
    if not s:
        if S.par_len > 0:
            raise V("fp: par_sps getter empty although par_len > 0")
        return False, ["fp:par=none"]
    v = 0
    for i, e in enumerate(s):
        if e == 0 and i == 0:
            v += 1
        elif e > 0:
            v += 1 << e
        else:
            v -= 1 << -e
    mags = [abs(e) for e in s]
    if v != abs(S.par) or mags != sorted(mags) or len(set(mags)) != len(mags):
        raise V("fp: sparse (signed binary) form of the curve parameter of %s does not evaluate to |par|" % S.name,
                par=S.par, par_sps=s, value=v)
    return True, ["fp:par_sps=%d-terms" % len(s)]


def _fpx(S):
    X = S.fpx
    if X is None or S.qnr == 0:
        raise Unsupported()
    return X


def fp_fp2_nonres(ctx, S, case):
    X = _fpx(S)
    F = S.F
    i2 = fvals(F, X.blobs[9], "i^2")
    if i2 != [S.qnr % S.p, 0]:
        raise V("fpx: i^2 as computed by fp2_mul_art is not the prime's qnr for %s" % S.name, got=i2, qnr=S.qnr)
    E2 = fvals(F, X.blobs[0], "fp2_mul_nor(1)")
    want = [X.qnr2_get % S.p, 1]
    if E2 != want:
        raise V("fpx: fp2_field_get_qnr() = %d but fp2_mul_nor multiplies by %s for %s" % (X.qnr2_get, E2, S.name),
                getter=X.qnr2_get, ctx_qnr2=X.qnr2_ctx, mul_nor=E2, mod8=S.p % 8, fid=S.id)
    return True, ["fpx:E2=%d+i" % X.qnr2_get]


def fp_fp3_nonres(ctx, S, case):
    X = _fpx(S)
    if S.cnr == 0:
        return False, ["fpx:E3=none"]
    F = S.F
    E3 = fvals(F, X.blobs[1], "fp3_mul_nor(1)")
    want = [X.cnr3_get % S.p, 1, 0]
    uses3 = any(E.fid == S.id and E.embed in (18, 54) for E in ctx["D"]["ep"])
    if E3 != want and not uses3:
        # no pairing set of this prime works over Fp3 (k = 18, 54): the cubic tower is dead weight here
        return False, ["fpx:E3=getter-disagrees(cubic tower unused at this prime)"]
    if E3 != want:
        raise V("fpx: fp3_field_get_cnr() = %d but fp3_mul_nor multiplies by %s for %s" % (X.cnr3_get, E3, S.name),
                getter=X.cnr3_get, ctx_cnr3=X.cnr3_ctx, mul_nor=E3, mod18=S.p % 18, fid=S.id)
    return True, ["fpx:E3=%d+j" % X.cnr3_get]


def _tower(S):
    if getattr(S, "_T", None) is None:
        X = _fpx(S)
        F = S.F
        E2 = tuple(fvals(F, X.blobs[0], "fp2_mul_nor(1)"))
        E3 = tuple(fvals(F, X.blobs[1], "fp3_mul_nor(1)")) if S.cnr else None
        S._T = rext.build_tower(S.p, S.qnr, S.cnr if S.cnr else None, E2, E3)
        S._E2, S._E3 = E2, E3
    return S._T


def fp_frob2(ctx, S, case):
    X = _fpx(S)
    T = _tower(S)
    F2, p, F = T[2], S.p, S.F
    p1 = fvals(F, X.blobs[2], "fp2_p1")
    p2 = fvals(F, X.blobs[3], "fp2_p2")
    base = F2.pow(S._E2, (p - 1) // 6)
    acc = F2.one
    for k in range(5):
        acc = F2.mul(acc, base)
        if tuple(p1[2 * k:2 * k + 2]) != acc:
            raise V("fpx: Frobenius constant fp2_p1[%d] of %s != xi^(%d*(p-1)/6)" % (k, S.name, k + 1),
                    got=p1[2 * k:2 * k + 2], want=list(acc))
    for j, dv in enumerate((4, 8, 12, 24)):
        w = F2.pow(S._E2, p // dv)
        if tuple(p2[2 * j:2 * j + 2]) != w:
            raise V("fpx: Frobenius constant fp2_p2[%d] of %s != xi^(p div %d)" % (j, S.name, dv),
                    got=p2[2 * j:2 * j + 2], want=list(w))
    return True, ["fpx:frob2:p=%d mod 6" % (p % 6)]


def fp_frob48(ctx, S, case):
    X = _fpx(S)
    T = _tower(S)
    p, F = S.p, S.F
    out = []
    # the Fp8 constant has a single consumer, fp8_mul_frb, called by ep8_frb only (curves over Fp8: k = 48); for every
    # other prime it is computed under an assumption that need not hold and is never read
    uses8 = any(E.fid == S.id and E.embed == 48 for E in ctx["D"]["ep"])
    for deg, blob, flag in ((4, X.blobs[7], X.frb4), (8, X.blobs[8], X.frb8)):
        if deg == 8 and not uses8:
            out.append("fpx:frb8=unused")
            continue
        K = T[deg]
        w = K.pow(rext.art(K), (p - 1) // 6)
        flat = K.flatten(w)
        got = fvals(F, blob, "fp%d_p1" % deg)
        # the library keeps ONE Fp2 coefficient and a flag telling where it sits; every other coefficient must be 0
        if deg == 4:
            pos = 0 if flag == 0 else 2
        else:
            pos = 0 if flag == 0 else 6
        rest = flat[:pos] + flat[pos + 2:]
        if flat[pos:pos + 2] != got or any(rest):
            raise V("fpx: Frobenius constant fp%d_p1 / frb%d of %s does not represent s^((p-1) div 6)" % (deg, deg, S.name),
                    got=got, flag=flag, want=flat)
        out.append("fpx:frb%d=%d" % (deg, flag))
    return True, out


def fp_frob3(ctx, S, case):
    X = _fpx(S)
    if S.cnr == 0:
        return False, ["fpx:frob3=none"]
    T = _tower(S)
    F3, p, F = T[3], S.p, S.F
    c = S.cnr % p
    p0 = fvals(F, X.blobs[4], "fp3_p0")
    w0 = pow(c, p // 3, p)
    if p0 != [w0, w0 * w0 % p]:
        raise V("fpx: fp3_p0 of %s != cnr^(p div 3) and its square" % S.name, got=p0, want=[w0, w0 * w0 % p])
    p1 = fvals(F, X.blobs[5], "fp3_p1")
    p2 = fvals(F, X.blobs[6], "fp3_p2")
    base = F3.pow(S._E3, p // 6)
    mono = X.cnr3_get == 0

    def chk(w, got3, idx, what):
        w = list(w)
        if not mono:
            if got3 != w:
                raise V("fpx: %s of %s wrong" % (what, S.name), got=got3, want=w)
            return
        nz = [i for i in range(3) if w[i]]
        if len(nz) != 1 or got3[0] != w[nz[0]] or (idx is not None and idx % 3 != nz[0]):
            raise V("fpx: %s of %s: stored coefficient / position flag do not represent the power" % (what, S.name),
                    got=got3[0], flag=idx, want=w)

    acc = F3.one
    for k in range(5):
        acc = F3.mul(acc, base)
        chk(acc, p1[3 * k:3 * k + 3], (k + 1) * X.frb3[0] if mono else None, "fp3_p1[%d]" % k)
    chk(F3.pow(S._E3, p // 9), p2[0:3], X.frb3[1] if mono else None, "fp3_p2[0]")
    chk(F3.pow(S._E3, p // 18), p2[3:6], X.frb3[2] if mono else None, "fp3_p2[1]")
    return True, ["fpx:frob3:%s" % ("monomial" if mono else "full")]


def fp_inv_fun(ctx, S, case):
    """the divstep constant does its job: fp_inv_jmpds(a) * a = 1 for a generated a"""
    a = case["a"] % S.p
    if a == 0:
        a = 1
    F = S.F
    p = Prog(poison=case.get("poison", 0xA5))
    p.call("fp_param_set", S.id)
    sa = p.new("FP", F.enc(a))
    sc = p.new("FP", F.enc(1))
    p.call("fp_inv_jmpds", sc, sa)
    p.dump(sc)
    res = ctx["env"].runner(ctx["cfg"]).run(p)
    c = res.calls[1]
    if c.unsupported:
        raise Unsupported()
    if c.ub:
        raise V("UB in fp_inv_jmpds: %s" % c.ub, ub=c.ub)
    if c.errored:
        raise V("fp_inv_jmpds reported an error for a non-zero element", a=a, fid=S.id)
    v, raw = F.dec(res.dumps[sc])
    if v is None or v != pow(a, -1, S.p):
        raise V("fp: fp_inv_jmpds(a) != 1/a with the stored divstep constant of %s" % S.name, a=a, got=v,
                want=pow(a, -1, S.p))
    return a > 1, []


def mat_fp_inv(src, S):
    k = src.u(0, 5)
    p = S.p
    if k == 0:
        a = src.pick([1, 2, p - 1, p - 2, (p - 1) // 2, (p + 1) // 2, (1 << (p.bit_length() - 1)), 3])
    else:
        a = src.u(1, p - 1)
    return dict(a=a, poison=src.u(0, 255))


FP_RELS = [
    ("prime", fp_prime, None), ("getters", fp_getters, None), ("sparse-form", fp_sps, None),
    ("mod8-mod18-2adicity", fp_mods, None), ("qnr", fp_qnr, None), ("cnr", fp_cnr, None), ("srt-root", fp_srt, None),
    ("crt-root", fp_crt, None), ("montgomery-consts", fp_monty, None), ("over3", fp_over3, None),
    ("divstep-const", fp_inv_const, None), ("par-sparse", fp_par_sps, None), ("fp2-nonresidue", fp_fp2_nonres, None),
    ("fp3-nonresidue", fp_fp3_nonres, None), ("frobenius-fp2", fp_frob2, None), ("frobenius-fp4-fp8", fp_frob48, None),
    ("frobenius-fp3", fp_frob3, None), ("divstep-inverse", fp_inv_fun, mat_fp_inv),
]


# --------------------------------------------------------------------------------------------------- EP relations

def ep_view(E):
    """decoded published values of a prime curve (cached)"""
    if getattr(E, "_v", None) is not None:
        return E._v
    F = E.F
    b = E.blobs
    v = Rec()
    v.p = F.p
    v.K = rec.PrimeField(F.p)
    v.a, v.b = fvals(F, b[0] + b[1], "curve coefficients")
    v.gx, v.gy, v.gz = fvals(F, b[2] + b[3] + b[4], "generator")
    v.r, v.h = dec_bn(b[5]), dec_bn(b[6])
    v.E = rec.Curve(v.K, v.a, v.b)
    v.G = (v.gx, v.gy)
    v.beta = fvals(F, b[7], "beta")[0] if E.has_endom and b[7] else None
    v.v1 = [dec_bn(x) for x in b[8:11]] if E.has_endom else None
    v.v2 = [dec_bn(x) for x in b[11:14]] if E.has_endom else None
    v.map_u = fvals(F, b[14], "map_u")[0]
    v.map_c_blob = b[15]
    v.lam = None
    v.lam_err = None
    if E.is_endom:
        v.lam, v.lam_err = find_lambda(v)
    E._v = v
    return v


def find_lambda(v):
    """the eigenvalue of psi on <G>: psi(x, y) = (beta x, y) for a = 0 (beta^3 = 1), (-x, beta y) for b = 0
    (beta^2 = -1); lambda is the root of x^2 + x + 1 (resp. x^2 + 1) mod r with [lambda]G = psi(G)"""
    p, r = v.p, v.r
    if v.beta is None:
        return None, "no beta"
    if r <= 3 or not isprime(r):
        return None, "order not prime"
    if v.a == 0:
        if v.beta == 1 or pow(v.beta, 3, p) != 1:
            return None, "beta is not a primitive cube root of unity"
        s = rfp.sqrt_mod((-3) % r, r)
        if s is None:
            return None, "x^2 + x + 1 has no root modulo r"
        i2 = pow(2, -1, r)
        cands = [(-1 + s) * i2 % r, (-1 - s) * i2 % r]
        img = (v.beta * v.gx % p, v.gy)
    elif v.b == 0:
        if pow(v.beta, 2, p) != p - 1:
            return None, "beta^2 != -1"
        s = rfp.sqrt_mod(r - 1, r)
        if s is None:
            return None, "x^2 + 1 has no root modulo r"
        cands = [s, r - s]
        img = ((-v.gx) % p, v.beta * v.gy % p)
    else:
        return None, "curve flagged endomorphic but neither a nor b is zero"
    for l in cands:
        if v.E.mul(l, v.G) == img:
            return l, None
    return None, "neither root of the characteristic polynomial satisfies [lambda]G = psi(G)"


def ep_field(ctx, E, case):
    v = ep_view(E)
    fp_ids = [S.id for S in ctx["D"]["fp"]]
    if E.fid != E.fp.fp_id or (fp_ids and E.fid not in fp_ids):
        raise V("ep: %s installs a field identifier that fp_param_set does not accept here" % E.name, fid=E.fid)
    if E.ep_id != E.id:
        raise V("ep: ep_param_get() != selected identifier", got=E.ep_id, want=E.id)
    if not isprime(v.p):
        raise V("ep: field modulus of %s not prime" % E.name, p=v.p)
    if (4 * pow(v.a, 3, v.p) + 27 * v.b * v.b) % v.p == 0:
        raise V("ep: %s is singular (4a^3 + 27b^2 = 0)" % E.name, a=v.a, b=v.b)
    return True, ["ep:field=%s" % E.fp.name]


def ep_opt(ctx, E, case):
    v = ep_view(E)
    p, O = v.p, E.OPT

    def want(x, raw, is_a):
        if is_a and x == p - 3:
            return [O["MIN3"]]
        if x == 0:
            return [O["ZERO"]]
        if x == 1:
            return [O["ONE"]]
        if x == 2:
            return [O["TWO"]]
        return [O["TINY"]] if raw < (1 << E.fp.W) else [O["HUGE"]]
    wa = want(v.a, E.raw["a"], True)
    wb = want(v.b, E.raw["b"], True)      # detect_opt is shared: b = -3 would be tagged MIN3 as well
    if E.opt_a not in wa or E.opt_b not in wb:
        raise V("ep: coefficient optimisation tags of %s do not match a, b" % E.name, opt_a=E.opt_a, opt_b=E.opt_b,
                a=v.a, b=v.b, want_a=wa, want_b=wb)
    names = {val: k for k, val in O.items()}
    return True, ["ep:opt_a=%s" % names.get(E.opt_a), "ep:opt_b=%s" % names.get(E.opt_b)]


def ep_gen(ctx, E, case):
    v = ep_view(E)
    if v.gz != 1 or E.g_coord != E.BASIC:
        raise V("ep: stored generator of %s is not normalised (z != 1 or not tagged affine)" % E.name, z=v.gz)
    if not v.E.on_curve(v.G):
        raise V("ep: generator of %s is not on the curve" % E.name, x=v.gx, y=v.gy, a=v.a, b=v.b)
    return True, []


def ep_order(ctx, E, case):
    v = ep_view(E)
    if v.r <= 1 or not isprime(v.r):
        raise V("ep: group order of %s is not prime" % E.name, r=v.r)
    if v.E.mul(v.r, v.G) is not None:
        raise V("ep: [r]G != O for %s" % E.name, r=v.r)
    return True, ["ep:r-bits=%d" % v.r.bit_length()]


def ep_accessors(ctx, E, case):
    """the context fields are what the relations above decide; the PUBLIC accessors must advertise exactly those"""
    v = ep_view(E)
    if getattr(E, "acc", None) is None:
        raise Unsupported()
    if E.acc != [v.r, v.h]:
        raise V("ep: ep_curve_get_ord / ep_curve_get_cof of %s do not return the stored order / cofactor" % E.name,
                accessors=E.acc, stored=[v.r, v.h])
    return True, []


def ep_advertised_after(ctx, E, case):
    """the advertised descriptors do not depend on which kind of parameter set was active before"""
    v = ep_view(E)
    if not getattr(E, "after", None):
        raise Unsupported()
    names = ["ep_id", "opt_a", "opt_b", "is_endom", "is_super", "is_pairf", "is_ctmap", "embedding degree",
             "Frobenius dimension", "security level", "generator coord", "BASIC", "field id"]
    for prev, got in sorted(E.after.items()):
        if got is None:
            raise V("ep: selecting %s right after %s reports an error" % (E.name, prev))
        desc, acc = got
        diff = [names[i] for i in range(len(names)) if desc[i] != E.desc[i]]
        if diff or (E.acc is not None and acc != E.acc):
            raise V("ep: %s advertises other parameters when it is selected right after %s: %s differ" %
                    (E.name, prev, ", ".join(diff) or "order / cofactor"), after=desc, alone=E.desc)
    return True, ["ep:advertised-after=%d" % len(E.after)]


def isqrt(n):
    import math
    return math.isqrt(n)


def ep_hasse(ctx, E, case):
    v = ep_view(E)
    n = v.h * v.r
    t = v.p + 1 - n
    if v.h < 1 or t * t > 4 * v.p:
        raise V("ep: h*r of %s is outside the Hasse interval" % E.name, h=v.h, r=v.r, p=v.p)
    labels = ["ep:h=%s" % ("1" if v.h == 1 else "%d-bit" % v.h.bit_length())]
    # CM equation for the two special j-invariants: 4p - t^2 = 3 f^2 (a = 0) resp. f^2 (b = 0)
    d = 4 * v.p - t * t
    if v.a == 0:
        if d % 3 or isqrt(d // 3) ** 2 != d // 3:
            raise V("ep: %s has a = 0 but 4p - t^2 is not 3*square for t = p + 1 - h*r" % E.name, t=t, h=v.h, r=v.r)
        labels.append("ep:cm=-3")
    elif v.b == 0:
        if isqrt(d) ** 2 != d:
            raise V("ep: %s has b = 0 but 4p - t^2 is not a square for t = p + 1 - h*r" % E.name, t=t, h=v.h, r=v.r)
        labels.append("ep:cm=-4")
    if E.is_super and t % v.p != 0:
        raise V("ep: %s flagged supersingular but p does not divide the trace" % E.name, t=t)
    return True, labels


FAMILY = {
    # name: (p(x), r(x) or None, r-numerator or None, t(x)) — Barreto-Naehrig 2005; Barreto-Lynn-Scott 2002;
    # Kachisa-Schaefer-Scott 2008
    "BN": (lambda x: 36 * x ** 4 + 36 * x ** 3 + 24 * x ** 2 + 6 * x + 1,
           lambda x: 36 * x ** 4 + 36 * x ** 3 + 18 * x ** 2 + 6 * x + 1, None, lambda x: 6 * x * x + 1),
    "B12": (lambda x: ((x - 1) ** 2 * (x ** 4 - x ** 2 + 1), 3, x), lambda x: x ** 4 - x ** 2 + 1, None,
            lambda x: x + 1),
    "B24": (lambda x: ((x - 1) ** 2 * (x ** 8 - x ** 4 + 1), 3, x), lambda x: x ** 8 - x ** 4 + 1, None,
            lambda x: x + 1),
    "B48": (lambda x: ((x - 1) ** 2 * (x ** 16 - x ** 8 + 1), 3, x), lambda x: x ** 16 - x ** 8 + 1, None,
            lambda x: x + 1),
    "K18": (lambda x: (x ** 8 + 5 * x ** 7 + 7 * x ** 6 + 37 * x ** 5 + 188 * x ** 4 + 259 * x ** 3 + 343 * x ** 2 +
                       1763 * x + 2401, 21, 0), None, lambda x: x ** 6 + 37 * x ** 3 + 343,
            lambda x: (x ** 4 + 16 * x + 7, 7)),
    "K16": (lambda x: (x ** 10 + 2 * x ** 9 + 5 * x ** 8 + 48 * x ** 6 + 152 * x ** 5 + 240 * x ** 4 + 625 * x ** 2 +
                       2398 * x + 3125, 980, 0), None, lambda x: x ** 8 + 48 * x ** 4 + 625,
            lambda x: (2 * x ** 5 + 41 * x + 35, 35)),
}


def _exact(v):
    """(numerator, denominator[, addend]) -> integer or None when not integral"""
    if not isinstance(v, tuple):
        return v
    num, den = v[0], v[1]
    add = v[2] if len(v) > 2 else 0
    if num % den:
        return None
    return num // den + add


def ep_family(ctx, E, case):
    v = ep_view(E)
    fam = E.FAM.get(E.is_pairf) if E.is_pairf else None
    if fam is None:
        if E.is_pairf:
            raise V("ep: unknown pairing family tag %d" % E.is_pairf)
        return False, ["ep:family=none"]
    x = E.fp.par
    if fam not in FAMILY:
        return False, ["ep:family=%s(polynomials not modelled)" % fam]
    P, Rx, Rnum, Tx = FAMILY[fam]
    if _exact(P(x)) != v.p:
        raise V("ep: p != p(x) of family %s for %s" % (fam, E.name), x=x, p=v.p, px=str(_exact(P(x))))
    if Rx is not None and Rx(x) != v.r:
        raise V("ep: r != r(x) of family %s for %s" % (fam, E.name), x=x, r=v.r, rx=Rx(x))
    if Rnum is not None and Rnum(x) % v.r:
        raise V("ep: r does not divide r(x) of family %s for %s" % (fam, E.name), x=x, r=v.r)
    t = _exact(Tx(x))
    if t is None or v.h * v.r != v.p + 1 - t:
        raise V("ep: h*r != p + 1 - t(x) of family %s for %s" % (fam, E.name), x=x, t=str(t), h=v.h, r=v.r)
    return True, ["ep:family=%s" % fam]


def ep_embed(ctx, E, case):
    v = ep_view(E)
    k = E.embed
    if not E.is_pairf:
        if k != 0:
            raise V("ep: embedding degree %d advertised for a curve that is not pairing-friendly" % k)
        return False, ["ep:embed=none"]
    if k <= 0:
        raise V("ep: no embedding degree for pairing family tag %d (%s)" % (E.is_pairf, E.name))
    p, r = v.p % v.r, v.r
    for j in range(1, k + 1):
        if pow(p, j, r) == 1:
            if j != k:
                raise V("ep: %s advertises embedding degree %d but r | p^%d - 1" % (E.name, k, j), k=k, j=j)
            return True, ["ep:embed=%d" % k]
    raise V("ep: %s advertises embedding degree %d but r does not divide p^%d - 1" % (E.name, k, k), k=k, r=v.r)


def ep_level(ctx, E, case):
    v = ep_view(E)
    lv = E.level
    rho = (v.r.bit_length() + 1) // 2 + 1
    if lv <= 0:
        raise V("ep: ep_param_level() = %d for the selectable curve %s (hash-to-field sizes and key lengths are derived "
                "from it)" % (lv, E.name), level=lv, cid=E.id, rbits=v.r.bit_length())
    if lv > rho:
        raise V("ep: ep_param_level() = %d exceeds the generic bound %d of a %d-bit group (%s)" % (
            lv, rho, v.r.bit_length(), E.name), level=lv, cid=E.id, rbits=v.r.bit_length())
    if E.is_pairf and E.embed > 0:
        dl = gnfs_bits(E.embed * v.p.bit_length())
        if lv > dl + 1:
            raise V("ep: ep_param_level() = %d exceeds the GNFS estimate %.0f of the %d-bit target field (%s)" % (
                lv, dl, E.embed * v.p.bit_length(), E.name), level=lv, cid=E.id)
    return True, ["ep:level=%d" % lv]


def ep_endo(ctx, E, case):
    v = ep_view(E)
    if not E.is_endom:
        return False, ["ep:endo=none"]
    if v.lam is None:
        raise V("ep: beta / lambda of %s inconsistent: %s" % (E.name, v.lam_err), beta=v.beta, r=v.r)
    l, r = v.lam, v.r
    ok = (l * l + l + 1) % r == 0 if v.a == 0 else (l * l + 1) % r == 0
    if not ok:
        raise V("ep: lambda does not satisfy the characteristic equation", lam=l)
    return True, ["ep:endo=%s" % ("cube-root" if v.a == 0 else "fourth-root")]


def ep_glv(ctx, E, case):
    v = ep_view(E)
    if not E.is_endom:
        return False, ["ep:glv=none"]
    if v.lam is None:
        raise Unsupported()           # reported by the endomorphism relation
    r, l = v.r, v.lam
    a1, b1 = v.v1[1], v.v1[2]
    a2, b2 = v.v2[1], v.v2[2]
    for nm, (a, b) in (("v1", (a1, b1)), ("v2", (a2, b2))):
        if (a + b * l) % r != 0:
            raise V("ep: GLV vector %s of %s is not in the lattice {(a, b): a + b*lambda = 0 mod r}" % (nm, E.name),
                    a=a, b=b, lam=l, r=r)
    det = a1 * b2 - a2 * b1
    if abs(det) != r:
        raise V("ep: GLV vectors of %s do not span the lattice (|det| = %d*r/%d)" % (E.name, abs(det) // r if det % r == 0 else -1, 1),
                det=det, r=r)
    nbits = r.bit_length()
    lim = 1 << (E.fp.W * E.fp.DIGS)
    allv = v.v1 + v.v2
    if any(abs(x) >= lim for x in allv):
        raise V("ep: a GLV constant of %s does not fit RLC_FP_DIGS digits (bn_rec_glv multiplies that many)" % E.name)
    half = (nbits + 1) // 2
    if max(abs(x) for x in (a1, b1, a2, b2)).bit_length() > half + 2:
        raise V("ep: GLV basis of %s is not short (%d-bit entry for a %d-bit order)" % (
            E.name, max(abs(x) for x in (a1, b1, a2, b2)).bit_length(), nbits), v1=v.v1, v2=v.v2)
    sh = 1 << (nbits + 1)
    # rounding constants: v1[0] ~ 2^(bits+1) * b2 / det, v2[0] ~ -2^(bits+1) * b1 / det (Babai round-off, GLV 2001)
    if abs(v.v1[0] * det - b2 * sh) > 2 * abs(det) or abs(v.v2[0] * det + b1 * sh) > 2 * abs(det):
        raise V("ep: GLV rounding constants v1[0], v2[0] of %s are not round(2^(bits+1) * b2/det), "
                "-round(2^(bits+1) * b1/det)" % E.name, v1=v.v1, v2=v.v2, det=det)
    return True, ["ep:glv:det=%sr" % ("+" if det > 0 else "-")]


def glv_split(v, k):
    """bn_rec_glv's arithmetic in exact integers (round half up on the magnitude, signs carried separately)"""
    nbits = v.r.bit_length()

    def rnd(x, c):
        m = abs(x * c)
        q = (m >> nbits)
        q = (q >> 1) + (q & 1)
        return q if (x * c) >= 0 else -q
    c1 = rnd(k, v.v1[0])
    c2 = rnd(k, v.v2[0])
    k0 = k - c1 * v.v1[1] - c2 * v.v2[1]
    k1 = -c1 * v.v1[2] - c2 * v.v2[2]
    return k0, k1


def ep_glv_split(ctx, E, case):
    v = ep_view(E)
    if not E.is_endom or v.lam is None:
        raise Unsupported()
    k = case["k"] % v.r
    k0, k1 = glv_split(v, k)
    if (k0 + k1 * v.lam - k) % v.r != 0:
        raise V("ep: GLV decomposition with the published constants of %s is not congruent to k" % E.name, k=k,
                k0=k0, k1=k1)
    half = (v.r.bit_length() + 1) // 2
    if max(abs(k0), abs(k1)).bit_length() > half + 1:
        raise V("ep: GLV decomposition with the published constants of %s is not short: %d bits for a %d-bit order" % (
            E.name, max(abs(k0), abs(k1)).bit_length(), v.r.bit_length()), k=k, k0=k0, k1=k1)
    return k > 1, ["glv:signs=%s%s" % ("-" if k0 < 0 else "+", "-" if k1 < 0 else "+")]


def mat_scalar(src, E):
    v = ep_view(E)
    r = v.r
    j = src.u(0, 7)
    if j == 0:
        k = src.pick([0, 1, 2, r - 1, r - 2, (r - 1) // 2, (r + 1) // 2, 1 << (r.bit_length() - 1), (v.lam or 3),
                      r - (v.lam or 3)])
    else:
        k = src.u(0, r - 1)
    return dict(k=k)


def ep_point(E, case):
    v = ep_view(E)
    P, tries = lift(v.E, case["x"] % v.p, case.get("flip", 0))
    return v, P


def mat_point(src, E):
    v = ep_view(E)
    return dict(x=src.u(0, v.p - 1), flip=src.u(0, 1))


def ep_cofactor(ctx, E, case):
    """[h*r]P = O for a random curve point: together with the Hasse interval this pins #E = h*r"""
    v, P = ep_point(E, case)
    R = v.E.mul(v.r, P)
    insub = R is None
    if v.E.mul(v.h, R) is not None:
        raise V("ep: [h*r]P != O for a point of %s: h*r is not the curve order" % E.name, x=P[0], y=P[1], h=v.h, r=v.r)
    return True, ["point:%s" % ("in-subgroup" if insub else "outside-subgroup")]


def ep_run(ctx, E, build, poison=0xA5):
    p = Prog(poison=poison)
    p.call("ep_param_set", E.id)
    meta = build(p)
    res = ctx["env"].runner(ctx["cfg"]).run(p)
    if res.failed_new:
        raise Unsupported()
    res.calls = res.calls[1:]
    return res, meta


def enc_ep(E, P, x=None):
    F = E.F
    if P is None:
        vals, coord = (0, 0, 0), E.BASIC
    else:
        vals, coord = (P[0], P[1], 1), E.BASIC
    body = b"".join(F.to_raw_int(t).to_bytes(F.nbytes, "little") for t in vals) + bytes([coord])
    return struct.pack("<I", len(body)) + body


def dec_ep(E, blob, what):
    from engine import ecctx
    c = Rec()
    c.F = E.F
    c.BASIC = E.BASIC
    inf = getattr(E, "_inf_ep", None)
    c.PROJC, c.JACOB = E.coords[1], E.coords[2]
    return ecctx.dec_point(c, blob, what)[0]


def _coords(ctx, E):
    if getattr(E, "coords", None) is None:
        inf = ctx["env"].runner(ctx["cfg"]).info("info_ep")
        E.coords = (inf[0], inf[1], inf[2])


def ep_mul_cof(ctx, E, case):
    """the cofactor-clearing map takes curve points into the order-r subgroup (and is [h] where the source says so)"""
    v, P = ep_point(E, case)
    _coords(ctx, E)
    alias = case.get("alias", 0)
    # a stale output that is NOT a curve point, so that an unwritten result cannot pass
    stale = (1, 1)
    while v.E.on_curve(stale):
        stale = (stale[0] + 1, 1)

    def build(p):
        sp = p.new("EP", enc_ep(E, P))
        so = sp if alias else p.new("EP", enc_ep(E, stale))
        p.call("ep_mul_cof", so, sp)
        p.dump(so)
        return so, sp
    res, (so, sp) = ep_run(ctx, E, build, case.get("poison", 0xA5))
    c = res.calls[0]
    if c.unsupported:
        raise Unsupported()
    if c.ub:
        raise V("UB in ep_mul_cof: %s" % c.ub, ub=c.ub)
    if c.errored:
        raise V("ep_mul_cof reported an error for a curve point of %s" % E.name, x=P[0], y=P[1])
    Q = dec_ep(E, res.dumps[so], "ep_mul_cof result")
    if not alias and sp in c.changed:
        raise V("ep_mul_cof modified its input")
    if Q is not None and not v.E.on_curve(Q):
        raise V("ep: ep_mul_cof(R, P) with R != P left R %s for %s" % (
            "unwritten" if Q == stale else "off the curve", E.name), got=list(Q), stale=list(stale), alias=alias,
            cid=E.id, family=E.FAM.get(E.is_pairf, "none"), unwritten=(Q == stale))
    if v.E.mul(v.r, Q) is not None:
        raise V("ep: ep_mul_cof(P) is not in the order-r subgroup of %s" % E.name, x=P[0], y=P[1], got=list(Q))
    fam = E.FAM.get(E.is_pairf) if E.is_pairf else None
    labels = ["mul_cof:%s" % (fam or "by-h"), "mul_cof:alias=%d" % alias]
    if fam is None or v.h == 1:
        want = v.E.mul(v.h, P)
        if Q != want:
            raise V("ep: ep_mul_cof(P) != [h]P on %s" % E.name, x=P[0], y=P[1], got=Q and list(Q), want=want and list(want))
    elif Q is None and v.E.mul(v.h, P) is not None:
        raise V("ep: ep_mul_cof(P) = O although [h]P != O on %s (the map loses the subgroup component)" % E.name,
                x=P[0], y=P[1])
    return True, labels


def mat_point_alias(src, E):
    m = mat_point(src, E)
    m["alias"] = src.u(0, 1)
    m["poison"] = src.u(0, 255)
    return m


def ep_psi(ctx, E, case):
    """psi(P) = [lambda]P on the order-r subgroup, with the library's ep_psi and the published beta"""
    v = ep_view(E)
    if not E.is_endom or v.lam is None:
        raise Unsupported()
    _coords(ctx, E)
    k = case["k"] % v.r or 1
    P = v.E.mul(k, v.G)
    want = v.E.mul(v.lam, P)
    ref_img = (v.beta * P[0] % v.p, P[1]) if v.a == 0 else ((-P[0]) % v.p, v.beta * P[1] % v.p)
    if ref_img != want:
        raise V("ep: (beta*x, y) != [lambda]P on %s" % E.name, k=k)

    def build(p):
        sp = p.new("EP", enc_ep(E, P))
        so = p.new("EP", enc_ep(E, v.G))
        p.call("ep_psi", so, sp)
        p.dump(so)
        return so
    res, so = ep_run(ctx, E, build)
    c = res.calls[0]
    if c.unsupported:
        raise Unsupported()
    if c.ub or c.errored:
        raise V("ep_psi misbehaved (UB / error)", ub=c.ub)
    Q = dec_ep(E, res.dumps[so], "ep_psi result")
    if Q != want:
        raise V("ep: ep_psi(P) != [lambda]P on %s" % E.name, k=k, got=Q and list(Q), want=list(want))
    return k > 1, []


def ep_gen_table(ctx, E, case):
    """the fixed-base table of the generator, DERIVED when the curve is installed (ep_curve_set -> ep_mul_pre), is
    consistent with the generator: ep_mul_gen(k) = [k]G for a full-length k. The relation runs right after
    ep_param_set in a process that has installed other parameter sets before, so a table laid out with the previous
    set's shape (endomorphism / plain) shows up here."""
    v = ep_view(E)
    _coords(ctx, E)
    k = case["k"] % v.r
    if k.bit_length() < v.r.bit_length() - 8:
        k = (v.r - 1 - k) % v.r
    want = v.E.mul(k, v.G)

    def build(p):
        so = p.new("EP", enc_ep(E, v.G))
        p.call("ep_mul_gen", so, p.bn(k))
        p.dump(so)
        return so
    res, so = ep_run(ctx, E, build)
    c = res.calls[0]
    if c.unsupported:
        raise Unsupported()
    if c.ub or c.errored:
        raise V("ep_mul_gen misbehaved (UB / error) right after selecting %s" % E.name, ub=c.ub)
    Q = dec_ep(E, res.dumps[so], "ep_mul_gen result")
    if Q != want:
        raise V("ep: the precomputed generator table of %s is inconsistent with G: ep_mul_gen(k) != [k]G" % E.name, k=k,
                got=Q and list(Q), want=want and list(want))
    return True, []


# ------------------------------------------------------------------------------- hash-to-curve constants (RFC 9380)

def cubic_has_root(K, a, b, z):
    """does g(x) - z = x^3 + a x + (b - z) have a root in K? (x^q mod cubic, then gcd with x^q - x has degree > 0
    iff the cubic has a linear factor; a cubic is reducible iff it has a root)"""
    q = K.p ** getattr(K, "deg", 1)
    c0 = K.sub(b, z)

    def mulmod(u, w):
        # polynomials of degree < 3 as lists [u0, u1, u2]; reduce with x^3 = -a x - c0
        t = [K.zero] * 5
        for i in range(3):
            for j in range(3):
                t[i + j] = K.add(t[i + j], K.mul(u[i], w[j]))
        for d in (4, 3):
            co = t[d]
            t[d] = K.zero
            t[d - 2] = K.sub(t[d - 2], K.mul(co, a))
            t[d - 3] = K.sub(t[d - 3], K.mul(co, c0))
        return t[:3]
    res = [K.one, K.zero, K.zero]
    base = [K.zero, K.one, K.zero]
    for i in range(q.bit_length() - 1, -1, -1):
        res = mulmod(res, res)
        if (q >> i) & 1:
            res = mulmod(res, base)
    # h = x^q - x mod cubic; gcd(h, cubic) non-trivial?
    h = [res[0], K.sub(res[1], K.one), res[2]]
    if all(K.is_zero(t) for t in h):
        return True                      # splits completely
    # Euclid on (cubic, h)
    f = [c0, a, K.zero, K.one]
    g = h[:]

    def trim(u):
        while u and K.is_zero(u[-1]):
            u.pop()
        return u
    f, g = trim(f), trim(g)
    while g:
        # f mod g
        inv = K.inv(g[-1])
        while len(f) >= len(g):
            co = K.mul(f[-1], inv)
            sh = len(f) - len(g)
            for i in range(len(g)):
                f[sh + i] = K.sub(f[sh + i], K.mul(co, g[i]))
            f = trim(f)
            if not f:
                break
        f, g = g, f
    return len(f) > 1


def h2c_check(K, name, a, b, u, c, is_ctmap, iso_ab, want_sqrt_m3):
    """c: list of constants as published; returns labels or raises"""
    labels = []
    three, four = K.from_int(3), K.from_int(4)

    def g_of(A, B, x):
        return K.add(K.add(K.mul(K.mul(x, x), x), K.mul(A, x)), B)
    sswu = is_ctmap or (not K.is_zero(a) and not K.is_zero(b))
    if sswu:
        A, B = iso_ab if is_ctmap else (a, b)
        if K.is_zero(A) or K.is_zero(B):
            raise V("h2c: SSWU needs A*B != 0 on the %s of %s" % ("isogenous curve" if is_ctmap else "curve", name))
        if not K.eq(c[2], A) or not K.eq(c[3], B):
            raise V("h2c: map constants c3, c4 of %s are not the (isogenous) curve's A, B" % name)
        if not K.eq(K.mul(c[0], A), K.neg(B)):
            raise V("h2c: map constant c1 of %s != -B/A" % name, c1=str(c[0]))
        if K.is_zero(u) or k_is_square(K, u):
            raise V("h2c: Z of %s is a square (RFC 9380 6.6.2 criterion 1)" % name, Z=str(u))
        if K.eq(u, K.neg(K.one)):
            raise V("h2c: Z of %s is -1 (criterion 2)" % name)
        x = K.mul(B, K.inv(K.mul(u, A)))
        if not k_is_square(K, g_of(A, B, x)):
            raise V("h2c: g(B/(Z*A)) of %s is not a square (criterion 4)" % name, Z=str(u))
        labels.append("h2c:sswu%s" % ("+isogeny" if is_ctmap else ""))
        labels.append("h2c:criterion3=%s" % ("holds" if not cubic_has_root(K, A, B, u) else "fails(g(x)-Z reducible)"))
    else:
        gu = g_of(a, b, u)
        t = K.add(K.mul(three, K.mul(u, u)), K.mul(four, a))          # 3Z^2 + 4A
        if K.is_zero(gu):
            raise V("h2c: g(Z) = 0 for %s (RFC 9380 6.6.1 criterion 1)" % name)
        if K.is_zero(t):
            raise V("h2c: 3Z^2 + 4A = 0 for %s (criterion 2)" % name)
        m = K.neg(K.mul(gu, t))                                       # -g(Z)(3Z^2+4A): same square class as -(3Z^2+4A)/(4g(Z))
        if not k_is_square(K, m):
            raise V("h2c: -(3Z^2+4A)/(4g(Z)) is not a square for %s (criterion 3)" % name)
        half = K.inv(K.from_int(2))
        gz2 = g_of(a, b, K.neg(K.mul(u, half)))
        if not (k_is_square(K, gu) or k_is_square(K, gz2)):
            raise V("h2c: neither g(Z) nor g(-Z/2) is a square for %s (criterion 4): the SvdW map has inputs with no "
                    "image" % name, Z=str(u))
        if not K.eq(c[0], gu):
            raise V("h2c: c1 of %s != g(Z)" % name)
        if not K.eq(c[1], K.neg(K.mul(u, half))):
            raise V("h2c: c2 of %s != -Z/2" % name)
        if not K.eq(K.mul(c[2], c[2]), m) or k_sgn0(K, c[2]) != 0:
            raise V("h2c: c3 of %s is not the square root of -g(Z)(3Z^2+4A) with sgn0 = 0" % name, c3=str(c[2]))
        if not K.eq(K.mul(c[3], t), K.neg(K.mul(four, gu))):
            raise V("h2c: c4 of %s != -4g(Z)/(3Z^2+4A)" % name)
        labels.append("h2c:svdw")
    if want_sqrt_m3:
        if not K.eq(K.mul(c[4], c[4]), K.neg(three)):
            raise V("h2c: stored sqrt(-3) of %s does not square to -3" % name, got=str(c[4]))
        labels.append("h2c:sqrt(-3)")
    return labels


def ep_iso(E):
    """(A', B', xn, xd, yn, yd) of the isogenous curve, coefficient lists constant term first"""
    F = E.F
    b = E.blobs
    A, B = fvals(F, b[16] + b[17], "isogeny curve")
    out = [A, B]
    for i, blob in enumerate(b[18:22]):
        deg = E.iso_deg[i]
        if not (0 <= deg < 16):
            raise V("ep: isogeny polynomial degree out of range", deg=deg)
        out.append(fvals(F, blob[:(deg + 1) * F.nbytes], "isogeny coefficients"))
    return out


def ep_h2c(ctx, E, case):
    v = ep_view(E)
    K = v.K
    c = fvals(E.F, v.map_c_blob[:5 * E.F.nbytes], "map constants")
    iso_ab = None
    if E.is_ctmap:
        if not E.has_ctmap:
            raise V("ep: curve flagged ctmap in a build without EP_CTMAP")
        iso = ep_iso(E)
        iso_ab = (iso[0], iso[1])
        if (4 * pow(iso[0], 3, v.p) + 27 * iso[1] ** 2) % v.p == 0:
            raise V("ep: isogenous curve of %s is singular" % E.name)
    ctx_opt = E.OPT
    want_m3 = (not E.is_super) and (v.a == 0 or v.b == 0)
    if want_m3 and v.p % 3 != 1:
        # -3 is a non-residue: ep_curve_set_map throws in that case, so a selectable curve cannot get here
        raise V("ep: %s needs sqrt(-3) for SwiftEC but -3 is a non-residue" % E.name)
    return True, h2c_check(K, E.name, v.a, v.b, v.map_u, c, bool(E.is_ctmap), iso_ab, want_m3)


def iso_apply(K, iso, P):
    A, B, xn, xd, yn, yd = iso
    x, y = P
    dx = poly_eval(K, xd, x)
    dy = poly_eval(K, yd, x)
    if K.is_zero(dx) or K.is_zero(dy):
        return None                       # kernel point
    X = K.mul(poly_eval(K, xn, x), K.inv(dx))
    Y = K.mul(y, K.mul(poly_eval(K, yn, x), K.inv(dy)))
    return (X, Y)


def iso_check(K, name, E, Eiso, iso, x1, x2, flip):
    P, _ = lift(Eiso, x1, flip)
    Q, _ = lift(Eiso, x2, 0)
    iP, iQ = iso_apply(K, iso, P), iso_apply(K, iso, Q)
    for nm, T in (("P", iP), ("Q", iQ)):
        if T is not None and not E.on_curve(T):
            raise V("h2c: the isogeny map of %s takes a point of the isogenous curve off the target curve" % name,
                    x=str(P[0] if nm == "P" else Q[0]))
    S = Eiso.add(P, Q)
    iS = iso_apply(K, iso, S) if S is not None else None
    if not E.eq(iS, E.add(iP, iQ)):
        raise V("h2c: the isogeny map of %s is not a homomorphism: phi(P+Q) != phi(P)+phi(Q)" % name,
                xP=str(P[0]), xQ=str(Q[0]))
    return iP is not None and iQ is not None


def ep_iso_map(ctx, E, case):
    v = ep_view(E)
    if not E.is_ctmap:
        raise Unsupported()
    iso = ep_iso(E)
    Eiso = rec.Curve(v.K, iso[0], iso[1])
    nt = iso_check(v.K, E.name, v.E, Eiso, iso, case["x"] % v.p, case["x2"] % v.p, case.get("flip", 0))
    return nt, ["iso:deg-xn=%d" % E.iso_deg[0]]


def mat_two_points(src, E):
    v = ep_view(E)
    return dict(x=src.u(0, v.p - 1), x2=src.u(0, v.p - 1), flip=src.u(0, 1))


def _endo_only(E):
    return bool(E.is_endom)


EP_RELS = [
    ("field-nonsingular", ep_field, None, None), ("opt-tags", ep_opt, None, None), ("generator-on-curve", ep_gen, None, None),
    ("order-prime-kills-G", ep_order, None, None), ("hasse-cm", ep_hasse, None, None),
    ("family-polynomials", ep_family, None, None), ("embedding-degree", ep_embed, None, None),
    ("security-level", ep_level, None, None), ("beta-lambda", ep_endo, None, None), ("glv-lattice", ep_glv, None, None),
    ("h2c-constants", ep_h2c, None, None), ("accessors", ep_accessors, None, None),
    ("advertised-after-other-kind", ep_advertised_after, None, None),
    ("curve-order", ep_cofactor, mat_point, None), ("cofactor-map", ep_mul_cof, mat_point_alias, None),
    ("psi-eigenvalue", ep_psi, mat_scalar, _endo_only), ("glv-split", ep_glv_split, mat_scalar, _endo_only),
    ("generator-table", ep_gen_table, mat_scalar, None),
    ("isogeny-map", ep_iso_map, mat_two_points, lambda E: bool(E.is_ctmap)),
]


# --------------------------------------------------------------------------------------- PC (twist over Fp2) relations

def pairs(lst):
    return [tuple(lst[i:i + 2]) for i in range(0, len(lst), 2)]


def pc_view(T):
    if getattr(T, "_v", None) is not None:
        return T._v
    E = T.base
    F = E.F
    ev = ep_view(E)
    v = Rec()
    v.ev = ev
    v.p = F.p
    if E.fp.qnr == 0:
        raise Unsupported()
    v.xi = tuple(fvals(F, T.fp.blobs[0], "fp2_mul_nor(1)"))
    v.T = rext.build_tower(F.p, E.fp.qnr, None, v.xi)
    v.F2 = v.T[2]
    b = T.blobs
    v.a2, v.b2 = pairs(fvals(F, b[0] + b[1], "twist coefficients"))
    v.gx, v.gy, v.gz = pairs(fvals(F, b[2] + b[3] + b[4], "twist generator"))
    v.r, v.h2 = dec_bn(b[5]), dec_bn(b[6])
    v.map_u = pairs(fvals(F, b[7], "ep2 map_u"))[0]
    v.map_c = pairs(fvals(F, b[8], "ep2 map_c"))
    v.frb = pairs(fvals(F, b[9], "ep2 frb"))
    v.E2 = rec.Curve(v.F2, v.a2, v.b2)
    v.G2 = (v.gx, v.gy)
    # which twist type do a', b' denote?
    F2 = v.F2
    bb = F2.from_int(ev.b)
    v.kind = None
    if ev.a == 0 and F2.is_zero(v.a2):
        if F2.eq(F2.mul(v.b2, v.xi), bb):
            v.kind = "D"
        elif F2.eq(v.b2, F2.mul(bb, v.xi)):
            v.kind = "M"
    T._v = v
    return v


def pc_consistent(T):
    """is this (curve, declared type) the combination the tables denote?"""
    try:
        v = pc_view(T)
    except (Violation, Unsupported):
        return True
    if v.ev.a != 0:
        return True                      # not a sextic twist: nothing to compare the type with
    return v.kind == ("D" if T.ttype == T.DTYPE else "M")


def pc_view_safe(T):
    try:
        return pc_view(T)
    except Exception:
        return None


def pc_tower(ctx, T, case):
    v = pc_view(T)
    F2 = v.F2
    if not F2.irreducible():
        raise V("pc: i^2 = qnr does not define a field for %s" % T.name, qnr=T.base.fp.qnr)
    q = v.p * v.p
    k = T.base.embed
    sq = F2.eq(F2.pow(v.xi, (q - 1) // 2), F2.one)
    # towers of 2-power degree (k = 8, 16) only adjoin square roots; k = 12, 24, 48 also need a cube root of xi
    cb = k % 3 == 0 and (q - 1) % 3 == 0 and F2.eq(F2.pow(v.xi, (q - 1) // 3), F2.one)
    if sq or cb:
        raise V("pc: xi = %s is a %s in Fp2: the degree-%d tower over Fp2[xi] is not a field for %s" % (
            list(v.xi), "square" if sq else "cube", k, T.name), xi=list(v.xi))
    return True, ["pc:xi=%d+%di" % (v.xi[0] if v.xi[0] < (1 << 31) else -1, v.xi[1])]


def pc_twist_b(ctx, T, case):
    v = pc_view(T)
    labels = ["pc:twist-tables=%s" % v.kind]
    if v.ev.a != 0:
        return False, ["pc:twist=not-sextic"]
    if v.kind is None:
        raise V("pc: twist coefficients of %s are neither b/xi (D-type) nor b*xi (M-type)" % T.base.name,
                b2=list(v.b2), a2=list(v.a2), b=v.ev.b, xi=list(v.xi))
    declared = "D" if T.ttype == T.DTYPE else "M"
    if T.is_twist != T.ttype:
        raise V("pc: ep2_curve_is_twist() does not return the type that was set", got=T.is_twist, want=T.ttype)
    dflt = T.declared
    if dflt is not None and dflt[0] == T.base.id:
        # the type ep_param_set_any_pairf() declares for its curve must be the one the tables denote
        dk = "D" if dflt[1] == T.DTYPE else "M"
        if dk != v.kind:
            raise V("pc: ep_param_set_any_pairf() declares a %s-type twist for %s but b' = b%sxi" % (
                dk, T.base.name, "/" if v.kind == "D" else "*"), declared=dk, tables=v.kind)
        labels.append("pc:default-set=%s/%s" % (T.base.name, dk))
    if declared != v.kind:
        return False, labels + ["pc:mismatched-type-request"]
    return True, labels


def pc_g2(ctx, T, case):
    v = pc_view(T)
    F2 = v.F2
    if v.gz != F2.one:
        raise V("pc: stored G2 generator of %s is not normalised" % T.name)
    if not v.E2.on_curve(v.G2):
        raise V("pc: G2 generator of %s is not on the twist" % T.name, x=list(v.gx), y=list(v.gy), b2=list(v.b2))
    if v.r != v.ev.r:
        raise V("pc: order stored with the twist differs from the base curve's order", r2=v.r, r=v.ev.r)
    if not isprime(v.r) or v.E2.mul(v.r, v.G2) is not None:
        raise V("pc: [r]G2 != O on %s" % T.name, r=v.r)
    return True, []


def twist_orders(ev):
    """candidate orders of the degree-6 twists of E over Fp2 (Hess-Smart-Vercauteren 2006, prop. 2)"""
    p = ev.p
    t = p + 1 - ev.h * ev.r
    d = 4 * p - t * t
    if d < 0:
        return None                      # the base curve's h*r is outside the Hasse interval (reported there)
    f = isqrt(d // 3)
    if d % 3 or f * f != d // 3:
        return None
    t2 = t * t - 2 * p
    f2 = t * f
    q = p * p
    return [q + 1 - (t2 + 3 * f2) // 2, q + 1 - (t2 - 3 * f2) // 2]


def pc_twist_order(ctx, T, case):
    v = pc_view(T)
    n2 = v.h2 * v.r
    q = v.p * v.p
    tt = q + 1 - n2
    if v.h2 < 1 or tt * tt > 4 * q:
        raise V("pc: h'*r of %s is outside the Hasse interval over Fp2" % T.name, h2=v.h2)
    if v.ev.a == 0:
        c = twist_orders(v.ev)
        if c is None:
            raise Unsupported()
        if n2 not in c:
            raise V("pc: h'*r of %s is not the order of a sextic twist of the base curve over Fp2" % T.name, h2=v.h2,
                    r=v.r, candidates=c)
        return True, ["pc:twist-order=cm"]
    return True, ["pc:twist-order=hasse-only"]


def pc_accessors(ctx, T, case):
    """ep2_curve_get_ord / ep2_curve_get_cof must advertise the order and cofactor the twist relations were decided for
    (seed C18-6: the accessor returned the base curve's cofactor for twists while the stored value stayed right)"""
    v = pc_view(T)
    if getattr(T, "acc", None) is None:
        raise Unsupported()
    if T.acc != [v.r, v.h2]:
        raise V("pc: ep2_curve_get_ord / ep2_curve_get_cof of %s do not return the stored order / cofactor of the twist"
                % T.name, accessors=T.acc, stored=[v.r, v.h2])
    return True, []


def pc_frb_consts(ctx, T, case):
    v = pc_view(T)
    if v.ev.a != 0 or v.kind is None:
        return False, ["pc:frb=unused(a != 0)"]
    F2, p = v.F2, v.p
    if (p - 1) % 6:
        raise V("pc: p != 1 mod 6 for a sextic twist")
    w0 = F2.pow(v.xi, (p - 1) // 3)
    w1 = F2.pow(v.xi, (p - 1) // 2)
    if T.ttype == T.MTYPE:
        w0, w1 = F2.inv(w0), F2.inv(w1)
    if v.frb[0] != w0 or v.frb[1] != w1:
        raise V("pc: twist Frobenius constants of %s != xi^(+-(p-1)/3), xi^(+-(p-1)/2)" % T.name,
                got=[list(x) for x in v.frb], want=[list(w0), list(w1)])
    return True, []


def twist_frob(v, P):
    """the p-power Frobenius pulled back to the twist, with the PUBLISHED constants"""
    F2 = v.F2
    conj = lambda z: (z[0], (-z[1]) % v.p)
    return (F2.mul(conj(P[0]), v.frb[0]), F2.mul(conj(P[1]), v.frb[1]))


def pc_frb_eigen(ctx, T, case):
    v = pc_view(T)
    if v.ev.a != 0 or not pc_consistent(T):
        raise Unsupported()
    k = case.get("k", 1) % v.r or 1
    Q = v.E2.mul(k, v.G2)
    img = twist_frob(v, Q)
    want = v.E2.mul(v.p % v.r, Q)
    if not v.E2.eq(img, want):
        raise V("pc: the twisted Frobenius with the published constants is not [p] on G2 of %s" % T.name, k=k)
    # and the library's ep2_frb agrees
    F = T.base.F

    def enc2(P):
        body = b"".join(F.to_raw_int(t).to_bytes(F.nbytes, "little") for t in (P[0][0], P[0][1], P[1][0], P[1][1], 1, 0))
        body += bytes([T.base.BASIC])
        return bytes([2]) + struct.pack("<I", len(body)) + body
    p = Prog()
    p.call("ep_param_set", T.base.id)
    p.call("ep2_curve_set_twist", T.ttype)
    sq = p.new("EP2", enc2(Q))
    so = p.new("EP2", enc2(v.G2))
    p.call("ep2_frb", so, sq, 1)
    p.call("ep2_norm", so, so)
    p.dump(so)
    res = ctx["env"].runner(ctx["cfg"]).run(p)
    c = res.calls[2]
    if c.unsupported or res.failed_new:
        raise Unsupported()
    if c.ub or c.errored:
        raise V("ep2_frb misbehaved", ub=c.ub)
    vals = fvals(F, res.dumps[so][:6 * F.nbytes], "ep2_frb result")
    got = ((vals[0], vals[1]), (vals[2], vals[3]))
    if (vals[4], vals[5]) != (1, 0) or not v.E2.eq(got, want):
        raise V("pc: ep2_frb(Q) != [p]Q on G2 of %s" % T.name, k=k)
    return True, []


def pc_gt(ctx, T, case):
    """ctx->gt_g = e(G1, G2) and has order r (k = 12 sets only)"""
    v = pc_view(T)
    if T.k_pc != 12 or T.base.embed != 12 or not pc_consistent(T):
        raise Unsupported()
    F = T.base.F
    nb = F.nbytes
    p = Prog()
    p.call("ep_param_set", T.base.id)
    p.call("ep2_curve_set_twist", T.ttype)
    sgt = p.new("FPX", bytes([12]) + struct.pack("<I", 12 * nb) + bytes(12 * nb))
    sg1 = p.new("EP", enc_ep(T.base, v.ev.G))
    body = b"".join(F.to_raw_int(t).to_bytes(nb, "little") for t in (v.gx[0], v.gx[1], v.gy[0], v.gy[1], 1, 0))
    sg2 = p.new("EP2", bytes([2]) + struct.pack("<I", len(body) + 1) + body + bytes([T.base.BASIC]))
    se = p.new("FPX", bytes([12]) + struct.pack("<I", 12 * nb) + bytes(12 * nb))
    p.call("gt_get_gen", sgt)
    p.call("pc_map", se, sg1, sg2)
    p.dump(sgt)
    p.dump(se)
    res = ctx["env"].runner(ctx["cfg"]).run(p)
    if res.failed_new or res.calls[2].unsupported or res.calls[3].unsupported:
        raise Unsupported()
    for c in res.calls[2:]:
        if c.ub or c.errored:
            raise V("gt_get_gen / pc_map misbehaved", ub=c.ub)
    if res.dumps[sgt] != res.dumps[se]:
        raise V("pc: stored GT generator of %s != e(G1, G2)" % T.name)
    F12 = v.T[12]
    g = F12.unflatten(fvals(F, res.dumps[sgt], "gt generator"))
    if F12.eq(g, F12.one):
        raise V("pc: e(G1, G2) = 1 for %s (degenerate)" % T.name)
    if not F12.eq(F12.pow(g, v.r), F12.one):
        raise V("pc: GT generator of %s does not have order r" % T.name)
    return True, []


def pc_twist_point(ctx, T, case):
    """[h'*r]P = O for a random point of the twist; ep2_mul_cof(P) lands in G2"""
    v = pc_view(T)
    F2 = v.F2
    x = (case["x0"] % v.p, case["x1"] % v.p)
    P, _ = lift(v.E2, x, case.get("flip", 0))
    R = v.E2.mul(v.r, P)
    if v.E2.mul(v.h2, R) is not None:
        raise V("pc: [h'*r]P != O for a point of the twist %s: h'*r is not the order of E'(Fp2)" % T.name,
                x=list(P[0]), h2=v.h2)
    labels = ["point2:%s" % ("in-G2" if R is None else "outside-G2")]
    if case.get("cof") and pc_consistent(T):
        F = T.base.F
        nb = F.nbytes
        p = Prog()
        p.call("ep_param_set", T.base.id)
        p.call("ep2_curve_set_twist", T.ttype)
        body = b"".join(F.to_raw_int(t).to_bytes(nb, "little") for t in (P[0][0], P[0][1], P[1][0], P[1][1], 1, 0))
        sp = p.new("EP2", bytes([2]) + struct.pack("<I", len(body) + 1) + body + bytes([T.base.BASIC]))
        p.call("ep2_mul_cof", sp, sp)
        p.call("ep2_norm", sp, sp)
        p.dump(sp)
        res = ctx["env"].runner(ctx["cfg"]).run(p)
        c = res.calls[2]
        if c.unsupported or res.failed_new:
            return True, labels
        if c.ub or c.errored:
            raise V("ep2_mul_cof misbehaved on a twist point of %s" % T.name, ub=c.ub, x=list(P[0]))
        vals = fvals(F, res.dumps[sp][:6 * nb], "ep2_mul_cof result")
        if (vals[4], vals[5]) == (0, 0):
            Q = None
        else:
            Q = ((vals[0], vals[1]), (vals[2], vals[3]))
        if Q is not None and (not v.E2.on_curve(Q) or v.E2.mul(v.r, Q) is not None):
            raise V("pc: ep2_mul_cof(P) is not in G2 of %s" % T.name, x=list(P[0]))
        if Q is None and v.E2.mul(v.h2, P) is not None:
            raise V("pc: ep2_mul_cof(P) = O although [h']P != O on %s" % T.name, x=list(P[0]))
        labels.append("mul_cof2:checked")
    return True, labels


def mat_twist_point(src, T):
    p = T.base.F.p
    return dict(x0=src.u(0, p - 1), x1=src.u(0, p - 1), flip=src.u(0, 1), cof=src.u(0, 1))


def mat_k_pc(src, T):
    v = pc_view(T)
    return dict(k=src.u(1, v.r - 1))


def ep2_iso(T):
    F = T.base.F
    b = T.blobs
    A, B = pairs(fvals(F, b[10] + b[11], "ep2 isogeny curve"))
    out = [A, B]
    for i, blob in enumerate(b[12:16]):
        deg = T.iso_deg[i]
        if not (0 <= deg < 16):
            raise V("pc: isogeny polynomial degree out of range", deg=deg)
        out.append(pairs(fvals(F, blob[:(deg + 1) * 2 * F.nbytes], "ep2 isogeny coefficients")))
    return out


def pc_h2c(ctx, T, case):
    v = pc_view(T)
    if not pc_consistent(T):
        raise Unsupported()
    iso_ab = None
    if T.is_ctmap:
        iso = ep2_iso(T)
        iso_ab = (iso[0], iso[1])
    return True, h2c_check(v.F2, T.name, v.a2, v.b2, v.map_u, v.map_c, bool(T.is_ctmap), iso_ab, False)


def pc_iso_map(ctx, T, case):
    v = pc_view(T)
    if not T.is_ctmap or not pc_consistent(T):
        raise Unsupported()
    iso = ep2_iso(T)
    Eiso = rec.Curve(v.F2, iso[0], iso[1])
    p = v.p
    nt = iso_check(v.F2, T.name, v.E2, Eiso, iso, (case["x0"] % p, case["x1"] % p), (case["y0"] % p, case["y1"] % p),
                   case.get("flip", 0))
    return nt, []


def mat_two_twist_points(src, T):
    p = T.base.F.p
    return dict(x0=src.u(0, p - 1), x1=src.u(0, p - 1), y0=src.u(0, p - 1), y1=src.u(0, p - 1), flip=src.u(0, 1))


PC_RELS = [
    ("tower-field", pc_tower, None, None), ("twist-coefficients", pc_twist_b, None, None),
    ("G2-on-twist-order-r", pc_g2, None, None), ("twist-order-cm", pc_twist_order, None, None),
    ("accessors", pc_accessors, None, None),
    ("frobenius-constants", pc_frb_consts, None, None), ("gt-generator", pc_gt, None, lambda T: T.k_pc == 12 and T.base.embed == 12 and pc_consistent(T)),
    ("h2c-constants", pc_h2c, None, pc_consistent),
    ("twist-order-point", pc_twist_point, mat_twist_point, None),
    ("frobenius-eigenvalue", pc_frb_eigen, mat_k_pc, lambda T: pc_consistent(T) and pc_view_safe(T) is not None and pc_view_safe(T).ev.a == 0),
    ("isogeny-map", pc_iso_map, mat_two_twist_points, lambda T: bool(T.is_ctmap) and pc_consistent(T)),
]


# ---------------------------------------------------------------------------------------------------- FB relations

def fb_field(B):
    if getattr(B, "_K", None) is None:
        B._K = rbin.GF2m(B.f)
    return B._K


def _fb_ok(B):
    if B.refused is not None:
        raise V("fb: the build refuses %s although its degree is FB_POLYN" % B.name, error=list(B.refused), fid=B.id)


def fb_irreducible(ctx, B, case):
    _fb_ok(B)
    if rbin.pdeg(B.f) != B.m or B.g_id != B.id:
        raise V("fb: polynomial of %s has degree %d in a %d-bit build" % (B.name, rbin.pdeg(B.f), B.m), f=B.f)
    if not rbin.irreducible(B.f) or not rbin.irreducible_benor(B.f):
        raise V("fb: polynomial of %s is reducible" % B.name, f=B.f)
    return True, ["fb:weight=%d" % bin(B.f).count("1")]


def fb_rdc(ctx, B, case):
    _fb_ok(B)
    a, b, c = B.pabc
    f = (1 << B.m) | 1
    terms = [a] if b == 0 and c == 0 else [a, b, c]
    for e in terms:
        f ^= 1 << e
    if f != B.f or not all(0 < e < B.m for e in terms) or B.g_rdc != B.pabc:
        raise V("fb: reduction exponents of %s do not describe the polynomial" % B.name, pabc=B.pabc, f=B.f)
    want_n = [e >> (B.W.bit_length() - 1) for e in terms] + [-1] * (3 - len(terms))
    if B.nabc != want_n:
        raise V("fb: digit positions of the middle terms of %s wrong" % B.name, got=B.nabc, want=want_n)
    return True, ["fb:%s" % ("trinomial" if len(terms) == 1 else "pentanomial")]


def fb_trace(ctx, B, case):
    _fb_ok(B)
    K = fb_field(B)
    ones = [i for i in range(B.m) if K.trace(1 << i) == 1]
    got = [t for t in B.tabc if t >= 0]
    if got != ones or B.g_trc != B.tabc:
        raise V("fb: trace positions of %s wrong" % B.name, got=B.tabc, want=ones)
    return True, ["fb:trace-terms=%d" % len(ones)]


def fb_srz(ctx, B, case):
    _fb_ok(B)
    K = fb_field(B)
    if K.sqr(B.srz) != 2 or B.srz >> B.m:
        raise V("fb: stored sqrt(z) of %s does not square to z" % B.name, got=B.srz)
    if B.tab_srz is not None:
        for i in range(256):
            e = int.from_bytes(B.tab_srz[i * B.nb:(i + 1) * B.nb], "little")
            if e != K.red(rbin.pmul(B.srz, i)):
                raise V("fb: sqrt(z) multiplication table entry %d of %s wrong" % (i, B.name), got=e)
    return True, []


def fb_half_entry(B, l, j):
    K = fb_field(B)
    c = 0
    for k in range(4):
        if j & (1 << k):
            c |= 1 << (8 * l + 2 * k + 1)
    off = (l * 16 + j) * B.nb
    return c, int.from_bytes(B.half[off:off + B.nb], "little")


def fb_half(ctx, B, case):
    """every entry h of the half-trace table solves h^2 + h = c + Tr(c) for its argument c"""
    _fb_ok(B)
    if B.m % 2 == 0:
        return False, ["fb:half-trace=none(even degree)"]
    K = fb_field(B)
    rows = (B.m + 7) // 8
    for l in range(rows):
        for j in range(16):
            c, h = fb_half_entry(B, l, j)
            if c >> B.m:
                continue                   # argument has bits beyond the field: never addressed
            if h >> B.m or K.sqr(h) ^ h != c ^ K.trace(c):
                raise V("fb: half-trace table entry [%d][%d] of %s does not solve its quadratic" % (l, j, B.name),
                        c=c, got=h)
    return True, ["fb:half-rows=%d" % rows]


def fb_half_exact(ctx, B, case):
    _fb_ok(B)
    if B.m % 2 == 0:
        raise Unsupported()
    K = fb_field(B)
    rows = (B.m + 7) // 8
    l, j = case["l"] % rows, case["j"] % 16
    c, h = fb_half_entry(B, l, j)
    if c >> B.m:
        raise Unsupported()
    want = K.half_trace(c)
    if h != want:
        raise V("fb: half-trace table entry [%d][%d] of %s is not the half-trace of its argument" % (l, j, B.name),
                c=c, got=h, want=want)
    return j != 0, []


def mat_half(src, B):
    # rows that lie completely inside the field (the last partial row is covered by the table-wide relation)
    return dict(l=src.u(0, max(0, (B.m - 8) // 8)) if B.refused is None else 0, j=src.u(1, 15))


def fb_chain(ctx, B, case):
    _fb_ok(B)
    n = B.chain_len
    if not (0 < n <= ctx["terms"]):
        raise V("fb: addition chain length of %s out of range" % B.name, len=n)
    u = [1, 2]
    for i in range(2, n + 1):
        x = B.chain[i - 1] >> 8
        y = B.chain[i - 1] - (x << 8)
        if not (0 <= x < i and 0 <= y < i):
            raise V("fb: addition chain of %s refers to a later element" % B.name, chain=B.chain[:n + 1])
        u.append(2 * u[i - 1] if x == y else u[x] + u[y])
    if u[n] != B.m - 1:
        raise V("fb: Itoh-Tsujii addition chain of %s ends at %d, not at m - 1 = %d" % (B.name, u[n], B.m - 1),
                chain=B.chain[:n + 1], values=u)
    return True, ["fb:chain-len=%d" % n]


FB_RELS = [
    ("irreducible", fb_irreducible, None, None), ("reduction-terms", fb_rdc, None, None),
    ("trace-positions", fb_trace, None, None), ("sqrt-z", fb_srz, None, None), ("half-trace-table", fb_half, None, None),
    ("itoh-tsujii-chain", fb_chain, None, None), ("half-trace-entry", fb_half_exact, mat_half, lambda B: B.refused is None and B.m % 2 == 1),
]


# ---------------------------------------------------------------------------------------------------- EB relations

def eb_view(C):
    if getattr(C, "_v", None) is None:
        v = Rec()
        v.K = rbin.GF2m(C.f)
        v.E = rbin.BinCurve(v.K, C.a, C.b)
        v.G = (C.gx, C.gy)
        C._v = v
    return C._v


def eb_field(ctx, C, case):
    if rbin.pdeg(C.f) != C.m or not rbin.irreducible(C.f):
        raise V("eb: %s installs a reducible / wrong-degree polynomial" % C.name, f=C.f)
    if C.b == 0 or (C.a >> C.m) or (C.b >> C.m):
        raise V("eb: %s is singular (b = 0) or has unreduced coefficients" % C.name, a=C.a, b=C.b)
    if C.eb_id != C.id or C.g_id != C.id:
        raise V("eb: eb_param_get() != selected identifier")
    return True, ["eb:field=%s" % _nm(FB_NAMES, C.fb_id, "FB#")]


def eb_gen(ctx, C, case):
    v = eb_view(C)
    if C.gz != 1:
        raise V("eb: stored generator of %s not normalised" % C.name)
    if not v.E.on_curve(v.G):
        raise V("eb: generator of %s is not on the curve" % C.name, x=C.gx, y=C.gy)
    return True, []


def eb_order(ctx, C, case):
    v = eb_view(C)
    if C.r <= 1 or not isprime(C.r):
        raise V("eb: group order of %s is not prime" % C.name, r=C.r)
    if v.E.mul(C.r, v.G) is not None:
        raise V("eb: [n]G != O for %s" % C.name, r=C.r)
    q = 1 << C.m
    t = q + 1 - C.h * C.r
    if C.h < 1 or t * t > 4 * q:
        raise V("eb: h*n of %s is outside the Hasse interval" % C.name, h=C.h, r=C.r)
    # #E(GF(2^m)) is even; = 0 mod 4 iff Tr(a) = 0 (Hankerson-Menezes-Vanstone, 3.2.3)
    tr = v.K.trace(C.a)
    if (C.h * C.r) % 2 or ((C.h * C.r) % 4 == 0) != (tr == 0):
        raise V("eb: h*n of %s contradicts Tr(a) (the order is 0 mod 4 iff Tr(a) = 0)" % C.name, h=C.h, tr=tr)
    return True, ["eb:h=%d" % C.h]


def eb_koblitz(ctx, C, case):
    if C.is_kbltz != C.g_kbltz:
        raise V("eb: getter disagrees with the context flag")
    if C.is_kbltz and not (C.b == 1 and C.a in (0, 1)):
        raise V("eb: %s flagged Koblitz but a, b are not in GF(2) with b = 1" % C.name, a=C.a, b=C.b)
    if not C.is_kbltz and C.b == 1 and C.a in (0, 1):
        raise V("eb: %s is a Koblitz curve but not flagged" % C.name)
    O = C.OPT

    def tag(x):
        return O["ZERO"] if x == 0 else O["ONE"] if x == 1 else O["TINY"] if x < (1 << C.W) else O["HUGE"]
    if (C.opt_a, C.opt_b) != (tag(C.a), tag(C.b)):
        raise V("eb: coefficient optimisation tags of %s wrong" % C.name, got=[C.opt_a, C.opt_b])
    if C.is_kbltz:
        # trace of Frobenius of E_a over GF(2) is mu = (-1)^(1-a); #E(GF(2^m)) = 2^m + 1 - V_m (Lucas sequence)
        mu = 1 if C.a == 1 else -1
        v0, v1 = 2, mu
        for _ in range(C.m - 1):
            v0, v1 = v1, mu * v1 - 2 * v0
        if C.h * C.r != (1 << C.m) + 1 - v1:
            raise V("eb: h*n of the Koblitz curve %s != 2^m + 1 - V_m" % C.name, h=C.h, r=C.r)
    return True, ["eb:%s" % ("koblitz" if C.is_kbltz else "plain")]


def eb_level(ctx, C, case):
    rho = (C.r.bit_length() + 1) // 2 + 1
    if C.level <= 0 or C.level > rho:
        raise V("eb: eb_param_level() = %d inconsistent with a %d-bit group (%s)" % (C.level, C.r.bit_length(), C.name),
                level=C.level)
    return True, ["eb:level=%d" % C.level]


def eb_cofactor(ctx, C, case):
    v = eb_view(C)
    x = case["x"] & ((1 << C.m) - 1)
    P = None
    for _ in range(200):
        P = v.E.lift_x(x)
        if P is not None:
            break
        x = (x + 1) & ((1 << C.m) - 1)
    if P is None:
        raise Unsupported()
    if case.get("flip"):
        P = v.E.neg(P)
    R = v.E.mul(C.r, P)
    if v.E.mul(C.h, R) is not None:
        raise V("eb: [h*n]P != O for a point of %s: h*n is not the curve order" % C.name, x=P[0], y=P[1])
    return True, ["pointb:%s" % ("in-subgroup" if R is None else "outside-subgroup")]


def mat_bin_point(src, C):
    return dict(x=src.u(0, (1 << C.m) - 1), flip=src.u(0, 1))


EB_RELS = [
    ("field-nonsingular", eb_field, None, None), ("generator-on-curve", eb_gen, None, None),
    ("order-prime-hasse", eb_order, None, None), ("koblitz-opt-tags", eb_koblitz, None, None),
    ("security-level", eb_level, None, None), ("curve-order", eb_cofactor, mat_bin_point, None),
]


# ---------------------------------------------------------------------------------------------------- ED relations

def ed_view(D):
    if getattr(D, "_v", None) is None:
        F = D.F
        b = D.blobs
        v = Rec()
        v.p = F.p
        v.a, v.d = fvals(F, b[0] + b[1], "Edwards coefficients")
        v.gx, v.gy, v.gz = fvals(F, b[2] + b[3] + b[4], "Edwards generator")
        v.c = fvals(F, b[7], "Edwards map constants")
        v.E = redw.Edwards(F.p, v.a, v.d)
        v.G = (v.gx, v.gy)
        D._v = v
    return D._v


def ed_field(ctx, D, case):
    v = ed_view(D)
    if not isprime(v.p) or D.ed_id != D.id or D.g_id != D.id or D.fid != D.fp.fp_id:
        raise V("ed: field / identifier of %s inconsistent" % D.name)
    if v.a == 0 or v.d == 0 or v.a == v.d:
        raise V("ed: %s is singular (a*d*(a-d) = 0)" % D.name, a=v.a, d=v.d)
    if not v.E.complete():
        raise V("ed: addition law on %s is not complete (needs a square, d non-square)" % D.name, a=v.a, d=v.d)
    return True, ["ed:a=%s" % ("-1" if v.a == v.p - 1 else "other")]


def ed_gen(ctx, D, case):
    v = ed_view(D)
    if v.gz != 1:
        raise V("ed: stored generator not normalised")
    if not v.E.on_curve(v.G) or v.G == v.E.O:
        raise V("ed: generator of %s is not on the curve" % D.name, x=v.gx, y=v.gy)
    return True, []


def ed_order(ctx, D, case):
    v = ed_view(D)
    if D.r <= 1 or not isprime(D.r) or v.E.mul(D.r, v.G) != v.E.O:
        raise V("ed: order of %s not prime or [r]G != O" % D.name, r=D.r)
    t = v.p + 1 - D.h * D.r
    if D.h < 1 or t * t > 4 * v.p:
        raise V("ed: h*r of %s outside the Hasse interval" % D.name, h=D.h)
    if D.h % 4:
        raise V("ed: cofactor of a twisted Edwards curve must be a multiple of 4", h=D.h)
    return True, ["ed:h=%d" % D.h]


def ed_level(ctx, D, case):
    rho = (D.r.bit_length() + 1) // 2 + 1
    if D.level <= 0 or D.level > rho:
        raise V("ed: ed_param_level() = %d inconsistent with a %d-bit group" % (D.level, D.r.bit_length()))
    return True, ["ed:level=%d" % D.level]


def ed_map(ctx, D, case):
    """constants of the Elligator map for p = 5 mod 8 (RFC 9380 6.7.1 / 6.8.2, appendix D.1)"""
    v = ed_view(D)
    p, c = v.p, v.c
    if p % 8 != 5:
        raise V("ed: map constants exist only for p = 5 mod 8")
    if c[0] != pow(2, (p + 3) // 8, p):
        raise V("ed: map constant 0 != 2^((p+3)/8)", got=c[0])
    if c[1] * c[1] % p != p - 1:
        raise V("ed: map constant 1 is not sqrt(-1)", got=c[1])
    A = c[3]
    if c[2] * c[2] % p != (-(A + 2)) % p or c[2] % 2 != 0:
        raise V("ed: map constant 2 is not sqrt(-(A+2)) with sgn0 = 0", got=c[2], A=A)
    # birational equivalence Montgomery(A, B = 1) <-> Edwards(a = -1, d): d = -(A-2)/(A+2)
    if v.a != p - 1 or (v.d * (A + 2) + (A - 2)) % p != 0:
        raise V("ed: Montgomery coefficient A of the map does not correspond to (a, d)", A=A, d=v.d)
    return True, ["ed:A=%d" % A]


def ed_cofactor(ctx, D, case):
    v = ed_view(D)
    y = case["y"] % v.p
    P = None
    for _ in range(200):
        P = v.E.lift_y(y)
        if P is not None:
            break
        y = (y + 1) % v.p
    if P is None:
        raise Unsupported()
    if case.get("flip"):
        P = v.E.neg(P)
    R = v.E.mul(D.r, P)
    if v.E.mul(D.h, R) != v.E.O:
        raise V("ed: [h*r]P != O for a point of %s" % D.name, x=P[0], y=P[1])
    o = "in-subgroup" if R == v.E.O else "outside-subgroup"
    return True, ["pointe:%s" % o]


def mat_ed_point(src, D):
    return dict(y=src.u(0, D.F.p - 1), flip=src.u(0, 1))


ED_RELS = [
    ("field-complete", ed_field, None, None), ("generator-on-curve", ed_gen, None, None),
    ("order-prime-hasse", ed_order, None, None), ("security-level", ed_level, None, None),
    ("map-constants", ed_map, None, None), ("curve-order", ed_cofactor, mat_ed_point, None),
]


# ------------------------------------------------------------------------------------------- registry and targets

def _sel_clean(kind):
    def f(ctx, S, case):
        ub = getattr(S, "sel_ub", None)
        if ub:
            raise V("%s: undefined behaviour reported while selecting %s: %s" % (kind, S.name, ub), ub=ub)
        return False, []
    return f


def _pad(rels):
    return [(t + (None,) * 4)[:4] for t in rels]


KINDS = {
    "fp": [("select", _sel_clean("fp"), None, None)] + _pad(FP_RELS),
    "ep": [("select", _sel_clean("ep"), None, None)] + _pad(EP_RELS),
    "pc": [("select", _sel_clean("pc"), None, None)] + _pad(PC_RELS),
    "fb": [("select", _sel_clean("fb"), None, None)] + _pad(FB_RELS),
    "eb": [("select", _sel_clean("eb"), None, None)] + _pad(EB_RELS),
    "ed": [("select", _sel_clean("ed"), None, None)] + _pad(ED_RELS),
}
REL = {(k, name): (fn, mat, app) for k, lst in KINDS.items() for (name, fn, mat, app) in lst}


def applicable(kind, S, name):
    fn, mat, app = REL[(kind, name)]
    if app is None:
        return True
    try:
        return bool(app(S))
    except (Violation, Unsupported):
        return mat is None            # a deterministic relation will report the problem itself


def pairs_of(D, kind):
    det, gen = [], []
    for S in D[kind]:
        for (name, fn, mat, app) in KINDS[kind]:
            if not applicable(kind, S, name):
                continue
            (gen if mat is not None else det).append((S.id, name))
    return det, gen


def mk_ctx(env, cfg):
    D = disc(env, cfg)
    return dict(env=env, cfg=cfg, D=D, terms=D["info"][9])


def run_pair(env, cfg, case):
    kind, ident, name = case["kind"], case["id"], case["rel"]
    if (kind, name) not in REL:
        raise Unsupported()
    ctx = mk_ctx(env, cfg)
    S = rec_of(env, cfg, kind, ident)
    fn, mat, app = REL[(kind, name)]
    if mat is not None and len(case) <= 3:
        case = dict(case)
        case.update(mat(Src(None, ("%s|%s|%s|%s" % (cfg, kind, ident, name)).encode()), S))
    try:
        out = fn(ctx, S, case)
    except Violation as v:
        v.details.setdefault("kind", kind)
        v.details.setdefault("ident", S.name)
        v.details.setdefault("rel", name)
        raise
    except (ArithmeticError, ValueError) as e:
        # the reference cannot even evaluate the relation on the published values (division by a zero constant,
        # square root of a negative discriminant ...): never seen on the unchanged tree, so the values are inconsistent
        raise Violation("%s: relation '%s' cannot be evaluated on the published values of %s: %s: %s" % (
            kind, name, S.name, type(e).__name__, e), kind=kind, ident=S.name, rel=name, exception=repr(e))
    nt, labels = out
    return nt, labels, S


def make_strategy(kind):
    def strat(env, cfg):
        D = disc(env, cfg)
        det, gen = pairs_of(D, kind)
        if not det and not gen:
            raise Unsupported()

        @st.composite
        def s(draw):
            use_gen = bool(gen) and (not det or draw(st.integers(0, 3)) != 0)
            ident, name = draw(st.sampled_from(gen if use_gen else det))
            case = dict(kind=kind, id=ident, rel=name)
            if use_gen:
                S = rec_of(env, cfg, kind, ident)
                try:
                    case.update(REL[(kind, name)][1](Src(draw), S))
                except (Violation, Unsupported):
                    pass                  # the run reports it
            return case
        return s()
    return strat


def make_run(kind):
    def run(env, cfg, case):
        nt, labels, S = run_pair(env, cfg, case)
        return nt, labels + ["rel:%s:%s" % (kind, case["rel"]), "id:%s:%s" % (kind, S.name),
                             "hit:%s:%s:%s" % (kind, S.name, case["rel"])]
    return run


def make_needs(kind):
    def needs(env, cfg):
        try:
            return bool(disc(env, cfg)[kind])
        except (HarnessError, RunnerCrash, Unsupported):
            return False
    return needs


def strat_complete(env, cfg):
    return st.just(dict(kind="all"))


def run_complete(env, cfg, case):
    """every (identifier, relation) pair of this configuration once, with fixed material. Pairs that match a known
    finding are counted and the enumeration continues; the first other violation is raised after the sweep."""
    import sys
    from engine.core import Known
    D = disc(env, cfg)
    known = Known(sys.modules[__name__])
    n = 0
    first = None
    crash = None
    for kind in ("fp", "ep", "pc", "fb", "eb", "ed"):
        det, gen = pairs_of(D, kind)
        todo = det + gen
        env.label("pairs-expected:%s" % cfg, len(todo))
        for ident, name in todo:
            sub = dict(kind=kind, id=ident, rel=name)
            try:
                nt, lb, S = run_pair(env, cfg, sub)
            except Unsupported:
                env.label("pairs-unsupported:%s" % cfg)
                continue
            except RunnerCrash as rc:
                # finish the sweep first; a time-out is load noise, a sanitizer abort is reported at the end
                env.label("pairs-unsupported:%s" % cfg)
                env.label("sweep:%s:%s" % ("timeout" if rc.why == "timeout" else "runner-crash", name))
                if rc.why != "timeout" and crash is None:
                    crash = rc
                continue
            except Violation as v:
                e = known.match("%s-rel" % kind, cfg, sub, v)
                env.label("pair:%s:%s:%s:%s" % (cfg, kind, v.details.get("ident", ident), name))
                if e is not None:
                    env.label("known-finding-in-sweep:%s" % e["id"])
                elif first is None:
                    v.details["pair"] = sub
                    first = v
                n += 1
                continue
            n += 1
            env.label("pair:%s:%s:%s:%s" % (cfg, kind, S.name, name))
            for l in lb:
                if not l.startswith(("point", "glv:", "mul_cof")):
                    env.label("%s[%s]" % (l, S.name))
    # what the enumeration of the identifier ranges found
    for kind, ids in D["rejected"].items():
        env.label("ids-not-selectable:%s:%s" % (cfg, kind), len(ids))
    for kind in ("fp", "ep", "pc", "fb", "eb", "ed"):
        env.label("ids-selectable:%s:%s" % (cfg, kind), len(D[kind]))
    for fid, what in D["foreign"]:
        env.label("fb-foreign:%s:%s" % (cfg, what.split(":")[0]))
    for note in D["notes"]:
        env.label("note:%s:%s" % (cfg, note))
    if first is not None:
        raise first
    if crash is not None:
        raise crash
    if D["missing"]:
        raise Violation("parameter sets of this build's size can no longer be selected (their installation fails): %s" %
                        D["missing"], missing=D["missing"], notes=D["notes"][:6])
    return n > 0, []


def evidence_extra(results):
    import collections
    exp, done, unsup = collections.Counter(), collections.Counter(), collections.Counter()
    sel = {}
    for r in results:
        for k, n in (r["labels"] or {}).items():
            if k.startswith("pairs-expected:"):
                exp[k.split(":", 1)[1]] += n
            elif k.startswith("pairs-unsupported:"):
                unsup[k.split(":", 1)[1]] += n
            elif k.startswith("pair:"):
                done[k.split(":")[1]] += 1
            elif k.startswith("ids-selectable:"):
                _, cfg, kind = k.split(":")
                sel.setdefault(cfg, {})[kind] = n
    return dict(exhaustive_pairs={c: dict(expected=exp[c], executed=done[c], unsupported=unsup[c],
                                          complete=(exp[c] == done[c] + unsup[c])) for c in sorted(exp)},
                selectable_identifiers=sel)


def _cfgs(quick, thorough):
    return {"quick": quick, "thorough": thorough}


_ALL = _cfgs(QUICK_CFGS, THOROUGH_CFGS)
_PRIME = _cfgs(QUICK_CFGS, [c for c in THOROUGH_CFGS if not c.startswith("fb-")])
_BIN = _cfgs(["base256"], ["base256", "fb-163", "fb-233", "fb-409", "fb-571"])
_ED = _cfgs(["p255"], ["p255"])
_PC = _cfgs(["base256", "p381"], [c for c in THOROUGH_CFGS if not c.startswith("fb-") and c not in ("p255", "fp-quick")])

TARGETS = [
    Target("complete", strat_complete, run_complete, _ALL, quick=1, thorough=1),
    Target("fp-rel", make_strategy("fp"), make_run("fp"), _PRIME, quick=1500, thorough=2000, needs=make_needs("fp")),
    Target("ep-rel", make_strategy("ep"), make_run("ep"), _PRIME, quick=5000, thorough=6000, needs=make_needs("ep")),
    Target("pc-rel", make_strategy("pc"), make_run("pc"), _PC, quick=1600, thorough=1500, needs=make_needs("pc")),
    Target("fb-rel", make_strategy("fb"), make_run("fb"), _BIN, quick=200, thorough=300, needs=make_needs("fb")),
    Target("eb-rel", make_strategy("eb"), make_run("eb"), _BIN, quick=700, thorough=800, needs=make_needs("eb")),
    Target("ed-rel", make_strategy("ed"), make_run("ed"), _ED, quick=2000, thorough=8000, needs=make_needs("ed")),
]


def self_test():
    rfp.self_test()
    rec.self_test()
    rext.self_test()
    rbin.self_test()
    redw.self_test()
    # family polynomials against published parameter sets
    x = -(2 ** 63 + 2 ** 62 + 2 ** 60 + 2 ** 57 + 2 ** 48 + 2 ** 16)          # BLS12-381
    p381 = 0x1A0111EA397FE69A4B1BA7B6434BACD764774B84F38512BF6730D2A0F6B0F6241EABFFFEB153FFFFB9FEFFFFFFFFAAAB
    r381 = 0x73EDA753299D7D483339D80809A1D80553BDA402FFFE5BFEFFFFFFFF00000001
    assert _exact(FAMILY["B12"][0](x)) == p381 and FAMILY["B12"][1](x) == r381
    x = -(2 ** 62 + 2 ** 55 + 1)                                              # BN254 (Aranha et al.)
    pbn = 0x2523648240000001BA344D80000000086121000000000013A700000000000013
    rbn = 0x2523648240000001BA344D8000000007FF9F800000000010A10000000000000D
    assert FAMILY["BN"][0](x) == pbn and FAMILY["BN"][1](x) == rbn
    assert pbn + 1 - FAMILY["BN"][3](x) == rbn
    # cubic root detection
    K = rec.PrimeField(103)
    for z in range(10):
        brute = any((t ** 3 + 2 * t + 5 - z) % 103 == 0 for t in range(103))
        assert cubic_has_root(K, 2, 5, z) == brute
    # Rabin agrees with Ben-Or on the polynomials RELIC documents for the NIST sizes
    assert rbin.irreducible((1 << 409) | (1 << 87) | 1) and rbin.irreducible((1 << 571) | (1 << 10) | (1 << 5) | (1 << 2) | 1)
    # GNFS estimate reproduces the SP 800-57 equivalences
    assert 78 <= gnfs_bits(1024) <= 88 and 108 <= gnfs_bits(2048) <= 118 and 124 <= gnfs_bits(3072) <= 140
    # sgn0 of RFC 9380 on Fp2
    T = rext.build_tower(103, -1, None, (1, 1))
    assert k_sgn0(T[2], (0, 1)) == 1 and k_sgn0(T[2], (2, 1)) == 0 and k_sgn0(T[2], (0, 2)) == 0


# ------------------------------------------------------------------------------------------------ known findings
# narrow matchers: (kind, identifier, relation) and the observed wrong answer

def _sub(case, v):
    return v.details.get("pair") or case


def _kf_qnr_getter(case, v, entry):
    c = _sub(case, v)
    return (c.get("kind") == "fp" and c.get("rel") == "fp2-nonresidue" and v.details.get("ident") == "SM9_256" and
            v.details.get("getter") == 4 and v.details.get("mul_nor") == [0, 1] and v.details.get("ctx_qnr2") == 0)


_LEVEL0 = ("BSI_P256", "CURVE_67254", "CURVE_383187", "CURVE_511187", "SG54_P569", "B48_P575", "SG18_P638", "AFG16_P766")


def _kf_level0(case, v, entry):
    c = _sub(case, v)
    return (c.get("kind") == "ep" and c.get("rel") == "security-level" and v.details.get("level") == 0 and
            v.details.get("ident") in _LEVEL0)


def _kf_mul_cof_bn(case, v, entry):
    c = _sub(case, v)
    return (c.get("kind") == "ep" and c.get("rel") == "cofactor-map" and v.details.get("family") == "BN" and
            v.details.get("alias") == 0 and v.details.get("unwritten") is True)


_SSWU_Z = {"SM2_P256": "13", "CURVE_25519": "11", "CURVE_383187": "8"}
_SVDW_Z = {"K16_P330": "1", "K16_P766": "1", "AFG16_P766": "1", "FM16_P765": "4"}


def _kf_sswu_z(case, v, entry):
    c = _sub(case, v)
    return (c.get("kind") == "ep" and c.get("rel") == "h2c-constants" and "criterion 4" in v.msg and
            "g(B/(Z*A))" in v.msg and _SSWU_Z.get(v.details.get("ident")) == v.details.get("Z"))


def _kf_svdw_z(case, v, entry):
    c = _sub(case, v)
    return (c.get("kind") == "ep" and c.get("rel") == "h2c-constants" and "neither g(Z) nor g(-Z/2)" in v.msg and
            _SVDW_Z.get(v.details.get("ident")) == v.details.get("Z"))


_AFG16_H = 0x5922DDB02112D02D09E6928213608A7AC1EE7A916706E3DA46FA55988D318CFF


def _kf_afg16_h(case, v, entry):
    c = _sub(case, v)
    return (c.get("kind") == "ep" and c.get("rel") in ("hasse-cm", "curve-order") and
            v.details.get("ident") == "AFG16_P510" and v.details.get("h") == _AFG16_H)


def _kf_b12_p446_tower(case, v, entry):
    c = _sub(case, v)
    return (c.get("kind") == "pc" and c.get("rel") in ("tower-field", "twist-coefficients") and
            str(v.details.get("ident", "")).startswith("B12_P446/") and v.details.get("xi") == [16, 1])


_B12_P377_H2 = int("26BA558AE9562ADDD88D99A6F6A829FBB36B00E1DCC40C8C505634FAE2E189D693E8C36676BD09A0F3622FBA094800452217CC8F"
                   "FFFFFFFFFFFFFFFFFFFFFF", 16)


def _kf_b12_p377_h2(case, v, entry):
    c = _sub(case, v)
    return (c.get("kind") == "pc" and c.get("rel") in ("twist-order-cm", "twist-order-point") and
            str(v.details.get("ident", "")).startswith("B12_P377/") and v.details.get("h2") == _B12_P377_H2)


KNOWN_PREDICATES = {
    "c18_b12_p377_g2_cofactor": _kf_b12_p377_h2,
    "c18_b12_p446_tower": _kf_b12_p446_tower,
    "c18_svdw_z_criterion4": _kf_svdw_z,
    "c18_afg16_p510_cofactor": _kf_afg16_h,
    "c18_fp2_qnr_getter_sm9": _kf_qnr_getter,
    "c18_ep_level_zero": _kf_level0,
    "c18_ep_mul_cof_bn_unwritten": _kf_mul_cof_bn,
    "c18_sswu_z_criterion4": _kf_sswu_z,
}

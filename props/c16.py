"""C16 — binary fields and binary curves compute in GF(2^m) and its curve groups (DESIGN §2 C16).

Field elements and points are shipped raw (digit vectors; x, y, z, coord) and read back raw. The oracle is the
pure-Python GF(2^m) model engine/ref/gf2m.py (f read from fb_poly_get() and validated irreducible by Rabin's test)
and the affine binary-Weierstrass group law engine/ref/ecb.py; every output must also be reduced (degree < m)."""

from hypothesis import strategies as st

from engine import ebctx
from engine.core import Target, Violation, Unsupported
from engine.gen import ints
from engine.proto import RLC_EQ, RLC_NE
from engine.ref import ecb, gf2m

PROPERTY = "C16"
RULE = ("field: Hypothesis-generated elements (0, 1, z, z^(m-1), all-ones, single bits, digit-boundary bits, structured "
        "digit patterns, trace-0 elements c^2+c and trace-1 elements c^2+c+1 built by the reference, elements related to "
        "the other operand (equal, inverse, square root, digit-fold collisions), uniform), double-length reduction inputs "
        "up to degree 2m-2, exponents (0, +-1, 2^m-2, 2^m-1, 2^m, negative, up to 1024 bits), Frobenius iterates "
        "-m-3..m+3 and beyond, alias patterns, every algorithm variant, every reduction polynomial of the build's degree. "
        "curve: points [m]G + [t]S (S generates the 2-power torsion: the order-2 point (0, sqrt b) and, for cofactor 4, "
        "the points of order four) with m from 0, +-1, 2..16, (n+-1)/2, uniform, computed by the reference; affine / "
        "Lopez-Dahab projective with generated Z / lambda representation; pairs biased to O, P=Q, P=-Q, same point in "
        "different representations, alias patterns r==p, r==q, p==q; scalars from G-scalar(n) (0, +-1, n-1, n, n+1, jn, "
        "-n, 2^i, sparse/runs, negative, longer than the order, up to 1024 bits); tables built by the matching "
        "eb_mul_pre_*; both curves (random, Koblitz) of the field size, one curve per worker job. oracle = reference "
        "value + reduced form + input preservation + two storage-poison patterns. non-trivial: field operands not in "
        "{0,1} or an alias or an error-expected case; exceptional / non-affine / aliased group-law case; multiplication "
        "with |k| not in {0,1} and (k >= n or k < 0 or > 64 bits). distinct = distinct (target, cfg, case) hashes")
ASSUMPTIONS = [
    "field elements given to fb_* are reduced (degree < m); results must be reduced too",
    "fb_lsh may either reduce modulo f(z) (header text) or shift the digit vector (what every caller relies on): both "
    "answers are accepted when the shifted polynomial reaches degree m",
    "fb_slv / fb2_slv are only required to return a root when one exists (Tr(a) = 0); fb_inv(0), 0^negative must raise",
    "fb_exp_slide may report an error (never a wrong value) for exponents longer than RLC_FB_BITS + 1 bits (its "
    "recoding buffer); the other fb_exp_* take any exponent",
    "curve parameters (a, b, G, n, h) come from the getters and are sanity-checked by the reference (G on curve, "
    "[n]G = O, h from Tr(a), torsion structure); C18 validates the tables in depth",
    "*_basic routines get affine operands, *_projc affine or Lopez-Dahab operands, the lambda representation only goes "
    "to eb_norm / eb_cmp / eb_on_curve / eb_hlv; scalar multiplications get normalised affine points",
    "points outside the prime-order subgroup are only multiplied by the non-reducing routines eb_mul_basic / eb_mul_dig; "
    "eb_hlv gets finite points of odd order; on cofactor-4 curves either half is accepted from eb_hlv",
    "for scalars longer than the group order a cleanly reported error is accepted, a wrong point or a memory error is not",
    "eb_tab: all entries [2i+1]P on random curves (w = 2..6); on Koblitz curves the table holds alpha_u P for Z[tau] "
    "residues alpha_u and exists only for the configured widths: only entry 0 (alpha_1 = 1) is asserted for "
    "w in {2, RLC_WIDTH, RLC_DEPTH}, the rest is checked through the multiplications that use it",
]
BUDGET_S = {"quick": 235, "thorough": 1750}
JOB_SIZE = {"quick": 800, "thorough": 2000}


# ====================================================================================== generators
# Building a strategy object costs far more than drawing from it (validation, label hashing), and a composite that
# builds its sub-strategies per draw spent 5 of its 7 ms there: every constructor below is memoised.

_MEMO = {}


def memo(fn):
    def wrapped(*args, **kw):
        k = (fn.__name__,) + tuple(tuple(a) if isinstance(a, list) else (id(a) if hasattr(a, "__dict__") else a)
                                   for a in args + tuple(sorted(kw.items())))
        if k not in _MEMO:
            _MEMO[k] = (fn(*args, **kw), args)    # keep args alive so that id() keys stay unique
        return _MEMO[k][0]
    wrapped.__name__ = fn.__name__
    wrapped.__doc__ = fn.__doc__
    return wrapped


@memo
def S(seq):
    return st.sampled_from(list(seq))


U = memo(ints.uniform)
D = memo(ints.digit)
M = memo(ints.magnitude)
SC = memo(ints.scalar)

@memo
def elem(F):
    """G-res for GF(2^m). Hypothesis builds many examples by splicing choice sequences, and every misaligned choice
    falls back to its *simplest* value; with 0 as the simplest element a quarter of all operands came out as 0
    (measured). So the simplest choices lead to an ordinary element (0x55.. pattern) and 0 / 1 are explicit classes."""
    K, m, W = F.K, F.m, F.W
    mask = K.mask
    plain = int("55" * F.nbytes, 16) & mask
    special = [plain, 2, 3, 1 << (m - 1), mask, mask ^ 1, (1 << (m - 1)) | 1, K.f & mask, 1 << (W - 1), 1 << W,
               (1 << W) - 1, (1 << W) | 1, 1 << (m - 2), mask >> 1, (1 << (m - 1)) | (1 << (m - 2)),
               int("AA" * F.nbytes, 16) & mask]

    @st.composite
    def s(draw):
        k = draw(st.integers(0, 21))
        if k == 21:
            return 0
        if k == 20:
            return 1
        if k <= 3:
            v = draw(S(special))
        elif k <= 5:
            v = 1 << draw(st.integers(0, m - 1))
        elif k <= 7:
            v = draw(M(W, F.digs)) & mask
        elif k <= 9:
            c = draw(U(0, mask))
            v = K.sqr(c) ^ c                          # trace 0
        elif k <= 11:
            c = draw(U(0, mask))
            v = K.sqr(c) ^ c ^ trace_one(K)           # trace 1
        elif k == 12:
            v = draw(U(0, (1 << W) - 1))
        elif k == 13:
            b = draw(st.integers(1, m))
            v = draw(U(0, (1 << b) - 1))
        else:
            v = draw(U(0, mask))
        return v if v > 1 else plain ^ (v << (m - 1))
    return s()


_T1 = {}


def trace_one(K):
    if K.f not in _T1:
        d = 1
        while K.trace(d) != 1:
            d <<= 1
        _T1[K.f] = d
    return _T1[K.f]


def related(F, a, i):
    """operand number i derived from a (equal, a + 1, square, square root, z a, top bit flipped, inverse)"""
    K = F.K
    return [lambda: a, lambda: a ^ 1, lambda: K.sqr(a), lambda: K.sqrt(a), lambda: K.red(a << 1),
            lambda: a ^ (1 << (F.m - 1)), lambda: K.inv(a) if a else 1][i]()


NREL = 7


@memo
def exponent(F):
    """exponents; the simplest choices lead to 2^m - 2 (the inversion exponent), 0 is an explicit class (see elem)"""
    m = F.m
    q = 1 << m
    special = [q - 2, 1, 2, 3, -1, -2, q - 1, q, q + 1, q >> 1, (q >> 1) - 1, -(q - 1), -(q - 2), -q, 2 * (q - 1),
               2 * q - 1, 1 << (m + 1), (1 << (m + 1)) - 1, (1 << (m + 2)) - 1]

    @st.composite
    def s(draw):
        k = draw(st.integers(0, 13))
        if k == 13:
            return 0
        if k <= 3:
            return draw(S(special))
        if k <= 5:
            v = draw(U(0, q - 1))
            return -v if draw(st.integers(0, 3)) == 3 else v
        if k <= 7:
            b = draw(S([m, 64, 65, 128, m - 1, m + 1, m + 2, 2 * m, 512, 1000]))
            v = draw(U(1 << (b - 1), (1 << b) - 1))
            return -v if draw(st.integers(0, 3)) == 3 else v
        if k <= 9:
            b = draw(st.integers(0, m + 2))
            return (1 << (m + 2 - b)) - draw(S([0, 1]))
        return draw(U(0, 1 << 64)) + 2
    return s()


# ====================================================================================== helpers

_SWITCH = [False]


def run2(env, cfg, what, ident, build, poison, seed=b""):
    # target fb-switch: the OTHER polynomial of the degree is installed right before the case's own, in one process:
    # whatever fb_param_set derives (reduction data, square-root and half-trace tables, the Itoh-Tsujii squaring
    # tables) must belong to the polynomial selected last
    prev = None
    if what == "fb" and _SWITCH[0]:
        others = [f for f in ebctx.discover_fields(env, cfg)["fids"] if f != ident]
        if others:
            prev = others[poison % len(others)]
    return [ebctx.run(env, cfg, what, ident, build, pz, seed, prev=prev) for pz in ((poison,) if prev is not None
                                                                                    else (poison, poison ^ 0xFF))]


def switched(run_fn):
    def run(env, cfg, case):
        _SWITCH[0] = True
        try:
            nt, lab = run_fn(env, cfg, case)
            return True, lab + ["after-polynomial-switch"]
        finally:
            _SWITCH[0] = False
    return run


def chk_call(c, what, allow_error=False, **kw):
    if c.unsupported:
        raise Unsupported()
    if c.ub:
        raise Violation("undefined behaviour reported in %s: %s" % (what, c.ub), ub=c.ub, **kw)
    if c.errored and not allow_error:
        raise Violation("%s reported an error (caught=%d e=%d code=%d) for a valid input" % (
            what, c.caught, c.e, c.code), errored=True, **kw)


def chk_elem(F, blob, want, what, i=0, **kw):
    v = int.from_bytes(blob[i * F.nbytes:(i + 1) * F.nbytes], "little")
    if v >> F.m:
        raise Violation("%s: result not reduced (degree >= m)" % what, raw=v, want=want, f=F.K.f, **kw)
    if want is not None and v != want:
        raise Violation("%s: wrong value" % what, got=v, want=want, **kw)
    return v


_PROBE = {}


def defect_present(env, cfg, F, key):
    """Is a *known* crashing defect still present in this tree? Crashes cost a runner restart plus a field
    re-selection (~0.5 s), so the generators thin the affected class out (1 in 40) while the defect is there.
    Probed once per worker job with the minimal witness; a repaired tree gets the full rate back."""
    k = (cfg, F.fid, key)
    if k not in _PROBE:
        from engine.proto import RunnerCrash

        def build(p):
            if key == "srt":
                sa, sc = p.new("FB", F.enc(2)), p.new("FB", F.enc(0))
                p.call("fb_srt_quick", sc, sa)
            else:
                st_, sc = p.new("FBD", F.encd(0)), p.new("FB", F.enc(1))
                p.call("fb_rdc_basic", sc, st_)
        try:
            ebctx.run(env, cfg, "fb", F.fid, build, 0x5A)
            _PROBE[k] = False
        except RunnerCrash:
            _PROBE[k] = True
    return _PROBE[k]


def chk_inputs(c, ins, what):
    bad = [ins[s] for s in c.changed if s in ins]
    if bad:
        raise Violation("%s modified its input(s) %s" % (what, bad))


# ====================================================================================== field: add / mul / sqr / srt / slv

MULS = ["fb_mul", "fb_mul_basic", "fb_mul_integ", "fb_mul_lodah", "fb_mul_karat"]
SQRS = ["fb_sqr", "fb_sqr_basic", "fb_sqr_integ", "fb_sqr_quick"]
SRTS = ["fb_srt", "fb_srt_basic", "fb_srt_quick"]
SLVS = ["fb_slv", "fb_slv_basic", "fb_slv_quick"]
BIN_OPS = ["fb_add"] + MULS
UN_OPS = SQRS + SRTS + SLVS + ["fb_copy"]


def quick_srt_ops(F):
    return {"fb_srt_quick"} | ({"fb_srt"} if F.inf[9] == F.inf[17] else set())


def strat_arith(env, cfg):
    F = ebctx.job_field(env, cfg)
    thin = quick_srt_ops(F) if defect_present(env, cfg, F, "srt") else set()

    @st.composite
    def s(draw):
        op = draw(S(BIN_OPS + MULS + UN_OPS))
        if op in thin and draw(st.integers(0, 39)):
            op = "fb_srt_basic"
        a = draw(elem(F))
        if op in UN_OPS:
            return dict(fid=F.fid, op=op, a=a, alias=draw(S([0, 1])), stale=draw(elem(F)),
                        poison=draw(st.integers(0, 255)))
        alias = draw(S([0, 0, 1, 2, 3, 4]))
        b = a if alias >= 3 else (draw(elem(F)) if draw(st.integers(0, 1)) else related(F, a, draw(st.integers(0, NREL - 1))))
        return dict(fid=F.fid, op=op, a=a, b=b, alias=alias, stale=draw(elem(F)), poison=draw(st.integers(0, 255)))
    return s()


def run_arith(env, cfg, case):
    F = ebctx.field(env, cfg, case["fid"])
    K = F.K
    op, a, alias = case["op"], case["a"], case["alias"]
    labels = ["op:" + op, "fid:%s" % ebctx.FB_NAME[F.fid]]
    if op in UN_OPS:
        what = "%s[%s](alias=%d)" % (op, ebctx.FB_NAME[F.fid], alias)
        tr = K.trace(a)
        if op in SQRS:
            want = K.sqr(a)
        elif op in SRTS:
            want = K.sqrt(a)
        elif op == "fb_copy":
            want = a
        else:
            want = None

        def build(p):
            sa = p.new("FB", F.enc(a))
            sc = sa if alias else p.new("FB", F.enc(case["stale"]))
            p.call(op, sc, sa)
            p.dump(sc)
            return sc, ({} if alias else {sa: "a"})
        got = []
        for res, (sc, ins) in run2(env, cfg, "fb", F.fid, build, case["poison"]):
            c = res.calls[0]
            chk_call(c, what)
            v = chk_elem(F, res.dumps[sc], want, what, op=op, a=a)
            got.append(v)
            chk_inputs(c, ins, what)
            if op in SLVS and tr == 0 and K.sqr(v) ^ v != a:
                raise Violation("%s: returned c does not satisfy c^2 + c = a although Tr(a) = 0" % what, got=v, a=a, op=op)
        if got[0] != got[1]:
            raise Violation("%s: result depends on stale storage content" % what, first=got[0], second=got[1])
        if op in SLVS:
            labels.append("slv:trace-%d" % tr)
        labels.append("elem:trace-%d" % tr)
        return (alias != 0 or a > 1), labels
    b = case["b"]
    want = a ^ b if op == "fb_add" else K.mul(a, b)
    what = "%s[%s](alias=%d)" % (op, ebctx.FB_NAME[F.fid], alias)

    def build(p):
        sa = p.new("FB", F.enc(a))
        sb = sa if alias >= 3 else p.new("FB", F.enc(b))
        sc = p.new("FB", F.enc(case["stale"])) if alias in (0, 3) else (sa if alias in (1, 4) else sb)
        p.call(op, sc, sa, sb)
        p.dump(sc)
        ins = {}
        if sa != sc:
            ins[sa] = "a"
        if sb != sc:
            ins[sb] = "b"
        return sc, ins
    for res, (sc, ins) in run2(env, cfg, "fb", F.fid, build, case["poison"]):
        c = res.calls[0]
        chk_call(c, what)
        chk_elem(F, res.dumps[sc], want, what, op=op, a=a, b=b)
        chk_inputs(c, ins, what)
    labels.append("alias:%d" % alias)
    if op != "fb_add" and a.bit_length() + b.bit_length() - 2 >= F.m:
        labels.append("mul:needs-reduction")
    return (alias != 0 or (a > 1 and b > 1)), labels


# ====================================================================================== field: inversion

INVS = ["fb_inv", "fb_inv_basic", "fb_inv_binar", "fb_inv_exgcd", "fb_inv_almos", "fb_inv_itoht", "fb_inv_bruch",
        "fb_inv_ctaia", "fb_inv_lower"]


def strat_inv(env, cfg):
    F = ebctx.job_field(env, cfg)

    @st.composite
    def s(draw):
        op = draw(S(INVS + INVS + ["fb_inv_sim"]))
        if op == "fb_inv_sim":
            n = draw(S([1, 2, 3, 4, 8, 9, 17]))
            xs = [draw(elem(F)) or 1 for _ in range(n)]
            return dict(fid=F.fid, op=op, xs=xs, alias=draw(st.integers(0, 1)), poison=draw(st.integers(0, 255)))
        a = draw(elem(F))
        if draw(st.integers(0, 5)) == 0 and a:
            a = F.K.inv(a)            # operands whose inverse is a special element
        return dict(fid=F.fid, op=op, a=a, alias=draw(S([0, 1])), stale=draw(elem(F)),
                    poison=draw(st.integers(0, 255)))
    return s()


def run_inv(env, cfg, case):
    F = ebctx.field(env, cfg, case["fid"])
    K = F.K
    op, alias = case["op"], case["alias"]
    name = ebctx.FB_NAME[F.fid]
    if op == "fb_inv_sim":
        xs = case["xs"]
        n = len(xs)
        what = "fb_inv_sim[%s](n=%d)" % (name, n)

        def build(p):
            sa = p.new("FBV", F.encv(xs))
            sc = sa if alias else p.new("FBV", F.encv([7 + i for i in range(n)]))
            p.call(op, sc, sa, n)
            p.dump(sc)
            return sc, sa
        for res, (sc, sa) in run2(env, cfg, "fb", F.fid, build, case["poison"]):
            c = res.calls[0]
            chk_call(c, what)
            for i, x in enumerate(xs):
                chk_elem(F, res.dumps[sc], K.inv(x), what + "[%d]" % i, i, op=op)
            if sa != sc and sa in c.changed:
                raise Violation("%s modified its input" % what)
        return n >= 2, ["op:fb_inv_sim", "fid:" + name, "invsim:n=%d" % n]
    a = case["a"]
    what = "%s[%s](alias=%d)" % (op, name, alias)

    def build(p):
        sa = p.new("FB", F.enc(a))
        sc = sa if alias else p.new("FB", F.enc(case["stale"]))
        p.call(op, sc, sa)
        p.dump(sc)
        return sc, ({} if alias else {sa: "a"})
    for res, (sc, ins) in run2(env, cfg, "fb", F.fid, build, case["poison"]):
        c = res.calls[0]
        if a == 0:
            chk_call(c, what, allow_error=True)
            if not c.errored:
                raise Violation("%s: inversion of zero was not reported as an error" % what, op=op)
            continue
        chk_call(c, what)
        chk_elem(F, res.dumps[sc], K.inv(a), what, op=op, a=a)
        chk_inputs(c, ins, what)
    return (alias != 0 or a != 1), ["op:" + op, "fid:" + name] + (["inv:zero"] if a == 0 else [])


# ====================================================================================== field: digit forms, queries, shifts

MISC = ["fb_add_dig", "fb_mul_dig", "fb_cmp", "fb_cmp_dig", "fb_cmp_dig", "fb_bits", "fb_get_bit", "fb_set_bit", "fb_is_zero",
        "fb_zero", "fb_set_dig", "fb_lsh", "fb_rsh", "fb_poly_add", "fb_trc", "fb_trc_basic", "fb_trc_quick"]


def strat_misc(env, cfg):
    F = ebctx.job_field(env, cfg)
    W, m = F.W, F.m

    @st.composite
    def s(draw):
        op = draw(S(MISC))
        a = draw(elem(F))
        d = draw(D(W))
        b = [None, a, a ^ 1, a ^ (1 << (m - 1))][draw(st.integers(0, 3))]
        if b is None:
            b = draw(elem(F))
        if op == "fb_cmp_dig":
            k = draw(st.integers(0, 4))
            if k == 0:
                a = d
            elif k == 1:
                # digits that cancel when folded together
                x = draw(U(1, (1 << W) - 1))
                j = draw(st.integers(1, F.digs - 1))
                a = ((d ^ x) | (x << (W * j))) & F.K.mask
            elif k == 2:
                a = d | (1 << draw(st.integers(W, m - 1)))
        nb = a.bit_length()
        bits = [0, 1, W - 1, W, W + 1, max(nb - 1, 0), min(nb, m - 1), m - 1]
        bit = bits[draw(st.integers(0, 7))] if draw(st.integers(0, 1)) else draw(st.integers(0, m - 1))
        shs = [0, 1, 2, W - 1, W, W + 1, 2 * W, m - 1, max(0, m - nb), max(0, m - nb - 1)]
        sh = shs[draw(st.integers(0, 9))] if draw(st.integers(0, 1)) else draw(st.integers(0, m - 1))
        return dict(fid=F.fid, op=op, a=a, b=b, d=d, bit=bit, sh=min(sh, m - 1), v=draw(st.integers(0, 1)),
                    alias=draw(st.integers(0, 1)), hi=draw(st.integers(0, 1)), stale=draw(elem(F)),
                    poison=draw(st.integers(0, 255)))
    return s()


def run_misc(env, cfg, case):
    F = ebctx.field(env, cfg, case["fid"])
    K = F.K
    op, a, b, d, alias = case["op"], case["a"], case["b"], case["d"], case["alias"]
    name = ebctx.FB_NAME[F.fid]
    what = "%s[%s]" % (op, name)
    labels = ["op:" + op, "fid:" + name]
    vecmask = (1 << F.vecbits) - 1
    queries = {"fb_cmp": lambda: RLC_EQ if a == b else RLC_NE, "fb_cmp_dig": lambda: RLC_EQ if a == d else RLC_NE,
               "fb_bits": lambda: a.bit_length(), "fb_get_bit": lambda: (a >> case["bit"]) & 1,
               "fb_is_zero": lambda: int(a == 0), "fb_trc": lambda: K.trace(a), "fb_trc_basic": lambda: K.trace(a),
               "fb_trc_quick": lambda: K.trace(a)}
    if op in queries:
        want = queries[op]()

        def build(p):
            sa = p.new("FB", F.enc(a))
            if op == "fb_cmp":
                sb = sa if (alias and a == b) else p.new("FB", F.enc(b))
                p.call(op, sa, sb)
            elif op == "fb_cmp_dig":
                p.call(op, sa, d)
            elif op == "fb_get_bit":
                p.call(op, sa, case["bit"])
            else:
                p.call(op, sa)
            return None
        for res, _ in run2(env, cfg, "fb", F.fid, build, case["poison"]):
            c = res.calls[0]
            chk_call(c, what)
            if c.changed:
                raise Violation("%s modified its input" % what)
            got = c.ret_i(0)
            if got != want:
                raise Violation("%s wrong" % what, got=got, want=want, a=a, b=b if op == "fb_cmp" else None,
                                d=d if op == "fb_cmp_dig" else None, op=op, W=F.W)
        if op in ("fb_cmp", "fb_cmp_dig"):
            labels.append("cmp:%s" % ("eq" if want == RLC_EQ else "ne"))
            if op == "fb_cmp_dig" and a >> F.W:
                labels.append("cmp_dig:multi-digit")
        if op.startswith("fb_trc"):
            labels.append("elem:trace-%d" % want)
        return a > 1, labels
    raw_want = None          # expected raw digit vector (may exceed degree m - 1)
    alt = None
    if op == "fb_add_dig":
        want = a ^ d
    elif op == "fb_mul_dig":
        want = K.mul(a, d)
    elif op == "fb_set_dig":
        want = d
    elif op == "fb_zero":
        want = 0
    elif op == "fb_set_bit":
        want = (a | (1 << case["bit"])) if case["v"] else (a & ~(1 << case["bit"]))
    elif op == "fb_rsh":
        want = a >> case["sh"]
    elif op == "fb_lsh":
        want = None
        raw_want = (a << case["sh"]) & vecmask
        alt = K.red(a << case["sh"])
        labels.append("lsh:%s" % ("reaches-degree-m" if (a << case["sh"]) >> F.m else "fits"))
    else:   # fb_poly_add: c = a + f(z); also fed with the z^m coefficient set (its use inside the library)
        want = None
        aa = a | ((1 << F.m) if case["hi"] else 0)
        raw_want = aa ^ K.f

    def build(p):
        if op in ("fb_set_dig", "fb_zero"):
            sc = p.new("FB", F.enc(case["stale"]))
            if op == "fb_zero":
                p.call(op, sc)
            else:
                p.call(op, sc, d)
            p.dump(sc)
            return sc, {}
        if op == "fb_set_bit":
            sa = p.new("FB", F.enc(a))
            p.call(op, sa, case["bit"], case["v"])
            p.dump(sa)
            return sa, {}
        sa = p.new("FB", F.enc(a | ((1 << F.m) if (op == "fb_poly_add" and case["hi"]) else 0)))
        sc = sa if alias else p.new("FB", F.enc(case["stale"]))
        if op in ("fb_add_dig", "fb_mul_dig"):
            p.call(op, sc, sa, d)
        elif op in ("fb_lsh", "fb_rsh"):
            p.call(op, sc, sa, case["sh"])
        else:
            p.call(op, sc, sa)
        p.dump(sc)
        return sc, ({} if alias else {sa: "a"})
    for res, (sc, ins) in run2(env, cfg, "fb", F.fid, build, case["poison"]):
        c = res.calls[0]
        chk_call(c, what)
        if raw_want is None:
            chk_elem(F, res.dumps[sc], want, what, op=op, a=a, d=d)
        else:
            raw = int.from_bytes(res.dumps[sc][:F.nbytes], "little")
            if raw != raw_want and raw != alt:
                raise Violation("%s: wrong digit vector" % what, got=raw, want=raw_want, alt=alt, a=a, sh=case["sh"], op=op)
        chk_inputs(c, ins, what)
    return (a > 1 or op in ("fb_set_dig", "fb_zero")), labels


# ====================================================================================== field: reduction

RDCS = ["fb_rdc", "fb_rdc_basic", "fb_rdc_quick"]


def strat_rdc(env, cfg):
    F = ebctx.job_field(env, cfg)
    m = F.m
    thin0 = defect_present(env, cfg, F, "rdc0")

    @st.composite
    def s(draw):
        op = draw(S(RDCS))
        k = draw(st.integers(0, 5))
        if k <= 2:
            # the documented input: a multiplication result
            x = draw(elem(F))
            y = x if k == 0 else (draw(elem(F)) if draw(st.integers(0, 1)) else related(F, x, draw(st.integers(0, NREL - 1))))
            T = gf2m.clmul(x, y)
        elif k == 3:
            T = draw(U(0, (1 << (2 * m - 1)) - 1))
        elif k == 4:
            T = 1 << draw(st.integers(0, 2 * m - 2))
            T ^= draw(S([0, 1, 1 << (m - 1), 1 << m, (1 << m) - 1]))
        else:
            lo = draw(st.integers(0, 2 * m - 2))
            ln = draw(st.integers(1, 2 * m - 1 - lo))
            T = ((1 << ln) - 1) << lo
        if T == 0 and op == "fb_rdc_basic" and thin0 and draw(st.integers(0, 39)):
            T = 1
        return dict(fid=F.fid, op=op, T=T, stale=draw(elem(F)), poison=draw(st.integers(0, 255)))
    return s()


def run_rdc(env, cfg, case):
    F = ebctx.field(env, cfg, case["fid"])
    op, T = case["op"], case["T"]
    if T >> (2 * F.m - 1):
        raise Unsupported()
    what = "%s[%s]" % (op, ebctx.FB_NAME[F.fid])
    want = F.K.red(T)
    if want != gf2m.polydivmod(T, F.K.f)[1]:
        raise AssertionError("reference reduction disagrees with long division")

    def build(p):
        st_ = p.new("FBD", F.encd(T))
        sc = p.new("FB", F.enc(case["stale"]))
        p.call(op, sc, st_)
        p.dump(sc)
        return sc
    for res, sc in run2(env, cfg, "fb", F.fid, build, case["poison"]):
        chk_call(res.calls[0], what)
        chk_elem(F, res.dumps[sc], want, what, op=op, T=T)
    deg = T.bit_length() - 1
    return deg >= F.m, ["op:" + op, "fid:" + ebctx.FB_NAME[F.fid],
                        "rdc:deg-%s" % ("lt-m" if deg < F.m else "top-digit" if deg >= 2 * F.m - 2 - F.W else "ge-m")]


# ====================================================================================== field: exponentiation, Frobenius iterates

EXPS = ["fb_exp", "fb_exp_basic", "fb_exp_slide", "fb_exp_monty"]
ITRS = ["fb_itr_basic", "fb_itr3", "fb_itr_quick", "fb_itr4"]


def strat_exp(env, cfg):
    F = ebctx.job_field(env, cfg)
    m = F.m
    thin = "fb_srt" in quick_srt_ops(F) and defect_present(env, cfg, F, "srt")

    @st.composite
    def s(draw):
        op = draw(S(EXPS + EXPS + ITRS))
        a = draw(elem(F))
        if op in EXPS:
            return dict(fid=F.fid, op=op, a=a, e=draw(exponent(F)), alias=draw(S([0, 1])),
                        stale=draw(elem(F)), poison=draw(st.integers(0, 255)))
        k = draw(st.integers(0, 19))
        if k == 0:
            b = draw(S([m - 1, m, m + 1, -(m - 1), -m, -(m + 3), 2 * m + 1]))
        elif k <= 4:
            b = draw(st.integers(-40, 40))
        else:
            b = draw(st.integers(-9, 9))
        if b < 0 and thin and draw(st.integers(0, 39)):
            b = -b
        more = [draw(elem(F)) for _ in range(draw(st.integers(0, 3)))]
        return dict(fid=F.fid, op=op, a=a, b=b, more=more, alias=draw(S([0, 1])), stale=draw(elem(F)),
                    poison=draw(st.integers(0, 255)))
    return s()


def run_exp(env, cfg, case):
    F = ebctx.field(env, cfg, case["fid"])
    K = F.K
    op, a, alias = case["op"], case["a"], case["alias"]
    name = ebctx.FB_NAME[F.fid]
    what = "%s[%s]" % (op, name)
    labels = ["op:" + op, "fid:" + name]
    if op in EXPS:
        e = case["e"]
        zero_inv = a == 0 and e < 0
        want = None if zero_inv else K.pow(a, e)
        slide = op == "fb_exp_slide" or (op == "fb_exp" and F.inf[13] == F.inf[18])
        beyond = slide and abs(e).bit_length() > F.m + 1

        def build(p):
            sa = p.new("FB", F.enc(a))
            se = p.bn(e)
            sc = sa if alias else p.new("FB", F.enc(case["stale"]))
            p.call(op, sc, sa, se)
            p.dump(sc)
            ins = {se: "e"}
            if not alias:
                ins[sa] = "a"
            return sc, ins
        for res, (sc, ins) in run2(env, cfg, "fb", F.fid, build, case["poison"]):
            c = res.calls[0]
            if zero_inv:
                chk_call(c, what, allow_error=True)
                if not c.errored:
                    raise Violation("%s: 0^negative did not report an error" % what, op=op)
                continue
            if c.errored and beyond and not c.ub:
                continue
            chk_call(c, what)
            chk_elem(F, res.dumps[sc], want, what, op=op, a=a, e=e)
            chk_inputs(c, ins, what)
        q1 = (1 << F.m) - 1
        labels.append("exp:%s" % ("neg" if e < 0 else "zero" if e == 0 else "gt-order" if e > q1 else "le-order"))
        if beyond:
            labels.append("exp:beyond-window-buffer")
        return (a > 1 and e not in (0, 1)), labels
    b = case["b"]
    xs = [a] + list(case["more"])
    tabn = F.inf[5]

    def build(p):
        outs = []
        if op in ("fb_itr_quick", "fb_itr4"):
            stab = p.new("FBV", F.encv([], alloc=tabn))
            if op == "fb_itr_quick":
                p.call("fb_itr_pre_quick", stab, b)
            for x in xs:
                sa = p.new("FB", F.enc(x))
                sc = sa if alias else p.new("FB", F.enc(case["stale"]))
                if op == "fb_itr_quick":
                    p.call(op, sc, sa, stab)
                else:
                    p.call(op, sc, sa, b, stab)
                p.dump(sc)
                outs.append((sc, sa))
        else:
            for x in xs:
                sa = p.new("FB", F.enc(x))
                sc = sa if alias else p.new("FB", F.enc(case["stale"]))
                p.call(op, sc, sa, b)
                p.dump(sc)
                outs.append((sc, sa))
        return outs
    heavy = op in ("fb_itr_quick", "fb_itr4") and abs(b) > 40
    poisons = (case["poison"],) if heavy else (case["poison"], case["poison"] ^ 0xFF)
    for pz in poisons:
        res, outs = ebctx.run(env, cfg, "fb", F.fid, build, pz)
        calls = res.calls
        if op == "fb_itr_quick":
            chk_call(calls[0], "fb_itr_pre_quick[%s](b=%d)" % (name, b))
            calls = calls[1:]
        for (sc, sa), c, x in zip(outs, calls, xs):
            chk_call(c, what)
            chk_elem(F, res.dumps[sc], K.frob(x, b), "%s(b=%d)" % (what, b), op=op, a=x, b=b)
            if sa != sc and sa in c.changed:
                raise Violation("%s modified its input" % what)
    labels.append("itr:%s" % ("sqrt" if b < 0 else "zero" if b == 0 else "sqr"))
    if abs(b) >= F.m:
        labels.append("itr:|b|>=m")
    return (a > 1 and b % F.m != 0), labels


# ====================================================================================== quadratic extension

FB2 = ["fb2_mul", "fb2_mul", "fb2_sqr", "fb2_inv", "fb2_slv", "fb2_slv", "fb2_mul_nor"]


def strat_fb2(env, cfg):
    F = ebctx.job_field(env, cfg)

    @st.composite
    def s(draw):
        op = draw(S(FB2))
        a = [draw(elem(F)), draw(elem(F))]
        alias = draw(S([0, 0, 1, 2, 3, 4])) if op == "fb2_mul" else draw(S([0, 1]))
        b = list(a) if alias >= 3 else [draw(elem(F)), draw(elem(F))]
        if op == "fb2_slv" and draw(st.integers(0, 2)):
            # make a solution exist: Tr(a1) = 0
            c = draw(U(0, F.K.mask))
            a[1] = F.K.sqr(c) ^ c
        return dict(fid=F.fid, op=op, a=a, b=b, alias=alias, stale=[draw(elem(F)), draw(elem(F))],
                    poison=draw(st.integers(0, 255)))
    return s()


def run_fb2(env, cfg, case):
    F = ebctx.field(env, cfg, case["fid"])
    if F.m % 2 == 0:
        raise Unsupported()
    K = F.K
    X = gf2m.GF2m2(K)
    op, alias = case["op"], case["alias"]
    a, b = tuple(case["a"]), tuple(case["b"])
    name = ebctx.FB_NAME[F.fid]
    what = "%s[%s](alias=%d)" % (op, name, alias)
    labels = ["op:" + op, "fid:" + name]
    solvable = None
    if op == "fb2_mul":
        want = X.mul(a, b)
    elif op == "fb2_sqr":
        want = X.sqr(a)
    elif op == "fb2_mul_nor":
        want = X.mul_s(a)
    elif op == "fb2_inv":
        want = None if a == (0, 0) else X.inv(a)
    else:
        want = None
        solvable = K.trace(a[1]) == 0       # Tr_{2m}(a0 + a1 s) = Tr_m(a1)
        labels.append("slv2:%s" % ("solvable" if solvable else "no-root"))
        labels.append("slv2:Tr(a0)=%d" % K.trace(a[0]))

    def build(p):
        sa = p.new("FB2", F.enc2(a))
        if op == "fb2_mul":
            sb = sa if alias >= 3 else p.new("FB2", F.enc2(b))
            sc = p.new("FB2", F.enc2(case["stale"])) if alias in (0, 3) else (sa if alias in (1, 4) else sb)
            p.call(op, sc, sa, sb)
            ins = {}
            if sa != sc:
                ins[sa] = "a"
            if sb != sc:
                ins[sb] = "b"
        else:
            sc = sa if alias else p.new("FB2", F.enc2(case["stale"]))
            p.call(op, sc, sa)
            ins = {} if alias else {sa: "a"}
        p.dump(sc)
        return sc, ins
    for res, (sc, ins) in run2(env, cfg, "fb", F.fid, build, case["poison"]):
        c = res.calls[0]
        if op == "fb2_inv" and a == (0, 0):
            chk_call(c, what, allow_error=True)
            if not c.errored:
                raise Violation("%s: inversion of zero was not reported as an error" % what, op=op)
            continue
        chk_call(c, what)
        got = (F.dec(res.dumps[sc], what, 0), F.dec(res.dumps[sc], what, 1))
        if want is not None and got != want:
            raise Violation("%s: wrong value" % what, got=list(got), want=list(want), op=op, a=list(a))
        if solvable and not X.is_solution(got, a):
            raise Violation("%s: returned c does not satisfy c^2 + c = a although Tr(a) = 0" % what, got=list(got),
                            a=list(a), op=op, tr_a0=K.trace(a[0]))
        chk_inputs(c, ins, what)
    return (alias != 0 or (a[0] > 1 and a[1] > 1)), labels


# ====================================================================================== curve: generators

@memo
def point_spec(c, torsion=True, finite=False):
    """{'m': multiplier of G, 't': multiplier of the torsion generator S}"""
    n = c.n
    special = [0, 1, n - 1, 2, 3, n - 2, 4, 5, 7, 8, 15, 16, n // 2, n // 2 + 1]
    if finite:
        special = special[1:]

    @st.composite
    def s(draw):
        k = draw(st.integers(0, 5))
        m = draw(S(special)) if k <= 1 else draw(U(1, n - 1))
        t = 0
        if torsion and draw(st.integers(0, 3)) == 0:
            t = draw(st.integers(1, c.h - 1))
            if draw(st.integers(0, 2)) == 0:
                m = 0                        # pure torsion: the point of order two / four
        return {"m": m, "t": t}
    return s()


@memo
def rep_spec(c, kinds):
    K = c.K

    @st.composite
    def s(draw):
        kind = draw(S(kinds))
        z = 1
        if kind == "projc":
            z = draw(S([1, 2, 3, 1 << (c.F.m - 1), K.mask])) if draw(st.integers(0, 1)) else draw(U(1, K.mask))
        return {"kind": kind, "z": z, "inf": draw(st.integers(0, 1))}
    return s()


BASICREP = {"kind": "basic", "z": 1, "inf": 0}


def resolve(c, spec):
    P = ebctx.point(c, spec["m"], spec.get("t", 0))
    if spec.get("rel") == "neg":
        P = c.E.neg(P)
    return P


def coords(spec, c):
    """(m, t) exponents of a spec after its relation."""
    m, t = spec["m"] % c.n, spec.get("t", 0) % c.h
    if spec.get("rel") == "neg":
        m, t = (-m) % c.n, (-t) % c.h
    return m, t


def enc(c, P, rep):
    if rep["kind"] == "halve" and (P is None or P[0] == 0):
        return ebctx.enc_point(c, P, "basic", 1, 0)
    return ebctx.enc_point(c, P, rep["kind"], rep["z"], rep.get("inf", 0))


def kinds_for(c, op):
    if op.endswith("_basic"):
        return ["basic"]
    if op.endswith("_projc"):
        return ["basic", "projc", "projc"]
    if op in ("eb_norm", "eb_cmp", "eb_on_curve", "eb_copy", "eb_is_infty"):
        return ["basic", "projc", "projc", "halve"]
    if op == "eb_hlv":
        return ["basic", "halve"]
    if op in ("eb_frb", "eb_blind"):
        return ["basic", "projc"]
    # macros follow the build's EB_ADD
    return ["basic"] if c.EB_ADD == c.BASIC else ["basic", "projc", "projc"]


def chk_point(c, blob, want, what, need_norm=False, **kw):
    try:
        got, meta = ebctx.dec_point(c, blob, what)
    except Violation as v:
        raise Violation(v.msg, **dict(v.details, **kw))
    if got is not None and not c.E.on_curve(got):
        raise Violation("%s: result is not on the curve" % what, got=list(got), **kw)
    if got != want:
        raise Violation("%s: wrong point" % what, got=list(got) if got else None, want=list(want) if want else None, **kw)
    if need_norm and got is not None and (meta["coord"] != c.BASIC or meta["z"] != 1):
        raise Violation("%s: result not in normalised affine form" % what, coord=meta["coord"], z=meta["z"], **kw)
    return got, meta


def pclass(c, spec):
    m, t = coords(spec, c)
    if m == 0 and t == 0:
        return "O"
    if m == 0:
        return "order-%d" % (2 if 2 * t == c.h else 4)
    return "subgroup" if t == 0 else "subgroup+torsion"


# ====================================================================================== curve: group law

LAW2 = ["eb_add", "eb_add_basic", "eb_add_projc", "eb_sub", "eb_sub_basic", "eb_sub_projc"]
LAW1 = ["eb_neg", "eb_neg_basic", "eb_neg_projc", "eb_dbl", "eb_dbl_basic", "eb_dbl_projc", "eb_norm", "eb_copy", "eb_blind"]
LAWQ = ["eb_cmp", "eb_is_infty", "eb_on_curve", "eb_on_curve"]


def strat_law(env, cfg):
    c = ebctx.job_curve(env, cfg)
    ones = LAW1 + ["eb_hlv", "eb_hlv"] + (["eb_frb", "eb_frb"] if c.is_kbltz else [])

    @st.composite
    def s(draw):
        op = draw(S(LAW2 + LAW2 + ones + LAWQ))
        kinds = kinds_for(c, op)
        if op == "eb_hlv":
            P = draw(point_spec(c, torsion=False, finite=True))
        else:
            P = draw(point_spec(c))
        rel = draw(S(["rand", "rand", "eq", "neg", "infty", "eq", "neg"]))
        if rel == "rand":
            Q = draw(point_spec(c))
        elif rel == "infty":
            Q = {"m": 0, "t": 0}
        else:
            Q = dict(P, rel=rel)
        if draw(st.integers(0, 9)) == 0 and op != "eb_hlv":
            P, Q = Q, P
        return dict(cid=c.cid, op=op, P=P, Q=Q, rp=draw(rep_spec(c, kinds)), rq=draw(rep_spec(c, kinds)),
                    alias=draw(S([0, 0, 1, 2, 3, 4])), off=draw(st.integers(0, 2)),
                    poison=draw(st.integers(0, 255)), seed=draw(st.binary(min_size=8, max_size=8)))
    return s()



_EB_STALE = {}


def eb_stale_pt(c):
    """content of output objects before the call: a fixed multiple of G that no generated case expects"""
    key = id(c)
    if key not in _EB_STALE:
        _EB_STALE[key] = (c, c.E.mul(0x5DEECE66D1234567, c.G))
    return _EB_STALE[key][1]


def run_law(env, cfg, case):
    c = ebctx.curve(env, cfg, case["cid"])
    E, K = c.E, c.K
    op, alias = case["op"], case["alias"]
    P, Q = resolve(c, case["P"]), resolve(c, case["Q"])
    rp, rq = case["rp"], case["rq"]
    labels = ["op:" + op, "cid:%d" % c.cid]
    what = "%s[cid=%d]" % (op, c.cid)
    stale = enc(c, c.G, BASICREP)
    if op in LAW2:
        same = P == Q
        if alias >= 3 and not same:
            alias = 0
        if alias >= 3:
            rq = rp
        sub = "sub" in op
        want = E.sub(P, Q) if sub else E.add(P, Q)

        def build(p):
            sp = p.new("EB", enc(c, P, rp))
            sq = sp if alias >= 3 else p.new("EB", enc(c, Q, rq))
            sr = p.new("EB", stale) if alias in (0, 3) else (sp if alias in (1, 4) else sq)
            p.call(op, sr, sp, sq)
            p.dump(sr)
            ins = {}
            if sp != sr:
                ins[sp] = "p"
            if sq != sr:
                ins[sq] = "q"
            return sr, ins
        kw = dict(op=op, alias=alias, pclass=[pclass(c, case["P"]), pclass(c, case["Q"])], reps=[rp["kind"], rq["kind"]],
                  same=(P == Q))
        for res, (sr, ins) in run2(env, cfg, "eb", c.cid, build, case["poison"]):
            call = res.calls[0]
            chk_call(call, what, **kw)
            chk_point(c, res.dumps[sr], want, what, **kw)
            chk_inputs(call, ins, what)
        Qe = E.neg(Q) if sub else Q
        if P is None or Q is None:
            labels.append("law:identity-operand")
        elif P == Qe:
            labels.append("law:doubling" + ("-of-order-2" if P[0] == 0 else ""))
        elif P == E.neg(Qe):
            labels.append("law:inverse-operands")
        else:
            labels.append("law:generic")
        labels += ["reps:%s+%s" % (rp["kind"], rq["kind"]), "alias:%d" % alias, "P:" + pclass(c, case["P"])]
        exceptional = P is None or Q is None or P == Q or P == E.neg(Q)
        return (exceptional or rp["kind"] != "basic" or rq["kind"] != "basic" or alias != 0), labels
    al = alias in (1, 2)
    if op in LAW1 or op in ("eb_hlv", "eb_frb"):
        if op == "eb_hlv" and (P is None or case["P"].get("t", 0) % c.h != 0):
            raise Unsupported()
        if "neg" in op:
            want = E.neg(P)
        elif "dbl" in op:
            want = E.dbl(P)
        elif op == "eb_frb":
            want = E.frobenius(P)
        elif op == "eb_hlv":
            m, _ = coords(case["P"], c)
            want = ebctx.point(c, m * ((c.n + 1) // 2))
            if E.dbl(want) != P:
                raise AssertionError("reference halving inconsistent")
        else:
            want = P

        def build(p):
            sp = p.new("EB", enc(c, P, rp))
            sr = sp if al else p.new("EB", stale)
            p.call(op, sr, sp)
            p.dump(sr)
            return sr, ({} if al else {sp: "p"})
        hl = None
        for res, (sr, ins) in run2(env, cfg, "eb", c.cid, build, case["poison"], seed=case["seed"]):
            call = res.calls[0]
            chk_call(call, what, op=op, pclass=[pclass(c, case["P"])], reps=[rp["kind"]])
            if op == "eb_hlv" and c.h != 2:
                # cofactor 4: both halves lie in 2E; either is a valid answer of a bare halving
                got, meta = ebctx.dec_point(c, res.dumps[sr], what)
                if got is None or not E.on_curve(got) or E.dbl(got) != P:
                    raise Violation("%s: doubling the result does not give back the operand" % what,
                                    got=list(got) if got else None, op=op)
                hl = "hlv:%s" % ("odd-order-half" if got == want else "half-plus-T")
            else:
                got, meta = chk_point(c, res.dumps[sr], want, what, need_norm=(op == "eb_norm"), op=op, alias=int(al),
                                      pclass=[pclass(c, case["P"])], reps=[rp["kind"]])
            if op == "eb_hlv" and (meta["coord"] != c.HALVE):
                raise Violation("%s: result not tagged as lambda representation" % what, coord=meta["coord"])
            chk_inputs(call, ins, what)
        labels += ["rep:" + rp["kind"], "P:" + pclass(c, case["P"])] + ([hl] if hl else [])
        return (P is not None and (rp["kind"] != "basic" or al or P[0] == 0 or op in ("eb_hlv", "eb_frb"))), labels
    # queries
    off = op == "eb_on_curve" and case["off"] == 0 and P is not None
    Pq = (P[0], P[1] ^ 1) if off else P
    if op == "eb_cmp":
        want = RLC_EQ if P == Q else RLC_NE
        labels.append("cmp:%s" % ("eq" if want == RLC_EQ else "ne"))
    elif op == "eb_is_infty":
        want = int(P is None)
    else:
        want = int(E.on_curve(Pq))
        labels.append("on_curve:%d" % want)

    def build(p):
        sp = p.new("EB", enc(c, Pq, rp))
        if op == "eb_cmp":
            sq = sp if (alias >= 3 and P == Q) else p.new("EB", enc(c, Q, rq))
            p.call(op, sp, sq)
        else:
            p.call(op, sp)
        return None
    for res, _ in run2(env, cfg, "eb", c.cid, build, case["poison"]):
        call = res.calls[0]
        chk_call(call, what)
        if call.changed:
            raise Violation("%s modified its input" % what)
        got = call.ret_i(0)
        if got != want:
            raise Violation("%s wrong" % what, got=got, want=want, op=op, reps=[rp["kind"], rq["kind"]],
                            pclass=[pclass(c, case["P"]), pclass(c, case["Q"])])
    labels.append("reps:%s+%s" % (rp["kind"], rq["kind"]))
    return (P is not None and (rp["kind"] != "basic" or rq["kind"] != "basic" or off)), labels


# ====================================================================================== curve: variable-base multiplication

MULS_EB = ["eb_mul", "eb_mul_basic", "eb_mul_lodah", "eb_mul_lwnaf", "eb_mul_rwnaf", "eb_mul_halve", "eb_mul_gen", "eb_mul_dig"]
NONREDUCING = {"eb_mul_basic", "eb_mul_dig"}


def klabels(c, k):
    n = c.n
    out = []
    if k == 0:
        out.append("k:zero")
    if k < 0:
        out.append("k:negative")
    if abs(k) >= n:
        out.append("k:>=n")
    if k % n == 0 and k != 0:
        out.append("k:0-mod-n")
    if is_long(c, k):
        out.append("k:longer-than-n")
    if not out:
        out.append("k:in-range")
    return out


def is_long(c, k):
    return abs(k).bit_length() > c.n.bit_length()


@memo
def scalar(c):
    return _scalar(c)


@st.composite
def _scalar(draw, c):
    """G-scalar(n): mostly up to the bit length of the order (every routine must answer), one in seven up to the
    bignum precision (scalars longer than the order: see ASSUMPTIONS). Hypothesis' span duplication makes the
    structured classes collapse to 0 / tiny values far more often than their nominal weight (measured 12 % zeros),
    so three quarters of the tiny draws are replaced by a uniform residue."""
    nb = c.n.bit_length()
    k = draw(SC(c.n, 1024 if draw(st.integers(0, 6)) == 0 else nb))
    if abs(k) < (1 << 16) and draw(st.integers(0, 3)):
        v = draw(U(1, c.n - 1))
        k = -v if k < 0 else v
    return k


def mul_nt(c, k):
    return abs(k) not in (0, 1) and (abs(k) >= c.n or k < 0 or (k % c.n).bit_length() > 64)


def cfgkw(c):
    """build facts that known-finding predicates need (the case itself does not name the configuration)"""
    return dict(kbltz=bool(c.is_kbltz), width=c.WIDTH, depth=c.DEPTH, affine=(c.EB_ADD == c.BASIC))


def expect_mul(c, k, spec):
    m, t = coords(spec, c)
    return ebctx.point(c, k * m, k * t)


def chk_mul_call(call, what, long_, **kw):
    """True when a result has to be checked; a cleanly reported error is accepted for scalars longer than the order."""
    if call.unsupported:
        raise Unsupported()
    if call.ub:
        raise Violation("undefined behaviour in %s: %s" % (what, call.ub), ub=call.ub, long=long_, **kw)
    if call.errored:
        if long_:
            return False
        raise Violation("%s reported an error (caught=%d e=%d code=%d) for a valid input" % (
            what, call.caught, call.e, call.code), errored=True, long=long_, **kw)
    return True


def strat_mul(env, cfg):
    c = ebctx.job_curve(env, cfg)

    @st.composite
    def s(draw):
        op = draw(S(MULS_EB))
        P = draw(point_spec(c, torsion=op in NONREDUCING))
        k = draw(D(c.F.W)) if op == "eb_mul_dig" else draw(scalar(c))
        rp = draw(rep_spec(c, ["basic"] if c.EB_ADD == c.BASIC or op == "eb_mul_gen" else ["basic", "projc"]))
        return dict(cid=c.cid, nb=c.n.bit_length(), n=c.n, op=op, P=P, k=k, rp=rp, alias=draw(S([0, 0, 1])),
                    poison=draw(st.integers(0, 255)), seed=draw(st.binary(min_size=8, max_size=8)))
    return s()


def run_mul(env, cfg, case):
    c = ebctx.curve(env, cfg, case["cid"])
    op, k, alias = case["op"], case["k"], case["alias"]
    spec = {"m": 1, "t": 0} if op == "eb_mul_gen" else case["P"]
    if op not in NONREDUCING and spec.get("t", 0) % c.h:
        raise Unsupported()
    P = resolve(c, spec)
    want = expect_mul(c, k, spec)
    what = "%s[cid=%d]" % (op, c.cid)
    long_ = is_long(c, k)
    done = 0

    def build(p):
        sp = p.new("EB", enc(c, P, case.get("rp") or BASICREP))
        sr = sp if alias else p.new("EB", enc(c, eb_stale_pt(c), BASICREP))
        if op == "eb_mul_gen":
            sk = p.bn(k)
            p.call(op, sr, sk)
            ins = {sk: "k"}
        elif op == "eb_mul_dig":
            p.call(op, sr, sp, k)
            ins = {}
        else:
            sk = p.bn(k)
            p.call(op, sr, sp, sk)
            ins = {sk: "k"}
        if not alias and op != "eb_mul_gen":
            ins[sp] = "p"
        p.dump(sr)
        return sr, ins
    for res, (sr, ins) in run2(env, cfg, "eb", c.cid, build, case["poison"], seed=case["seed"]):
        call = res.calls[0]
        if not chk_mul_call(call, what, long_, op=op, k=k, pclass=[pclass(c, spec)], **cfgkw(c)):
            continue
        done += 1
        chk_point(c, res.dumps[sr], want, what, need_norm=True, op=op, k=k, long=long_, pclass=[pclass(c, spec)],
                  **cfgkw(c))
        chk_inputs(call, ins, what)
    labels = ["op:" + op, "cid:%d" % c.cid, "P:" + pclass(c, spec)] + klabels(c, k)
    if long_:
        labels.append("long:%s" % ("answered" if done else "error-reported"))
    return (mul_nt(c, k) and P is not None), labels


# ====================================================================================== curve: fixed-base multiplication

FIX = [("eb_mul_pre_basic", "eb_mul_fix_basic", "basic"), ("eb_mul_pre_combs", "eb_mul_fix_combs", "combs"),
       ("eb_mul_pre_combd", "eb_mul_fix_combd", "combd"), ("eb_mul_pre_lwnaf", "eb_mul_fix_lwnaf", "lwnaf"),
       ("eb_mul_pre", "eb_mul_fix", "cur")]


def strat_fix(env, cfg):
    c = ebctx.job_curve(env, cfg)

    @st.composite
    def s(draw):
        i = draw(st.integers(0, len(FIX) - 1))
        P = {"m": 1, "t": 0} if draw(st.integers(0, 1)) else draw(point_spec(c, torsion=False, finite=True))
        ks = [draw(scalar(c)) for _ in range(draw(st.integers(1, 3)))]
        return dict(cid=c.cid, nb=c.n.bit_length(), n=c.n, alg=i, op=FIX[i][1], P=P, ks=ks, poison=draw(st.integers(0, 255)),
                    rp=draw(rep_spec(c, ["basic"] if c.EB_ADD == c.BASIC else ["basic", "projc"])))
    return s()


def run_fix(env, cfg, case):
    c = ebctx.curve(env, cfg, case["cid"])
    pre, fix, tab = FIX[case["alg"]]
    spec = case["P"]
    P = resolve(c, spec)
    if P is None or spec.get("t", 0) % c.h:
        raise Unsupported()
    tabsz = c.TAB[tab]
    what = "%s/%s[cid=%d]" % (pre, fix, c.cid)
    ks = case["ks"]
    done = 0

    def build(p):
        sp = p.new("EB", enc(c, P, case.get("rp") or BASICREP))
        st_ = p.new("EBV", ebctx.enc_points(c, [], alloc=tabsz))
        p.call(pre, st_, sp)
        outs = []
        for k in ks:
            sr = p.new("EB", enc(c, eb_stale_pt(c), BASICREP))
            sk = p.bn(k)
            p.call(fix, sr, st_, sk)
            p.dump(sr)
            outs.append((sr, sk))
        return sp, st_, outs
    for res, (sp, st_, outs) in run2(env, cfg, "eb", c.cid, build, case["poison"]):
        chk_call(res.calls[0], "%s[cid=%d]" % (pre, c.cid))
        if sp in res.calls[0].changed:
            raise Violation("%s modified its input point" % pre)
        for i, (sr, sk) in enumerate(outs):
            call = res.calls[1 + i]
            long_ = is_long(c, ks[i])
            if not chk_mul_call(call, what, long_, op=fix, k=ks[i], **cfgkw(c)):
                continue
            done += 1
            chk_point(c, res.dumps[sr], expect_mul(c, ks[i], spec), what + "(k#%d)" % i, need_norm=True, op=fix, k=ks[i],
                      long=long_, nk=len(ks), ki=i, **cfgkw(c))
            if st_ in call.changed or sk in call.changed:
                raise Violation("%s modified its table / scalar" % fix)
    lab = ["op:" + fix, "cid:%d" % c.cid, "fix:%s" % ("generator" if (spec["m"], spec.get("t", 0)) == (1, 0) else "other-base")]
    for k in ks:
        lab += klabels(c, k)
    return any(mul_nt(c, k) for k in ks), lab


# ====================================================================================== curve: simultaneous multiplication

SIMS = ["eb_mul_sim", "eb_mul_sim_basic", "eb_mul_sim_trick", "eb_mul_sim_inter", "eb_mul_sim_joint", "eb_mul_sim_gen"]


def trick_crashes(env, cfg, c):
    """known crash of eb_mul_sim_trick in builds with RLC_WIDTH < 4 (every input): thinned out while present"""
    k = (cfg, c.cid, "trick")
    if k not in _PROBE:
        _PROBE[k] = False
        if c.WIDTH < 4:
            from engine.proto import RunnerCrash

            def build(p):
                s0, s1 = p.new("EB", enc(c, eb_stale_pt(c), BASICREP)), p.new("EB", enc(c, ebctx.point(c, 2), BASICREP))
                p.call("eb_mul_sim_trick", p.new("EB", enc(c, eb_stale_pt(c), BASICREP)), s0, p.bn(3), s1, p.bn(5))
            try:
                ebctx.run(env, cfg, "eb", c.cid, build, 0x5A)
            except RunnerCrash:
                _PROBE[k] = True
    return _PROBE[k]


def strat_sim(env, cfg):
    c = ebctx.job_curve(env, cfg)
    thin = trick_crashes(env, cfg, c)

    @st.composite
    def s(draw):
        op = draw(S(SIMS))
        if op == "eb_mul_sim_trick" and thin and draw(st.integers(0, 39)):
            op = "eb_mul_sim_joint"
        P = draw(point_spec(c, torsion=False))
        rel = draw(S(["rand", "rand", "rand", "eq", "neg"]))
        Q = draw(point_spec(c, torsion=False)) if rel == "rand" else dict(P, rel=rel)
        k = draw(scalar(c))
        m = draw(scalar(c)) if draw(st.integers(0, 1)) else [k, -k, c.n - k, k + 1][draw(st.integers(0, 3))]
        if draw(st.integers(0, 5)) == 0:
            # scalars of very different lengths (recodings padded to the longer one)
            m = draw(U(0, 1 << draw(S([1, 2, 3, 8, 64]))))
            if draw(st.booleans()):
                k, m = m, k
        return dict(cid=c.cid, nb=c.n.bit_length(), n=c.n, op=op, P=P, Q=Q, k=k, m=m, alias=draw(S([0, 0, 0, 1, 2])),
                    poison=draw(st.integers(0, 255)), rp=draw(rep_spec(c, ["basic"] if c.EB_ADD == c.BASIC else ["basic", "projc"])), rq=draw(rep_spec(c, ["basic"] if c.EB_ADD == c.BASIC else ["basic", "projc"])))
    return s()


def run_sim(env, cfg, case):
    c = ebctx.curve(env, cfg, case["cid"])
    op, k, m, alias = case["op"], case["k"], case["m"], case["alias"]
    sP = {"m": 1, "t": 0} if op == "eb_mul_sim_gen" else case["P"]
    sQ = case["Q"]
    if sP.get("t", 0) % c.h or sQ.get("t", 0) % c.h:
        raise Unsupported()
    P, Q = resolve(c, sP), resolve(c, sQ)
    mp, _ = coords(sP, c)
    mq, _ = coords(sQ, c)
    want = ebctx.point(c, k * mp + m * mq)
    what = "%s[cid=%d]" % (op, c.cid)
    long_ = is_long(c, k) or is_long(c, m)
    if op == "eb_mul_sim_gen" and alias == 1:
        alias = 0
    done = 0

    def build(p):
        s0 = p.new("EB", enc(c, P, (case.get("rp") if op != "eb_mul_sim_gen" else None) or BASICREP))
        s1 = p.new("EB", enc(c, Q, case.get("rq") or BASICREP))
        sr = p.new("EB", enc(c, eb_stale_pt(c), BASICREP)) if alias == 0 else (s0 if alias == 1 else s1)
        k0, k1 = p.bn(k), p.bn(m)
        if op == "eb_mul_sim_gen":
            p.call(op, sr, k0, s1, k1)
            ins = [k0, s1, k1]
        else:
            p.call(op, sr, s0, k0, s1, k1)
            ins = [s0, k0, s1, k1]
        p.dump(sr)
        return sr, {s_: "input" for s_ in ins if s_ != sr}
    for res, (sr, ins) in run2(env, cfg, "eb", c.cid, build, case["poison"]):
        call = res.calls[0]
        if not chk_mul_call(call, what, long_, op=op, k=k, m=m, same=(P == Q), opposite=(P == c.E.neg(Q)), **cfgkw(c)):
            continue
        done += 1
        chk_point(c, res.dumps[sr], want, what, need_norm=True, op=op, k=k, m=m, long=long_, alias=alias,
                  pq=[pclass(c, sP), pclass(c, sQ)], same=(P == Q), opposite=(P == c.E.neg(Q)), **cfgkw(c))
        chk_inputs(call, ins, what)
    lab = ["op:" + op, "cid:%d" % c.cid, "alias:%d" % alias] + klabels(c, k) + klabels(c, m)
    if P is None or Q is None:
        lab.append("sim:identity-operand")
    elif P == Q:
        lab.append("sim:P=Q")
    elif P == c.E.neg(Q):
        lab.append("sim:P=-Q")
    if long_:
        lab.append("long:%s" % ("answered" if done else "error-reported"))
    return (mul_nt(c, k) or mul_nt(c, m)), lab


# ====================================================================================== curve: simultaneous normalisation, tables, rhs

def strat_ebmisc(env, cfg):
    c = ebctx.job_curve(env, cfg)
    ops = ["eb_norm_sim", "eb_norm_sim", "eb_rhs", "eb_tab"]
    widths = sorted({2, c.WIDTH, c.DEPTH}) if c.is_kbltz else [2, 3, 4, 5, 6]

    @st.composite
    def s(draw):
        op = draw(S(ops))
        n = draw(S([1, 2, 3, 5, 8]))
        pts = [draw(point_spec(c, torsion=False, finite=True) if op == "eb_tab" else point_spec(c)) for _ in range(n)]
        reps = [draw(rep_spec(c, ["basic", "projc", "projc"])) for _ in range(n)]
        return dict(cid=c.cid, op=op, pts=pts, reps=reps, w=draw(S(widths)), alias=draw(st.integers(0, 1)),
                    x=draw(elem(c.F)), poison=draw(st.integers(0, 255)))
    return s()


def run_ebmisc(env, cfg, case):
    c = ebctx.curve(env, cfg, case["cid"])
    E, K = c.E, c.K
    op = case["op"]
    pts = [resolve(c, s_) for s_ in case["pts"]]
    reps = case["reps"]
    what = "%s[cid=%d]" % (op, c.cid)
    lab = ["op:" + op, "cid:%d" % c.cid]
    if op == "eb_rhs":
        x = case["x"]
        want = K.mul(K.sqr(x), x) ^ K.mul(c.a, K.sqr(x)) ^ c.b

        def build(p):
            sx = p.new("FB", c.F.enc(x))
            sr = sx if case["alias"] else p.new("FB", c.F.enc(5))
            p.call(op, sr, sx)
            p.dump(sr)
            return sr
        for res, sr in run2(env, cfg, "eb", c.cid, build, case["poison"]):
            chk_call(res.calls[0], what)
            chk_elem(c.F, res.dumps[sr], want, what, op=op)
        return x > 1, lab
    if op == "eb_tab":
        P = pts[0]
        if P is None or case["pts"][0].get("t", 0) % c.h:
            raise Unsupported()
        w = case["w"]
        if c.is_kbltz and w not in (2, c.WIDTH, c.DEPTH):
            raise Unsupported()          # the alpha_u tables are only compiled for the configured widths
        n = 1 << (w - 2)

        def build(p):
            sp = p.new("EB", enc(c, P, BASICREP))
            st_ = p.new("EBV", ebctx.enc_points(c, [], alloc=n))
            p.call(op, st_, sp, w)
            p.dump(st_)
            return st_, sp
        for res, (st_, sp) in run2(env, cfg, "eb", c.cid, build, case["poison"]):
            chk_call(res.calls[0], what)
            got = ebctx.dec_points(c, res.dumps[st_], what)
            m, _ = coords(case["pts"][0], c)
            # Koblitz tables hold alpha_u P for Z[tau] residues alpha_u = u mods tau^w; only alpha_1 = 1 is asserted
            for i in range(1 if c.is_kbltz else n):
                if got[i][0] != ebctx.point(c, (2 * i + 1) * m):
                    raise Violation("%s: table entry %d is not [%d]P" % (what, i, 2 * i + 1), op=op, w=w, i=i,
                                    got=list(got[i][0]) if got[i][0] else None, **cfgkw(c))
            if sp in res.calls[0].changed:
                raise Violation("%s modified its input" % what)
        return True, lab + ["tab:w=%d" % w, "tab:%s" % ("koblitz" if c.is_kbltz else "random-curve")]
    n = len(pts)
    alias = case["alias"]
    infin = any(P is None for P in pts)
    if infin:
        lab.append("norm_sim:identity-inside")

    def build(p):
        sv = p.new("EBV", ebctx.enc_points(c, [enc(c, P, r_) for P, r_ in zip(pts, reps)]))
        so = sv if alias else p.new("EBV", ebctx.enc_points(c, [enc(c, c.G, BASICREP) for _ in range(n)]))
        p.call(op, so, sv, n)
        p.dump(so)
        return so, sv
    for res, (so, sv) in run2(env, cfg, "eb", c.cid, build, case["poison"]):
        call = res.calls[0]
        chk_call(call, what)
        rl = 3 * c.F.nbytes + 5
        for i in range(n):
            kw = dict(op=op, n=n, alias=alias, infinity_inside=infin, i=i, rep=reps[i]["kind"], want_infty=pts[i] is None,
                      reps=[r_["kind"] for r_ in reps])
            try:
                g, meta = ebctx.dec_point(c, res.dumps[so][i * rl:(i + 1) * rl], "%s[%d]" % (what, i))
            except Violation as v:
                raise Violation(v.msg, **dict(v.details, **kw))
            if g != pts[i]:
                raise Violation("%s: entry %d wrong" % (what, i), got=list(g) if g else None,
                                want=list(pts[i]) if pts[i] else None, **kw)
            if g is not None and (meta["coord"] != c.BASIC or meta["z"] != 1):
                raise Violation("%s: entry %d not normalised" % (what, i), **kw)
        if sv != so and sv in call.changed:
            raise Violation("%s modified its input" % what)
    return any(r_["kind"] != "basic" for r_ in reps), lab + ["norm_sim:n=%d" % n, "alias:%d" % alias]


# ====================================================================================== plumbing

def self_test():
    gf2m.self_test()
    ecb.self_test()


def deferred(kind, strat_fn, run_fn):
    """A violation found while setting a job up (fb_param_set / eb_param_set failing, a reducible polynomial, an
    inconsistent curve) must surface as a replayable VIOLATION, not as a harness error: the strategy then yields one
    case that repeats the set-up inside run()."""
    def strat(env, cfg):
        try:
            return strat_fn(env, cfg)
        except Violation as v:
            return st.just({"setup_failed": v.msg, "job_seed": env.job_seed})

    def run(env, cfg, case):
        if "setup_failed" not in case:
            return run_fn(env, cfg, case)
        ebctx.reset(cfg)
        env.close()
        if kind == "fb":
            fids = ebctx.discover_fields(env, cfg)["fids"]
            ebctx.field(env, cfg, fids[case["job_seed"] % len(fids)])
        else:
            cids = ebctx.discover_curves(env, cfg)["cids"]
            ebctx.curve(env, cfg, cids[case["job_seed"] % len(cids)])
        return False, ["setup:recovered"]
    return strat, run


def _cfgs():
    return {"quick": ["base256"],
            "thorough": ["base256", "fb-163", "fb-233", "fb-409", "fb-571", "karat2", "ep-basic", "w2d2", "w6d8"]}


# cheapest targets first: core runs the jobs in target order, so on a loaded machine the budget cuts the tail of the
# big field targets (which still have had most of their cases) instead of starving whole targets
TARGETS = [
    Target("eb-fix", *deferred("eb", strat_fix, run_fix), _cfgs(), quick=2400, thorough=4000),
    Target("eb-sim", *deferred("eb", strat_sim, run_sim), _cfgs(), quick=3200, thorough=6000),
    Target("eb-misc", *deferred("eb", strat_ebmisc, run_ebmisc), _cfgs(), quick=3200, thorough=4000),
    Target("eb-mul", *deferred("eb", strat_mul, run_mul), _cfgs(), quick=6400, thorough=8000),
    Target("fb-inv", *deferred("fb", strat_inv, run_inv), _cfgs(), quick=24000, thorough=50000),
    # the same strategies / oracles right after a switch between the polynomials of the degree (costs ~1 s per case:
    # two fb_param_set and a fresh process for the next case)
    Target("fb-switch", deferred("fb", strat_inv, run_inv)[0], switched(deferred("fb", strat_inv, run_inv)[1]), _cfgs(),
           quick=160, thorough=1200, job_size={"quick": 40, "thorough": 150}),
    Target("fb-switch-misc", deferred("fb", strat_misc, run_misc)[0], switched(deferred("fb", strat_misc, run_misc)[1]),
           _cfgs(), quick=96, thorough=800, job_size={"quick": 32, "thorough": 100}),
    Target("eb-law", *deferred("eb", strat_law, run_law), _cfgs(), quick=14400, thorough=20000),
    Target("fb-rdc", *deferred("fb", strat_rdc, run_rdc), _cfgs(), quick=24000, thorough=50000),
    Target("fb-exp", *deferred("fb", strat_exp, run_exp), _cfgs(), quick=16000, thorough=30000),
    Target("fb2", *deferred("fb", strat_fb2, run_fb2), _cfgs(), quick=24000, thorough=50000),
    Target("fb-misc", *deferred("fb", strat_misc, run_misc), _cfgs(), quick=40000, thorough=90000),
    Target("fb-arith", *deferred("fb", strat_arith, run_arith), _cfgs(), quick=60000, thorough=130000),
]


# ====================================================================================== known-finding predicates
# Narrow conjunctions over the inputs of one target and the observed wrong answer (DESIGN 1.7).

def _kf_inv_one(case, v, e):
    """fb_inv_exgcd / fb_inv_lower (and what ends in them: the fb_inv macro of this build, fb_inv_sim, fb_exp_* with a
    negative exponent) return z^m + f(z) + 1 -- congruent to 1 but not reduced -- when the value to invert is 1."""
    d = v.details
    if case.get("op") not in ("fb_inv", "fb_inv_exgcd", "fb_inv_lower", "fb_inv_sim", "fb_exp", "fb_exp_basic",
                              "fb_exp_slide", "fb_exp_monty"):
        return False
    if case["op"].startswith("fb_exp") and case["e"] >= 0:
        return False
    return "not reduced" in v.msg and d.get("want") == 1 and d.get("f") is not None and d.get("raw") == d["f"] ^ 1


def _kf_cmp_dig(case, v, e):
    """fb_cmp_dig folds all digits together with xor: a multi-digit element whose digits cancel to b compares equal."""
    d = v.details
    if case.get("op") != "fb_cmp_dig" or d.get("got") != RLC_EQ or d.get("want") != RLC_NE or not d.get("W"):
        return False
    a, fold, W = case["a"], 0, d["W"]
    if d.get("a") != a:
        return False
    while a:
        fold ^= a & ((1 << W) - 1)
        a >>= W
    return fold == d.get("d") and case["a"] >> W != 0


def _kf_rdc_zero(case, v, e):
    """fb_rdc_basic(0): 'i >= RLC_FB_BITS' compares int -1 as size_t, fb_get_bit reads far outside the operand."""
    d = v.details
    return case.get("op") == "fb_rdc_basic" and case.get("T") == 0 and bool(d.get("crash")) and \
        any(f.startswith("fb_rdc_basic@") for f in d.get("frames", []))


def _kf_fb2_slv(case, v, e):
    """fb2_slv ignores Tr(a0) when choosing the root c1 of c1^2 + c1 = a1: wrong whenever Tr(a0) = 1."""
    return case.get("op") == "fb2_slv" and "does not satisfy" in v.msg and v.details.get("tr_a0") == 1


def _kf_dbl_order2(case, v, e):
    """affine doubling inverts x = 0: doubling the point of order two (directly, or as P + P / P - (-P)) raises
    ERR_NO_VALID instead of returning the point at infinity."""
    d = v.details
    if not d.get("errored") or d.get("op") not in e.get("ops", ()):
        return False
    pc = d.get("pclass", [])
    if "dbl" in d["op"]:
        return pc == ["order-2"]
    return pc == ["order-2", "order-2"] and bool(d.get("same"))


def _kf_affine_torsion_mul(case, v, e):
    """same defect seen through the non-reducing multiplications in an affine-coordinate build (EB_ADD = BASIC):
    a torsion-carrying point whose multiples run through the point of order two makes eb_dbl_basic raise."""
    d = v.details
    return bool(d.get("errored")) and bool(d.get("affine")) and case.get("op") in ("eb_mul_basic", "eb_mul_dig") and \
        d.get("pclass") in (["order-2"], ["order-4"])


def _kf_tab_w2(case, v, e):
    """eb_tab(t, P, 2) on a Koblitz curve: no switch case for w = 2, t[0] stays the initial (0, 0, z = 1); every
    tau-NAF multiplication of a build with RLC_WIDTH = 2 (or RLC_DEPTH = 2 for the fixed-base form) is wrong."""
    d = v.details
    if d.get("crash") or d.get("long") or not d.get("kbltz"):
        return False
    op = case.get("op")
    if op == "eb_tab":
        return case.get("w") == 2 and d.get("i") == 0 and d.get("got") == [0, 0]
    if op == "eb_mul_fix_lwnaf":
        ok = d.get("depth") == 2
    elif op in ("eb_mul_sim_trick", "eb_mul_sim_joint"):
        # these delegate to eb_mul() when one term vanishes
        ok = d.get("width") == 2 and (case["k"] == 0 or case["m"] == 0 or "O" in d.get("pq", []))
    else:
        ok = d.get("width") == 2 and op in ("eb_mul", "eb_mul_lwnaf", "eb_mul_sim", "eb_mul_sim_basic",
                                              "eb_mul_sim_inter", "eb_mul_sim_gen")
    return ok and any(x in v.msg for x in ("wrong point", "not on the curve"))


def _kf_trick_w1(case, v, e):
    """eb_mul_sim_trick with RLC_WIDTH = 2 or 3 (half-width 1): bn_rec_win clears RLC_FB_BITS + 1 bytes of the
    RLC_FB_BITS-byte window arrays."""
    d = v.details
    return case.get("op") == "eb_mul_sim_trick" and bool(d.get("crash")) and "stack-buffer-overflow" in (d.get("kind") or "") \
        and any(f.startswith("bn_rec_win@") for f in d.get("frames", [])) and \
        any(f.startswith("eb_mul_sim_trick@") for f in d.get("frames", []))


def _kf_norm_sim(case, v, e):
    """eb_norm_sim: a point at infinity in the list comes back as the finite non-point (0, 0) (or keeps stale output
    coordinates), and with r != t the conversion switches on the stale coord tag of the output array."""
    d = v.details
    if d.get("op") != "eb_norm_sim" or case.get("op") != "eb_norm_sim" or d.get("n", 0) < 2:
        return False
    if d.get("want_infty"):
        return True
    return d.get("alias") == 0 and d.get("rep") == "projc"


def _kf_sim_same(case, v, e):
    """eb_mul_sim_trick / eb_mul_sim_joint whose table contains the point at infinity: the tables (i P + j Q for
    0 <= i, j < 2^(w/2) with the scalars' signs; P + Q and P - Q) go through eb_norm_sim, which turns O into (0, 0).
    Happens for Q = +-P and, for the trick table, for any small relation i P + j Q = O (e.g. P = -G, Q = 2G)."""
    d = v.details
    op = d.get("op")
    if op not in ("eb_mul_sim_trick", "eb_mul_sim_joint") or case.get("op") != op or d.get("long") or d.get("crash") \
            or case["k"] == 0 or case["m"] == 0:
        return False
    if d.get("same") or d.get("opposite"):
        return True
    n = case.get("n")
    if op != "eb_mul_sim_trick" or not n or case["P"].get("t") or case["Q"].get("t"):
        return False
    mp = case["P"]["m"] * (-1 if case["P"].get("rel") == "neg" else 1) * (-1 if case["k"] < 0 else 1)
    mq = case["Q"]["m"] * (-1 if case["Q"].get("rel") == "neg" else 1) * (-1 if case["m"] < 0 else 1)
    if mp % n == 0 or mq % n == 0:
        return False
    r = range(1 << (d.get("width", 4) // 2))
    return any((i * mp + j * mq) % n == 0 for i in r for j in r if (i, j) != (0, 0))


def _kf_lodah_infty(case, v, e):
    """eb_mul_lodah does not test for P = O: returns the non-point (0, 0, z = 1)."""
    d = v.details
    return case.get("op") == "eb_mul_lodah" and d.get("pclass") == ["O"] and case["k"] != 0 and d.get("got") == [0, 0]


def _kf_tnaf_empty(case, v, e):
    """Koblitz curves: a non-zero multiple of the order can reduce to exactly 0 modulo (tau^m - 1)/(tau - 1); the
    tau-NAF is then empty and eb_mul_ltnaf_imp / eb_mul_fix_kbltz read tnaf[l - 1] with l = 0."""
    d = v.details
    n = case.get("n")
    ub = d.get("ub") or []
    if not n or not ub or not all(any(loc in u for loc in e.get("locations", [])) for u in ub):
        return False
    ks = case.get("ks") or [case.get("k", 0), case.get("m", 0)]
    return any(k != 0 and k % n == 0 for k in ks)


def _kf_long(case, v, e):
    """scalar longer than the group order given to a routine that neither reduces it nor rejects it: wrong point,
    table / recoding-buffer overrun."""
    nb = case.get("nb")
    if not nb or case.get("op") not in e.get("ops", ()):
        return False
    ks = case.get("ks") or [case.get("k", 0), case.get("m", 0)]
    d = v.details
    if d.get("crash"):
        # the crashing call is one of the calls of the case: at least one scalar must be long
        if not any(abs(k).bit_length() > nb for k in ks):
            return False
        return any(x in (d.get("kind") or "") for x in ("buffer-overflow", "SEGV"))
    if not d.get("long"):
        return False
    return any(x in v.msg for x in ("wrong point", "not on the curve", "not in normalised", "not reduced"))


KNOWN_PREDICATES = {
    "fb_inv_of_one_unreduced": _kf_inv_one,
    "fb_cmp_dig_xor_fold": _kf_cmp_dig,
    "fb_rdc_basic_zero": _kf_rdc_zero,
    "fb2_slv_trace_a0": _kf_fb2_slv,
    "eb_affine_doubling_order2": _kf_dbl_order2,
    "eb_norm_sim_infinity_or_tag": _kf_norm_sim,
    "eb_affine_torsion_multiplication": _kf_affine_torsion_mul,
    "eb_tab_koblitz_w2": _kf_tab_w2,
    "eb_mul_sim_trick_halfwidth1": _kf_trick_w1,
    "eb_mul_sim_same_point": _kf_sim_same,
    "eb_mul_lodah_infinity": _kf_lodah_infty,
    "eb_scalar_longer_than_order": _kf_long,
    "eb_tnaf_empty_for_multiple_of_order": _kf_tnaf_empty,
}

"""C05 — signature schemes are complete and sound, including encoding checks.
Aggregates part A (schemes with a full independent reference verifier: ECDSA, EC-Schnorr, RSA, vBNN-IBS, PoK/SoK;
props/c05a.py) and part B (pairing-based, homomorphic and ring signatures, decided by re-evaluating the scheme's
verification equation plus reference-side well-formedness; props/c05b.py)."""
from props import c05a, c05b

PROPERTY = "C05"
RULE = "PART A: " + c05a.RULE + " || PART B: " + c05b.RULE
ASSUMPTIONS = list(c05a.ASSUMPTIONS) + list(c05b.ASSUMPTIONS)
BUDGET_S = {"quick": 300, "thorough": 1800}
JOB_SIZE = {"quick": min(c05a.JOB_SIZE["quick"], c05b.JOB_SIZE["quick"]),
            "thorough": min(c05a.JOB_SIZE["thorough"], c05b.JOB_SIZE["thorough"])}
OPTIONAL_CFGS = list(getattr(c05a, "OPTIONAL_CFGS", [])) + list(getattr(c05b, "OPTIONAL_CFGS", []))
TARGETS = list(c05a.TARGETS) + list(c05b.TARGETS)
assert len({t.name for t in TARGETS}) == len(TARGETS), "target names of the two parts must be distinct"
KNOWN_PREDICATES = dict(getattr(c05a, "KNOWN_PREDICATES", {}), **getattr(c05b, "KNOWN_PREDICATES", {}))


def self_test():
    c05a.self_test()
    c05b.self_test()

#!/bin/bash
# usage: mutants.sh <name> ; applies one mutation to /tmp/repo_c05a_m, runs the quick check of the target, restores
R=/tmp/repo_c05a_m
cd $R && git checkout -q -- . 
case "$1" in
 M1) # drop the s < n test of cp_ecdsa_ver
   sed -i 's/if (bn_cmp(r, n) == RLC_LT \&\& bn_cmp(s, n) == RLC_LT) {/if (bn_cmp(r, n) == RLC_LT) {/' src/cp/relic_cp_ecdsa.c; T=ecdsa; CFG=base256;;
 M2) # drop ec_on_curve(q) from cp_ecdsa_ver
   sed -i 's/!bn_is_zero(r) \&\& !bn_is_zero(s) \&\& ec_on_curve(q)) {/!bn_is_zero(r) \&\& !bn_is_zero(s)) {/' src/cp/relic_cp_ecdsa.c; T=ecdsa; CFG=base256;;
 M3) # PSS: ignore the 0xBC trailer
   sed -i 's/if (pad == RSA_PSS) {/if (pad == RSA_PSS || 1) {/' src/cp/relic_cp_rsa.c; T=rsa; CFG=base256;;
 M4) # PKCS#1 v1.5: do not compare the DigestInfo
   sed -i 's/if (r == 0 \&\& m_len == RLC_MD_LEN \&\& counter >= 8) {/if (m_len == RLC_MD_LEN \&\& counter >= 8) {/' src/cp/relic_cp_rsa.c; T=rsa; CFG=rsapd-pkcs1;;
 M5) # EC-Schnorr: compare only the low two digits (16 bytes) of e
   sed -i 's/result = dv_cmp_sec(ev->dp, e->dp, RLC_MIN(ev->used,/result = dv_cmp_sec(ev->dp, e->dp, RLC_MIN(2,/' src/cp/relic_cp_ecss.c; T=ecss; CFG=base256;;
 M5a) # EC-Schnorr: drop the s < n test
   sed -i 's/if (bn_cmp(e, n) == RLC_LT \&\& bn_cmp(s, n) == RLC_LT) {/if (bn_cmp(e, n) == RLC_LT) {/' src/cp/relic_cp_ecss.c; T=ecss; CFG=base256;;
 M5b) # EC-Schnorr verification: x(R) not reduced modulo n
   /usr/local/bin/python3-vt - <<'PY'
p="/tmp/repo_c05a_m/src/cp/relic_cp_ecss.c"
s=open(p).read()
i=s.index("int cp_ecss_ver")
t=s[i:].replace("				bn_mod(rv, rv, n);\n", "",1)
open(p,"w").write(s[:i]+t)
PY
   T=ecss; CFG=base256;;
 M6) # ECDSA verification: no leftmost-bits truncation of a long digest
   /usr/local/bin/python3-vt - <<'PY'
p="/tmp/repo_c05a_m/src/cp/relic_cp_ecdsa.c"
s=open(p).read()
i=s.index("int cp_ecdsa_ver")
t=s[i:].replace("if (8 * len > bn_bits(n)) {", "if (0 && 8 * len > bn_bits(n)) {",1)
open(p,"w").write(s[:i]+t)
PY
   T=ecdsa; CFG=base256;;
 M7) # PSS: compare only the first half of H
   sed -i 's/result = util_cmp_sec(h1, h2, RLC_MD_LEN);/result = util_cmp_sec(h1, h2, RLC_MD_LEN \/ 2);/' src/cp/relic_cp_rsa.c; T=rsa; CFG=base256;;
 M8) # vBNN: hash without the message
   sed -i '0,/memcpy(buf_i, msg, msg_len);/! {0,/memcpy(buf_i, msg, msg_len);/ s/memcpy(buf_i, msg, msg_len);/memset(buf_i, 0, msg_len);/}' src/cp/relic_cp_vbnn.c
   /usr/local/bin/python3-vt - <<'PY'
p="/tmp/repo_c05a_m/src/cp/relic_cp_vbnn.c"
s=open(p).read()
s=s.replace("memcpy(buf_i, msg, msg_len);","memset(buf_i, 0, msg_len);")
open(p,"w").write(s)
PY
   T=vbnn; CFG=base256;;
 M9) # sokdl: off-by-one in the response range (r computed as v - c x + 1 is still "verified" if ver drops c comparison) -> ver ignores msg
   sed -i '0,/memcpy(buf, msg, len);/! {0,/memcpy(buf, msg, len);/ s/memcpy(buf, msg, len);/memset(buf, 1, len);/}' src/cp/relic_cp_sok.c; T=zk; CFG=base256;;
 M10) # PKCS#1 v1.5 hash-then-sign verification accepts any block type byte
   sed -i '0,/if (pad == RSA_PRV) {/! {0,/if (pad == RSA_PRV) {/ s/if (pad == RSA_PRV) {/if (pad == RSA_PRV || pad == RSA_PUB) {/}' src/cp/relic_cp_rsa.c; T=rsa; CFG=rsapd-pkcs1;;
 *) echo unknown; exit 2;;
esac
git -C $R diff --stat | tail -1
cd /tmp/vf_c05a
if [ "$CFG" != base256 ]; then export VERIF_TIER_CFG=$CFG; fi
VERIF_REPO=$R VERIF_BUDGET_S=${BUD:-900} ./check c05a --tier ${TIER:-quick} --only $T --scale ${SCALE:-0.25} 2>&1 | grep -v "^  case=" | cut -c1-400 | tail -6
echo "exit=$?"
cd $R && git checkout -q -- .

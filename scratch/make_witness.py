import sys, json, os
sys.path.insert(0, "/tmp/vf_c05a")
from hypothesis import given, settings, HealthCheck, Phase, seed as hseed
from engine.core import Env, Unsupported, Violation, jsonable, unjson, replay_case
from engine.proto import RunnerCrash, sanitizer_signature
import props.c05a as M

WANT = [  # (predicate, target, cfg, slug, what)
 ("c05_ecdsa_accepts_identity_public_key", "ec-sus", "base256", "ecdsa-identity-key",
  "cp_ecdsa_ver accepts the point at infinity as public key: (r, s) = (x([e/s]G) mod n, s) then verifies for any message and any s (universal forgery under Q = O)"),
 ("c05_ecss_accepts_identity_public_key", "ec-sus", "base256", "ecss-identity-key",
  "cp_ecss_ver performs no public-key validation: with Q = O the pair (e = H(m || x([s]G)), s) verifies for any message"),
 ("c05_ecss_accepts_R_at_infinity", "ec-sus", "base256", "ecss-R-infinity",
  "cp_ecss_ver accepts (e, s) with [s]G + [e]Q = O (r = 0, which the signer excludes): e = H(m || 0), s = -e d"),
 ("c05_ecdsa_accepts_public_key_outside_subgroup", "ec-sus", "p381", "ecdsa-key-outside-subgroup",
  "cp_ecdsa_ver checks ec_on_curve(q) only: on a curve with cofactor (BLS12-381 G1) the key Q + T, T of order 3, verifies whenever 3 | r/s mod n"),
 ("c05_ecss_accepts_public_key_outside_subgroup", "ec-sus", "p381", "ecss-key-outside-subgroup",
  "cp_ecss_ver does not validate the public key: on a curve with cofactor the key Q + T, T of order 3, verifies whenever 3 | e"),
 ("c05_vbnn_accepts_master_key_outside_subgroup", "vbnn-sus", "p381", "vbnn-mpk-outside-subgroup",
  "cp_vbnn_ver does not validate the master public key: on a curve with cofactor P0 + T, T of order 3, verifies whenever 3 | H1(ID || R)"),
 ("c05_rsa_accepts_noncanonical_signature", "rsa-sus", "base256", "rsa-noncanonical",
  "cp_rsa_ver neither checks sig_len nor sig < n: sig + jN, zero-prefixed and zero-stripped encodings of a valid signature are accepted (all three paddings)"),
 ("c05_rsa_pss_accepts_nonzero_bit_above_emBits", "rsa-sus", "base256", "rsa-pss-topbit",
  "cp_rsa_ver (PSS) tests the bits from modBits instead of emBits = modBits - 1: an encoded message with bit emBits set (RFC 8017 9.1.2 step 6) is accepted"),
 ("c05_rsa_pss_rejects_valid_modbits1mod8", "rsa", "base256", "rsa-pss-modbits-1mod8",
  "cp_rsa_ver (PSS) computes emLen - 1 instead of emLen when modBits = 1 mod 8 (e.g. cp_rsa_gen(514) -> 513-bit modulus): every honest signature is rejected"),
 ("c05_rsa_pss_rejects_valid_maskedDB_with_leading_zero_digit", "rsa", "base256", "rsa-pss-short-maskeddb",
  "cp_rsa_ver (PSS) XORs the MGF mask digit-wise over mask->used digits without extending maskedDB: an honest signature whose maskedDB has a zero top digit is rejected (frequent for 522..526-bit moduli)"),
 ("c05_rsa_gen_e_divides_phi", "rsa", "base256", "rsa-gen-e-divides-phi",
  "cp_rsa_gen returns RLC_OK with an unusable key (d = 1, p - 1 and q - 1 stored, no CRT values) when gcd(65537, (p-1)(q-1)) != 1"),
 ("c05_rsa_basic_accepts_garbage_after_the_digest", "rsa-sus", "rsapd-basic", "rsa-basic-garbage",
  "cp_rsa_ver (BASIC padding) compares only the first RLC_MD_LEN bytes after the 0xFF marker: 00..FF D || garbage (up to 8 bytes) is accepted"),
 ("c05_rsa_basic_accepts_truncated_digest", "rsa-sus", "rsapd-basic", "rsa-basic-truncated",
  "cp_rsa_ver (BASIC padding) zero-fills its comparison buffer: 00..FF D' with D' a prefix of a digest that ends in zero bytes is accepted"),
 ("c05_rsa_basic_stack_overflow", "rsa-sus", "rsapd-basic", "rsa-basic-overflow",
  "cp_rsa_ver (BASIC padding) writes the whole block after the 0xFF marker into a buffer of max(msg_len, RLC_MD_LEN) + 8 bytes: stack buffer overflow for a signature that opens to 00 FF || more than 40 bytes"),
 ("c05_vbnn_accepts_z_out_of_range", "vbnn-sus", "base256", "vbnn-z-range",
  "cp_vbnn_ver accepts z + jn and negative z (no range check on z)"),
 ("c05_vbnn_accepts_identity_master_key", "vbnn-sus", "base256", "vbnn-identity-mpk",
  "cp_vbnn_ver accepts the point at infinity as master public key (then anyone can sign for any identity)"),
 ("c05_vbnn_r_infinity_stack_overflow", "vbnn-sus", "base256", "vbnn-R-infinity-overflow",
  "cp_vbnn_ver sizes its hash buffer with 2 * ec_size_bin(R): R = O (1 byte) and Z != O (33 bytes) overflows the stack buffer"),
 ("c05_zk_accepts_scalar_out_of_range", "zk-sus", "base256", "zk-scalar-range",
  "cp_pokdl/pokor/sokdl/sokor_ver accept r + jn (and c_i + jn in the OR proofs): no range check on challenges / responses"),
 ("c05_zk_accepts_on_internal_error", "zk-sus", "base256", "zk-fail-open",
  "cp_pokdl/pokor/sokdl/sokor_ver return RLC_ERR (= 1 = valid) from their catch block: a 34-digit challenge or response makes bn_mod throw and the proof is accepted"),
 ("c05_sok_rejects_valid_with_identity_in_hash", "zk-sus", "base256", "sok-identity-uninitialised",
  "cp_sokdl/sokor_sig/_ver hash a fixed-size alloca block that is not cleared: when Y or T is the point at infinity (1 byte) the remaining bytes are stack garbage and a valid proof is rejected"),
]

def find(pred_name, target, cfg):
    t = [x for x in M.TARGETS if x.name == target][0]
    pred = M.KNOWN_PREDICATES[pred_name]
    for js in range(1, 400):
        env = Env(); env.job_seed = js * 7
        strat = t.strategy(env, cfg)
        hit = {}
        def body(case):
            if hit: return
            try:
                t.run(env, cfg, case)
            except Unsupported:
                return
            except RunnerCrash:
                env.close(); return
            except Violation as v:
                if pred(case, v, {}):
                    hit["case"] = case; hit["v"] = v
        test = settings(max_examples=60, database=None, deadline=None, suppress_health_check=list(HealthCheck),
                        phases=[Phase.generate])(given(strat)(body))
        hseed(js)(test)()
        if hit:
            return env, t, hit["case"], hit["v"]
        env.close()
    raise SystemExit("no witness for " + pred_name)

def holds(env, t, cfg, case, pred):
    try:
        t.run(env, cfg, case)
    except Violation as v:
        return pred(case, v, {}) and v
    except (Unsupported, RunnerCrash):
        return False
    return False

out = json.load(open("/tmp/vf_c05a/scratch/known_entries.json")) if sys.argv[1:] else []
only = sys.argv[1:]
out = [e for e in out if e["id"][4:] not in only]
for pred_name, target, cfg, slug, what in WANT:
    if only and slug not in only: continue
    pred0 = M.KNOWN_PREDICATES[pred_name]
    def pred(case, v, e, pred0=pred0):
        ms = v.details.get("mismatches")
        return pred0(case, v, e) and (not ms or len({m["cls"] for m in ms}) == 1)
    M.KNOWN_PREDICATES[pred_name + "/pure"] = pred
    if slug == "rsa-gen-e-divides-phi":
        import struct
        env = Env(); t = [x for x in M.TARGETS if x.name == target][0]
        case = dict(bits=522, kseed=struct.pack("<QI", 5, 2) + b"/2", mode=0, msg=b"abc", poison=0x5A, seed=b"12345678",
                    muts=[{"k": "flip-sig", "bit": 3}])
        v = holds(env, t, cfg, case, pred)
        assert v
    else:
        env, t, case, v = find(pred_name + "/pure", target, cfg)
    if slug == "rsa-noncanonical":
        c2 = dict(case, muts=[{"k": "sig+N", "j": 1}])
        r = holds(env, t, cfg, c2, pred)
        if r: case, v = c2, r
    # minimise: one mutation, short message
    if "muts" in case:
        for m in case["muts"]:
            c2 = dict(case, muts=[m])
            r = holds(env, t, cfg, c2, pred)
            if r:
                case, v = c2, r
                break
        if pred_name != "c05_rsa_basic_accepts_truncated_digest":
            for msg in (b"", b"abc", b"\x00" * 32 if case.get("mode") == 1 else b"abc"):
                if case.get("mode") == 1 and len(msg) != 32: continue
                c2 = dict(case, msg=msg)
                r = holds(env, t, cfg, c2, pred)
                if r:
                    case, v = c2, r
                    break
    env.close()
    rec = dict(property="C05", target=target, cfg=cfg, case=jsonable(case), msg=v.msg, details=jsonable(v.details), module="props.c05a")
    os.makedirs("/tmp/vf_c05a/replay/C05", exist_ok=True)
    path = "replay/C05/known-%s.json" % slug
    json.dump(rec, open("/tmp/vf_c05a/" + path, "w"), indent=1, sort_keys=True)
    outs = replay_case(M, target, cfg, unjson(jsonable(case)), times=2)
    print(slug, "replay:", ["FAIL" if o is not None else "held" for o in outs], "|", v.msg[:150])
    out.append(dict(property="C05", id="C05-" + slug, target=[target] + ([target.replace("-sus", "")] if target.endswith("-sus") and target != "ec-sus" else ["ecdsa", "ecss"] if target == "ec-sus" else [target + "-sus"]),
                    predicate=pred_name, witness=path, what=what))
json.dump(out, open("/tmp/vf_c05a/scratch/known_entries.json", "w"), indent=1)

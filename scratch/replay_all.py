import sys, json, glob
sys.path.insert(0, "/tmp/vf_c05a")
from engine.core import replay_case, unjson, Known
import props.c05a as M
kn = Known(M)
for f in sorted(glob.glob("/tmp/vf_c05a/replay/C05/known-*.json")):
    w = json.load(open(f))
    outs = replay_case(M, w["target"], w["cfg"], unjson(w["case"]), times=1)
    o = outs[0]
    m = kn.match(w["target"], w["cfg"], unjson(w["case"]), o) if o is not None else None
    print(f.split("known-")[1][:-5].ljust(34), "FAILS" if o is not None else "holds", "| matched:", m["id"] if m else None)

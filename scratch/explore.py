import sys, time, collections, json, traceback
sys.path.insert(0, "/tmp/vf_c05a")
from hypothesis import given, settings, HealthCheck, Phase, seed as hseed
from engine.core import Env, Unsupported, Violation, short
from engine.proto import RunnerCrash, sanitizer_signature
import props.c05a as M

def explore(target, cfg, n, evalfn, jobseed=1):
    env = Env(); env.job_seed = jobseed
    t = [x for x in M.TARGETS if x.name == target][0]
    strat = t.strategy(env, cfg)
    hist = collections.Counter(); first = {}
    stats = dict(cases=0, unsup=0, t0=time.time())
    def body(case):
        try:
            mism, labels = evalfn(env, cfg, case)
            stats["cases"] += 1
            for l in labels: env.label(l)
            for m in mism:
                hist[m["cls"]] += 1
                first.setdefault(m["cls"], (m, case))
        except Unsupported:
            stats["unsup"] += 1
        except Violation as v:
            hist["VIOL:" + v.msg[:150]] += 1
            first.setdefault("VIOL:" + v.msg[:150], (v.details, case))
        except RunnerCrash as rc:
            kind, frames = sanitizer_signature(rc.stderr_tail)
            key = "CRASH:%s %s" % (kind, frames[:3])
            hist[key] += 1
            first.setdefault(key, (rc.stderr_tail[-1500:], case))
    test = settings(max_examples=n, database=None, deadline=None, suppress_health_check=list(HealthCheck),
                    phases=[Phase.generate])(given(strat)(body))
    hseed(jobseed)(test)()
    dt = time.time() - stats["t0"]
    print("== %s@%s: %d cases, %d unsupported, %.1fs (%.1f cases/s)" % (target, cfg, stats["cases"], stats["unsup"], dt, stats["cases"]/dt))
    for k, v in sorted(env.labels.items()):
        if k.startswith("verdicts") or ":ref:" in k or "threw" in k or "accepted-nonhonest" in k or "variant:em" in k or "no-oracle" in k or "other-length" in k or "capacity" in k: print("   ", k, v)
    print("-- mismatch classes")
    for k, v in hist.most_common():
        print("  %5d %s" % (v, k))
        m, case = first[k]
        print("        first:", short(m, 700))
    env.close()
    return hist, first

if __name__ == "__main__":
    target, cfg, n = sys.argv[1], sys.argv[2], int(sys.argv[3])
    js = int(sys.argv[4]) if len(sys.argv) > 4 else 1
    fn = {"ecdsa": M.eval_pair, "ecss": M.eval_pair, "rsa": M.eval_rsa, "rsa-sus": M.eval_rsa, "ec-sus": M.eval_pair, "vbnn-sus": M.eval_vbnn, "zk-sus": M.eval_zk}.get(target) or getattr(M, "eval_" + target.replace("-", "_"))
    explore(target, cfg, n, fn, js)

"""Check framework: Hypothesis-driven generated search against reference oracles, in worker processes,
with shrinking, replay files, known-finding matching and evidence output."""
import collections
import hashlib
import importlib
import json
import multiprocessing as mp
import os
import sys
import time
import traceback

from . import build
from .gen import ints as _ints
from .proto import HarnessError, Runner, RunnerCrash, sanitizer_signature

_ints.install()     # bounded st.integers draws are uniform everywhere (see engine/gen/ints.py:uniform)

VERIF = build.VERIF
DEFAULT_SEED = 20260926


class Violation(Exception):
    """The library broke the property on this case."""

    def __init__(self, msg, **details):
        Exception.__init__(self, msg)
        self.msg = msg
        self.details = details


class Unsupported(Exception):
    """The case cannot be expressed in this configuration (not a verdict)."""


def jsonable(x):
    if isinstance(x, (bytes, bytearray)):
        return {"hex": bytes(x).hex()}
    if isinstance(x, dict):
        return {str(k): jsonable(v) for k, v in x.items()}
    if isinstance(x, (list, tuple)):
        return [jsonable(v) for v in x]
    if isinstance(x, (set, frozenset)):
        return sorted(jsonable(v) for v in x)
    if isinstance(x, (int, str, float, bool)) or x is None:
        return x
    return repr(x)


def unjson(x):
    if isinstance(x, dict):
        if set(x.keys()) == {"hex"}:
            return bytes.fromhex(x["hex"])
        return {k: unjson(v) for k, v in x.items()}
    if isinstance(x, list):
        return [unjson(v) for v in x]
    return x


def case_hash(case):
    return int.from_bytes(hashlib.blake2b(json.dumps(jsonable(case), sort_keys=True).encode(),
                                          digest_size=8).digest(), "little")


def short(x, n=400):
    s = json.dumps(jsonable(x), sort_keys=True)
    return s if len(s) <= n else s[:n] + "...(%d chars)" % len(s)


class Env:
    """Per-process execution environment: runners per configuration, counters."""

    def __init__(self):
        self.runners = {}
        self.labels = collections.Counter()
        self.cache = {}
        self.job_seed = 0        # lets a strategy fix an expensive-to-switch parameter (curve) per job

    def runner(self, cfg, **kw):
        r = self.runners.get(cfg)
        if r is None:
            r = Runner(cfg, **kw)
            self.runners[cfg] = r
        return r

    def label(self, name, n=1):
        self.labels[name] += n

    def close(self):
        for r in self.runners.values():
            r.close()
        self.runners = {}


class Target:
    """One generated search: strategy(env, cfg) -> Hypothesis strategy of JSON-able case dicts;
    run(env, cfg, case) executes the case against the oracle, raises Violation, returns True when the
    case is non-trivial by the property's rule (or a (nontrivial, labels) tuple)."""

    def __init__(self, name, strategy, run, cfgs, quick, thorough, needs=None, max_size=None, job_size=None,
                 fuzz=None):
        self.name = name
        self.strategy = strategy
        self.run = run
        self.cfgs = cfgs            # {"quick": [...], "thorough": [...]}
        self.examples = {"quick": quick, "thorough": thorough}   # examples per (cfg) in total
        self.needs = needs          # optional predicate(env, cfg) -> bool (supported?)
        self.job_size = job_size    # optional {"quick": n, "thorough": m} overriding the module's JOB_SIZE
        self.fuzz = fuzz            # libFuzzer target name (engine/fuzz/<name>.c): coverage-guided search instead of
        #                             Hypothesis; `quick`/`thorough` are then -runs per job; run() replays one input


# ---------------------------------------------------------------------------------- known findings

def load_known():
    p = os.path.join(VERIF, "known_findings.json")
    if not os.path.exists(p):
        return {"findings": [], "fixed": []}
    return json.load(open(p))


class Known:
    def __init__(self, mod):
        data = load_known()
        self.entries = [e for e in data.get("findings", [])]
        self.preds = getattr(mod, "KNOWN_PREDICATES", {})
        # shared predicates (sanitizer reports are matched by location in any property's run)
        from . import known_preds
        self.preds = dict(known_preds.PREDICATES, **self.preds)

    def match(self, target, cfg, case, v):
        for e in self.entries:
            if e.get("target") not in (None, "*", target) and not (
                    isinstance(e.get("target"), list) and target in e["target"]):
                continue
            if e.get("cfgs") and cfg not in e["cfgs"]:
                continue
            pred = self.preds.get(e["predicate"])
            if pred is None:
                continue
            try:
                if pred(case, v, e):
                    return e
            except Exception:
                continue
        return None


# ---------------------------------------------------------------------------------- worker side

def _run_job(job):
    """Executed in a worker process. job = dict(module, target, cfg, n, seed, deadline, tier)."""
    import hypothesis
    from hypothesis import HealthCheck, Phase, given, settings
    from hypothesis import seed as hseed

    t0 = time.time()
    mod = importlib.import_module(job["module"])
    target = [t for t in mod.TARGETS if t.name == job["target"]][0]
    env = Env()
    env.job_seed = job["seed"]
    known = Known(mod)
    out = dict(target=target.name, cfg=job["cfg"], evaluations=0, nontrivial=set(), labels=None, samples=[],
               failure=None, excluded=collections.Counter(), unsupported=0, crashes=0, error=None, wall=0.0,
               requested=job["n"], budget_hit=False)
    state = {"last_fail": None}
    cfg = job["cfg"]
    if time.time() > job["deadline"]:
        out["budget_hit"] = True
        out["labels"] = env.labels
        return out
    if target.fuzz:
        try:
            _run_fuzz_job(job, target, out)
        except Exception:
            out["error"] = traceback.format_exc()
        out["labels"] = env.labels
        out["wall"] = time.time() - t0
        return out
    try:
        if target.needs is not None and not target.needs(env, cfg):
            out["unsupported"] = 1
            out["labels"] = env.labels
            return out
        strat = target.strategy(env, cfg)

        def body(case):
            if state["last_fail"] is None and time.time() > job["deadline"]:
                # budget exhausted: explored less. (Never while shrinking a failure: a silently passing body would
                # make Hypothesis report the failure as flaky.)
                out["budget_hit"] = True
                return
            try:
                res = target.run(env, cfg, case)
            except Unsupported:
                out["unsupported"] += 1
                return
            except RunnerCrash as rc:
                out["crashes"] += 1
                kind, frames = sanitizer_signature(rc.stderr_tail)
                v = Violation("runner %s (%s)" % (rc.why, kind or "rc=%r" % rc.rc), crash=True, kind=kind,
                              frames=frames, why=rc.why, stderr=rc.stderr_tail[-2500:],
                              ub=[kind] if kind and kind.startswith("UBSan|") else None)
                if rc.why == "timeout":
                    # a time-out is load noise / inconclusive, never a violation by itself
                    env.label("inconclusive:timeout")
                    return
                res = v
            except Violation as v:
                res = v
            out["evaluations"] += 1
            if isinstance(res, Violation):
                e = known.match(target.name, cfg, case, res)
                if e is not None:
                    out["excluded"][e["id"]] += 1
                    return
                state["last_fail"] = (case, res)
                raise res
            nt = res
            if isinstance(res, tuple):
                nt = res[0]
                for lb in res[1]:
                    env.label(lb)
            if nt:
                out["nontrivial"].add(case_hash(case))
                if len(out["samples"]) < 3:
                    out["samples"].append(jsonable(case))

        test = settings(max_examples=job["n"], database=None, deadline=None, derandomize=False,
                        report_multiple_bugs=False, suppress_health_check=list(HealthCheck),
                        phases=[Phase.generate, Phase.shrink], print_blob=False)(given(strat)(body))
        test = hseed(job["seed"])(test)
        try:
            test()
        except Violation:
            case, v = state["last_fail"]
            out["failure"] = dict(case=jsonable(case), msg=v.msg, details=jsonable(v.details))
        except HarnessError:
            raise
        except hypothesis.errors.Flaky:
            # the driver's 3x replay in fresh runners decides whether the last failing case is real
            if state["last_fail"]:
                case, v = state["last_fail"]
                out["failure"] = dict(case=jsonable(case), msg=v.msg, details=jsonable(v.details))
            else:
                raise
        except hypothesis.errors.Unsatisfiable:
            out["unsupported"] += 1
    except Exception:
        out["error"] = traceback.format_exc()
    finally:
        env.close()
    out["labels"] = env.labels
    out["wall"] = time.time() - t0
    return out


def fuzz_replay(cfg, fuzz_target, data, timeout=120):
    """Run one input through a libFuzzer binary. Returns None if it passes, else a Violation."""
    import subprocess
    import tempfile
    exe = build.ensure_fuzz(cfg, fuzz_target)
    wd = os.path.join(VERIF, ".work")
    os.makedirs(wd, exist_ok=True)
    with tempfile.NamedTemporaryFile(dir=wd, prefix="fzin_", delete=False) as f:
        f.write(data)
        path = f.name
    try:
        env = dict(os.environ, ASAN_OPTIONS="detect_leaks=0:abort_on_error=0:symbolize=1",
                   UBSAN_OPTIONS="print_stacktrace=1:halt_on_error=1")
        p = subprocess.run([exe, path], stdout=subprocess.PIPE, stderr=subprocess.STDOUT, timeout=timeout, env=env)
        if p.returncode == 0:
            return None
        txt = p.stdout.decode(errors="replace")
        kind, frames = sanitizer_signature(txt)
        import re
        m = re.search(r"FUZZ-ORACLE-VIOLATION: ([^\n]*)", txt)
        msg = "fuzz target %s: %s" % (fuzz_target, m.group(1) if m else (kind or "crash rc=%d" % p.returncode))
        return Violation(msg, crash=True, kind=kind, frames=frames, oracle=m.group(1) if m else None,
                         stderr=txt[-2500:], ub=[kind] if kind and kind.startswith("UBSan|") else None)
    except subprocess.TimeoutExpired:
        return None
    finally:
        try:
            os.remove(path)
        except OSError:
            pass


def _run_fuzz_job(job, target, out):
    """One libFuzzer campaign: fresh corpus dir + committed seed corpus, -runs bound, crash/leak artefacts only."""
    import glob
    import re
    import shutil
    import subprocess
    cfg = job["cfg"]
    exe = build.ensure_fuzz(cfg, target.fuzz)
    wd = os.path.join(VERIF, ".work", "fz_%s_%d" % (target.fuzz, job["seed"] & 0xFFFFFFFF))
    shutil.rmtree(wd, ignore_errors=True)
    os.makedirs(os.path.join(wd, "corpus"))
    os.makedirs(os.path.join(wd, "art"))
    seeds = os.path.join(VERIF, "engine", "fuzz", "corpus", target.fuzz)
    args = [exe, "-runs=%d" % job["n"], "-seed=%d" % ((job["seed"] % 2000000000) + 1), "-max_len=1024",
            "-artifact_prefix=" + os.path.join(wd, "art") + os.sep, "-print_final_stats=1", "-timeout=30",
            "-max_total_time=%d" % max(10, int(job["deadline"] - time.time())), os.path.join(wd, "corpus")]
    if os.path.isdir(seeds) and (job["seed"] % 2 == 0):
        args.append(seeds)          # every other job starts from the committed seeds, the others from an empty corpus
    env = dict(os.environ, ASAN_OPTIONS="detect_leaks=0:abort_on_error=0:symbolize=1",
               UBSAN_OPTIONS="print_stacktrace=1:halt_on_error=1")
    p = subprocess.run(args, stdout=subprocess.PIPE, stderr=subprocess.STDOUT, env=env)
    txt = p.stdout.decode(errors="replace")
    m = re.search(r"stat::number_of_executed_units:\s*(\d+)", txt)
    execs = int(m.group(1)) if m else len(re.findall(r"^#\d+", txt, re.M))
    out["evaluations"] += execs
    for f in glob.glob(os.path.join(wd, "corpus", "*")):
        try:
            out["nontrivial"].add(int(os.path.basename(f)[:16], 16))
            if len(out["samples"]) < 3:
                out["samples"].append({"input": {"hex": open(f, "rb").read()[:200].hex()}})
        except Exception:
            pass
    arts = [a for a in glob.glob(os.path.join(wd, "art", "*")) if os.path.basename(a).startswith(("crash-", "leak-"))]
    mod = importlib.import_module(job["module"])
    known = Known(mod)
    for a in sorted(arts):
        data = open(a, "rb").read()
        case = {"input": data}
        v = fuzz_replay(cfg, target.fuzz, data)
        if v is None:
            continue
        e = known.match(target.name, cfg, case, v)
        if e is not None:
            out["excluded"][e["id"]] += 1
            continue
        out["failure"] = dict(case=jsonable(case), msg=v.msg, details=jsonable(v.details))
        break
    shutil.rmtree(wd, ignore_errors=True)


def replay_case(mod, target_name, cfg, case, times=3):
    """Execute one case in fresh runners. Returns list of outcomes: None (held) or Violation."""
    target = [t for t in mod.TARGETS if t.name == target_name][0]
    outs = []
    if target.fuzz:
        for _ in range(times):
            outs.append(fuzz_replay(cfg, target.fuzz, case["input"]))
        return outs
    for _ in range(times):
        env = Env()
        try:
            try:
                target.run(env, cfg, case)
                outs.append(None)
            except Unsupported:
                outs.append(None)
            except RunnerCrash as rc:
                kind, frames = sanitizer_signature(rc.stderr_tail)
                if rc.why == "timeout":
                    outs.append(None)
                else:
                    outs.append(Violation("runner %s (%s)" % (rc.why, kind or "rc=%r" % rc.rc), crash=True, kind=kind,
                                          frames=frames, why=rc.why, stderr=rc.stderr_tail[-2500:],
                                          ub=[kind] if kind and kind.startswith("UBSan|") else None))
            except Violation as v:
                outs.append(v)
        finally:
            env.close()
    return outs


# ---------------------------------------------------------------------------------- driver side

def _out_root():
    """where new replay files and evidence go: /verif, or a scratch directory while a check is run against a
    deliberately changed tree (tools/verify_seed.py, tools/seed_recheck.py)"""
    return os.environ.get("VERIF_SCRATCH_OUT") or VERIF


def _write_replay(prop, rec):
    d = os.path.join(_out_root(), "replay", prop)
    os.makedirs(d, exist_ok=True)
    h = "%016x" % case_hash([rec["target"], rec["cfg"], rec["case"]])
    p = os.path.join(d, "%s.json" % h)
    json.dump(rec, open(p, "w"), indent=1, sort_keys=True)
    return p


def run_check(prop, tier, seed, jobs=16, only=None, scale=1.0):
    t0 = time.time()
    os.environ["VERIF_TIER_ACTIVE"] = tier
    modname = "props.%s" % prop.lower()
    mod = importlib.import_module(modname)
    os.makedirs(os.path.join(VERIF, ".work"), exist_ok=True)
    os.makedirs(os.path.join(_out_root(), "evidence"), exist_ok=True)

    # 0. oracle self-test: a broken reference must never look like a violation
    if hasattr(mod, "self_test"):
        try:
            mod.self_test()
        except Exception:
            print("HARNESS-ERROR: reference self-test failed for %s\n%s" % (prop, traceback.format_exc()))
            return 2

    # 1. builds
    targets = [t for t in mod.TARGETS if only is None or t.name in only]
    only_cfgs = [c for c in os.environ.get("VERIF_ONLY_CFGS", "").split(",") if c]   # diagnostics only
    cfgs = []
    for t in targets:
        for c in t.cfgs.get(tier, t.cfgs["quick"]):
            if only_cfgs and c not in only_cfgs:
                continue
            if c not in cfgs:
                cfgs.append(c)
    unsupported_cfgs = {}
    tb = time.time()
    optional = set(getattr(mod, "OPTIONAL_CFGS", ()))
    for c in cfgs:
        try:
            build.ensure(c)
        except build.BuildError as e:
            if c in optional:
                unsupported_cfgs[c] = str(e)[-400:]
            else:
                print("HARNESS-ERROR: build of %s failed:\n%s" % (c, str(e)[-3000:]))
                return 2
    build_s = time.time() - tb

    # 2. jobs
    budget = getattr(mod, "BUDGET_S", {"quick": 240, "thorough": 1800})[tier]
    budget = float(os.environ.get("VERIF_BUDGET_S", budget))
    deadline = time.time() + budget
    joblist = []
    per_job = getattr(mod, "JOB_SIZE", {"quick": 1500, "thorough": 4000})[tier]
    k = 0
    for t in targets:
        for c in t.cfgs.get(tier, t.cfgs["quick"]):
            if c in unsupported_cfgs or (only_cfgs and c not in only_cfgs):
                continue
            n = max(1, int(t.examples[tier] * scale))
            pj = t.job_size[tier] if t.job_size else per_job
            parts = max(1, (n + pj - 1) // pj)
            for i in range(parts):
                k += 1
                joblist.append(dict(module=modname, target=t.name, cfg=c, n=(n + parts - 1) // parts,
                                    seed=(seed * 1009 + k) & 0xFFFFFFFFFFFF, deadline=deadline, tier=tier,
                                    pos=(i + 0.5) / parts))
    # deterministic interleaving by the relative position of a part within its target: at every prefix of the list all
    # targets have had the same share of their cases, so a budget hit thins every target evenly and none is starved
    # (a plain shuffle left `karat-sqr` with 0 evaluations in one loaded run)
    joblist.sort(key=lambda j: (j["pos"], hashlib.blake2b(str(j["seed"]).encode(), digest_size=8).digest()))

    results = []
    harness_errors = []
    ctx = mp.get_context("fork")
    with ctx.Pool(processes=min(jobs, max(1, len(joblist))), maxtasksperchild=8) as pool:
        for r in pool.imap_unordered(_run_job, joblist):
            results.append(r)
            if r["error"]:
                harness_errors.append((r["target"], r["cfg"], r["error"]))

    if harness_errors:
        for t, c, e in harness_errors[:3]:
            print("HARNESS-ERROR: target=%s cfg=%s\n%s" % (t, c, e))
        return 2

    # 3. merge
    known_data = load_known()
    evaluations = sum(r["evaluations"] for r in results)
    nontriv = set()
    labels = collections.Counter()
    excluded = collections.Counter()
    per_target = {}
    samples = []
    budget_hit = False
    for r in results:
        nontriv |= {(r["target"], r["cfg"], h) for h in r["nontrivial"]}
        labels.update(r["labels"] or {})
        excluded.update(r["excluded"])
        pt = per_target.setdefault("%s@%s" % (r["target"], r["cfg"]),
                                   dict(evaluations=0, nontrivial=0, unsupported=0, crashes=0, wall_s=0.0))
        pt["evaluations"] += r["evaluations"]
        pt["nontrivial"] += len(r["nontrivial"])
        pt["unsupported"] += r["unsupported"]
        pt["crashes"] += r["crashes"]
        pt["wall_s"] = round(pt["wall_s"] + r["wall"], 2)
        budget_hit = budget_hit or r["budget_hit"]
    seen_t = set()
    for r in results:
        if r["samples"] and r["target"] not in seen_t and len(samples) < 40:
            seen_t.add(r["target"])
            samples.append(dict(target=r["target"], cfg=r["cfg"], case=r["samples"][0]))

    # 4. confirm failures (3/3 in fresh runners) and write replay files
    violations = []
    unreproduced = []
    seen_fail = set()
    for r in results:
        f = r["failure"]
        if not f:
            continue
        key = (r["target"], r["cfg"], json.dumps(f["case"], sort_keys=True))
        if key in seen_fail:
            continue
        seen_fail.add(key)
        outs = replay_case(mod, r["target"], r["cfg"], unjson(f["case"]))
        rec = dict(property=prop, target=r["target"], cfg=r["cfg"], case=f["case"], msg=f["msg"],
                   details=f["details"], module=modname)
        if all(o is not None for o in outs):
            path = _write_replay(prop, rec)
            violations.append((path, rec))
        else:
            unreproduced.append(rec)

    # 5. witnesses of known findings and regression replays of fixed ones
    known_lines = []
    regress_fail = []
    known_matcher = Known(mod)
    for e in known_data.get("findings", []):
        if e["property"] != prop:
            continue
        w = json.load(open(os.path.join(VERIF, e["witness"])))
        if w["cfg"] not in cfgs:
            # the witness lives in a configuration this tier does not build: listed, not replayed here
            known_lines.append("KNOWN-FINDING: property=%s %s [witness configuration %s is outside the %s tier; "
                               "not replayed here]" % (prop, e["what"], w["cfg"], tier))
            continue
        try:
            build.ensure(w["cfg"])
            outs = replay_case(mod, w["target"], w["cfg"], unjson(w["case"]), times=1)
        except build.BuildError:
            outs = [None]
        if outs[0] is not None:
            known_lines.append("KNOWN-FINDING: property=%s %s" % (prop, e["what"]))
    rdir = os.path.join(VERIF, "replay", prop)
    if os.path.isdir(rdir):
        for fn in sorted(os.listdir(rdir)):
            if not fn.startswith("regress-"):
                continue
            w = json.load(open(os.path.join(rdir, fn)))
            if only is not None and w["target"] not in only:
                continue
            if w["cfg"] not in cfgs:
                continue        # regressions on configurations outside this tier are replayed by the thorough tier
            try:
                build.ensure(w["cfg"])
            except build.BuildError:
                continue
            outs = replay_case(mod, w["target"], w["cfg"], unjson(w["case"]), times=3)
            evaluations += 1
            if all(o is not None for o in outs):
                # a witness that now only trips over a DIFFERENT, listed known finding is not a regression
                if known_matcher.match(w["target"], w["cfg"], unjson(w["case"]), outs[0]) is not None:
                    continue
                regress_fail.append((os.path.join(rdir, fn), w, outs[0]))

    for line in known_lines:
        print(line)
    for path, rec in violations:
        print("VIOLATION property=%s replay=%s" % (prop, os.path.relpath(path, VERIF)))
        print("  target=%s cfg=%s: %s" % (rec["target"], rec["cfg"], rec["msg"]))
        print("  case=%s" % short(rec["case"], 600))
    for path, w, v in regress_fail:
        print("VIOLATION property=%s replay=%s" % (prop, os.path.relpath(path, VERIF)))
        print("  regression of a fixed finding: target=%s cfg=%s: %s" % (w["target"], w["cfg"], v.msg))
    for rec in unreproduced:
        print("UNREPRODUCED (inconclusive, not a violation): target=%s cfg=%s %s" % (rec["target"], rec["cfg"], rec["msg"]))

    nviol = len(violations) + len(regress_fail)
    wall = time.time() - t0
    ev = dict(
        property_id=prop, tier=tier, seed=seed, level=getattr(mod, "LEVEL", "exploration"),
        coverage=dict(
            evaluations=evaluations,
            distinct_nontrivial=len(nontriv),
            rule=mod.RULE,
            samples=samples if samples else [dict(note="no non-trivial sample collected")],
            per_target=per_target,
            classes=dict(sorted(labels.items())),
            configurations=cfgs,
            unsupported_configurations=unsupported_cfgs,
            excluded_known_finding_cases=dict(excluded),
            known_findings_still_present=known_lines,
            unreproduced=[dict(target=u["target"], cfg=u["cfg"], msg=u["msg"]) for u in unreproduced],
            budget_hit=budget_hit,
            build_s=round(build_s, 1),
            jobs=len(joblist),
        ),
        assumptions=list(getattr(mod, "ASSUMPTIONS", [])),
        wall_s=round(wall, 2),
        violations=nviol,
    )
    extra = getattr(mod, "evidence_extra", None)
    if extra:
        try:
            ev["coverage"].update(extra(results))
        except Exception:
            pass
    if getattr(mod, "EXHAUSTIVE", False):
        ev["coverage"]["exhaustive"] = True
    evp = os.path.join(_out_root(), "evidence", "%s.json" % prop)
    try:
        import jsonschema
        schema = json.load(open("/root/.vp/EVIDENCE.schema.json")) if os.path.exists("/root/.vp/EVIDENCE.schema.json") \
            else json.load(open(os.path.join(VERIF, "engine", "EVIDENCE.schema.json")))
        jsonschema.validate(ev, schema)
    except ImportError:
        pass
    except Exception as e:
        if nviol:
            # a grossly broken tree can stop every job at its first example; the verdict stands
            json.dump(ev, open(evp, "w"), indent=1, sort_keys=True)
            print("%s %s: %d evaluations, %d violations (evidence thin: %s)" % (prop, tier, evaluations, nviol, str(e)[:120]))
            return 1
        print("HARNESS-ERROR: evidence does not validate: %s" % str(e)[:500])
        json.dump(ev, open(evp + ".invalid", "w"), indent=1)
        return 2
    json.dump(ev, open(evp, "w"), indent=1, sort_keys=True)
    print("%s %s: %d evaluations, %d distinct non-trivial, %d excluded (known), %d violations, %.1fs%s" % (
        prop, tier, evaluations, len(nontriv), sum(excluded.values()), nviol, wall,
        " [budget hit: explored less]" if budget_hit else ""))
    return 1 if nviol else 0


def run_replay(path):
    rec = json.load(open(path))
    mod = importlib.import_module(rec["module"])
    if hasattr(mod, "self_test"):
        mod.self_test()
    build.ensure(rec["cfg"])
    outs = replay_case(mod, rec["target"], rec["cfg"], unjson(rec["case"]), times=1)
    if outs[0] is None:
        print("replay: property held on this case")
        return 0
    print("VIOLATION property=%s replay=%s" % (rec["property"], path))
    print("  %s" % outs[0].msg)
    print("  details=%s" % short(outs[0].details, 3000))
    return 1

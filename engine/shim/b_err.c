/* C19, part 1: an interpreter for generated try/throw programs that executes every shape with the REAL
 * RLC_TRY / RLC_CATCH / RLC_CATCH_ANY / RLC_FINALLY / RLC_THROW macros and records an event trace.
 *
 * Program encoding (built by props/c19.py):
 *   seq  := u16 bytelen, node*
 *   node := 01 n            MARK n
 *         | 02 code         THROW code          (RLC_THROW(code); execution continues when no block encloses it)
 *         | 03              GETCODE             (err_get_code())
 *         | 04              GETMSG              (err_get_msg(), only executed when an unprotected error is recorded)
 *         | 05 pad seq      CALL                (sub-program in a separate, non-inlined C frame)
 *         | 06 kind id16 seq(body) seq(handler) [seq(finally) when kind & 2]
 *                           TRY; kind bit0: 0 = RLC_CATCH(e), 1 = RLC_CATCH_ANY; bit1: has RLC_FINALLY
 * Trace: fixed 7-byte records (tag, u16 a, i32 b):
 *   'M' n | 'T' code | 'G' code | 'E' number msg_ok | 'e' | 'C' depth | 'c' depth | 'B' id | 'H' id value(-1 = any)
 *   'F' id | 'R' id (ctx->last == value before the block) | 'L' class(0 NULL,1 &ctx->error,2 other) number|code<<8
 */
#include "vs.h"

#ifdef CHECK

#define C19_SENTINEL 99
#define TR_CAP (7 * 4096)

static uint8_t tr[TR_CAP];
static size_t trn;
static int tr_overflow;

static void ev(uint8_t tag, uint32_t a, int32_t b) {
	if (trn + 7 > TR_CAP) { tr_overflow = 1; return; }
	tr[trn++] = tag;
	tr[trn++] = (uint8_t)(a & 0xFF);
	tr[trn++] = (uint8_t)((a >> 8) & 0xFF);
	memcpy(tr + trn, &b, 4);
	trn += 4;
}

static void run_seq(const uint8_t *p, const uint8_t *end, int depth);

static uint16_t get16(const uint8_t *p) { return (uint16_t)(p[0] | (p[1] << 8)); }

/* One C function per syntactic form, so that each is literally the documented usage of the macros. */

static void __attribute__((noinline)) try_var(int id, const uint8_t *b, const uint8_t *be, const uint8_t *h,
		const uint8_t *he, int depth) {
	err_t e = C19_SENTINEL;
	sts_t *before = core_get()->last;
	ev('B', id, 0);
	RLC_TRY {
		run_seq(b, be, depth);
	} RLC_CATCH(e) {
		ev('H', id, e);
		run_seq(h, he, depth);
	}
	ev('R', id, core_get()->last == before);
}

static void __attribute__((noinline)) try_any(int id, const uint8_t *b, const uint8_t *be, const uint8_t *h,
		const uint8_t *he, int depth) {
	sts_t *before = core_get()->last;
	ev('B', id, 0);
	RLC_TRY {
		run_seq(b, be, depth);
	} RLC_CATCH_ANY {
		ev('H', id, -1);
		run_seq(h, he, depth);
	}
	ev('R', id, core_get()->last == before);
}

static void __attribute__((noinline)) try_var_fin(int id, const uint8_t *b, const uint8_t *be, const uint8_t *h,
		const uint8_t *he, const uint8_t *f, const uint8_t *fe, int depth) {
	err_t e = C19_SENTINEL;
	sts_t *before = core_get()->last;
	ev('B', id, 0);
	RLC_TRY {
		run_seq(b, be, depth);
	} RLC_CATCH(e) {
		ev('H', id, e);
		run_seq(h, he, depth);
	} RLC_FINALLY {
		ev('F', id, 0);
		run_seq(f, fe, depth);
	}
	ev('R', id, core_get()->last == before);
}

static void __attribute__((noinline)) try_any_fin(int id, const uint8_t *b, const uint8_t *be, const uint8_t *h,
		const uint8_t *he, const uint8_t *f, const uint8_t *fe, int depth) {
	sts_t *before = core_get()->last;
	ev('B', id, 0);
	RLC_TRY {
		run_seq(b, be, depth);
	} RLC_CATCH_ANY {
		ev('H', id, -1);
		run_seq(h, he, depth);
	} RLC_FINALLY {
		ev('F', id, 0);
		run_seq(f, fe, depth);
	}
	ev('R', id, core_get()->last == before);
}

static void __attribute__((noinline)) call_frame(const uint8_t *p, const uint8_t *end, int depth, int pad) {
	volatile uint8_t filler[48];
	for (size_t i = 0; i < sizeof filler; i++) filler[i] = (uint8_t)(pad + i);
	ev('C', depth, 0);
	run_seq(p, end, depth + 1);
	ev('c', depth, filler[pad % sizeof filler]);
}

static void __attribute__((noinline)) big_frame(const uint8_t *p, const uint8_t *end, int depth, int pad) {
	volatile uint8_t filler[1500];
	for (size_t i = 0; i < sizeof filler; i += 64) filler[i] = (uint8_t)(pad + i);
	ev('C', depth, 0);
	run_seq(p, end, depth + 1);
	ev('c', depth, filler[64 * (pad % 20)]);
}

static void __attribute__((noinline)) do_throw(int code) {
	RLC_THROW(code);
}

static void __attribute__((noinline)) run_seq(const uint8_t *p, const uint8_t *end, int depth) {
	if (depth > 40) vs_die("c19: program too deep");
	while (p < end) {
		uint8_t t = *p++;
		switch (t) {
			case 1:
				ev('M', *p++, 0);
				break;
			case 2: {
				int code = *p++;
				ev('T', code & 0x7F, 0);
				if (code & 0x80) {
					/* thrown from a leaf function of its own */
					do_throw(code & 0x7F);
				} else {
					RLC_THROW(code);
				}
				break;
			}
			case 3:
				ev('G', err_get_code(), 0);
				break;
			case 4: {
				ctx_t *cx = core_get();
				if (cx->last == &cx->error) {
					err_t e2 = C19_SENTINEL;
					char *msg = NULL;
					err_get_msg(&e2, &msg);
					ev('E', e2, (e2 > 0 && e2 < ERR_MAX) ? msg == cx->reason[e2] : 0);
				} else {
					ev('e', 0, 0);
				}
				break;
			}
			case 5: {
				int pad = *p++;
				size_t n = get16(p);
				p += 2;
				if ((size_t)(end - p) < n) vs_die("c19: bad call length");
				if (pad & 1) big_frame(p, p + n, depth, pad); else call_frame(p, p + n, depth, pad);
				p += n;
				break;
			}
			case 6: {
				int kind = *p++;
				int id = get16(p);
				p += 2;
				const uint8_t *s[3], *se[3];
				int parts = (kind & 2) ? 3 : 2;
				for (int i = 0; i < parts; i++) {
					size_t n = get16(p);
					p += 2;
					if ((size_t)(end - p) < n) vs_die("c19: bad try length");
					s[i] = p;
					se[i] = p + n;
					p += n;
				}
				switch (kind & 3) {
					case 0: try_var(id, s[0], se[0], s[1], se[1], depth + 1); break;
					case 1: try_any(id, s[0], se[0], s[1], se[1], depth + 1); break;
					case 2: try_var_fin(id, s[0], se[0], s[1], se[1], s[2], se[2], depth + 1); break;
					default: try_any_fin(id, s[0], se[0], s[1], se[1], s[2], se[2], depth + 1); break;
				}
				break;
			}
			default:
				vs_die("c19: bad opcode");
		}
	}
}

/* c19_prog(buf): run the program; the trace stays in a static buffer because the program may leave through
 * a non-local exit into the runner's own handler. */
BIND(c19_prog) {
	const uint8_t *p = BUF(0);
	size_t n = BUFLEN(0);
	trn = 0;
	tr_overflow = 0;
	if (n < 2 || (size_t)get16(p) != n - 2) vs_die("c19: bad program length");
	run_seq(p + 2, p + n, 0);
	ctx_t *cx = core_get();
	int cls = cx->last == NULL ? 0 : (cx->last == &cx->error ? 1 : 2);
	ev('L', cls, (cls == 1 ? cx->number : 0) | (cx->code << 8));
}

BIND(c19_trace) {
	if (tr_overflow) vs_die("c19: trace overflow");
	ret_blob(c, tr, trn);
}

#endif /* CHECK */

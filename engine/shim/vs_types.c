/* Object construction / dump / hash / free per slot type. Objects are written directly into the
 * library's public structs so that no decoder under test is on the path of the arithmetic checks. */
#include "vs.h"

/* -------------------------------------------------------------------- BN */

static int bn_fill(bn_st *a, vs_rd *r) {
	uint8_t sign = rd_u8(r);
	size_t len;
	const uint8_t *mag = rd_blob(r, &len);
	if (r->bad) return -1;
	while (len > 0 && mag[len - 1] == 0) len--;
	size_t digs = (len * 8 + RLC_DIG - 1) / RLC_DIG;
	if (digs == 0) digs = 1;
#if ALLOC == AUTO
	if (digs > RLC_BN_SIZE) return 1;
#endif
	bn_make(a, digs);
	if (a->alloc < digs) return 1;
	memset(a->dp, vs_poison, a->alloc * sizeof(dig_t));
	for (size_t i = 0; i < digs; i++) a->dp[i] = 0;
	for (size_t i = 0; i < len; i++) {
		a->dp[i / (RLC_DIG / 8)] |= (dig_t)mag[i] << (8 * (i % (RLC_DIG / 8)));
	}
	a->used = digs;
	a->sign = (sign && len > 0) ? RLC_NEG : RLC_POS;
	return 0;
}

static void bn_dump(const bn_st *a, vs_wr *w) {
	wr_u32(w, (uint32_t)a->sign);
	wr_u32(w, (uint32_t)a->used);
	wr_u32(w, (uint32_t)a->alloc);
	wr_u8(w, (uint8_t)sizeof(dig_t));
	size_t n = a->used <= a->alloc ? a->used : a->alloc;
	wr_u32(w, (uint32_t)n);
	wr_raw(w, a->dp, n * sizeof(dig_t));
}

static uint64_t bn_hash(const bn_st *a) {
	uint64_t h = 0xcbf29ce484222325ULL;
	h = vs_fnv(h, &a->sign, sizeof a->sign);
	h = vs_fnv(h, &a->used, sizeof a->used);
	size_t n = a->used <= a->alloc ? a->used : a->alloc;
	h = vs_fnv(h, a->dp, n * sizeof(dig_t));
	return h;
}

/* vectors of bn_t: contiguous bn_st in AUTO, array of pointers in DYNAMIC */
static bn_t *bnv_new(size_t n) {
	bn_t *v = (bn_t *)vs_alloc_poisoned((n ? n : 1) * sizeof(bn_t));
#if ALLOC != AUTO
	for (size_t i = 0; i < n; i++) v[i] = (bn_st *)vs_alloc_poisoned(sizeof(bn_st));
#endif
	return v;
}

/* -------------------------------------------------------------- dispatch */

int vs_new_obj_ext(vs_slot *s, int type, vs_rd *r);
int vs_dump_obj_ext(const vs_slot *s, vs_wr *w);
int vs_free_obj_ext(vs_slot *s);
int vs_hash_obj_ext(const vs_slot *s, uint64_t *h);

int vs_new_obj(vs_slot *s, int type, vs_rd *r) {
	s->sub = 0;
	s->len = 0;
	s->cap = 0;
	s->p = NULL;
	switch (type) {
		case VT_BN: {
			bn_st *a = (bn_st *)vs_alloc_poisoned(sizeof(bn_st));
			int rc = bn_fill(a, r);
			if (rc != 0) { free(a); return rc; }
			s->p = a;
			s->type = VT_BN;
			return 0;
		}
		case VT_BNV: {
			uint32_t n = rd_u32(r);
			if (r->bad || n > 4096) return -1;
			bn_t *v = bnv_new(n);
			s->p = v;
			s->len = n;
			s->type = VT_BNV;
			for (uint32_t i = 0; i < n; i++) {
				int rc = bn_fill(v[i], r);
				if (rc != 0) {
					/* leave the rest constructed as zero so that free works */
					for (uint32_t j = i; j < n; j++) { bn_make(v[j], 1); }
					vs_free_obj(s);
					return rc;
				}
			}
			return 0;
		}
		case VT_BUF: {
			size_t len;
			const uint8_t *d = rd_blob(r, &len);
			if (r->bad) return -1;
			uint8_t *b = (uint8_t *)vs_alloc_poisoned(len);
			if (len) memcpy(b, d, len);
			s->p = b;
			s->len = len;
			s->cap = len;
			s->type = VT_BUF;
			return 0;
		}
		default:
			return vs_new_obj_ext(s, type, r);
	}
}

void vs_dump_obj(const vs_slot *s, vs_wr *w) {
	switch (s->type) {
		case VT_BN:
			bn_dump((const bn_st *)s->p, w);
			return;
		case VT_BNV: {
			bn_t *v = (bn_t *)s->p;
			wr_u32(w, (uint32_t)s->len);
			for (size_t i = 0; i < s->len; i++) bn_dump(v[i], w);
			return;
		}
		case VT_BUF:
			wr_blob(w, s->p, s->len);
			return;
		default:
			if (vs_dump_obj_ext(s, w) != 0) vs_die("dump: unknown slot type");
	}
}

uint64_t vs_hash_obj(const vs_slot *s) {
	uint64_t h = 0xcbf29ce484222325ULL;
	switch (s->type) {
		case VT_BN:
			return bn_hash((const bn_st *)s->p);
		case VT_BNV: {
			bn_t *v = (bn_t *)s->p;
			for (size_t i = 0; i < s->len; i++) { uint64_t x = bn_hash(v[i]); h = vs_fnv(h, &x, 8); }
			return h;
		}
		case VT_BUF:
			return vs_fnv(h, s->p, s->len);
		default:
			if (vs_hash_obj_ext(s, &h) != 0) vs_die("hash: unknown slot type");
			return h;
	}
}

void vs_free_obj(vs_slot *s) {
	switch (s->type) {
		case VT_BN:
			bn_clean((bn_st *)s->p);
			free(s->p);
			break;
		case VT_BNV: {
			bn_t *v = (bn_t *)s->p;
			for (size_t i = 0; i < s->len; i++) {
				bn_clean(v[i]);
#if ALLOC != AUTO
				free(v[i]);
#endif
			}
			free(v);
			break;
		}
		case VT_BUF:
			free(s->p);
			break;
		default:
			if (vs_free_obj_ext(s) != 0) vs_die("free: unknown slot type");
	}
	s->p = NULL;
	s->type = VT_NONE;
}

/* C15 state injection: install a chosen working state (V || C, reseed counter) in the public context struct so that
 * carry chains at ANY byte position of the state arithmetic are reachable by construction (a seed search can only
 * reach ~3 trailing 0xFF bytes). Every 440/888-bit value of V and C is reachable from some seed (Hash_df output). */
#include "vs.h"

#if RAND == HASHD
BIND(drbg_set_state) {
	ctx_t *x = core_get();
	if (BUFLEN(0) != RLC_RAND_SIZE - 1) vs_die("drbg_set_state: wrong state length");
	x->rand[0] = (uint8_t)A(2);
	memcpy(x->rand + 1, BUF(0), RLC_RAND_SIZE - 1);
	x->counter = (int)A(1);
	x->seeded = 1;
}
#endif

/* Slot types FB / FB2 / FBV / FBD / EB / EBV and bindings for the binary-field (FB, FBX) and binary-curve (EB)
 * modules. Field elements travel as raw digit vectors (RLC_FB_DIGS digits, little endian), points as raw
 * (x, y, z, coord). */
#include "vs.h"

#if defined(WITH_FB) && ALLOC == AUTO

#define FBB (RLC_FB_DIGS * sizeof(dig_t))
/* types private to this file (ids above the shared enumeration, below the registry size of 64) */
#define VT_FBV 41    /* fb_st[n] : operand vectors of fb_inv_sim, tables of fb_itr_pre_quick */
#define VT_FBD 42    /* double-length polynomial: exactly 2 * RLC_FB_DIGS digits (input of fb_rdc_*) */

/* ---------------------------------------------------------------- types */

/* FBV payload: u32 n (elements allocated), blob of k*FBB bytes (k <= n elements filled, rest poisoned) */
static int fbv_mk(vs_slot *s, vs_rd *r) {
	uint32_t n = rd_u32(r);
	size_t len;
	const uint8_t *d = rd_blob(r, &len);
	if (r->bad || n > 65536 || len % FBB != 0 || len / FBB > n) return -1;
	fb_st *a = (fb_st *)vs_alloc_poisoned((n ? n : 1) * sizeof(fb_st));
	for (size_t i = 0; i < len / FBB; i++) memcpy(a[i], d + i * FBB, FBB);
	s->p = a;
	s->len = n;
	return 0;
}
static int fb_mk(vs_slot *s, vs_rd *r) {
	size_t len;
	const uint8_t *d = rd_blob(r, &len);
	if (r->bad || len != FBB) return -1;
	fb_st *a = (fb_st *)vs_alloc_poisoned(sizeof(fb_st));
	memcpy(a[0], d, FBB);
	s->p = a;
	s->len = 1;
	return 0;
}
static int fb2_mk(vs_slot *s, vs_rd *r) {
	size_t len;
	const uint8_t *d = rd_blob(r, &len);
	if (r->bad || len != 2 * FBB) return -1;
	fb_st *a = (fb_st *)vs_alloc_poisoned(2 * sizeof(fb_st));
	memcpy(a[0], d, FBB);
	memcpy(a[1], d + FBB, FBB);
	s->p = a;
	s->len = 2;
	return 0;
}
static void fb_dump_(const vs_slot *s, vs_wr *w) {
	vs_wr t = { 0 };
	const fb_st *a = (const fb_st *)s->p;
	for (size_t i = 0; i < s->len; i++) wr_raw(&t, a[i], FBB);
	wr_blob(w, t.buf, t.len);
	free(t.buf);
}
static void fb_fr(vs_slot *s) { free(s->p); }
static uint64_t fb_hash_(const vs_slot *s) {
	return vs_fnv(0xcbf29ce484222325ULL, s->p, s->len * sizeof(fb_st));
}
VS_TYPE(VT_FB, fb_mk, fb_dump_, fb_fr, fb_hash_)
VS_TYPE(VT_FB2, fb2_mk, fb_dump_, fb_fr, fb_hash_)
VS_TYPE(VT_FBV, fbv_mk, fb_dump_, fb_fr, fb_hash_)

static int fbd_mk(vs_slot *s, vs_rd *r) {
	size_t len;
	const uint8_t *d = rd_blob(r, &len);
	if (r->bad || len != 2 * FBB) return -1;
	dig_t *a = (dig_t *)vs_alloc_poisoned(2 * FBB);
	memcpy(a, d, 2 * FBB);
	s->p = a;
	s->len = 2 * RLC_FB_DIGS;
	return 0;
}
static void fbd_dump_(const vs_slot *s, vs_wr *w) { wr_blob(w, s->p, 2 * FBB); }
static uint64_t fbd_hash_(const vs_slot *s) { return vs_fnv(0xcbf29ce484222325ULL, s->p, 2 * FBB); }
VS_TYPE(VT_FBD, fbd_mk, fbd_dump_, fb_fr, fbd_hash_)

#define FB(i) ((dig_t *)vs_get(c->a[i], VT_FB))
#define FB2(i) ((fb_t *)vs_get(c->a[i], VT_FB2))
#define FBV(i) ((fb_t *)vs_get(c->a[i], VT_FBV))
#define FBD(i) ((dig_t *)vs_get(c->a[i], VT_FBD))

/* ------------------------------------------------------------- parameters */

BIND(info_fb) {
	RET(RLC_FB_BITS); RET(RLC_FB_DIGS); RET(RLC_DIG); RET(sizeof(fb_st)); RET(FB_KARAT); RET(RLC_FB_TABLE_QUICK);
	RET(FB_MUL); RET(FB_SQR); RET(FB_RDC); RET(FB_SRT); RET(FB_TRC); RET(FB_SLV); RET(FB_INV); RET(FB_EXP); RET(FB_ITR);
	RET(RLC_WIDTH); RET(BASIC); RET(QUICK); RET(SLIDE);
#ifdef FB_PRECO
	RET(1);
#else
	RET(0);
#endif
}
BIND(fb_param_set) { fb_param_set((int)A(0)); }
BIND(fb_param_get) { RET(fb_param_get()); }
BIND(fb_poly_get) { ret_blob(c, fb_poly_get(), FBB); }
BIND(fb_poly_get_rdc) { int a, b, d; fb_poly_get_rdc(&a, &b, &d); RET((int64_t)a); RET((int64_t)b); RET((int64_t)d); }
BIND(fb_poly_get_trc) { int a, b, d; fb_poly_get_trc(&a, &b, &d); RET((int64_t)a); RET((int64_t)b); RET((int64_t)d); }
BIND(fb_poly_get_srz) { ret_blob(c, fb_poly_get_srz(), FBB); }
BIND(fb_poly_add) { fb_poly_add(FB(0), FB(1)); }

/* ---------------------------------------------------------------- arithmetic */

BIND(fb_add) { fb_add(FB(0), FB(1), FB(2)); }
BIND(fb_add_dig) { fb_add_dig(FB(0), FB(1), (dig_t)A(2)); }
BIND(fb_mul) { fb_mul(FB(0), FB(1), FB(2)); }
BIND(fb_mul_basic) { fb_mul_basic(FB(0), FB(1), FB(2)); }
BIND(fb_mul_integ) { fb_mul_integ(FB(0), FB(1), FB(2)); }
BIND(fb_mul_lodah) { fb_mul_lodah(FB(0), FB(1), FB(2)); }
BIND(fb_mul_karat) { fb_mul_karat(FB(0), FB(1), FB(2)); }
BIND(fb_mul_dig) { fb_mul_dig(FB(0), FB(1), (dig_t)A(2)); }
BIND(fb_sqr) { fb_sqr(FB(0), FB(1)); }
BIND(fb_sqr_basic) { fb_sqr_basic(FB(0), FB(1)); }
BIND(fb_sqr_integ) { fb_sqr_integ(FB(0), FB(1)); }
BIND(fb_sqr_quick) { fb_sqr_quick(FB(0), FB(1)); }
BIND(fb_rdc) { fb_rdc(FB(0), FBD(1)); }
BIND(fb_rdc_basic) { fb_rdc_basic(FB(0), FBD(1)); }
BIND(fb_rdc_quick) { fb_rdc_quick(FB(0), FBD(1)); }
BIND(fb_inv) { fb_inv(FB(0), FB(1)); }
BIND(fb_inv_basic) { fb_inv_basic(FB(0), FB(1)); }
BIND(fb_inv_binar) { fb_inv_binar(FB(0), FB(1)); }
BIND(fb_inv_exgcd) { fb_inv_exgcd(FB(0), FB(1)); }
BIND(fb_inv_almos) { fb_inv_almos(FB(0), FB(1)); }
BIND(fb_inv_itoht) { fb_inv_itoht(FB(0), FB(1)); }
BIND(fb_inv_bruch) { fb_inv_bruch(FB(0), FB(1)); }
BIND(fb_inv_ctaia) { fb_inv_ctaia(FB(0), FB(1)); }
BIND(fb_inv_lower) { fb_inv_lower(FB(0), FB(1)); }
BIND(fb_inv_sim) { fb_inv_sim(FBV(0), (const fb_t *)FBV(1), (int)A(2)); }
BIND(fb_srt) { fb_srt(FB(0), FB(1)); }
BIND(fb_srt_basic) { fb_srt_basic(FB(0), FB(1)); }
BIND(fb_srt_quick) { fb_srt_quick(FB(0), FB(1)); }
BIND(fb_trc) { RET(fb_trc(FB(0))); }
BIND(fb_trc_basic) { RET(fb_trc_basic(FB(0))); }
BIND(fb_trc_quick) { RET(fb_trc_quick(FB(0))); }
BIND(fb_slv) { fb_slv(FB(0), FB(1)); }
BIND(fb_slv_basic) { fb_slv_basic(FB(0), FB(1)); }
BIND(fb_slv_quick) { fb_slv_quick(FB(0), FB(1)); }
BIND(fb_itr_basic) { fb_itr_basic(FB(0), FB(1), (int)(int64_t)A(2)); }
BIND(fb_itr_pre_quick) { fb_itr_pre_quick((fb_st *)FBV(0), (int)(int64_t)A(1)); }
BIND(fb_itr_quick) { fb_itr_quick(FB(0), FB(1), (const fb_st *)FBV(2)); }
/* the 3- and 4-argument forms of the fb_itr() macro (the latter with the build's FB_ITR algorithm) */
BIND(fb_itr3) { fb_itr(FB(0), FB(1), (int)(int64_t)A(2)); }
BIND(fb_itr4) {
	fb_itr_pre((fb_st *)FBV(3), (int)(int64_t)A(2));
	fb_itr(FB(0), FB(1), (int)(int64_t)A(2), (const fb_st *)FBV(3));
}
BIND(fb_exp) { fb_exp(FB(0), FB(1), BN(2)); }
BIND(fb_exp_basic) { fb_exp_basic(FB(0), FB(1), BN(2)); }
BIND(fb_exp_slide) { fb_exp_slide(FB(0), FB(1), BN(2)); }
BIND(fb_exp_monty) { fb_exp_monty(FB(0), FB(1), BN(2)); }
BIND(fb_lsh) { fb_lsh(FB(0), FB(1), (uint_t)A(2)); }
BIND(fb_rsh) { fb_rsh(FB(0), FB(1), (uint_t)A(2)); }

/* ------------------------------------------------------------------- utils */

BIND(fb_copy) { fb_copy(FB(0), FB(1)); }
BIND(fb_zero) { fb_zero(FB(0)); }
BIND(fb_is_zero) { RET(fb_is_zero(FB(0))); }
BIND(fb_get_bit) { RET(fb_get_bit(FB(0), (uint_t)A(1))); }
BIND(fb_set_bit) { fb_set_bit(FB(0), (uint_t)A(1), (int)A(2)); }
BIND(fb_set_dig) { fb_set_dig(FB(0), (dig_t)A(1)); }
BIND(fb_bits) { RET(fb_bits(FB(0))); }
BIND(fb_rand) { fb_rand(FB(0)); }
BIND(fb_cmp) { RET((int64_t)fb_cmp(FB(0), FB(1))); }
BIND(fb_cmp_dig) { RET((int64_t)fb_cmp_dig(FB(0), (dig_t)A(1))); }

/* --------------------------------------------------------- quadratic extension */

BIND(fb2_mul) { fb2_mul(FB2(0), FB2(1), FB2(2)); }
BIND(fb2_mul_nor) { fb2_mul_nor(FB2(0), FB2(1)); }
BIND(fb2_sqr) { fb2_sqr(FB2(0), FB2(1)); }
BIND(fb2_inv) { fb2_inv(FB2(0), FB2(1)); }
BIND(fb2_slv) { fb2_slv(FB2(0), FB2(1)); }
BIND(fb2_add) { fb2_add(FB2(0), FB2(1), FB2(2)); }
BIND(fb2_cmp) { RET((int64_t)fb2_cmp(FB2(0), FB2(1))); }
BIND(fb2_is_zero) { RET(fb2_is_zero(FB2(0))); }

#endif /* WITH_FB && ALLOC == AUTO */

/* ================================================================= binary curves */

#if defined(WITH_EB) && defined(WITH_FB) && ALLOC == AUTO

#define EBB (3 * FBB + 1)

static int eb_fill(eb_st *p, vs_rd *r) {
	size_t len;
	const uint8_t *d = rd_blob(r, &len);
	if (r->bad || len != EBB) return -1;
	memcpy(p->x, d, FBB);
	memcpy(p->y, d + FBB, FBB);
	memcpy(p->z, d + 2 * FBB, FBB);
	p->coord = d[3 * FBB];
	return 0;
}
static void eb_put(const eb_st *p, vs_wr *w) {
	wr_raw(w, p->x, FBB); wr_raw(w, p->y, FBB); wr_raw(w, p->z, FBB);
	wr_u8(w, (uint8_t)p->coord);
	wr_u32(w, (uint32_t)p->coord);
}
static uint64_t eb_h(const eb_st *p, uint64_t h) {
	h = vs_fnv(h, p->x, FBB); h = vs_fnv(h, p->y, FBB); h = vs_fnv(h, p->z, FBB);
	return vs_fnv(h, &p->coord, sizeof p->coord);
}
static int eb_mk(vs_slot *s, vs_rd *r) {
	eb_st *p = (eb_st *)vs_alloc_poisoned(sizeof(eb_st));
	if (eb_fill(p, r) != 0) { free(p); return -1; }
	s->p = p; s->len = 1;
	return 0;
}
/* EBV payload: u32 n (allocated), u32 k (filled), k point blobs */
static int ebv_mk(vs_slot *s, vs_rd *r) {
	uint32_t n = rd_u32(r), k = rd_u32(r);
	if (r->bad || n > 8192 || k > n) return -1;
	eb_st *v = (eb_st *)vs_alloc_poisoned((n ? n : 1) * sizeof(eb_st));
	for (uint32_t i = 0; i < k; i++) {
		if (eb_fill(&v[i], r) != 0) { free(v); return -1; }
	}
	s->p = v; s->len = n;
	return 0;
}
static void eb_dump_(const vs_slot *s, vs_wr *w) {
	vs_wr t = { 0 };
	const eb_st *v = (const eb_st *)s->p;
	for (size_t i = 0; i < s->len; i++) eb_put(&v[i], &t);
	wr_blob(w, t.buf, t.len);
	free(t.buf);
}
static void eb_fr(vs_slot *s) { free(s->p); }
static uint64_t eb_hash_(const vs_slot *s) {
	uint64_t h = 0xcbf29ce484222325ULL;
	const eb_st *v = (const eb_st *)s->p;
	for (size_t i = 0; i < s->len; i++) h = eb_h(&v[i], h);
	return h;
}
VS_TYPE(VT_EB, eb_mk, eb_dump_, eb_fr, eb_hash_)
VS_TYPE(VT_EBV, ebv_mk, eb_dump_, eb_fr, eb_hash_)

#define EB(i) ((eb_st *)vs_get(c->a[i], VT_EB))
#define EBV(i) ((eb_t *)vs_get(c->a[i], VT_EBV))

/* ------------------------------------------------------------ parameters */

BIND(info_eb) {
	RET(BASIC); RET(PROJC); RET(HALVE); RET(EB_ADD); RET(EB_MUL); RET(EB_FIX); RET(EB_SIM);
	RET(RLC_EB_TABLE_BASIC); RET(RLC_EB_TABLE_COMBS); RET(RLC_EB_TABLE_COMBD); RET(RLC_EB_TABLE_LWNAF);
	RET(RLC_EB_TABLE); RET(RLC_EB_TABLE_MAX); RET(RLC_WIDTH); RET(RLC_DEPTH);
#ifdef EB_PLAIN
	RET(1);
#else
	RET(0);
#endif
#ifdef EB_KBLTZ
	RET(1);
#else
	RET(0);
#endif
#ifdef EB_MIXED
	RET(1);
#else
	RET(0);
#endif
#ifdef EB_PRECO
	RET(1);
#else
	RET(0);
#endif
	RET(LODAH); RET(LWNAF); RET(RWNAF); RET(COMBS); RET(COMBD); RET(TRICK); RET(INTER); RET(JOINT);
}
BIND(eb_param_set) { eb_param_set((int)A(0)); }
BIND(eb_param_get) { RET(eb_param_get()); }
BIND(eb_param_level) { RET(eb_param_level()); }
BIND(eb_param_set_any) { RET((int64_t)eb_param_set_any()); }
BIND(eb_param_set_any_plain) { RET((int64_t)eb_param_set_any_plain()); }
BIND(eb_param_set_any_kbltz) { RET((int64_t)eb_param_set_any_kbltz()); }
BIND(eb_curve_params) {
	/* a, b (raw field elements); flags; order and cofactor go to bn slots 0, 1; generator to eb slot 2 */
	ret_blob(c, eb_curve_get_a(), FBB);
	ret_blob(c, eb_curve_get_b(), FBB);
	RET(eb_curve_opt_a()); RET(eb_curve_opt_b()); RET(eb_curve_is_kbltz());
	eb_curve_get_ord(BN(0));
	eb_curve_get_cof(BN(1));
	eb_curve_get_gen(EB(2));
	RET(fb_param_get());
	RET(eb_curve_get_tab() != NULL);
}

/* -------------------------------------------------------------- utilities */

BIND(eb_is_infty) { RET(eb_is_infty(EB(0))); }
BIND(eb_set_infty) { eb_set_infty(EB(0)); }
BIND(eb_copy) { eb_copy(EB(0), EB(1)); }
BIND(eb_cmp) { RET((int64_t)eb_cmp(EB(0), EB(1))); }
BIND(eb_rand) { eb_rand(EB(0)); }
BIND(eb_blind) { eb_blind(EB(0), EB(1)); }
BIND(eb_rhs) { eb_rhs(FB(0), FB(1)); }
BIND(eb_on_curve) { RET(eb_on_curve(EB(0))); }
BIND(eb_tab) { eb_tab(EBV(0), EB(1), (int)A(2)); }
BIND(eb_norm) { eb_norm(EB(0), EB(1)); }
BIND(eb_norm_sim) { eb_norm_sim(EBV(0), (const eb_t *)EBV(1), (int)A(2)); }

/* ---------------------------------------------------------------- group law */

BIND(eb_neg) { eb_neg(EB(0), EB(1)); }
BIND(eb_neg_basic) { eb_neg_basic(EB(0), EB(1)); }
BIND(eb_neg_projc) { eb_neg_projc(EB(0), EB(1)); }
BIND(eb_add) { eb_add(EB(0), EB(1), EB(2)); }
BIND(eb_add_basic) { eb_add_basic(EB(0), EB(1), EB(2)); }
BIND(eb_add_projc) { eb_add_projc(EB(0), EB(1), EB(2)); }
BIND(eb_sub) { eb_sub(EB(0), EB(1), EB(2)); }
BIND(eb_sub_basic) { eb_sub_basic(EB(0), EB(1), EB(2)); }
BIND(eb_sub_projc) { eb_sub_projc(EB(0), EB(1), EB(2)); }
BIND(eb_dbl) { eb_dbl(EB(0), EB(1)); }
BIND(eb_dbl_basic) { eb_dbl_basic(EB(0), EB(1)); }
BIND(eb_dbl_projc) { eb_dbl_projc(EB(0), EB(1)); }
BIND(eb_hlv) { eb_hlv(EB(0), EB(1)); }
#if defined(EB_KBLTZ)
BIND(eb_frb) { eb_frb(EB(0), EB(1)); }
#endif

/* ------------------------------------------------------- multiplication */

BIND(eb_mul) { eb_mul(EB(0), EB(1), BN(2)); }
BIND(eb_mul_basic) { eb_mul_basic(EB(0), EB(1), BN(2)); }
BIND(eb_mul_lodah) { eb_mul_lodah(EB(0), EB(1), BN(2)); }
BIND(eb_mul_lwnaf) { eb_mul_lwnaf(EB(0), EB(1), BN(2)); }
BIND(eb_mul_rwnaf) { eb_mul_rwnaf(EB(0), EB(1), BN(2)); }
BIND(eb_mul_halve) { eb_mul_halve(EB(0), EB(1), BN(2)); }
BIND(eb_mul_gen) { eb_mul_gen(EB(0), BN(1)); }
BIND(eb_mul_dig) { eb_mul_dig(EB(0), EB(1), (dig_t)A(2)); }
BIND(eb_mul_pre) { eb_mul_pre(EBV(0), EB(1)); }
BIND(eb_mul_fix) { eb_mul_fix(EB(0), (const eb_t *)EBV(1), BN(2)); }
BIND(eb_mul_pre_basic) { eb_mul_pre_basic(EBV(0), EB(1)); }
BIND(eb_mul_pre_combs) { eb_mul_pre_combs(EBV(0), EB(1)); }
BIND(eb_mul_pre_combd) { eb_mul_pre_combd(EBV(0), EB(1)); }
BIND(eb_mul_pre_lwnaf) { eb_mul_pre_lwnaf(EBV(0), EB(1)); }
BIND(eb_mul_fix_basic) { eb_mul_fix_basic(EB(0), (const eb_t *)EBV(1), BN(2)); }
BIND(eb_mul_fix_combs) { eb_mul_fix_combs(EB(0), (const eb_t *)EBV(1), BN(2)); }
BIND(eb_mul_fix_combd) { eb_mul_fix_combd(EB(0), (const eb_t *)EBV(1), BN(2)); }
BIND(eb_mul_fix_lwnaf) { eb_mul_fix_lwnaf(EB(0), (const eb_t *)EBV(1), BN(2)); }
BIND(eb_mul_sim) { eb_mul_sim(EB(0), EB(1), BN(2), EB(3), BN(4)); }
BIND(eb_mul_sim_basic) { eb_mul_sim_basic(EB(0), EB(1), BN(2), EB(3), BN(4)); }
BIND(eb_mul_sim_trick) { eb_mul_sim_trick(EB(0), EB(1), BN(2), EB(3), BN(4)); }
BIND(eb_mul_sim_inter) { eb_mul_sim_inter(EB(0), EB(1), BN(2), EB(3), BN(4)); }
BIND(eb_mul_sim_joint) { eb_mul_sim_joint(EB(0), EB(1), BN(2), EB(3), BN(4)); }
BIND(eb_mul_sim_gen) { eb_mul_sim_gen(EB(0), BN(1), EB(2), BN(3)); }

#endif /* WITH_EB && WITH_FB && ALLOC == AUTO */

/* C19, part 4: threads, each with its own (thread-local) library context, under a harness-owned schedule.
 *
 * c19_threads(buf, mode): buf := u8 T, T * workload, u16 L, L schedule bytes (thread ids)
 *   workload := u16 n, n * (op u8, arg u32)         ops as in c19_step (b_c19.c)
 *   mode 0: the schedule word is enforced - the i-th operation of thread t runs exactly at the position of the
 *           i-th occurrence of t in the word, one operation at a time (baton);
 *   mode 1: threads run free (for ThreadSanitizer builds).
 * Returns T blobs: per thread the records (op u8, blob out) of its operations.
 */
#include "vs.h"

#if defined(MULTI) && defined(WITH_EP) && defined(WITH_FP) && defined(WITH_BN) && defined(WITH_MD)
#if MULTI == PTHREAD

#include <pthread.h>

void c19_step(int op, uint32_t arg, vs_wr *o);

#define THR_MAX 4

typedef struct {
	int id;
	const uint8_t *ops;
	int nops;
	vs_wr out;
} thr_t;

static pthread_mutex_t mu = PTHREAD_MUTEX_INITIALIZER;
static pthread_cond_t cv = PTHREAD_COND_INITIALIZER;
static const uint8_t *sched;
static int sched_len, sched_pos, sched_mode;

/* registered with core_set_thread_initializer: "called when the context is uninitialized ... for every thread" */
static void thr_init(void *ptr) {
	(void)ptr;
	core_init();
}

static void *worker(void *arg) {
	thr_t *t = (thr_t *)arg;
	for (int i = 0; i < t->nops; i++) {
		int op = t->ops[5 * i];
		uint32_t a;
		memcpy(&a, t->ops + 5 * i + 1, 4);
		if (sched_mode == 0) {
			pthread_mutex_lock(&mu);
			while (!(sched_pos < sched_len && sched[sched_pos] == t->id)) pthread_cond_wait(&cv, &mu);
			pthread_mutex_unlock(&mu);
		}
		vs_wr o = { 0 };
		c19_step(op, a, &o);
		wr_u8(&t->out, (uint8_t)op);
		wr_blob(&t->out, o.buf, o.len);
		free(o.buf);
		if (sched_mode == 0) {
			pthread_mutex_lock(&mu);
			sched_pos++;
			pthread_cond_broadcast(&cv);
			pthread_mutex_unlock(&mu);
		}
	}
	return NULL;
}

BIND(c19_threads) {
	const uint8_t *p = BUF(0), *end = p + BUFLEN(0);
	thr_t th[THR_MAX];
	pthread_t tid[THR_MAX];
	int count[THR_MAX] = { 0 };
	if (end - p < 1) vs_die("c19_threads: short");
	int T = *p++;
	if (T < 1 || T > THR_MAX) vs_die("c19_threads: bad T");
	memset(th, 0, sizeof th);
	for (int i = 0; i < T; i++) {
		if (end - p < 2) vs_die("c19_threads: short");
		int n = p[0] | (p[1] << 8);
		p += 2;
		if (end - p < 5 * n) vs_die("c19_threads: short workload");
		th[i].id = i;
		th[i].ops = p;
		th[i].nops = n;
		p += 5 * n;
	}
	if (end - p < 2) vs_die("c19_threads: short");
	sched_len = p[0] | (p[1] << 8);
	p += 2;
	if (end - p < sched_len) vs_die("c19_threads: short schedule");
	sched = p;
	sched_pos = 0;
	sched_mode = (int)A(1);
	if (sched_mode == 0) {
		for (int i = 0; i < sched_len; i++) {
			if (sched[i] >= T) vs_die("c19_threads: bad schedule entry");
			count[sched[i]]++;
		}
		for (int i = 0; i < T; i++) {
			if (count[i] != th[i].nops) vs_die("c19_threads: schedule does not match the workloads");
		}
	}
	core_set_thread_initializer(thr_init, NULL);
	for (int i = 0; i < T; i++) {
		if (pthread_create(&tid[i], NULL, worker, &th[i]) != 0) vs_die("pthread_create failed");
	}
	for (int i = 0; i < T; i++) pthread_join(tid[i], NULL);
	core_set_thread_initializer(NULL, NULL);
	for (int i = 0; i < T; i++) {
		ret_blob(c, th[i].out.buf, th[i].out.len);
		free(th[i].out.buf);
	}
}

#endif
#endif

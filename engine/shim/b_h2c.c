/* Bindings for C13 (hashing to groups): published map constants (ep_map_u, ep_map_c[], isogeny tables, domain
 * separation string, security level) and the binary / Edwards map entry points. Points of the EB and ED modules are
 * returned as raw coordinate blobs so that no slot type is needed (VT_EB / VT_ED belong to other checks). */
#include "vs.h"

#if ALLOC == AUTO

#if defined(WITH_EP)

#define FPB (RLC_FP_DIGS * sizeof(dig_t))

BIND(h2c_ep_consts) {
	/* blobs: u, c[0..4], RLC_STRING (with its trailing NUL); rets: see below */
	ctx_t *ctx = core_get();
	ret_blob(c, ctx->ep_map_u, FPB);
	for (int i = 0; i < 5; i++) ret_blob(c, ctx->ep_map_c[i], FPB);
	ret_blob(c, RLC_STRING, sizeof(RLC_STRING));
	RET(ep_curve_is_ctmap()); RET(ep_param_level()); RET(FP_PRIME); RET(EP_MAP); RET(MD_MAP); RET(RLC_MD_LEN);
	RET(SH224); RET(SH256); RET(SH384); RET(SH512); RET(BASIC); RET(SSWUM); RET(SWIFT);
	RET(ep_map_rnd_size()); RET(fp_prime_get_mod18()); RET(RLC_FP_BYTES);
}

BIND(h2c_ep_iso) {
	/* rets: present?, deg_xn, deg_xd, deg_yn, deg_yd; blobs: a, b, xn[], xd[], yn[], yd[] (deg+1 coefficients each,
	 * constant term first, as the header documents "coefficients") */
#ifdef EP_CTMAP
	iso_t iso = ep_curve_get_iso();
	if (iso == NULL || !ep_curve_is_ctmap()) { RET(0); return; }
	RET(1); RET(iso->deg_xn); RET(iso->deg_xd); RET(iso->deg_yn); RET(iso->deg_yd);
	ret_blob(c, iso->a, FPB);
	ret_blob(c, iso->b, FPB);
	if (iso->deg_xn < 0 || iso->deg_xn >= RLC_EP_CTMAP_MAX || iso->deg_xd < 0 || iso->deg_xd >= RLC_EP_CTMAP_MAX ||
			iso->deg_yn < 0 || iso->deg_yn >= RLC_EP_CTMAP_MAX || iso->deg_yd < 0 || iso->deg_yd >= RLC_EP_CTMAP_MAX) {
		return;
	}
	for (int i = 0; i <= iso->deg_xn; i++) ret_blob(c, iso->xn[i], FPB);
	for (int i = 0; i <= iso->deg_xd; i++) ret_blob(c, iso->xd[i], FPB);
	for (int i = 0; i <= iso->deg_yn; i++) ret_blob(c, iso->yn[i], FPB);
	for (int i = 0; i <= iso->deg_yd; i++) ret_blob(c, iso->yd[i], FPB);
#else
	RET(0);
#endif
}

#if defined(WITH_EPX)

BIND(h2c_ep2_consts) {
	/* blobs: u, c[0..3] (raw fp2 = 2 * FPB bytes each); rets: ctmap, twist type, opt_a, opt_b */
	ctx_t *ctx = core_get();
	ret_blob(c, ctx->ep2_map_u, 2 * FPB);
	for (int i = 0; i < 4; i++) ret_blob(c, ctx->ep2_map_c[i], 2 * FPB);
	RET(ep2_curve_is_ctmap()); RET(ep2_curve_is_twist()); RET(ep2_curve_opt_a()); RET(ep2_curve_opt_b());
}

BIND(h2c_ep2_iso) {
#ifdef EP_CTMAP
	iso2_t iso = ep2_curve_get_iso();
	if (iso == NULL || !ep2_curve_is_ctmap()) { RET(0); return; }
	RET(1); RET(iso->deg_xn); RET(iso->deg_xd); RET(iso->deg_yn); RET(iso->deg_yd);
	ret_blob(c, iso->a, 2 * FPB);
	ret_blob(c, iso->b, 2 * FPB);
	if (iso->deg_xn < 0 || iso->deg_xn >= RLC_EPX_CTMAP_MAX || iso->deg_xd < 0 || iso->deg_xd >= RLC_EPX_CTMAP_MAX ||
			iso->deg_yn < 0 || iso->deg_yn >= RLC_EPX_CTMAP_MAX || iso->deg_yd < 0 || iso->deg_yd >= RLC_EPX_CTMAP_MAX) {
		return;
	}
	for (int i = 0; i <= iso->deg_xn; i++) ret_blob(c, iso->xn[i], 2 * FPB);
	for (int i = 0; i <= iso->deg_xd; i++) ret_blob(c, iso->xd[i], 2 * FPB);
	for (int i = 0; i <= iso->deg_yn; i++) ret_blob(c, iso->yn[i], 2 * FPB);
	for (int i = 0; i <= iso->deg_yd; i++) ret_blob(c, iso->yd[i], 2 * FPB);
#else
	RET(0);
#endif
}

#endif /* WITH_EPX */
#endif /* WITH_EP */

#if defined(WITH_EB)

#define FBB (RLC_FB_DIGS * sizeof(dig_t))

static void h2c_eb_ret(vs_call *c, const eb_st *p) {
	ret_blob(c, p->x, FBB); ret_blob(c, p->y, FBB); ret_blob(c, p->z, FBB);
	RET(p->coord);
}

BIND(h2c_eb_param_set) { eb_param_set((int)A(0)); }
BIND(h2c_eb_params) {
	/* blobs: field polynomial, a, b, generator x, y, z; rets: coord, kbltz, level, FB bits, FB bytes, MD_LEN, BASIC;
	 * order -> bn slot 0, cofactor -> bn slot 1 */
	eb_t g;
	ret_blob(c, fb_poly_get(), FBB);
	ret_blob(c, eb_curve_get_a(), FBB);
	ret_blob(c, eb_curve_get_b(), FBB);
	eb_curve_get_gen(g);
	h2c_eb_ret(c, g);
	RET(eb_curve_is_kbltz()); RET(eb_param_level()); RET(RLC_FB_BITS); RET(RLC_FB_BYTES); RET(RLC_MD_LEN); RET(BASIC);
	RET(MD_MAP); RET(SH224); RET(SH256); RET(SH384); RET(SH512); RET(B2S160); RET(B2S256);
	eb_curve_get_ord(BN(0));
	eb_curve_get_cof(BN(1));
}
BIND(h2c_eb_map) {
	eb_t p;
	eb_map(p, BUF(0), BUFLEN(0));
	h2c_eb_ret(c, p);
}

#endif /* WITH_EB */

#if defined(WITH_ED)

#ifndef FPB
#define FPB (RLC_FP_DIGS * sizeof(dig_t))
#endif

static void h2c_ed_ret(vs_call *c, const ed_st *p) {
	ret_blob(c, p->x, FPB); ret_blob(c, p->y, FPB); ret_blob(c, p->z, FPB);
#if ED_ADD == EXTND
	ret_blob(c, p->t, FPB);
	RET(p->coord); RET(1);
#else
	ret_blob(c, p->z, FPB);
	RET(p->coord); RET(0);
#endif
}

BIND(h2c_ed_param_set) { ed_param_set((int)A(0)); }
BIND(h2c_ed_params) {
	/* blobs: prime, a, d, generator x, y, z, t, map constants c[0..3]; rets: coord, has_t, level, param, BASIC, MD ids;
	 * order -> bn slot 0, cofactor -> bn slot 1 */
	ctx_t *ctx = core_get();
	ed_t g;
	ret_blob(c, fp_prime_get(), FPB);
	ret_blob(c, ctx->ed_a, FPB);
	ret_blob(c, ctx->ed_d, FPB);
	ed_curve_get_gen(g);
	h2c_ed_ret(c, g);
	for (int i = 0; i < 4; i++) ret_blob(c, ctx->ed_map_c[i], FPB);
	RET(ed_param_level()); RET(ed_param_get()); RET(BASIC); RET(FP_PRIME);
	RET(MD_MAP); RET(SH224); RET(SH256); RET(SH384); RET(SH512);
	ed_curve_get_ord(BN(0));
	ed_curve_get_cof(BN(1));
}
BIND(h2c_ed_map) {
	ed_t p;
	ed_map(p, BUF(0), BUFLEN(0));
	h2c_ed_ret(c, p);
}
BIND(h2c_ed_map_dst) {
	ed_t p;
	ed_map_dst(p, BUF(0), BUFLEN(0), BUF(1), BUFLEN(1));
	h2c_ed_ret(c, p);
}

#endif /* WITH_ED */

#endif /* ALLOC == AUTO */

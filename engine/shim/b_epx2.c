/* Bindings for the curves over cubic, quartic and octic extensions (ep3_*, ep4_*, ep8_*), property C11 sweep.
 * Point slots are the VT_EP2 / VT_EP2V types of b_epx.c with sub = extension degree (3, 4, 8). */
#include "vs.h"

#if defined(WITH_EPX) && ALLOC == AUTO

#define FPB (RLC_FP_DIGS * sizeof(dig_t))
#define BNV(i) ((bn_t *)vs_get(c->a[i], VT_BNV))

#define EPK_BINDINGS(K)                                                                                          \
	BIND(info_ep##K) {                                                                                           \
		RET(RLC_EP_TABLE_MAX); RET(sizeof(ep##K##_st)); RET(ep##K##_curve_is_twist()); RET(ep##K##_curve_opt_a());  \
		RET(ep##K##_curve_opt_b());                                                                              \
	}                                                                                                            \
	BIND(ep##K##_curve_params) {                                                                                 \
		fp##K##_t one, t;                                                                                        \
		fp##K##_set_dig(one, 1);                                                                                 \
		ep##K##_curve_mul_a(t, one);                                                                             \
		ret_blob(c, t, K * FPB);                                                                                 \
		ep##K##_curve_mul_b(t, one);                                                                             \
		ret_blob(c, t, K * FPB);                                                                                 \
		RET(ep##K##_curve_is_twist()); RET(ep##K##_curve_opt_a()); RET(ep##K##_curve_opt_b());                     \
		ep##K##_curve_get_ord(BN(0));                                                                            \
		ep##K##_curve_get_cof(BN(1));                                                                            \
		ep##K##_curve_get_gen(EPK(2, K));                                                                        \
	}                                                                                                            \
	BIND(ep##K##_curve_set_twist) { ep##K##_curve_set_twist((int)A(0)); }                                        \
	BIND(ep##K##_is_infty) { RET(ep##K##_is_infty(EPK(0, K))); }                                                 \
	BIND(ep##K##_set_infty) { ep##K##_set_infty(EPK(0, K)); }                                                    \
	BIND(ep##K##_copy) { ep##K##_copy(EPK(0, K), EPK(1, K)); }                                                   \
	BIND(ep##K##_cmp) { RET((int64_t)ep##K##_cmp(EPK(0, K), EPK(1, K))); }                                       \
	BIND(ep##K##_rand) { ep##K##_rand(EPK(0, K)); }                                                              \
	BIND(ep##K##_blind) { ep##K##_blind(EPK(0, K), EPK(1, K)); }                                                 \
	BIND(ep##K##_on_curve) { RET(ep##K##_on_curve(EPK(0, K))); }                                                 \
	BIND(ep##K##_tab) { ep##K##_tab(EPKV(0, K), EPK(1, K), (int)A(2)); }                                         \
	BIND(ep##K##_norm) { ep##K##_norm(EPK(0, K), EPK(1, K)); }                                                   \
	BIND(ep##K##_norm_sim) { ep##K##_norm_sim(EPKV(0, K), (const ep##K##_t *)EPKV(1, K), (int)A(2)); }           \
	BIND(ep##K##_neg) { ep##K##_neg(EPK(0, K), EPK(1, K)); }                                                     \
	BIND(ep##K##_add) { ep##K##_add(EPK(0, K), EPK(1, K), EPK(2, K)); }                                          \
	BIND(ep##K##_add_basic) { ep##K##_add_basic(EPK(0, K), EPK(1, K), EPK(2, K)); }                              \
	BIND(ep##K##_add_projc) { ep##K##_add_projc(EPK(0, K), EPK(1, K), EPK(2, K)); }                              \
	BIND(ep##K##_add_jacob) { ep##K##_add_jacob(EPK(0, K), EPK(1, K), EPK(2, K)); }                              \
	BIND(ep##K##_sub) { ep##K##_sub(EPK(0, K), EPK(1, K), EPK(2, K)); }                                          \
	BIND(ep##K##_dbl) { ep##K##_dbl(EPK(0, K), EPK(1, K)); }                                                     \
	BIND(ep##K##_dbl_basic) { ep##K##_dbl_basic(EPK(0, K), EPK(1, K)); }                                         \
	BIND(ep##K##_dbl_projc) { ep##K##_dbl_projc(EPK(0, K), EPK(1, K)); }                                         \
	BIND(ep##K##_dbl_jacob) { ep##K##_dbl_jacob(EPK(0, K), EPK(1, K)); }                                         \
	BIND(ep##K##_frb) { ep##K##_frb(EPK(0, K), EPK(1, K), (int)A(2)); }                                          \
	BIND(ep##K##_mul) { ep##K##_mul(EPK(0, K), EPK(1, K), BN(2)); }                                              \
	BIND(ep##K##_mul_basic) { ep##K##_mul_basic(EPK(0, K), EPK(1, K), BN(2)); }                                  \
	BIND(ep##K##_mul_slide) { ep##K##_mul_slide(EPK(0, K), EPK(1, K), BN(2)); }                                  \
	BIND(ep##K##_mul_monty) { ep##K##_mul_monty(EPK(0, K), EPK(1, K), BN(2)); }                                  \
	BIND(ep##K##_mul_lwnaf) { ep##K##_mul_lwnaf(EPK(0, K), EPK(1, K), BN(2)); }                                  \
	BIND(ep##K##_mul_lwreg) { ep##K##_mul_lwreg(EPK(0, K), EPK(1, K), BN(2)); }                                  \
	BIND(ep##K##_mul_gen) { ep##K##_mul_gen(EPK(0, K), BN(1)); }                                                 \
	BIND(ep##K##_mul_dig) { ep##K##_mul_dig(EPK(0, K), EPK(1, K), (dig_t)A(2)); }                                \
	BIND(ep##K##_mul_cof) { ep##K##_mul_cof(EPK(0, K), EPK(1, K)); }                                             \
	BIND(ep##K##_mul_pre) { ep##K##_mul_pre(EPKV(0, K), EPK(1, K)); }                                            \
	BIND(ep##K##_mul_fix) { ep##K##_mul_fix(EPK(0, K), (const ep##K##_t *)EPKV(1, K), BN(2)); }                  \
	BIND(ep##K##_mul_pre_basic) { ep##K##_mul_pre_basic(EPKV(0, K), EPK(1, K)); }                                \
	BIND(ep##K##_mul_pre_combs) { ep##K##_mul_pre_combs(EPKV(0, K), EPK(1, K)); }                                \
	BIND(ep##K##_mul_pre_combd) { ep##K##_mul_pre_combd(EPKV(0, K), EPK(1, K)); }                                \
	BIND(ep##K##_mul_pre_lwnaf) { ep##K##_mul_pre_lwnaf(EPKV(0, K), EPK(1, K)); }                                \
	BIND(ep##K##_mul_fix_basic) { ep##K##_mul_fix_basic(EPK(0, K), (const ep##K##_t *)EPKV(1, K), BN(2)); }      \
	BIND(ep##K##_mul_fix_combs) { ep##K##_mul_fix_combs(EPK(0, K), (const ep##K##_t *)EPKV(1, K), BN(2)); }      \
	BIND(ep##K##_mul_fix_combd) { ep##K##_mul_fix_combd(EPK(0, K), (const ep##K##_t *)EPKV(1, K), BN(2)); }      \
	BIND(ep##K##_mul_fix_lwnaf) { ep##K##_mul_fix_lwnaf(EPK(0, K), (const ep##K##_t *)EPKV(1, K), BN(2)); }      \
	BIND(ep##K##_mul_sim) { ep##K##_mul_sim(EPK(0, K), EPK(1, K), BN(2), EPK(3, K), BN(4)); }                    \
	BIND(ep##K##_mul_sim_basic) { ep##K##_mul_sim_basic(EPK(0, K), EPK(1, K), BN(2), EPK(3, K), BN(4)); }        \
	BIND(ep##K##_mul_sim_trick) { ep##K##_mul_sim_trick(EPK(0, K), EPK(1, K), BN(2), EPK(3, K), BN(4)); }        \
	BIND(ep##K##_mul_sim_inter) { ep##K##_mul_sim_inter(EPK(0, K), EPK(1, K), BN(2), EPK(3, K), BN(4)); }        \
	BIND(ep##K##_mul_sim_joint) { ep##K##_mul_sim_joint(EPK(0, K), EPK(1, K), BN(2), EPK(3, K), BN(4)); }        \
	BIND(ep##K##_mul_sim_gen) { ep##K##_mul_sim_gen(EPK(0, K), BN(1), EPK(2, K), BN(3)); }                       \
	BIND(ep##K##_mul_sim_lot) {                                                                                  \
		ep##K##_mul_sim_lot(EPK(0, K), (const ep##K##_t *)EPKV(1, K), (const bn_t *)BNV(2), A(3));               \
	}                                                                                                            \
	BIND(ep##K##_mul_sim_dig) {                                                                                  \
		ep##K##_mul_sim_dig(EPK(0, K), (const ep##K##_t *)EPKV(1, K), (const dig_t *)BUF(2), (size_t)A(3));       \
	}

#define EPK(i, K) ((ep##K##_st *)vs_getp(c->a[i], VT_EP2, K))
#define EPKV(i, K) ((ep##K##_t *)vs_getp(c->a[i], VT_EP2V, K))

EPK_BINDINGS(3)
EPK_BINDINGS(4)
EPK_BINDINGS(8)

/* embedding degree / family of the selected base curve, the curve parameter and the primes' residues that fix the
 * towers (what engine/pcctx_k.py needs on top of tower_params) */
BIND(epk_base_info) {
	RET(ep_curve_is_pairf()); RET(ep_curve_embed()); RET(ep_curve_frdim());
	fp_prime_get_par(BN(0));
}

#endif

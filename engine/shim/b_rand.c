/* Bindings for the deterministic random generator (C15). All names carry the drbg_ prefix so that they cannot
 * collide with plain rand_* bindings other property checks may add. */
#include "vs.h"

#if defined(RAND) && RAND == HASHD

/* which SP 800-90A hash the build uses: 224/256/384/512, 0 = not a SHA-2 function (BLAKE2s builds) */
static int drbg_hash_id(void) {
#if MD_MAP == SH224
	return 224;
#elif MD_MAP == SH256
	return 256;
#elif MD_MAP == SH384
	return 384;
#elif MD_MAP == SH512
	return 512;
#else
	return 0;
#endif
}

BIND(drbg_info) {
	RET(drbg_hash_id()); RET(RLC_MD_LEN); RET(RLC_RAND_SIZE); RET(sizeof(dig_t) * 8);
#ifdef WITH_FP
	RET(RLC_FP_BITS); RET(RLC_FP_DIGS);
#else
	RET(0); RET(0);
#endif
#ifdef WITH_FB
	RET(RLC_FB_BITS); RET(RLC_FB_DIGS);
#else
	RET(0); RET(0);
#endif
}

/* raw working state: rand[0] scratch byte, rand[1..] = V || C; reseed counter; seeded flag */
BIND(drbg_state) {
	ctx_t *x = core_get();
	ret_blob(c, x->rand, RLC_RAND_SIZE);
	RET((int64_t)x->counter); RET((int64_t)x->seeded);
}

/* canonical pre-state so that a case never depends on what the previous request left in the context; both states are
 * reached through the public API only: 0 = rand_clean() (all zero, unseeded; what test_rand.c starts from),
 * 1 = a used generator (rand_clean, seed with a fixed string, one request: scratch byte 0x03, counter 2). */
BIND(drbg_fresh) {
	rand_clean();
	if (A(0) == 1) {
		uint8_t s[] = "C15 pre-state", b;
		rand_seed(s, sizeof(s) - 1);
		rand_bytes(&b, 1);
	}
}
/* instantiate: the documented way to obtain a fresh instance (rand_init does exactly this with the OS seed) */
BIND(drbg_inst) { core_get()->seeded = 0; rand_seed(BUF(0), BUFLEN(0)); }
/* reseed: rand_seed on a seeded context */
BIND(drbg_reseed) { rand_seed(BUF(0), BUFLEN(0)); }
/* generate A(1) bytes into the buffer slot (A(1) may exceed the buffer only for requests that must be refused) */
BIND(drbg_gen) { rand_bytes(BUF(0), (size_t)A(1)); }
/* A(0) consecutive requests of A(1) bytes each; returns the bytes of the last one */
BIND(drbg_burn) {
	size_t n = (size_t)A(0), len = (size_t)A(1);
	uint8_t *t = (uint8_t *)vs_alloc_poisoned(len);
	for (size_t i = 0; i < n; i++) {
		memset(t, vs_poison, len);
		rand_bytes(t, len);
	}
	ret_blob(c, t, len);
	free(t);
}

#ifdef WITH_FP
/* A(0) selects the prime: 0 = fp_param_set_any(); 1 = a fixed prime well below 2^FP_BITS where the build has one
 * (BN_256: about 29 % of the 256-bit strings are >= p, so fp_rand's reduction is exercised), else as 0. Only fixed
 * parameters are used: fp_param_set_any_tower() would GENERATE a prime from the DRBG in builds without a tower curve.
 * The prime is only re-selected when the choice changes. Returns the parameter id and the prime. */
BIND(drbg_fp_setup) {
	static int cur = -1;
	int want = (int)A(0);
#if FP_PRIME != 256
	want = 0;
#endif
	if (cur != want) {
#if FP_PRIME == 256
		if (want == 1) fp_param_set(BN_256); else
#endif
		if (fp_param_set_any() != RLC_OK) vs_die("no prime available");
		cur = want;
	}
	RET(fp_param_get());
	ret_blob(c, fp_prime_get(), RLC_FP_DIGS * sizeof(dig_t));
}
BIND(drbg_fp_rand) {
	fp_st a;
	memset(a, vs_poison, sizeof(a));
	fp_rand(a);
	ret_blob(c, a, RLC_FP_DIGS * sizeof(dig_t));
}
#endif

#ifdef WITH_FB
BIND(drbg_fb_rand) {
	fb_st a;
	memset(a, vs_poison, sizeof(a));
	fb_rand(a);
	ret_blob(c, a, RLC_FB_DIGS * sizeof(dig_t));
}
#endif

#endif /* RAND == HASHD */

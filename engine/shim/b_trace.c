/* C20: control-flow trace recorder and the c20_* bindings.
 *
 * The trace* configurations compile the LIBRARY with -fsanitize-coverage=trace-pc, which calls
 * __sanitizer_cov_trace_pc() at the head of every instrumented basic block. The runner / shim sources are
 * compiled without that flag (engine/build.py strips it), so nothing of the harness is ever in a trace.
 * In every other configuration nothing calls the hook and the machinery below is dead code.
 *
 * Observation model (DESIGN C20): the request carries a table of functions, addresses relative to the hook
 * symbol itself (so PIE / ASLR do not matter):
 *   kind 1 = set A: every basic block executed in the function is recorded;
 *   kind 2 = set B: one event when the function is entered, nothing beneath it is recorded.
 * Everything else is ignored (and is transparent: a set-B function called from an ignored helper is seen).
 * "Beneath" is decided with the frame pointer of the instrumented caller (the library is built with
 * -fno-omit-frame-pointer and every instrumented function is a non-leaf): while a set-B call is active, events
 * with a deeper frame called from at or below the set-B frame, or with the same frame inside the same function
 * other than its entry block (executed exactly once per call), are dropped.
 */
#include "vs.h"
#include <link.h>

#ifndef VS_FUZZ /* libFuzzer brings its own __sanitizer_cov_trace_pc */

typedef struct {
	uintptr_t lo, hi, entry;
	int kind;
} c20_fn;

#define C20_MAXFN 4096
#define C20_MAXEV (1u << 21)

static c20_fn c20_tab[C20_MAXFN];
static int c20_nfn;
static volatile int c20_armed;
static uintptr_t c20_sup, c20_sup_lo, c20_sup_hi, c20_sup_entry;
static int32_t c20_ev[C20_MAXEV];
static uint32_t c20_nev;
static uint64_t c20_raw;
static uint32_t c20_over, c20_odd;

void __sanitizer_cov_trace_pc(void);

__attribute__((noinline)) void __sanitizer_cov_trace_pc(void) {
	if (!c20_armed) return;
	uintptr_t pc = (uintptr_t)__builtin_return_address(0);
	uintptr_t fp = (uintptr_t)__builtin_frame_address(1);
	c20_raw++;
	if (c20_sup) {
		/* deeper frame whose caller's frame is not above the set-B frame: still beneath the set-B call. (The
		 * caller's frame pointer is the saved rbp at *fp. A deeper frame whose caller sits ABOVE the set-B frame
		 * is a new call made after the set-B function returned, e.g. from a call site with a lower stack pointer.) */
		if (fp < c20_sup && *(const uintptr_t *)fp <= c20_sup) return;
		if (fp == c20_sup && pc >= c20_sup_lo && pc < c20_sup_hi && pc != c20_sup_entry) return;
		c20_sup = 0;
	}
	int lo = 0, hi = c20_nfn;
	while (lo < hi) {
		int mid = (lo + hi) >> 1;
		const c20_fn *f = &c20_tab[mid];
		if (pc < f->lo) {
			hi = mid;
		} else if (pc >= f->hi) {
			lo = mid + 1;
		} else {
			if (f->kind == 2) {
				if (pc != f->entry) { c20_odd++; return; }
				c20_sup = fp;
				c20_sup_lo = f->lo;
				c20_sup_hi = f->hi;
				c20_sup_entry = f->entry;
			}
			if (c20_nev < C20_MAXEV) {
				c20_ev[c20_nev++] = (int32_t)((intptr_t)pc - (intptr_t)&__sanitizer_cov_trace_pc);
			} else {
				c20_over = 1;
			}
			return;
		}
	}
}

/* GNU build id of the running executable. The function table is computed by the Python side from the runner
 * FILE; the file can be relinked (the library is rebuilt from the repository's working tree on every check)
 * while an older runner PROCESS is still alive, or the other way round. Every table carries the build id of the
 * file it was computed from and is refused by a process with a different one. */
static uint8_t c20_bid[64];
static size_t c20_bidlen;
static int c20_bid_done;

static int c20_phdr_cb(struct dl_phdr_info *info, size_t size, void *data) {
	(void)size; (void)data;
	for (int i = 0; i < info->dlpi_phnum; i++) {
		const ElfW(Phdr) *ph = &info->dlpi_phdr[i];
		if (ph->p_type != PT_NOTE) continue;
		const uint8_t *p = (const uint8_t *)(info->dlpi_addr + ph->p_vaddr), *end = p + ph->p_memsz;
		while (p + 12 <= end) {
			uint32_t namesz, descsz, type;
			memcpy(&namesz, p, 4); memcpy(&descsz, p + 4, 4); memcpy(&type, p + 8, 4);
			const uint8_t *name = p + 12, *desc = name + ((namesz + 3) & ~3u);
			if (desc + descsz > end) break;
			if (type == 3 && namesz == 4 && memcmp(name, "GNU", 4) == 0 && descsz <= sizeof c20_bid) {
				memcpy(c20_bid, desc, descsz);
				c20_bidlen = descsz;
				return 1;
			}
			p = desc + ((descsz + 3) & ~3u);
		}
	}
	return 1; /* only the first object: the main program */
}

/* table: "C20T", u32 build-id length, build id, then records of 4 x int32 (lo, hi, entry relative to the hook
 * symbol; kind), sorted by lo. Returns 0, or 3 when the table belongs to another build of the runner. */
static int c20_load(vs_call *c, int arg) {
	c20_armed = 0;
	if (!c20_bid_done) { dl_iterate_phdr(c20_phdr_cb, NULL); c20_bid_done = 1; }
	const uint8_t *b = (const uint8_t *)vs_get(c->a[arg], VT_BUF);
	size_t len = vs_slot_at(c->a[arg])->len;
	uint32_t idlen;
	if (len < 8 || memcmp(b, "C20T", 4) != 0) vs_die("c20: malformed function table");
	memcpy(&idlen, b + 4, 4);
	if (len < 8 + (size_t)idlen) vs_die("c20: malformed function table");
	if (idlen != c20_bidlen || memcmp(b + 8, c20_bid, idlen) != 0) return 3;
	b += 8 + idlen;
	len -= 8 + idlen;
	size_t n = len / 16;
	if (n > C20_MAXFN) vs_die("c20: function table too large");
	intptr_t base = (intptr_t)&__sanitizer_cov_trace_pc;
	for (size_t i = 0; i < n; i++) {
		int32_t v[4];
		memcpy(v, b + 16 * i, 16);
		c20_tab[i].lo = (uintptr_t)(base + v[0]);
		c20_tab[i].hi = (uintptr_t)(base + v[1]);
		c20_tab[i].entry = (uintptr_t)(base + v[2]);
		c20_tab[i].kind = v[3];
		if (i > 0 && c20_tab[i].lo < c20_tab[i - 1].hi) vs_die("c20: function table not sorted");
	}
	c20_nfn = (int)n;
	return 0;
}

#define C20_ARM() do { c20_nev = 0; c20_raw = 0; c20_over = 0; c20_odd = 0; c20_sup = 0;     \
		__asm__ volatile("" ::: "memory"); c20_armed = 1; __asm__ volatile("" ::: "memory"); } while (0)
#define C20_DISARM() do { __asm__ volatile("" ::: "memory"); c20_armed = 0; __asm__ volatile("" ::: "memory"); } while (0)

/* blob: u32 flags (bit0 overflow, bit1 functional mismatch, bit2 stray set-B block), u32 aux, u64 raw events,
 * then the int32 events */
static void c20_emit(vs_call *c, uint32_t flags, uint32_t aux) {
	size_t n = c20_nev;
	uint8_t *b = (uint8_t *)malloc(16 + 4 * n);
	if (!b) vs_die("c20: oom");
	flags |= c20_over ? 1u : 0u;
	flags |= c20_odd ? 4u : 0u;
	memcpy(b, &flags, 4);
	memcpy(b + 4, &aux, 4);
	memcpy(b + 8, &c20_raw, 8);
	memcpy(b + 16, c20_ev, 4 * n);
	ret_blob(c, b, 16 + 4 * n);
	free(b);
}

#define BNV(i) ((bn_t *)vs_get(c->a[i], VT_BNV))
#define BNVLEN(i) (vs_slot_at(c->a[i])->len)

/* static facts of the configuration; every value with its name so that the Python side never guesses */
BIND(c20_info) {
	char t[2048];
	int n = 0;
#define KV(name, val) n += snprintf(t + n, sizeof t - n, "%s=%lld\n", name, (long long)(val))
	KV("DIG", RLC_DIG);
	KV("WIDTH", RLC_WIDTH);
	KV("ALLOC_AUTO", ALLOC == AUTO);
#ifdef WITH_BN
	KV("BN_BITS", RLC_BN_BITS);
#endif
#ifdef WITH_FP
	KV("FP_PRIME", FP_PRIME);
	KV("FP_DIGS", RLC_FP_DIGS);
	KV("FP_SIZE", sizeof(fp_st));
#endif
#ifdef WITH_FB
	KV("FB_POLYN", FB_POLYN);
	KV("FB_DIGS", RLC_FB_DIGS);
#endif
#ifdef WITH_EP
	KV("NIST_P256", NIST_P256); KV("BSI_P256", BSI_P256); KV("SECG_K256", SECG_K256); KV("SM2_P256", SM2_P256);
	KV("BN_P256", BN_P256); KV("SM9_P256", SM9_P256); KV("CURVE_25519", CURVE_25519); KV("TWEEDLEDUM", TWEEDLEDUM);
	KV("B12_P381", B12_P381);
	KV("EP_BN", EP_BN);
#endif
#ifdef WITH_EB
	KV("NIST_B283", NIST_B283); KV("NIST_K283", NIST_K283);
#endif
#ifdef WITH_ED
	KV("CURVE_ED25519", CURVE_ED25519);
#endif
#if defined(WITH_FPX) && ALLOC == AUTO
	KV("SZ_FP2", sizeof(fp2_t)); KV("SZ_FP3", sizeof(fp3_t)); KV("SZ_FP4", sizeof(fp4_t)); KV("SZ_FP6", sizeof(fp6_t));
	KV("SZ_FP8", sizeof(fp8_t)); KV("SZ_FP9", sizeof(fp9_t)); KV("SZ_FP12", sizeof(fp12_t));
	KV("SZ_FP16", sizeof(fp16_t)); KV("SZ_FP18", sizeof(fp18_t)); KV("SZ_FP24", sizeof(fp24_t));
	KV("SZ_FP48", sizeof(fp48_t)); KV("SZ_FP54", sizeof(fp54_t));
#endif
#if defined(WITH_PC) && ALLOC == AUTO
	KV("SZ_GT", sizeof(gt_t));
#endif
#undef KV
	ret_blob(c, t, (size_t)n);
	if (!c20_bid_done) { dl_iterate_phdr(c20_phdr_cb, NULL); c20_bid_done = 1; }
	ret_blob(c, c20_bid, c20_bidlen);
}

/* one parameter context for all c20 bindings: family << 16 | id; re-selected only when it changes */
static long c20_ctx = -1;
enum { C20_F_EP = 1, C20_F_PAIR = 2, C20_F_EB = 3, C20_F_ED = 4 };

static int c20_select(int family, int id) {
	if (family == C20_F_PAIR) id = 0;
	long want = ((long)family << 16) | (id & 0xFFFF);
	if (c20_ctx == want) return 1;
	c20_ctx = -1;
	int ok = 0;
	switch (family) {
#ifdef WITH_EP
		case C20_F_EP:
			ep_param_set(id);
			ok = (ep_param_get() == id);
			break;
		case C20_F_PAIR:
			ok = (ep_param_set_any_pairf() == RLC_OK);
			break;
#endif
#ifdef WITH_EB
		case C20_F_EB:
			eb_param_set(id);
			ok = (eb_param_get() == id);
			break;
#endif
#ifdef WITH_ED
		case C20_F_ED:
			ed_param_set(id);
			ok = (ed_param_get() == id);
			break;
#endif
		default:
			break;
	}
	if (err_get_code() != RLC_OK) ok = 0;
	if (ok) c20_ctx = want;
	return ok;
}

/* ------------------------------------------------------------------ primitives */

/* the dv module is part of every configuration (relic_conf.h has no WITH_DV) */
/* c20_prim(tab, op, x, y, n, bit): x, y are BUF slots holding raw digits / bytes.
 * op 0 dv_copy_sec(x <- y), 1 dv_swap_sec(x <-> y), 2 dv_cmp_sec, 3 util_cmp_sec, 4 fp_copy_sec,
 * 5 fp<n>_copy_sec (n = extension degree), 6 gt_copy_sec */
BIND(c20_prim) {
	if (c20_load(c, 0)) { RET(3); return; }
	int op = (int)A(1);
	uint8_t *x = BUF(2), *y = BUF(3);
	size_t lx = BUFLEN(2), ly = BUFLEN(3), n = (size_t)A(4);
	dig_t bit = (dig_t)A(5);
	int r = 0;
	size_t need = 0;
	switch (op) {
		case 0: case 1: case 2: need = n * sizeof(dig_t); break;
		case 3: need = n; break;
#if defined(WITH_FP) && ALLOC == AUTO
		case 4: need = sizeof(fp_st); break;
#endif
#if defined(WITH_FPX) && ALLOC == AUTO
		case 5:
			switch (n) {
				case 2: need = sizeof(fp2_t); break;
				case 3: need = sizeof(fp3_t); break;
				case 4: need = sizeof(fp4_t); break;
				case 6: need = sizeof(fp6_t); break;
				case 8: need = sizeof(fp8_t); break;
				case 9: need = sizeof(fp9_t); break;
				case 12: need = sizeof(fp12_t); break;
				case 16: need = sizeof(fp16_t); break;
				case 18: need = sizeof(fp18_t); break;
				case 24: need = sizeof(fp24_t); break;
				case 48: need = sizeof(fp48_t); break;
				case 54: need = sizeof(fp54_t); break;
				default: RET(2); return;
			}
			break;
#endif
#if defined(WITH_PC) && ALLOC == AUTO
		case 6: need = sizeof(gt_t); break;
#endif
		default: RET(2); return;
	}
	if (lx != need || ly != need) vs_die("c20_prim: buffer size does not match the object");
	C20_ARM();
	switch (op) {
		case 0: dv_copy_sec((dig_t *)x, (const dig_t *)y, n, bit); break;
		case 1: dv_swap_sec((dig_t *)x, (dig_t *)y, n, bit); break;
		case 2: r = dv_cmp_sec((const dig_t *)x, (const dig_t *)y, n); break;
		case 3: r = util_cmp_sec(x, y, n); break;
#if defined(WITH_FP) && ALLOC == AUTO
		case 4: fp_copy_sec((dig_t *)x, (const dig_t *)y, bit); break;
#endif
#if defined(WITH_FPX) && ALLOC == AUTO
		case 5:
			switch (n) {
				case 2: fp2_copy_sec((void *)x, (void *)y, bit); break;
				case 3: fp3_copy_sec((void *)x, (void *)y, bit); break;
				case 4: fp4_copy_sec((void *)x, (void *)y, bit); break;
				case 6: fp6_copy_sec((void *)x, (void *)y, bit); break;
				case 8: fp8_copy_sec((void *)x, (void *)y, bit); break;
				case 9: fp9_copy_sec((void *)x, (void *)y, bit); break;
				case 12: fp12_copy_sec((void *)x, (void *)y, bit); break;
				case 16: fp16_copy_sec((void *)x, (void *)y, bit); break;
				case 18: fp18_copy_sec((void *)x, (void *)y, bit); break;
				case 24: fp24_copy_sec((void *)x, (void *)y, bit); break;
				case 48: fp48_copy_sec((void *)x, (void *)y, bit); break;
				case 54: fp54_copy_sec((void *)x, (void *)y, bit); break;
			}
			break;
#endif
#if defined(WITH_PC) && ALLOC == AUTO
		case 6: gt_copy_sec((void *)x, (void *)y, bit); break;
#endif
	}
	C20_DISARM();
	RET(0);
	RET((int64_t)r);
	c20_emit(c, 0, 0);
}

/* ------------------------------------------------------------------ integer / field exponentiation, recoding */

#ifdef WITH_BN
/* c20_bn_mxp(tab, ks, a, m, routine): routine 0 bn_mxp_monty, 1 bn_mxp_slide (positive control) */
BIND(c20_bn_mxp) {
	if (c20_load(c, 0)) { RET(3); return; }
	bn_t *ks = BNV(1);
	size_t n = BNVLEN(1);
	int routine = (int)A(4);
	bn_t r, ref;
	bn_null(r); bn_null(ref);
	bn_new(r); bn_new(ref);
	RET(0);
	for (size_t i = 0; i < n; i++) {
		bn_zero(r);
		C20_ARM();
		if (routine == 0) bn_mxp_monty(r, BN(2), ks[i], BN(3)); else bn_mxp_slide(r, BN(2), ks[i], BN(3));
		C20_DISARM();
		bn_mxp_basic(ref, BN(2), ks[i], BN(3));
		c20_emit(c, bn_cmp(r, ref) != RLC_EQ ? 2u : 0u, 0);
	}
	bn_free(r); bn_free(ref);
}

/* c20_rec_reg(tab, ks, n, w): aux = returned length */
BIND(c20_rec_reg) {
	if (c20_load(c, 0)) { RET(3); return; }
	bn_t *ks = BNV(1);
	size_t cnt = BNVLEN(1);
	static int8_t naf[4096];
	RET(0);
	for (size_t i = 0; i < cnt; i++) {
		size_t l = sizeof naf;
		C20_ARM();
		bn_rec_reg(naf, &l, ks[i], (size_t)A(2), (size_t)A(3));
		C20_DISARM();
		c20_emit(c, 0, (uint32_t)l);
	}
}
#endif

#if defined(WITH_FP) && defined(WITH_EP)
/* c20_fp_exp(tab, ks, a, curve, routine): the prime is the field of the prime curve `curve`;
 * routine 0 fp_exp_monty, 1 fp_exp_slide (positive control) */
BIND(c20_fp_exp) {
	if (c20_load(c, 0)) { RET(3); return; }
	bn_t *ks = BNV(1);
	size_t n = BNVLEN(1);
	int routine = (int)A(4);
	if (!c20_select(C20_F_EP, (int)A(3))) { RET(1); return; }
	fp_t a, r, ref;
	fp_null(a); fp_null(r); fp_null(ref);
	fp_new(a); fp_new(r); fp_new(ref);
	fp_prime_conv(a, BN(2));
	RET(0);
	for (size_t i = 0; i < n; i++) {
		fp_zero(r);
		C20_ARM();
		if (routine == 0) fp_exp_monty(r, a, ks[i]); else fp_exp_slide(r, a, ks[i]);
		C20_DISARM();
		fp_exp_basic(ref, a, ks[i]);
		c20_emit(c, fp_cmp(r, ref) != RLC_EQ ? 2u : 0u, 0);
	}
	fp_free(a); fp_free(r); fp_free(ref);
}
#endif

#if defined(WITH_FB) && defined(WITH_EB)
/* c20_fb_exp(tab, ks, a (BUF of RLC_FB_DIGS digits, reduced), curve, routine) */
BIND(c20_fb_exp) {
	if (c20_load(c, 0)) { RET(3); return; }
	bn_t *ks = BNV(1);
	size_t n = BNVLEN(1);
	int routine = (int)A(4);
	if (!c20_select(C20_F_EB, (int)A(3))) { RET(1); return; }
	if (BUFLEN(2) != RLC_FB_DIGS * sizeof(dig_t)) vs_die("c20_fb_exp: bad element size");
	fb_t a, r, ref;
	fb_null(a); fb_null(r); fb_null(ref);
	fb_new(a); fb_new(r); fb_new(ref);
	memcpy(a, BUF(2), RLC_FB_DIGS * sizeof(dig_t));
	RET(0);
	for (size_t i = 0; i < n; i++) {
		fb_zero(r);
		C20_ARM();
		if (routine == 0) fb_exp_monty(r, a, ks[i]); else fb_exp_slide(r, a, ks[i]);
		C20_DISARM();
		fb_exp_basic(ref, a, ks[i]);
		c20_emit(c, fb_cmp(r, ref) != RLC_EQ ? 2u : 0u, 0);
	}
	fb_free(a); fb_free(r); fb_free(ref);
}
#endif

/* ------------------------------------------------------------------ curve orders (for the generators) */

/* c20_order(family, id): blob = group order, big endian; rets: status, endomorphism flag, pairing-friendly flag */
BIND(c20_order) {
	int family = (int)A(0), id = (int)A(1);
	if (!c20_select(family, id)) { RET(1); return; }
#ifdef WITH_BN
	bn_t n;
	bn_null(n); bn_new(n);
	int endom = 0, pairf = 0;
	switch (family) {
#ifdef WITH_EP
		case C20_F_EP: case C20_F_PAIR:
			ep_curve_get_ord(n);
			endom = ep_curve_is_endom();
			pairf = ep_curve_is_pairf();
			break;
#endif
#ifdef WITH_EB
		case C20_F_EB:
			eb_curve_get_ord(n);
			endom = eb_curve_is_kbltz();
			break;
#endif
#ifdef WITH_ED
		case C20_F_ED:
			ed_curve_get_ord(n);
			break;
#endif
	}
	uint8_t bin[RLC_BN_BITS / 8 + 8];
	size_t l = bn_size_bin(n);
	bn_write_bin(bin, l, n);
	int pid = 0;
#ifdef WITH_EP
	if (family == C20_F_EP || family == C20_F_PAIR) pid = ep_param_get();
#endif
	RET(0); RET(endom); RET(pairf); RET(pid);
	ret_blob(c, bin, l);
#if defined(WITH_FP) && defined(WITH_EP)
	if (family == C20_F_EP || family == C20_F_PAIR) {
		/* the field characteristic (eigenvalue of the Frobenius on G2 / GT: scalars with zero sub-scalars) */
		bn_read_raw(n, fp_prime_get(), RLC_FP_DIGS);
		l = bn_size_bin(n);
		bn_write_bin(bin, l, n);
		ret_blob(c, bin, l);
	}
#endif
	bn_free(n);
#else
	RET(1);
#endif
}

/* ------------------------------------------------------------------ scalar multiplications */

#ifdef WITH_EP
/* c20_ep(tab, ks, routine, curve, pm): P = [pm]G; routine 0 ep_mul_monty, 1 ep_mul_lwreg, 2 ep_mul_lwnaf (control) */
BIND(c20_ep) {
	if (c20_load(c, 0)) { RET(3); return; }
	bn_t *ks = BNV(1);
	size_t n = BNVLEN(1);
	int routine = (int)A(2);
	if (!c20_select(C20_F_EP, (int)A(3))) { RET(1); return; }
	ep_t g, p, r, ref;
	ep_null(g); ep_null(p); ep_null(r); ep_null(ref);
	ep_new(g); ep_new(p); ep_new(r); ep_new(ref);
	ep_curve_get_gen(g);
	ep_mul_dig(p, g, (dig_t)A(4));
	RET(0);
	for (size_t i = 0; i < n; i++) {
		ep_copy(r, g);
		C20_ARM();
		switch (routine) {
			case 0: ep_mul_monty(r, p, ks[i]); break;
			case 1: ep_mul_lwreg(r, p, ks[i]); break;
			default: ep_mul_lwnaf(r, p, ks[i]); break;
		}
		C20_DISARM();
		ep_mul_basic(ref, p, ks[i]);
		c20_emit(c, ep_cmp(r, ref) != RLC_EQ ? 2u : 0u, 0);
	}
	ep_free(g); ep_free(p); ep_free(r); ep_free(ref);
}
#endif

#if defined(WITH_EPX) && defined(WITH_PP)
/* c20_ep2(tab, ks, routine, pm): the library's pairing-friendly curve of this field size and its twist;
 * routine 0 ep2_mul_monty, 1 ep2_mul_lwreg, 2 ep2_mul_lwnaf (control) */
BIND(c20_ep2) {
	if (c20_load(c, 0)) { RET(3); return; }
	bn_t *ks = BNV(1);
	size_t n = BNVLEN(1);
	int routine = (int)A(2);
	if (!c20_select(C20_F_PAIR, 0)) { RET(1); return; }
	ep2_t g, p, r, ref;
	ep2_null(g); ep2_null(p); ep2_null(r); ep2_null(ref);
	ep2_new(g); ep2_new(p); ep2_new(r); ep2_new(ref);
	ep2_curve_get_gen(g);
	ep2_mul_dig(p, g, (dig_t)A(3));
	RET(0);
	for (size_t i = 0; i < n; i++) {
		ep2_copy(r, g);
		C20_ARM();
		switch (routine) {
			case 0: ep2_mul_monty(r, p, ks[i]); break;
			case 1: ep2_mul_lwreg(r, p, ks[i]); break;
			default: ep2_mul_lwnaf(r, p, ks[i]); break;
		}
		C20_DISARM();
		ep2_mul_basic(ref, p, ks[i]);
		c20_emit(c, ep2_cmp(r, ref) != RLC_EQ ? 2u : 0u, 0);
	}
	ep2_free(g); ep2_free(p); ep2_free(r); ep2_free(ref);
}
#endif

#if defined(WITH_PC) && defined(WITH_PP) && FP_PRIME < 1536
/* c20_pc(tab, ks, routine, pm): routine 0 g1_mul_sec, 1 g2_mul_sec, 2 gt_exp_sec, 3 gt_exp (control) */
BIND(c20_pc) {
	if (c20_load(c, 0)) { RET(3); return; }
	bn_t *ks = BNV(1);
	size_t n = BNVLEN(1);
	int routine = (int)A(2);
	dig_t pm = (dig_t)A(3);
	if (!c20_select(C20_F_PAIR, 0)) { RET(1); return; }
	g1_t g1, p1, r1, f1;
	g2_t g2, p2, r2, f2;
	gt_t e, a, rt, ft;
	g1_null(g1); g1_null(p1); g1_null(r1); g1_null(f1);
	g2_null(g2); g2_null(p2); g2_null(r2); g2_null(f2);
	gt_null(e); gt_null(a); gt_null(rt); gt_null(ft);
	g1_new(g1); g1_new(p1); g1_new(r1); g1_new(f1);
	g2_new(g2); g2_new(p2); g2_new(r2); g2_new(f2);
	gt_new(e); gt_new(a); gt_new(rt); gt_new(ft);
	g1_get_gen(g1);
	g2_get_gen(g2);
	g1_mul_dig(p1, g1, pm);
	g2_mul_dig(p2, g2, pm);
	if (routine >= 2) {
		pc_map(e, g1, g2);
		gt_exp_dig(a, e, pm);
	}
	RET(0);
	for (size_t i = 0; i < n; i++) {
		uint32_t fl = 0;
		g1_copy(r1, g1);
		g2_copy(r2, g2);
		if (routine >= 2) gt_copy(rt, e);
		C20_ARM();
		switch (routine) {
			case 0: g1_mul_sec(r1, p1, ks[i]); break;
			case 1: g2_mul_sec(r2, p2, ks[i]); break;
			case 2: gt_exp_sec(rt, a, ks[i]); break;
			default: gt_exp(rt, a, ks[i]); break;
		}
		C20_DISARM();
		switch (routine) {
			case 0: ep_mul_basic(f1, p1, ks[i]); fl = g1_cmp(r1, f1) != RLC_EQ ? 2u : 0u; break;
			case 1: ep2_mul_basic(f2, p2, ks[i]); fl = g2_cmp(r2, f2) != RLC_EQ ? 2u : 0u; break;
			default: fp12_exp(ft, a, ks[i]); fl = gt_cmp(rt, ft) != RLC_EQ ? 2u : 0u; break;
		}
		c20_emit(c, fl, 0);
	}
	g1_free(g1); g1_free(p1); g1_free(r1); g1_free(f1);
	g2_free(g2); g2_free(p2); g2_free(r2); g2_free(f2);
	gt_free(e); gt_free(a); gt_free(rt); gt_free(ft);
}
#endif

#ifdef WITH_EB
/* c20_eb(tab, ks, routine, curve, pm): routine 0 eb_mul_lodah, 1 eb_mul_rwnaf (right-to-left w-NAF: control) */
BIND(c20_eb) {
	if (c20_load(c, 0)) { RET(3); return; }
	bn_t *ks = BNV(1);
	size_t n = BNVLEN(1);
	int routine = (int)A(2);
	if (!c20_select(C20_F_EB, (int)A(3))) { RET(1); return; }
	eb_t g, p, r, ref;
	eb_null(g); eb_null(p); eb_null(r); eb_null(ref);
	eb_new(g); eb_new(p); eb_new(r); eb_new(ref);
	eb_curve_get_gen(g);
	eb_mul_dig(p, g, (dig_t)A(4));
	eb_norm(p, p);
	RET(0);
	for (size_t i = 0; i < n; i++) {
		eb_copy(r, g);
		C20_ARM();
		if (routine == 0) eb_mul_lodah(r, p, ks[i]); else eb_mul_rwnaf(r, p, ks[i]);
		C20_DISARM();
		eb_mul_basic(ref, p, ks[i]);
		c20_emit(c, eb_cmp(r, ref) != RLC_EQ ? 2u : 0u, 0);
	}
	eb_free(g); eb_free(p); eb_free(r); eb_free(ref);
}
#endif

#ifdef WITH_ED
/* c20_ed(tab, ks, routine, curve, pm): routine 0 ed_mul_monty, 1 ed_mul_lwreg, 2 ed_mul_lwnaf (control) */
BIND(c20_ed) {
	if (c20_load(c, 0)) { RET(3); return; }
	bn_t *ks = BNV(1);
	size_t n = BNVLEN(1);
	int routine = (int)A(2);
	if (!c20_select(C20_F_ED, (int)A(3))) { RET(1); return; }
	ed_t g, p, r, ref;
	ed_null(g); ed_null(p); ed_null(r); ed_null(ref);
	ed_new(g); ed_new(p); ed_new(r); ed_new(ref);
	ed_curve_get_gen(g);
	ed_mul_dig(p, g, (dig_t)A(4));
	ed_norm(p, p);
	RET(0);
	for (size_t i = 0; i < n; i++) {
		ed_copy(r, g);
		C20_ARM();
		switch (routine) {
			case 0: ed_mul_monty(r, p, ks[i]); break;
			case 1: ed_mul_lwreg(r, p, ks[i]); break;
			default: ed_mul_lwnaf(r, p, ks[i]); break;
		}
		C20_DISARM();
		ed_mul_basic(ref, p, ks[i]);
		c20_emit(c, ed_cmp(r, ref) != RLC_EQ ? 2u : 0u, 0);
	}
	ed_free(g); ed_free(p); ed_free(r); ed_free(ref);
}
#endif

#endif /* !VS_FUZZ */

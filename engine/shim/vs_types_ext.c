/* Slot types beyond BN/BUF (field elements, points, ...). Filled in per module. */
#include "vs.h"

int vs_new_obj_ext(vs_slot *s, int type, vs_rd *r) { (void)s; (void)type; (void)r; return -1; }
int vs_dump_obj_ext(const vs_slot *s, vs_wr *w) { (void)s; (void)w; return -1; }
int vs_free_obj_ext(vs_slot *s) { (void)s; return -1; }
int vs_hash_obj_ext(const vs_slot *s, uint64_t *h) { (void)s; (void)h; return -1; }

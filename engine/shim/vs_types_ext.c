/* Registry of slot types beyond BN/BNV/BUF. A module registers its types from a constructor:
 *   VS_TYPE(VT_FB, fb_new_fn, fb_dump_fn, fb_free_fn, fb_hash_fn)
 * so that adding a type never touches a shared file. */
#include "vs.h"

static vs_type_ops types[64];

void vs_register_type(int type, vs_type_ops ops) {
	if (type <= 0 || type >= 64) vs_die("bad type id");
	types[type] = ops;
}

int vs_new_obj_ext(vs_slot *s, int type, vs_rd *r) {
	if (type <= 0 || type >= 64 || !types[type].mk) return -1;
	int rc = types[type].mk(s, r);
	if (rc == 0) s->type = type;
	return rc;
}
int vs_dump_obj_ext(const vs_slot *s, vs_wr *w) {
	if (!types[s->type].dump) return -1;
	types[s->type].dump(s, w);
	return 0;
}
int vs_free_obj_ext(vs_slot *s) {
	if (!types[s->type].fr) return -1;
	types[s->type].fr(s);
	return 0;
}
int vs_hash_obj_ext(const vs_slot *s, uint64_t *h) {
	if (!types[s->type].hash) return -1;
	*h = types[s->type].hash(s);
	return 0;
}

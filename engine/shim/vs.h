/* Verification shim for RELIC: a tiny slot machine.
 *
 * A request is a program over typed object slots:
 *   NEW  type slot payload      create an object (directly in its struct) in a slot
 *   CALL name nargs args...     call a bound library function; args are u64 (slot index or immediate)
 *   DUMP slot                   dump the raw representation of a slot
 * The reply carries, per CALL: caught?, error code, err_get_code(), UBSan reports, which slots changed,
 * and the values the binding returned; per DUMP the raw struct content.
 * Aliasing is expressed by passing the same slot twice.  All storage is pre-filled with the request's
 * poison byte so stale / never-written data is deterministic and chosen by the case.
 */
#ifndef VS_H
#define VS_H

#include <stdint.h>
#include <stddef.h>
#include <string.h>
#include <stdlib.h>
#include <stdio.h>

#include "relic.h"

#define VS_MAX_SLOTS 96
#define VS_MAX_ARGS 16
#define VS_MAX_RETS 40

enum {
	VT_NONE = 0, VT_BN = 1, VT_BUF = 2, VT_FP = 3, VT_FPX = 4, VT_EP = 5, VT_EP2 = 6, VT_EB = 7, VT_ED = 8,
	VT_FB = 9, VT_DV = 10, VT_BNV = 11, VT_EPV = 12, VT_GT = 13, VT_EP3 = 14, VT_EP4 = 15, VT_EP8 = 16,
	VT_FB2 = 17, VT_EP2V = 18, VT_EBV = 19, VT_EDV = 20, VT_FPV = 21, VT_GTV = 22, VT_OPAQUE = 23,
	VT_FPXV = 24
};

typedef struct {
	int type;
	int sub;          /* FPX: extension degree; vectors: element count; BUF: nothing */
	void *p;          /* object storage (heap, exact size so that ASan red zones surround it) */
	size_t len;       /* BUF: usable length; vectors: count */
	size_t cap;       /* BUF: allocation incl. nothing else */
} vs_slot;

typedef struct {
	uint8_t *buf;
	size_t len, cap;
} vs_wr;

typedef struct {
	const uint8_t *p, *end;
	int bad;
} vs_rd;

typedef struct {
	uint64_t a[VS_MAX_ARGS];
	int na;
	uint64_t r[VS_MAX_RETS];
	int nr;
	vs_wr *out;       /* for bindings that return byte strings */
	vs_wr rb;         /* returned blobs, appended after the integer returns */
	int nrb;
} vs_call;

typedef void (*vs_fn)(vs_call *c);

void vs_register(const char *name, vs_fn fn);
vs_fn vs_lookup(const char *name, size_t len);

extern vs_slot vs_slots[VS_MAX_SLOTS];
extern uint8_t vs_poison;

/* wire helpers */
uint64_t rd_u64(vs_rd *r);
uint32_t rd_u32(vs_rd *r);
uint8_t rd_u8(vs_rd *r);
const uint8_t *rd_blob(vs_rd *r, size_t *len);
void wr_u8(vs_wr *w, uint8_t v);
void wr_u32(vs_wr *w, uint32_t v);
void wr_u64(vs_wr *w, uint64_t v);
void wr_blob(vs_wr *w, const void *p, size_t len);
void wr_raw(vs_wr *w, const void *p, size_t len);

/* slot access used by bindings; a wrong type is a harness error (exit 3) */
void *vs_get(uint64_t idx, int type);
vs_slot *vs_slot_at(uint64_t idx);
void vs_die(const char *msg);

/* type handlers (implemented per module) */
int vs_new_obj(vs_slot *s, int type, vs_rd *r);     /* returns 0 on success */
void vs_dump_obj(const vs_slot *s, vs_wr *w);
void vs_free_obj(vs_slot *s);
uint64_t vs_hash_obj(const vs_slot *s);

void ret_u64(vs_call *c, uint64_t v);
void ret_blob(vs_call *c, const void *p, size_t len);

void *vs_alloc_poisoned(size_t n);

/* type registry (vs_types_ext.c): mk returns 0 on success (fills s->p, s->len, s->sub), 1 if the value does
 * not fit this configuration, -1 on a malformed payload */
typedef struct {
	int (*mk)(vs_slot *s, vs_rd *r);
	void (*dump)(const vs_slot *s, vs_wr *w);
	void (*fr)(vs_slot *s);
	uint64_t (*hash)(const vs_slot *s);
} vs_type_ops;
void vs_register_type(int type, vs_type_ops ops);
#define VS_TYPE(id, mkf, dumpf, freef, hashf)                                                   \
	static void __attribute__((constructor)) regtype_##id(void) {                              \
		vs_type_ops o = { mkf, dumpf, freef, hashf };                                          \
		vs_register_type(id, o);                                                               \
	}

int vs_exec(const uint8_t *req, size_t len, vs_wr *out);
void vs_init(void);

#define BIND(name)                                                                         \
	static void b_##name(vs_call *c);                                                      \
	static void __attribute__((constructor)) reg_##name(void) { vs_register(#name, b_##name); } \
	static void b_##name(vs_call *c)

#define A(i) (c->a[i])
#define BN(i) ((bn_st *)vs_get(c->a[i], VT_BN))
#define BUF(i) ((uint8_t *)vs_get(c->a[i], VT_BUF))
#define BUFLEN(i) (vs_slot_at(c->a[i])->len)
#define RET(v) ret_u64(c, (uint64_t)(v))

uint64_t vs_fnv(uint64_t h, const void *p, size_t n);

/* extension-field slots (b_fpx_types.c): FPX(i, 12) yields a pointer usable as fp12_t */
void *vs_getx(uint64_t idx, int type, int deg);
#define FPXP(i, deg) (vs_getx(c->a[i], VT_FPX, deg))
#define FP2(i) (*(fp2_t *)FPXP(i, 2))
#define FP3(i) (*(fp3_t *)FPXP(i, 3))
#define FP4(i) (*(fp4_t *)FPXP(i, 4))
#define FP6(i) (*(fp6_t *)FPXP(i, 6))
#define FP8(i) (*(fp8_t *)FPXP(i, 8))
#define FP9(i) (*(fp9_t *)FPXP(i, 9))
#define FP12(i) (*(fp12_t *)FPXP(i, 12))
#define FP16(i) (*(fp16_t *)FPXP(i, 16))
#define FP18(i) (*(fp18_t *)FPXP(i, 18))
#define FP24(i) (*(fp24_t *)FPXP(i, 24))
#define FP48(i) (*(fp48_t *)FPXP(i, 48))
#define FP54(i) (*(fp54_t *)FPXP(i, 54))

/* extension-curve point slots (b_epx.c) */
void *vs_getp(uint64_t idx, int type, int deg);

#endif

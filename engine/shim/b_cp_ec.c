/* Bindings for the curve / pairing / MPC protocols of C06 part B:
 *   ECIES, ECDH, ECMQV (EC module over prime curves, ec_t == ep_t),
 *   SOK key agreement, Boneh-Franklin IBE, BGN, delegated pairing (pdpub/pdprv/lvpub/lvprv),
 *   RSA-PSI / SHI-PSI / PB-PSI, Shamir sharing, multiplication triples, MPC group / pairing triples.
 * Structured library types travel as groups of plain slots:
 *   bgn_t    = BNV[3] (x, y, z) + EPV[3] (gx, gy, gz) + EP2V[3] (hx, hy, hz)
 *   sokaka_t = EP (s1) + EP2 (s2)
 *   crt_t    = BNV[6] in the order n, p, q, dp, dq, qi
 *   mt_t     = BNV[3] (a, b, c) + one slot each for the group elements b1/c1 (b2/c2, bt/ct)
 *   pt_t     = EP (a) + EP2 (b) + FPX (c)
 * G1 = EP slot, G2 = EP2 slot of degree G2DEG, GT = FPX slot of degree RLC_GT_EMBED; arrays are the vector slots.
 * in/out length parameters: the capacity is an immediate, the updated length is returned. */
#include "vs.h"

#if ALLOC == AUTO

#define FPB (RLC_FP_DIGS * sizeof(dig_t))
#define BNV(i) ((bn_t *)vs_get(c->a[i], VT_BNV))
#define BNVLEN(i) (vs_slot_at(c->a[i])->len)

/* ------------------------------------------------------------------------------------------------ */
/* EC protocols                                                                                     */
/* ------------------------------------------------------------------------------------------------ */
#if defined(WITH_CP) && defined(WITH_EC) && defined(WITH_EP) && EC_CUR == PRIME

#define EP(i) ((ep_st *)vs_get(c->a[i], VT_EP))

BIND(info_cp_ec) {
	RET(RLC_MD_LEN); RET(MD_MAP); RET(RLC_BC_LEN); RET(RLC_FC_BYTES); RET(ec_param_level()); RET(RLC_FP_BYTES);
	RET(RLC_BN_BITS); RET(RLC_DIG);
#ifdef CP_CRT
	RET(1);
#else
	RET(0);
#endif
	RET(SH224); RET(SH256); RET(SH384); RET(SH512); RET(B2S160); RET(B2S256);
}

BIND(cp_ecies_gen) { RET(cp_ecies_gen(BN(0), EP(1))); }
BIND(cp_ecies_enc) {
	/* r, out, out capacity, in, in_len, q */
	size_t ol = (size_t)A(2);
	RET(cp_ecies_enc(EP(0), BUF(1), &ol, BUF(3), (size_t)A(4), EP(5)));
	RET(ol);
}
BIND(cp_ecies_dec) {
	/* out, out capacity, r, in, in_len, d */
	size_t ol = (size_t)A(1);
	RET(cp_ecies_dec(BUF(0), &ol, EP(2), BUF(3), (size_t)A(4), BN(5)));
	RET(ol);
}
BIND(cp_ecdh_gen) { RET(cp_ecdh_gen(BN(0), EP(1))); }
BIND(cp_ecdh_key) { RET(cp_ecdh_key(BUF(0), (size_t)A(1), BN(2), EP(3))); }
BIND(cp_ecmqv_gen) { RET(cp_ecmqv_gen(BN(0), EP(1))); }
BIND(cp_ecmqv_key) { RET(cp_ecmqv_key(BUF(0), (size_t)A(1), BN(2), BN(3), EP(4), EP(5), EP(6))); }

#endif /* EC */

/* ------------------------------------------------------------------------------------------------ */
/* integer-only protocols                                                                           */
/* ------------------------------------------------------------------------------------------------ */
#if defined(WITH_CP) && defined(WITH_BN)

static void crt_load(crt_st *k, bn_t *v) {
	bn_new(k->n); bn_new(k->p); bn_new(k->q); bn_new(k->dp); bn_new(k->dq); bn_new(k->qi);
	bn_copy(k->n, v[0]); bn_copy(k->p, v[1]); bn_copy(k->q, v[2]);
	bn_copy(k->dp, v[3]); bn_copy(k->dq, v[4]); bn_copy(k->qi, v[5]);
}
static void crt_store(bn_t *v, crt_st *k) {
	bn_copy(v[0], k->n); bn_copy(v[1], k->p); bn_copy(v[2], k->q);
	bn_copy(v[3], k->dp); bn_copy(v[4], k->dq); bn_copy(v[5], k->qi);
}

BIND(cp_rsapsi_gen) { RET(cp_rsapsi_gen(BN(0), BN(1), (size_t)A(2))); }
BIND(cp_rsapsi_ask) { RET(cp_rsapsi_ask(BN(0), BN(1), BNV(2), BN(3), BN(4), (const bn_t *)BNV(5), (size_t)A(6))); }
BIND(cp_rsapsi_ans) {
	RET(cp_rsapsi_ans(BNV(0), BNV(1), BN(2), BN(3), BN(4), (const bn_t *)BNV(5), (size_t)A(6)));
}
BIND(cp_rsapsi_int) {
	/* z, r, p, n, x, m, t, u, l -> rc, len */
	size_t len;
	memset(&len, vs_poison, sizeof len);
	RET(cp_rsapsi_int(BNV(0), &len, BN(1), (const bn_t *)BNV(2), BN(3), (const bn_t *)BNV(4), (size_t)A(5),
			(const bn_t *)BNV(6), (const bn_t *)BNV(7), (size_t)A(8)));
	RET(len);
}
BIND(cp_shipsi_gen) {
	/* g, crt (BNV[6]), bits */
	if (BNVLEN(1) != 6) vs_die("crt wants BNV[6]");
	crt_t crt;
	crt_load(crt, BNV(1));
	RET(cp_shipsi_gen(BN(0), crt, (size_t)A(2)));
	crt_store(BNV(1), crt);
}
BIND(cp_shipsi_ask) { RET(cp_shipsi_ask(BN(0), BN(1), BNV(2), BN(3), BN(4), (const bn_t *)BNV(5), (size_t)A(6))); }
BIND(cp_shipsi_ans) {
	/* t, u, d, g, crt, y, n */
	if (BNVLEN(4) != 6) vs_die("crt wants BNV[6]");
	crt_t crt;
	crt_load(crt, BNV(4));
	RET(cp_shipsi_ans(BNV(0), BN(1), BN(2), BN(3), crt, (const bn_t *)BNV(5), (size_t)A(6)));
}
BIND(cp_shipsi_int) {
	/* z, r, p, n, x, m, t, u, l -> rc, len */
	size_t len;
	memset(&len, vs_poison, sizeof len);
	RET(cp_shipsi_int(BNV(0), &len, BN(1), (const bn_t *)BNV(2), BN(3), (const bn_t *)BNV(4), (size_t)A(5),
			(const bn_t *)BNV(6), BN(7), (size_t)A(8)));
	RET(len);
}

/* names prefixed so that they cannot collide with another part's binding of the same function */
BIND(c6_bn_lag) { bn_lag(BNV(0), (const bn_t *)BNV(1), BN(2), (size_t)A(3)); }
BIND(c6_bn_evl) { bn_evl(BN(0), (const bn_t *)BNV(1), BN(2), BN(3), (size_t)A(4)); }

#endif /* CP && BN */

/* ------------------------------------------------------------------------------------------------ */
/* secret sharing and multiplication triples                                                       */
/* ------------------------------------------------------------------------------------------------ */
#if defined(WITH_MPC) && defined(WITH_PC) && defined(WITH_PP)

static void mt_load(mt_st *t, bn_t *v) {
	memset(t, 0, sizeof *t);
	bn_new(t->a); bn_new(t->b); bn_new(t->c);
	bn_copy(t->a, v[0]); bn_copy(t->b, v[1]); bn_copy(t->c, v[2]);
}
static void mt_store(bn_t *v, mt_st *t) {
	bn_copy(v[0], t->a); bn_copy(v[1], t->b); bn_copy(v[2], t->c);
}
#define MTCHK(i) do { if (BNVLEN(i) != 3) vs_die("mt wants BNV[3]"); } while (0)

BIND(mpc_mt_gen) {
	/* tri0, tri1 (BNV[3] each), order */
	MTCHK(0); MTCHK(1);
	mt_t tri[2];
	mt_load(tri[0], BNV(0)); mt_load(tri[1], BNV(1));
	mpc_mt_gen(tri, BN(2));
	mt_store(BNV(0), tri[0]); mt_store(BNV(1), tri[1]);
}
BIND(mpc_mt_lcl) {
	/* d, e, x, y, n, tri */
	MTCHK(5);
	mt_t tri;
	mt_load(tri, BNV(5));
	mpc_mt_lcl(BN(0), BN(1), BN(2), BN(3), BN(4), tri);
}
BIND(mpc_mt_bct) { mpc_mt_bct(BNV(0), BNV(1), BN(2)); }
BIND(mpc_mt_mul) {
	/* r, d, e, n, tri, party */
	MTCHK(4);
	mt_t tri;
	mt_load(tri, BNV(4));
	mpc_mt_mul(BN(0), BN(1), BN(2), BN(3), tri, (int)A(5));
}
BIND(mpc_sss_gen) { RET(mpc_sss_gen(BNV(0), BNV(1), BN(2), BN(3), (size_t)A(4), (size_t)A(5))); }
BIND(mpc_sss_key) { RET(mpc_sss_key(BN(0), (const bn_t *)BNV(1), (const bn_t *)BNV(2), BN(3), (size_t)A(4))); }

#endif /* MPC */

/* ------------------------------------------------------------------------------------------------ */
/* pairing-based protocols                                                                          */
/* ------------------------------------------------------------------------------------------------ */
#if defined(WITH_CP) && defined(WITH_PC) && defined(WITH_PP) && defined(WITH_EPX) && defined(WITH_FPX)

#define G2DEG ((int)(sizeof(g2_t) / (3 * FPB)))
#define G1(i) ((ep_st *)vs_get(c->a[i], VT_EP))
#define G1V(i) ((g1_t *)vs_get(c->a[i], VT_EPV))
#define G1VLEN(i) (vs_slot_at(c->a[i])->len)
#define G2(i) (*(g2_t *)vs_getp(c->a[i], VT_EP2, G2DEG))
#define G2V(i) ((g2_t *)vs_getp(c->a[i], VT_EP2V, G2DEG))
#define GT(i) (*(gt_t *)vs_getx(c->a[i], VT_FPX, RLC_GT_EMBED))
#define GTV(i) ((gt_t *)vs_getx(c->a[i], VT_FPXV, RLC_GT_EMBED))
#define VLEN(i) (vs_slot_at(c->a[i])->len)
#define NEED(i, n) do { if (VLEN(i) < (size_t)(n)) vs_die("vector slot too short for this binding"); } while (0)
#define STR(i) ((const char *)BUF(i))

/* --- SOK: sokaka_t = (EP s1, EP2 s2) */
BIND(cp_sokaka_gen) { RET(cp_sokaka_gen(BN(0))); }
BIND(cp_sokaka_gen_prv) {
	/* s1, s2, id (NUL-terminated buffer), master */
	sokaka_t k;
	memcpy(k->s1, G1(0), sizeof(g1_t));
	memcpy(k->s2, G2(1), sizeof(g2_t));
	RET(cp_sokaka_gen_prv(k, STR(2), BN(3)));
	memcpy(G1(0), k->s1, sizeof(g1_t));
	memcpy(G2(1), k->s2, sizeof(g2_t));
}
BIND(cp_sokaka_key) {
	/* key, key_len, id1, s1, s2, id2 */
	sokaka_t k;
	memcpy(k->s1, G1(3), sizeof(g1_t));
	memcpy(k->s2, G2(4), sizeof(g2_t));
	RET(cp_sokaka_key(BUF(0), (size_t)A(1), STR(2), k, STR(5)));
}

/* --- IBE */
BIND(cp_ibe_gen) { RET(cp_ibe_gen(BN(0), G1(1))); }
BIND(cp_ibe_gen_prv) { RET(cp_ibe_gen_prv(G2(0), STR(1), BN(2))); }
BIND(cp_ibe_enc) {
	/* out, capacity, in, in_len, id, pub */
	size_t ol = (size_t)A(1);
	RET(cp_ibe_enc(BUF(0), &ol, BUF(2), (size_t)A(3), STR(4), G1(5)));
	RET(ol);
}
BIND(cp_ibe_dec) {
	/* out, capacity, in, in_len, prv */
	size_t ol = (size_t)A(1);
	RET(cp_ibe_dec(BUF(0), &ol, BUF(2), (size_t)A(3), G2(4)));
	RET(ol);
}

/* --- BGN: private part BNV[3], public part EPV[3] + EP2V[3] */
static void bgn_zero(bgn_st *k) {
	memset(k, 0, sizeof *k);
	bn_new(k->x); bn_new(k->y); bn_new(k->z);
	bn_zero(k->x); bn_zero(k->y); bn_zero(k->z);
}
static void bgn_load_prv(bgn_st *k, bn_t *v) {
	bgn_zero(k);
	bn_copy(k->x, v[0]); bn_copy(k->y, v[1]); bn_copy(k->z, v[2]);
}
static void bgn_load_pub(bgn_st *k, g1_t *g, g2_t *h) {
	bgn_zero(k);
	memcpy(k->gx, g[0], sizeof(g1_t)); memcpy(k->gy, g[1], sizeof(g1_t)); memcpy(k->gz, g[2], sizeof(g1_t));
	memcpy(k->hx, h[0], sizeof(g2_t)); memcpy(k->hy, h[1], sizeof(g2_t)); memcpy(k->hz, h[2], sizeof(g2_t));
}
BIND(cp_bgn_gen) {
	/* prv BNV[3], pub EPV[3], pub EP2V[3] */
	NEED(0, 3); NEED(1, 3); NEED(2, 3);
	bgn_t pub, prv;
	bgn_load_pub(pub, G1V(1), G2V(2));
	bgn_load_prv(prv, BNV(0));
	RET(cp_bgn_gen(pub, prv));
	bn_t *v = BNV(0);
	bn_copy(v[0], prv->x); bn_copy(v[1], prv->y); bn_copy(v[2], prv->z);
	g1_t *g = G1V(1);
	g2_t *h = G2V(2);
	memcpy(g[0], pub->gx, sizeof(g1_t)); memcpy(g[1], pub->gy, sizeof(g1_t)); memcpy(g[2], pub->gz, sizeof(g1_t));
	memcpy(h[0], pub->hx, sizeof(g2_t)); memcpy(h[1], pub->hy, sizeof(g2_t)); memcpy(h[2], pub->hz, sizeof(g2_t));
}
BIND(cp_bgn_enc1) {
	/* out EPV[2], m, pub EPV[3], pub EP2V[3] */
	NEED(0, 2); NEED(2, 3); NEED(3, 3);
	bgn_t pub;
	bgn_load_pub(pub, G1V(2), G2V(3));
	RET(cp_bgn_enc1(G1V(0), (dig_t)A(1), pub));
}
BIND(cp_bgn_dec1) {
	/* in EPV[2], prv BNV[3] -> rc, m */
	NEED(0, 2); NEED(1, 3);
	bgn_t prv;
	bgn_load_prv(prv, BNV(1));
	dig_t o;
	memset(&o, vs_poison, sizeof o);
	RET(cp_bgn_dec1(&o, (const g1_t *)G1V(0), prv));
	RET(o);
}
BIND(cp_bgn_enc2) {
	NEED(0, 2); NEED(2, 3); NEED(3, 3);
	bgn_t pub;
	bgn_load_pub(pub, G1V(2), G2V(3));
	RET(cp_bgn_enc2(G2V(0), (dig_t)A(1), pub));
}
BIND(cp_bgn_dec2) {
	NEED(0, 2); NEED(1, 3);
	bgn_t prv;
	bgn_load_prv(prv, BNV(1));
	dig_t o;
	memset(&o, vs_poison, sizeof o);
	RET(cp_bgn_dec2(&o, (const g2_t *)G2V(0), prv));
	RET(o);
}
BIND(cp_bgn_add) { NEED(0, 4); NEED(1, 4); NEED(2, 4); RET(cp_bgn_add(GTV(0), (const gt_t *)GTV(1), (const gt_t *)GTV(2))); }
BIND(cp_bgn_mul) { NEED(0, 4); NEED(1, 2); NEED(2, 2); RET(cp_bgn_mul(GTV(0), (const g1_t *)G1V(1), (const g2_t *)G2V(2))); }
BIND(cp_bgn_dec) {
	NEED(0, 4); NEED(1, 3);
	bgn_t prv;
	bgn_load_prv(prv, BNV(1));
	dig_t o;
	memset(&o, vs_poison, sizeof o);
	RET(cp_bgn_dec(&o, (const gt_t *)GTV(0), prv));
	RET(o);
}

/* --- delegated pairing */
BIND(cp_pdpub_gen) { RET(cp_pdpub_gen(BN(0), BN(1), G1(2), G2(3), G2(4), GT(5))); }
BIND(cp_pdpub_ask) { RET(cp_pdpub_ask(G1(0), G2(1), G1(2), G2(3), BN(4), BN(5), G1(6), G2(7), G2(8))); }
BIND(cp_pdpub_ans) { NEED(0, 3); RET(cp_pdpub_ans(GTV(0), G1(1), G2(2), G1(3), G2(4), G2(5))); }
BIND(cp_pdpub_ver) { NEED(1, 3); RET(cp_pdpub_ver(GT(0), (const gt_t *)GTV(1), BN(2), GT(3))); }
BIND(cp_lvpub_gen) { RET(cp_lvpub_gen(BN(0), G1(1), G2(2), G2(3), GT(4))); }
BIND(cp_lvpub_ask) { RET(cp_lvpub_ask(BN(0), G1(1), G2(2), G1(3), G2(4), BN(5), G1(6), G2(7), G2(8))); }
BIND(cp_lvpub_ans) { NEED(0, 2); RET(cp_lvpub_ans(GTV(0), G1(1), G2(2), G1(3), G2(4), G2(5))); }
BIND(cp_lvpub_ver) { NEED(1, 2); RET(cp_lvpub_ver(GT(0), (const gt_t *)GTV(1), BN(2), GT(3))); }

#define PRV_GEN(fn) do { if (BNVLEN(1) < 3) vs_die("r wants BNV[3]"); NEED(2, 2); NEED(3, 2); NEED(4, 4); NEED(5, 2); \
	RET(fn(BN(0), BNV(1), G1V(2), G2V(3), G2V(4), GTV(5))); } while (0)
#define PRV_ASK(fn) do { NEED(0, 3); NEED(1, 4); if (BNVLEN(5) < 3) vs_die("r wants BNV[3]"); NEED(6, 2); NEED(7, 2); NEED(8, 4); \
	RET(fn(G1V(0), G2V(1), G1(2), G2(3), BN(4), (const bn_t *)BNV(5), (const g1_t *)G1V(6), (const g2_t *)G2V(7), \
			(const g2_t *)G2V(8))); } while (0)
#define PRV_ANS(fn) do { NEED(0, 4); NEED(1, 3); NEED(2, 4); \
	RET(fn(GTV(0), (const g1_t *)G1V(1), (const g2_t *)G2V(2))); } while (0)
#define PRV_VER(fn) do { NEED(1, 4); NEED(3, 2); \
	RET(fn(GT(0), (const gt_t *)GTV(1), BN(2), (const gt_t *)GTV(3))); } while (0)
BIND(cp_pdprv_gen) { PRV_GEN(cp_pdprv_gen); }
BIND(cp_pdprv_ask) { PRV_ASK(cp_pdprv_ask); }
BIND(cp_pdprv_ans) { PRV_ANS(cp_pdprv_ans); }
BIND(cp_pdprv_ver) { PRV_VER(cp_pdprv_ver); }
BIND(cp_lvprv_gen) { PRV_GEN(cp_lvprv_gen); }
BIND(cp_lvprv_ask) { PRV_ASK(cp_lvprv_ask); }
BIND(cp_lvprv_ans) { PRV_ANS(cp_lvprv_ans); }
BIND(cp_lvprv_ver) { PRV_VER(cp_lvprv_ver); }

/* --- pairing-based PSI */
BIND(cp_pbpsi_gen) {
	/* sk, ss, s EP2V[m + 1], m */
	NEED(2, A(3) + 1);
	RET(cp_pbpsi_gen(BN(0), G1(1), G2V(2), (size_t)A(3)));
}
BIND(cp_pbpsi_ask) {
	/* d EP2V[m + 1], r, x BNV[m], s EP2V[m + 1], m */
	NEED(0, A(4) + 1); NEED(3, A(4) + 1);
	if (BNVLEN(2) < A(4)) vs_die("x too short");
	RET(cp_pbpsi_ask(G2V(0), BN(1), (const bn_t *)BNV(2), (const g2_t *)G2V(3), (size_t)A(4)));
}
BIND(cp_pbpsi_ans) {
	/* t FPXV[n], u EPV[n], ss, d EP2V (d[0] is used), y BNV[n], n */
	NEED(0, A(5)); NEED(1, A(5)); NEED(3, 1);
	if (BNVLEN(4) < A(5)) vs_die("y too short");
	RET(cp_pbpsi_ans(GTV(0), G1V(1), G1(2), G2V(3)[0], (const bn_t *)BNV(4), (size_t)A(5)));
}
BIND(cp_pbpsi_int) {
	/* z BNV, d EP2V[m + 1], x BNV[m], m, t FPXV[n], u EPV[n], n -> rc, len */
	NEED(1, A(3) + 1); NEED(4, A(6)); NEED(5, A(6));
	size_t len;
	memset(&len, vs_poison, sizeof len);
	RET(cp_pbpsi_int(BNV(0), &len, (const g2_t *)G2V(1), (const bn_t *)BNV(2), (size_t)A(3), (const gt_t *)GTV(4),
			(const g1_t *)G1V(5), (size_t)A(6)));
	RET(len);
}

/* --- MPC over the pairing groups */
#if defined(WITH_MPC)

static void mt_load_g(mt_st *t, bn_t *v) {
	memset(t, 0, sizeof *t);
	bn_new(t->a); bn_new(t->b); bn_new(t->c);
	bn_copy(t->a, v[0]); bn_copy(t->b, v[1]); bn_copy(t->c, v[2]);
}
#define MT3(i) do { if (BNVLEN(i) != 3) vs_die("mt wants BNV[3]"); } while (0)

BIND(g1_mul_lcl) {
	/* d, q, x, p, tri BNV[3], b1 */
	MT3(4);
	mt_t tri;
	mt_load_g(tri, BNV(4));
	tri->b1 = (g1_t *)G1(5);
	g1_mul_lcl(BN(0), G1(1), BN(2), G1(3), tri);
}
BIND(g1_mul_bct) { NEED(1, 2); if (BNVLEN(0) < 2) vs_die("d wants BNV[2]"); g1_mul_bct(BNV(0), G1V(1)); }
BIND(g1_mul_mpc) {
	/* r, d, q, tri BNV[3], b1, c1, party */
	MT3(3);
	mt_t tri;
	mt_load_g(tri, BNV(3));
	tri->b1 = (g1_t *)G1(4);
	tri->c1 = (g1_t *)G1(5);
	g1_mul_mpc(G1(0), BN(1), G1(2), tri, (int)A(6));
}
BIND(g2_mul_lcl) {
	MT3(4);
	mt_t tri;
	mt_load_g(tri, BNV(4));
	tri->b2 = (g2_t *)vs_getp(c->a[5], VT_EP2, G2DEG);
	g2_mul_lcl(BN(0), G2(1), BN(2), G2(3), tri);
}
BIND(g2_mul_bct) { NEED(1, 2); if (BNVLEN(0) < 2) vs_die("d wants BNV[2]"); g2_mul_bct(BNV(0), G2V(1)); }
BIND(g2_mul_mpc) {
	MT3(3);
	mt_t tri;
	mt_load_g(tri, BNV(3));
	tri->b2 = (g2_t *)vs_getp(c->a[4], VT_EP2, G2DEG);
	tri->c2 = (g2_t *)vs_getp(c->a[5], VT_EP2, G2DEG);
	g2_mul_mpc(G2(0), BN(1), G2(2), tri, (int)A(6));
}
BIND(gt_exp_lcl) {
	MT3(4);
	mt_t tri;
	mt_load_g(tri, BNV(4));
	tri->bt = (gt_t *)vs_getx(c->a[5], VT_FPX, RLC_GT_EMBED);
	gt_exp_lcl(BN(0), GT(1), BN(2), GT(3), tri);
}
BIND(gt_exp_bct) { NEED(1, 2); if (BNVLEN(0) < 2) vs_die("d wants BNV[2]"); gt_exp_bct(BNV(0), GTV(1)); }
BIND(gt_exp_mpc) {
	MT3(3);
	mt_t tri;
	mt_load_g(tri, BNV(3));
	tri->bt = (gt_t *)vs_getx(c->a[4], VT_FPX, RLC_GT_EMBED);
	tri->ct = (gt_t *)vs_getx(c->a[5], VT_FPX, RLC_GT_EMBED);
	gt_exp_mpc(GT(0), BN(1), GT(2), tri, (int)A(6));
}
BIND(pc_map_tri) {
	/* a EPV[2], b EP2V[2], c FPXV[2] */
	NEED(0, 2); NEED(1, 2); NEED(2, 2);
	pt_t t[2];
	for (int i = 0; i < 2; i++) {
		memcpy(t[i]->a, G1V(0)[i], sizeof(g1_t));
		memcpy(t[i]->b, G2V(1)[i], sizeof(g2_t));
		memcpy(t[i]->c, GTV(2)[i], sizeof(gt_t));
	}
	pc_map_tri(t);
	for (int i = 0; i < 2; i++) {
		memcpy(G1V(0)[i], t[i]->a, sizeof(g1_t));
		memcpy(G2V(1)[i], t[i]->b, sizeof(g2_t));
		memcpy(GTV(2)[i], t[i]->c, sizeof(gt_t));
	}
}
BIND(pc_map_lcl) {
	/* d, e, p, q, triple (a, b, c) */
	pt_t t;
	memcpy(t->a, G1(4), sizeof(g1_t));
	memcpy(t->b, G2(5), sizeof(g2_t));
	memcpy(t->c, GT(6), sizeof(gt_t));
	pc_map_lcl(G1(0), G2(1), G1(2), G2(3), t);
}
BIND(pc_map_bct) { NEED(0, 2); NEED(1, 2); pc_map_bct(G1V(0), G2V(1)); }
BIND(pc_map_mpc) {
	/* r, d1, d2, triple (a, b, c), party */
	pt_t t;
	memcpy(t->a, G1(3), sizeof(g1_t));
	memcpy(t->b, G2(4), sizeof(g2_t));
	memcpy(t->c, GT(5), sizeof(gt_t));
	pc_map_mpc(GT(0), G1(1), G2(2), t, (int)A(6));
}

#endif /* MPC */
#endif /* pairing */

#endif /* ALLOC == AUTO */

/* C18 — getters for every published / derived constant of the active parameter sets, read straight from the
 * public library context (ctx_t is declared in relic_core.h). Nothing is computed here: values travel raw
 * (internal digit vectors, Montgomery form where the build uses it) and Python does the interpretation.
 * All bindings carry the c18_ prefix so that they never collide with bindings of other modules. */
#include "vs.h"

#if ALLOC == AUTO

static void ret_bn_(vs_call *c, const bn_st *a) {
	/* sign byte followed by the used digits (little endian digit order, native digit bytes) */
	uint8_t tmp[1 + sizeof(dig_t) * (RLC_BN_SIZE + 2)];
	size_t used = a->used > 0 && (size_t)a->used <= RLC_BN_SIZE ? (size_t)a->used : 0;
	tmp[0] = a->sign == RLC_NEG ? 1 : 0;
	memcpy(tmp + 1, a->dp, used * sizeof(dig_t));
	ret_blob(c, tmp, 1 + used * sizeof(dig_t));
}

static void ret_ints_(vs_call *c, const int *v, int n) {
	int32_t t[64];
	if (n > 64) n = 64;
	if (n < 0) n = 0;
	for (int i = 0; i < n; i++) t[i] = (int32_t)v[i];
	ret_blob(c, t, (size_t)n * sizeof(int32_t));
}

static void ret_arr_(vs_call *c, const void *base, size_t stride, size_t elem, size_t n) {
	/* n elements of 'elem' bytes taken every 'stride' bytes (fp_st / fb_st may carry alignment padding) */
	uint8_t *t = (uint8_t *)malloc(n * elem + 1);
	for (size_t i = 0; i < n; i++) memcpy(t + i * elem, (const uint8_t *)base + i * stride, elem);
	ret_blob(c, t, n * elem);
	free(t);
}
#define RET_FPS(ptr, n) ret_arr_(c, (ptr), sizeof(fp_st), FPB, (n))
#define RET_FBS(ptr, n) ret_arr_(c, (ptr), sizeof(fb_st), FBB, (n))

BIND(c18_info) {
	/* which modules exist in this build */
#ifdef WITH_FP
	RET(FP_PRIME);
#else
	RET(0);
#endif
#ifdef WITH_FB
	RET(FB_POLYN);
#else
	RET(0);
#endif
#ifdef WITH_EP
	RET(1);
#else
	RET(0);
#endif
#ifdef WITH_EPX
	RET(1);
#else
	RET(0);
#endif
#ifdef WITH_EB
	RET(1);
#else
	RET(0);
#endif
#ifdef WITH_ED
	RET(1);
#else
	RET(0);
#endif
#if defined(WITH_PC) && defined(WITH_PP)
	RET(1);
#else
	RET(0);
#endif
	RET(RLC_DIG);
	RET(RLC_BN_SIZE);
	RET(RLC_TERMS);
}

/* ------------------------------------------------------------------------------------------ prime fields */
#ifdef WITH_FP

#define FPB (RLC_FP_DIGS * sizeof(dig_t))

BIND(c18_fp_consts) {
	ctx_t *x = core_get();
	RET(FP_PRIME); RET(RLC_DIG); RET(RLC_FP_DIGS);
#ifdef RLC_FP_ROOM
	RET(1);
#else
	RET(0);
#endif
	RET(FP_RDC == MONTY);
	RET(x->fp_id);
	RET(x->mod8); RET(x->mod18); RET((int64_t)x->qnr); RET((int64_t)x->cnr); RET((int64_t)x->ad2);
	RET(x->u);
	RET(x->sps_len); RET(x->par_len);
	/* 14.. : the getters' view of the same data */
	RET(fp_prime_get_mod8()); RET(fp_prime_get_mod18()); RET((int64_t)fp_prime_get_qnr());
	RET((int64_t)fp_prime_get_cnr()); RET((int64_t)fp_prime_get_2ad()); RET(*fp_prime_get_rdc());
	RET(fp_param_get());
	ret_blob(c, x->prime.dp, FPB);                 /* 0 */
	ret_bn_(c, &x->prime);                          /* 1 */
	ret_bn_(c, &x->over3);                          /* 2 */
	ret_bn_(c, &x->par);                            /* 3 */
	ret_blob(c, x->one.dp, FPB);                   /* 4 */
	ret_blob(c, x->conv.dp, FPB);                  /* 5 */
	ret_blob(c, x->inv.dp, FPB);                   /* 6 */
	ret_blob(c, x->srt.dp, FPB);                   /* 7 */
	ret_blob(c, x->crt.dp, FPB);                   /* 8 */
	ret_ints_(c, x->sps, x->sps_len > 0 && x->sps_len <= RLC_TERMS ? x->sps_len : 0);     /* 9 */
	ret_ints_(c, x->par_sps, x->par_len > 0 && x->par_len <= RLC_TERMS ? x->par_len : 0); /* 10 */
	{
		/* the getters' view */
		int len = 0;
		const int *s = fp_prime_get_sps(&len);
		ret_ints_(c, s ? s : x->sps, s ? len : 0);       /* 11 */
		len = 0;
		s = fp_prime_get_par_sps(&len);
		ret_ints_(c, s ? s : x->par_sps, s ? len : 0);   /* 12 */
		ret_blob(c, fp_prime_get_conv(), FPB);            /* 13 */
		ret_blob(c, fp_prime_get_srt(), FPB);             /* 14 */
		ret_blob(c, fp_prime_get_crt(), FPB);             /* 15 */
	}
}

#if defined(WITH_FPX)
BIND(c18_fpx_consts) {
	ctx_t *x = core_get();
	RET((int64_t)x->qnr2); RET((int64_t)x->cnr3);
	RET((int64_t)fp2_field_get_qnr()); RET((int64_t)fp3_field_get_cnr());
	RET(x->frb3[0]); RET(x->frb3[1]); RET(x->frb3[2]); RET(x->frb4); RET(x->frb8);
	RET((int64_t)fp_prime_get_qnr()); RET((int64_t)fp_prime_get_cnr());
	/* what fp2_mul_nor / fp3_mul_nor / fp4_mul_art / fp8_mul_art really multiply by */
	{
		fp2_t one2, e2;
		fp2_zero(e2);
		if (fp_prime_get_qnr() != 0) {
			fp2_set_dig(one2, 1);
			fp2_mul_nor(e2, one2);
		}
		RET_FPS(e2, 2);                   /* 0 */
		fp3_t one3, e3;
		fp3_zero(e3);
		if (fp_prime_get_cnr() != 0) {
			fp3_set_dig(one3, 1);
			fp3_mul_nor(e3, one3);
		}
		RET_FPS(e3, 3);                   /* 1 */
	}
	RET_FPS(x->fp2_p1, 10);           /* 2 */
	RET_FPS(x->fp2_p2, 8);           /* 3 */
	RET_FPS(x->fp3_p0, 2);               /* 4 */
	RET_FPS(x->fp3_p1, 15);           /* 5 */
	RET_FPS(x->fp3_p2, 6);           /* 6 */
	RET_FPS(x->fp4_p1, 2);               /* 7 */
	RET_FPS(x->fp8_p1, 2);               /* 8 */
	{
		/* i^2 as the library computes it: fp2_mul_art(i) */
		fp2_t i2;
		fp2_zero(i2);
		if (fp_prime_get_qnr() != 0) {
			fp2_zero(i2);
			fp_set_dig(i2[1], 1);
			fp2_mul_art(i2, i2);
		}
		RET_FPS(i2, 2);                   /* 9 */
	}
}
#endif

#endif /* WITH_FP */

/* ------------------------------------------------------------------------------------------- prime curves */
#if defined(WITH_EP)

BIND(c18_ep_consts) {
	ctx_t *x = core_get();
	RET(x->ep_id); RET(x->ep_opt_a); RET(x->ep_opt_b); RET(x->ep_is_endom); RET(x->ep_is_super);
	RET(x->ep_is_pairf); RET(x->ep_is_ctmap); RET(ep_curve_embed()); RET(ep_curve_frdim()); RET(ep_param_level());
	RET(x->ep_g.coord); RET(BASIC); RET(fp_param_get());
#ifdef EP_CTMAP
	RET(1); RET(x->ep_iso.deg_xn); RET(x->ep_iso.deg_xd); RET(x->ep_iso.deg_yn); RET(x->ep_iso.deg_yd);
#else
	RET(0); RET(0); RET(0); RET(0); RET(0);
#endif
#ifdef EP_ENDOM
	RET(1);
#else
	RET(0);
#endif
	RET(EP_BN); RET(EP_B12); RET(EP_B24); RET(EP_B48); RET(EP_K16); RET(EP_K18); RET(EP_FM16); RET(EP_FM18);
	RET(EP_AFG16); RET(EP_SG18); RET(EP_SG54); RET(EP_GMT8); RET(EP_SS2); RET(EP_K1);
	RET(RLC_ZERO); RET(RLC_ONE); RET(RLC_TWO); RET(RLC_MIN3); RET(RLC_TINY); RET(RLC_HUGE);
	ret_blob(c, x->ep_a, FPB);                      /* 0 */
	ret_blob(c, x->ep_b, FPB);                      /* 1 */
	ret_blob(c, x->ep_g.x, FPB);                    /* 2 */
	ret_blob(c, x->ep_g.y, FPB);                    /* 3 */
	ret_blob(c, x->ep_g.z, FPB);                    /* 4 */
	ret_bn_(c, &x->ep_r);                           /* 5 */
	ret_bn_(c, &x->ep_h);                           /* 6 */
#ifdef EP_ENDOM
	ret_blob(c, x->beta, FPB);                      /* 7 */
	for (int i = 0; i < 3; i++) ret_bn_(c, &x->ep_v1[i]);   /* 8, 9, 10 */
	for (int i = 0; i < 3; i++) ret_bn_(c, &x->ep_v2[i]);   /* 11, 12, 13 */
#else
	for (int i = 0; i < 7; i++) ret_blob(c, x->ep_a, 0);
#endif
	ret_blob(c, x->ep_map_u, FPB);                  /* 14 */
	RET_FPS(x->ep_map_c, 7);              /* 15 */
#ifdef EP_CTMAP
	ret_blob(c, x->ep_iso.a, FPB);                  /* 16 */
	ret_blob(c, x->ep_iso.b, FPB);                  /* 17 */
	RET_FPS(x->ep_iso.xn, RLC_EP_CTMAP_MAX);   /* 18 */
	RET_FPS(x->ep_iso.xd, RLC_EP_CTMAP_MAX);   /* 19 */
	RET_FPS(x->ep_iso.yn, RLC_EP_CTMAP_MAX);   /* 20 */
	RET_FPS(x->ep_iso.yd, RLC_EP_CTMAP_MAX);   /* 21 */
#endif
}

#endif /* WITH_EP */

/* what the PUBLIC accessors advertise (the *_consts bindings read the context fields): order and cofactor */
#ifdef WITH_EP
BIND(c18_ep_accessors) {
	bn_t t;
	bn_null(t); bn_new(t);
	ep_curve_get_ord(t); ret_bn_(c, t);             /* 0 */
	ep_curve_get_cof(t); ret_bn_(c, t);             /* 1 */
	bn_free(t);
}
#endif
#if defined(WITH_EPX) && defined(WITH_EP)
BIND(c18_ep2_accessors) {
	bn_t t;
	bn_null(t); bn_new(t);
	ep2_curve_get_ord(t); ret_bn_(c, t);            /* 0 */
	ep2_curve_get_cof(t); ret_bn_(c, t);            /* 1 */
	bn_free(t);
}
#endif

/* --------------------------------------------------------------------------------- curves over Fp2 (twists) */
#if defined(WITH_EPX) && defined(WITH_EP)

BIND(c18_ep2_consts) {
	ctx_t *x = core_get();
	RET(x->ep2_is_twist); RET(x->ep2_opt_a); RET(x->ep2_opt_b); RET(x->ep2_is_ctmap);
	RET(x->ep2_g->coord); RET(RLC_EP_DTYPE); RET(RLC_EP_MTYPE);
#ifdef EP_CTMAP
	RET(1); RET(x->ep2_iso.deg_xn); RET(x->ep2_iso.deg_xd); RET(x->ep2_iso.deg_yn); RET(x->ep2_iso.deg_yd);
#else
	RET(0); RET(0); RET(0); RET(0); RET(0);
#endif
	RET_FPS(x->ep2_a, 2);                 /* 0 */
	RET_FPS(x->ep2_b, 2);                 /* 1 */
	RET_FPS(x->ep2_g->x, 2);              /* 2 */
	RET_FPS(x->ep2_g->y, 2);              /* 3 */
	RET_FPS(x->ep2_g->z, 2);              /* 4 */
	ret_bn_(c, &x->ep2_r);                          /* 5 */
	ret_bn_(c, &x->ep2_h);                          /* 6 */
	RET_FPS(x->ep2_map_u, 2);             /* 7 */
	RET_FPS(x->ep2_map_c, 8);         /* 8 */
	RET_FPS(x->ep2_frb, 4);           /* 9 */
#ifdef EP_CTMAP
	RET_FPS(x->ep2_iso.a, 2);             /* 10 */
	RET_FPS(x->ep2_iso.b, 2);             /* 11 */
	RET_FPS(x->ep2_iso.xn, 2 * RLC_EPX_CTMAP_MAX);   /* 12 */
	RET_FPS(x->ep2_iso.xd, 2 * RLC_EPX_CTMAP_MAX);   /* 13 */
	RET_FPS(x->ep2_iso.yn, 2 * RLC_EPX_CTMAP_MAX);   /* 14 */
	RET_FPS(x->ep2_iso.yd, 2 * RLC_EPX_CTMAP_MAX);   /* 15 */
#endif
}

#endif

/* ------------------------------------------------------------------------------------------ binary fields */
#ifdef WITH_FB

#define FBB (RLC_FB_DIGS * sizeof(dig_t))

BIND(c18_fb_param_set) { fb_param_set((int)A(0)); }
BIND(c18_fb_consts) {
	ctx_t *x = core_get();
	int a = -2, b = -2, d = -2;
	RET(RLC_FB_BITS); RET(RLC_FB_DIGS); RET(RLC_DIG); RET(x->fb_id);
	RET((int64_t)x->fb_pa); RET((int64_t)x->fb_pb); RET((int64_t)x->fb_pc);
	RET((int64_t)x->fb_na); RET((int64_t)x->fb_nb); RET((int64_t)x->fb_nc);
	RET((int64_t)x->fb_ta); RET((int64_t)x->fb_tb); RET((int64_t)x->fb_tc);
	fb_poly_get_rdc(&a, &b, &d);
	RET((int64_t)a); RET((int64_t)b); RET((int64_t)d);
	a = b = d = -2;
	fb_poly_get_trc(&a, &b, &d);
	RET((int64_t)a); RET((int64_t)b); RET((int64_t)d);
	RET((int64_t)x->chain_len);
	RET(sizeof(x->fb_half) / (16 * sizeof(fb_st)));
	RET(fb_param_get());
#ifdef FB_PRECO
	RET(1);
#else
	RET(0);
#endif
	ret_blob(c, fb_poly_get(), FBB);                /* 0 */
	ret_blob(c, x->fb_srz, FBB);                    /* 1 */
	ret_ints_(c, x->chain, RLC_TERMS + 1);          /* 2 */
	RET_FBS(x->fb_half, sizeof(x->fb_half) / sizeof(fb_st));    /* 3 */
#ifdef FB_PRECO
	RET_FBS(x->fb_tab_srz, 256);   /* 4 */
#endif
}

#endif /* WITH_FB */

/* ------------------------------------------------------------------------------------------ binary curves */
#if defined(WITH_EB) && defined(WITH_FB)

BIND(c18_eb_param_set) { eb_param_set((int)A(0)); }
BIND(c18_eb_consts) {
	ctx_t *x = core_get();
	RET(x->eb_id); RET(x->eb_opt_a); RET(x->eb_opt_b); RET(x->eb_is_kbltz); RET(eb_param_level());
	RET(x->eb_g.coord); RET(fb_param_get()); RET(eb_curve_is_kbltz()); RET(eb_param_get());
	RET(RLC_ZERO); RET(RLC_ONE); RET(RLC_TINY); RET(RLC_HUGE);
	ret_blob(c, x->eb_a, FBB);                      /* 0 */
	ret_blob(c, x->eb_b, FBB);                      /* 1 */
	ret_blob(c, x->eb_g.x, FBB);                    /* 2 */
	ret_blob(c, x->eb_g.y, FBB);                    /* 3 */
	ret_blob(c, x->eb_g.z, FBB);                    /* 4 */
	ret_bn_(c, &x->eb_r);                           /* 5 */
	ret_bn_(c, &x->eb_h);                           /* 6 */
}

#endif

/* ----------------------------------------------------------------------------------------- Edwards curves */
#if defined(WITH_ED) && defined(WITH_FP)

BIND(c18_ed_param_set) { ed_param_set((int)A(0)); }
BIND(c18_ed_consts) {
	ctx_t *x = core_get();
	RET(x->ed_id); RET(ed_param_level()); RET(x->ed_g.coord); RET(fp_param_get()); RET(ed_param_get());
	ret_blob(c, x->ed_a, FPB);                      /* 0 */
	ret_blob(c, x->ed_d, FPB);                      /* 1 */
	ret_blob(c, x->ed_g.x, FPB);                    /* 2 */
	ret_blob(c, x->ed_g.y, FPB);                    /* 3 */
	ret_blob(c, x->ed_g.z, FPB);                    /* 4 */
	ret_bn_(c, &x->ed_r);                           /* 5 */
	ret_bn_(c, &x->ed_h);                           /* 6 */
	RET_FPS(x->ed_map_c, 4);              /* 7 */
}

#endif

#endif /* ALLOC == AUTO */

/* Bindings for the MD (hash, HMAC, KDF, MGF, XMD) and BC (AES-CBC) modules (property C14).
 *
 * Conventions: every byte-string argument is a BUF slot whose length is the length passed to the library
 * (exact-size heap blocks, so ASan sees any access past either end).  Optional immediates:
 *   message offset  - hash bindings take A(2): the message is BUF(1)+off, length BUFLEN(1)-off (misaligned starts)
 *   length override - where an argument says "(u64)-1 = use the slot length"
 */
#include "vs.h"

#define LEN_OR(i, bi) (c->na > (i) && A(i) != (uint64_t)-1 ? (size_t)A(i) : BUFLEN(bi))

#ifdef WITH_MD

#if MD_MAP == SH224 || MD_MAP == SH256 || MD_MAP == B2S160 || MD_MAP == B2S256
#define VS_MD_BLOCK 64
#else
#define VS_MD_BLOCK 128
#endif

BIND(info_md) {
	RET(RLC_MD_LEN);
#if MD_MAP == SH224
	RET(224);
#elif MD_MAP == SH256
	RET(256);
#elif MD_MAP == SH384
	RET(384);
#elif MD_MAP == SH512
	RET(512);
#elif MD_MAP == B2S160
	RET(2160);
#elif MD_MAP == B2S256
	RET(2256);
#else
	RET(0);
#endif
	RET(VS_MD_BLOCK);
#ifdef WITH_BC
	RET(1);
#else
	RET(0);
#endif
	RET(WSIZE);
}

#define MSG_OFF ((c->na > 2) ? (size_t)A(2) : 0)
#define HASH_BIND(fn)                                                                      \
	BIND(fn) {                                                                             \
		size_t off = MSG_OFF;                                                              \
		if (off > BUFLEN(1)) vs_die("hash binding: offset beyond message");                \
		fn(BUF(0), BUF(1) + off, BUFLEN(1) - off);                                         \
	}

#if MD_MAP == SH224 || !defined(STRIP)
HASH_BIND(md_map_sh224)
#endif
#if MD_MAP == SH256 || !defined(STRIP)
HASH_BIND(md_map_sh256)
#endif
#if MD_MAP == SH384 || !defined(STRIP)
HASH_BIND(md_map_sh384)
#endif
#if MD_MAP == SH512 || !defined(STRIP)
HASH_BIND(md_map_sh512)
#endif
#if MD_MAP == B2S160 || !defined(STRIP)
HASH_BIND(md_map_b2s160)
#endif
#if MD_MAP == B2S256 || !defined(STRIP)
HASH_BIND(md_map_b2s256)
#endif
HASH_BIND(md_map)

/* md_hmac(mac, in, key) */
BIND(md_hmac) { md_hmac(BUF(0), BUF(1), BUFLEN(1), BUF(2), BUFLEN(2)); }
/* md_kdf(out, in): key_len = length of the out slot */
BIND(md_kdf) { md_kdf(BUF(0), BUFLEN(0), BUF(1), BUFLEN(1)); }
BIND(md_mgf) { md_mgf(BUF(0), BUFLEN(0), BUF(1), BUFLEN(1)); }

/* md_xmd_*(out, in, dst): lengths are the slot lengths */
#define XMD_BIND(fn) BIND(fn) { fn(BUF(0), BUFLEN(0), BUF(1), BUFLEN(1), BUF(2), BUFLEN(2)); }
#if MD_MAP == SH224 || !defined(STRIP)
XMD_BIND(md_xmd_sh224)
#endif
#if MD_MAP == SH256 || !defined(STRIP)
XMD_BIND(md_xmd_sh256)
#endif
#if MD_MAP == SH384 || !defined(STRIP)
XMD_BIND(md_xmd_sh384)
#endif
#if MD_MAP == SH512 || !defined(STRIP)
XMD_BIND(md_xmd_sh512)
#endif
#if MD_MAP == SH224 || MD_MAP == SH256 || MD_MAP == SH384 || MD_MAP == SH512
XMD_BIND(md_xmd)
#endif

#endif /* WITH_MD */

#ifdef WITH_BC

/* bc_aes_cbc_enc(out, in, key, iv [, capacity]) -> (return code, *out_len after the call)
 * capacity defaults to the length of the out slot (the documented meaning of *out_len on entry) */
BIND(bc_aes_cbc_enc) {
	size_t ol = LEN_OR(4, 0);
	if (BUFLEN(3) != RLC_BC_LEN) vs_die("bc_aes_cbc_enc: iv slot must be 16 bytes");
	if (ol > BUFLEN(0)) vs_die("bc_aes_cbc_enc: capacity larger than the out slot");
	int r = bc_aes_cbc_enc(BUF(0), &ol, BUF(1), BUFLEN(1), BUF(2), BUFLEN(2), BUF(3));
	RET((int64_t)r); RET(ol);
}
BIND(bc_aes_cbc_dec) {
	size_t ol = LEN_OR(4, 0);
	if (BUFLEN(3) != RLC_BC_LEN) vs_die("bc_aes_cbc_dec: iv slot must be 16 bytes");
	if (ol > BUFLEN(0)) vs_die("bc_aes_cbc_dec: capacity larger than the out slot");
	int r = bc_aes_cbc_dec(BUF(0), &ol, BUF(1), BUFLEN(1), BUF(2), BUFLEN(2), BUF(3));
	RET((int64_t)r); RET(ol);
}

#endif /* WITH_BC */

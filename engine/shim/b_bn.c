/* Bindings for the BN module: one line per library function. */
#include "vs.h"

#ifdef WITH_BN

#define BNV(i) ((bn_t *)vs_get(c->a[i], VT_BNV))
#define BNVLEN(i) (vs_slot_at(c->a[i])->len)
/* optional bn argument: slot index or (uint64_t)-1 for NULL */
#define BN_OPT(i) (c->a[i] == (uint64_t)-1 ? NULL : BN(i))

BIND(info_bn) {
	RET(RLC_DIG); RET(RLC_BN_BITS); RET(RLC_BN_DIGS); RET(RLC_BN_SIZE); RET(sizeof(bn_st));
	RET(ALLOC == AUTO ? 0 : 1); RET(BN_KARAT);
#ifdef BN_MAGNI
	RET(BN_MAGNI);
#else
	RET(0);
#endif
}

/* arithmetic */
BIND(bn_add) { bn_add(BN(0), BN(1), BN(2)); }
BIND(bn_sub) { bn_sub(BN(0), BN(1), BN(2)); }
BIND(bn_add_dig) { bn_add_dig(BN(0), BN(1), (dig_t)A(2)); }
BIND(bn_sub_dig) { bn_sub_dig(BN(0), BN(1), (dig_t)A(2)); }
BIND(bn_mul_dig) { bn_mul_dig(BN(0), BN(1), (dig_t)A(2)); }
BIND(bn_mul) { bn_mul(BN(0), BN(1), BN(2)); }
BIND(bn_mul_basic) { bn_mul_basic(BN(0), BN(1), BN(2)); }
BIND(bn_mul_comba) { bn_mul_comba(BN(0), BN(1), BN(2)); }
BIND(bn_mul_karat) { bn_mul_karat(BN(0), BN(1), BN(2)); }
BIND(bn_sqr) { bn_sqr(BN(0), BN(1)); }
BIND(bn_sqr_basic) { bn_sqr_basic(BN(0), BN(1)); }
BIND(bn_sqr_comba) { bn_sqr_comba(BN(0), BN(1)); }
BIND(bn_sqr_karat) { bn_sqr_karat(BN(0), BN(1)); }
BIND(bn_dbl) { bn_dbl(BN(0), BN(1)); }
BIND(bn_hlv) { bn_hlv(BN(0), BN(1)); }
BIND(bn_lsh) { bn_lsh(BN(0), BN(1), (uint_t)A(2)); }
BIND(bn_rsh) { bn_rsh(BN(0), BN(1), (uint_t)A(2)); }
BIND(bn_div) { bn_div(BN(0), BN(1), BN(2)); }
BIND(bn_div_rem) { bn_div_rem(BN_OPT(0), BN_OPT(1), BN(2), BN(3)); }
BIND(bn_div_dig) { bn_div_dig(BN(0), BN(1), (dig_t)A(2)); }
BIND(bn_div_rem_dig) {
	dig_t d = (dig_t)(0x0101010101010101ULL * vs_poison);
	bn_div_rem_dig(BN_OPT(0), A(3) ? &d : NULL, BN(1), (dig_t)A(2));
	RET(d);
}
BIND(bn_neg) { bn_neg(BN(0), BN(1)); }
BIND(bn_abs) { bn_abs(BN(0), BN(1)); }
BIND(bn_copy) { bn_copy(BN(0), BN(1)); }
BIND(bn_zero) { bn_zero(BN(0)); }
BIND(bn_cmp) { RET((int64_t)bn_cmp(BN(0), BN(1))); }
BIND(bn_cmp_abs) { RET((int64_t)bn_cmp_abs(BN(0), BN(1))); }
BIND(bn_cmp_dig) { RET((int64_t)bn_cmp_dig(BN(0), (dig_t)A(1))); }
BIND(bn_sign) { RET((int64_t)bn_sign(BN(0))); }
BIND(bn_is_zero) { RET(bn_is_zero(BN(0))); }
BIND(bn_is_even) { RET(bn_is_even(BN(0))); }
BIND(bn_bits) { RET(bn_bits(BN(0))); }
BIND(bn_get_bit) { RET(bn_get_bit(BN(0), (uint_t)A(1))); }
BIND(bn_set_bit) { bn_set_bit(BN(0), (uint_t)A(1), (int)A(2)); }
BIND(bn_ham) { RET(bn_ham(BN(0))); }
BIND(bn_get_dig) { dig_t d = (dig_t)(0x0101010101010101ULL * vs_poison); bn_get_dig(&d, BN(0)); RET(d); }
BIND(bn_set_dig) { bn_set_dig(BN(0), (dig_t)A(1)); }
BIND(bn_set_2b) { bn_set_2b(BN(0), (size_t)A(1)); }
BIND(bn_mod_2b) { bn_mod_2b(BN(0), BN(1), (int)A(2)); }
BIND(bn_trim) { bn_trim(BN(0)); }
BIND(bn_grow) { bn_grow(BN(0), (size_t)A(1)); }

/* codecs */
BIND(bn_size_bin) { RET(bn_size_bin(BN(0))); }
BIND(bn_read_bin) { bn_read_bin(BN(0), BUF(1), BUFLEN(1)); }
BIND(bn_write_bin) { bn_write_bin(BUF(0), BUFLEN(0), BN(1)); }
BIND(bn_size_raw) { RET(bn_size_raw(BN(0))); }
BIND(bn_read_raw) { bn_read_raw(BN(0), (const dig_t *)BUF(1), BUFLEN(1) / sizeof(dig_t)); }
BIND(bn_write_raw) { bn_write_raw((dig_t *)BUF(0), BUFLEN(0) / sizeof(dig_t), BN(1)); }
BIND(bn_size_str) { RET(bn_size_str(BN(0), (uint_t)A(1))); }
BIND(bn_read_str) { bn_read_str(BN(0), (const char *)BUF(1), A(3) == 0 ? BUFLEN(1) : (size_t)A(3) - 1, (uint_t)A(2)); }
BIND(bn_write_str) { bn_write_str((char *)BUF(0), BUFLEN(0), BN(1), (uint_t)A(2)); }

/* modular */
BIND(bn_mod) { bn_mod(BN(0), BN(1), BN(2)); }
BIND(bn_mod_basic) { bn_mod_basic(BN(0), BN(1), BN(2)); }
BIND(bn_mod_dig) { dig_t d = (dig_t)(0x0101010101010101ULL * vs_poison); bn_mod_dig(&d, BN(0), (dig_t)A(1)); RET(d); }
BIND(bn_mod_pre_barrt) { bn_mod_pre_barrt(BN(0), BN(1)); }
BIND(bn_mod_barrt) { bn_mod_barrt(BN(0), BN(1), BN(2), BN(3)); }
BIND(bn_mod_pre_monty) { bn_mod_pre_monty(BN(0), BN(1)); }
BIND(bn_mod_monty_conv) { bn_mod_monty_conv(BN(0), BN(1), BN(2)); }
BIND(bn_mod_monty_back) { bn_mod_monty_back(BN(0), BN(1), BN(2)); }
BIND(bn_mod_monty_basic) { bn_mod_monty_basic(BN(0), BN(1), BN(2), BN(3)); }
BIND(bn_mod_monty_comba) { bn_mod_monty_comba(BN(0), BN(1), BN(2), BN(3)); }
BIND(bn_mod_pre_pmers) { bn_mod_pre_pmers(BN(0), BN(1)); }
BIND(bn_mod_pmers) { bn_mod_pmers(BN(0), BN(1), BN(2), BN(3)); }
BIND(bn_mod_inv) { bn_mod_inv(BN(0), BN(1), BN(2)); }
BIND(bn_mod_inv_sim) { bn_mod_inv_sim(BNV(0), (const bn_t *)BNV(1), BN(2), (int)A(3)); }
BIND(bn_mxp) { bn_mxp(BN(0), BN(1), BN(2), BN(3)); }
BIND(bn_mxp_basic) { bn_mxp_basic(BN(0), BN(1), BN(2), BN(3)); }
BIND(bn_mxp_slide) { bn_mxp_slide(BN(0), BN(1), BN(2), BN(3)); }
BIND(bn_mxp_monty) { bn_mxp_monty(BN(0), BN(1), BN(2), BN(3)); }
BIND(bn_mxp_dig) { bn_mxp_dig(BN(0), BN(1), (dig_t)A(2), BN(3)); }
BIND(bn_mxp_sim) { bn_mxp_sim(BN(0), BN(1), BN(2), BN(3), BN(4), BN(5)); }
BIND(bn_mxp_sim_few) { bn_mxp_sim_few(BN(0), (const bn_t *)BNV(1), (const bn_t *)BNV(2), BN(3), (size_t)A(4)); }
BIND(bn_mxp_sim_lot) { bn_mxp_sim_lot(BN(0), (const bn_t *)BNV(1), (const bn_t *)BNV(2), BN(3), (size_t)A(4)); }

/* number theory */
BIND(bn_gcd) { bn_gcd(BN(0), BN(1), BN(2)); }
BIND(bn_gcd_basic) { bn_gcd_basic(BN(0), BN(1), BN(2)); }
BIND(bn_gcd_lehme) { bn_gcd_lehme(BN(0), BN(1), BN(2)); }
BIND(bn_gcd_binar) { bn_gcd_binar(BN(0), BN(1), BN(2)); }
BIND(bn_gcd_dig) { bn_gcd_dig(BN(0), BN(1), (dig_t)A(2)); }
BIND(bn_gcd_ext_basic) { bn_gcd_ext_basic(BN(0), BN(1), BN_OPT(2), BN(3), BN(4)); }
BIND(bn_gcd_ext_lehme) { bn_gcd_ext_lehme(BN(0), BN(1), BN_OPT(2), BN(3), BN(4)); }
BIND(bn_gcd_ext_binar) { bn_gcd_ext_binar(BN(0), BN(1), BN_OPT(2), BN(3), BN(4)); }
BIND(bn_gcd_ext_mid) { bn_gcd_ext_mid(BN(0), BN(1), BN(2), BN(3), BN(4), BN(5)); }
BIND(bn_gcd_ext_dig) { bn_gcd_ext_dig(BN(0), BN(1), BN(2), BN(3), (dig_t)A(4)); }
BIND(bn_lcm) { bn_lcm(BN(0), BN(1), BN(2)); }
BIND(bn_smb_leg) { RET((int64_t)bn_smb_leg(BN(0), BN(1))); }
BIND(bn_smb_jac) { RET((int64_t)bn_smb_jac(BN(0), BN(1))); }
BIND(bn_srt) { bn_srt(BN(0), BN(1)); }
BIND(bn_is_prime) { RET(bn_is_prime(BN(0))); }
BIND(bn_is_prime_basic) { RET(bn_is_prime_basic(BN(0))); }
BIND(bn_is_prime_rabin) { RET(bn_is_prime_rabin(BN(0))); }
BIND(bn_is_prime_solov) { RET(bn_is_prime_solov(BN(0))); }
BIND(bn_gen_prime) { bn_gen_prime(BN(0), (size_t)A(1)); }
BIND(bn_gen_prime_basic) { bn_gen_prime_basic(BN(0), (size_t)A(1)); }
BIND(bn_gen_prime_safep) { bn_gen_prime_safep(BN(0), (size_t)A(1)); }
BIND(bn_gen_prime_stron) { bn_gen_prime_stron(BN(0), (size_t)A(1)); }
BIND(bn_gen_prime_factor) { RET(bn_gen_prime_factor(BN(0), BN(1), (size_t)A(2), (size_t)A(3))); }
BIND(bn_factor) { RET(bn_factor(BN(0), BN(1))); }
BIND(bn_is_factor) { RET(bn_is_factor(BN(0), BN(1))); }
BIND(bn_lag) { bn_lag(BNV(0), (const bn_t *)BNV(1), BN(2), (size_t)A(3)); }
BIND(bn_evl) { bn_evl(BN(0), (const bn_t *)BNV(1), BN(2), BN(3), (size_t)A(4)); }

/* random */
BIND(bn_rand) { bn_rand(BN(0), (int)A(1), (size_t)A(2)); }
BIND(bn_rand_mod) { bn_rand_mod(BN(0), BN(1)); }

/* recodings: output buffer slot, *len in = A(1) (or buffer length when A(1) == ~0), len out returned */
#define LEN_IN(i, bi) (A(i) == (uint64_t)-1 ? BUFLEN(bi) : (size_t)A(i))
BIND(bn_rec_win) { size_t l = LEN_IN(1, 0); bn_rec_win(BUF(0), &l, BN(2), (size_t)A(3)); RET(l); }
BIND(bn_rec_slw) { size_t l = LEN_IN(1, 0); bn_rec_slw(BUF(0), &l, BN(2), (size_t)A(3)); RET(l); }
BIND(bn_rec_naf) { size_t l = LEN_IN(1, 0); bn_rec_naf((int8_t *)BUF(0), &l, BN(2), (size_t)A(3)); RET(l); }
BIND(bn_rec_tnaf) { size_t l = LEN_IN(1, 0); bn_rec_tnaf((int8_t *)BUF(0), &l, BN(2), (int8_t)A(3), (size_t)A(4), (size_t)A(5)); RET(l); }
BIND(bn_rec_rtnaf) { size_t l = LEN_IN(1, 0); bn_rec_rtnaf((int8_t *)BUF(0), &l, BN(2), (int8_t)A(3), (size_t)A(4), (size_t)A(5)); RET(l); }
BIND(bn_rec_tnaf_mod) { bn_rec_tnaf_mod(BN(0), BN(1), BN(2), (int)(int64_t)A(3), (size_t)A(4)); }
BIND(bn_rec_tnaf_get) {
	uint8_t t = vs_poison; int8_t beta[64], gama[64];
	memset(beta, vs_poison, sizeof beta); memset(gama, vs_poison, sizeof gama);
	bn_rec_tnaf_get(&t, beta, gama, (int8_t)A(0), (size_t)A(1));
	RET(t); ret_blob(c, beta, 64); ret_blob(c, gama, 64);
}
BIND(bn_rec_reg) { size_t l = LEN_IN(1, 0); bn_rec_reg((int8_t *)BUF(0), &l, BN(2), (size_t)A(3), (size_t)A(4)); RET(l); }
BIND(bn_rec_jsf) { size_t l = LEN_IN(1, 0); bn_rec_jsf((int8_t *)BUF(0), &l, BN(2), BN(3)); RET(l); }
BIND(bn_rec_glv) { bn_rec_glv(BN(0), BN(1), BN(2), BN(3), (const bn_st *)BNV(4), (const bn_st *)BNV(5)); }
BIND(bn_rec_frb) { bn_rec_frb(BNV(0), (int)A(1), BN(2), BN(3), BN(4), (int)A(5)); }
BIND(bn_rec_sac) { size_t l = LEN_IN(1, 0); bn_rec_sac((int8_t *)BUF(0), &l, (const bn_t *)BNV(2), BN(3), (size_t)A(4), (size_t)A(5), (size_t)A(6), (int)A(7)); RET(l); }

#endif /* WITH_BN */

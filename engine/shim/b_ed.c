/* Slot types ED / EDV and bindings for the ED module (twisted Edwards curves).
 * Points travel as raw (x, y, z, t, coord): four raw field elements (internal representation, Montgomery form
 * where the build uses it) followed by the 32-bit coordinate tag. The t field exists in ed_st in every build but
 * is only maintained by the library #if ED_ADD == EXTND; it is always transported so that the Python side
 * decides what a non-EXTND build finds there (poison) and can check T*Z = X*Y in the EXTND build. */
#include "vs.h"

#if defined(WITH_ED) && ALLOC == AUTO

#define FPB (RLC_FP_DIGS * sizeof(dig_t))
#define EDB (4 * FPB + 4)

static int ed_fill(ed_st *p, vs_rd *r) {
	size_t len;
	const uint8_t *d = rd_blob(r, &len);
	uint32_t coord;
	if (r->bad || len != EDB) return -1;
	memcpy(p->x, d, FPB);
	memcpy(p->y, d + FPB, FPB);
	memcpy(p->z, d + 2 * FPB, FPB);
	memcpy(p->t, d + 3 * FPB, FPB);
	memcpy(&coord, d + 4 * FPB, 4);
	p->coord = (int)coord;
	return 0;
}
static void ed_put(const ed_st *p, vs_wr *w) {
	wr_raw(w, p->x, FPB); wr_raw(w, p->y, FPB); wr_raw(w, p->z, FPB); wr_raw(w, p->t, FPB);
	wr_u32(w, (uint32_t)p->coord);
}
static uint64_t ed_h(const ed_st *p, uint64_t h) {
	h = vs_fnv(h, p->x, FPB); h = vs_fnv(h, p->y, FPB); h = vs_fnv(h, p->z, FPB); h = vs_fnv(h, p->t, FPB);
	return vs_fnv(h, &p->coord, sizeof p->coord);
}

static int ed_mk(vs_slot *s, vs_rd *r) {
	ed_st *p = (ed_st *)vs_alloc_poisoned(sizeof(ed_st));
	if (ed_fill(p, r) != 0) { free(p); return -1; }
	s->p = p; s->len = 1;
	return 0;
}
/* EDV payload: n (allocated entries), k <= n (entries filled from the payload; the rest stays poisoned) */
static int edv_mk(vs_slot *s, vs_rd *r) {
	uint32_t n = rd_u32(r), k = rd_u32(r);
	if (r->bad || n > 8192 || k > n) return -1;
	ed_st *v = (ed_st *)vs_alloc_poisoned((n ? n : 1) * sizeof(ed_st));
	for (uint32_t i = 0; i < k; i++) {
		if (ed_fill(&v[i], r) != 0) { free(v); return -1; }
	}
	s->p = v; s->len = n;
	return 0;
}
static void ed_dump_(const vs_slot *s, vs_wr *w) {
	vs_wr t = { 0 };
	const ed_st *v = (const ed_st *)s->p;
	for (size_t i = 0; i < s->len; i++) ed_put(&v[i], &t);
	wr_blob(w, t.buf, t.len);
	free(t.buf);
}
static void ed_fr(vs_slot *s) { free(s->p); }
static uint64_t ed_hash_(const vs_slot *s) {
	uint64_t h = 0xcbf29ce484222325ULL;
	const ed_st *v = (const ed_st *)s->p;
	for (size_t i = 0; i < s->len; i++) h = ed_h(&v[i], h);
	return h;
}
VS_TYPE(VT_ED, ed_mk, ed_dump_, ed_fr, ed_hash_)
VS_TYPE(VT_EDV, edv_mk, ed_dump_, ed_fr, ed_hash_)

#define ED(i) ((ed_st *)vs_get(c->a[i], VT_ED))
#define EDV(i) ((ed_t *)vs_get(c->a[i], VT_EDV))
#define FP(i) ((dig_t *)vs_get(c->a[i], VT_FP))
#define BNV(i) ((bn_t *)vs_get(c->a[i], VT_BNV))

/* ------------------------------------------------------------ parameters */

BIND(info_ed) {
	RET(BASIC); RET(PROJC); RET(EXTND); RET(ED_ADD);                                             /* 0..3 */
	RET(RLC_ED_TABLE_BASIC); RET(RLC_ED_TABLE_COMBS); RET(RLC_ED_TABLE_COMBD); RET(RLC_ED_TABLE_LWNAF); /* 4..7 */
	RET(RLC_ED_TABLE_MAX); RET(RLC_ED_TABLE); RET(RLC_WIDTH); RET(RLC_DEPTH);                    /* 8..11 */
#ifdef ED_PRECO
	RET(1);                                                                                      /* 12 */
#else
	RET(0);
#endif
#ifdef ED_MIXED
	RET(1);                                                                                      /* 13 */
#else
	RET(0);
#endif
	RET(ED_MUL); RET(ED_FIX); RET(ED_SIM);                                                       /* 14..16 */
	RET(SLIDE); RET(MONTY); RET(LWNAF); RET(LWREG); RET(COMBS); RET(COMBD);                      /* 17..22 */
	RET(TRICK); RET(INTER); RET(JOINT);                                                          /* 23..25 */
	RET(RLC_FP_BYTES); RET(RLC_FP_BITS); RET(RLC_MD_LEN); RET(MD_MAP); RET(SH256); RET(SH512);   /* 26..31 */
	RET(SH224); RET(SH384);                                                                      /* 32..33 */
	RET(RLC_BN_BITS);                                                                            /* 34 */
}
BIND(ed_param_set) { ed_param_set((int)A(0)); }
BIND(ed_param_get) { RET(ed_param_get()); }
BIND(ed_param_level) { RET(ed_param_level()); }
BIND(ed_param_set_any) { RET((int64_t)ed_param_set_any()); }
BIND(ed_curve_params) {
	/* a, d and the four map constants as raw field elements; order -> bn slot 0, cofactor -> bn slot 1,
	 * generator -> ed slot 2 */
	ctx_t *ctx = core_get();
	ret_blob(c, ctx->ed_a, FPB);
	ret_blob(c, ctx->ed_d, FPB);
	for (int i = 0; i < 4; i++) ret_blob(c, ctx->ed_map_c[i], FPB);
	ed_curve_get_ord(BN(0));
	ed_curve_get_cof(BN(1));
	ed_curve_get_gen(ED(2));
	RET(fp_param_get());
	RET(ed_curve_get_tab() != NULL);
}
BIND(ed_curve_get_tab) {
	/* the generator's precomputed table as one blob of RLC_ED_TABLE raw points */
	const ed_t *t = ed_curve_get_tab();
	RET(t != NULL);
	if (t != NULL) {
		vs_wr w = { 0 };
		for (int i = 0; i < RLC_ED_TABLE; i++) ed_put(t[i], &w);
		ret_blob(c, w.buf, w.len);
		free(w.buf);
	}
}

/* -------------------------------------------------------------- utilities */

BIND(ed_is_infty) { RET(ed_is_infty(ED(0))); }
BIND(ed_set_infty) { ed_set_infty(ED(0)); }
BIND(ed_copy) { ed_copy(ED(0), ED(1)); }
BIND(ed_cmp) { RET((int64_t)ed_cmp(ED(0), ED(1))); }
BIND(ed_rand) { ed_rand(ED(0)); }
BIND(ed_blind) { ed_blind(ED(0), ED(1)); }
BIND(ed_rhs) { ed_rhs(FP(0), FP(1)); }
BIND(ed_on_curve) { RET(ed_on_curve(ED(0))); }
BIND(ed_tab) { ed_tab(EDV(0), ED(1), (int)A(2)); }
BIND(ed_size_bin) { RET(ed_size_bin(ED(0), (int)A(1))); }
BIND(ed_read_bin) { ed_read_bin(ED(0), BUF(1), BUFLEN(1)); }
BIND(ed_write_bin) { ed_write_bin(BUF(0), BUFLEN(0), ED(1), (int)A(2)); }
BIND(ed_pck) { ed_pck(ED(0), ED(1)); }
BIND(ed_upk) { RET(ed_upk(ED(0), ED(1))); }
BIND(ed_norm) { ed_norm(ED(0), ED(1)); }
BIND(ed_norm_sim) { ed_norm_sim(EDV(0), (const ed_t *)EDV(1), (int)A(2)); }
/* ed_projc_to_extnd is declared in relic_ed.h (#if ED_ADD == EXTND) but defined nowhere: it cannot be bound. */

/* ---------------------------------------------------------------- group law */

BIND(ed_neg) { ed_neg(ED(0), ED(1)); }
BIND(ed_neg_basic) { ed_neg_basic(ED(0), ED(1)); }
BIND(ed_neg_projc) { ed_neg_projc(ED(0), ED(1)); }
BIND(ed_add) { ed_add(ED(0), ED(1), ED(2)); }
BIND(ed_add_basic) { ed_add_basic(ED(0), ED(1), ED(2)); }
BIND(ed_add_projc) { ed_add_projc(ED(0), ED(1), ED(2)); }
BIND(ed_add_extnd) { ed_add_extnd(ED(0), ED(1), ED(2)); }
BIND(ed_sub) { ed_sub(ED(0), ED(1), ED(2)); }
BIND(ed_sub_basic) { ed_sub_basic(ED(0), ED(1), ED(2)); }
BIND(ed_sub_projc) { ed_sub_projc(ED(0), ED(1), ED(2)); }
BIND(ed_sub_extnd) { ed_sub_extnd(ED(0), ED(1), ED(2)); }
BIND(ed_dbl) { ed_dbl(ED(0), ED(1)); }
BIND(ed_dbl_basic) { ed_dbl_basic(ED(0), ED(1)); }
BIND(ed_dbl_projc) { ed_dbl_projc(ED(0), ED(1)); }
BIND(ed_dbl_extnd) { ed_dbl_extnd(ED(0), ED(1)); }

/* ------------------------------------------------------- multiplication */

BIND(ed_mul) { ed_mul(ED(0), ED(1), BN(2)); }
BIND(ed_mul_basic) { ed_mul_basic(ED(0), ED(1), BN(2)); }
BIND(ed_mul_slide) { ed_mul_slide(ED(0), ED(1), BN(2)); }
BIND(ed_mul_monty) { ed_mul_monty(ED(0), ED(1), BN(2)); }
BIND(ed_mul_lwnaf) { ed_mul_lwnaf(ED(0), ED(1), BN(2)); }
BIND(ed_mul_lwreg) { ed_mul_lwreg(ED(0), ED(1), BN(2)); }
BIND(ed_mul_gen) { ed_mul_gen(ED(0), BN(1)); }
BIND(ed_mul_dig) { ed_mul_dig(ED(0), ED(1), (dig_t)A(2)); }
BIND(ed_mul_pre) { ed_mul_pre(EDV(0), ED(1)); }
BIND(ed_mul_fix) { ed_mul_fix(ED(0), (const ed_t *)EDV(1), BN(2)); }
BIND(ed_mul_pre_basic) { ed_mul_pre_basic(EDV(0), ED(1)); }
BIND(ed_mul_pre_combs) { ed_mul_pre_combs(EDV(0), ED(1)); }
BIND(ed_mul_pre_combd) { ed_mul_pre_combd(EDV(0), ED(1)); }
BIND(ed_mul_pre_lwnaf) { ed_mul_pre_lwnaf(EDV(0), ED(1)); }
BIND(ed_mul_fix_basic) { ed_mul_fix_basic(ED(0), (const ed_t *)EDV(1), BN(2)); }
BIND(ed_mul_fix_combs) { ed_mul_fix_combs(ED(0), (const ed_t *)EDV(1), BN(2)); }
BIND(ed_mul_fix_combd) { ed_mul_fix_combd(ED(0), (const ed_t *)EDV(1), BN(2)); }
BIND(ed_mul_fix_lwnaf) { ed_mul_fix_lwnaf(ED(0), (const ed_t *)EDV(1), BN(2)); }
/* ed_mul_pre_yaowi/_nafwi, ed_mul_fix_yaowi/_nafwi/_lwnaf_mixed are declared but not defined. */
BIND(ed_mul_sim) { ed_mul_sim(ED(0), ED(1), BN(2), ED(3), BN(4)); }
BIND(ed_mul_sim_basic) { ed_mul_sim_basic(ED(0), ED(1), BN(2), ED(3), BN(4)); }
BIND(ed_mul_sim_trick) { ed_mul_sim_trick(ED(0), ED(1), BN(2), ED(3), BN(4)); }
BIND(ed_mul_sim_inter) { ed_mul_sim_inter(ED(0), ED(1), BN(2), ED(3), BN(4)); }
BIND(ed_mul_sim_joint) { ed_mul_sim_joint(ED(0), ED(1), BN(2), ED(3), BN(4)); }
BIND(ed_mul_sim_gen) { ed_mul_sim_gen(ED(0), BN(1), ED(2), BN(3)); }
BIND(ed_mul_sim_lot) { ed_mul_sim_lot(ED(0), (const ed_t *)EDV(1), (const bn_t *)BNV(2), (int)A(3)); }

/* ------------------------------------------------------------------ maps */

BIND(ed_map) { ed_map(ED(0), BUF(1), BUFLEN(1)); }
BIND(ed_map_dst) { ed_map_dst(ED(0), BUF(1), BUFLEN(1), BUF(2), BUFLEN(2)); }

#endif

/* C19, parts 2 and 3: context histories, parameter (re-)selection, "heavy use" operations and the fixed probe
 * battery. All bindings are self-contained: integers / bytes in, bytes out (no shared slot types). */
#include "vs.h"

#if defined(WITH_EP) && defined(WITH_FP) && defined(WITH_BN) && defined(WITH_MD)

#if defined(WITH_PC) && defined(WITH_PP) && defined(WITH_EPX) && FP_PRIME < 1536
#if RLC_GT_EMBED == 12
#define C19_PAIR 1
#endif
#endif

/* ------------------------------------------------------------------ helpers */

static uint64_t sm64(uint64_t *s) {
	uint64_t z = (*s += 0x9E3779B97F4A7C15ULL);
	z = (z ^ (z >> 30)) * 0xBF58476D1CE4E5B9ULL;
	z = (z ^ (z >> 27)) * 0x94D049BB133111EBULL;
	return z ^ (z >> 31);
}

static void bytes_from_seed(uint8_t *out, size_t n, uint64_t *s) {
	for (size_t i = 0; i < n; i += 8) {
		uint64_t v = sm64(s);
		for (size_t j = 0; j < 8 && i + j < n; j++) out[i + j] = (uint8_t)(v >> (8 * j));
	}
}

/* k uniformly-ish in [0, n) from the seed; every 8th draw is a boundary value */
static void scalar_from_seed(bn_t k, uint64_t *s, const bn_t n) {
	uint8_t b[RLC_FP_BYTES + 8];
	uint64_t sel = sm64(s) & 7;
	bytes_from_seed(b, sizeof b, s);
	bn_read_bin(k, b, sizeof b);
	bn_mod(k, k, n);
	if (sel == 0) {
		switch (sm64(s) % 5) {
			case 0: bn_zero(k); break;
			case 1: bn_set_dig(k, 1); break;
			case 2: bn_sub_dig(k, n, 1); break;
			case 3: bn_set_dig(k, 2); break;
			default: bn_hlv(k, n); break;
		}
	}
}

static void put_bn(vs_wr *w, const bn_t a) {
	uint8_t b[RLC_BN_SIZE * sizeof(dig_t) + 8];
	size_t n = bn_size_bin(a);
	if (n > sizeof b) vs_die("c19: bn too large");
	bn_write_bin(b, n, a);
	wr_u8(w, (uint8_t)bn_sign(a));
	wr_blob(w, b, n);
}

static void put_fp(vs_wr *w, const fp_t a) {
	uint8_t b[RLC_FP_BYTES];
	fp_write_bin(b, RLC_FP_BYTES, a);
	wr_blob(w, b, RLC_FP_BYTES);
}

static void put_digs(vs_wr *w, const dig_t *d, size_t n) {
	wr_blob(w, d, n * sizeof(dig_t));
}

static void put_ep(vs_wr *w, const ep_t p) {
	uint8_t b[2 * RLC_FP_BYTES + 1];
	if (ep_is_infty(p)) {
		wr_blob(w, "\0", 1);
		return;
	}
	ep_write_bin(b, sizeof b, p, 0);
	wr_blob(w, b, sizeof b);
}

/* probe output = sequence of items (name blob, value blob); tag() closes the previous item and opens the next */
static size_t item_open;

static void tag_close(vs_wr *w) {
	if (item_open) {
		uint32_t n = (uint32_t)(w->len - item_open);
		memcpy(w->buf + item_open - 4, &n, 4);
		item_open = 0;
	}
}

static void tag(vs_wr *w, const char *name) {
	tag_close(w);
	wr_blob(w, name, strlen(name));
	wr_u32(w, 0);
	item_open = w->len;
}

/* ------------------------------------------------------------------ selection */

/* c19_sel(kind, id, twist): kind 0 = ep_param_set(id) [+ ep2_curve_set_twist(twist) when twist != 0],
 * 1 = eb_param_set(id), 2 = fp_param_set(id) */
BIND(c19_sel) {
	int id = (int)A(1);
	switch (A(0)) {
		case 0:
			ep_param_set(id);
#ifdef C19_PAIR
			if (A(2)) ep2_curve_set_twist((int)A(2));
#endif
			RET(ep_param_get());
			break;
#ifdef WITH_EB
		case 1:
			eb_param_set(id);
			RET(eb_param_get());
			break;
#endif
		case 2:
			fp_param_set(id);
			RET(fp_param_get());
			break;
		case 3: {
			/* a modulus installed WITHOUT a named identifier (fp_prime_set_dense): the id-th prime of the form
			 * 2^RLC_FP_BITS - 1 - 2j, j >= 500 * id (deterministic: bn_is_prime uses fixed bases) */
			bn_t p;
			bn_null(p);
			RLC_TRY {
				bn_new(p);
				bn_set_2b(p, RLC_FP_BITS);
				bn_sub_dig(p, p, (dig_t)(1 + 1000 * id));
				while (!bn_is_prime(p)) {
					bn_sub_dig(p, p, 2);
				}
				fp_prime_set_dense(p);
			} RLC_CATCH_ANY {
				RLC_THROW(ERR_CAUGHT);
			} RLC_FINALLY {
				bn_free(p);
			}
			RET(fp_param_get());
			break;
		}
		default:
			vs_die("c19_sel: bad kind");
	}
}

/* c19_selinfo(): facts about the current ep selection, used by the generator to learn the configuration */
BIND(c19_selinfo) {
	RET(ep_param_get());
	RET(ep_curve_is_endom());
	RET(ep_curve_is_pairf());
	RET(ep_curve_is_super());
	RET(ep_curve_is_ctmap());
	RET(fp_param_get());
	RET(RLC_FP_BITS);
#ifdef C19_PAIR
	RET(1);
#else
	RET(0);
#endif
#ifdef WITH_EB
	RET(RLC_FB_BITS);
#else
	RET(0);
#endif
	RET(RLC_EP_DTYPE);
	RET(RLC_EP_MTYPE);
}

#ifdef C19_PAIR
/* c19_twist_check(): is the G2 generator on the twist, of order r, and is the pairing of the generators of
 * order r and not one? (tells the generator which twist type belongs to an identifier) */
BIND(c19_twist_check) {
	g2_t q; gt_t e, f; g1_t p; bn_t n;
	g2_null(q); gt_null(e); gt_null(f); g1_null(p); bn_null(n);
	g2_new(q); gt_new(e); gt_new(f); g1_new(p); bn_new(n);
	g2_get_gen(q);
	g1_get_gen(p);
	RET(g2_is_valid(q));
	pc_map(e, p, q);
	RET(!gt_is_unity(e));
	pc_get_ord(n);
	gt_exp(f, e, n);
	RET(gt_is_unity(f));
	g2_free(q); gt_free(e); gt_free(f); g1_free(p); bn_free(n);
}
#endif

/* ------------------------------------------------------------------ heavy use */

#define NTAB RLC_EP_TABLE_MAX

static void use_ep(vs_call *c, int op, uint64_t seed) {
	uint64_t s = seed;
	ep_t p, q, r, tab[NTAB];
	bn_t k, m, n;
	vs_wr w = { 0 };
	ep_null(p); ep_null(q); ep_null(r); bn_null(k); bn_null(m); bn_null(n);
	ep_new(p); ep_new(q); ep_new(r); bn_new(k); bn_new(m); bn_new(n);
	ep_curve_get_ord(n);
	scalar_from_seed(k, &s, n);
	scalar_from_seed(m, &s, n);
	/* P = [t]G for a small random t, Q = [t']G: points of the prime-order subgroup, as the routines expect */
	{
		bn_t t;
		bn_null(t); bn_new(t);
		bn_set_dig(t, (dig_t)(2 + (sm64(&s) & 0xFFFF)));
		ep_curve_get_gen(q);
		ep_mul_basic(p, q, t);
		ep_norm(p, p);
		bn_set_dig(t, (dig_t)(2 + (sm64(&s) & 0xFFFF)));
		ep_mul_basic(q, q, t);
		ep_norm(q, q);
		bn_free(t);
	}
	if (op >= 6 && op <= 11) {
		for (int i = 0; i < NTAB; i++) { ep_null(tab[i]); ep_new(tab[i]); }
	}
	switch (op) {
		case 0: ep_mul_basic(r, p, k); break;
		case 1: ep_mul_slide(r, p, k); break;
		case 2: ep_mul_monty(r, p, k); break;
		case 3: ep_mul_lwnaf(r, p, k); break;
		case 4: ep_mul_lwreg(r, p, k); break;
		case 5: ep_mul_gen(r, k); break;
		case 6: ep_mul_pre_basic(tab, p); ep_mul_fix_basic(r, (const ep_t *)tab, k); break;
		case 7: ep_mul_pre(tab, p); ep_mul_fix(r, (const ep_t *)tab, k); break;
		case 8: ep_mul_dig(r, p, (dig_t)sm64(&s)); break;
		case 9: ep_mul_pre_combs(tab, p); ep_mul_fix_combs(r, (const ep_t *)tab, k); break;
		case 10: ep_mul_pre_combd(tab, p); ep_mul_fix_combd(r, (const ep_t *)tab, k); break;
		case 11: ep_mul_pre_lwnaf(tab, p); ep_mul_fix_lwnaf(r, (const ep_t *)tab, k); break;
		case 12: ep_mul_sim_basic(r, p, k, q, m); break;
		case 13: ep_mul_sim_trick(r, p, k, q, m); break;
		case 14: ep_mul_sim_inter(r, p, k, q, m); break;
		case 15: ep_mul_sim_joint(r, p, k, q, m); break;
		case 16: ep_mul_sim_gen(r, k, q, m); break;
		case 17: {
			uint8_t msg[40];
			bytes_from_seed(msg, sizeof msg, &s);
			ep_map(r, msg, (size_t)(sm64(&s) % sizeof msg));
			break;
		}
		case 18: ep_add(r, p, q); ep_dbl(r, r); ep_neg(r, r); ep_sub(r, r, q); break;
		case 19: {
#ifdef WITH_CP
			bn_t d, rr, ss;
			ec_t pub;
			uint8_t msg[32];
			bn_null(d); bn_null(rr); bn_null(ss); ec_null(pub);
			bn_new(d); bn_new(rr); bn_new(ss); ec_new(pub);
			bytes_from_seed(msg, sizeof msg, &s);
			cp_ecdsa_gen(d, pub);
			cp_ecdsa_sig(rr, ss, msg, sizeof msg, 0, d);
			wr_u8(&w, (uint8_t)cp_ecdsa_ver(rr, ss, msg, sizeof msg, 0, pub));
			ep_copy(r, pub);
			bn_free(d); bn_free(rr); bn_free(ss); ec_free(pub);
#endif
			break;
		}
		case 20: {
#ifdef C19_PAIR
			if (ep_curve_is_pairf() && ep2_curve_is_twist()) {
				g2_t g2; gt_t e;
				uint8_t gb[12 * RLC_FP_BYTES];
				g2_null(g2); gt_null(e); g2_new(g2); gt_new(e);
				g2_mul_gen(g2, m);
				ep_mul_gen(r, k);
				pc_map(e, r, g2);
				gt_write_bin(gb, sizeof gb, e, 0);
				wr_blob(&w, gb, sizeof gb);
				g2_free(g2); gt_free(e);
			}
#endif
			break;
		}
		case 21: ep_rand(r); ep_mul_cof(r, r); break;
		default: vs_die("c19_use: bad ep op");
	}
	ep_norm(r, r);
	put_ep(&w, r);
	ret_blob(c, w.buf, w.len);
	free(w.buf);
	if (op >= 6 && op <= 11) {
		for (int i = 0; i < NTAB; i++) ep_free(tab[i]);
	}
	ep_free(p); ep_free(q); ep_free(r); bn_free(k); bn_free(m); bn_free(n);
}

#ifdef WITH_EB
static void put_eb(vs_wr *w, const eb_t p) {
	uint8_t b[2 * RLC_FB_BYTES + 1];
	if (eb_is_infty(p)) {
		wr_blob(w, "\0", 1);
		return;
	}
	eb_write_bin(b, sizeof b, p, 0);
	wr_blob(w, b, sizeof b);
}

static void use_eb(vs_call *c, int op, uint64_t seed) {
	uint64_t s = seed;
	eb_t p, q, r, tab[RLC_EB_TABLE_MAX];
	bn_t k, m, n, t;
	vs_wr w = { 0 };
	eb_null(p); eb_null(q); eb_null(r); bn_null(k); bn_null(m); bn_null(n); bn_null(t);
	eb_new(p); eb_new(q); eb_new(r); bn_new(k); bn_new(m); bn_new(n); bn_new(t);
	eb_curve_get_ord(n);
	scalar_from_seed(k, &s, n);
	scalar_from_seed(m, &s, n);
	bn_set_dig(t, (dig_t)(2 + (sm64(&s) & 0xFFFF)));
	eb_curve_get_gen(q);
	eb_mul_basic(p, q, t);
	eb_norm(p, p);
	bn_set_dig(t, (dig_t)(2 + (sm64(&s) & 0xFFFF)));
	eb_mul_basic(q, q, t);
	eb_norm(q, q);
	if (op >= 5 && op <= 10) {
		for (int i = 0; i < RLC_EB_TABLE_MAX; i++) { eb_null(tab[i]); eb_new(tab[i]); }
	}
	switch (op) {
		case 0: eb_mul_basic(r, p, k); break;
		case 1: eb_mul_lodah(r, p, k); break;
		case 2: eb_mul_lwnaf(r, p, k); break;
		case 3: eb_mul_rwnaf(r, p, k); break;
		case 4: eb_mul_gen(r, k); break;
		case 5: eb_mul_pre_basic(tab, p); eb_mul_fix_basic(r, (const eb_t *)tab, k); break;
		case 6: eb_mul_pre(tab, p); eb_mul_fix(r, (const eb_t *)tab, k); break;
		case 7: eb_mul_dig(r, p, (dig_t)sm64(&s)); break;
		case 8: eb_mul_pre_combs(tab, p); eb_mul_fix_combs(r, (const eb_t *)tab, k); break;
		case 9: eb_mul_pre_combd(tab, p); eb_mul_fix_combd(r, (const eb_t *)tab, k); break;
		case 10: eb_mul_pre_lwnaf(tab, p); eb_mul_fix_lwnaf(r, (const eb_t *)tab, k); break;
		case 11: eb_mul_sim_basic(r, p, k, q, m); break;
		case 12: eb_mul_sim_trick(r, p, k, q, m); break;
		case 13: eb_mul_sim_inter(r, p, k, q, m); break;
		case 14: eb_mul_sim_joint(r, p, k, q, m); break;
		case 15: eb_mul_sim_gen(r, k, q, m); break;
		case 16: {
			uint8_t msg[40];
			bytes_from_seed(msg, sizeof msg, &s);
			eb_map(r, msg, (size_t)(sm64(&s) % sizeof msg));
			break;
		}
		default: vs_die("c19_use: bad eb op");
	}
	eb_norm(r, r);
	put_eb(&w, r);
	ret_blob(c, w.buf, w.len);
	free(w.buf);
	if (op >= 5 && op <= 10) {
		for (int i = 0; i < RLC_EB_TABLE_MAX; i++) eb_free(tab[i]);
	}
	eb_free(p); eb_free(q); eb_free(r); bn_free(k); bn_free(m); bn_free(n); bn_free(t);
}
#endif

/* calls that the documentation says raise an error; they must not disturb the selected parameters */
static void use_err(vs_call *c, int op, uint64_t seed) {
	uint64_t s = seed;
	bn_t a, b;
	ep_t p;
	uint8_t buf[2 * RLC_FP_BYTES + 1];
	bn_null(a); bn_null(b); ep_null(p);
	bn_new(a); bn_new(b); ep_new(p);
	switch (op) {
		case 0:     /* division by zero: ERR_NO_VALID */
			bn_set_dig(a, (dig_t)(sm64(&s) | 1));
			bn_zero(b);
			bn_div(a, a, b);
			break;
		case 1:     /* point decoding of a string with an invalid tag byte: ERR_NO_VALID */
			bytes_from_seed(buf, sizeof buf, &s);
			buf[0] = 0x7F;
			ep_read_bin(p, buf, sizeof buf);
			break;
		case 2:     /* point decoding of a wrong length: ERR_NO_BUFFER */
			bytes_from_seed(buf, sizeof buf, &s);
			buf[0] = 4;
			ep_read_bin(p, buf, sizeof buf - 3);
			break;
		case 3:     /* writing into a buffer that is too small: ERR_NO_BUFFER */
			ep_curve_get_gen(p);
			ep_write_bin(buf, RLC_FP_BYTES - 1, p, 0);
			break;
		case 4:     /* selecting an identifier that does not exist: ERR_NO_VALID (a failed selection) */
			ep_param_set(0x7FF0 + (int)(sm64(&s) & 7));
			break;
		case 5:     /* integer that exceeds the precision: ERR_NO_PRECI */
			bn_set_2b(a, RLC_BN_BITS - 2);
			bn_sqr(b, a);
			bn_sqr(b, b);
			bn_sqr(b, b);
			break;
		case 6:     /* invalid radix: ERR_NO_VALID */
			bn_read_str(a, "123", 3, 1);
			break;
		default:
			vs_die("c19_use: bad err op");
	}
	bn_free(a); bn_free(b); ep_free(p);
}

/* c19_use(family, op, seed): family 0 = prime curve, 1 = binary curve, 2 = erroring call */
BIND(c19_use) {
	switch (A(0)) {
		case 0: use_ep(c, (int)A(1), A(2)); break;
#ifdef WITH_EB
		case 1: use_eb(c, (int)A(1), A(2)); break;
#endif
		case 2: use_err(c, (int)A(1), A(2)); break;
		default: vs_die("c19_use: bad family");
	}
}

/* ------------------------------------------------------------------ probe battery */

static void probe_fp(vs_wr *w, uint64_t seed) {
	uint64_t s = seed;
	bn_t p;
	fp_t x, y, z;
	uint8_t b[RLC_FP_BYTES];
	bn_null(p); fp_null(x); fp_null(y); fp_null(z);
	bn_new(p); fp_new(x); fp_new(y); fp_new(z);
	tag(w, "fp_id"); wr_u32(w, (uint32_t)fp_param_get());
	tag(w, "prime"); put_digs(w, fp_prime_get(), RLC_FP_DIGS);
	tag(w, "rdc"); put_digs(w, fp_prime_get_rdc(), 1);
	tag(w, "conv"); put_digs(w, fp_prime_get_conv(), RLC_FP_DIGS);
	tag(w, "mod8"); wr_u32(w, (uint32_t)fp_prime_get_mod8());
	tag(w, "mod18"); wr_u32(w, (uint32_t)fp_prime_get_mod18());
	tag(w, "qnr"); wr_u32(w, (uint32_t)fp_prime_get_qnr());
	tag(w, "cnr"); wr_u32(w, (uint32_t)fp_prime_get_cnr());
	tag(w, "2ad"); wr_u32(w, (uint32_t)fp_prime_get_2ad());
	{
		int len = 0;
		const int *sps = fp_prime_get_sps(&len);
		tag(w, "sps"); wr_u32(w, (uint32_t)len);
		if (sps != NULL && len > 0) wr_blob(w, sps, (size_t)len * sizeof(int));
	}
	fp_prime_get_par(p);
	tag(w, "par"); put_bn(w, p);
	{
		int len = 0;
		const int *sps = fp_prime_get_par_sps(&len);
		tag(w, "par_sps"); wr_u32(w, (uint32_t)len);
		if (sps != NULL && len > 0) wr_blob(w, sps, (size_t)len * sizeof(int));
	}
	/* arithmetic on fixed residues: x*y, x^-1, sqrt(x^2), x^p-ish */
	bytes_from_seed(b, sizeof b, &s);
	b[0] = 0;
	bn_read_bin(p, b, sizeof b);
	fp_prime_conv(x, p);
	bytes_from_seed(b, sizeof b, &s);
	b[0] = 0;
	bn_read_bin(p, b, sizeof b);
	fp_prime_conv(y, p);
	fp_mul(z, x, y);
	tag(w, "mul"); put_fp(w, z);
	fp_sqr(z, x);
	tag(w, "sqr"); put_fp(w, z);
	if (fp_srt(z, z)) {
		fp_sqr(z, z);
	}
	tag(w, "srt2"); put_fp(w, z);
	if (!fp_is_zero(x)) {
		fp_inv(z, x);
		tag(w, "inv"); put_fp(w, z);
	}
	fp_add(z, x, y); fp_sub(z, z, x); fp_neg(z, z); fp_dbl(z, z); fp_hlv(z, z);
	tag(w, "lin"); put_fp(w, z);
	tag(w, "smb"); wr_u32(w, (uint32_t)fp_smb(x));
	bn_free(p); fp_free(x); fp_free(y); fp_free(z);
}

static void probe_ep(vs_wr *w, uint64_t seed) {
	uint64_t s = seed ^ 0xC19C19C19ULL;
	ep_t g, p, r, tab[RLC_EP_TABLE];
	bn_t n, h, k, m;
	fp_t t;
	uint8_t msg[48];
	ep_null(g); ep_null(p); ep_null(r); bn_null(n); bn_null(h); bn_null(k); bn_null(m); fp_null(t);
	ep_new(g); ep_new(p); ep_new(r); bn_new(n); bn_new(h); bn_new(k); bn_new(m); fp_new(t);
	for (int i = 0; i < RLC_EP_TABLE; i++) { ep_null(tab[i]); ep_new(tab[i]); }

	tag(w, "ep_id"); wr_u32(w, (uint32_t)ep_param_get());
	tag(w, "flags");
	wr_u8(w, (uint8_t)ep_curve_is_endom()); wr_u8(w, (uint8_t)ep_curve_is_super());
	wr_u8(w, (uint8_t)ep_curve_is_pairf()); wr_u8(w, (uint8_t)ep_curve_is_ctmap());
	wr_u8(w, (uint8_t)ep_curve_opt_a()); wr_u8(w, (uint8_t)ep_curve_opt_b());
	tag(w, "a"); put_fp(w, ep_curve_get_a());
	tag(w, "b"); put_fp(w, ep_curve_get_b());
	ep_curve_get_gen(g);
	ep_curve_get_ord(n);
	ep_curve_get_cof(h);
	tag(w, "gen"); put_ep(w, g);
	tag(w, "ord"); put_bn(w, n);
	tag(w, "cof"); put_bn(w, h);
	tag(w, "gen_on_curve"); wr_u8(w, (uint8_t)ep_on_curve(g));
	ep_mul_basic(r, g, n);
	tag(w, "ord*gen_is_infty"); wr_u8(w, (uint8_t)ep_is_infty(r));

	scalar_from_seed(k, &s, n);
	scalar_from_seed(m, &s, n);
	if (bn_is_zero(k)) bn_set_dig(k, 3);
	ep_mul_gen(r, k);
	ep_norm(r, r);
	tag(w, "mul_gen"); put_ep(w, r);
	/* P = [m]G, fixed-base table for P */
	ep_mul_basic(p, g, m);
	ep_norm(p, p);
	ep_mul_pre(tab, p);
	ep_mul_fix(r, (const ep_t *)tab, k);
	ep_norm(r, r);
	tag(w, "mul_fix"); put_ep(w, r);
	ep_mul_lwnaf(r, p, k);
	ep_norm(r, r);
	tag(w, "mul_lwnaf"); put_ep(w, r);
	ep_mul_basic(r, p, k);
	ep_norm(r, r);
	tag(w, "mul_basic"); put_ep(w, r);
	ep_mul_lwreg(r, p, k);
	ep_norm(r, r);
	tag(w, "mul_lwreg"); put_ep(w, r);
	ep_mul_sim(r, p, k, g, m);
	ep_norm(r, r);
	tag(w, "mul_sim"); put_ep(w, r);
	ep_mul_sim_gen(r, k, p, m);
	ep_norm(r, r);
	tag(w, "mul_sim_gen"); put_ep(w, r);
	bytes_from_seed(msg, sizeof msg, &s);
	ep_map(r, msg, sizeof msg);
	ep_norm(r, r);
	tag(w, "map"); put_ep(w, r);
	tag(w, "map_on_curve"); wr_u8(w, (uint8_t)ep_on_curve(r));
	/* compressed round trip uses the square root of the field */
	{
		uint8_t cb[RLC_FP_BYTES + 1];
		ep_write_bin(cb, sizeof cb, p, 1);
		ep_read_bin(r, cb, sizeof cb);
		tag(w, "unpack"); put_ep(w, r);
	}
#ifdef EP_ENDOM
	if (ep_curve_is_endom()) {
		ep_psi(r, p);
		ep_norm(r, r);
		tag(w, "psi"); put_ep(w, r);
	}
#endif
#ifdef C19_PAIR
	if (ep_curve_is_pairf() && ep2_curve_is_twist()) {
		g2_t q;
		gt_t e;
		uint8_t gb[12 * RLC_FP_BYTES], qb[4 * RLC_FP_BYTES + 1];
		g2_null(q); gt_null(e); g2_new(q); gt_new(e);
		g2_get_gen(q);
		g2_norm(q, q);
		g2_write_bin(qb, sizeof qb, q, 0);
		tag(w, "g2_gen"); wr_blob(w, qb, sizeof qb);
		pc_map(e, g, q);
		gt_write_bin(gb, sizeof gb, e, 0);
		tag(w, "pairing"); wr_blob(w, gb, sizeof gb);
		gt_get_gen(e);
		gt_write_bin(gb, sizeof gb, e, 0);
		tag(w, "gt_gen"); wr_blob(w, gb, sizeof gb);
		g2_mul_gen(q, k);
		g2_norm(q, q);
		g2_write_bin(qb, sizeof qb, q, 0);
		tag(w, "g2_mul_gen"); wr_blob(w, qb, sizeof qb);
		g2_map(q, msg, sizeof msg);
		g2_norm(q, q);
		g2_write_bin(qb, sizeof qb, q, 0);
		tag(w, "g2_map"); wr_blob(w, qb, sizeof qb);
		g2_free(q); gt_free(e);
	}
#endif
#ifdef WITH_CP
	{
		/* one ECDSA signature with a fixed DRBG seed */
		bn_t d, rr, ss;
		ec_t pub;
		uint8_t sd[32];
		bn_null(d); bn_null(rr); bn_null(ss); ec_null(pub);
		bn_new(d); bn_new(rr); bn_new(ss); ec_new(pub);
		bytes_from_seed(sd, sizeof sd, &s);
		core_get()->seeded = 0;
		rand_seed(sd, sizeof sd);
		cp_ecdsa_gen(d, pub);
		cp_ecdsa_sig(rr, ss, msg, sizeof msg, 0, d);
		tag(w, "ecdsa_d"); put_bn(w, d);
		tag(w, "ecdsa_r"); put_bn(w, rr);
		tag(w, "ecdsa_s"); put_bn(w, ss);
		tag(w, "ecdsa_ver"); wr_u8(w, (uint8_t)cp_ecdsa_ver(rr, ss, msg, sizeof msg, 0, pub));
		bn_free(d); bn_free(rr); bn_free(ss); ec_free(pub);
	}
#endif
	for (int i = 0; i < RLC_EP_TABLE; i++) ep_free(tab[i]);
	ep_free(g); ep_free(p); ep_free(r); bn_free(n); bn_free(h); bn_free(k); bn_free(m); fp_free(t);
}

#ifdef WITH_EB
static void probe_eb(vs_wr *w, uint64_t seed) {
	uint64_t s = seed ^ 0xEBEBEBEBULL;
	eb_t g, p, r, tab[RLC_EB_TABLE];
	bn_t n, h, k, m;
	uint8_t msg[48], fbb[RLC_FB_BYTES];
	eb_null(g); eb_null(p); eb_null(r); bn_null(n); bn_null(h); bn_null(k); bn_null(m);
	eb_new(g); eb_new(p); eb_new(r); bn_new(n); bn_new(h); bn_new(k); bn_new(m);
	for (int i = 0; i < RLC_EB_TABLE; i++) { eb_null(tab[i]); eb_new(tab[i]); }
	tag(w, "eb_id"); wr_u32(w, (uint32_t)eb_param_get());
	tag(w, "fb_id"); wr_u32(w, (uint32_t)fb_param_get());
	tag(w, "kbltz"); wr_u8(w, (uint8_t)eb_curve_is_kbltz());
	fb_write_bin(fbb, sizeof fbb, eb_curve_get_a());
	tag(w, "a"); wr_blob(w, fbb, sizeof fbb);
	fb_write_bin(fbb, sizeof fbb, eb_curve_get_b());
	tag(w, "b"); wr_blob(w, fbb, sizeof fbb);
	eb_curve_get_gen(g);
	eb_curve_get_ord(n);
	eb_curve_get_cof(h);
	tag(w, "gen"); put_eb(w, g);
	tag(w, "ord"); put_bn(w, n);
	tag(w, "cof"); put_bn(w, h);
	scalar_from_seed(k, &s, n);
	scalar_from_seed(m, &s, n);
	if (bn_is_zero(k)) bn_set_dig(k, 3);
	eb_mul_gen(r, k);
	eb_norm(r, r);
	tag(w, "mul_gen"); put_eb(w, r);
	eb_mul_basic(p, g, m);
	eb_norm(p, p);
	eb_mul_pre(tab, p);
	eb_mul_fix(r, (const eb_t *)tab, k);
	eb_norm(r, r);
	tag(w, "mul_fix"); put_eb(w, r);
	eb_mul_lwnaf(r, p, k);
	eb_norm(r, r);
	tag(w, "mul_lwnaf"); put_eb(w, r);
	eb_mul_rwnaf(r, p, k);
	eb_norm(r, r);
	tag(w, "mul_rwnaf"); put_eb(w, r);
	eb_mul_basic(r, p, k);
	eb_norm(r, r);
	tag(w, "mul_basic"); put_eb(w, r);
	eb_mul_sim(r, p, k, g, m);
	eb_norm(r, r);
	tag(w, "mul_sim"); put_eb(w, r);
	bytes_from_seed(msg, sizeof msg, &s);
	eb_map(r, msg, sizeof msg);
	eb_norm(r, r);
	tag(w, "map"); put_eb(w, r);
	{
		uint8_t cb[RLC_FB_BYTES + 1];
		eb_write_bin(cb, sizeof cb, p, 1);
		eb_read_bin(r, cb, sizeof cb);
		tag(w, "unpack"); put_eb(w, r);
	}
	for (int i = 0; i < RLC_EB_TABLE; i++) eb_free(tab[i]);
	eb_free(g); eb_free(p); eb_free(r); bn_free(n); bn_free(h); bn_free(k); bn_free(m);
}
#endif

/* c19_probe(family, seed): family 0 = field only (after a bare fp_param_set), 1 = field + prime curve
 * (+ pairing groups when a twist is configured), 2 = binary curve. Returns one blob of tagged values. */
BIND(c19_probe) {
	vs_wr w = { 0 };
	item_open = 0;
	switch (A(0)) {
		case 0: probe_fp(&w, A(1)); break;
		case 1: probe_fp(&w, A(1)); probe_ep(&w, A(1)); break;
#ifdef WITH_EB
		case 2: probe_eb(&w, A(1)); break;
#endif
		default: vs_die("c19_probe: bad family");
	}
	tag_close(&w);
	ret_blob(c, w.buf, w.len);
	free(w.buf);
}

/* ------------------------------------------------------------------ context histories */

#define C19_MAXCTX 4

/* One step on the CURRENT context (shared by the context histories and the thread workloads).
 * ops: 0 core_init  1 RLC_THROW(arg)  2 err_get_code  3 ep_param_set(arg)  4 reseed DRBG from arg
 *      5 rand_bytes(arg % 65)  6 [k]G with k from the DRBG  7 core_clean  8 peek (last class, number, code)
 *      9 err_get_msg when an unprotected error is recorded  10 redundant core_set of the current context
 *      11 bn_rand_mod(order)  12 hash of arg  13 ep_mul_lwnaf([arg]G, k from DRBG)  14 ep_map(arg)
 *      15 first core_get() of a thread: the registered thread initializer must set the context up */
void c19_step(int op, uint32_t arg, vs_wr *o) {
	switch (op) {
		case 0: wr_u32(o, (uint32_t)core_init()); break;
		case 1: { int code = (int)arg; RLC_THROW(code); break; }
		case 2: wr_u32(o, (uint32_t)err_get_code()); break;
		case 3: ep_param_set((int)arg); wr_u32(o, (uint32_t)ep_param_get()); break;
		case 4: {
			uint8_t sd[20];
			uint64_t s = arg;
			bytes_from_seed(sd, sizeof sd, &s);
			core_get()->seeded = 0;
			rand_seed(sd, sizeof sd);
			break;
		}
		case 5: {
			uint8_t rb[64];
			size_t n = arg % (sizeof rb + 1);
			rand_bytes(rb, n);
			wr_raw(o, rb, n);
			break;
		}
		case 6: {
			bn_t n, s; ep_t r;
			bn_null(n); bn_null(s); ep_null(r); bn_new(n); bn_new(s); ep_new(r);
			ep_curve_get_ord(n);
			bn_rand_mod(s, n);
			ep_mul_gen(r, s);
			ep_norm(r, r);
			put_ep(o, r);
			bn_free(n); bn_free(s); ep_free(r);
			break;
		}
		case 7: wr_u32(o, (uint32_t)core_clean()); break;
		case 8: {
			ctx_t *q = core_get();
			int cls = q->last == NULL ? 0 : (q->last == &q->error ? 1 : 2);
			wr_u8(o, (uint8_t)cls);
			wr_u32(o, cls == 1 ? (uint32_t)q->number : 0);
			wr_u32(o, (uint32_t)q->code);
			break;
		}
		case 9: {
			ctx_t *q = core_get();
			if (q->last == &q->error) {
				err_t e2 = 99; char *msg = NULL;
				err_get_msg(&e2, &msg);
				wr_u32(o, (uint32_t)e2);
			}
			break;
		}
		case 10: { ctx_t *q = core_get(); core_set(q); wr_u8(o, core_get() == q); break; }
		case 11: {
			bn_t n, s;
			bn_null(n); bn_null(s); bn_new(n); bn_new(s);
			ep_curve_get_ord(n);
			bn_rand_mod(s, n);
			put_bn(o, s);
			bn_free(n); bn_free(s);
			break;
		}
		case 12: {
			uint8_t h[RLC_MD_LEN], m[4];
			memcpy(m, &arg, 4);
			md_map(h, m, 4);
			wr_raw(o, h, sizeof h);
			break;
		}
		case 13: {
			bn_t n, s; ep_t r;
			bn_null(n); bn_null(s); ep_null(r); bn_new(n); bn_new(s); ep_new(r);
			ep_curve_get_ord(n);
			bn_rand_mod(s, n);
			ep_curve_get_gen(r);
			ep_mul_dig(r, r, (dig_t)(arg | 1));
			ep_norm(r, r);
			ep_mul_lwnaf(r, r, s);
			ep_norm(r, r);
			put_ep(o, r);
			bn_free(n); bn_free(s); ep_free(r);
			break;
		}
		case 14: {
			ep_t r; uint8_t m[4];
			ep_null(r); ep_new(r);
			memcpy(m, &arg, 4);
			ep_map(r, m, 4);
			ep_norm(r, r);
			put_ep(o, r);
			ep_free(r);
			break;
		}
		case 15: {
			/* lazy initialisation through the per-thread initializer (core_set_thread_initializer) */
#if defined(MULTI)
			ctx_t *q = core_get();
			wr_u8(o, q != NULL);
			if (q != NULL) wr_u32(o, (uint32_t)q->code);
#else
			vs_die("c19_step: lazy init needs a MULTI build");
#endif
			break;
		}
		default: vs_die("c19_step: bad op");
	}
}

/* c19_ctx_run(history, k, fill): history := step*, step := ctx u8, op u8, arg u32; every step first makes
 * context ctx current with core_set(). Reply: one record per step: u8 ctx, u8 op, blob out. */
BIND(c19_ctx_run) {
	const uint8_t *p = BUF(0), *end = p + BUFLEN(0);
	int k = (int)A(1);
	ctx_t *main_ctx = core_get();
	ctx_t *cx[C19_MAXCTX] = { 0 };
	vs_wr w = { 0 };
	if (k < 1 || k > C19_MAXCTX) vs_die("c19_ctx_run: bad k");
	for (int i = 0; i < k; i++) {
		cx[i] = (ctx_t *)malloc(sizeof(ctx_t));
		if (!cx[i]) vs_die("oom");
		/* "ctx_t new_ctx;" on the stack in the documented usage (test_core.c): arbitrary content */
		memset(cx[i], (int)A(2), sizeof(ctx_t));
	}
	while (p + 6 <= end) {
		int i = p[0], op = p[1];
		uint32_t arg;
		memcpy(&arg, p + 2, 4);
		p += 6;
		if (i >= k) vs_die("c19_ctx_run: bad ctx index");
		core_set(cx[i]);
		vs_wr o = { 0 };
		c19_step(op, arg, &o);
		wr_u8(&w, (uint8_t)i); wr_u8(&w, (uint8_t)op);
		wr_blob(&w, o.buf, o.len);
		free(o.buf);
	}
	core_set(main_ctx);
	ret_blob(c, w.buf, w.len);
	free(w.buf);
	for (int i = 0; i < k; i++) free(cx[i]);
}

#endif

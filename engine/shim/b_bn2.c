/* C09: additional bindings for the number-theoretic / recoding functions of the BN module that need
 * more than plain slots: CRT exponentiation (crt_t built from slots) and the recodings that take their
 * constants from the active curve (GLV vectors, Frobenius parameter). */
#include "vs.h"

#ifdef WITH_BN

#define BNV(i) ((bn_t *)vs_get(c->a[i], VT_BNV))
#define BNVLEN(i) (vs_slot_at(c->a[i])->len)

/* integer as blob: sign byte followed by the little-endian magnitude, read straight from the digits */
static void ret_bn(vs_call *c, const bn_st *a) {
	uint8_t tmp[1 + RLC_BN_SIZE * sizeof(dig_t) + 8];
	size_t n = 0;
	tmp[n++] = (a->sign == RLC_NEG) ? 1 : 0;
	for (size_t i = 0; i < (size_t)a->used && i < RLC_BN_SIZE; i++) {
		for (size_t j = 0; j < sizeof(dig_t); j++) {
			tmp[n++] = (uint8_t)(a->dp[i] >> (8 * j));
		}
	}
	ret_blob(c, tmp, n);
}

BIND(c09_info) {
#ifdef WITH_EP
	RET(1);
#else
	RET(0);
#endif
#ifdef WITH_EB
	RET(1);
#else
	RET(0);
#endif
#ifdef WITH_FP
	RET(RLC_FP_BITS); RET(RLC_FP_DIGS);
#else
	RET(0); RET(0);
#endif
#ifdef WITH_FB
	RET(RLC_FB_BITS);
#else
	RET(0);
#endif
	RET(RLC_WIDTH); RET(RLC_DEPTH);
	RET(BN_MOD == MONTY ? 1 : (BN_MOD == BARRT ? 2 : (BN_MOD == PMERS ? 3 : 0)));
#if defined(WITH_EP) && defined(EP_ENDOM)
	RET(1);
#else
	RET(0);
#endif
}

/* bn_mxp_crt(d, a, b, c, crt, sqr) with crt = {n = p*q, p, q, dp, dq, qi} taken from slots 4..8 */
BIND(c09_mxp_crt) {
	crt_t crt;
	crt_null(crt);
	RLC_TRY {
		crt_new(crt);
		bn_copy(crt->p, BN(4));
		bn_copy(crt->q, BN(5));
		bn_copy(crt->dp, BN(6));
		bn_copy(crt->dq, BN(7));
		bn_copy(crt->qi, BN(8));
		bn_mul(crt->n, crt->p, crt->q);
		bn_mxp_crt(BN(0), BN(1), BN(2), BN(3), crt, (int)A(9));
	} RLC_CATCH_ANY {
		crt_free(crt);
		RLC_THROW(ERR_CAUGHT);
	}
	crt_free(crt);
}

#if defined(WITH_EP) && defined(EP_ENDOM)

static int c09_curve_id(uint64_t idx) {
	switch (idx) {
#if FP_PRIME == 256
		case 0: return SECG_K256;
		case 1: return BN_P256;
		case 2: return SM9_P256;
#elif FP_PRIME == 381
		case 0: return B12_P381;
#elif FP_PRIME == 254
		case 0: return BN_P254;
#elif FP_PRIME == 382
		case 0: return BN_P382;
#elif FP_PRIME == 446
		case 0: return BN_P446;
		case 1: return B12_P446;
#elif FP_PRIME == 638
		case 0: return BN_P638;
		case 1: return B12_P638;
#endif
		default: return -1;
	}
}

static int c09_select(uint64_t idx) {
	int id = c09_curve_id(idx);
	if (id < 0) return 0;
	if (ep_param_get() != id) {
		ep_param_set(id);
	}
	return ep_param_get() == id;
}

/* Select endomorphism curve #idx of this field size and return its public data:
 * rets: ok, is_endom, is_pairf; blobs: p, a, b, gx, gy, n, h, beta, v1[0..2], v2[0..2], par */
BIND(c09_ep_set) {
	bn_t t;
	ep_t g;
	if (!c09_select(A(0))) { RET(0); return; }
	RET(1);
	RET(ep_curve_is_endom());
	RET(ep_curve_is_pairf());
	bn_null(t); ep_null(g);
	RLC_TRY {
		bn_new(t); ep_new(g);
		t->used = RLC_FP_DIGS; t->sign = RLC_POS;
		dv_copy(t->dp, fp_prime_get(), RLC_FP_DIGS); bn_trim(t); ret_bn(c, t);
		fp_prime_back(t, ep_curve_get_a()); ret_bn(c, t);
		fp_prime_back(t, ep_curve_get_b()); ret_bn(c, t);
		ep_curve_get_gen(g); ep_norm(g, g);
		fp_prime_back(t, g->x); ret_bn(c, t);
		fp_prime_back(t, g->y); ret_bn(c, t);
		ep_curve_get_ord(t); ret_bn(c, t);
		ep_curve_get_cof(t); ret_bn(c, t);
		fp_prime_back(t, ep_curve_get_beta()); ret_bn(c, t);
		for (int i = 0; i < 3; i++) ret_bn(c, &ep_curve_get_v1()[i]);
		for (int i = 0; i < 3; i++) ret_bn(c, &ep_curve_get_v2()[i]);
		fp_prime_get_par(t); ret_bn(c, t);
	} RLC_CATCH_ANY {
		RLC_THROW(ERR_CAUGHT);
	} RLC_FINALLY {
		bn_free(t); ep_free(g);
	}
}

/* bn_rec_glv(k0, k1, k, n, v1, v2) exactly as ep_mul_glv_imp / ep_mul_reg_glv call it (curve #A(3)) */
BIND(c09_rec_glv) {
	bn_t n;
	if (!c09_select(A(3))) { RET(0); return; }
	bn_null(n);
	RLC_TRY {
		bn_new(n);
		ep_curve_get_ord(n);
		bn_rec_glv(BN(0), BN(1), BN(2), n, ep_curve_get_v1(), ep_curve_get_v2());
	} RLC_CATCH_ANY {
		RLC_THROW(ERR_CAUGHT);
	} RLC_FINALLY {
		bn_free(n);
	}
	RET(1);
}

/* bn_rec_frb(ki, sub, k, u, n, cof) with u, n, cof taken from the active pairing curve as the callers do */
BIND(c09_rec_frb_ctx) {
	bn_t n, u;
	if (!c09_select(A(3))) { RET(0); return; }
	bn_null(n); bn_null(u);
	RLC_TRY {
		bn_new(n); bn_new(u);
		ep_curve_get_ord(n);
		fp_prime_get_par(u);
		bn_rec_frb(BNV(0), (int)A(1), BN(2), u, n, ep_curve_is_pairf() == EP_BN);
	} RLC_CATCH_ANY {
		RLC_THROW(ERR_CAUGHT);
	} RLC_FINALLY {
		bn_free(n); bn_free(u);
	}
	RET(1);
}

#endif /* WITH_EP && EP_ENDOM */

#endif /* WITH_BN */

/* Bindings for the FPX module (extension-field towers), property C10.
 *
 * One X-macro table per signature class; every row is (degree, operation) and expands to
 *   BIND(fp<N>_<op>) { fp<N>_<op>(...); }
 * Names that are macros in relic_fpx.h (fp2_add, fp12_mul, fp12_sqr_cyc, ...) are bound under the macro name and
 * expand to whatever variant the build selected; the explicit variants are bound next to them.
 *
 * Declared in relic_fpx.h but defined nowhere in src/ (would not link, therefore not bound):
 *   fp4_mul_dxs, fp16_mul_frb, fp16_field_init, fp12/16/18/24/48_exp_cyc_gls, fp18_pck_max, fp18_upk_max
 * (fp16_mul_dxs exists only as the macro over fp16_mul_dxs_basic / _lazyr).
 */
#include "vs.h"

#if defined(WITH_FPX) && ALLOC == AUTO

#define FPXV(i, deg) (vs_getx(c->a[i], VT_FPXV, deg))
#define BNX(i) ((bn_st *)vs_get(c->a[i], VT_BN))

/* ------------------------------------------------------------------ signature classes */
#define S_CAB(N, op)  BIND(fp##N##_##op) { fp##N##_##op(FP##N(0), FP##N(1), FP##N(2)); }
#define S_CA(N, op)   BIND(fp##N##_##op) { fp##N##_##op(FP##N(0), FP##N(1)); }
#define S_CAD(N, op)  BIND(fp##N##_##op) { fp##N##_##op(FP##N(0), FP##N(1), (dig_t)A(2)); }
#define S_CAI(N, op)  BIND(fp##N##_##op) { fp##N##_##op(FP##N(0), FP##N(1), (int)(int64_t)A(2)); }
#define S_CAII(N, op) BIND(fp##N##_##op) { fp##N##_##op(FP##N(0), FP##N(1), (int)(int64_t)A(2), (int)(int64_t)A(3)); }
#define S_CAE(N, op)  BIND(fp##N##_##op) { fp##N##_##op(FP##N(0), FP##N(1), BNX(2)); }
#define S_SIM(N, op)  BIND(fp##N##_##op) { fp##N##_##op(FP##N(0), FP##N(1), BNX(2), FP##N(3), BNX(4)); }
#define S_VEC(N, op)  BIND(fp##N##_##op) { fp##N##_##op((fp##N##_t *)FPXV(0, N), (const fp##N##_t *)FPXV(1, N), (int)(int64_t)A(2)); }
#define S_Q1(N, op)   BIND(fp##N##_##op) { RET((int64_t)fp##N##_##op(FP##N(0))); }
#define S_Q2(N, op)   BIND(fp##N##_##op) { RET((int64_t)fp##N##_##op(FP##N(0), FP##N(1))); }
#define S_QD(N, op)   BIND(fp##N##_##op) { RET((int64_t)fp##N##_##op(FP##N(0), (dig_t)A(1))); }
#define S_R2(N, op)   BIND(fp##N##_##op) { RET((int64_t)fp##N##_##op(FP##N(0), FP##N(1))); }
#define S_SD(N, op)   BIND(fp##N##_##op) { fp##N##_##op(FP##N(0), (dig_t)A(1)); }
#define S_Z(N, op)    BIND(fp##N##_##op) { fp##N##_##op(FP##N(0)); }
/* sparse exponent: BUF slot of little-endian int32 entries, explicit length, sign */
#define S_SPS(N, op, LT) BIND(fp##N##_##op) { \
		fp##N##_##op(FP##N(0), FP##N(1), (const int *)BUF(2), (LT)A(3), (int)(int64_t)A(4)); }

/* ------------------------------------------------------------------ the table */

/* rows common to every degree */
#define ROWS_ALL(N) \
	S_CAB(N, add) S_CAB(N, sub) S_CAB(N, mul) S_CAB(N, mul_basic) \
	S_CA(N, neg) S_CA(N, dbl) S_CA(N, mul_art) S_CA(N, sqr) S_CA(N, sqr_basic) S_CA(N, inv) S_CA(N, copy) \
	S_CAD(N, copy_sec) S_CAI(N, frb) S_CAE(N, exp) \
	S_Q1(N, is_zero) S_Q2(N, cmp) S_QD(N, cmp_dig) S_SD(N, set_dig) S_Z(N, zero)

/* quadratic / cubic base levels have BASIC|INTEG variants, everything above BASIC|LAZYR */
#define ROWS_BASE(N) \
	S_CAB(N, add_basic) S_CAB(N, add_integ) S_CAB(N, sub_basic) S_CAB(N, sub_integ) S_CAB(N, mul_integ) \
	S_CA(N, dbl_basic) S_CA(N, dbl_integ) S_CA(N, sqr_integ) S_CA(N, mul_nor) \
	S_CAD(N, add_dig) S_CAD(N, sub_dig) S_CAD(N, mul_dig) S_CAII(N, mul_frb) \
	S_VEC(N, inv_sim) S_Q1(N, is_sqr) S_R2(N, srt)
#define ROWS_LAZY(N) S_CAB(N, mul_lazyr) S_CA(N, sqr_lazyr)

/* cyclotomic families */
#define ROWS_UNI(N) /* 'cyclotomic' = unitary: degrees 2, 8, 16 */ \
	S_CA(N, inv_cyc) S_CA(N, conv_cyc) S_Q1(N, test_cyc) S_CAD(N, exp_dig) S_CAE(N, exp_cyc) S_SIM(N, exp_cyc_sim)
#define ROWS_CYC(N) /* Granger-Scott / Karabina families: degrees 12, 18, 24, 48, 54 */ \
	S_CA(N, inv_cyc) S_CA(N, conv_cyc) S_Q1(N, test_cyc) S_CAD(N, exp_dig) S_CAE(N, exp_cyc) \
	S_CA(N, sqr_cyc) S_CA(N, sqr_cyc_basic) S_CA(N, sqr_cyc_lazyr) \
	S_CA(N, sqr_pck) S_CA(N, sqr_pck_basic) S_CA(N, sqr_pck_lazyr) \
	S_CA(N, back_cyc) S_VEC(N, back_cyc_sim)

ROWS_ALL(2) ROWS_BASE(2) ROWS_UNI(2)
S_CA(2, mul_nor_basic) S_CA(2, mul_nor_integ)

ROWS_ALL(3) ROWS_BASE(3)

ROWS_ALL(4) ROWS_LAZY(4)
S_CAD(4, add_dig) S_CAD(4, sub_dig) S_CAD(4, mul_dig) S_CAII(4, mul_frb)
S_VEC(4, inv_sim) S_Q1(4, is_sqr) S_R2(4, srt) S_CA(4, inv_cyc)

ROWS_ALL(6) ROWS_LAZY(6)
S_CAB(6, mul_dxs)

ROWS_ALL(8) ROWS_LAZY(8) ROWS_UNI(8)
S_CAB(8, mul_dxs) S_CAD(8, mul_dig) S_CAII(8, mul_frb) S_CA(8, sqr_cyc)
S_VEC(8, inv_sim) S_Q1(8, is_sqr) S_R2(8, srt)

ROWS_ALL(9) ROWS_LAZY(9)
S_CAB(9, mul_dxs) S_VEC(9, inv_sim)

ROWS_ALL(12) ROWS_LAZY(12) ROWS_CYC(12)
S_CAB(12, mul_dxs) S_CAB(12, mul_dxs_basic) S_CAB(12, mul_dxs_lazyr)
S_SIM(12, exp_cyc_sim) S_SPS(12, exp_cyc_sps, size_t)

ROWS_ALL(16) ROWS_LAZY(16) ROWS_UNI(16)
S_CAB(16, mul_dxs) S_CAB(16, mul_dxs_basic) S_CAB(16, mul_dxs_lazyr) S_CA(16, sqr_cyc)
S_VEC(16, inv_sim) S_Q1(16, is_sqr) S_R2(16, srt)

ROWS_ALL(18) ROWS_LAZY(18) ROWS_CYC(18)
S_CAB(18, mul_dxs) S_CAB(18, mul_dxs_basic) S_CAB(18, mul_dxs_lazyr)
S_SIM(18, exp_cyc_sim) S_SPS(18, exp_cyc_sps, int)

ROWS_ALL(24) ROWS_LAZY(24) ROWS_CYC(24)
S_CAB(24, mul_dxs)
S_SIM(24, exp_cyc_sim) S_SPS(24, exp_cyc_sps, size_t)

ROWS_ALL(48) ROWS_LAZY(48) ROWS_CYC(48)
S_CAB(48, mul_dxs)
S_SIM(48, exp_cyc_sim) S_SPS(48, exp_cyc_sps, size_t)

ROWS_ALL(54) ROWS_LAZY(54) ROWS_CYC(54)
S_CAB(54, mul_dxs)
S_SPS(54, exp_cyc_sps, size_t)

/* ------------------------------------------------------------------ parameters of the tower */

BIND(fp2_field_get_qnr) { RET((int64_t)fp2_field_get_qnr()); }
BIND(fp3_field_get_cnr) { RET((int64_t)fp3_field_get_cnr()); }
BIND(fp2_field_init) { fp2_field_init(); }
BIND(fp3_field_init) { fp3_field_init(); }
BIND(fp4_field_init) { fp4_field_init(); }
BIND(fp8_field_init) { fp8_field_init(); }

BIND(info_fpx) {
	RET(FPX_QDR); RET(FPX_CBC); RET(FPX_RDC); RET(BASIC); RET(INTEG); RET(LAZYR);
	RET(RLC_FP_BITS); RET(RLC_DIG); RET(RLC_WIDTH); RET(RLC_TERMS);
#if defined(WITH_EP)
	RET(EP_ADD); RET(PROJC); RET(JACOB);
#else
	RET(0); RET(1); RET(2);
#endif
#ifdef FP_QNRES
	RET(1);
#else
	RET(0);
#endif
}

#if defined(WITH_EPX)
/* the sparse shape expected by fp12/fp18/... mul_dxs depends on the twist type recorded in the context */
BIND(epx_twist_types) {
	RET((int64_t)ep2_curve_is_twist()); RET((int64_t)ep3_curve_is_twist());
	RET((int64_t)ep4_curve_is_twist()); RET((int64_t)ep8_curve_is_twist());
	RET(RLC_EP_DTYPE); RET(RLC_EP_MTYPE);
}
BIND(ep2_curve_set_twist) { ep2_curve_set_twist((int)(int64_t)A(0)); }
BIND(ep3_curve_set_twist) { ep3_curve_set_twist((int)(int64_t)A(0)); }
BIND(ep4_curve_set_twist) { ep4_curve_set_twist((int)(int64_t)A(0)); }
BIND(ep8_curve_set_twist) { ep8_curve_set_twist((int)(int64_t)A(0)); }
#endif

#endif /* WITH_FPX && ALLOC == AUTO */

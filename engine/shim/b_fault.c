/* Allocation-fault injection for ALLOC=DYNAMIC builds (C08 part 3). The runner of the `dyn` configuration is linked
 * with -Wl,--wrap=malloc,--wrap=calloc,--wrap=realloc,--wrap=posix_memalign,--wrap=free; while armed, the k-th
 * allocation request made by the library fails. Workloads are written in the library's own idiom
 * (null / new inside RLC_TRY / free in RLC_FINALLY). */
#include "vs.h"

#ifdef VS_WRAP_ALLOC

#include <errno.h>

void *__real_malloc(size_t n);
void *__real_calloc(size_t n, size_t m);
void *__real_realloc(void *p, size_t n);
int __real_posix_memalign(void **p, size_t a, size_t n);
void __real_free(void *p);

static volatile int f_armed;
static volatile long f_count, f_fail_at, f_frees, f_allocs_ok;

static int should_fail(void) {
	if (!f_armed) return 0;
	f_count++;
	return f_fail_at > 0 && f_count == f_fail_at;
}
void *__wrap_malloc(size_t n) {
	if (should_fail()) return NULL;
	void *p = __real_malloc(n);
	if (f_armed && p) f_allocs_ok++;
	return p;
}
void *__wrap_calloc(size_t n, size_t m) {
	if (should_fail()) return NULL;
	void *p = __real_calloc(n, m);
	if (f_armed && p) f_allocs_ok++;
	return p;
}
void *__wrap_realloc(void *q, size_t n) {
	if (should_fail()) return NULL;
	void *p = __real_realloc(q, n);
	if (f_armed && p && !q) f_allocs_ok++;
	return p;
}
int __wrap_posix_memalign(void **p, size_t a, size_t n) {
	if (should_fail()) { return ENOMEM; }
	int r = __real_posix_memalign(p, a, n);
	if (f_armed && r == 0) f_allocs_ok++;
	return r;
}
void __wrap_free(void *p) {
	if (f_armed && p) f_frees++;
	__real_free(p);
}

/* ------------------------------------------------------------------ workloads */

static uint64_t acc;
static void mix(const void *p, size_t n) { acc = vs_fnv(acc ^ 0x9E3779B97F4A7C15ULL, p, n); }
static void mix_bn(const bn_t a) { mix(&a->sign, sizeof a->sign); mix(a->dp, a->used * sizeof(dig_t)); }

static void fill(bn_t a, uint64_t s, int digs) {
	bn_grow(a, digs);
	for (int i = 0; i < digs; i++) { s = s * 6364136223846793005ULL + 1442695040888963407ULL; a->dp[i] = (dig_t)(s >> 7) | 1; }
	a->used = digs; a->sign = RLC_POS;
	bn_trim(a);
}

static void wl_bn(uint64_t s, int which) {
	bn_t a, b, c, d, e;
	bn_null(a); bn_null(b); bn_null(c); bn_null(d); bn_null(e);
	RLC_TRY {
		bn_new(a); bn_new(b); bn_new(c); bn_new(d); bn_new(e);
		fill(a, s, 8); fill(b, s ^ 0x55, 4);
		switch (which) {
			case 0: bn_mul(c, a, b); mix_bn(c); break;
			case 1: bn_div_rem(c, d, a, b); mix_bn(c); mix_bn(d); break;
			case 2: b->dp[0] |= 1; bn_mxp(c, a, b, b); mix_bn(c); break;
			case 3: bn_gcd_ext(c, d, e, a, b); mix_bn(c); mix_bn(d); break;
			case 4: bn_gcd_lehme(c, a, b); mix_bn(c); bn_sqr(d, a); mix_bn(d); break;
			case 5: bn_set_dig(b, 65537); bn_mod_inv(c, b, a); mix_bn(c); break;
			case 6: bn_gen_prime(c, 48); mix_bn(c); break;
			case 7: { size_t l = 600; int8_t naf[600]; bn_rec_naf(naf, &l, a, 4); mix(naf, l); bn_srt(c, a); mix_bn(c); break; }
		}
	} RLC_CATCH_ANY {
		RLC_THROW(ERR_CAUGHT);
	} RLC_FINALLY {
		bn_free(a); bn_free(b); bn_free(c); bn_free(d); bn_free(e);
	}
}

#ifdef WITH_EP
static void wl_ep(uint64_t s, int which) {
	bn_t k, m;
	ep_t p, q, r;
	bn_null(k); bn_null(m); ep_null(p); ep_null(q); ep_null(r);
	RLC_TRY {
		bn_new(k); bn_new(m); ep_new(p); ep_new(q); ep_new(r);
		fill(k, s, 4); fill(m, s ^ 0xAA, 3);
		ep_curve_get_gen(p);
		ep_dbl(q, p); ep_norm(q, q);
		switch (which) {
			case 0: ep_mul_gen(r, k); break;
			case 1: ep_mul_lwnaf(r, q, k); break;
			case 2: ep_mul_monty(r, q, k); break;
			case 3: ep_mul_lwreg(r, q, k); break;
			case 4: ep_mul_sim(r, p, k, q, m); break;
			case 5: ep_mul_sim_joint(r, p, k, q, m); break;
			case 6: ep_map(r, (const uint8_t *)"fault injection", 15); break;
			case 7: ep_mul_slide(r, q, k); break;
			case 8: { uint8_t b[2 * RLC_FP_BYTES + 1]; ep_mul_basic(r, q, m); ep_write_bin(b, sizeof b, r, 0); ep_read_bin(r, b, sizeof b); break; }
		}
		ep_norm(r, r);
		mix(r->x, RLC_FP_DIGS * sizeof(dig_t)); mix(r->y, RLC_FP_DIGS * sizeof(dig_t));
	} RLC_CATCH_ANY {
		RLC_THROW(ERR_CAUGHT);
	} RLC_FINALLY {
		bn_free(k); bn_free(m); ep_free(p); ep_free(q); ep_free(r);
	}
}
#endif

#if defined(WITH_FP)
static void wl_fp(uint64_t s, int which) {
	bn_t k;
	fp_t a, b, c;
	bn_null(k); fp_null(a); fp_null(b); fp_null(c);
	RLC_TRY {
		bn_new(k); fp_new(a); fp_new(b); fp_new(c);
		fill(k, s, 3);
		fp_prime_conv(a, k);
		fp_set_dig(b, 7);
		switch (which) {
			case 0: fp_mul(c, a, b); fp_sqr(c, c); break;
			case 1: fp_inv(c, a); break;
			case 2: fp_exp(c, a, k); break;
			case 3: fp_sqr(c, a); fp_srt(c, c); break;
			case 4: fp_inv_binar(c, a); fp_inv_exgcd(b, a); fp_add(c, c, b); break;
			case 5: acc ^= (uint64_t)fp_smb(a); fp_inv_divst(c, a); break;
		}
		mix(c, RLC_FP_DIGS * sizeof(dig_t));
	} RLC_CATCH_ANY {
		RLC_THROW(ERR_CAUGHT);
	} RLC_FINALLY {
		bn_free(k); fp_free(a); fp_free(b); fp_free(c);
	}
}
#endif

#if defined(WITH_PC) && defined(WITH_PP)
static void wl_pc(uint64_t s, int which) {
	bn_t k;
	g1_t p; g2_t q; gt_t e;
	bn_null(k); g1_null(p); g2_null(q); gt_null(e);
	RLC_TRY {
		bn_new(k); g1_new(p); g2_new(q); gt_new(e);
		fill(k, s, 3);
		g1_get_gen(p); g2_get_gen(q);
		switch (which) {
			case 0: pc_map(e, p, q); break;
			case 1: g2_mul(q, q, k); g2_norm(q, q); pc_map(e, p, q); break;
			case 2: gt_get_gen(e); gt_exp(e, e, k); break;
			case 3: g1_mul(p, p, k); g1_map(p, (const uint8_t *)"abc", 3); gt_get_gen(e); break;
		}
		{ uint8_t gb[12 * 8 * RLC_FP_BYTES]; int gl = gt_size_bin(e, 0); if (gl > 0 && (size_t)gl <= sizeof gb) { gt_write_bin(gb, gl, e, 0); mix(gb, gl); } }
	} RLC_CATCH_ANY {
		RLC_THROW(ERR_CAUGHT);
	} RLC_FINALLY {
		bn_free(k); g1_free(p); g2_free(q); gt_free(e);
	}
}
#endif

#if defined(WITH_CP) && defined(WITH_EP)
static void wl_cp(uint64_t s, int which) {
	bn_t d, r, t;
	ec_t q;
	uint8_t msg[20];
	bn_null(d); bn_null(r); bn_null(t); ec_null(q);
	memset(msg, (int)s, sizeof msg);
	RLC_TRY {
		bn_new(d); bn_new(r); bn_new(t); ec_new(q);
		switch (which) {
			case 0: cp_ecdsa_gen(d, q); cp_ecdsa_sig(r, t, msg, sizeof msg, 0, d); acc ^= (uint64_t)cp_ecdsa_ver(r, t, msg, sizeof msg, 0, q); break;
			case 1: cp_ecss_gen(d, q); cp_ecss_sig(r, t, msg, sizeof msg, d); acc ^= (uint64_t)cp_ecss_ver(r, t, msg, sizeof msg, q); break;
			case 2: { uint8_t key[32]; cp_ecdh_gen(d, q); cp_ecdh_key(key, sizeof key, d, q); mix(key, sizeof key); break; }
		}
		mix_bn(r);
	} RLC_CATCH_ANY {
		RLC_THROW(ERR_CAUGHT);
	} RLC_FINALLY {
		bn_free(d); bn_free(r); bn_free(t); ec_free(q);
	}
}
#endif

static int dispatch(int group, int which, uint64_t seed) {
	switch (group) {
		case 0: if (which > 7) return -1; wl_bn(seed, which); return 0;
#if defined(WITH_FP)
		case 1: if (which > 5) return -1; wl_fp(seed, which); return 0;
#endif
#ifdef WITH_EP
		case 2: if (which > 8) return -1; wl_ep(seed, which); return 0;
#endif
#if defined(WITH_PC) && defined(WITH_PP)
		case 3: if (which > 3) return -1; wl_pc(seed, which); return 0;
#endif
#if defined(WITH_CP) && defined(WITH_EP)
		case 4: if (which > 2) return -1; wl_cp(seed, which); return 0;
#endif
	}
	return -1;
}

/* c08_fault(group, which, seed, fail_at): fail_at = 0 counts only. Returns:
 * supported, allocations requested, successful allocations, frees, caught?, error code, result hash */
BIND(c08_fault) {
	volatile int caught = 0;
	err_t e = 0;
	volatile int sup = 0;
	acc = 0;
	/* make sure lazily created library state exists before arming */
	f_count = f_frees = f_allocs_ok = 0;
	f_fail_at = (long)A(3);
	RLC_TRY {
		f_armed = 1;
		sup = dispatch((int)A(0), (int)A(1), A(2));
		f_armed = 0;
	} RLC_CATCH(e) {
		f_armed = 0;
		caught = 1;
	}
	f_armed = 0;
	RET(sup == 0); RET(f_count); RET(f_allocs_ok); RET(f_frees); RET(caught); RET((int64_t)e); RET(acc);
}

BIND(c08_fault_setup) {
	/* select parameters once, un-armed */
#ifdef WITH_EP
	if (A(0) == 1) { RET(ep_param_set_any() == RLC_OK); return; }
#endif
#if defined(WITH_PC) && defined(WITH_PP)
	if (A(0) == 2) { RET(pc_param_set_any() == RLC_OK); return; }
#endif
	RET(0);
}

#endif /* VS_WRAP_ALLOC */

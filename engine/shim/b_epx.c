/* Slot types for points over extension fields: VT_EP2 (sub = extension degree 2, 3, 4 or 8) and vector VT_EP2V.
 * Layout of epK_st is x, y, z (fpK_t each) followed by int coord; payload = raw 3*deg*FPB bytes + 1 byte coord. */
#include "vs.h"

#if defined(WITH_EPX) && ALLOC == AUTO

#define FPB (RLC_FP_DIGS * sizeof(dig_t))

static size_t epx_size(int deg) {
	size_t n = 3 * deg * FPB + sizeof(int), a = sizeof(dig_t) > sizeof(int) ? sizeof(dig_t) : sizeof(int);
	return (n + a - 1) / a * a;
}

static int epx_fill(uint8_t *p, int deg, vs_rd *r) {
	size_t len;
	const uint8_t *d = rd_blob(r, &len);
	if (r->bad || len != 3 * deg * FPB + 1) return -1;
	memcpy(p, d, 3 * deg * FPB);
	int coord = d[3 * deg * FPB];
	memcpy(p + 3 * deg * FPB, &coord, sizeof(int));
	return 0;
}
static int epx_mk(vs_slot *s, vs_rd *r) {
	uint8_t deg = rd_u8(r);
	if (r->bad || (deg != 2 && deg != 3 && deg != 4 && deg != 8)) return -1;
	if ((deg == 2 && epx_size(2) != sizeof(ep2_st)) || (deg == 3 && epx_size(3) != sizeof(ep3_st)) ||
			(deg == 4 && epx_size(4) != sizeof(ep4_st)) || (deg == 8 && epx_size(8) != sizeof(ep8_st))) {
		vs_die("epK_st layout differs from x,y,z,coord");
	}
	uint8_t *p = (uint8_t *)vs_alloc_poisoned(epx_size(deg));
	if (epx_fill(p, deg, r) != 0) { free(p); return -1; }
	s->p = p; s->sub = deg; s->len = 1;
	return 0;
}
static int epxv_mk(vs_slot *s, vs_rd *r) {
	uint8_t deg = rd_u8(r);
	uint32_t n = rd_u32(r), k = rd_u32(r);
	if (r->bad || (deg != 2 && deg != 3 && deg != 4 && deg != 8) || n > 8192 || k > n) return -1;
	uint8_t *v = (uint8_t *)vs_alloc_poisoned((n ? n : 1) * epx_size(deg));
	for (uint32_t i = 0; i < k; i++) {
		if (epx_fill(v + i * epx_size(deg), deg, r) != 0) { free(v); return -1; }
	}
	s->p = v; s->sub = deg; s->len = n;
	return 0;
}
static void epx_dump(const vs_slot *s, vs_wr *w) {
	vs_wr t = { 0 };
	size_t sz = epx_size(s->sub), cb = 3 * s->sub * FPB;
	for (size_t i = 0; i < s->len; i++) {
		const uint8_t *p = (const uint8_t *)s->p + i * sz;
		int coord;
		memcpy(&coord, p + cb, sizeof(int));
		wr_raw(&t, p, cb);
		wr_u8(&t, (uint8_t)coord);
		wr_u32(&t, (uint32_t)coord);
	}
	wr_blob(w, t.buf, t.len);
	free(t.buf);
}
static void epx_fr(vs_slot *s) { free(s->p); }
static uint64_t epx_hash(const vs_slot *s) { return vs_fnv(0xcbf29ce484222325ULL, s->p, s->len * epx_size(s->sub)); }
VS_TYPE(VT_EP2, epx_mk, epx_dump, epx_fr, epx_hash)
VS_TYPE(VT_EP2V, epxv_mk, epx_dump, epx_fr, epx_hash)

void *vs_getp(uint64_t idx, int type, int deg) {
	vs_slot *s = vs_slot_at(idx);
	if (s->type != type || s->sub != deg) {
		char m[120];
		snprintf(m, sizeof m, "slot %llu has type %d/deg %d, binding wants %d/deg %d", (unsigned long long)idx,
				s->type, s->sub, type, deg);
		vs_die(m);
	}
	return s->p;
}

#define EP2(i) ((ep2_st *)vs_getp(c->a[i], VT_EP2, 2))
#define EP2V(i) ((ep2_t *)vs_getp(c->a[i], VT_EP2V, 2))
#define BNV(i) ((bn_t *)vs_get(c->a[i], VT_BNV))

BIND(info_ep2) {
	RET(RLC_EP_TABLE_MAX); RET(sizeof(ep2_st)); RET(ep2_curve_is_twist()); RET(ep2_curve_opt_a()); RET(ep2_curve_opt_b());
	RET(ep2_curve_is_ctmap());
}
BIND(ep2_curve_params) {
	/* a, b of the twist (raw fp2); order -> bn slot 0, cofactor -> bn slot 1, generator -> ep2 slot 2 */
	fp2_t one, t;
	fp2_set_dig(one, 1);
	ep2_curve_mul_a(t, one);
	ret_blob(c, t, 2 * FPB);
	ep2_curve_mul_b(t, one);
	ret_blob(c, t, 2 * FPB);
	RET(ep2_curve_is_twist()); RET(ep2_curve_opt_a()); RET(ep2_curve_opt_b()); RET(ep2_curve_is_ctmap());
	ep2_curve_get_ord(BN(0));
	ep2_curve_get_cof(BN(1));
	ep2_curve_get_gen(EP2(2));
}
BIND(ep2_curve_set_twist) { ep2_curve_set_twist((int)A(0)); }
BIND(ep2_is_infty) { RET(ep2_is_infty(EP2(0))); }
BIND(ep2_set_infty) { ep2_set_infty(EP2(0)); }
BIND(ep2_copy) { ep2_copy(EP2(0), EP2(1)); }
BIND(ep2_cmp) { RET((int64_t)ep2_cmp(EP2(0), EP2(1))); }
BIND(ep2_rand) { ep2_rand(EP2(0)); }
BIND(ep2_blind) { ep2_blind(EP2(0), EP2(1)); }
BIND(ep2_rhs) { ep2_rhs(FP2(0), FP2(1)); }
BIND(ep2_on_curve) { RET(ep2_on_curve(EP2(0))); }
BIND(ep2_tab) { ep2_tab(EP2V(0), EP2(1), (int)A(2)); }
BIND(ep2_size_bin) { RET(ep2_size_bin(EP2(0), (int)A(1))); }
BIND(ep2_read_bin) { ep2_read_bin(EP2(0), BUF(1), BUFLEN(1)); }
BIND(ep2_write_bin) { ep2_write_bin(BUF(0), BUFLEN(0), EP2(1), (int)A(2)); }
BIND(ep2_pck) { ep2_pck(EP2(0), EP2(1)); }
BIND(ep2_upk) { RET(ep2_upk(EP2(0), EP2(1))); }
BIND(ep2_norm) { ep2_norm(EP2(0), EP2(1)); }
BIND(ep2_norm_sim) { ep2_norm_sim(EP2V(0), (const ep2_t *)EP2V(1), (int)A(2)); }
BIND(ep2_neg) { ep2_neg(EP2(0), EP2(1)); }
BIND(ep2_add) { ep2_add(EP2(0), EP2(1), EP2(2)); }
BIND(ep2_add_basic) { ep2_add_basic(EP2(0), EP2(1), EP2(2)); }
BIND(ep2_add_slp_basic) { ep2_add_slp_basic(EP2(0), FP2(3), EP2(1), EP2(2)); }
BIND(ep2_add_projc) { ep2_add_projc(EP2(0), EP2(1), EP2(2)); }
BIND(ep2_add_jacob) { ep2_add_jacob(EP2(0), EP2(1), EP2(2)); }
BIND(ep2_sub) { ep2_sub(EP2(0), EP2(1), EP2(2)); }
BIND(ep2_dbl) { ep2_dbl(EP2(0), EP2(1)); }
BIND(ep2_dbl_basic) { ep2_dbl_basic(EP2(0), EP2(1)); }
BIND(ep2_dbl_slp_basic) { ep2_dbl_slp_basic(EP2(0), FP2(2), EP2(1)); }
BIND(ep2_dbl_projc) { ep2_dbl_projc(EP2(0), EP2(1)); }
BIND(ep2_dbl_jacob) { ep2_dbl_jacob(EP2(0), EP2(1)); }
BIND(ep2_frb) { ep2_frb(EP2(0), EP2(1), (int)A(2)); }
BIND(ep2_mul) { ep2_mul(EP2(0), EP2(1), BN(2)); }
BIND(ep2_mul_basic) { ep2_mul_basic(EP2(0), EP2(1), BN(2)); }
BIND(ep2_mul_slide) { ep2_mul_slide(EP2(0), EP2(1), BN(2)); }
BIND(ep2_mul_monty) { ep2_mul_monty(EP2(0), EP2(1), BN(2)); }
BIND(ep2_mul_lwnaf) { ep2_mul_lwnaf(EP2(0), EP2(1), BN(2)); }
BIND(ep2_mul_lwreg) { ep2_mul_lwreg(EP2(0), EP2(1), BN(2)); }
BIND(ep2_mul_gen) { ep2_mul_gen(EP2(0), BN(1)); }
BIND(ep2_mul_dig) { ep2_mul_dig(EP2(0), EP2(1), (dig_t)A(2)); }
BIND(ep2_mul_cof) { ep2_mul_cof(EP2(0), EP2(1)); }
BIND(ep2_mul_pre) { ep2_mul_pre(EP2V(0), EP2(1)); }
BIND(ep2_mul_fix) { ep2_mul_fix(EP2(0), (const ep2_t *)EP2V(1), BN(2)); }
BIND(ep2_mul_pre_basic) { ep2_mul_pre_basic(EP2V(0), EP2(1)); }
BIND(ep2_mul_pre_combs) { ep2_mul_pre_combs(EP2V(0), EP2(1)); }
BIND(ep2_mul_pre_combd) { ep2_mul_pre_combd(EP2V(0), EP2(1)); }
BIND(ep2_mul_pre_lwnaf) { ep2_mul_pre_lwnaf(EP2V(0), EP2(1)); }
BIND(ep2_mul_fix_basic) { ep2_mul_fix_basic(EP2(0), (const ep2_t *)EP2V(1), BN(2)); }
BIND(ep2_mul_fix_combs) { ep2_mul_fix_combs(EP2(0), (const ep2_t *)EP2V(1), BN(2)); }
BIND(ep2_mul_fix_combd) { ep2_mul_fix_combd(EP2(0), (const ep2_t *)EP2V(1), BN(2)); }
BIND(ep2_mul_fix_lwnaf) { ep2_mul_fix_lwnaf(EP2(0), (const ep2_t *)EP2V(1), BN(2)); }
BIND(ep2_mul_sim) { ep2_mul_sim(EP2(0), EP2(1), BN(2), EP2(3), BN(4)); }
BIND(ep2_mul_sim_basic) { ep2_mul_sim_basic(EP2(0), EP2(1), BN(2), EP2(3), BN(4)); }
BIND(ep2_mul_sim_trick) { ep2_mul_sim_trick(EP2(0), EP2(1), BN(2), EP2(3), BN(4)); }
BIND(ep2_mul_sim_inter) { ep2_mul_sim_inter(EP2(0), EP2(1), BN(2), EP2(3), BN(4)); }
BIND(ep2_mul_sim_joint) { ep2_mul_sim_joint(EP2(0), EP2(1), BN(2), EP2(3), BN(4)); }
BIND(ep2_mul_sim_gen) { ep2_mul_sim_gen(EP2(0), BN(1), EP2(2), BN(3)); }
BIND(ep2_mul_sim_lot) { ep2_mul_sim_lot(EP2(0), (const ep2_t *)EP2V(1), (const bn_t *)BNV(2), (size_t)A(3)); }
BIND(ep2_mul_sim_dig) { ep2_mul_sim_dig(EP2(0), (const ep2_t *)EP2V(1), (const dig_t *)BUF(2), (size_t)A(3)); }
BIND(ep2_map) { ep2_map(EP2(0), BUF(1), BUFLEN(1)); }
BIND(ep2_map_basic) { ep2_map_basic(EP2(0), BUF(1), BUFLEN(1)); }
BIND(ep2_map_sswum) { ep2_map_sswum(EP2(0), BUF(1), BUFLEN(1)); }
BIND(ep2_map_swift) { ep2_map_swift(EP2(0), BUF(1), BUFLEN(1)); }

#endif

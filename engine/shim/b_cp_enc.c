/* Bindings for the integer-based public-key encryption schemes of the CP module (C06 part A):
 * RSA (cp_rsa_gen/enc/dec), Rabin, Benaloh, Paillier, generalised (Damgard-Jurik) and subgroup Paillier,
 * plus bn_mxp_crt with caller-supplied CRT parameters.
 *
 * Keys are structs of bn_t. Generating them is expensive under the sanitizers, so the shim keeps a small POOL per
 * scheme: `c06_key(kind, idx, bits, aux, keyseed, postseed)` (re)generates pool entry idx only when its
 * (bits, aux, keyseed) differ from what the entry holds, by instantiating the library DRBG from `keyseed` and calling
 * the library's own key generator. A key is therefore a deterministic function of (kind, bits, aux, keyseed) and a
 * replay in a fresh runner reproduces it. Afterwards the DRBG is re-instantiated from `postseed`, so whatever the
 * following calls draw (OAEP seed, PS bytes, Paillier r) does not depend on whether the key was cached.
 * `c06_key_get` exports every component into a BNV slot so that the Python reference owns the private key too. */
#include "vs.h"

#if defined(WITH_CP) && defined(WITH_BN) && ALLOC == AUTO

#define C06_POOL 8
#define C06_SEEDMAX 64

enum { K_RSA = 0, K_RABIN = 1, K_BDPE = 2, K_PHPE = 3, K_GHPE = 4, K_SHPE = 5, K_KINDS = 6 };

typedef struct {
	int valid, rc;
	uint64_t bits, aux;
	uint8_t seed[C06_SEEDMAX];
	size_t seedlen;
} c06_spec;

static c06_spec spec[K_KINDS][C06_POOL];

static rsa_t rsa_pub[C06_POOL], rsa_prv[C06_POOL];
static rabin_t rabin_pub[C06_POOL], rabin_prv[C06_POOL];
static bdpe_t bdpe_pub[C06_POOL], bdpe_prv[C06_POOL];
static bn_t phpe_pub[C06_POOL];
static phpe_t phpe_prv[C06_POOL];
static bn_t ghpe_pub[C06_POOL], ghpe_prv[C06_POOL];
static shpe_t shpe_pub[C06_POOL], shpe_prv[C06_POOL];

#define BNV(i) ((bn_t *)vs_get(c->a[i], VT_BNV))
#define BNVLEN(i) (vs_slot_at(c->a[i])->len)
#define CAP(i, bi) (A(i) == (uint64_t)-1 ? BUFLEN(bi) : (size_t)A(i))
#define IDX(i) ((size_t)(A(i) % C06_POOL))

static void reseed(const uint8_t *s, size_t n) {
	core_get()->seeded = 0;
	rand_seed((uint8_t *)s, n);
}

static c06_spec *need(int kind, size_t idx) {
	if (kind < 0 || kind >= K_KINDS) vs_die("c06: bad key kind");
	c06_spec *e = &spec[kind][idx];
	if (!e->valid) vs_die("c06: operation on a pool entry that holds no key");
	return e;
}

/* fixed fill pattern (not the case's poison): the stored key must not depend on the case that happened to generate it */
#define FRESH(obj) memset(&(obj), 0xA5, sizeof(obj))

BIND(c06_key) {
	int kind = (int)A(0);
	size_t idx = IDX(1);
	uint64_t bits = A(2), aux = A(3);
	const uint8_t *ks = BUF(4);
	size_t kl = BUFLEN(4);
	if (kind < 0 || kind >= K_KINDS) vs_die("c06_key: bad kind");
	if (kl > C06_SEEDMAX) vs_die("c06_key: seed too long");
	c06_spec *e = &spec[kind][idx];
	int regen = !(e->valid && e->bits == bits && e->aux == aux && e->seedlen == kl && memcmp(e->seed, ks, kl) == 0);
	if (regen) {
		int rc = RLC_ERR;
		e->valid = 0;
		reseed(ks, kl);
		switch (kind) {
			case K_RSA:
				FRESH(rsa_pub[idx]); FRESH(rsa_prv[idx]);
				rsa_new(rsa_pub[idx]); rsa_new(rsa_prv[idx]);
				rc = cp_rsa_gen(rsa_pub[idx], rsa_prv[idx], (size_t)bits);
				break;
			case K_RABIN:
				FRESH(rabin_pub[idx]); FRESH(rabin_prv[idx]);
				rabin_new(rabin_pub[idx]); rabin_new(rabin_prv[idx]);
				rc = cp_rabin_gen(rabin_pub[idx], rabin_prv[idx], (size_t)bits);
				break;
			case K_BDPE:
				FRESH(bdpe_pub[idx]); FRESH(bdpe_prv[idx]);
				bdpe_new(bdpe_pub[idx]); bdpe_new(bdpe_prv[idx]);
				rc = cp_bdpe_gen(bdpe_pub[idx], bdpe_prv[idx], (dig_t)aux, (size_t)bits);
				break;
			case K_PHPE:
				FRESH(phpe_pub[idx]); FRESH(phpe_prv[idx]);
				bn_new(phpe_pub[idx]); phpe_new(phpe_prv[idx]);
				rc = cp_phpe_gen(phpe_pub[idx], phpe_prv[idx], (size_t)bits);
				break;
			case K_GHPE:
				FRESH(ghpe_pub[idx]); FRESH(ghpe_prv[idx]);
				bn_new(ghpe_pub[idx]); bn_new(ghpe_prv[idx]);
				rc = cp_ghpe_gen(ghpe_pub[idx], ghpe_prv[idx], (size_t)bits);
				break;
			case K_SHPE:
				FRESH(shpe_pub[idx]); FRESH(shpe_prv[idx]);
				shpe_new(shpe_pub[idx]); shpe_new(shpe_prv[idx]);
				rc = cp_shpe_gen(shpe_pub[idx], shpe_prv[idx], (size_t)aux, (size_t)bits);
				break;
		}
		e->rc = rc;
		e->bits = bits;
		e->aux = aux;
		e->seedlen = kl;
		memcpy(e->seed, ks, kl);
		e->valid = 1;
	}
	if (A(5) != (uint64_t)-1) reseed(BUF(5), BUFLEN(5));
	RET(e->rc);
	RET(regen);
}

/* export: fills the BNV slot with the components in a fixed order per kind; returns how many were written */
BIND(c06_key_get) {
	int kind = (int)A(0);
	size_t idx = IDX(1);
	bn_t *v = BNV(2);
	size_t n = BNVLEN(2), k = 0;
	if (kind < 0 || kind >= K_KINDS) vs_die("c06_key_get: bad kind");
	if (!spec[kind][idx].valid) { RET(0); return; }   /* the generator raised an exception: nothing to export */
#define PUT(x) do { if (k >= n) vs_die("c06_key_get: vector too short"); bn_copy(v[k++], (x)); } while (0)
#define PUTCRT(c_) do { PUT((c_)->n); PUT((c_)->p); PUT((c_)->q); PUT((c_)->dp); PUT((c_)->dq); PUT((c_)->qi); } while (0)
	switch (kind) {
		case K_RSA:
			PUT(rsa_pub[idx]->crt->n); PUT(rsa_pub[idx]->e); PUT(rsa_prv[idx]->d); PUTCRT(rsa_prv[idx]->crt);
			break;
		case K_RABIN:
			PUT(rabin_pub[idx]->n); PUTCRT(rabin_prv[idx]);
			break;
		case K_BDPE:
			PUT(bdpe_pub[idx]->n); PUT(bdpe_pub[idx]->y); PUT(bdpe_prv[idx]->n); PUT(bdpe_prv[idx]->p);
			PUT(bdpe_prv[idx]->q); PUT(bdpe_prv[idx]->y);
			RET(bdpe_pub[idx]->t); RET(bdpe_prv[idx]->t);
			break;
		case K_PHPE:
			PUT(phpe_pub[idx]); PUTCRT(phpe_prv[idx]);
			break;
		case K_GHPE:
			PUT(ghpe_pub[idx]); PUT(ghpe_prv[idx]);
			break;
		case K_SHPE:
			PUT(shpe_pub[idx]->crt->n); PUT(shpe_pub[idx]->g); PUT(shpe_prv[idx]->a); PUT(shpe_prv[idx]->b);
			PUT(shpe_prv[idx]->g); PUT(shpe_prv[idx]->gn); PUTCRT(shpe_prv[idx]->crt);
			break;
	}
	RET(k);
}

BIND(info_cp_enc) {
	RET(CP_RSAPD == BASIC ? 0 : (CP_RSAPD == PKCS1 ? 1 : 2));
	RET(RLC_MD_LEN);
#ifdef CP_CRT
	RET(1);
#else
	RET(0);
#endif
	RET(RLC_BN_BITS);
	RET(C06_POOL);
}

/* byte-string schemes: (out BUF, capacity or ~0 = buffer length, in BUF, in_len or ~0 = buffer length, pool idx)
 * returns rc and the updated *out_len */
BIND(c06_rsa_enc) {
	size_t idx = IDX(4), ol = CAP(1, 0);
	need(K_RSA, idx);
	int rc = cp_rsa_enc(BUF(0), &ol, BUF(2), CAP(3, 2), rsa_pub[idx]);
	RET(rc); RET(ol);
}
BIND(c06_rsa_dec) {
	size_t idx = IDX(4), ol = CAP(1, 0);
	need(K_RSA, idx);
	int rc = cp_rsa_dec(BUF(0), &ol, BUF(2), CAP(3, 2), rsa_prv[idx]);
	RET(rc); RET(ol);
}
BIND(c06_rabin_enc) {
	size_t idx = IDX(4), ol = CAP(1, 0);
	need(K_RABIN, idx);
	int rc = cp_rabin_enc(BUF(0), &ol, BUF(2), CAP(3, 2), rabin_pub[idx]);
	RET(rc); RET(ol);
}
BIND(c06_rabin_dec) {
	size_t idx = IDX(4), ol = CAP(1, 0);
	need(K_RABIN, idx);
	int rc = cp_rabin_dec(BUF(0), &ol, BUF(2), CAP(3, 2), rabin_prv[idx]);
	RET(rc); RET(ol);
}
/* Benaloh: (out BUF, capacity, digit, idx) / (in BUF, in_len, idx) -> rc, digit (pre-filled with the poison) */
BIND(c06_bdpe_enc) {
	size_t idx = IDX(3), ol = CAP(1, 0);
	need(K_BDPE, idx);
	int rc = cp_bdpe_enc(BUF(0), &ol, (dig_t)A(2), bdpe_pub[idx]);
	RET(rc); RET(ol);
}
BIND(c06_bdpe_dec) {
	size_t idx = IDX(2);
	dig_t d = (dig_t)(0x0101010101010101ULL * vs_poison);
	need(K_BDPE, idx);
	int rc = cp_bdpe_dec(&d, BUF(0), CAP(1, 0), bdpe_prv[idx]);
	RET(rc); RET(d);
}

/* Paillier: the public key is a plain bn_t, so enc/add take it as a slot (aliasing expressible); dec needs the pool */
BIND(cp_phpe_enc) { RET(cp_phpe_enc(BN(0), BN(1), BN(2))); }
BIND(cp_phpe_add) { RET(cp_phpe_add(BN(0), BN(1), BN(2), BN(3))); }
BIND(c06_phpe_dec) { size_t idx = IDX(2); need(K_PHPE, idx); RET(cp_phpe_dec(BN(0), BN(1), phpe_prv[idx])); }
BIND(c06_phpe_enc) { size_t idx = IDX(2); need(K_PHPE, idx); RET(cp_phpe_enc(BN(0), BN(1), phpe_pub[idx])); }

/* generalised Paillier: all parameters are bn_t */
BIND(cp_ghpe_enc) { RET(cp_ghpe_enc(BN(0), BN(1), BN(2), (size_t)A(3))); }
BIND(cp_ghpe_dec) { RET(cp_ghpe_dec(BN(0), BN(1), BN(2), BN(3), (size_t)A(4))); }

/* subgroup Paillier */
BIND(c06_shpe_enc) { size_t idx = IDX(2); need(K_SHPE, idx); RET(cp_shpe_enc(BN(0), BN(1), shpe_pub[idx])); }
BIND(c06_shpe_enc_prv) { size_t idx = IDX(2); need(K_SHPE, idx); RET(cp_shpe_enc_prv(BN(0), BN(1), shpe_prv[idx])); }
BIND(c06_shpe_dec) { size_t idx = IDX(2); need(K_SHPE, idx); RET(cp_shpe_dec(BN(0), BN(1), shpe_prv[idx])); }

/* bn_mxp_crt(d, a, b, c, crt, sqr) with crt = {n, p, q, dp, dq, qi} taken from BN slots 4..9, sqr = A(10) */
BIND(c06_mxp_crt) {
	crt_t crt;
	memset(&crt, vs_poison, sizeof(crt));
	crt_new(crt);
	bn_copy(crt->n, BN(4)); bn_copy(crt->p, BN(5)); bn_copy(crt->q, BN(6));
	bn_copy(crt->dp, BN(7)); bn_copy(crt->dq, BN(8)); bn_copy(crt->qi, BN(9));
	bn_mxp_crt(BN(0), BN(1), BN(2), BN(3), crt, (int)A(10));
	crt_free(crt);
}

#endif

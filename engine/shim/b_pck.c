/* C04 / C12 on the embedding degrees other than 12: the explicit pairing variants and the final exponentiation of
 * the degree the build's pairing layer is wired for (RLC_GT_EMBED, include/relic_pc.h).  pc_map / pc_map_sim /
 * g1_* / g2_* / gt_* are bound degree-neutrally in b_pc.c; the cyclotomic routines fpN_* in b_fpx.c.
 * G1 slots are EP, G2 slots are EP2 / EP2V with sub = degree of the G2 field, GT slots are FPX with sub = k. */
#include "vs.h"

#if defined(WITH_PC) && defined(WITH_PP) && defined(WITH_EPX) && ALLOC == AUTO && FP_PRIME < 1536

#define FPB (RLC_FP_DIGS * sizeof(dig_t))
#define G2DEG ((int)(sizeof(g2_t) / (3 * FPB)))
#define P1(i) ((ep_st *)vs_get(c->a[i], VT_EP))
#define P1V(i) ((const ep_t *)vs_get(c->a[i], VT_EPV))
#define Q2(i) (*(g2_t *)vs_getp(c->a[i], VT_EP2, G2DEG))
#define Q2V(i) ((const g2_t *)vs_getp(c->a[i], VT_EP2V, G2DEG))
#define GTE(i) (*(gt_t *)vs_getx(c->a[i], VT_FPX, RLC_GT_EMBED))

#define MAP1(name) BIND(name) { name(GTE(0), P1(1), Q2(2)); }
#define MAPN(name) BIND(name) { name(GTE(0), P1V(1), Q2V(2), (int)A(3)); }
#define FEXP(name) BIND(name) { name(GTE(0), GTE(1)); }

#if RLC_GT_EMBED == 8
MAP1(pp_map_oatep_k8) MAPN(pp_map_sim_oatep_k8) FEXP(pp_exp_k8)
#elif RLC_GT_EMBED == 16
MAP1(pp_map_oatep_k16) MAPN(pp_map_sim_oatep_k16)
MAP1(pp_map_tatep_k16) MAPN(pp_map_sim_tatep_k16)
MAP1(pp_map_weilp_k16) MAPN(pp_map_sim_weilp_k16)
FEXP(pp_exp_k16)
#elif RLC_GT_EMBED == 18
MAP1(pp_map_oatep_k18) MAPN(pp_map_sim_oatep_k18)
MAP1(pp_map_tatep_k18) MAPN(pp_map_sim_tatep_k18)
MAP1(pp_map_weilp_k18) MAPN(pp_map_sim_weilp_k18)
FEXP(pp_exp_k18)
#elif RLC_GT_EMBED == 24
MAP1(pp_map_k24) MAPN(pp_map_sim_k24) FEXP(pp_exp_k24)
#elif RLC_GT_EMBED == 48
MAP1(pp_map_k48) MAPN(pp_map_sim_k48) FEXP(pp_exp_k48)
#endif

#if FP_PRIME == 569
/* embedding degree 54: no pairing layer, no curve type over Fp9; bare coordinates (engine/pcctx54.py) */
BIND(pp_map_k54) { pp_map_k54(FP54(0), P1(1), FP9(2), FP9(3)); }
BIND(pp_exp_k54) { pp_exp_k54(FP54(0), FP54(1)); }
#endif

/* which variants this build offers, as the property enumerates them */
BIND(info_pck) {
	RET(RLC_GT_EMBED); RET(G2DEG); RET(ep_curve_is_pairf()); RET(ep_curve_embed()); RET(ep_curve_frdim());
	RET(RLC_FP_BITS); RET(RLC_DIG); RET(RLC_WIDTH);
}

#endif

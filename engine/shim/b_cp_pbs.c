/* Bindings for the pairing-based, homomorphic and ring / extendable signature schemes of the CP module
 * (property C05, part B): cp_bls, cp_bbs, cp_zss, cp_cls/cli/clb, cp_pss/psb, cp_mpss/mpsb, cp_cmlhs, cp_mklhs,
 * cp_ers, cp_smlers, cp_etrs.
 * Slot conventions as in b_pc.c: G1 = EP, G2 = EP2 (sub 2), GT = FPX (sub RLC_GT_EMBED); arrays use EPV / EP2V / FPXV /
 * BNV; byte strings and NUL-terminated strings use BUF (exact size, so ASan sees any over-read).
 * The multi-step honest flows of the homomorphic and ring schemes are composite bindings written after the
 * documented usage (test_cp.c) - they only produce honest material; every verifier is bound one-to-one. */
#include "vs.h"

#if defined(WITH_CP) && defined(WITH_PC) && defined(WITH_PP) && defined(WITH_EC) && defined(WITH_MD) && ALLOC == AUTO

#define FPB (RLC_FP_DIGS * sizeof(dig_t))
#define G2DEG ((int)(sizeof(g2_t) / (3 * FPB)))

#define G1(i) ((ep_st *)vs_get(c->a[i], VT_EP))
#define G1V(i) ((g1_t *)vs_get(c->a[i], VT_EPV))
#define G2(i) (*(g2_t *)vs_getp(c->a[i], VT_EP2, G2DEG))
#define G2V(i) ((g2_t *)vs_getp(c->a[i], VT_EP2V, G2DEG))
#define GT(i) (*(gt_t *)vs_getx(c->a[i], VT_FPX, RLC_GT_EMBED))
#define GTV(i) ((gt_t *)vs_getx(c->a[i], VT_FPXV, RLC_GT_EMBED))
#define BNV(i) ((bn_t *)vs_get(c->a[i], VT_BNV))
#define NEED(i, n) do { if (vs_slot_at(c->a[i])->len < (size_t)(n)) vs_die("cp_pbs: vector/buffer slot too short"); } while (0)
#define MAXV 16

BIND(info_cp_pbs) {
	RET(RLC_MD_LEN); RET(sizeof(dig_t)); RET(RLC_TERMS); RET(pc_param_level());
#ifdef WITH_MPC
	RET(1);
#else
	RET(0);
#endif
	RET(RLC_BN_SIZE * sizeof(dig_t)); RET(RLC_PC_BYTES);
#if EC_CUR == PRIME
	RET(1);
#else
	RET(0);
#endif
}
BIND(pbs_md_map) { uint8_t h[RLC_MD_LEN]; md_map(h, BUF(0), BUFLEN(0)); ret_blob(c, h, RLC_MD_LEN); }
BIND(pbs_ecdsa_ver) { RET(cp_ecdsa_ver(BN(0), BN(1), BUF(2), BUFLEN(2), (int)A(3), G1(4))); }

/* ------------------------------------------------------------------------------------------ BLS / BB / ZSS */

BIND(cp_bls_gen) { RET(cp_bls_gen(BN(0), G2(1))); }
BIND(cp_bls_sig) { RET(cp_bls_sig(G1(0), BUF(1), BUFLEN(1), BN(2))); }
BIND(cp_bls_ver) { RET(cp_bls_ver(G1(0), BUF(1), BUFLEN(1), G2(2))); }

BIND(cp_bbs_gen) { RET(cp_bbs_gen(BN(0), G2(1), GT(2))); }
BIND(cp_bbs_sig) { RET(cp_bbs_sig(G1(0), BUF(1), BUFLEN(1), (int)A(2), BN(3))); }
BIND(cp_bbs_ver) { RET(cp_bbs_ver(G1(0), BUF(1), BUFLEN(1), (int)A(2), G2(3), GT(4))); }

BIND(cp_zss_gen) { RET(cp_zss_gen(BN(0), G1(1), GT(2))); }
BIND(cp_zss_sig) { RET(cp_zss_sig(G2(0), BUF(1), BUFLEN(1), (int)A(2), BN(3))); }
BIND(cp_zss_ver) { RET(cp_zss_ver(G2(0), BUF(1), BUFLEN(1), (int)A(2), G1(3), GT(4))); }

/* ------------------------------------------------------------------------------------------ CL signatures */

BIND(cp_cls_gen) { RET(cp_cls_gen(BN(0), BN(1), G2(2), G2(3))); }
BIND(cp_cls_sig) { RET(cp_cls_sig(G1(0), G1(1), G1(2), BUF(3), BUFLEN(3), BN(4), BN(5))); }
BIND(cp_cls_ver) { RET(cp_cls_ver(G1(0), G1(1), G1(2), BUF(3), BUFLEN(3), G2(4), G2(5))); }

BIND(cp_cli_gen) { RET(cp_cli_gen(BN(0), BN(1), BN(2), G2(3), G2(4), G2(5))); }
BIND(cp_cli_sig) {
	RET(cp_cli_sig(G1(0), G1(1), G1(2), G1(3), G1(4), BUF(5), BUFLEN(5), BN(6), BN(7), BN(8), BN(9)));
}
BIND(cp_cli_ver) {
	RET(cp_cli_ver(G1(0), G1(1), G1(2), G1(3), G1(4), BUF(5), BUFLEN(5), BN(6), G2(7), G2(8), G2(9)));
}

/* cp_clb_gen: 0 t 1 u 2 vV(l-1) 3 x 4 y 5 zV(l-1) 6 l */
BIND(cp_clb_gen) {
	size_t l = (size_t)A(6);
	NEED(2, l - 1); NEED(5, l - 1);
	RET(cp_clb_gen(BN(0), BN(1), BNV(2), G2(3), G2(4), G2V(5), l));
}
/* cp_clb_sig: 0 a 1 AV 2 b 3 BV 4 c 5 t 6 u 7 vV 8 l 9.. message BUF slots (l of them) */
BIND(cp_clb_sig) {
	size_t l = (size_t)A(8), ls[MAXV];
	const uint8_t *ms[MAXV];
	if (l > 7 || c->na != (int)(9 + l)) vs_die("cp_clb_sig: bad arity");
	NEED(1, l - 1); NEED(3, l - 1); NEED(7, l - 1);
	for (size_t i = 0; i < l; i++) { ms[i] = BUF(9 + i); ls[i] = BUFLEN(9 + i); }
	RET(cp_clb_sig(G1(0), G1V(1), G1(2), G1V(3), G1(4), ms, ls, BN(5), BN(6), (const bn_t *)BNV(7), l));
}
/* cp_clb_ver: 0 a 1 AV 2 b 3 BV 4 c 5 x 6 y 7 zV 8 l 9.. message BUF slots */
BIND(cp_clb_ver) {
	size_t l = (size_t)A(8), ls[MAXV];
	const uint8_t *ms[MAXV];
	if (l > 7 || c->na != (int)(9 + l)) vs_die("cp_clb_ver: bad arity");
	NEED(1, l - 1); NEED(3, l - 1); NEED(7, l - 1);
	for (size_t i = 0; i < l; i++) { ms[i] = BUF(9 + i); ls[i] = BUFLEN(9 + i); }
	RET(cp_clb_ver(G1(0), (const g1_t *)G1V(1), G1(2), (const g1_t *)G1V(3), G1(4), ms, ls, G2(5), G2(6),
			(const g2_t *)G2V(7), l));
}

/* ------------------------------------------------------------------------------------------ PS signatures */

BIND(cp_pss_gen) { RET(cp_pss_gen(BN(0), BN(1), G2(2), G2(3), G2(4))); }
BIND(cp_pss_sig) { RET(cp_pss_sig(G1(0), G1(1), BN(2), BN(3), BN(4))); }
BIND(cp_pss_ver) { RET(cp_pss_ver(G1(0), G1(1), BN(2), G2(3), G2(4), G2(5))); }

/* cp_psb_gen: 0 r 1 sV 2 g 3 x 4 yV 5 l */
BIND(cp_psb_gen) { NEED(1, A(5)); NEED(4, A(5)); RET(cp_psb_gen(BN(0), BNV(1), G2(2), G2(3), G2V(4), (size_t)A(5))); }
/* cp_psb_sig: 0 a 1 b 2 msV 3 r 4 sV 5 l */
BIND(cp_psb_sig) {
	NEED(2, A(5)); NEED(4, A(5));
	RET(cp_psb_sig(G1(0), G1(1), (const bn_t *)BNV(2), BN(3), (const bn_t *)BNV(4), (size_t)A(5)));
}
/* cp_psb_ver: 0 a 1 b 2 msV 3 g 4 x 5 yV 6 l */
BIND(cp_psb_ver) {
	NEED(2, A(6)); NEED(5, A(6));
	RET(cp_psb_ver(G1(0), G1(1), (const bn_t *)BNV(2), G2(3), G2(4), (const g2_t *)G2V(5), (size_t)A(6)));
}

#ifdef WITH_MPC
/* The MPC variants consume multiplication / pairing triples; they are produced here exactly as the documented
 * usage does (mpc_mt_gen, pc_map_tri, gt_exp_gen for the GT parts) from the library DRBG. */
typedef struct {
	mt_t tri[3][2];
	pt_t t[2];
	gt_t e[2], f[2];
} pbs_tris;

static void pbs_mk_tris(pbs_tris *T) {
	bn_t n;
	bn_null(n);
	bn_new(n);
	g1_get_ord(n);
	for (int i = 0; i < 2; i++) {
		for (int k = 0; k < 3; k++) { mt_null(T->tri[k][i]); mt_new(T->tri[k][i]); }
		pt_null(T->t[i]); pt_new(T->t[i]);
		gt_null(T->e[i]); gt_new(T->e[i]);
		gt_null(T->f[i]); gt_new(T->f[i]);
	}
	pc_map_tri(T->t);
	mpc_mt_gen(T->tri[0], n);
	mpc_mt_gen(T->tri[1], n);
	mpc_mt_gen(T->tri[2], n);
	gt_exp_gen(T->e[0], T->tri[2][0]->b);
	gt_exp_gen(T->e[1], T->tri[2][1]->b);
	gt_exp_gen(T->f[0], T->tri[2][0]->c);
	gt_exp_gen(T->f[1], T->tri[2][1]->c);
	T->tri[2][0]->bt = &T->e[0];
	T->tri[2][1]->bt = &T->e[1];
	T->tri[2][0]->ct = &T->f[0];
	T->tri[2][1]->ct = &T->f[1];
	bn_free(n);
}

/* cp_mpss_gen: 0 rV(2) 1 sV(2) 2 h 3 xV(2) 4 yV(2) */
BIND(cp_mpss_gen) {
	NEED(0, 2); NEED(1, 2); NEED(3, 2); NEED(4, 2);
	RET(cp_mpss_gen(BNV(0), BNV(1), G2(2), G2V(3), G2V(4)));
}
BIND(cp_mpss_bct) { NEED(0, 2); NEED(1, 2); RET(cp_mpss_bct(G2V(0), G2V(1))); }
/* cp_mpss_sig: 0 a 1 bV(2) 2 mV(2) 3 rV(2) 4 sV(2) */
BIND(cp_mpss_sig) {
	pbs_tris *T = (pbs_tris *)vs_alloc_poisoned(sizeof(pbs_tris));
	NEED(1, 2); NEED(2, 2); NEED(3, 2); NEED(4, 2);
	pbs_mk_tris(T);
	RET(cp_mpss_sig(G1(0), G1V(1), (const bn_t *)BNV(2), (const bn_t *)BNV(3), (const bn_t *)BNV(4),
			(const mt_t *)T->tri[0], (const mt_t *)T->tri[1]));
	free(T);
}
/* cp_mpss_ver: 0 e(out) 1 a 2 bV(2) 3 mV(2) 4 h 5 x 6 y ; returns rc, gt_is_unity(e) */
BIND(cp_mpss_ver) {
	pbs_tris *T = (pbs_tris *)vs_alloc_poisoned(sizeof(pbs_tris));
	NEED(2, 2); NEED(3, 2);
	pbs_mk_tris(T);
	RET(cp_mpss_ver(GT(0), G1(1), (const g1_t *)G1V(2), (const bn_t *)BNV(3), G2(4), G2(5), G2(6),
			(const mt_t *)T->tri[2], (const pt_t *)T->t));
	RET(gt_is_unity(GT(0)));
	free(T);
}
/* cp_mpsb_gen: 0 rV(2) 1 sV(2l) 2 h 3 xV(2) 4 yV(2l) 5 l */
BIND(cp_mpsb_gen) {
	size_t l = (size_t)A(5);
	NEED(0, 2); NEED(1, 2 * l); NEED(3, 2); NEED(4, 2 * l);
	RET(cp_mpsb_gen(BNV(0), (bn_t (*)[2])BNV(1), G2(2), G2V(3), (g2_t (*)[2])G2V(4), l));
}
BIND(cp_mpsb_bct) {
	size_t l = (size_t)A(2);
	NEED(0, 2); NEED(1, 2 * l);
	RET(cp_mpsb_bct(G2V(0), (g2_t (*)[2])G2V(1), l));
}
/* cp_mpsb_sig: 0 a 1 bV(2) 2 mV(2l) 3 rV(2) 4 sV(2l) 5 l */
BIND(cp_mpsb_sig) {
	size_t l = (size_t)A(5);
	pbs_tris *T = (pbs_tris *)vs_alloc_poisoned(sizeof(pbs_tris));
	NEED(1, 2); NEED(2, 2 * l); NEED(3, 2); NEED(4, 2 * l);
	pbs_mk_tris(T);
	RET(cp_mpsb_sig(G1(0), G1V(1), (const bn_t (*)[2])BNV(2), (const bn_t *)BNV(3), (const bn_t (*)[2])BNV(4),
			(const mt_t *)T->tri[0], (const mt_t *)T->tri[1], l));
	free(T);
}
/* cp_mpsb_ver: 0 e(out) 1 a 2 bV(2) 3 mV(2l) 4 h 5 x 6 yV(2l) 7 vV(2l) or NULL 8 l ; returns rc, gt_is_unity(e) */
BIND(cp_mpsb_ver) {
	size_t l = (size_t)A(8);
	pbs_tris *T = (pbs_tris *)vs_alloc_poisoned(sizeof(pbs_tris));
	NEED(2, 2); NEED(3, 2 * l); NEED(6, 2 * l);
	const bn_t (*v)[2] = NULL;
	if (A(7) != (uint64_t)-1) { NEED(7, 2 * l); v = (const bn_t (*)[2])BNV(7); }
	pbs_mk_tris(T);
	RET(cp_mpsb_ver(GT(0), G1(1), (const g1_t *)G1V(2), (const bn_t (*)[2])BNV(3), G2(4), G2(5),
			(const g2_t (*)[2])G2V(6), v, (const mt_t *)T->tri[2], (const pt_t *)T->t, l));
	RET(gt_is_unity(GT(0)));
	free(T);
}
#endif /* WITH_MPC */

/* ------------------------------------------------------------------------------------------ strings */

/* split a BUF of NUL-terminated strings into pointers; the last string must be terminated inside the buffer */
static size_t pbs_strings(vs_call *c, int arg, const char **out, size_t max) {
	const char *b = (const char *)BUF(arg);
	size_t len = BUFLEN(arg), n = 0, i = 0;
	if (len == 0 || b[len - 1] != 0) vs_die("cp_pbs: string buffer not NUL-terminated");
	while (i < len) {
		if (n >= max) vs_die("cp_pbs: too many strings");
		out[n++] = b + i;
		i += strlen(b + i) + 1;
	}
	return n;
}
static const char *pbs_string(vs_call *c, int arg) {
	const char *b = (const char *)BUF(arg);
	size_t len = BUFLEN(arg);
	if (len == 0 || b[len - 1] != 0) vs_die("cp_pbs: string buffer not NUL-terminated");
	return b;
}

/* ------------------------------------------------------------------------------------------ CMLHS */

BIND(cp_cmlhs_init) { RET(cp_cmlhs_init(G1(0))); }

/* cmlhs_honest: S signers, L labels (label l = l), coefficients f[S][L], messages msgs[S][L]:
 *  0 h(in) 1 r(out) 2 s(out) 3 sigV(S out) 4 zV(S out) 5 aV(S out) 6 cV(S out) 7 data 8 hsV(S*L out) 9 f(BUF S*L dig_t)
 *  10 yV(S out) 11 pkV(S out) 12 msgs(BNV S*L) 13 packed S | L<<8 | bls<<16 */
BIND(cmlhs_honest) {
	size_t S = A(13) & 0xFF, L = (A(13) >> 8) & 0xFF;
	int bls = (int)((A(13) >> 16) & 1);
	const char *data = pbs_string(c, 7);
	const dig_t *f = (const dig_t *)BUF(9);
	bn_t x[MAXV], sk, d;
	g1_t a[MAXV], cc[MAXV], r[MAXV], tr;
	g2_t s[MAXV], ts;
	uint8_t k[RLC_MD_LEN];
	if (S == 0 || L == 0 || S > MAXV || L > MAXV) vs_die("cmlhs_honest: bad sizes");
	NEED(3, S); NEED(4, S); NEED(5, S); NEED(6, S); NEED(8, S * L); NEED(9, S * L * sizeof(dig_t)); NEED(10, S); NEED(11, S);
	NEED(12, S * L);
	bn_null(sk); bn_null(d); bn_new(sk); bn_new(d);
	g1_null(tr); g1_new(tr); g2_null(ts); g2_new(ts);
	for (size_t l = 0; l < L; l++) {
		bn_null(x[l]); bn_new(x[l]);
		g1_null(a[l]); g1_new(a[l]); g1_null(cc[l]); g1_new(cc[l]); g1_null(r[l]); g1_new(r[l]);
		g2_null(s[l]); g2_new(s[l]);
	}
	g1_set_infty(G1(1));
	g2_set_infty(G2(2));
	for (size_t j = 0; j < S; j++) {
		RET(cp_cmlhs_gen(x, GTV(8) + j * L, L, k, RLC_MD_LEN, sk, G2V(11)[j], d, G2V(10)[j], bls));
		for (size_t l = 0; l < L; l++) {
			RET(cp_cmlhs_sig(G1V(3)[j], G2V(4)[j], a[l], cc[l], r[l], s[l], BNV(12)[j * L + l], data, (int)l, x[l], G1(0),
					k, RLC_MD_LEN, d, sk, bls));
		}
		RET(cp_cmlhs_fun(G1V(5)[j], G1V(6)[j], (const g1_t *)a, (const g1_t *)cc, f + j * L, L));
		RET(cp_cmlhs_evl(tr, ts, (const g1_t *)r, (const g2_t *)s, f + j * L, L));
		g1_add(G1(1), G1(1), tr);
		g2_add(G2(2), G2(2), ts);
	}
	g1_norm(G1(1), G1(1));
	g2_norm(G2(2), G2(2));
}

typedef struct {
	size_t S, L;
	int bls;
	const gt_t *hs[MAXV];
	const dig_t *f[MAXV];
	size_t flen[MAXV];
	const int *label;
} pbs_lhs;

/* label: BUF of int32; hsV: FPXV S*L; f: BUF S*L dig_t; flen: BUF of S uint32 */
static void pbs_lhs_args(vs_call *c, pbs_lhs *a, uint64_t packed, int alabel, int ahs, int af, int aflen) {
	a->S = packed & 0xFF; a->L = (packed >> 8) & 0xFF; a->bls = (int)((packed >> 16) & 1);
	if (a->S == 0 || a->L == 0 || a->S > MAXV || a->L > MAXV) vs_die("cmlhs: bad sizes");
	NEED(af, a->S * a->L * sizeof(dig_t)); NEED(aflen, a->S * 4);
	if (ahs >= 0) NEED(ahs, a->S * a->L);
	const uint8_t *fl = BUF(aflen);
	size_t fmax = 0;
	for (size_t i = 0; i < a->S; i++) {
		uint32_t v;
		memcpy(&v, fl + 4 * i, 4);
		if (v > a->L) vs_die("cmlhs: flen > L");
		a->flen[i] = v;
		if (v > fmax) fmax = v;
		a->f[i] = (const dig_t *)BUF(af) + i * a->L;
		a->hs[i] = ahs >= 0 ? (const gt_t *)(GTV(ahs) + i * a->L) : NULL;
	}
	a->label = NULL;
	if (alabel >= 0) {
		NEED(alabel, fmax * sizeof(int));
		a->label = (const int *)BUF(alabel);
		for (size_t j = 0; j < fmax; j++) {
			if (a->label[j] < 0 || (size_t)a->label[j] >= a->L) vs_die("cmlhs: label out of range");
		}
	}
}

/* cp_cmlhs_ver: 0 r 1 s 2 sigV 3 zV 4 aV 5 cV 6 m 7 data 8 h 9 label 10 hsV 11 f 12 flen 13 yV 14 pkV 15 packed */
BIND(cp_cmlhs_ver) {
	pbs_lhs a;
	pbs_lhs_args(c, &a, A(15), 9, 10, 11, 12);
	NEED(2, a.S); NEED(3, a.S); NEED(4, a.S); NEED(5, a.S); NEED(13, a.S); NEED(14, a.S);
	RET(cp_cmlhs_ver(G1(0), G2(1), (const g1_t *)G1V(2), (const g2_t *)G2V(3), (const g1_t *)G1V(4),
			(const g1_t *)G1V(5), BN(6), pbs_string(c, 7), G1(8), a.label, a.hs, a.f, a.flen, (const g2_t *)G2V(13),
			(const g2_t *)G2V(14), a.S, a.bls));
}
/* cp_cmlhs_off: 0 vk(out) 1 h 2 label 3 hsV 4 f 5 flen 6 packed */
BIND(cp_cmlhs_off) {
	pbs_lhs a;
	pbs_lhs_args(c, &a, A(6), 2, 3, 4, 5);
	cp_cmlhs_off(GT(0), G1(1), a.label, a.hs, a.f, a.flen, a.S);
}
/* cp_cmlhs_onv: 0 r 1 s 2 sigV 3 zV 4 aV 5 cV 6 m 7 data 8 h 9 vk 10 yV 11 pkV 12 packed(S | . | bls<<16) */
BIND(cp_cmlhs_onv) {
	size_t S = A(12) & 0xFF;
	int bls = (int)((A(12) >> 16) & 1);
	NEED(2, S); NEED(3, S); NEED(4, S); NEED(5, S); NEED(10, S); NEED(11, S);
	RET(cp_cmlhs_onv(G1(0), G2(1), (const g1_t *)G1V(2), (const g2_t *)G2V(3), (const g1_t *)G1V(4),
			(const g1_t *)G1V(5), BN(6), pbs_string(c, 7), G1(8), GT(9), (const g2_t *)G2V(10), (const g2_t *)G2V(11),
			S, bls));
}

/* ------------------------------------------------------------------------------------------ MKLHS */

/* mklhs_honest: 0 sig(out) 1 muV(S out) 2 pkV(S out) 3 data 4 ids(S strings) 5 tags(L strings) 6 f(BUF S*L dig_t)
 *  7 msgs(BNV S*L) 8 packed S | L<<8 */
BIND(mklhs_honest) {
	size_t S = A(8) & 0xFF, L = (A(8) >> 8) & 0xFF;
	const char *data = pbs_string(c, 3), *ids[MAXV], *tags[MAXV];
	const dig_t *f = (const dig_t *)BUF(6);
	bn_t sk;
	g1_t sg[MAXV], t;
	if (S == 0 || L == 0 || S > MAXV || L > MAXV) vs_die("mklhs_honest: bad sizes");
	if (pbs_strings(c, 4, ids, MAXV) != S || pbs_strings(c, 5, tags, MAXV) != L) vs_die("mklhs_honest: string counts");
	NEED(1, S); NEED(2, S); NEED(6, S * L * sizeof(dig_t)); NEED(7, S * L);
	bn_null(sk); bn_new(sk);
	g1_null(t); g1_new(t);
	for (size_t l = 0; l < L; l++) { g1_null(sg[l]); g1_new(sg[l]); }
	g1_set_infty(G1(0));
	for (size_t j = 0; j < S; j++) {
		RET(cp_mklhs_gen(sk, G2V(2)[j]));
		for (size_t l = 0; l < L; l++) {
			RET(cp_mklhs_sig(sg[l], BNV(7)[j * L + l], data, ids[j], tags[l], sk));
		}
		RET(cp_mklhs_fun(BNV(1)[j], (const bn_t *)(BNV(7) + j * L), f + j * L, L));
		RET(cp_mklhs_evl(t, (const g1_t *)sg, f + j * L, L));
		g1_add(G1(0), G1(0), t);
	}
	g1_norm(G1(0), G1(0));
}

static void pbs_mk_args(vs_call *c, uint64_t packed, int af, int aflen, size_t *S, size_t *L, const dig_t **f,
		size_t *flen) {
	*S = packed & 0xFF; *L = (packed >> 8) & 0xFF;
	if (*S == 0 || *L == 0 || *S > MAXV || *L > MAXV) vs_die("mklhs: bad sizes");
	NEED(af, *S * *L * sizeof(dig_t)); NEED(aflen, *S * 4);
	const uint8_t *fl = BUF(aflen);
	for (size_t i = 0; i < *S; i++) {
		uint32_t v;
		memcpy(&v, fl + 4 * i, 4);
		if (v > *L) vs_die("mklhs: flen > L");
		flen[i] = v;
		f[i] = (const dig_t *)BUF(af) + i * *L;
	}
}

/* cp_mklhs_ver: 0 sig 1 m 2 muV 3 data 4 ids 5 tags 6 f 7 flen 8 pkV 9 packed S | L<<8 */
BIND(cp_mklhs_ver) {
	size_t S, L, flen[MAXV];
	const dig_t *f[MAXV];
	const char *ids[MAXV], *tags[MAXV];
	pbs_mk_args(c, A(9), 6, 7, &S, &L, f, flen);
	if (pbs_strings(c, 4, ids, MAXV) != S || pbs_strings(c, 5, tags, MAXV) != L) vs_die("cp_mklhs_ver: string counts");
	NEED(2, S); NEED(8, S);
	RET(cp_mklhs_ver(G1(0), BN(1), (const bn_t *)BNV(2), pbs_string(c, 3), ids, tags, f, flen, (const g2_t *)G2V(8), S));
}
/* cp_mklhs_off: 0 hV(S out) 1 ft(BUF S dig_t out) 2 ids 3 tags 4 f 5 flen 6 packed */
BIND(cp_mklhs_off) {
	size_t S, L, flen[MAXV];
	const dig_t *f[MAXV];
	const char *ids[MAXV], *tags[MAXV];
	pbs_mk_args(c, A(6), 4, 5, &S, &L, f, flen);
	if (pbs_strings(c, 2, ids, MAXV) != S || pbs_strings(c, 3, tags, MAXV) != L) vs_die("cp_mklhs_off: string counts");
	NEED(0, S); NEED(1, S * sizeof(dig_t));
	RET(cp_mklhs_off(G1V(0), (dig_t *)BUF(1), ids, tags, f, flen, S));
}
/* cp_mklhs_onv: 0 sig 1 m 2 muV 3 data 4 ids 5 hV 6 ft 7 pkV 8 S */
BIND(cp_mklhs_onv) {
	size_t S = (size_t)A(8);
	const char *ids[MAXV];
	if (S == 0 || S > MAXV || pbs_strings(c, 4, ids, MAXV) != S) vs_die("cp_mklhs_onv: string counts");
	NEED(2, S); NEED(5, S); NEED(6, S * sizeof(dig_t)); NEED(7, S);
	RET(cp_mklhs_onv(G1(0), BN(1), (const bn_t *)BNV(2), pbs_string(c, 3), ids, (const g1_t *)G1V(5),
			(const dig_t *)BUF(6), (const g2_t *)G2V(7), S));
}

/* ------------------------------------------------------------------------------------------ ring signatures */
#if EC_CUR == PRIME

#define ECV(i) ((ec_t *)vs_get(c->a[i], VT_EPV))
#define EC(i) ((ep_st *)vs_get(c->a[i], VT_EP))

/* A ring travels as parallel vectors: hV, pkV (EPV, n entries), cV, rV (BNV, 2n entries: c[0], c[1] of member 0, ...);
 * SMLERS adds tauV (EPV n), c2V, r2V (BNV 2n); ETRS adds ryV (BNV n). The bindings copy them into the library's
 * structs (heap, exact size) and back. */
static void *pbs_zalloc(size_t n) { void *p = vs_alloc_poisoned(n ? n : 1); return p; }

static ers_t *pbs_ers_alloc(size_t n) {
	ers_t *R = (ers_t *)pbs_zalloc(n * sizeof(ers_t));
	for (size_t i = 0; i < n; i++) {
		ec_null(R[i]->h); ec_new(R[i]->h); ec_null(R[i]->pk); ec_new(R[i]->pk);
		ec_set_infty(R[i]->h); ec_set_infty(R[i]->pk);
		for (int k = 0; k < 2; k++) { bn_null(R[i]->c[k]); bn_new(R[i]->c[k]); bn_null(R[i]->r[k]); bn_new(R[i]->r[k]); }
	}
	return R;
}
static void pbs_ers_load(ers_st *e, size_t i, ec_t *h, ec_t *pk, bn_t *cv, bn_t *rv) {
	ec_copy(e->h, h[i]); ec_copy(e->pk, pk[i]);
	for (int k = 0; k < 2; k++) { bn_copy(e->c[k], cv[2 * i + k]); bn_copy(e->r[k], rv[2 * i + k]); }
}
static void pbs_ers_store(const ers_st *e, size_t i, ec_t *h, ec_t *pk, bn_t *cv, bn_t *rv) {
	ec_copy(h[i], e->h); ec_copy(pk[i], e->pk);
	for (int k = 0; k < 2; k++) { bn_copy(cv[2 * i + k], e->c[k]); bn_copy(rv[2 * i + k], e->r[k]); }
}

BIND(cp_ers_gen) { RET(cp_ers_gen(EC(0))); }
BIND(cp_ers_gen_key) { RET(cp_ers_gen_key(BN(0), EC(1))); }

/* ers_honest: sign with a fresh key, then extend n-1 times with fresh keys.
 *  0 pp(out) 1 td(out) 2 hV 3 pkV 4 cV 5 rV (out, n / 2n) 6 msg 7 n 8 skV(BNV n out) */
BIND(ers_honest) {
	size_t n = (size_t)A(7), size = 1;
	if (n == 0 || n > MAXV) vs_die("ers_honest: bad ring size");
	NEED(2, n); NEED(3, n); NEED(4, 2 * n); NEED(5, 2 * n); NEED(8, n);
	ers_t *R = pbs_ers_alloc(n);
	ec_t pk[MAXV];
	RET(cp_ers_gen(EC(0)));
	for (size_t i = 0; i < n; i++) { ec_null(pk[i]); ec_new(pk[i]); RET(cp_ers_gen_key(BNV(8)[i], pk[i])); }
	RET(cp_ers_sig(BN(1), R[0], BUF(6), BUFLEN(6), BNV(8)[0], pk[0], EC(0)));
	for (size_t i = 1; i < n; i++) RET(cp_ers_ext(BN(1), R, &size, BUF(6), BUFLEN(6), pk[i], EC(0)));
	RET(size);
	for (size_t i = 0; i < n; i++) pbs_ers_store(R[i], i, ECV(2), ECV(3), BNV(4), BNV(5));
	free(R);
}
/* cp_ers_ver: 0 td 1 hV 2 pkV 3 cV 4 rV 5 size 6 msg 7 pp */
BIND(cp_ers_ver) {
	size_t n = (size_t)A(5);
	if (n > MAXV) vs_die("cp_ers_ver: bad ring size");
	NEED(1, n); NEED(2, n); NEED(3, 2 * n); NEED(4, 2 * n);
	ers_t *R = pbs_ers_alloc(n);
	for (size_t i = 0; i < n; i++) pbs_ers_load(R[i], i, ECV(1), ECV(2), BNV(3), BNV(4));
	int v = cp_ers_ver(BN(0), (const ers_t *)R, n, BUF(6), BUFLEN(6), EC(7));
	free(R);
	RET(v);
}
/* cp_ers_ext: extend a (possibly harness-made) ring by one member: 0 td(in/out) 1 hV 2 pkV 3 cV 4 rV (n+1 / 2n+2 entries)
 *  5 size 6 msg 7 pk 8 pp ; returns rc, new size */
BIND(cp_ers_ext) {
	size_t n = (size_t)A(5), size = n;
	if (n + 1 > MAXV) vs_die("cp_ers_ext: bad ring size");
	NEED(1, n + 1); NEED(2, n + 1); NEED(3, 2 * n + 2); NEED(4, 2 * n + 2);
	ers_t *R = pbs_ers_alloc(n + 1);
	for (size_t i = 0; i < n; i++) pbs_ers_load(R[i], i, ECV(1), ECV(2), BNV(3), BNV(4));
	int rc = cp_ers_ext(BN(0), R, &size, BUF(6), BUFLEN(6), EC(7), EC(8));
	for (size_t i = 0; i < size && i < n + 1; i++) pbs_ers_store(R[i], i, ECV(1), ECV(2), BNV(3), BNV(4));
	free(R);
	RET(rc); RET(size);
}

static smlers_t *pbs_sml_alloc(size_t n) {
	smlers_t *R = (smlers_t *)pbs_zalloc(n * sizeof(smlers_t));
	for (size_t i = 0; i < n; i++) {
		ers_st *e = R[i]->sig;
		ec_null(e->h); ec_new(e->h); ec_null(e->pk); ec_new(e->pk); ec_null(R[i]->tau); ec_new(R[i]->tau);
		ec_set_infty(e->h); ec_set_infty(e->pk); ec_set_infty(R[i]->tau);
		for (int k = 0; k < 2; k++) {
			bn_null(e->c[k]); bn_new(e->c[k]); bn_null(e->r[k]); bn_new(e->r[k]);
			bn_null(R[i]->c[k]); bn_new(R[i]->c[k]); bn_null(R[i]->r[k]); bn_new(R[i]->r[k]);
		}
	}
	return R;
}

/* smlers_honest: 0 pp 1 td 2 hV 3 pkV 4 cV 5 rV 6 tauV 7 c2V 8 r2V (outs) 9 msg 10 n */
BIND(smlers_honest) {
	size_t n = (size_t)A(10), size = 1;
	if (n == 0 || n > MAXV) vs_die("smlers_honest: bad ring size");
	NEED(2, n); NEED(3, n); NEED(4, 2 * n); NEED(5, 2 * n); NEED(6, n); NEED(7, 2 * n); NEED(8, 2 * n);
	smlers_t *R = pbs_sml_alloc(n);
	ec_t pk[MAXV];
	bn_t sk[MAXV];
	RET(cp_ers_gen(EC(0)));
	for (size_t i = 0; i < n; i++) {
		ec_null(pk[i]); ec_new(pk[i]); bn_null(sk[i]); bn_new(sk[i]);
		RET(cp_ers_gen_key(sk[i], pk[i]));
	}
	RET(cp_smlers_sig(BN(1), R[0], BUF(9), BUFLEN(9), sk[0], pk[0], EC(0)));
	for (size_t i = 1; i < n; i++) RET(cp_smlers_ext(BN(1), R, &size, BUF(9), BUFLEN(9), pk[i], EC(0)));
	RET(size);
	for (size_t i = 0; i < n; i++) {
		pbs_ers_store(R[i]->sig, i, ECV(2), ECV(3), BNV(4), BNV(5));
		ec_copy(ECV(6)[i], R[i]->tau);
		for (int k = 0; k < 2; k++) { bn_copy(BNV(7)[2 * i + k], R[i]->c[k]); bn_copy(BNV(8)[2 * i + k], R[i]->r[k]); }
	}
	free(R);
}
/* cp_smlers_ver: 0 td 1 hV 2 pkV 3 cV 4 rV 5 tauV 6 c2V 7 r2V 8 size 9 msg 10 pp */
BIND(cp_smlers_ver) {
	size_t n = (size_t)A(8);
	if (n > MAXV) vs_die("cp_smlers_ver: bad ring size");
	NEED(1, n); NEED(2, n); NEED(3, 2 * n); NEED(4, 2 * n); NEED(5, n); NEED(6, 2 * n); NEED(7, 2 * n);
	smlers_t *R = pbs_sml_alloc(n);
	for (size_t i = 0; i < n; i++) {
		pbs_ers_load(R[i]->sig, i, ECV(1), ECV(2), BNV(3), BNV(4));
		ec_copy(R[i]->tau, ECV(5)[i]);
		for (int k = 0; k < 2; k++) { bn_copy(R[i]->c[k], BNV(6)[2 * i + k]); bn_copy(R[i]->r[k], BNV(7)[2 * i + k]); }
	}
	int v = cp_smlers_ver(BN(0), R, n, BUF(9), BUFLEN(9), EC(10));
	free(R);
	RET(v);
}

static etrs_t *pbs_etrs_alloc(size_t n) {
	etrs_t *R = (etrs_t *)pbs_zalloc(n * sizeof(etrs_t));
	for (size_t i = 0; i < n; i++) {
		bn_null(R[i]->y); bn_new(R[i]->y);
		ec_null(R[i]->h); ec_new(R[i]->h); ec_null(R[i]->pk); ec_new(R[i]->pk);
		ec_set_infty(R[i]->h); ec_set_infty(R[i]->pk);
		for (int k = 0; k < 2; k++) { bn_null(R[i]->c[k]); bn_new(R[i]->c[k]); bn_null(R[i]->r[k]); bn_new(R[i]->r[k]); }
	}
	return R;
}

/* etrs_honest: sign (max extension slots), join nuni further real signers (cp_etrs_uni), extend next times.
 *  0 pp 1 tdV(max) 2 yV(max) 3 ryV(n) 4 hV 5 pkV 6 cV 7 rV (outs) 8 msg 9 packed max | nuni<<8 | next<<16 */
BIND(etrs_honest) {
	size_t max = A(9) & 0xFF, nuni = (A(9) >> 8) & 0xFF, next = (A(9) >> 16) & 0xFF, n = 1 + nuni + next, size = 1;
	if (max == 0 || max > MAXV || n > MAXV || next > max) vs_die("etrs_honest: bad sizes");
	NEED(1, max); NEED(2, max); NEED(3, n); NEED(4, n); NEED(5, n); NEED(6, 2 * n); NEED(7, 2 * n);
	etrs_t *R = pbs_etrs_alloc(n);
	ec_t pk[MAXV];
	bn_t sk[MAXV];
	RET(cp_ers_gen(EC(0)));
	for (size_t i = 0; i < n; i++) {
		ec_null(pk[i]); ec_new(pk[i]); bn_null(sk[i]); bn_new(sk[i]);
		RET(cp_ers_gen_key(sk[i], pk[i]));
	}
	RET(cp_etrs_sig(BNV(1), BNV(2), max, R[0], BUF(8), BUFLEN(8), sk[0], pk[0], EC(0)));
	for (size_t i = 1; i <= nuni; i++) {
		RET(cp_etrs_uni((int)i, BNV(1), BNV(2), (int)max, R, &size, BUF(8), BUFLEN(8), sk[i], pk[i], EC(0)));
	}
	for (size_t i = 1 + nuni; i < n; i++) {
		RET(cp_etrs_ext(BNV(1), BNV(2), max, R, &size, BUF(8), BUFLEN(8), pk[i], EC(0)));
	}
	RET(size);
	for (size_t i = 0; i < n; i++) {
		bn_copy(BNV(3)[i], R[i]->y);
		ec_copy(ECV(4)[i], R[i]->h); ec_copy(ECV(5)[i], R[i]->pk);
		for (int k = 0; k < 2; k++) { bn_copy(BNV(6)[2 * i + k], R[i]->c[k]); bn_copy(BNV(7)[2 * i + k], R[i]->r[k]); }
	}
	free(R);
}
/* cp_etrs_ver: 0 thres 1 tdV 2 yV 3 packed off | max<<8 (entries off .. off+max-1 are passed) 4 ryV 5 hV 6 pkV 7 cV 8 rV
 *  9 size 10 msg 11 pp */
BIND(cp_etrs_ver) {
	size_t off = A(3) & 0xFF, max = (A(3) >> 8) & 0xFF, n = (size_t)A(9);
	if (n > MAXV) vs_die("cp_etrs_ver: bad ring size");
	NEED(1, off + max); NEED(2, off + max); NEED(4, n); NEED(5, n); NEED(6, n); NEED(7, 2 * n); NEED(8, 2 * n);
	etrs_t *R = pbs_etrs_alloc(n);
	for (size_t i = 0; i < n; i++) {
		bn_copy(R[i]->y, BNV(4)[i]);
		ec_copy(R[i]->h, ECV(5)[i]); ec_copy(R[i]->pk, ECV(6)[i]);
		for (int k = 0; k < 2; k++) { bn_copy(R[i]->c[k], BNV(7)[2 * i + k]); bn_copy(R[i]->r[k], BNV(8)[2 * i + k]); }
	}
	int v = cp_etrs_ver((size_t)A(0), (const bn_t *)(BNV(1) + off), (const bn_t *)(BNV(2) + off), max, (const etrs_t *)R, n,
			BUF(10), BUFLEN(10), EC(11));
	free(R);
	RET(v);
}

#endif /* EC_CUR == PRIME */

#endif

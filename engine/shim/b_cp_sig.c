/* Bindings for the signature protocols of the CP module that have a full Python reference (C05 part A):
 * RSA signatures (keys live in a small pool inside the shim, imported / exported as BN vectors), ECDSA, EC-Schnorr,
 * vBNN-IBS, proofs / signatures of knowledge of a discrete logarithm, Pedersen commitment.
 * EC public keys and points are EP slots (EC_CUR == PRIME: ec_t is ep_t). */
#include "vs.h"

#if defined(WITH_CP) && defined(WITH_BN) && defined(WITH_MD) && ALLOC == AUTO

#define BNV(i) ((bn_t *)vs_get(c->a[i], VT_BNV))
#define BNVLEN(i) (vs_slot_at(c->a[i])->len)

BIND(info_cp_sig) {
	RET(RLC_MD_LEN); RET(MD_MAP); RET(SH224); RET(SH256); RET(SH384); RET(SH512); RET(B2S160); RET(B2S256);
	RET(CP_RSAPD); RET(BASIC); RET(PKCS1); RET(PKCS2);
#ifdef CP_CRT
	RET(1);
#else
	RET(0);
#endif
	RET(RLC_BN_BITS); RET(RLC_BN_SIZE); RET(RLC_DIG);
#if defined(WITH_EC) && defined(WITH_EP) && EC_CUR == PRIME
	RET(RLC_FC_BYTES);
#else
	RET(0);
#endif
}

/* ------------------------------------------------------------------------------------------------ RSA */

#define C05_POOL 4
static rsa_t c05_pub[C05_POOL], c05_prv[C05_POOL];
static int c05_ready[C05_POOL];

static int c05_key(uint64_t i) {
	if (i >= C05_POOL) vs_die("c05: key index out of range");
	if (!c05_ready[i]) {
		rsa_null(c05_pub[i]); rsa_null(c05_prv[i]);
		rsa_new(c05_pub[i]); rsa_new(c05_prv[i]);
		c05_ready[i] = 1;
	}
	return (int)i;
}
static void c05_clear(int i) {
	bn_zero(c05_pub[i]->d); bn_zero(c05_pub[i]->e);
	bn_zero(c05_pub[i]->crt->n); bn_zero(c05_pub[i]->crt->p); bn_zero(c05_pub[i]->crt->q);
	bn_zero(c05_pub[i]->crt->dp); bn_zero(c05_pub[i]->crt->dq); bn_zero(c05_pub[i]->crt->qi);
	bn_zero(c05_prv[i]->d); bn_zero(c05_prv[i]->e);
	bn_zero(c05_prv[i]->crt->n); bn_zero(c05_prv[i]->crt->p); bn_zero(c05_prv[i]->crt->q);
	bn_zero(c05_prv[i]->crt->dp); bn_zero(c05_prv[i]->crt->dq); bn_zero(c05_prv[i]->crt->qi);
}

/* c05_rsa_gen(pool index, bits): key generation under the request's DRBG seed */
BIND(c05_rsa_gen) {
	int i = c05_key(A(0));
	c05_clear(i);
	RET(cp_rsa_gen(c05_pub[i], c05_prv[i], (size_t)A(1)));
}
/* c05_rsa_get(pool index, bnv[9]): pub n, pub e, d, p, q, dp, dq, qi, prv n */
BIND(c05_rsa_get) {
	int i = c05_key(A(0));
	bn_t *v = BNV(1);
	if (BNVLEN(1) != 9) vs_die("c05_rsa_get: vector of 9 expected");
	bn_copy(v[0], c05_pub[i]->crt->n); bn_copy(v[1], c05_pub[i]->e); bn_copy(v[2], c05_prv[i]->d);
	bn_copy(v[3], c05_prv[i]->crt->p); bn_copy(v[4], c05_prv[i]->crt->q); bn_copy(v[5], c05_prv[i]->crt->dp);
	bn_copy(v[6], c05_prv[i]->crt->dq); bn_copy(v[7], c05_prv[i]->crt->qi); bn_copy(v[8], c05_prv[i]->crt->n);
}
/* c05_rsa_set(pool index, bnv[8]): n, e, d, p, q, dp, dq, qi -> the fields cp_rsa_gen fills */
BIND(c05_rsa_set) {
	int i = c05_key(A(0));
	bn_t *v = BNV(1);
	if (BNVLEN(1) != 8) vs_die("c05_rsa_set: vector of 8 expected");
	c05_clear(i);
	bn_copy(c05_pub[i]->crt->n, v[0]); bn_copy(c05_pub[i]->e, v[1]);
	bn_copy(c05_prv[i]->crt->n, v[0]); bn_copy(c05_prv[i]->d, v[2]);
	bn_copy(c05_prv[i]->crt->p, v[3]); bn_copy(c05_prv[i]->crt->q, v[4]); bn_copy(c05_prv[i]->crt->dp, v[5]);
	bn_copy(c05_prv[i]->crt->dq, v[6]); bn_copy(c05_prv[i]->crt->qi, v[7]);
}
/* cp_rsa_sig(sig buf, capacity or ~0 for the buffer length, msg buf, hash flag, pool index) -> rc, *sig_len */
BIND(cp_rsa_sig) {
	size_t l = A(1) == (uint64_t)-1 ? BUFLEN(0) : (size_t)A(1);
	int i = c05_key(A(4));
	int rc = cp_rsa_sig(BUF(0), &l, BUF(2), BUFLEN(2), (int)A(3), c05_prv[i]);
	RET(rc); RET(l);
}
/* cp_rsa_ver(sig buf, msg buf, hash flag, pool index) */
BIND(cp_rsa_ver) {
	int i = c05_key(A(3));
	RET(cp_rsa_ver(BUF(0), BUFLEN(0), BUF(1), BUFLEN(1), (int)A(2), c05_pub[i]));
}

/* --------------------------------------------------------------------------------------- EC protocols */

#if defined(WITH_EC) && defined(WITH_EP) && EC_CUR == PRIME

#define EP(i) ((ep_st *)vs_get(c->a[i], VT_EP))
#define EPV(i) ((ep_t *)vs_get(c->a[i], VT_EPV))
#define EPV_OPT(i) (c->a[i] == (uint64_t)-1 ? NULL : EPV(i))

BIND(cp_ecdsa_gen) { RET(cp_ecdsa_gen(BN(0), EP(1))); }
BIND(cp_ecdsa_sig) { RET(cp_ecdsa_sig(BN(0), BN(1), BUF(2), BUFLEN(2), (int)A(3), BN(4))); }
BIND(cp_ecdsa_ver) { RET(cp_ecdsa_ver(BN(0), BN(1), BUF(2), BUFLEN(2), (int)A(3), EP(4))); }

BIND(cp_ecss_gen) { RET(cp_ecss_gen(BN(0), EP(1))); }
BIND(cp_ecss_sig) { RET(cp_ecss_sig(BN(0), BN(1), BUF(2), BUFLEN(2), BN(3))); }
BIND(cp_ecss_ver) { RET(cp_ecss_ver(BN(0), BN(1), BUF(2), BUFLEN(2), EP(3))); }

BIND(cp_vbnn_gen) { RET(cp_vbnn_gen(BN(0), EP(1))); }
BIND(cp_vbnn_gen_prv) { RET(cp_vbnn_gen_prv(BN(0), EP(1), BN(2), BUF(3), BUFLEN(3))); }
/* cp_vbnn_sig(r, z, h, id, msg, sk, pk) */
BIND(cp_vbnn_sig) {
	RET(cp_vbnn_sig(EP(0), BN(1), BN(2), BUF(3), BUFLEN(3), BUF(4), (int)BUFLEN(4), BN(5), EP(6)));
}
/* cp_vbnn_ver(r, z, h, id, msg, mpk) */
BIND(cp_vbnn_ver) {
	RET(cp_vbnn_ver(EP(0), BN(1), BN(2), BUF(3), BUFLEN(3), BUF(4), (int)BUFLEN(4), EP(5)));
}

BIND(cp_pokdl_prv) { RET(cp_pokdl_prv(BN(0), BN(1), EP(2), BN(3))); }
BIND(cp_pokdl_ver) { RET(cp_pokdl_ver(BN(0), BN(1), EP(2))); }
BIND(cp_pokor_prv) { RET(cp_pokor_prv(BNV(0), BNV(1), (const ep_t *)EPV(2), BN(3))); }
BIND(cp_pokor_ver) { RET(cp_pokor_ver((const bn_t *)BNV(0), (const bn_t *)BNV(1), (const ep_t *)EPV(2))); }

BIND(cp_sokdl_sig) { RET(cp_sokdl_sig(BN(0), BN(1), BUF(2), BUFLEN(2), EP(3), BN(4))); }
BIND(cp_sokdl_ver) { RET(cp_sokdl_ver(BN(0), BN(1), BUF(2), BUFLEN(2), EP(3))); }
/* cp_sokor_sig(c[2], r[2], msg, y[2], g[2] or NULL, x, first) */
BIND(cp_sokor_sig) {
	RET(cp_sokor_sig(BNV(0), BNV(1), BUF(2), BUFLEN(2), (const ep_t *)EPV(3), (const ep_t *)EPV_OPT(4), BN(5),
			(int)A(6)));
}
BIND(cp_sokor_ver) {
	RET(cp_sokor_ver((const bn_t *)BNV(0), (const bn_t *)BNV(1), BUF(2), BUFLEN(2), (const ep_t *)EPV(3),
			(const ep_t *)EPV_OPT(4)));
}

BIND(cp_ped_com) { RET(cp_ped_com(EP(0), EP(1), BN(2), BN(3))); }

#endif /* EC */

#endif /* WITH_CP */

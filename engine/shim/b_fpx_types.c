/* Slot types FPX (one extension-field element of degree s->sub, stored flat in the library's memory order)
 * and FPXV (vector of them). */
#include "vs.h"

#if defined(WITH_FPX) && ALLOC == AUTO

#define FPB (RLC_FP_DIGS * sizeof(dig_t))

static int fpx_mk(vs_slot *s, vs_rd *r) {
	uint8_t deg = rd_u8(r);
	size_t len;
	const uint8_t *d = rd_blob(r, &len);
	if (r->bad || deg == 0 || len != deg * FPB) return -1;
	uint8_t *a = (uint8_t *)vs_alloc_poisoned(len);
	memcpy(a, d, len);
	s->p = a; s->sub = deg; s->len = 1;
	return 0;
}
static int fpxv_mk(vs_slot *s, vs_rd *r) {
	uint8_t deg = rd_u8(r);
	uint32_t n = rd_u32(r);
	size_t len;
	const uint8_t *d = rd_blob(r, &len);
	if (r->bad || deg == 0 || n > 4096 || len > n * deg * FPB || len % (deg * FPB) != 0) return -1;
	uint8_t *a = (uint8_t *)vs_alloc_poisoned((n ? n : 1) * deg * FPB);
	memcpy(a, d, len);
	s->p = a; s->sub = deg; s->len = n;
	return 0;
}
static void fpx_dump(const vs_slot *s, vs_wr *w) { wr_blob(w, s->p, s->len * s->sub * FPB); }
static void fpx_fr(vs_slot *s) { free(s->p); }
static uint64_t fpx_hash(const vs_slot *s) { return vs_fnv(0xcbf29ce484222325ULL, s->p, s->len * s->sub * FPB); }
VS_TYPE(VT_FPX, fpx_mk, fpx_dump, fpx_fr, fpx_hash)
VS_TYPE(VT_FPXV, fpxv_mk, fpx_dump, fpx_fr, fpx_hash)

void *vs_getx(uint64_t idx, int type, int deg) {
	vs_slot *s = vs_slot_at(idx);
	if (s->type != type || s->sub != deg) {
		char m[120];
		snprintf(m, sizeof m, "slot %llu has type %d/deg %d, binding wants %d/deg %d", (unsigned long long)idx,
				s->type, s->sub, type, deg);
		vs_die(m);
	}
	return s->p;
}

#endif

/* Slot types EP / EPV and bindings for the EP module (prime curves). Points travel as raw (x, y, z, coord). */
#include "vs.h"

#if defined(WITH_EP) && ALLOC == AUTO

#define FPB (RLC_FP_DIGS * sizeof(dig_t))
#define EPB (3 * FPB + 1)

static int ep_fill(ep_st *p, vs_rd *r) {
	size_t len;
	const uint8_t *d = rd_blob(r, &len);
	if (r->bad || len != EPB) return -1;
	memcpy(p->x, d, FPB);
	memcpy(p->y, d + FPB, FPB);
	memcpy(p->z, d + 2 * FPB, FPB);
	p->coord = d[3 * FPB];
	return 0;
}
static void ep_put(const ep_st *p, vs_wr *w) {
	wr_raw(w, p->x, FPB); wr_raw(w, p->y, FPB); wr_raw(w, p->z, FPB);
	wr_u8(w, (uint8_t)p->coord);
	wr_u32(w, (uint32_t)p->coord);
}
static uint64_t ep_h(const ep_st *p, uint64_t h) {
	h = vs_fnv(h, p->x, FPB); h = vs_fnv(h, p->y, FPB); h = vs_fnv(h, p->z, FPB);
	return vs_fnv(h, &p->coord, sizeof p->coord);
}

static int ep_mk(vs_slot *s, vs_rd *r) {
	ep_st *p = (ep_st *)vs_alloc_poisoned(sizeof(ep_st));
	if (ep_fill(p, r) != 0) { free(p); return -1; }
	s->p = p; s->len = 1;
	return 0;
}
static int epv_mk(vs_slot *s, vs_rd *r) {
	uint32_t n = rd_u32(r), k = rd_u32(r);
	if (r->bad || n > 8192 || k > n) return -1;
	ep_st *v = (ep_st *)vs_alloc_poisoned((n ? n : 1) * sizeof(ep_st));
	for (uint32_t i = 0; i < k; i++) {
		if (ep_fill(&v[i], r) != 0) { free(v); return -1; }
	}
	s->p = v; s->len = n;
	return 0;
}
static void ep_dump_(const vs_slot *s, vs_wr *w) {
	vs_wr t = { 0 };
	const ep_st *v = (const ep_st *)s->p;
	for (size_t i = 0; i < s->len; i++) ep_put(&v[i], &t);
	wr_blob(w, t.buf, t.len);
	free(t.buf);
}
static void ep_fr(vs_slot *s) { free(s->p); }
static uint64_t ep_hash_(const vs_slot *s) {
	uint64_t h = 0xcbf29ce484222325ULL;
	const ep_st *v = (const ep_st *)s->p;
	for (size_t i = 0; i < s->len; i++) h = ep_h(&v[i], h);
	return h;
}
VS_TYPE(VT_EP, ep_mk, ep_dump_, ep_fr, ep_hash_)
VS_TYPE(VT_EPV, epv_mk, ep_dump_, ep_fr, ep_hash_)

#define EP(i) ((ep_st *)vs_get(c->a[i], VT_EP))
#define EPV(i) ((ep_t *)vs_get(c->a[i], VT_EPV))
#define FP(i) ((dig_t *)vs_get(c->a[i], VT_FP))
#define BNV(i) ((bn_t *)vs_get(c->a[i], VT_BNV))

/* ------------------------------------------------------------ parameters */

BIND(info_ep) {
	RET(BASIC); RET(PROJC); RET(JACOB); RET(EP_ADD); RET(RLC_EP_TABLE_BASIC); RET(RLC_EP_TABLE_COMBS);
	RET(RLC_EP_TABLE_COMBD); RET(RLC_EP_TABLE_LWNAF); RET(RLC_EP_TABLE_MAX); RET(RLC_WIDTH); RET(RLC_DEPTH);
#ifdef EP_ENDOM
	RET(1);
#else
	RET(0);
#endif
#ifdef EP_MIXED
	RET(1);
#else
	RET(0);
#endif
#ifdef EP_PRECO
	RET(1);
#else
	RET(0);
#endif
	RET(EP_MUL); RET(EP_FIX); RET(EP_SIM); RET(EP_MAP);
}
BIND(ep_param_set) { ep_param_set((int)A(0)); }
BIND(ep_param_get) { RET(ep_param_get()); }
BIND(ep_param_level) { RET(ep_param_level()); }
BIND(ep_param_set_any) { RET((int64_t)ep_param_set_any()); }
BIND(ep_param_set_any_plain) { RET((int64_t)ep_param_set_any_plain()); }
BIND(ep_param_set_any_endom) { RET((int64_t)ep_param_set_any_endom()); }
BIND(ep_param_set_any_pairf) { RET((int64_t)ep_param_set_any_pairf()); }
BIND(ep_curve_params) {
	/* a, b, b3, beta (raw field elements); flags; order and cofactor go to bn slots 0, 1; generator to ep slot 2 */
	ret_blob(c, ep_curve_get_a(), FPB);
	ret_blob(c, ep_curve_get_b(), FPB);
	ret_blob(c, ep_curve_get_b(), FPB); /* ep_curve_get_b3 is declared but not defined */
#ifdef EP_ENDOM
	ret_blob(c, ep_curve_get_beta(), FPB);
#else
	{ fp_t z_; fp_zero(z_); ret_blob(c, z_, FPB); }
#endif
	RET(ep_curve_is_endom()); RET(ep_curve_is_super()); RET(ep_curve_is_pairf()); RET(ep_curve_is_ctmap());
	RET(ep_curve_opt_a()); RET(ep_curve_opt_b());
	RET(ep_curve_embed()); RET(ep_curve_frdim());
	ep_curve_get_ord(BN(0));
	ep_curve_get_cof(BN(1));
	ep_curve_get_gen(EP(2));
	RET(fp_param_get());
}
#ifdef EP_ENDOM
BIND(ep_curve_get_v) {
	/* GLV lattice vectors into bnv slots 0 and 1 (3 entries each) */
	const bn_st *v1 = ep_curve_get_v1(), *v2 = ep_curve_get_v2();
	for (int i = 0; i < 3; i++) { bn_copy(BNV(0)[i], &v1[i]); bn_copy(BNV(1)[i], &v2[i]); }
}
#endif
BIND(ep_curve_get_tab) {
	const ep_t *t = ep_curve_get_tab();
	RET(t != NULL);
}
BIND(ep_curve_mul_a) { ep_curve_mul_a(FP(0), FP(1)); }
BIND(ep_curve_mul_b) { ep_curve_mul_b(FP(0), FP(1)); }

/* -------------------------------------------------------------- utilities */

BIND(ep_is_infty) { RET(ep_is_infty(EP(0))); }
BIND(ep_set_infty) { ep_set_infty(EP(0)); }
BIND(ep_copy) { ep_copy(EP(0), EP(1)); }
BIND(ep_cmp) { RET((int64_t)ep_cmp(EP(0), EP(1))); }
BIND(ep_rand) { ep_rand(EP(0)); }
BIND(ep_blind) { ep_blind(EP(0), EP(1)); }
BIND(ep_rhs) { ep_rhs(FP(0), FP(1)); }
BIND(ep_on_curve) { RET(ep_on_curve(EP(0))); }
BIND(ep_tab) { ep_tab(EPV(0), EP(1), (int)A(2)); }
BIND(ep_size_bin) { RET(ep_size_bin(EP(0), (int)A(1))); }
BIND(ep_read_bin) { ep_read_bin(EP(0), BUF(1), BUFLEN(1)); }
BIND(ep_write_bin) { ep_write_bin(BUF(0), BUFLEN(0), EP(1), (int)A(2)); }
BIND(ep_pck) { ep_pck(EP(0), EP(1)); }
BIND(ep_upk) { RET(ep_upk(EP(0), EP(1))); }
BIND(ep_norm) { ep_norm(EP(0), EP(1)); }
BIND(ep_norm_sim) { ep_norm_sim(EPV(0), (const ep_t *)EPV(1), (int)A(2)); }

/* ---------------------------------------------------------------- group law */

BIND(ep_neg) { ep_neg(EP(0), EP(1)); }
BIND(ep_add) { ep_add(EP(0), EP(1), EP(2)); }
BIND(ep_add_basic) { ep_add_basic(EP(0), EP(1), EP(2)); }
BIND(ep_add_slp_basic) { ep_add_slp_basic(EP(0), FP(3), EP(1), EP(2)); }
BIND(ep_add_projc) { ep_add_projc(EP(0), EP(1), EP(2)); }
BIND(ep_add_jacob) { ep_add_jacob(EP(0), EP(1), EP(2)); }
BIND(ep_sub) { ep_sub(EP(0), EP(1), EP(2)); }
BIND(ep_dbl) { ep_dbl(EP(0), EP(1)); }
BIND(ep_dbl_basic) { ep_dbl_basic(EP(0), EP(1)); }
BIND(ep_dbl_slp_basic) { ep_dbl_slp_basic(EP(0), FP(2), EP(1)); }
BIND(ep_dbl_projc) { ep_dbl_projc(EP(0), EP(1)); }
BIND(ep_dbl_jacob) { ep_dbl_jacob(EP(0), EP(1)); }
#ifdef EP_ENDOM
BIND(ep_psi) { ep_psi(EP(0), EP(1)); }
#endif

/* ------------------------------------------------------- multiplication */

BIND(ep_mul) { ep_mul(EP(0), EP(1), BN(2)); }
BIND(ep_mul_basic) { ep_mul_basic(EP(0), EP(1), BN(2)); }
BIND(ep_mul_slide) { ep_mul_slide(EP(0), EP(1), BN(2)); }
BIND(ep_mul_monty) { ep_mul_monty(EP(0), EP(1), BN(2)); }
BIND(ep_mul_lwnaf) { ep_mul_lwnaf(EP(0), EP(1), BN(2)); }
BIND(ep_mul_lwreg) { ep_mul_lwreg(EP(0), EP(1), BN(2)); }
BIND(ep_mul_gen) { ep_mul_gen(EP(0), BN(1)); }
BIND(ep_mul_dig) { ep_mul_dig(EP(0), EP(1), (dig_t)A(2)); }
BIND(ep_mul_cof) { ep_mul_cof(EP(0), EP(1)); }
BIND(ep_mul_pre) { ep_mul_pre(EPV(0), EP(1)); }
BIND(ep_mul_fix) { ep_mul_fix(EP(0), (const ep_t *)EPV(1), BN(2)); }
BIND(ep_mul_pre_basic) { ep_mul_pre_basic(EPV(0), EP(1)); }
BIND(ep_mul_pre_combs) { ep_mul_pre_combs(EPV(0), EP(1)); }
BIND(ep_mul_pre_combd) { ep_mul_pre_combd(EPV(0), EP(1)); }
BIND(ep_mul_pre_lwnaf) { ep_mul_pre_lwnaf(EPV(0), EP(1)); }
BIND(ep_mul_fix_basic) { ep_mul_fix_basic(EP(0), (const ep_t *)EPV(1), BN(2)); }
BIND(ep_mul_fix_combs) { ep_mul_fix_combs(EP(0), (const ep_t *)EPV(1), BN(2)); }
BIND(ep_mul_fix_combd) { ep_mul_fix_combd(EP(0), (const ep_t *)EPV(1), BN(2)); }
BIND(ep_mul_fix_lwnaf) { ep_mul_fix_lwnaf(EP(0), (const ep_t *)EPV(1), BN(2)); }
BIND(ep_mul_sim) { ep_mul_sim(EP(0), EP(1), BN(2), EP(3), BN(4)); }
BIND(ep_mul_sim_basic) { ep_mul_sim_basic(EP(0), EP(1), BN(2), EP(3), BN(4)); }
BIND(ep_mul_sim_trick) { ep_mul_sim_trick(EP(0), EP(1), BN(2), EP(3), BN(4)); }
BIND(ep_mul_sim_inter) { ep_mul_sim_inter(EP(0), EP(1), BN(2), EP(3), BN(4)); }
BIND(ep_mul_sim_joint) { ep_mul_sim_joint(EP(0), EP(1), BN(2), EP(3), BN(4)); }
BIND(ep_mul_sim_gen) { ep_mul_sim_gen(EP(0), BN(1), EP(2), BN(3)); }
BIND(ep_mul_sim_lot) { ep_mul_sim_lot(EP(0), (const ep_t *)EPV(1), (const bn_t *)BNV(2), (int)A(3)); }
BIND(ep_mul_sim_dig) {
	/* digits arrive as a byte buffer of n dig_t values */
	ep_mul_sim_dig(EP(0), (const ep_t *)EPV(1), (const dig_t *)BUF(2), (int)A(3));
}

/* ------------------------------------------------------------------ maps */

BIND(ep_map) { ep_map(EP(0), BUF(1), BUFLEN(1)); }
BIND(ep_map_basic) { ep_map_basic(EP(0), BUF(1), BUFLEN(1)); }
BIND(ep_map_sswum) { ep_map_sswum(EP(0), BUF(1), BUFLEN(1)); }
BIND(ep_map_swift) { ep_map_swift(EP(0), BUF(1), BUFLEN(1)); }
BIND(ep_map_rnd_size) { RET(ep_map_rnd_size()); }
BIND(ep_map_rnd) { ep_map_rnd(EP(0), BUF(1), BUFLEN(1)); }

#endif

/* Bindings for the pairing layer: pc_* / g1_* / g2_* / gt_* wrappers and the k = 12 pairing variants.
 * G1 slots are EP, G2 slots are EP2 with sub = degree of the G2 field, GT slots are FPX with sub = RLC_GT_EMBED. */
#include "vs.h"

#if defined(WITH_PC) && defined(WITH_PP) && ALLOC == AUTO

#define FPB (RLC_FP_DIGS * sizeof(dig_t))
#define G2DEG ((int)(sizeof(g2_t) / (3 * FPB)))

#define G1(i) ((ep_st *)vs_get(c->a[i], VT_EP))
#define G1V(i) ((g1_t *)vs_get(c->a[i], VT_EPV))
#define G2(i) (*(g2_t *)vs_getp(c->a[i], VT_EP2, G2DEG))
#define G2V(i) ((g2_t *)vs_getp(c->a[i], VT_EP2V, G2DEG))
#define GT(i) (*(gt_t *)vs_getx(c->a[i], VT_FPX, RLC_GT_EMBED))
#define GTV(i) ((gt_t *)vs_getx(c->a[i], VT_FPXV, RLC_GT_EMBED))
#define BNV(i) ((bn_t *)vs_get(c->a[i], VT_BNV))

BIND(info_pc) {
	RET(RLC_GT_EMBED); RET(G2DEG); RET(pc_map_is_type1()); RET(pc_map_is_type3()); RET(RLC_G1_TABLE); RET(RLC_G2_TABLE);
	RET(pc_param_level());
}
BIND(pc_param_set_any) { RET((int64_t)pc_param_set_any()); }
BIND(pc_core_calc) { pc_core_calc(); }
BIND(pc_get_ord) { pc_get_ord(BN(0)); }
BIND(g1_get_gen) { g1_get_gen(G1(0)); }
BIND(g2_get_gen) { g2_get_gen(G2(0)); }
BIND(gt_get_gen) { gt_get_gen(GT(0)); }

BIND(g1_is_valid) { RET(g1_is_valid(G1(0))); }
BIND(g2_is_valid) { RET(g2_is_valid(G2(0))); }
BIND(gt_is_valid) { RET(gt_is_valid(GT(0))); }
BIND(g1_on_curve) { RET(g1_on_curve(G1(0))); }
BIND(g2_on_curve) { RET(g2_on_curve(G2(0))); }
BIND(g1_is_infty) { RET(g1_is_infty(G1(0))); }
BIND(g2_is_infty) { RET(g2_is_infty(G2(0))); }
BIND(gt_is_unity) { RET(gt_is_unity(GT(0))); }
BIND(g1_cmp) { RET((int64_t)g1_cmp(G1(0), G1(1))); }
BIND(g2_cmp) { RET((int64_t)g2_cmp(G2(0), G2(1))); }
BIND(gt_cmp) { RET((int64_t)gt_cmp(GT(0), GT(1))); }

BIND(g1_neg) { g1_neg(G1(0), G1(1)); }
BIND(g2_neg) { g2_neg(G2(0), G2(1)); }
BIND(gt_inv) { gt_inv(GT(0), GT(1)); }
BIND(g1_add) { g1_add(G1(0), G1(1), G1(2)); }
BIND(g2_add) { g2_add(G2(0), G2(1), G2(2)); }
BIND(gt_mul) { gt_mul(GT(0), GT(1), GT(2)); }
BIND(g1_sub) { g1_sub(G1(0), G1(1), G1(2)); }
BIND(g2_sub) { g2_sub(G2(0), G2(1), G2(2)); }
BIND(g1_dbl) { g1_dbl(G1(0), G1(1)); }
BIND(g2_dbl) { g2_dbl(G2(0), G2(1)); }
BIND(gt_sqr) { gt_sqr(GT(0), GT(1)); }
BIND(g1_norm) { g1_norm(G1(0), G1(1)); }
BIND(g2_norm) { g2_norm(G2(0), G2(1)); }
BIND(g2_frb) { g2_frb(G2(0), G2(1), (int)A(2)); }
BIND(gt_frb) { gt_frb(GT(0), GT(1), (int)A(2)); }

BIND(g1_mul) { g1_mul(G1(0), G1(1), BN(2)); }
BIND(g1_mul_sec) { g1_mul_sec(G1(0), G1(1), BN(2)); }
BIND(g1_mul_any) { g1_mul_any(G1(0), G1(1), BN(2)); }
BIND(g1_mul_gen) { g1_mul_gen(G1(0), BN(1)); }
BIND(g1_mul_dig) { g1_mul_dig(G1(0), G1(1), (dig_t)A(2)); }
BIND(g1_mul_pre) { g1_mul_pre(G1V(0), G1(1)); }
BIND(g1_mul_fix) { g1_mul_fix(G1(0), (const g1_t *)G1V(1), BN(2)); }
BIND(g1_mul_sim) { g1_mul_sim(G1(0), G1(1), BN(2), G1(3), BN(4)); }
BIND(g1_mul_sim_gen) { g1_mul_sim_gen(G1(0), BN(1), G1(2), BN(3)); }
BIND(g1_mul_sim_lot) { g1_mul_sim_lot(G1(0), (const g1_t *)G1V(1), (const bn_t *)BNV(2), (size_t)A(3)); }
BIND(g1_mul_sim_dig) { g1_mul_sim_dig(G1(0), (const g1_t *)G1V(1), (const dig_t *)BUF(2), (size_t)A(3)); }
BIND(g2_mul) { g2_mul(G2(0), G2(1), BN(2)); }
BIND(g2_mul_sec) { g2_mul_sec(G2(0), G2(1), BN(2)); }
BIND(g2_mul_any) { g2_mul_any(G2(0), G2(1), BN(2)); }
BIND(g2_mul_gen) { g2_mul_gen(G2(0), BN(1)); }
BIND(g2_mul_dig) { g2_mul_dig(G2(0), G2(1), (dig_t)A(2)); }
BIND(g2_mul_pre) { g2_mul_pre(G2V(0), G2(1)); }
BIND(g2_mul_fix) { g2_mul_fix(G2(0), (const g2_t *)G2V(1), BN(2)); }
BIND(g2_mul_sim) { g2_mul_sim(G2(0), G2(1), BN(2), G2(3), BN(4)); }
BIND(g2_mul_sim_gen) { g2_mul_sim_gen(G2(0), BN(1), G2(2), BN(3)); }
BIND(g2_mul_sim_lot) { g2_mul_sim_lot(G2(0), (const g2_t *)G2V(1), (const bn_t *)BNV(2), (size_t)A(3)); }
BIND(g2_mul_sim_dig) { g2_mul_sim_dig(G2(0), (const g2_t *)G2V(1), (const dig_t *)BUF(2), (size_t)A(3)); }
BIND(gt_exp) { gt_exp(GT(0), GT(1), BN(2)); }
BIND(gt_exp_sec) { gt_exp_sec(GT(0), GT(1), BN(2)); }
BIND(gt_exp_dig) { gt_exp_dig(GT(0), GT(1), (dig_t)A(2)); }
BIND(gt_exp_gen) { gt_exp_gen(GT(0), BN(1)); }
BIND(gt_exp_sim) { gt_exp_sim(GT(0), GT(1), BN(2), GT(3), BN(4)); }
BIND(gt_rand) { gt_rand(GT(0)); }
BIND(g1_rand) { g1_rand(G1(0)); }
BIND(g2_rand) { g2_rand(G2(0)); }
BIND(g1_map) { g1_map(G1(0), BUF(1), BUFLEN(1)); }
BIND(g2_map) { g2_map(G2(0), BUF(1), BUFLEN(1)); }
BIND(g1_size_bin) { RET(g1_size_bin(G1(0), (int)A(1))); }
BIND(g2_size_bin) { RET(g2_size_bin(G2(0), (int)A(1))); }
BIND(gt_size_bin) { RET(gt_size_bin(GT(0), (int)A(1))); }
BIND(g1_read_bin) { g1_read_bin(G1(0), BUF(1), BUFLEN(1)); }
BIND(g2_read_bin) { g2_read_bin(G2(0), BUF(1), BUFLEN(1)); }
BIND(gt_read_bin) { gt_read_bin(GT(0), BUF(1), BUFLEN(1)); }
BIND(g1_write_bin) { g1_write_bin(BUF(0), BUFLEN(0), G1(1), (int)A(2)); }
BIND(g2_write_bin) { g2_write_bin(BUF(0), BUFLEN(0), G2(1), (int)A(2)); }
BIND(gt_write_bin) { gt_write_bin(BUF(0), BUFLEN(0), GT(1), (int)A(2)); }

/* pairings */
BIND(pc_map) { pc_map(GT(0), G1(1), G2(2)); }
BIND(pc_map_sim) { pc_map_sim(GT(0), (const g1_t *)G1V(1), (const g2_t *)G2V(2), (int)A(3)); }
BIND(pc_exp) { pc_exp(GT(0), GT(1)); }

#if FP_PRIME == 256 || FP_PRIME == 381 || FP_PRIME == 254 || FP_PRIME == 382 || FP_PRIME == 446 || FP_PRIME == 455 || FP_PRIME == 638 || FP_PRIME == 377 || FP_PRIME == 383
#define EP2V(i) ((ep2_t *)vs_getp(c->a[i], VT_EP2V, 2))
#define EP2(i) (*(ep2_t *)vs_getp(c->a[i], VT_EP2, 2))
BIND(pp_map_tatep_k12) { pp_map_tatep_k12(FP12(0), G1(1), EP2(2)); }
BIND(pp_map_weilp_k12) { pp_map_weilp_k12(FP12(0), G1(1), EP2(2)); }
BIND(pp_map_oatep_k12) { pp_map_oatep_k12(FP12(0), G1(1), EP2(2)); }
BIND(pp_map_sim_tatep_k12) { pp_map_sim_tatep_k12(FP12(0), (const ep_t *)G1V(1), (const ep2_t *)EP2V(2), (int)A(3)); }
BIND(pp_map_sim_weilp_k12) { pp_map_sim_weilp_k12(FP12(0), (const ep_t *)G1V(1), (const ep2_t *)EP2V(2), (int)A(3)); }
BIND(pp_map_sim_oatep_k12) { pp_map_sim_oatep_k12(FP12(0), (const ep_t *)G1V(1), (const ep2_t *)EP2V(2), (int)A(3)); }
BIND(pp_exp_k12) { pp_exp_k12(FP12(0), FP12(1)); }
#endif

/* tower parameters for the reference (C10, C04, C11, C12, C18) */
BIND(tower_params) {
	RET((int64_t)fp_prime_get_qnr()); RET((int64_t)fp_prime_get_cnr());
	RET((int64_t)fp2_field_get_qnr()); RET((int64_t)fp3_field_get_cnr());
	fp2_t one2, e2;
	fp2_set_dig(one2, 1);
	fp2_mul_nor(e2, one2);
	ret_blob(c, e2, 2 * FPB);
	fp3_t one3, e3;
	fp3_zero(e3);
	if (fp_prime_get_cnr() != 0) {
		fp3_set_dig(one3, 1);
		fp3_mul_nor(e3, one3);
	}
	ret_blob(c, e3, 3 * FPB);
}

#endif

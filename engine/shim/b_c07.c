/* Bindings for C07 (codecs): extension-field readers / writers / packers, and self-contained (bytes in, bytes out)
 * access to the binary-field / binary-curve / Edwards codecs so that this file does not depend on the FB/EB/ED slot
 * types of other properties. Field elements of the self-contained part travel as RAW digit vectors inside BUF slots
 * (never through a codec), points live in a heap object private to this file. */
#include "vs.h"

#ifdef WITH_BN
BIND(c07_conv_chars) {
	char t[64];
	for (int i = 0; i < 64; i++) t[i] = util_conv_char((dig_t)i);
	ret_blob(c, t, 64);
}
#endif

/* ------------------------------------------------------------------ FPX */
#if defined(WITH_FPX) && ALLOC == AUTO

#define FPB (RLC_FP_DIGS * sizeof(dig_t))

BIND(c07_fp_info) { RET(RLC_FP_BYTES); RET(RLC_FP_BITS); RET(FPB); }

#define CODEC_PACK(N)                                                                                   \
	BIND(fp##N##_size_bin) { RET((int64_t)fp##N##_size_bin(FP##N(0), (int)A(1))); }                     \
	BIND(fp##N##_read_bin) { fp##N##_read_bin(FP##N(0), BUF(1), BUFLEN(1)); }                           \
	BIND(fp##N##_write_bin) { fp##N##_write_bin(BUF(0), BUFLEN(0), FP##N(1), (int)A(2)); }
#define CODEC_PLAIN(N)                                                                                  \
	BIND(fp##N##_size_bin) { RET((int64_t)fp##N##_size_bin(FP##N(0))); }                                \
	BIND(fp##N##_read_bin) { fp##N##_read_bin(FP##N(0), BUF(1), BUFLEN(1)); }                           \
	BIND(fp##N##_write_bin) { fp##N##_write_bin(BUF(0), BUFLEN(0), FP##N(1)); }
#define PCK(N)                                                                                          \
	BIND(fp##N##_pck) { fp##N##_pck(FP##N(0), FP##N(1)); }                                              \
	BIND(fp##N##_upk) { RET((int64_t)fp##N##_upk(FP##N(0), FP##N(1))); }                                \
	BIND(fp##N##_test_cyc) { RET((int64_t)fp##N##_test_cyc(FP##N(0))); }

CODEC_PACK(2)
CODEC_PLAIN(3)
CODEC_PLAIN(4)
CODEC_PLAIN(6)
CODEC_PACK(8)
CODEC_PLAIN(9)
CODEC_PACK(12)
CODEC_PACK(16)
CODEC_PACK(18)
CODEC_PACK(24)
CODEC_PACK(48)
CODEC_PACK(54)
PCK(2)
PCK(12)
PCK(18)
PCK(24)
PCK(48)
PCK(54)
BIND(fp8_test_cyc) { RET((int64_t)fp8_test_cyc(FP8(0))); }
BIND(fp16_test_cyc) { RET((int64_t)fp16_test_cyc(FP16(0))); }
BIND(fp12_pck_max) { fp12_pck_max(FP12(0), FP12(1)); }
BIND(fp12_upk_max) { RET((int64_t)fp12_upk_max(FP12(0), FP12(1))); }

#endif /* WITH_FPX */

/* ------------------------------------------------------------------ FB / EB */
#if defined(WITH_EB) && defined(WITH_FB) && ALLOC == AUTO

#define FBB (RLC_FB_DIGS * sizeof(dig_t))

static eb_st *c07_eb;

static eb_st *c07_eb_fresh(void) {
	free(c07_eb);
	c07_eb = (eb_st *)vs_alloc_poisoned(sizeof(eb_st));
	return c07_eb;
}
static eb_st *c07_eb_cur(void) {
	if (!c07_eb) vs_die("c07: no binary-curve point set");
	return c07_eb;
}
/* raw field element out of a BUF slot of exactly FBB bytes */
static void fb_from_buf(dig_t *a, vs_call *c, int i) {
	if (BUFLEN(i) != FBB) vs_die("c07: raw fb element has wrong length");
	memset(a, 0, sizeof(fb_st));
	memcpy(a, BUF(i), FBB);
}

BIND(c07_eb_info) { RET(RLC_FB_BITS); RET(RLC_FB_BYTES); RET(RLC_FB_DIGS); RET(sizeof(dig_t)); RET(BASIC); RET(PROJC); RET(EB_ADD); }
BIND(c07_eb_param_set) { eb_param_set((int)A(0)); }
BIND(c07_eb_params) {
	eb_t g; bn_t n, h;
	eb_null(g); bn_null(n); bn_null(h);
	eb_new(g); bn_new(n); bn_new(h);
	ret_blob(c, fb_poly_get(), FBB);
	ret_blob(c, eb_curve_get_a(), FBB);
	ret_blob(c, eb_curve_get_b(), FBB);
	eb_curve_get_gen(g);
	eb_norm(g, g);
	ret_blob(c, g->x, FBB);
	ret_blob(c, g->y, FBB);
	eb_curve_get_ord(n);
	eb_curve_get_cof(h);
	ret_blob(c, n->dp, n->used * sizeof(dig_t));
	ret_blob(c, h->dp, h->used * sizeof(dig_t));
	RET(eb_curve_is_kbltz()); RET(eb_param_get());
}
/* point := (x, y, z, coord) from raw digit vectors */
BIND(c07_eb_set) {
	eb_st *p = c07_eb_fresh();
	fb_from_buf(p->x, c, 0); fb_from_buf(p->y, c, 1); fb_from_buf(p->z, c, 2);
	p->coord = (int)A(3);
}
BIND(c07_eb_read) { eb_st *p = c07_eb_fresh(); eb_read_bin(p, BUF(0), BUFLEN(0)); }
BIND(c07_eb_dump) {
	eb_st *p = c07_eb_cur();
	ret_blob(c, p->x, FBB); ret_blob(c, p->y, FBB); ret_blob(c, p->z, FBB);
	RET(p->coord);
}
BIND(c07_eb_on_curve) { RET(eb_on_curve(c07_eb_cur())); }
BIND(c07_eb_is_infty) { RET(eb_is_infty(c07_eb_cur())); }
BIND(c07_eb_size) { RET(eb_size_bin(c07_eb_cur(), (int)A(0))); }
BIND(c07_eb_write) { eb_write_bin(BUF(0), BUFLEN(0), c07_eb_cur(), (int)A(1)); }
BIND(c07_eb_pck) {
	eb_st *p = c07_eb_cur();
	eb_st *r = (eb_st *)vs_alloc_poisoned(sizeof(eb_st));
	eb_pck(r, p);
	ret_blob(c, r->x, FBB); ret_blob(c, r->y, FBB); ret_blob(c, r->z, FBB);
	RET(r->coord);
	free(r);
}
/* decompress (x, bit): result flag, then the point if any */
BIND(c07_eb_upk) {
	eb_st *p = c07_eb_fresh();
	eb_st *q = (eb_st *)vs_alloc_poisoned(sizeof(eb_st));
	fb_from_buf(q->x, c, 0);
	fb_zero(q->y);
	fb_set_bit(q->y, 0, (int)A(1));
	fb_set_dig(q->z, 1);
	q->coord = BASIC;
	int r = eb_upk(p, q);
	free(q);
	RET(r);
}

BIND(c07_fb_read_bin) { fb_st a; memset(a, vs_poison, sizeof a); fb_read_bin(a, BUF(0), BUFLEN(0)); ret_blob(c, a, FBB); }
BIND(c07_fb_write_bin) { fb_st a; fb_from_buf(a, c, 1); fb_write_bin(BUF(0), BUFLEN(0), a); }
BIND(c07_fb_size_str) { fb_st a; fb_from_buf(a, c, 0); RET(fb_size_str(a, (uint_t)A(1))); }
BIND(c07_fb_read_str) {
	fb_st a; memset(a, vs_poison, sizeof a);
	fb_read_str(a, (const char *)BUF(0), A(2) == 0 ? BUFLEN(0) : (size_t)A(2) - 1, (uint_t)A(1));
	ret_blob(c, a, FBB);
}
BIND(c07_fb_write_str) { fb_st a; fb_from_buf(a, c, 1); fb_write_str((char *)BUF(0), BUFLEN(0), a, (uint_t)A(2)); }

#endif /* WITH_EB */

/* ------------------------------------------------------------------ ED */
#if defined(WITH_ED) && defined(WITH_FP) && ALLOC == AUTO

#ifndef FPB
#define FPB (RLC_FP_DIGS * sizeof(dig_t))
#endif

static ed_st *c07_ed;

static ed_st *c07_ed_fresh(void) {
	free(c07_ed);
	c07_ed = (ed_st *)vs_alloc_poisoned(sizeof(ed_st));
	return c07_ed;
}
static ed_st *c07_ed_cur(void) {
	if (!c07_ed) vs_die("c07: no Edwards point set");
	return c07_ed;
}
static void fp_from_buf(dig_t *a, vs_call *c, int i) {
	if (BUFLEN(i) != FPB) vs_die("c07: raw fp element has wrong length");
	memcpy(a, BUF(i), FPB);
}

BIND(c07_ed_info) {
	RET(RLC_FP_BYTES); RET(FPB); RET(BASIC); RET(PROJC); RET(EXTND); RET(ED_ADD); RET(FP_RDC == MONTY);
}
BIND(c07_ed_param_set) { ed_param_set((int)A(0)); }
BIND(c07_ed_params) {
	ed_t g; bn_t n, h;
	ed_null(g); bn_null(n); bn_null(h);
	ed_new(g); bn_new(n); bn_new(h);
	ret_blob(c, fp_prime_get(), FPB);
	ret_blob(c, core_get()->ed_a, FPB);
	ret_blob(c, core_get()->ed_d, FPB);
	ed_curve_get_gen(g);
	ed_norm(g, g);
	ret_blob(c, g->x, FPB);
	ret_blob(c, g->y, FPB);
	ed_curve_get_ord(n);
	ed_curve_get_cof(h);
	ret_blob(c, n->dp, n->used * sizeof(dig_t));
	ret_blob(c, h->dp, h->used * sizeof(dig_t));
}
BIND(c07_ed_set) {
	ed_st *p = c07_ed_fresh();
	fp_from_buf(p->x, c, 0); fp_from_buf(p->y, c, 1); fp_from_buf(p->z, c, 2); fp_from_buf(p->t, c, 3);
	p->coord = (int)A(4);
}
BIND(c07_ed_read) { ed_st *p = c07_ed_fresh(); ed_read_bin(p, BUF(0), BUFLEN(0)); }
BIND(c07_ed_dump) {
	ed_st *p = c07_ed_cur();
	ret_blob(c, p->x, FPB); ret_blob(c, p->y, FPB); ret_blob(c, p->z, FPB); ret_blob(c, p->t, FPB);
	RET(p->coord);
}
BIND(c07_ed_on_curve) { RET(ed_on_curve(c07_ed_cur())); }
BIND(c07_ed_is_infty) { RET(ed_is_infty(c07_ed_cur())); }
BIND(c07_ed_size) { RET(ed_size_bin(c07_ed_cur(), (int)A(0))); }
BIND(c07_ed_write) { ed_write_bin(BUF(0), BUFLEN(0), c07_ed_cur(), (int)A(1)); }
/* decompress (y, bit) */
BIND(c07_ed_upk) {
	ed_st *p = c07_ed_fresh();
	ed_st *q = (ed_st *)vs_alloc_poisoned(sizeof(ed_st));
	fp_from_buf(q->y, c, 0);
	fp_zero(q->x);
	fp_set_bit(q->x, 0, (int)A(1));
	fp_set_dig(q->z, 1);
	fp_zero(q->t);
	q->coord = BASIC;
	int r = ed_upk(p, q);
	free(q);
	RET(r);
}
BIND(c07_ed_pck) {
	ed_st *p = c07_ed_cur();
	ed_st *r = (ed_st *)vs_alloc_poisoned(sizeof(ed_st));
	ed_pck(r, p);
	ret_blob(c, r->x, FPB); ret_blob(c, r->y, FPB); ret_blob(c, r->z, FPB);
	RET(r->coord);
	free(r);
}

#endif /* WITH_ED */

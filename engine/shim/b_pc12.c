/* C12: the cyclotomic-subgroup routines of the k = 12 tower that gt_is_valid / gt_exp_sim are built on
 * (src/fpx/relic_fpx_cyc.c). GT slots are FPX with sub = 12. */
#include "vs.h"

#if defined(WITH_PC) && defined(WITH_PP) && defined(WITH_FPX) && ALLOC == AUTO

BIND(fp12_test_cyc) { RET(fp12_test_cyc(FP12(0))); }
BIND(fp12_conv_cyc) { fp12_conv_cyc(FP12(0), FP12(1)); }
BIND(fp12_exp_cyc) { fp12_exp_cyc(FP12(0), FP12(1), BN(2)); }
BIND(fp12_exp_cyc_sim) { fp12_exp_cyc_sim(FP12(0), FP12(1), BN(2), FP12(3), BN(4)); }
BIND(fp12_inv_cyc) { fp12_inv_cyc(FP12(0), FP12(1)); }
BIND(fp12_sqr_cyc) { fp12_sqr_cyc(FP12(0), FP12(1)); }
BIND(info_pc12) {
	bn_t u;
	bn_null(u);
	bn_new(u);
	fp_prime_get_par(u);
	RET(bn_sign(u) == RLC_NEG); RET(bn_bits(u)); RET(RLC_FP_BITS); RET(RLC_WIDTH); RET(RLC_DIG);
	bn_free(u);
}

#endif

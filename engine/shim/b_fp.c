/* Slot types FP / FPV / DV and bindings for the FP module. Field elements travel as RAW internal digit vectors
 * (Montgomery form where the build uses it); Python does the representation change itself. */
#include "vs.h"

#ifdef WITH_FP
#if ALLOC == AUTO

#define FPB (RLC_FP_DIGS * sizeof(dig_t))

/* ---------------------------------------------------------------- types */

static int fp_mk(vs_slot *s, vs_rd *r) {
	size_t len;
	const uint8_t *d = rd_blob(r, &len);
	if (r->bad || len != FPB) return -1;
	dig_t *a = (dig_t *)vs_alloc_poisoned(sizeof(fp_st));
	memcpy(a, d, FPB);
	s->p = a;
	s->len = 1;
	return 0;
}
static void fp_dump_(const vs_slot *s, vs_wr *w) { wr_blob(w, s->p, s->len * FPB); }
static void fp_fr(vs_slot *s) { free(s->p); }
static uint64_t fp_hash_(const vs_slot *s) { return vs_fnv(0xcbf29ce484222325ULL, s->p, s->len * FPB); }
VS_TYPE(VT_FP, fp_mk, fp_dump_, fp_fr, fp_hash_)

static int fpv_mk(vs_slot *s, vs_rd *r) {
	uint32_t n = rd_u32(r);
	size_t len;
	const uint8_t *d = rd_blob(r, &len);
	if (r->bad || len != n * FPB || n > 4096) return -1;
	dig_t *a = (dig_t *)vs_alloc_poisoned((n ? n : 1) * sizeof(fp_st));
	memcpy(a, d, len);
	s->p = a;
	s->len = n;
	return 0;
}
VS_TYPE(VT_FPV, fpv_mk, fp_dump_, fp_fr, fp_hash_)

/* DV: payload = digits to fill (rest of the RLC_DV_DIGS vector stays poisoned) */
static int dv_mk(vs_slot *s, vs_rd *r) {
	size_t len;
	const uint8_t *d = rd_blob(r, &len);
	if (r->bad || len > RLC_DV_DIGS * sizeof(dig_t)) return 1;
	dig_t *a = (dig_t *)vs_alloc_poisoned(sizeof(dv_t));
	memcpy(a, d, len);
	s->p = a;
	s->len = len / sizeof(dig_t);
	return 0;
}
static void dv_dump_(const vs_slot *s, vs_wr *w) { wr_blob(w, s->p, RLC_DV_DIGS * sizeof(dig_t)); }
static uint64_t dv_hash_(const vs_slot *s) { return vs_fnv(0xcbf29ce484222325ULL, s->p, s->len * sizeof(dig_t)); }
VS_TYPE(VT_DV, dv_mk, dv_dump_, fp_fr, dv_hash_)

#define FP(i) ((dig_t *)vs_get(c->a[i], VT_FP))
#define FPV(i) ((fp_t *)vs_get(c->a[i], VT_FPV))
#define DV(i) ((dig_t *)vs_get(c->a[i], VT_DV))

/* ------------------------------------------------------------- parameters */

BIND(info_fp) {
	RET(RLC_FP_BITS); RET(RLC_FP_DIGS); RET(RLC_DIG); RET(FP_RDC); RET(RLC_DV_DIGS);
	RET(FP_ADD); RET(FP_MUL); RET(FP_SQR); RET(FP_INV); RET(FP_SMB); RET(FP_EXP);
#ifdef FP_QNRES
	RET(1);
#else
	RET(0);
#endif
	RET(MONTY); RET(QUICK); RET(BASIC);
}
BIND(fp_param_set) { fp_param_set((int)A(0)); }
BIND(fp_prime_set_dense) { fp_prime_set_dense(BN(0)); }
BIND(fp_prime_set_pmers) {
	/* sparse form given as signed immediates: a[0..n-1], n = A(last) */
	int f[12], n = (int)A(c->na - 1);
	for (int i = 0; i < n && i < 12; i++) f[i] = (int)(int64_t)A(i);
	fp_prime_set_pmers(f, (size_t)n);
}
BIND(fp_param_get) { RET(fp_param_get()); }
BIND(fp_prime_calc) { fp_prime_calc(); }
BIND(fp_prime_get) { ret_blob(c, fp_prime_get(), FPB); }
BIND(fp_prime_get_rdc) { ret_blob(c, fp_prime_get_rdc(), sizeof(dig_t)); }
BIND(fp_prime_get_conv) { ret_blob(c, fp_prime_get_conv(), FPB); }
BIND(fp_prime_get_srt) { ret_blob(c, fp_prime_get_srt(), FPB); }
BIND(fp_prime_get_crt) { ret_blob(c, fp_prime_get_crt(), FPB); }
BIND(fp_prime_get_mod8) { RET(fp_prime_get_mod8()); }
BIND(fp_prime_get_mod18) { RET(fp_prime_get_mod18()); }
BIND(fp_prime_get_qnr) { RET((int64_t)fp_prime_get_qnr()); }
BIND(fp_prime_get_cnr) { RET((int64_t)fp_prime_get_cnr()); }
BIND(fp_prime_get_2ad) { RET((int64_t)fp_prime_get_2ad()); }
BIND(fp_prime_get_sps) {
	int len = 0;
	const int *s = fp_prime_get_sps(&len);
	RET(s != NULL); RET(len);
	for (int i = 0; s != NULL && i < len && i < 12; i++) RET((int64_t)s[i]);
}
BIND(fp_prime_get_par) { fp_prime_get_par(BN(0)); }
BIND(fp_prime_get_par_sps) {
	int len = 0;
	const int *s = fp_prime_get_par_sps(&len);
	RET(s != NULL); RET(len);
	for (int i = 0; s != NULL && i < len && i < 12; i++) RET((int64_t)s[i]);
}
BIND(fp_ctx_consts) {
	/* the derived constants kept in the context (C18) */
	ctx_t *x = core_get();
	ret_blob(c, x->one.dp, x->one.used * sizeof(dig_t));
	ret_blob(c, x->conv.dp, x->conv.used * sizeof(dig_t));
	RET(x->u);
	RET(x->mod8); RET(x->mod18); RET((int64_t)x->qnr); RET((int64_t)x->cnr); RET((int64_t)x->ad2);
}

/* ---------------------------------------------------------------- arithmetic */

BIND(fp_add) { fp_add(FP(0), FP(1), FP(2)); }
BIND(fp_add_basic) { fp_add_basic(FP(0), FP(1), FP(2)); }
BIND(fp_add_integ) { fp_add_integ(FP(0), FP(1), FP(2)); }
BIND(fp_sub) { fp_sub(FP(0), FP(1), FP(2)); }
BIND(fp_sub_basic) { fp_sub_basic(FP(0), FP(1), FP(2)); }
BIND(fp_sub_integ) { fp_sub_integ(FP(0), FP(1), FP(2)); }
BIND(fp_neg) { fp_neg(FP(0), FP(1)); }
BIND(fp_neg_basic) { fp_neg_basic(FP(0), FP(1)); }
BIND(fp_neg_integ) { fp_neg_integ(FP(0), FP(1)); }
BIND(fp_dbl) { fp_dbl(FP(0), FP(1)); }
BIND(fp_dbl_basic) { fp_dbl_basic(FP(0), FP(1)); }
BIND(fp_dbl_integ) { fp_dbl_integ(FP(0), FP(1)); }
BIND(fp_hlv) { fp_hlv(FP(0), FP(1)); }
BIND(fp_hlv_basic) { fp_hlv_basic(FP(0), FP(1)); }
BIND(fp_hlv_integ) { fp_hlv_integ(FP(0), FP(1)); }
BIND(fp_trs) { fp_trs(FP(0), FP(1)); }
BIND(fp_add_dig) { fp_add_dig(FP(0), FP(1), (dig_t)A(2)); }
BIND(fp_sub_dig) { fp_sub_dig(FP(0), FP(1), (dig_t)A(2)); }
BIND(fp_mul_dig) { fp_mul_dig(FP(0), FP(1), (dig_t)A(2)); }
BIND(fp_mul) { fp_mul(FP(0), FP(1), FP(2)); }
BIND(fp_mul_basic) { fp_mul_basic(FP(0), FP(1), FP(2)); }
BIND(fp_mul_comba) { fp_mul_comba(FP(0), FP(1), FP(2)); }
BIND(fp_mul_integ) { fp_mul_integ(FP(0), FP(1), FP(2)); }
BIND(fp_mul_karat) { fp_mul_karat(FP(0), FP(1), FP(2)); }
BIND(fp_sqr) { fp_sqr(FP(0), FP(1)); }
BIND(fp_sqr_basic) { fp_sqr_basic(FP(0), FP(1)); }
BIND(fp_sqr_comba) { fp_sqr_comba(FP(0), FP(1)); }
BIND(fp_sqr_integ) { fp_sqr_integ(FP(0), FP(1)); }
BIND(fp_sqr_karat) { fp_sqr_karat(FP(0), FP(1)); }
BIND(fp_lsh) { fp_lsh(FP(0), FP(1), (uint_t)A(2)); }
BIND(fp_rsh) { fp_rsh(FP(0), FP(1), (uint_t)A(2)); }
BIND(fp_rdc) { fp_rdc(FP(0), DV(1)); }
BIND(fp_rdc_basic) { fp_rdc_basic(FP(0), DV(1)); }
BIND(fp_rdc_monty_basic) { fp_rdc_monty_basic(FP(0), DV(1)); }
BIND(fp_rdc_monty_comba) { fp_rdc_monty_comba(FP(0), DV(1)); }
BIND(fp_rdc_quick) { fp_rdc_quick(FP(0), DV(1)); }
BIND(fp_inv) { fp_inv(FP(0), FP(1)); }
BIND(fp_inv_basic) { fp_inv_basic(FP(0), FP(1)); }
BIND(fp_inv_binar) { fp_inv_binar(FP(0), FP(1)); }
BIND(fp_inv_monty) { fp_inv_monty(FP(0), FP(1)); }
BIND(fp_inv_exgcd) { fp_inv_exgcd(FP(0), FP(1)); }
BIND(fp_inv_divst) { fp_inv_divst(FP(0), FP(1)); }
BIND(fp_inv_jmpds) { fp_inv_jmpds(FP(0), FP(1)); }
BIND(fp_inv_lower) { fp_inv_lower(FP(0), FP(1)); }
BIND(fp_inv_sim) { fp_inv_sim(FPV(0), (const fp_t *)FPV(1), (int)A(2)); }
BIND(fp_smb) { RET((int64_t)fp_smb(FP(0))); }
BIND(fp_smb_basic) { RET((int64_t)fp_smb_basic(FP(0))); }
BIND(fp_smb_binar) { RET((int64_t)fp_smb_binar(FP(0))); }
BIND(fp_smb_divst) { RET((int64_t)fp_smb_divst(FP(0))); }
BIND(fp_smb_jmpds) { RET((int64_t)fp_smb_jmpds(FP(0))); }
BIND(fp_smb_lower) { RET((int64_t)fp_smb_lower(FP(0))); }
BIND(fp_exp) { fp_exp(FP(0), FP(1), BN(2)); }
BIND(fp_exp_basic) { fp_exp_basic(FP(0), FP(1), BN(2)); }
BIND(fp_exp_slide) { fp_exp_slide(FP(0), FP(1), BN(2)); }
BIND(fp_exp_monty) { fp_exp_monty(FP(0), FP(1), BN(2)); }
BIND(fp_exp_dig) { fp_exp_dig(FP(0), FP(1), (dig_t)A(2)); }
BIND(fp_is_sqr) { RET(fp_is_sqr(FP(0))); }
BIND(fp_srt) { RET(fp_srt(FP(0), FP(1))); }
BIND(fp_is_cub) { RET(fp_is_cub(FP(0))); }
BIND(fp_crt) { RET(fp_crt(FP(0), FP(1))); }

/* ------------------------------------------------------------------- utils */

BIND(fp_copy) { fp_copy(FP(0), FP(1)); }
BIND(fp_copy_sec) { fp_copy_sec(FP(0), FP(1), (dig_t)A(2)); }
BIND(fp_zero) { fp_zero(FP(0)); }
BIND(fp_is_zero) { RET(fp_is_zero(FP(0))); }
BIND(fp_is_even) { RET(fp_is_even(FP(0))); }
BIND(fp_get_bit) { RET(fp_get_bit(FP(0), (uint_t)A(1))); }
BIND(fp_set_bit) { fp_set_bit(FP(0), (uint_t)A(1), (int)A(2)); }
BIND(fp_set_dig) { fp_set_dig(FP(0), (dig_t)A(1)); }
BIND(fp_bits) { RET(fp_bits(FP(0))); }
BIND(fp_rand) { fp_rand(FP(0)); }
BIND(fp_cmp) { RET((int64_t)fp_cmp(FP(0), FP(1))); }
BIND(fp_cmp_dig) { RET((int64_t)fp_cmp_dig(FP(0), (dig_t)A(1))); }
BIND(fp_prime_conv) { fp_prime_conv(FP(0), BN(1)); }
BIND(fp_prime_conv_dig) { fp_prime_conv_dig(FP(0), (dig_t)A(1)); }
BIND(fp_prime_back) { fp_prime_back(BN(0), FP(1)); }
BIND(fp_size_str) { RET(fp_size_str(FP(0), (uint_t)A(1))); }
BIND(fp_read_str) { fp_read_str(FP(0), (const char *)BUF(1), A(3) == 0 ? BUFLEN(1) : (size_t)A(3) - 1, (uint_t)A(2)); }
BIND(fp_write_str) { fp_write_str((char *)BUF(0), BUFLEN(0), FP(1), (uint_t)A(2)); }
BIND(fp_read_bin) { fp_read_bin(FP(0), BUF(1), BUFLEN(1)); }
BIND(fp_write_bin) { fp_write_bin(BUF(0), BUFLEN(0), FP(1)); }

#endif /* ALLOC == AUTO */
#endif /* WITH_FP */

#include "vs.h"
#include <unistd.h>

vs_slot vs_slots[VS_MAX_SLOTS];
uint8_t vs_poison = 0xA5;

/* ---------------------------------------------------------------- registry */

typedef struct { const char *name; vs_fn fn; } vs_op;
static vs_op *ops;
static size_t nops, capops;
static int ops_sorted;

void vs_register(const char *name, vs_fn fn) {
	if (nops == capops) {
		capops = capops ? capops * 2 : 1024;
		ops = (vs_op *)realloc(ops, capops * sizeof(vs_op));
	}
	ops[nops].name = name;
	ops[nops].fn = fn;
	nops++;
	ops_sorted = 0;
}

static int op_cmp(const void *a, const void *b) {
	return strcmp(((const vs_op *)a)->name, ((const vs_op *)b)->name);
}

vs_fn vs_lookup(const char *name, size_t len) {
	char tmp[128];
	if (len >= sizeof(tmp)) return NULL;
	memcpy(tmp, name, len);
	tmp[len] = 0;
	if (!ops_sorted) {
		qsort(ops, nops, sizeof(vs_op), op_cmp);
		ops_sorted = 1;
	}
	size_t lo = 0, hi = nops;
	while (lo < hi) {
		size_t mid = (lo + hi) / 2;
		int r = strcmp(tmp, ops[mid].name);
		if (r == 0) return ops[mid].fn;
		if (r < 0) hi = mid; else lo = mid + 1;
	}
	return NULL;
}

void vs_list_ops(vs_wr *w) {
	if (!ops_sorted) {
		qsort(ops, nops, sizeof(vs_op), op_cmp);
		ops_sorted = 1;
	}
	for (size_t i = 0; i < nops; i++) {
		wr_raw(w, ops[i].name, strlen(ops[i].name));
		wr_u8(w, '\n');
	}
}

/* ------------------------------------------------------------------- wire */

void vs_die(const char *msg) {
	fprintf(stderr, "VS-HARNESS-ERROR: %s\n", msg);
	fflush(stderr);
	_exit(3);
}

static int need(vs_rd *r, size_t n) {
	if (r->bad || (size_t)(r->end - r->p) < n) { r->bad = 1; return 0; }
	return 1;
}
uint8_t rd_u8(vs_rd *r) { if (!need(r, 1)) return 0; return *r->p++; }
uint32_t rd_u32(vs_rd *r) {
	if (!need(r, 4)) return 0;
	uint32_t v; memcpy(&v, r->p, 4); r->p += 4; return v;
}
uint64_t rd_u64(vs_rd *r) {
	if (!need(r, 8)) return 0;
	uint64_t v; memcpy(&v, r->p, 8); r->p += 8; return v;
}
const uint8_t *rd_blob(vs_rd *r, size_t *len) {
	uint32_t n = rd_u32(r);
	if (!need(r, n)) { *len = 0; return NULL; }
	const uint8_t *p = r->p; r->p += n; *len = n; return p;
}
static void wr_need(vs_wr *w, size_t n) {
	if (w->len + n > w->cap) {
		size_t nc = w->cap ? w->cap * 2 : 4096;
		while (nc < w->len + n) nc *= 2;
		w->buf = (uint8_t *)realloc(w->buf, nc);
		if (!w->buf) vs_die("oom in writer");
		w->cap = nc;
	}
}
void wr_raw(vs_wr *w, const void *p, size_t n) { wr_need(w, n); if (n) memcpy(w->buf + w->len, p, n); w->len += n; }
void wr_u8(vs_wr *w, uint8_t v) { wr_raw(w, &v, 1); }
void wr_u32(vs_wr *w, uint32_t v) { wr_raw(w, &v, 4); }
void wr_u64(vs_wr *w, uint64_t v) { wr_raw(w, &v, 8); }
void wr_blob(vs_wr *w, const void *p, size_t n) { wr_u32(w, (uint32_t)n); wr_raw(w, p, n); }

uint64_t vs_fnv(uint64_t h, const void *p, size_t n) {
	const uint8_t *b = (const uint8_t *)p;
	for (size_t i = 0; i < n; i++) { h ^= b[i]; h *= 0x100000001b3ULL; }
	return h;
}

/* ------------------------------------------------------------------ slots */

void *vs_alloc_poisoned(size_t n) {
	void *p = malloc(n ? n : 1);
	if (!p) vs_die("oom");
	memset(p, vs_poison, n);
	return p;
}

vs_slot *vs_slot_at(uint64_t idx) {
	if (idx >= VS_MAX_SLOTS) vs_die("slot index out of range");
	return &vs_slots[idx];
}

void *vs_get(uint64_t idx, int type) {
	vs_slot *s = vs_slot_at(idx);
	if (s->type != type) {
		char m[96];
		snprintf(m, sizeof m, "slot %llu has type %d, binding wants %d", (unsigned long long)idx, s->type, type);
		vs_die(m);
	}
	return s->p;
}

void ret_u64(vs_call *c, uint64_t v) {
	if (c->nr >= VS_MAX_RETS) vs_die("too many returns");
	c->r[c->nr++] = v;
}
void ret_blob(vs_call *c, const void *p, size_t len) {
	wr_blob(&c->rb, p, len);
	c->nrb++;
}

/* --------------------------------------------------------- UBSan reporting */

#define VS_MAX_UB 6
static char ub_msgs[VS_MAX_UB][200];
static int ub_n;

__attribute__((weak)) void __ubsan_get_current_report_data(const char **kind, const char **msg,
		const char **file, unsigned *line, unsigned *col, char **addr);

void __ubsan_on_report(void) {
	const char *kind = "?", *msg = "?", *file = "?";
	unsigned line = 0, col = 0;
	char *addr = NULL;
	if (__ubsan_get_current_report_data) {
		__ubsan_get_current_report_data(&kind, &msg, &file, &line, &col, &addr);
	}
	if (ub_n < VS_MAX_UB) {
		const char *base = file;
		/* keep the path from "src/" or "include/" on, so that reports are tree-location independent */
		const char *q = strstr(file, "/src/");
		if (!q) q = strstr(file, "/include/");
		if (q) base = q + 1;
		snprintf(ub_msgs[ub_n], sizeof ub_msgs[ub_n], "%s|%s:%u|%s", kind, base, line, msg);
		ub_n++;
	}
}

/* ------------------------------------------------------------- execution */

static void __attribute__((noinline)) scribble(uint8_t v) {
	volatile uint8_t a[192 * 1024];
	memset((void *)a, v, sizeof a);
	__asm__ volatile("" ::: "memory");
}

/* Handler-chain invariant (C19: "the handler chain is restored to what it was before the block"; C08: "the library
 * remains usable afterwards"): when a call returns normally, ctx->last must be what it was when the call started -
 * the enclosing protected block, or, for an unprotected call, the previous value / the context's own error record
 * that RLC_THROW installs outside any block. Anything else is a pointer into a dead stack frame (a return / goto out
 * of a protected block in the callee): the next error raised would longjmp into it. Reported through the same
 * channel as sanitizer findings, then repaired so that the runner goes on. */
static void chain_broken(const char *how) {
	if (ub_n < VS_MAX_UB) {
		snprintf(ub_msgs[ub_n], sizeof ub_msgs[ub_n],
			"handler-chain|relic_err.h:0|ctx->last not restored after the call (%s): return/goto out of a protected block?", how);
		ub_n++;
	}
}

static void __attribute__((noinline)) do_call(vs_fn fn, vs_call *c, int unprot, volatile int *caught,
		volatile err_t *ecode) {
	err_t e = 0;
	*caught = 0;
	if (unprot) {
#ifdef CHECK
		ctx_t *ctx = core_get();
		sts_t *before = ctx->last;
		fn(c);
		if (ctx->last != before && ctx->last != &ctx->error) {
			chain_broken("unprotected call");
			ctx->last = before;
		}
#else
		fn(c);
#endif
		return;
	}
	RLC_TRY {
		fn(c);
#ifdef CHECK
		if (core_get()->last != &_this) {
			chain_broken("call inside a protected block");
			core_get()->last = &_this;
		}
#endif
	} RLC_CATCH(e) {
		*caught = 1;
		*ecode = e;
	}
}

static void free_slots(void) {
	for (int i = 0; i < VS_MAX_SLOTS; i++) {
		if (vs_slots[i].type != VT_NONE) {
			vs_free_obj(&vs_slots[i]);
			vs_slots[i].type = VT_NONE;
			vs_slots[i].p = NULL;
		}
	}
}

void vs_list_ops(vs_wr *w);

int vs_exec(const uint8_t *req, size_t len, vs_wr *out) {
	vs_rd rd = { req, req + len, 0 };
	vs_rd *r = &rd;
	uint8_t poison = rd_u8(r);
	uint8_t flags = rd_u8(r);
	size_t seedlen;
	const uint8_t *seed = rd_blob(r, &seedlen);
	if (r->bad) { wr_u8(out, 'X'); return -1; }

	vs_poison = poison;
	ctx_t *ctx = core_get();
#ifdef CHECK
	ctx->last = NULL;
	ctx->caught = 0;
#endif
	ctx->code = RLC_OK;
	if (seedlen > 0) {
		ctx->seeded = 0;
		rand_seed((uint8_t *)seed, seedlen);
	}
	if (!(flags & 4)) free_slots();

	for (;;) {
		uint8_t ins = rd_u8(r);
		if (r->bad) { wr_u8(out, 'X'); return -1; }
		if (ins == 'E') break;
		if (ins == 'L') {
			wr_u8(out, 'L');
			vs_wr tmp = { 0 };
			vs_list_ops(&tmp);
			wr_blob(out, tmp.buf, tmp.len);
			free(tmp.buf);
			continue;
		}
		if (ins == 'N') {
			uint8_t type = rd_u8(r);
			uint8_t idx = rd_u8(r);
			vs_slot *s = vs_slot_at(idx);
			if (s->type != VT_NONE) { vs_free_obj(s); s->type = VT_NONE; }
			volatile int caught = 0; volatile err_t ec = 0;
			int rc = -1;
			err_t e = 0;
			RLC_TRY {
				rc = vs_new_obj(s, type, r);
			} RLC_CATCH(e) {
				caught = 1;
			}
			(void)ec;
			if (r->bad) { wr_u8(out, 'X'); return -1; }
			if (rc != 0 || caught) {
				/* object not constructible in this configuration (e.g. value exceeds precision) */
				wr_u8(out, 'n'); wr_u8(out, idx);
				err_get_code();
				s->type = VT_NONE;
			}
			continue;
		}
		if (ins == 'D') {
			uint8_t idx = rd_u8(r);
			vs_slot *s = vs_slot_at(idx);
			wr_u8(out, 'D'); wr_u8(out, idx); wr_u8(out, (uint8_t)s->type);
			if (s->type != VT_NONE) vs_dump_obj(s, out);
			continue;
		}
		if (ins == 'F') {
			uint8_t idx = rd_u8(r);
			vs_slot *s = vs_slot_at(idx);
			if (s->type != VT_NONE) { vs_free_obj(s); s->type = VT_NONE; s->p = NULL; }
			continue;
		}
		if (ins == 'C') {
			size_t nlen;
			const uint8_t *name = rd_blob(r, &nlen);
			vs_call call;
			memset(&call, 0, sizeof call);
			call.na = rd_u8(r);
			if (call.na > VS_MAX_ARGS) { wr_u8(out, 'X'); return -1; }
			for (int i = 0; i < call.na; i++) call.a[i] = rd_u64(r);
			if (r->bad) { wr_u8(out, 'X'); return -1; }
			vs_fn fn = vs_lookup((const char *)name, nlen);
			wr_u8(out, 'C');
			if (!fn) {
				wr_u8(out, 2);
				continue;
			}
			uint64_t before[VS_MAX_SLOTS];
			for (int i = 0; i < VS_MAX_SLOTS; i++)
				before[i] = vs_slots[i].type != VT_NONE ? vs_hash_obj(&vs_slots[i]) : 0;
			ub_n = 0;
			volatile int caught = 0;
			volatile err_t ecode = 0;
			if (!(flags & 8)) scribble(poison);
			do_call(fn, &call, flags & 1, &caught, &ecode);
			int code = err_get_code();
#ifdef CHECK
			int first = 0;
			if ((flags & 1) && ctx->last == &ctx->error) {
				first = ctx->number;
				ctx->last = NULL;
			}
#else
			int first = 0;
#endif
			wr_u8(out, caught ? 1 : 0);
			wr_u32(out, (uint32_t)ecode);
			wr_u32(out, (uint32_t)code);
			wr_u32(out, (uint32_t)first);
			wr_u8(out, (uint8_t)ub_n);
			for (int i = 0; i < ub_n; i++) wr_blob(out, ub_msgs[i], strlen(ub_msgs[i]));
			uint64_t ch[2] = { 0, 0 };
			for (int i = 0; i < VS_MAX_SLOTS; i++) {
				uint64_t h = vs_slots[i].type != VT_NONE ? vs_hash_obj(&vs_slots[i]) : 0;
				if (h != before[i]) ch[i / 64] |= (uint64_t)1 << (i % 64);
			}
			wr_u64(out, ch[0]); wr_u64(out, ch[1]);
			wr_u8(out, (uint8_t)call.nr);
			for (int i = 0; i < call.nr; i++) wr_u64(out, call.r[i]);
			wr_u8(out, (uint8_t)call.nrb);
			wr_raw(out, call.rb.buf, call.rb.len);
			free(call.rb.buf);
			continue;
		}
		wr_u8(out, 'X');
		return -1;
	}
	wr_u8(out, 'E');
	return 0;
}

void vs_init(void) {
	if (core_init() != RLC_OK) vs_die("core_init failed");
}

"""Binary-field / binary-curve contexts (the GF(2^m) twin of ecctx.py): discovery of the selectable reduction
polynomials and curve parameter sets by probing, selection with caching (fb_param_set / eb_param_set are slow:
they rebuild trace, half-trace, sqrt(z), Itoh-Tsujii and fixed-base tables), raw transport of field elements and
points (x, y, z, coord), reference-side bookkeeping of points as [m]G + [t]S (S generates the 2-power torsion)."""
import struct

from . import proto
from .core import Unsupported, Violation
from .proto import Prog
from .ref import ecb, gf2m

# slot types private to engine/shim/b_fb.c (ids above the shared enumeration)
proto.VT.setdefault("FBV", 41)
proto.VT.setdefault("FBD", 42)
proto.VT_NAME.update({41: "FBV", 42: "FBD"})

_CACHE = {}

# identifiers of relic_fb.h (enum order) -> degree, as documented in the header: only polynomials whose degree is the
# build's FB_POLYN are selectable (fb_param_set itself does not check, it would plant foreign taps under z^m)
FB_IDS = ["PENTA_8", "PENTA_64", "TRINO_113", "TRINO_127", "PENTA_128", "PENTA_131", "NIST_163", "SQRT_163", "TRINO_193",
          "NIST_233", "SQRT_233", "SECG_239", "SQRT_239", "SQRT_251", "PENTA_251", "TRINO_257", "TRINO_271", "PENTA_271",
          "NIST_283", "SQRT_283", "TRINO_353", "TRINO_367", "NIST_409", "TRINO_439", "TRINO_511", "NIST_571", "SQRT_571",
          "TRINO_1223"]
FB_DEGREE = {i + 1: int(n.split("_")[1]) for i, n in enumerate(FB_IDS)}
FB_NAME = {i + 1: n for i, n in enumerate(FB_IDS)}


# identifiers of relic_eb.h (enum order) -> field degree; "B" sets need EB_PLAIN, "K" sets EB_KBLTZ
EB_IDS = ["NIST_B163", "NIST_K163", "NIST_B233", "NIST_K233", "EBACS_B251", "HALVE_B257", "SECG_K239", "NIST_B283",
          "NIST_K283", "NIST_B409", "NIST_K409", "NIST_B571", "NIST_K571"]
EB_NAME = {i + 1: n for i, n in enumerate(EB_IDS)}


def reset(cfg):
    """forget everything learnt about a configuration (used when a set-up failure is re-examined)"""
    for k in [k for k in _CACHE if k[1] == cfg]:
        del _CACHE[k]


class FieldCtx:
    """One selectable field: reference field K plus the transport parameters."""

    def __init__(self, fid, f, W, digs):
        self.fid = fid
        self.K = gf2m.GF2m(f)
        self.m = self.K.m
        self.W = W
        self.digs = digs
        self.nbytes = W * digs // 8
        self.vecbits = W * digs

    def raw(self, a):
        return a.to_bytes(self.nbytes, "little")

    def enc(self, a):
        """payload of an FB slot"""
        return struct.pack("<I", self.nbytes) + self.raw(a)

    def enc2(self, a):
        """payload of an FB2 slot, a = (a0, a1)"""
        return struct.pack("<I", 2 * self.nbytes) + self.raw(a[0]) + self.raw(a[1])

    def encv(self, xs, alloc=None):
        """payload of an FBV slot: alloc elements allocated, len(xs) filled"""
        body = b"".join(self.raw(x) for x in xs)
        return struct.pack("<II", len(xs) if alloc is None else alloc, len(body)) + body

    def encd(self, t):
        """payload of an FBD (double-length) slot"""
        return struct.pack("<I", 2 * self.nbytes) + t.to_bytes(2 * self.nbytes, "little")

    def dec(self, blob, what, i=0):
        """field element i of a dump; a set bit at or above z^m is a non-canonical result"""
        v = int.from_bytes(blob[i * self.nbytes:(i + 1) * self.nbytes], "little")
        if v >> self.m:
            raise Violation("%s: result not reduced (degree >= m)" % what, raw=v, m=self.m)
        return v


class CurveCtx:
    pass


def _info(env, cfg):
    r = env.runner(cfg)
    if "fb_param_set" not in r.ops():
        raise Unsupported()
    return r.info("info_fb")


def discover_fields(env, cfg):
    """Candidate field identifiers of this build (static: documented degree == FB_POLYN); the polynomial itself is
    read and validated lazily by field()."""
    key = ("f", cfg)
    if key in _CACHE:
        return _CACHE[key]
    inf = _info(env, cfg)
    m, digs, W = inf[0], inf[1], inf[2]
    _CACHE[key] = dict(fids=[fid for fid in sorted(FB_DEGREE) if FB_DEGREE[fid] == m], inf=inf, m=m, W=W, digs=digs,
                       ctx={})
    return _CACHE[key]


def field(env, cfg, fid):
    """FieldCtx of identifier fid: f from fb_poly_get(), validated irreducible of degree m by the reference."""
    d = discover_fields(env, cfg)
    if fid not in d["fids"]:
        raise Unsupported()
    if fid in d["ctx"]:
        return d["ctx"][fid]
    r = env.runner(cfg)
    p = Prog()
    invalidate(env, cfg)
    p.call("fb_param_set", fid)
    p.call("fb_poly_get")
    p.call("fb_poly_get_rdc")
    res = r.run(p)
    if res.calls[0].errored:
        raise Violation("fb_param_set(%s) failed in a build of that degree" % FB_NAME[fid])
    f = int.from_bytes(res.calls[1].blobs[0], "little")
    if f.bit_length() - 1 != d["m"] or not gf2m.is_irreducible(f):
        raise Violation("fb_param_set(%s): configured polynomial is not an irreducible polynomial of degree %d "
                        "(reference Rabin test)" % (FB_NAME[fid], d["m"]), f=f)
    F = FieldCtx(fid, f, d["W"], d["digs"])
    F.rdc = [res.calls[2].ret_i(i) for i in range(3)]
    F.inf = d["inf"]
    d["ctx"][fid] = F
    _state(cfg)["cur"] = (r.uid, r.starts, "fb", fid)
    return F


def job_field(env, cfg):
    fids = discover_fields(env, cfg)["fids"]
    if not fids:
        raise Unsupported()
    return field(env, cfg, fids[env.job_seed % len(fids)])


# ------------------------------------------------------------------------------------ selection state

def _state(cfg):
    return _CACHE.setdefault(("s", cfg), {"cur": None})


def invalidate(env, cfg):
    _state(cfg)["cur"] = None


def select(env, cfg, prog, what, ident):
    """Prepend fb_param_set / eb_param_set only when the runner process has something else active."""
    st = _state(cfg)
    r = env.runner(cfg)
    restart = r.proc is None or r.proc.poll() is not None or r.ncases >= r.recycle
    if restart or st["cur"] != (r.uid, r.starts, what, ident):
        prog.call("fb_param_set" if what == "fb" else "eb_param_set", ident)
        st["cur"] = (r.uid, r.starts + (1 if restart else 0), what, ident)
        return 1
    return 0


def run(env, cfg, what, ident, build, poison, seed=b"", timeout=None, prev=None):
    """Build and run a program with field fid / curve cid active; returns (result, meta) with the selection call
    stripped. prev: identifier of ANOTHER field to install right before (tables and constants derived for the
    previous polynomial must not survive the switch); the next case then gets a fresh runner process."""
    p = Prog(poison=poison, seed=seed)
    if prev is not None and what == "fb" and prev != ident:
        # in a process of its own, so that the history is exactly (prev, ident) whatever ran before - also in a replay,
        # where the discovery of the field context has just installed ident
        env.runner(cfg).ncases = env.runner(cfg).recycle
        p.call("fb_param_set", prev)
        p.call("fb_param_set", ident)
        skip = 2
    else:
        prev = None
        skip = select(env, cfg, p, what, ident)
    meta = build(p)
    try:
        res = env.runner(cfg).run(p, timeout=timeout)
    except Exception:
        invalidate(env, cfg)
        raise
    finally:
        if prev is not None:
            env.runner(cfg).ncases = env.runner(cfg).recycle
            invalidate(env, cfg)
    if res.failed_new:
        raise Unsupported()
    if skip and any(c_.errored for c_ in res.calls[:skip]):
        invalidate(env, cfg)
        raise Violation("%s_param_set(%d) failed for a selectable identifier" % (what, ident))
    res.calls = res.calls[skip:]
    return res, meta


# ------------------------------------------------------------------------------------ curves

def discover_curves(env, cfg):
    """Every parameter set eb_param_set() accepts in this build (unknown identifiers raise ERR_NO_VALID), with the
    raw parameters read through the getters; the reference-side context is built lazily by curve()."""
    key = ("c", cfg)
    if key in _CACHE:
        return _CACHE[key]
    r = env.runner(cfg)
    if "eb_param_set" not in r.ops():
        raise Unsupported()
    inf = _info(env, cfg)
    inf_eb = r.info("info_eb")
    m, digs, W = inf[0], inf[1], inf[2]
    nb = W * digs // 8
    raw = {}
    invalidate(env, cfg)
    for cid in range(1, 40):
        p = Prog()
        p.call("eb_param_set", cid)
        sn, sh = p.bn(0), p.bn(0)
        sg = p.new("EB", struct.pack("<I", 3 * nb + 1) + bytes(3 * nb) + b"\x01")
        p.call("eb_curve_params", sn, sh, sg)
        p.call("fb_poly_get")
        p.dump(sn), p.dump(sh), p.dump(sg)
        res = r.run(p)
        if res.calls[0].errored:
            continue
        pc = res.calls[1]
        raw[cid] = dict(f=int.from_bytes(res.calls[2].blobs[0], "little"), a=int.from_bytes(pc.blobs[0], "little"),
                        b=int.from_bytes(pc.blobs[1], "little"), opt_a=pc.rets[0], opt_b=pc.rets[1], kbltz=pc.rets[2],
                        fid=pc.rets[3], n=res.dumps[sn].value, h=res.dumps[sh].value, g=res.dumps[sg])
        _state(cfg)["cur"] = (r.uid, r.starts, "eb", cid)
    # the parameter sets documented for this field size must be selectable (a set that silently drops out would
    # otherwise just shrink the search)
    for cid, name in EB_NAME.items():
        need = inf_eb[16] if "_K" in name else inf_eb[15]
        if int(name.split("_")[1][1:]) == m and need and cid not in raw:
            raise Violation("eb_param_set(%s) failed in a build of that field size" % name, cid=cid)
    _CACHE[key] = dict(raw=raw, cids=sorted(raw), inf_eb=inf_eb, inf=inf, ctx={}, m=m, W=W, digs=digs)
    return _CACHE[key]


def curve(env, cfg, cid):
    d = discover_curves(env, cfg)
    if cid not in d["raw"]:
        raise Unsupported()
    if cid in d["ctx"]:
        return d["ctx"][cid]
    rw, inf_eb, m = d["raw"][cid], d["inf_eb"], d["m"]
    c = CurveCtx()
    c.cid = cid
    f = rw["f"]
    if f.bit_length() - 1 != m or not gf2m.is_irreducible(f):
        raise Violation("eb_param_set(%d): field polynomial is not irreducible of degree %d" % (cid, m), f=f)
    c.F = FieldCtx(rw["fid"], f, d["W"], d["digs"])
    c.K = c.F.K
    c.a, c.b = rw["a"], rw["b"]
    c.opt_a, c.opt_b, c.is_kbltz = rw["opt_a"], rw["opt_b"], rw["kbltz"]
    c.n, c.h = rw["n"], rw["h"]
    if c.a >> m or c.b >> m or c.b == 0:
        raise Violation("curve %d: coefficients not reduced / singular" % cid)
    c.E = ecb.BinaryCurve(c.K, c.a, c.b)
    c.inf = inf_eb
    c.BASIC, c.PROJC, c.HALVE, c.EB_ADD = inf_eb[0], inf_eb[1], inf_eb[2], inf_eb[3]
    c.EB_MUL, c.EB_FIX, c.EB_SIM = inf_eb[4], inf_eb[5], inf_eb[6]
    c.TAB = dict(basic=inf_eb[7], combs=inf_eb[8], combd=inf_eb[9], lwnaf=inf_eb[10], cur=inf_eb[11], max=inf_eb[12])
    c.WIDTH, c.DEPTH = inf_eb[13], inf_eb[14]
    c.PLAIN, c.KBLTZ, c.MIXED, c.PRECO = inf_eb[15], inf_eb[16], inf_eb[17], inf_eb[18]
    c.ALG = dict(LODAH=inf_eb[19], LWNAF=inf_eb[20], RWNAF=inf_eb[21], COMBS=inf_eb[22], COMBD=inf_eb[23],
                 TRICK=inf_eb[24], INTER=inf_eb[25], JOINT=inf_eb[26])
    G, meta = dec_point(c, rw["g"], "generator")
    c.G = G
    E = c.E
    # sanity so that a corrupted table cannot make both sides agree silently (C18 checks the tables in depth)
    if G is None or not E.on_curve(G) or E.mul(c.n, G) is not None or c.h not in (2, 4) or c.n % 2 == 0 or \
            (c.h == 2) != (c.K.trace(c.a) == 1):
        raise Violation("curve %d: generator / order / cofactor inconsistent (reference check)" % cid, cid=cid)
    # 2-power torsion: cyclic of order h, generated by S (the order-2 point T for h = 2, a half of T for h = 4)
    T = E.order2()
    if c.h == 2:
        c.S = T
    else:
        hs = E.halves(T)
        if not hs:
            raise Violation("curve %d: cofactor 4 but no point of order four" % cid)
        c.S = min(hs)
    c.T = T
    c.tors = [None]
    for _ in range(c.h - 1):
        c.tors.append(E.add(c.tors[-1], c.S))
    if E.add(c.tors[-1], c.S) is not None or c.tors[c.h // 2] != T:
        raise Violation("curve %d: torsion structure inconsistent" % cid)
    # powers of two of G for fast reference multiples [s]G (cross-checked against double-and-add)
    c.pow2 = [G]
    for _ in range(c.n.bit_length()):
        c.pow2.append(E.dbl(c.pow2[-1]))
    c._small = {}
    s = (c.n * 5) // 7
    if mulG(c, s) != E.mul(s, G) or mulG(c, c.n - 1) != E.neg(G):
        raise Violation("reference self-check: table-based [s]G disagrees with double-and-add")
    d["ctx"][cid] = c
    return c


def job_curve(env, cfg, pred=None):
    d = discover_curves(env, cfg)
    cids = [cid for cid in d["cids"] if pred is None or pred(d["raw"][cid])]
    if not cids:
        raise Unsupported()
    return curve(env, cfg, cids[env.job_seed % len(cids)])


def mulG(c, s):
    """[s]G by adding the cached [2^i]G (reference arithmetic only), cached for repeated use."""
    s %= c.n
    if s in c._small:
        return c._small[s]
    E = c.E
    R = None
    i = 0
    t = s
    while t:
        if t & 1:
            R = E.add(R, c.pow2[i])
        t >>= 1
        i += 1
    if len(c._small) > 6000:
        c._small.clear()
    c._small[s] = R
    return R


def point(c, m, t=0):
    """The curve point [m]G + [t]S (every point of E(GF(2^m)) has this form: E = <G> x <S>)."""
    P = mulG(c, m)
    t %= c.h
    return c.E.add(P, c.tors[t]) if t else P


# ------------------------------------------------------------------------------------ point transport

def enc_point(c, P, rep="basic", z=1, infty_style=0, lam=None):
    """Payload of an EB slot. rep: basic (affine, z = 1) | projc (Lopez-Dahab: x = X/Z, y = Y/Z^2) |
    halve ((x, lambda = x + y/x), z = 1, the output form of eb_hlv)."""
    F, K = c.F, c.K
    if P is None:
        if infty_style == 0 or rep != "projc":
            x, y, zz, coord = 0, 0, 0, c.BASIC              # what eb_set_infty() writes
        else:
            x, y, zz, coord = K.red(z) or 1, 0, 0, c.PROJC  # (X : 0 : 0), what doubling the order-2 point yields
    elif rep == "basic":
        x, y, zz, coord = P[0], P[1], 1, c.BASIC
    elif rep == "projc":
        zz = K.red(z) or 1
        x, y, coord = K.mul(P[0], zz), K.mul(P[1], K.sqr(zz)), c.PROJC
    elif rep == "halve":
        if P[0] == 0:
            raise Unsupported()
        x, y, zz, coord = P[0], P[0] ^ K.div(P[1], P[0]), 1, c.HALVE
    else:
        raise ValueError(rep)
    body = F.raw(x) + F.raw(y) + F.raw(zz) + bytes([coord])
    return struct.pack("<I", len(body)) + body


def enc_raw_point(c, x, y, z, coord):
    body = c.F.raw(x) + c.F.raw(y) + c.F.raw(z) + bytes([coord])
    return struct.pack("<I", len(body)) + body


def enc_points(c, blobs, alloc=None):
    """Payload of an EBV slot from individual EB payloads."""
    n = len(blobs)
    return struct.pack("<II", n if alloc is None else alloc, n) + b"".join(blobs)


def _dec_one(c, b, what):
    F, K = c.F, c.K
    nb = F.nbytes
    vals = [F.dec(b, "%s (coordinate %s)" % (what, "xyz"[i]), i) for i in range(3)]
    coord = struct.unpack_from("<I", b, 3 * nb + 1)[0]
    x, y, z = vals
    meta = dict(coord=coord, x=x, y=y, z=z)
    if z == 0:
        return None, meta
    if coord == c.BASIC:
        if z != 1:
            raise Violation("%s: point tagged affine but z != 1" % what, z=z)
        return (x, y), meta
    if coord == c.PROJC:
        zi = K.inv(z)
        return (K.mul(x, zi), K.mul(y, K.sqr(zi))), meta
    if coord == c.HALVE:
        if z != 1:
            raise Violation("%s: point in halving coordinates but z != 1" % what, z=z)
        return (x, K.mul(x, x ^ y)), meta
    raise Violation("%s: unknown coordinate tag %d" % (what, coord))


def dec_point(c, blob, what):
    return _dec_one(c, blob[:3 * c.F.nbytes + 5], what)


def dec_points(c, blob, what):
    rl = 3 * c.F.nbytes + 5
    return [_dec_one(c, blob[i * rl:(i + 1) * rl], "%s[%d]" % (what, i)) for i in range(len(blob) // rl)]

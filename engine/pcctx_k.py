"""Generalisation of engine/pcctx.py to the pairing sets whose second group lives on a curve over a cubic, quartic or
octic extension (ep3_*, ep4_*, ep8_*: embedding degrees 18, 16/24, 48).  One set per build configuration: the one the
library's own selector (pc_param_set_any -> ep_param_set_any_pairf) installs, selected exactly once per runner process
(epK_curve_set_twist rewrites the field's Frobenius constants in place, so re-selection is deliberately avoided; that
state machine belongs to C19).

The context exposes the same attributes as pcctx.PairCtx under degree-neutral names:
  K (2, 3, 4, 8), FK (reference field Fp^K from engine.ref.ext.build_tower), EK (reference curve over FK), G2, r, h2,
  base (ecctx curve context of E(Fp)), pfx ('ep3_' ...), and the point transport enc_point / dec_points.
Coefficient vectors travel flat over Fp in the library's memory order = depth-first nesting of the tower
(FK.flatten / FK.unflatten)."""
import struct

from . import ecctx
from .core import Unsupported, Violation
from .proto import Prog
from .ref import ec as rec
from .ref import ext as rext
from .ref import fp as rfp

_CACHE = {}


class PairCtxK:
    pass


def _fp_list(F, blob):
    nb = F.nbytes
    return [F.dec(blob[i * nb:(i + 1) * nb])[0] for i in range(len(blob) // nb)]


def _selected(env, cfg, prog):
    """prepend the selection when this runner process has not selected the set yet; returns #calls to strip"""
    r = env.runner(cfg)
    d = _CACHE.setdefault(("sel", cfg), {"cur": None})
    alive = r.proc is not None and r.proc.poll() is None
    if alive and d["cur"] == (r.uid, r.starts) and r.ncases + 1 < r.recycle:
        return 0
    if alive:
        r.close()                      # select in a fresh process only (see module docstring)
    prog.call("pc_param_set_any")
    d["pending"] = True
    return 1


def _after_run(env, cfg):
    r = env.runner(cfg)
    d = _CACHE.setdefault(("sel", cfg), {"cur": None})
    if d.pop("pending", False):
        d["cur"] = (r.uid, r.starts)


def _invalidate(env, cfg):
    _CACHE.setdefault(("sel", cfg), {"cur": None})["cur"] = None
    ecctx.invalidate(env, cfg)
    try:
        from . import pcctx
        if cfg in pcctx._CACHE:
            pcctx._CACHE[cfg]["cur"] = None
    except Exception:
        pass


def _base_curve(env, cfg, res_cp, res_prime, cid, sn, sh, sg, dumps):
    """ecctx-style context of the selected base curve E(Fp) from one ep_curve_params call (the full ecctx.discover
    probe of every curve id is avoided: it costs seconds and re-selects curves in this process)"""
    r = env.runner(cfg)
    inf_fp = r.info("info_fp")
    inf_ep = r.info("info_ep")
    digs, W, rdc = inf_fp[1], inf_fp[2], inf_fp[3]
    c = ecctx.CurveCtx()
    c.cid = cid
    prime = int.from_bytes(res_prime.blobs[0], "little")
    pc = res_cp
    c.fid = pc.rets[8] if len(pc.rets) > 8 else 0
    c.F = rfp.Field(c.fid, prime, W, digs, rdc == inf_fp[12])
    c.K = rec.PrimeField(prime)
    c.a = c.F.dec(pc.blobs[0])[0]
    c.b = c.F.dec(pc.blobs[1])[0]
    c.is_endom, c.is_super, c.is_pairf, c.is_ctmap = pc.rets[0], pc.rets[1], pc.rets[2], pc.rets[3]
    c.n = dumps[sn].value
    c.h = dumps[sh].value
    c.E = rec.Curve(c.K, c.a, c.b)
    c.inf = inf_ep
    c.BASIC, c.PROJC, c.JACOB, c.EP_ADD = inf_ep[0], inf_ep[1], inf_ep[2], inf_ep[3]
    G, _ = ecctx.dec_point(c, dumps[sg], "generator")
    c.G = G
    if G is None or not c.E.on_curve(G) or c.E.mul(c.n, G) is not None:
        raise Violation("curve %d: generator/order inconsistent (reference check)" % cid, cid=cid)
    return c


def discover(env, cfg):
    if cfg in _CACHE:
        return _CACHE[cfg]
    r = env.runner(cfg)
    ops = r.ops()
    notes = []
    out = dict(ctx=None, notes=notes)
    _CACHE[cfg] = out
    if "pc_param_set_any" not in ops or "ep4_curve_params" not in ops or "tower_params" not in ops:
        notes.append("runner has no pairing layer / epK bindings")
        return out
    inf_fp = r.info("info_fp")
    nb0 = inf_fp[2] * inf_fp[1] // 8
    r.close()
    p = Prog()
    p.call("pc_param_set_any")
    p.call("info_pc")
    p.call("ep_param_get")
    p.call("tower_params")
    spar = p.bn(0)
    p.call("epk_base_info", spar)
    sn1, sh1 = p.bn(0), p.bn(0)
    sg1 = p.new("EP", struct.pack("<I", 3 * nb0 + 1) + bytes(3 * nb0) + b"\x01")
    p.call("ep_curve_params", sn1, sh1, sg1)
    p.call("fp_prime_get")
    p.dump(spar), p.dump(sn1), p.dump(sh1), p.dump(sg1)
    res = r.run(p)
    _invalidate(env, cfg)
    if res.failed_new or res.calls[0].errored or res.calls[0].ret_i(0) != 0:
        notes.append("no pairing set selectable by pc_param_set_any")
        return out
    kemb, K = res.calls[1].rets[0], res.calls[1].rets[1]
    cid = res.calls[2].rets[0]
    if K not in (2, 3, 4, 8) or (K == 2 and kemb == 12):
        # K = 2 with embedding degree 12 is engine/pcctx.py (several sets per build); K = 2 with k = 8 (GMT8_P544,
        # quartic twist over Fp2) is served here like the other one-set-per-build configurations
        notes.append("G2 degree %d is not handled here (2 = engine/pcctx.py)" % K)
        return out
    c = _base_curve(env, cfg, res.calls[5], res.calls[6], cid, sn1, sh1, sg1, res.dumps)
    F = c.F
    tp = res.calls[3]
    qnr, cnr = tp.ret_i(0), tp.ret_i(1)
    E2 = tuple(_fp_list(F, tp.blobs[0]))
    E3 = tuple(_fp_list(F, tp.blobs[1]))
    T = rext.build_tower(F.p, qnr if qnr else None, cnr if cnr else None, E2 if qnr else None,
                         E3 if (cnr and any(E3)) else None)
    if K not in T:
        notes.append("reference tower has no degree-%d field for this prime (qnr=%d cnr=%d)" % (K, qnr, cnr))
        return out
    FK = T[K]
    pfx = "ep%d_" % K
    # second program in the same process: parameters of the twist
    nb = F.nbytes
    p = Prog()
    sn, sh = p.bn(0), p.bn(0)
    sg = p.new("EP2", bytes([K]) + struct.pack("<I", 3 * K * nb + 1) + bytes(3 * K * nb) + b"\x01")
    p.call(pfx + "curve_params", sn, sh, sg)
    p.call("info_ep%d" % K)
    p.dump(sn), p.dump(sh), p.dump(sg)
    res2 = r.run(p)
    cp = res2.calls[0]
    if cp.errored or cp.unsupported:
        notes.append("%scurve_params failed" % pfx)
        return out
    x = PairCtxK()
    x.K, x.FK, x.T, x.F, x.base, x.cid, x.pfx, x.kemb = K, FK, T, F, c, cid, pfx, kemb
    x.F2 = FK                                             # degree-neutral alias used by props/c11.py
    x.aK = FK.unflatten(_fp_list(F, cp.blobs[0]))
    x.bK = FK.unflatten(_fp_list(F, cp.blobs[1]))
    x.a2, x.b2 = x.aK, x.bK
    x.ttype = cp.rets[0]
    x.EK = rec.Curve(FK, x.aK, x.bK)
    x.E2c = x.EK
    x.r = res2.dumps[sn].value
    x.h2 = res2.dumps[sh].value
    x.par = res.dumps[spar].value
    x.tabsz = res2.calls[1].rets[0]
    G, _ = dec_points(x, res2.dumps[sg], "generator of the twist")[0]
    x.G2 = G
    x.qnr = qnr
    if G is None or not x.EK.on_curve(G) or x.EK.mul(x.r, G) is not None or x.r != c.n:
        raise Violation("pairing set %d: generator / order of the degree-%d twist inconsistent (reference check)" % (cid, K))
    x._small2 = {}
    out["ctx"] = x
    return out


def job_ctx(env, cfg):
    x = discover(env, cfg)["ctx"]
    if x is None:
        raise Unsupported()
    return x


def ctx_for(env, cfg, cid):
    x = discover(env, cfg)["ctx"]
    if x is None or x.cid != cid:
        raise Unsupported()
    return x


def run(env, cfg, x, builder, poison, seed=b""):
    p = Prog(poison=poison, seed=seed)
    skip = _selected(env, cfg, p)
    meta = builder(p)
    try:
        res = env.runner(cfg).run(p, timeout=180.0)
    except Exception:
        _invalidate(env, cfg)
        raise
    _after_run(env, cfg)
    if skip and (res.calls[0].errored or res.calls[0].ret_i(0) != 0):
        _invalidate(env, cfg)
        raise Violation("pc_param_set_any failed in a fresh process")
    if res.failed_new:
        raise Unsupported()
    res.calls = res.calls[skip:]
    return res, meta


# ------------------------------------------------------------------------------------ transport

def enc_fk(x, a):
    F = x.F
    return b"".join(F.to_raw_int(v).to_bytes(F.nbytes, "little") for v in x.FK.flatten(a))


def enc_point(x, P, rep="basic", z=None, infty_style=0):
    FK, b = x.FK, x.base
    if z is None or FK.is_zero(z):
        z = FK.one
    if P is None:
        if infty_style == 0:
            X, Y, Z, coord = FK.zero, FK.zero, FK.zero, b.BASIC
        elif rep == "projc":
            X, Y, Z, coord = FK.zero, z, FK.zero, b.PROJC
        else:
            X, Y, Z, coord = z, z, FK.zero, b.JACOB
    elif rep == "basic":
        X, Y, Z, coord = P[0], P[1], FK.one, b.BASIC
    elif rep == "projc":
        X, Y, Z, coord = FK.mul(P[0], z), FK.mul(P[1], z), z, b.PROJC
    else:
        z2 = FK.mul(z, z)
        X, Y, Z, coord = FK.mul(P[0], z2), FK.mul(P[1], FK.mul(z2, z)), z, b.JACOB
    body = enc_fk(x, X) + enc_fk(x, Y) + enc_fk(x, Z) + bytes([coord])
    return bytes([x.K]) + struct.pack("<I", len(body)) + body


def dec_points(x, blob, what):
    F, FK, b, K = x.F, x.FK, x.base, x.K
    nb = F.nbytes
    reclen = 3 * K * nb + 1 + 4
    out = []
    for i in range(len(blob) // reclen):
        rec_ = blob[i * reclen:(i + 1) * reclen]
        vals = []
        for j in range(3 * K):
            v, raw = F.dec(rec_[j * nb:(j + 1) * nb])
            if v is None:
                raise Violation("%s: coordinate digit vector not canonical (raw >= p)" % what, raw=raw)
            vals.append(v)
        X, Y, Z = (FK.unflatten(vals[j * K:(j + 1) * K]) for j in range(3))
        coord = struct.unpack_from("<I", rec_, 3 * K * nb + 1)[0]
        meta = dict(coord=coord, z=Z)
        if FK.is_zero(Z):
            out.append((None, meta))
            continue
        if coord == b.BASIC:
            if Z != FK.one:
                raise Violation("%s: point tagged affine but z != 1" % what, z=Z)
            out.append(((X, Y), meta))
            continue
        zi = FK.inv(Z)
        if coord == b.PROJC:
            out.append(((FK.mul(X, zi), FK.mul(Y, zi)), meta))
        elif coord == b.JACOB:
            zi2 = FK.mul(zi, zi)
            out.append(((FK.mul(X, zi2), FK.mul(Y, FK.mul(zi2, zi))), meta))
        else:
            raise Violation("%s: unknown coordinate tag %d" % (what, coord))
    return out

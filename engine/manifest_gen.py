"""Regenerates MANIFEST.json from the table below (keeps it valid at all times)."""
import json
import os

V = os.path.dirname(os.path.dirname(os.path.abspath(__file__)))
PBT = "property-based testing (Hypothesis generators + shrinking) against "
CLAIMED = {
    "C01": dict(
        text="Generated-input search (Hypothesis, 16 workers) over every public bn_* integer operation with structured "
             "operands, alias patterns, stale output content and two storage-poison patterns, decided against Python "
             "integer arithmetic plus normal-form, input-preservation and poison-independence oracles, on 64-bit and "
             "8-bit digit builds and a Karatsuba build (thorough: 16/32-bit digits, BN_MAGNI=CARRY). Held on everything "
             "explored; absence is not established.",
        note="Trusts Python int arithmetic, the clang ASan/UBSan runtime and the shim that writes bn_st directly. "
             "Results exceeding RLC_BN_SIZE digits are C08's domain. bn_rsh/bn_hlv on negative odd values are listed "
             "known findings (truncate instead of the documented floor).",
        tech=PBT + "a Python-int reference model; differential + metamorphic (poison, alias) oracles"),
    "C02": dict(
        text="Generated-input search over every fp_* operation and every algorithm variant, for every prime selectable "
             "in the build (found by probing all identifiers), with residues aimed at representation corner cases, "
             "reduction inputs reaching the final-subtraction / carry-out branches, exponents of all sign/size "
             "classes, alias patterns; oracle = Python modular arithmetic on values transported as raw internal digit "
             "vectors, canonical form (< p) of every output, root-existence via Euler's criterion, error on inverse of 0. One case in ten installs another prime "
             "immediately before (constants derived at installation must not depend on the history); a failure that "
             "does not reproduce standalone is re-run after each other prime and the reproducing history becomes part "
             "of the case.",
        note="Inputs are canonical residues (API contract). Reduction inputs are products of two canonical elements. "
             "fp_exp_slide may report ERR_NO_BUFFER for exponents longer than RLC_FP_BITS+1 bits.",
        tech=PBT + "a Python Z/pZ reference on raw (Montgomery) digit vectors; canonical-form and variant-agreement oracles"),
    "C03": dict(
        text="Generated-input search over the prime-curve group law (every coordinate system, mixed representations, "
             "exceptional operand pairs, alias patterns) and every scalar-multiplication routine (variable base, "
             "fixed base with each precomputation, generator, digit, simultaneous incl. many-point forms) on every curve "
             "selectable in the build, with scalars from 0 to the bignum precision incl. negatives and multiples of "
             "the order; oracle = independent affine chord-and-tangent reference (Python), normalised-output, on-curve "
             "and input-preservation checks.",
        note="Curve parameters are read from the library and sanity-checked by the reference (C18 validates them). "
             "Each coordinate-specific routine is fed only the representations it documents.",
        tech=PBT + "an independent affine Weierstrass reference; differential oracle on reference-normalised points"),
    "C04": dict(
        text="Generated-input search over the optimal-ate (pc_map), Tate and Weil pairings and their multi-pairing forms "
             "on every k=12 pairing-friendly set selectable in the build (BN-P256, SM9-P256; BLS12-381 in the thorough "
             "tier): inputs are reference-computed multiples of the generators in affine/projective form, scalars from "
             "0 to beyond r incl. negatives, lists of 0..6 pairs with identities and cancelling pairs; oracle: "
             "e([x]G1,[y]G2) = e(G1,G2)^(xy mod r) with the power taken in an independent Python Fp12 tower, "
             "non-degeneracy, order dividing r, identity handling, product rule for multi-pairings, multiplicativity "
             "and order of the final exponentiation.",
        note="Inputs are group members or the identity. Tower non-residues / twist coefficients are parameters read "
             "from the library and checked for consistency (irreducibility, b' = b/xi or b*xi). Thorough tier: the same "
             "oracles over the reference towers of degree 8, 16, 18, 24, 48 (GMT8_P544, K16 / AFG16 / FM16, K18 / FM18, "
             "B24_P315 / P317 / P509, B48_P575) and seven further k = 12 sets, each with the oatep / tatep / weilp and "
             "multi-pairing variants the library offers for that degree; SG54_P569 is wired but blocked by the listed "
             "C10 finding fp54_frb.",
        tech=PBT + "an independent Fp12 tower + curve reference; metamorphic bilinearity oracle"),
    "C08": dict(
        text="Three generated searches with ASan+UBSan as part of the oracle: (1) every other check runs on the same "
             "sanitized builds with storage poisoning; (2) a boundary sweep over capacity limits (results needing "
             "SIZE-1/SIZE/SIZE+1 digits, over-long decoder input, caller buffers and *len values around the need, "
             "counts n = 0.. of array functions, invalid selectors) in both calling styles (inside RLC_TRY and "
             "unprotected with err_get_code()), oracle fit-or-error + usability probe; (3) allocation-fault enumeration "
             "on an ALLOC=DYNAMIC build: every allocation of 30 workload operations (bn, fp, ep, pairing, ECDSA/ECSS/ECDH) "
             "is failed in turn (exhaustively up to a cap, evenly sampled above), oracle: error reported or same result, "
             "no sanitizer report, same result afterwards; (4) the scalar-multiplication / fixed-base / simultaneous "
             "targets of the prime, extension-field, binary and Edwards curves and of the pairing groups and the "
             "RSA / ECDSA / ECIES writers are re-run here with the memory clause as the only oracle (sanitizer report, "
             "crash, broken handler chain), so that the stack scratch arrays and recodings are decided by this check itself.",
        note="Objects are never forged. Leaks on error paths are recorded as observations (outside the statement). The "
             "finalisation-after-allocation-failure crash sites found on the unchanged tree are a listed known finding, "
             "matched by call site; any other site is a violation.",
        tech="property-based boundary sweep (Hypothesis) + exhaustive/sampled allocation-fault injection, sanitizers as oracle"),
    "C05": dict(
        text="Two generated searches. Part A (ECDSA, EC-Schnorr, RSA with PSS / PKCS#1 v1.5 / BASIC paddings, vBNN-IBS, "
             "proofs and signatures of knowledge): two-sided differential verdict_lib == verdict_ref against independent "
             "Python verifiers written from the standards (FIPS 186-4 / SEC 1, RFC 8017) or from the construction "
             "documented in the source, on honest signatures, a mutation catalogue (bit flips, r+n, s+n, n-s, 0, n, "
             "sig+N, zero-prefixed / truncated encodings, EM-level forgeries encrypted with the private exponent, foreign / "
             "identity / off-curve / small-order keys) and arbitrary tuples, on every curve of the build. Part B (BLS, "
             "BB, ZSS, CL, PS and multi-message variants, CMLHS, MKLHS, ring / extendable signatures): verdict_lib == "
             "(scheme's verification equation re-evaluated by the harness with pc_map AND reference-side "
             "well-formedness of every element), plus completeness over ring sizes / signer positions and rejection of "
             "every single-component substitution.",
        note="Signing keys come from key generation under a per-case DRBG seed; messages, signatures and public keys are "
             "untrusted. Part B trusts pc_map / g1 / g2 arithmetic (decided by C03, C04, C11, C12). Two known findings: "
             "public-key elements are not validated by several pairing verifiers, and four verifiers accept a G1 signature "
             "element plus a cofactor-order point on BLS12-381 (both low severity, no patch).",
        tech=PBT + "independent reference verifiers (differential, both directions) and re-evaluated verification equations; mutation catalogue"),
    "C06": dict(
        text="Two generated searches. Part A (RSA encryption with OAEP / PKCS#1 v1.5 / BASIC, Rabin, Benaloh, Paillier, "
             "Damgard-Jurik, subgroup Paillier, bn_mxp_crt): round trip for every plaintext length from 0 to max+1 of "
             "each generated key, reference decryption of library ciphertexts with the exported private key, "
             "reference-built valid and deliberately broken ciphertexts decided exactly as the reference decides, "
             "homomorphic sums incl. wrapping ones, byte mutations, output capacities exact-1/exact/+1. Part B (ECIES, "
             "ECDH, ECMQV, SOK, IBE, BGN, Shamir sharing over every subset, multiplication / pairing triples, three PSI "
             "protocols, four delegated-pairing protocols): reference recomputation of the ciphertext / key from the "
             "protocol definition, every truncation and sampled byte mutation rejected, exhaustive subset enumeration, "
             "exact intersections, dishonest-helper rejection.",
        note="Keys come from the library's key generation under a per-case DRBG seed (pooled in the shim, exported to the "
             "reference). Plaintexts are inside the range each scheme admits.",
        tech=PBT + "reference encryption / decryption and protocol formulas from the standards; round-trip, differential and mutation oracles"),
    "C09": dict(
        text="Generated-input search over every modular / number-theoretic bn_* function and every scalar recoding: "
             "reductions (basic, Barrett, Montgomery basic / Comba, pseudo-Mersenne, digit) with operands negative, >= m, "
             "longer than 2k digits and aimed at 0/1/2 final subtractions; exponentiation (basic, sliding, Montgomery, "
             "digit, simultaneous 2 / few / lot, CRT) with exponents 0, negative, longer than m and alias patterns; "
             "inverses, gcd / extended gcd (basic, binary, Lehmer incl. Fibonacci-like and multi-digit-quotient pairs, "
             "all nine sign patterns, Bezout checked for the GIVEN operands), lcm, Legendre / Jacobi, sqrt, Lagrange / "
             "evaluation; primality tests on primes, Carmichael numbers, p*q close, prime powers, psi_k and composites "
             "constructed for the library's fixed Miller-Rabin bases; prime generators (length, structure); recodings "
             "win / slw / naf / reg / jsf / tnaf / rtnaf / glv / frb / sac for w = 2..8 with digit-set, length, "
             "sparsity and exact-value validators. Oracles: Python ints, math.gcd / isqrt, sympy.isprime, own Jacobi, "
             "norm arithmetic in Z[tau], lattice membership. Plus a libFuzzer target with in-target algebraic oracles.",
        note="Domains follow the callers (documented in notes/NOTES_C09.md section 2). Two known findings: fixed-base "
             "Miller-Rabin accepts composites constructed for its bases; bn_mod_barrt reports a precision error for one "
             "capacity edge (m = beta^(DIGS-1), operand of 2*DIGS digits).",
        tech=PBT + "Python-int / sympy number-theory references and definition-level recoding validators; coverage-guided fuzzing (libFuzzer) with in-target algebraic oracles"),
    "C10": dict(
        text="Generated-input search over every fpN_* routine of the towers Fp2..Fp54 (414 bound functions: add / sub / "
             "mul / sqr in every lazy-reduction and unreduced variant, every sparsity shape of the mul_dxs forms under each "
             "twist type, inversion incl. cyclotomic / unitary / simultaneous, Frobenius powers 0..N+1, exponentiation "
             "plain / digit / cyclotomic / simultaneous, compressed squarings and decompression, square roots and the "
             "square test, cyclotomic conversion and membership) on every pairing prime selectable in the build, with "
             "coefficient vectors of generated sparsity, subfield embeddings, reference-built cyclotomic / order-r "
             "elements and near-members, alias patterns and two storage poisons; oracle = a generic quotient-ring model "
             "K[X]/(X^d - nr) in Python built from non-residues read from the library and proven irreducible by the "
             "reference, canonical coefficients (< p), input preservation. Thorough: towers of degree 16..54 over the "
             "other pairing field sizes (27 configurations) and non-pairing primes.",
        note="Specialised routines are fed operands satisfying their precondition (shapes taken from the callers). Known "
             "findings: fp54_frb indexes a constant table out of bounds, fp18_mul_dxs_basic / EP_ADD=BASIC variants "
             "mis-handle D-type shapes, Frobenius constants for p = 2 mod 3, fp3_field_get_cnr vs. fp3_mul_nor.",
        tech=PBT + "a generic polynomial quotient-ring reference (schoolbook, parameters validated by irreducibility tests); differential + canonical-form + alias / poison metamorphic oracles"),
    "C11": dict(
        text="Generated-input search over the twist curves E'(Fp2) of every k = 12 pairing set selectable in the build: "
             "group law in affine / homogeneous / Jacobian coordinates with exceptional pairs, aliasing and both "
             "encodings of the identity; every ep2 / g2 scalar multiplication (basic, sliding, Montgomery, w-NAF, regular "
             "GLS, fixed-base with each table, digit, simultaneous 2 / trick / inter / joint / lot / dig forms with 0..12 "
             "entries) for scalars 0, +-1, r-1, r, r+1, multiples of r, negative, up to 1024 bits and built from chosen "
             "GLS sub-scalars; Frobenius = [p^i mod r] on the subgroup and = untwist-Frobenius-twist in Fp12 for "
             "arbitrary points; cofactor clearing on reference-lifted points of full order h2*r (on curve, [r]R = O, "
             "homomorphism, equality with [h_eff]P). Oracle = independent affine chord-and-tangent law over a Python Fp2. "
             "Thorough: ep-jacob / ep-basic builds, BLS12-381 and the curves over cubic / quartic / octic extensions "
             "(ep3 / ep4 / ep8) on ten further pairing field sizes.",
        note="Twist parameters are read from the library and validated by the reference (G2 on E', [r]G2 = O, psi(G2) = "
             "[p]G2). One known finding: ep4_add_projc returns O when P - Q has order two on quartic twists (point (0,0)).",
        tech=PBT + "an independent affine curve reference over a Python Fp2 / Fp12 tower; psi and h_eff derived from (p, r) by the published family formulas"),
    "C12": dict(
        text="Generated-input search over g1_is_valid / g2_is_valid / gt_is_valid in both directions (members: reference "
             "multiples of generators, pairing outputs; non-members: reference-lifted curve / twist points, small-order "
             "points, member + torsion, off-curve pairs, random / cyclotomic-but-not-order-r / subfield Fp12 elements, 0, "
             "the identity) with the oracle [r]P = O on the reference curve resp. a^r = 1 in the reference Fp12, and over "
             "every g1/g2 multiplication and gt exponentiation form against the reference multiple / power for all "
             "scalars incl. 0, negative, >= r; on BN-P256, SM9-P256 and BLS12-381 (the configuration where G1 has a "
             "cofactor).",
        note="Multiplications / exponentiations are compared for members only (order-dependent decompositions by design), "
             "except the *_mul_any forms documented for arbitrary points. Thorough tier: the same targets on 18 further "
             "parameter sets of embedding degree 8, 12, 16, 18, 24, 48 (one set per build configuration).",
        tech=PBT + "reference subgroup tests and reference powers in an independent curve / Fp12 model (two-sided)"),
    "C13": dict(
        text="Generated-input search over ep_map, ep_map_basic / sswum / swift, ep_map_rnd (uniform strings SOLVED by the "
             "reference to hit the exceptional field elements 0, +-1, SSWU / SvdW exceptional values, every square / "
             "non-square combination and both parities), ep2_map*, eb_map, ed_map(_dst), ep_mul_cof; three oracle "
             "layers: validity (on curve, [r]P = O by the reference), determinism (also across unrelated work and "
             "re-selection), and equality with an independent RFC 9380 construction (expand_message_xmd, SSWU / SvdW / "
             "SwiftEC / Elligator 2 / try-and-increment, isogeny by polynomial evaluation, cofactor clearing).",
        note="Map constants (Z, isogeny tables) are read from the library and validated against the RFC's criteria. "
             "SwiftEC candidate order and sign convention are read from the source (listed as assumptions).",
        tech=PBT + "an independent RFC 9380 hash-to-curve reference; exceptional inputs constructed by solving for them"),
    "C14": dict(
        text="Generated-input differential search over SHA-224/256/384/512, BLAKE2s-160/256, HMAC, KDF2, MGF1, "
             "expand_message_xmd and AES-CBC with PKCS#7 against hashlib / hmac and references written from FIPS 197, "
             "SP 800-38A, IEEE 1363, RFC 9380 (self-tested on published vectors): every message-length residue around the "
             "padding boundaries, 0..4 blocks and long messages, key lengths around the block size, output lengths incl. "
             "non-multiples and counter >= 256, DST lengths 0..255 and the refused cases, all AES key sizes, ciphertext "
             "mutations that must be rejected.",
        note="HMAC / KDF / MGF follow the build's MD_MAP; the md-* builds are in the thorough tier.",
        tech=PBT + "hashlib / hmac and from-the-standard AES, KDF, XMD references (byte equality, round trip, padding rejection)"),
    "C15": dict(
        text="Generated call HISTORIES (instantiate / reseed / generate with lengths 0..65536 and beyond the limit / "
             "bn_rand / bn_rand_mod / fp_rand, 1..40 steps, shrunk as one value) executed in lock-step with an SP 800-90A "
             "Hash_DRBG reference: output bytes AND the raw 111-byte working state and reseed counter are compared "
             "after every step; two further families force long carry ripples (seeds searched by the reference) and "
             "drive the reseed counter past 32768.",
        note="The reference reproduces the NIST Hash_DRBG example vectors. bn_rand_mod is modelled for positive bounds; for "
             "negative bounds only range / sign / determinism are asserted.",
        tech="model-based property testing (Hypothesis histories) against an SP 800-90A Hash_DRBG reference model, state compared per step"),
    "C16": dict(
        text="Generated-input search over the binary-field module (add, multiply in every algorithm, square, reduce incl. "
             "exact double-length inputs, invert in every algorithm, square root, trace, half-trace / quadratic solving, "
             "iterated squaring with tables, exponentiation, digit forms, the quadratic extension fb2) for every reduction "
             "polynomial of the build's degree, and over the binary curves B-283 / K-283 (thorough: 163, 233, 409, 571 "
             "bits): group law in affine / Lopez-Dahab coordinates with points [m]G + [t]S incl. the 2-power torsion, "
             "halving, Frobenius, every scalar multiplication (binary, Lopez-Dahab ladder, halving, w-NAF, tau-NAF, "
             "fixed-base with each table, simultaneous forms) for scalars 0, +-1, n-1, n, n+1, multiples of n, negative, "
             "longer than the order. Oracle = pure-Python GF(2^m) model (polynomial read from the library and proven "
             "irreducible by Rabin's test) and an affine binary-Weierstrass group law; reduced form, input preservation, "
             "two storage poisons.",
        note="Trusts the Python GF(2^m) / curve reference (self-tested: FIPS-197 field, NIST polynomials, exhaustive GF(2^7) "
             "/ GF(2^8), [n]G = O on B-283 / K-283). Plain-curve NAF variants may refuse scalars longer than their buffer "
             "with a cleanly reported error.",
        tech=PBT + "an independent GF(2^m) polynomial-arithmetic reference and affine binary-curve group law (differential + alias / poison metamorphic oracles)"),
    "C17": dict(
        text="Generated-input search over the Edwards module on Ed25519 (255-bit build): group law in affine / projective / "
             "extended coordinates for ALL operands incl. the neutral element and the points of order 2, 4, 8, every "
             "scalar multiplication (variable, fixed-base with each table, simultaneous) against an independent "
             "twisted-Edwards reference, compression / decompression and binary codecs, hashing to the curve (validity, "
             "determinism, equality with an RFC 9380 reference).",
        note="Only CURVE_ED25519 is selectable. Torsion-carrying points get scalars >= r only through the non-reducing "
             "routines; a loud error for scalars the recoding buffers cannot hold is accepted.",
        tech=PBT + "an independent twisted-Edwards reference (complete addition law); round-trip and reference-construction oracles"),
    "C18": dict(
        text="Exhaustive enumeration of every identifier accepted by fp / fb / ep / eb / ed parameter selection and both "
             "twist types at each built size, crossed with 70 consistency relations decided by sympy and the reference "
             "models (primality, irreducibility, family polynomials, non-residues, roots of unity, Montgomery and "
             "divstep constants, generator / order / cofactor via [h*r]P = O on reference-lifted random points, "
             "endomorphism and GLV lattice, twist consistency, Frobenius constants, embedding degree, security level, "
             "hash-to-curve constants against the RFC 9380 criteria; what the public order / cofactor accessors return; the "
             "descriptors advertised when a set is selected right after a set of another kind); point-based relations "
             "use generated points.",
        note="exhaustive refers to the (identifier, relation) space of each configuration; point material is generated. "
             "ep3/ep4/ep8 twists (k = 16..54) are covered by base-field / base-curve / embedding-degree relations only.",
        tech="exhaustive enumeration of parameter identifiers x relations + generated points, oracle = sympy and independent reference models",
        level="exploration"),
    "C19": dict(
        text="Four generated searches: (1) try/throw/catch/finally programs (recursive trees, depth <= 6, non-local exits "
             "across C frames) executed by a C interpreter built from the real RLC_* macros, against an executable model "
             "of the documented semantics (handler choice, finally exactly once, handler chain restored, sticky code); "
             "(2) histories over up to four contexts, each compared with an independent single-context run; (3) "
             "re-parameterisation sequences with heavy use in between, the final probe battery compared with a fresh "
             "process that performs only the last selection (all ordered pairs / triples in the thorough tier); (4) "
             "threads with generated workloads under a harness-owned operation-level schedule, plus free-running "
             "threads under TSan.",
        note="Interleavings are owned at library-call granularity; instruction-level interleavings are sampled by the "
             "TSan mode, not enumerated. return/goto out of a protected block and throws inside FINALLY are not generated "
             "(documented as forbidden / undocumented); every check's runner additionally asserts after each library call "
             "that the handler chain is what it was before the call. The selection alphabet holds named curves / fields / "
             "binary curves and moduli installed without identifier (fp_prime_set_dense). One known finding: descriptive "
             "state (fp_param_get, generation parameter) stays stale after such a direct installation.",
        tech="model-based property testing: generated programs / histories / schedules against an executable state-machine model and fresh-process differentials"),
    "C20": dict(
        text="Metamorphic search on -fsanitize-coverage=trace-pc builds: for batches of secret scalars of ONE public bit "
             "length (from 5 bits and the one-digit lengths up to the order length; random, low / high Hamming weight, "
             "runs, 2^(l-1), 2^l - 1, n-1, zero GLV halves) the recorded "
             "sequence of group-level operations of each ladder / regular-recoding routine (ep, ep2, g1/g2/gt _sec, eb, "
             "ed, bn / fp / fb ladders, bn_rec_reg) must be identical within the batch; for the masked copy / swap / "
             "compare primitives the full basic-block trace must be identical across data and condition bits. Variable-"
             "time siblings serve as positive controls in every run.",
        note="Decides control flow at the level the statement names, on clang-14 -O1 object code; cache / address leaks "
             "and the variable-time field arithmetic of the easy backend are outside the statement. One known finding "
             "(eb_mul_lodah at k = n-1).",
        tech="metamorphic property testing on compiler-instrumented control-flow traces (trace-pc), generated scalar batches"),
    "C07": dict(
        text="Generated-input search in both directions over every codec (bn bin / raw / text in all radices 2..64, fp, "
             "fb, Fp2..Fp12 plain and packed, ep / ep2 / eb / ed points compressed and uncompressed, GT): encode into "
             "buffers of size-1 / size / size+1 / size+7 and compare with REFERENCE encodings written from the formats, "
             "read(write(x)) == x; decode structured mutations of valid encodings (every tag byte, lengths +-k, "
             "coordinates p, p+1, value+p, wrong / negated y, x without a point) and raw strings of every length: the "
             "library must reject whenever the reference decoder rejects, and whatever it accepts must be a valid object "
             "(read back raw, checked by the reference) whose re-encoding reproduces the input. A libFuzzer target with "
             "in-target oracle runs in the thorough tier.",
        note="Decoders are called in the protected style. Known findings: the compression bit of ep / ed / fp2 packed forms "
             "is taken from the internal (Montgomery) representation, and fp12_pck_max(+-1) fails.",
        tech=PBT + "reference codecs written from the formats (two-directional: canonical encoding + reject-whenever-reference-rejects); coverage-guided fuzzing (libFuzzer) of the decoders"),
}
REASONS_TODO = "check not built yet (work in progress; see DESIGN.md §5 implementation order)"


def main():
    checks = []
    for pid in sorted(CLAIMED):
        c = CLAIMED[pid]
        checks.append(dict(
            property_id=pid, quick_cmd="./check %s --tier quick" % pid, thorough_cmd="./check %s --tier thorough" % pid,
            evidence_file="evidence/%s.json" % pid, replay_cmd_template="./check %s --replay {path}" % pid,
            engine="hypothesis-runner",
            level_claimed=dict(category=c.get("level", "exploration"), text=c["text"], design_ref="DESIGN.md §2 " + pid),
            level_note=c["note"], technique=c["tech"]))
    hooks = json.load(open(os.path.join(V, "hooks.json"))) if os.path.exists(os.path.join(V, "hooks.json")) else []
    m = dict(
        version=1, setup_cmd="./setup.sh",
        hooks=dict(guard="RELIC_VERIF",
                   enable="checks compile /repo with -DRELIC_VERIF (engine/build.py)",
                   baseline_off_cmd="cmake -S /repo -B /repo/_build -G Ninja && cmake --build /repo/_build && "
                                    "ctest --test-dir /repo/_build -j8 --timeout 900",
                   source_commits=hooks, add_only=True),
        engines=[dict(name="hypothesis-runner", path="engine/", serves_properties=sorted(CLAIMED),
                      kind_free_text="Hypothesis strategies + pure-Python reference models driving a sanitized C runner "
                                     "process (slot machine over RELIC's public structs) through a pipe; shrinking, "
                                     "replay files, known-finding matching; libFuzzer targets reuse the same shim")],
        checks=checks,
        not_applicable=[dict(property_id="C%02d" % i, reason=REASONS_TODO) for i in range(1, 21)
                        if "C%02d" % i not in CLAIMED],
        notes="See DESIGN.md. ./check <ID> --tier quick|thorough; exit 0 held / 1 VIOLATION / 2 harness error.")
    json.dump(m, open(os.path.join(V, "MANIFEST.json"), "w"), indent=1)
    try:
        import jsonschema
        jsonschema.validate(m, json.load(open("/root/.vp/MANIFEST.schema.json")))
        print("manifest valid,", len(checks), "checks")
    except ImportError:
        print("written (not validated)")


if __name__ == "__main__":
    main()

"""Regenerates MANIFEST.json from the table below (keeps it valid at all times)."""
import json
import os

V = os.path.dirname(os.path.dirname(os.path.abspath(__file__)))
PBT = "property-based testing (Hypothesis generators + shrinking) against "
CLAIMED = {
    "C01": dict(
        text="Generated-input search (Hypothesis, 16 workers) over every public bn_* integer operation with structured "
             "operands, alias patterns, stale output content and two storage-poison patterns, decided against Python "
             "integer arithmetic plus normal-form, input-preservation and poison-independence oracles, on 64-bit and "
             "8-bit digit builds and a Karatsuba build (thorough: 16/32-bit digits, BN_MAGNI=CARRY). Held on everything "
             "explored; absence is not established.",
        note="Trusts Python int arithmetic, the clang ASan/UBSan runtime and the shim that writes bn_st directly. "
             "Results exceeding RLC_BN_SIZE digits are C08's domain. bn_rsh/bn_hlv on negative odd values are listed "
             "known findings (truncate instead of the documented floor).",
        tech=PBT + "a Python-int reference model; differential + metamorphic (poison, alias) oracles"),
    "C02": dict(
        text="Generated-input search over every fp_* operation and every algorithm variant, for every prime selectable "
             "in the build (found by probing all identifiers), with residues aimed at representation corner cases, "
             "reduction inputs reaching the final-subtraction / carry-out branches, exponents of all sign/size "
             "classes, alias patterns; oracle = Python modular arithmetic on values transported as raw internal digit "
             "vectors, canonical form (< p) of every output, root-existence via Euler's criterion, error on inverse of 0.",
        note="Inputs are canonical residues (API contract). Reduction inputs are products of two canonical elements. "
             "fp_exp_slide may report ERR_NO_BUFFER for exponents longer than RLC_FP_BITS+1 bits.",
        tech=PBT + "a Python Z/pZ reference on raw (Montgomery) digit vectors; canonical-form and variant-agreement oracles"),
    "C03": dict(
        text="Generated-input search over the prime-curve group law (every coordinate system, mixed representations, "
             "exceptional operand pairs, alias patterns) and every scalar-multiplication routine (variable base, "
             "fixed base with each precomputation, generator, digit, simultaneous incl. many-point forms) on every curve "
             "selectable in the build, with scalars from 0 to the bignum precision incl. negatives and multiples of "
             "the order; oracle = independent affine chord-and-tangent reference (Python), normalised-output, on-curve "
             "and input-preservation checks.",
        note="Curve parameters are read from the library and sanity-checked by the reference (C18 validates them). "
             "Each coordinate-specific routine is fed only the representations it documents.",
        tech=PBT + "an independent affine Weierstrass reference; differential oracle on reference-normalised points"),
    "C04": dict(
        text="Generated-input search over the optimal-ate (pc_map), Tate and Weil pairings and their multi-pairing forms "
             "on every k=12 pairing-friendly set selectable in the build (BN-P256, SM9-P256; BLS12-381 in the thorough "
             "tier): inputs are reference-computed multiples of the generators in affine/projective form, scalars from "
             "0 to beyond r incl. negatives, lists of 0..6 pairs with identities and cancelling pairs; oracle: "
             "e([x]G1,[y]G2) = e(G1,G2)^(xy mod r) with the power taken in an independent Python Fp12 tower, "
             "non-degeneracy, order dividing r, identity handling, product rule for multi-pairings, multiplicativity "
             "and order of the final exponentiation.",
        note="Inputs are group members or the identity. Tower non-residues / twist coefficients are parameters read "
             "from the library and checked for consistency (irreducibility, b' = b/xi or b*xi). k = 8/16/18/24/48 "
             "families are not modelled yet (listed in evidence notes).",
        tech=PBT + "an independent Fp12 tower + curve reference; metamorphic bilinearity oracle"),
    "C08": dict(
        text="Three generated searches with ASan+UBSan as part of the oracle: (1) every other check runs on the same "
             "sanitized builds with storage poisoning; (2) a boundary sweep over capacity limits (results needing "
             "SIZE-1/SIZE/SIZE+1 digits, over-long decoder input, caller buffers and *len values around the need, "
             "counts n = 0.. of array functions, invalid selectors) in both calling styles (inside RLC_TRY and "
             "unprotected with err_get_code()), oracle fit-or-error + usability probe; (3) allocation-fault enumeration "
             "on an ALLOC=DYNAMIC build: every allocation of 30 workload operations (bn, fp, ep, pairing, ECDSA/ECSS/ECDH) "
             "is failed in turn (exhaustively up to a cap, evenly sampled above), oracle: error reported or same result, "
             "no sanitizer report, same result afterwards.",
        note="Objects are never forged. Leaks on error paths are recorded as observations (outside the statement). The "
             "finalisation-after-allocation-failure crash sites found on the unchanged tree are a listed known finding, "
             "matched by call site; any other site is a violation.",
        tech="property-based boundary sweep (Hypothesis) + exhaustive/sampled allocation-fault injection, sanitizers as oracle"),
}
REASONS_TODO = "check not built yet (work in progress; see DESIGN.md §5 implementation order)"


def main():
    checks = []
    for pid in sorted(CLAIMED):
        c = CLAIMED[pid]
        checks.append(dict(
            property_id=pid, quick_cmd="./check %s --tier quick" % pid, thorough_cmd="./check %s --tier thorough" % pid,
            evidence_file="evidence/%s.json" % pid, replay_cmd_template="./check %s --replay {path}" % pid,
            engine="hypothesis-runner",
            level_claimed=dict(category=c.get("level", "exploration"), text=c["text"], design_ref="DESIGN.md §2 " + pid),
            level_note=c["note"], technique=c["tech"]))
    hooks = json.load(open(os.path.join(V, "hooks.json"))) if os.path.exists(os.path.join(V, "hooks.json")) else []
    m = dict(
        version=1, setup_cmd="./setup.sh",
        hooks=dict(guard="RELIC_VERIF",
                   enable="checks compile /repo with -DRELIC_VERIF (engine/build.py)",
                   baseline_off_cmd="cmake -S /repo -B /repo/_build -G Ninja && cmake --build /repo/_build && "
                                    "ctest --test-dir /repo/_build -j8 --timeout 900",
                   source_commits=hooks, add_only=True),
        engines=[dict(name="hypothesis-runner", path="engine/", serves_properties=sorted(CLAIMED),
                      kind_free_text="Hypothesis strategies + pure-Python reference models driving a sanitized C runner "
                                     "process (slot machine over RELIC's public structs) through a pipe; shrinking, "
                                     "replay files, known-finding matching; libFuzzer targets reuse the same shim")],
        checks=checks,
        not_applicable=[dict(property_id="C%02d" % i, reason=REASONS_TODO) for i in range(1, 21)
                        if "C%02d" % i not in CLAIMED],
        notes="See DESIGN.md. ./check <ID> --tier quick|thorough; exit 0 held / 1 VIOLATION / 2 harness error.")
    json.dump(m, open(os.path.join(V, "MANIFEST.json"), "w"), indent=1)
    try:
        import jsonschema
        jsonschema.validate(m, json.load(open("/root/.vp/MANIFEST.schema.json")))
        print("manifest valid,", len(checks), "checks")
    except ImportError:
        print("written (not validated)")


if __name__ == "__main__":
    main()

"""Prime-curve contexts shared by the curve-based properties: discovery of every selectable parameter set by
probing, curve selection with caching, point transport (raw x, y, z, coord)."""
import struct

from .core import Unsupported, Violation
from .proto import Prog
from .ref import ec as rec
from .ref import fp as rfp

_CACHE = {}


class CurveCtx:
    pass


def _blob_int(b):
    return int.from_bytes(b, "little")


def discover(env, cfg):
    if cfg in _CACHE:
        return _CACHE[cfg]
    r = env.runner(cfg)
    if "ep_param_set" not in r.ops():
        raise Unsupported()
    inf_fp = r.info("info_fp")
    inf_ep = r.info("info_ep")
    bits, digs, W, rdc = inf_fp[0], inf_fp[1], inf_fp[2], inf_fp[3]
    monty = rdc == inf_fp[12]
    nbytes = W * digs // 8
    curves = []
    for cid in range(1, 90):
        p = Prog()
        p.call("ep_param_set", cid)
        sn, sh = p.bn(0), p.bn(0)
        sg = p.new("EP", struct.pack("<I", 3 * nbytes + 1) + bytes(3 * nbytes) + b"\x01")
        p.call("ep_curve_params", sn, sh, sg)
        p.call("fp_prime_get")
        p.dump(sn), p.dump(sh), p.dump(sg)
        res = r.run(p)
        if res.calls[0].errored:
            continue
        c = CurveCtx()
        c.cid = cid
        prime = _blob_int(res.calls[2].blobs[0])
        pc = res.calls[1]
        c.fid = pc.rets[8] if len(pc.rets) > 8 else 0
        c.F = rfp.Field(c.fid, prime, W, digs, monty)
        c.K = rec.PrimeField(prime)
        c.a = c.F.dec(pc.blobs[0])[0]
        c.b = c.F.dec(pc.blobs[1])[0]
        c.beta = c.F.dec(pc.blobs[3])[0]
        c.is_endom, c.is_super, c.is_pairf, c.is_ctmap = pc.rets[0], pc.rets[1], pc.rets[2], pc.rets[3]
        c.opt_a, c.opt_b, c.embed, c.frdim = pc.rets[4], pc.rets[5], pc.rets[6], pc.rets[7]
        c.n = res.dumps[sn].value
        c.h = res.dumps[sh].value
        c.E = rec.Curve(c.K, c.a, c.b)
        c.inf = inf_ep
        c.BASIC, c.PROJC, c.JACOB, c.EP_ADD = inf_ep[0], inf_ep[1], inf_ep[2], inf_ep[3]
        G, meta = dec_point(c, res.dumps[sg], "generator")
        c.G = G
        # minimal sanity so that a corrupted table cannot make both sides agree silently (C18 checks in depth)
        if G is None or not c.E.on_curve(G) or c.E.mul(c.n, G) is not None:
            raise Violation("curve %d: generator/order inconsistent (reference check)" % cid, cid=cid)
        c.lam = None
        if c.is_endom and c.beta not in (None, 0):
            # lambda with psi(P) = [lambda]P: root of l^2 + l + 1 (beta^3 = 1) or l^2 + 1 (beta^2 = -1) mod n
            c.lam = _find_lambda(c)
        c._small = {}
        curves.append(c)
    _CACHE[cfg] = dict(curves=curves, inf_ep=inf_ep, inf_fp=inf_fp, cur=None, nbytes=nbytes, bits=bits, W=W)
    return _CACHE[cfg]


def _find_lambda(c):
    n, E, G = c.n, c.E, c.G
    p = c.F.p
    cands = []
    if pow(c.beta, 3, p) == 1:
        # roots of x^2 + x + 1 mod n
        s = rfp.sqrt_mod((-3) % n, n)
        if s is not None:
            inv2 = pow(2, -1, n)
            cands = [(-1 + s) * inv2 % n, (-1 - s) * inv2 % n]
        psiG = (c.beta * G[0] % p, G[1])
    elif pow(c.beta, 2, p) == p - 1:
        s = rfp.sqrt_mod(n - 1, n)
        cands = [s, n - s] if s is not None else []
        psiG = ((-G[0]) % p, c.beta * G[1] % p)
    else:
        return None
    for l in cands:
        if E.mul(l, G) == psiG:
            return l
    return None


def curve(env, cfg, cid):
    for c in discover(env, cfg)["curves"]:
        if c.cid == cid:
            return c
    raise Unsupported()


def job_curve(env, cfg, pred=None):
    """The curve this job works on (fixed per job because ep_param_set costs ~10 ms)."""
    cs = [c for c in discover(env, cfg)["curves"] if pred is None or pred(c)]
    if not cs:
        raise Unsupported()
    return cs[(env.job_seed // 3) % len(cs)]


def select(env, cfg, prog, cid):
    ctx = discover(env, cfg)
    r = env.runner(cfg)
    key = r.epoch()
    if ctx["cur"] != (key, cid):
        prog.call("ep_param_set", cid)
        ctx["cur"] = (key, cid)
        _reset_pcctx(cfg)
        return 1
    return 0


def _reset_pcctx(cfg):
    """a plain curve selection replaces whatever pairing set pcctx had selected"""
    import sys
    m = sys.modules.get("engine.pcctx")
    if m is not None and cfg in m._CACHE:
        m._CACHE[cfg]["cur"] = None


def invalidate(env, cfg):
    if cfg in _CACHE:
        _CACHE[cfg]["cur"] = None


def run(env, cfg, cid, prog_builder, poison, seed=b"", prev=None):
    """Build and run a program on curve cid; returns (result-with-selection-call-stripped, meta).
    prev: identifier of a curve to select immediately BEFORE cid (state left behind by an earlier selection must not
    influence the computation)."""
    p = Prog(poison=poison, seed=seed)
    if prev is not None and prev != cid:
        p.call("ep_param_set", prev)
        p.call("ep_param_set", cid)
        r = env.runner(cfg)
        discover(env, cfg)["cur"] = (r.epoch(), cid)
        _reset_pcctx(cfg)
        skip = 2
    else:
        skip = select(env, cfg, p, cid)
    meta = prog_builder(p)
    try:
        res = env.runner(cfg).run(p)
    except Exception:
        invalidate(env, cfg)
        raise
    finally:
        if prev is not None and prev != cid:
            # whatever an earlier selection may have left behind must not leak into LATER cases of this runner
            # (a failure has to reproduce from its own case in a fresh process): start the next case in a new process
            env.runner(cfg).ncases = env.runner(cfg).recycle
            invalidate(env, cfg)
    if res.failed_new:
        raise Unsupported()
    res.calls = res.calls[skip:]
    return res, meta


# ------------------------------------------------------------------------------------ point transport

def enc_point(c, P, rep="basic", z=1, infty_style=0):
    """Payload of an EP slot. rep in basic|projc|jacob; z: the Z coordinate for projective forms."""
    F = c.F
    p = F.p
    if P is None:
        if infty_style == 0:
            x, y, zz, coord = 0, 0, 0, c.BASIC            # what ep_set_infty() writes
        elif rep == "projc":
            x, y, zz, coord = 0, z % p or 1, 0, c.PROJC   # (0 : y : 0), what the complete formulas produce
        else:
            x, y, zz, coord = z % p or 1, z % p or 1, 0, c.JACOB
    elif rep == "basic":
        x, y, zz, coord = P[0], P[1], 1, c.BASIC
    elif rep == "projc":
        zz = z % p or 1
        x, y, coord = P[0] * zz % p, P[1] * zz % p, c.PROJC
    elif rep == "jacob":
        zz = z % p or 1
        x, y, coord = P[0] * zz * zz % p, P[1] * pow(zz, 3, p) % p, c.JACOB
    else:
        raise ValueError(rep)
    body = b"".join(F.to_raw_int(v).to_bytes(F.nbytes, "little") for v in (x, y, zz)) + bytes([coord])
    return struct.pack("<I", len(body)) + body


def dec_points(c, blob, what):
    """All points of an EP/EPV dump: list of (affine-or-None, meta)."""
    F = c.F
    rec_len = 3 * F.nbytes + 1 + 4
    out = []
    for i in range(len(blob) // rec_len):
        out.append(_dec_one(c, blob[i * rec_len:(i + 1) * rec_len], what))
    return out


def dec_point(c, blob, what):
    return _dec_one(c, blob[:3 * c.F.nbytes + 5], what)


def _dec_one(c, b, what):
    F = c.F
    p = F.p
    nb = F.nbytes
    vals = []
    for i in range(3):
        v, raw = F.dec(b[i * nb:(i + 1) * nb])
        if v is None:
            raise Violation("%s: coordinate %s not canonical (raw >= p)" % (what, "xyz"[i]), raw=raw)
        vals.append(v)
    coord = struct.unpack_from("<I", b, 3 * nb + 1)[0]
    x, y, z = vals
    meta = dict(coord=coord, z=z, x=x, y=y)
    if z == 0:
        return None, meta
    if coord == c.BASIC:
        if z != 1:
            raise Violation("%s: point tagged affine but z != 1" % what, z=z)
        return (x, y), meta
    zi = pow(z, -1, p)
    if coord == c.PROJC:
        return (x * zi % p, y * zi % p), meta
    if coord == c.JACOB:
        return (x * zi * zi % p, y * pow(zi, 3, p) % p), meta
    raise Violation("%s: unknown coordinate tag %d" % (what, coord))


def small_multiple(c, m):
    """[m]G, cached."""
    m %= c.n
    if m not in c._small:
        if len(c._small) > 4000:
            c._small.clear()
        c._small[m] = c.E.mul(m, c.G)
    return c._small[m]

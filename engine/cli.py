import argparse
import os
import sys

sys.path.insert(0, os.path.dirname(os.path.dirname(os.path.abspath(__file__))))
os.chdir(os.path.dirname(os.path.dirname(os.path.abspath(__file__))))

from engine import core  # noqa: E402
from engine.proto import HarnessError  # noqa: E402


def main():
    ap = argparse.ArgumentParser()
    ap.add_argument("prop")
    ap.add_argument("--tier", default=os.environ.get("VERIF_TIER", "quick"), choices=["quick", "thorough"])
    ap.add_argument("--replay")
    ap.add_argument("--only", help="comma separated target names")
    ap.add_argument("--scale", type=float, default=float(os.environ.get("VERIF_SCALE", "1.0")))
    ap.add_argument("--jobs", type=int, default=int(os.environ.get("VERIF_JOBS", "16")))
    a = ap.parse_args()
    seed = int(os.environ.get("VERIF_SEED", "0") or 0)
    if seed == 0:
        seed = core.DEFAULT_SEED
    try:
        if a.replay:
            return core.run_replay(a.replay)
        return core.run_check(a.prop.upper(), a.tier, seed, jobs=a.jobs,
                              only=a.only.split(",") if a.only else None, scale=a.scale)
    except HarnessError as e:
        print("HARNESS-ERROR: %s" % e)
        return 2


if __name__ == "__main__":
    sys.exit(main())

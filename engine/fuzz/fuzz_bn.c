/* libFuzzer target: structure-aware decoding of the input into integers and an operation list, executed against the
 * bn layer with in-target semantic oracles (algebraic identities, variant agreement, normal form, round trips).
 * Complements the Hypothesis differential checks of C01 / C09 / C08 with coverage-guided search. */
#include <stdint.h>
#include <stddef.h>
#include <string.h>
#include <stdlib.h>
#include <stdio.h>
#include "relic.h"

static int inited;
static const uint8_t *cur_data;
static size_t cur_size;

static void fail(const char *what) {
	fprintf(stderr, "FUZZ-ORACLE-VIOLATION: %s\n", what);
	fflush(stderr);
	__builtin_trap();
}

typedef struct { const uint8_t *p; size_t n; } rd_t;
static uint8_t take8(rd_t *r) { if (r->n == 0) return 0; r->n--; return r->p[r->n]; }      /* control bytes from the end */
static void take_bn(rd_t *r, bn_t a, size_t maxdig) {
	size_t len = take8(r) % (maxdig * sizeof(dig_t) + 1);
	uint8_t pat = take8(r);
	if (len > r->n) len = r->n;
	if ((pat & 3) == 1) {                     /* structured: all-ones run */
		size_t bits = (len * 8) ? (len * 8) : 1;
		bn_set_2b(a, bits < maxdig * RLC_DIG ? bits : maxdig * RLC_DIG - 1);
		bn_sub_dig(a, a, 1);
	} else {
		bn_read_bin(a, r->p, len);            /* payload from the front */
		r->p += len; r->n -= len;
	}
	if (pat & 4) bn_neg(a, a);
}
static void norm_chk(const bn_t a, const char *what) {
	if (a->used < 1 || a->used > a->alloc) fail(what);
	if (a->used > 1 && a->dp[a->used - 1] == 0) fail(what);
	if (a->used == 1 && a->dp[0] == 0 && a->sign != RLC_POS) fail(what);
}

int LLVMFuzzerTestOneInput(const uint8_t *data, size_t size) {
	if (!inited) { if (core_init() != RLC_OK) abort(); inited = 1; }
	cur_data = data; cur_size = size;
	ctx_t *ctx = core_get();
	ctx->code = RLC_OK;
#ifdef CHECK
	ctx->last = NULL;
#endif
	uint8_t seed[8] = { 1, 2, 3, 4, 5, 6, 7, 8 };
	ctx->seeded = 0;
	rand_seed(seed, sizeof seed);

	rd_t r = { data, size };
	bn_t a, b, c, d, e, f, g;
	bn_null(a); bn_null(b); bn_null(c); bn_null(d); bn_null(e); bn_null(f); bn_null(g);
	RLC_TRY {
		bn_new(a); bn_new(b); bn_new(c); bn_new(d); bn_new(e); bn_new(f); bn_new(g);
		int nops = 1 + take8(&r) % 6;
		for (int i = 0; i < nops; i++) {
			uint8_t op = take8(&r) % 12;
#ifdef FZ_OPS_MASK
			if (!((FZ_OPS_MASK >> op) & 1)) continue;
#endif
			size_t half = RLC_BN_DIGS / 2 > 0 ? RLC_BN_DIGS / 2 : 1;
			take_bn(&r, a, op == 0 || op == 1 ? half : RLC_BN_DIGS);
			take_bn(&r, b, op == 0 ? half : RLC_BN_DIGS);
			norm_chk(a, "input a"); norm_chk(b, "input b");
			switch (op) {
				case 0:       /* multiplication variants agree, commutativity */
					bn_mul_basic(c, a, b); bn_mul_comba(d, a, b); bn_mul_karat(e, b, a);
					norm_chk(c, "mul_basic"); norm_chk(d, "mul_comba"); norm_chk(e, "mul_karat");
					if (bn_cmp(c, d) != RLC_EQ || bn_cmp(c, e) != RLC_EQ) fail("multiplication variants disagree");
					if (!bn_is_zero(b)) { bn_div_rem(f, g, c, b); if (bn_cmp(f, a) != RLC_EQ || !bn_is_zero(g)) fail("(a*b)/b != a"); }
					break;
				case 1:       /* squaring variants agree with multiplication */
					bn_sqr_basic(c, a); bn_sqr_comba(d, a); bn_sqr_karat(e, a); bn_mul(f, a, a);
					norm_chk(c, "sqr_basic");
					if (bn_cmp(c, d) != RLC_EQ || bn_cmp(c, e) != RLC_EQ || bn_cmp(c, f) != RLC_EQ) fail("squaring variants disagree");
					break;
				case 2:       /* (a + b) - b = a; a - b = -(b - a); aliasing */
					bn_add(c, a, b); norm_chk(c, "add"); bn_sub(d, c, b); norm_chk(d, "sub");
					if (bn_cmp(d, a) != RLC_EQ) fail("(a+b)-b != a");
					bn_sub(e, a, b); bn_sub(f, b, a); bn_neg(f, f);
					if (bn_cmp(e, f) != RLC_EQ) fail("a-b != -(b-a)");
					bn_copy(g, a); bn_add(g, g, b); if (bn_cmp(g, c) != RLC_EQ) fail("aliased add differs");
					bn_copy(g, b); bn_add(g, a, g); if (bn_cmp(g, c) != RLC_EQ) fail("aliased add (c==b) differs");
					break;
				case 3:       /* floor division: a = q*b + r, 0 <= |r| < |b|, sign(r) = sign(b) */
					if (bn_is_zero(b)) break;
					bn_div_rem(c, d, a, b); norm_chk(c, "quotient"); norm_chk(d, "remainder");
					bn_mul(e, c, b); bn_add(e, e, d);
					if (bn_cmp(e, a) != RLC_EQ) fail("a != q*b + r");
					if (bn_cmp_abs(d, b) != RLC_LT) fail("|r| >= |b|");
					if (!bn_is_zero(d) && bn_sign(d) != bn_sign(b)) fail("remainder sign differs from divisor sign");
					bn_div(f, a, b); if (bn_cmp(f, c) != RLC_EQ) fail("bn_div != bn_div_rem quotient");
					bn_copy(g, a); bn_div_rem(g, f, g, b); if (bn_cmp(g, c) != RLC_EQ || bn_cmp(f, d) != RLC_EQ) fail("aliased division differs");
					break;
				case 4: {     /* shifts */
					uint_t k = take8(&r) % (RLC_DIG * 3);
					if (bn_bits(a) + k + RLC_DIG > RLC_BN_SIZE * RLC_DIG) break;
					bn_abs(a, a);
					bn_lsh(c, a, k); norm_chk(c, "lsh"); bn_rsh(d, c, k); norm_chk(d, "rsh");
					if (bn_cmp(d, a) != RLC_EQ) fail("(a << k) >> k != a");
					bn_set_2b(e, k); bn_mul(f, a, e); if (bn_cmp(f, c) != RLC_EQ) fail("a << k != a * 2^k");
					break;
				}
				case 5:       /* gcd variants agree; Bezout */
					bn_gcd_basic(c, a, b); bn_gcd_lehme(d, a, b); bn_gcd_binar(e, a, b);
					if (bn_cmp(c, d) != RLC_EQ || bn_cmp(c, e) != RLC_EQ) fail("gcd variants disagree");
					if (bn_sign(c) == RLC_NEG) fail("negative gcd");
					bn_gcd_ext_basic(c, d, e, a, b);
					bn_mul(f, a, d); bn_mul(g, b, e); bn_add(f, f, g);
					if (bn_cmp(f, c) != RLC_EQ) fail("Bezout identity fails (basic)");
					bn_gcd_ext_lehme(c, d, e, a, b);
					bn_mul(f, a, d); bn_mul(g, b, e); bn_add(f, f, g);
					if (bn_cmp(f, c) != RLC_EQ) fail("Bezout identity fails (lehmer)");
					break;
				case 6: {     /* reductions agree for 0 <= a, odd m */
					bn_abs(a, a); bn_abs(b, b); b->dp[0] |= 1;
					if (b->used > RLC_BN_DIGS / 2 || a->used > 2 * b->used) break;
					bn_mod_basic(c, a, b);
					bn_mod_pre_barrt(d, b); bn_mod_barrt(e, a, b, d);
					if (bn_cmp(c, e) != RLC_EQ) fail("Barrett != division-based reduction");
					bn_mod_pre_monty(d, b); bn_mod_monty_conv(e, c, b); bn_mod_monty_back(f, e, b);
					if (bn_cmp(f, c) != RLC_EQ) fail("Montgomery conversion round trip");
					if (bn_cmp(c, b) != RLC_LT || bn_sign(c) == RLC_NEG) fail("residue out of range");
					break;
				}
				case 7: {     /* exponentiation variants agree */
					bn_abs(b, b); b->dp[0] |= 1;
					if (b->used > RLC_BN_DIGS / 4 || bn_cmp_dig(b, 1) == RLC_EQ) break;
					bn_set_dig(g, take8(&r)); bn_lsh(g, g, take8(&r) % 24);
					bn_mxp_basic(c, a, g, b); bn_mxp_slide(d, a, g, b); bn_mxp_monty(e, a, g, b);
					if (bn_cmp(c, d) != RLC_EQ || bn_cmp(c, e) != RLC_EQ) fail("exponentiation variants disagree");
					break;
				}
				case 8: {     /* binary codec round trip */
					uint8_t buf[RLC_BN_SIZE * sizeof(dig_t) + 8];
					size_t n = bn_size_bin(a);
					bn_write_bin(buf, n, a); bn_read_bin(c, buf, n); bn_abs(d, a);
					if (bn_cmp(c, d) != RLC_EQ) fail("read_bin(write_bin(a)) != |a|");
					break;
				}
				case 9: {     /* text codec round trip in a generated radix */
					char str[RLC_BN_SIZE * RLC_DIG + 8];
					uint_t radix = 2 + take8(&r) % 63;
					if (a->used > RLC_BN_DIGS) break;
					size_t n = bn_size_str(a, radix);
					if (n > sizeof str) break;
					bn_write_str(str, n, a, radix);
					if (strlen(str) + 1 > n) fail("write_str exceeded size_str");
					bn_read_str(c, str, strlen(str), radix);
					if (bn_cmp(c, a) != RLC_EQ) fail("read_str(write_str(a)) != a");
					break;
				}
				case 10: {    /* digit forms */
					dig_t dg = ((dig_t)take8(&r) << (RLC_DIG - 8)) | take8(&r), rem;
					bn_add_dig(c, a, dg); bn_sub_dig(d, c, dg);
					if (bn_cmp(d, a) != RLC_EQ) fail("(a + d) - d != a");
					if (dg != 0) {
						bn_div_rem_dig(c, &rem, a, dg); bn_mul_dig(e, c, dg); bn_add_dig(e, e, rem);
						if (bn_cmp(e, a) != RLC_EQ || rem >= dg) fail("digit division: a != q*d + r");
					}
					break;
				}
				case 11: {    /* recodings reconstruct the scalar */
					int8_t naf[RLC_BN_SIZE * RLC_DIG + 2];
					size_t l = sizeof naf, w = 2 + take8(&r) % 7;
					bn_abs(a, a);
					if (a->used > RLC_BN_DIGS) break;
					bn_rec_naf(naf, &l, a, w);
					bn_zero(c);
					for (int j = (int)l - 1; j >= 0; j--) {
						bn_dbl(c, c);
						if (naf[j] > 0) bn_add_dig(c, c, (dig_t)naf[j]);
						if (naf[j] < 0) bn_sub_dig(c, c, (dig_t)(-naf[j]));
						if (naf[j] != 0 && (naf[j] % 2 == 0 || naf[j] >= (1 << (w - 1)) || naf[j] <= -(1 << (w - 1)))) fail("NAF digit out of range");
					}
					if (bn_cmp(c, a) != RLC_EQ) fail("w-NAF does not reconstruct k");
					break;
				}
			}
		}
	} RLC_CATCH_ANY {
		/* a reported error (e.g. ERR_NO_PRECI at the capacity limit) is a clean rejection */
	} RLC_FINALLY {
		bn_free(a); bn_free(b); bn_free(c); bn_free(d); bn_free(e); bn_free(f); bn_free(g);
	}
	err_get_code();
	return 0;
}

/* libFuzzer target for C14 (optional, thorough tier): in-target oracles only, no reference model.
 *
 *   sel 0  md_hmac            == the two-hash definition of RFC 2104 built from md_map
 *   sel 1  md_kdf / md_mgf    block i == md_map(z || I2OSP(i + start, 4)); md_mgf(z, n + h)[h..] == md_kdf(z, n)
 *   sel 2  md_xmd_sh256/sh512 == RFC 9380 5.3.1 rebuilt from the one-shot md_map_sh256 / md_map_sh512
 *   sel 3  bc_aes_cbc_dec(bc_aes_cbc_enc(m)) == m
 *   sel 4  bc_aes_cbc_dec of arbitrary bytes: no crash; if accepted, re-encrypting the plaintext gives the
 *          ciphertext back (PKCS#7 is a bijection between messages and padded block strings)
 *
 * All buffers are exact-size heap blocks.  A failed oracle aborts (libFuzzer writes crash-*).
 * Known findings kept out by construction: AES with an empty plaintext, md_kdf with key_len 0.
 *
 * Build: engine.build.ensure_fuzz("fuzz256", "fuzz_md");  run: .build/fuzz256/fz_fuzz_md -max_len=4096 -max_total_time=N
 */
#include "relic.h"
#include <stdint.h>
#include <stdlib.h>
#include <string.h>
#include <stdio.h>

#if defined(WITH_MD) && defined(WITH_BC)

#if MD_MAP == SH384 || MD_MAP == SH512
#define BLK 128
#else
#define BLK 64
#endif

static void die(const char *what) {
	fprintf(stderr, "C14 fuzz oracle failed: %s\n", what);
	abort();
}

static uint8_t *dup_exact(const uint8_t *p, size_t n) {
	uint8_t *q = (uint8_t *)malloc(n ? n : 1);
	if (n) memcpy(q, p, n);
	return q;
}

static void check_hmac(const uint8_t *d, size_t n) {
	if (n < 1) return;
	size_t kl = d[0];
	d++; n--;
	if (kl > n) kl = n;
	uint8_t *key = dup_exact(d, kl), *msg = dup_exact(d + kl, n - kl);
	size_t ml = n - kl;
	uint8_t mac[RLC_MD_LEN], want[RLC_MD_LEN], k0[BLK], kh[RLC_MD_LEN > BLK ? RLC_MD_LEN : BLK];
	md_hmac(mac, msg, ml, key, kl);
	memset(k0, 0, BLK);
	if (kl > BLK) {
		md_map(kh, key, kl);
		memcpy(k0, kh, RLC_MD_LEN);
	} else {
		memcpy(k0, key, kl);
	}
	uint8_t *inner = (uint8_t *)malloc(BLK + ml), outer[BLK + RLC_MD_LEN];
	for (int i = 0; i < BLK; i++) { inner[i] = k0[i] ^ 0x36; outer[i] = k0[i] ^ 0x5C; }
	memcpy(inner + BLK, msg, ml);
	md_map(outer + BLK, inner, BLK + ml);
	md_map(want, outer, BLK + RLC_MD_LEN);
	if (memcmp(mac, want, RLC_MD_LEN) != 0) die("md_hmac != H(K^opad || H(K^ipad || m))");
	free(inner); free(key); free(msg);
}

static void check_kdf(const uint8_t *d, size_t n) {
	if (n < 3) return;
	int mgf = d[0] & 1;
	size_t ol = 1 + (((size_t)d[1] << 8 | d[2]) % 700);
	d += 3; n -= 3;
	uint8_t *z = dup_exact(d, n), *out = (uint8_t *)malloc(ol), *zc = (uint8_t *)malloc(n + 4), h[RLC_MD_LEN];
	if (mgf) md_mgf(out, ol, z, n); else md_kdf(out, ol, z, n);
	memcpy(zc, z, n);
	for (size_t i = 0; i * RLC_MD_LEN < ol; i++) {
		uint32_t c = (uint32_t)i + (mgf ? 0 : 1);
		zc[n] = (uint8_t)(c >> 24); zc[n + 1] = (uint8_t)(c >> 16); zc[n + 2] = (uint8_t)(c >> 8); zc[n + 3] = (uint8_t)c;
		md_map(h, zc, n + 4);
		size_t take = ol - i * RLC_MD_LEN < RLC_MD_LEN ? ol - i * RLC_MD_LEN : RLC_MD_LEN;
		if (memcmp(out + i * RLC_MD_LEN, h, take) != 0) die("md_kdf/md_mgf block != H(z || counter)");
	}
	if (!mgf) {
		uint8_t *m2 = (uint8_t *)malloc(ol + RLC_MD_LEN);
		md_mgf(m2, ol + RLC_MD_LEN, z, n);
		if (memcmp(m2 + RLC_MD_LEN, out, ol) != 0) die("md_mgf(z, n + h)[h..] != md_kdf(z, n)");
		free(m2);
	}
	free(z); free(out); free(zc);
}

typedef void (*hash_fn)(uint8_t *, const uint8_t *, size_t);
typedef void (*xmd_fn)(uint8_t *, size_t, const uint8_t *, size_t, const uint8_t *, size_t);

static void check_xmd(const uint8_t *d, size_t n) {
	if (n < 4) return;
	int big = d[0] & 1;
	hash_fn H = big ? md_map_sh512 : md_map_sh256;
	xmd_fn X = big ? md_xmd_sh512 : md_xmd_sh256;
	size_t hl = big ? 64 : 32, bl = big ? 128 : 64;
	size_t ol = 1 + (((size_t)d[1] << 8 | d[2]) % (8 * hl));
	size_t dl = d[3];
	d += 4; n -= 4;
	if (dl > n) dl = n;
	size_t ml = n - dl;
	uint8_t *dst = dup_exact(d, dl), *msg = dup_exact(d + dl, ml), *out = (uint8_t *)malloc(ol);
	X(out, ol, msg, ml, dst, dl);
	/* msg_prime = Z_pad || msg || I2OSP(ol, 2) || 0 || DST || I2OSP(dl, 1) */
	size_t pl = bl + ml + 3 + dl + 1;
	uint8_t *mp = (uint8_t *)calloc(pl, 1), b0[64], bi[64], in[64 + 1 + 255 + 1];
	memcpy(mp + bl, msg, ml);
	mp[bl + ml] = (uint8_t)(ol >> 8); mp[bl + ml + 1] = (uint8_t)ol; mp[bl + ml + 2] = 0;
	memcpy(mp + bl + ml + 3, dst, dl);
	mp[pl - 1] = (uint8_t)dl;
	H(b0, mp, pl);
	memset(bi, 0, sizeof bi);
	size_t ell = (ol + hl - 1) / hl;
	for (size_t i = 1; i <= ell; i++) {
		for (size_t j = 0; j < hl; j++) in[j] = b0[j] ^ bi[j];
		in[hl] = (uint8_t)i;
		memcpy(in + hl + 1, dst, dl);
		in[hl + 1 + dl] = (uint8_t)dl;
		H(bi, in, hl + 1 + dl + 1);
		size_t take = ol - (i - 1) * hl < hl ? ol - (i - 1) * hl : hl;
		if (memcmp(out + (i - 1) * hl, bi, take) != 0) die("md_xmd != RFC 9380 expand_message_xmd rebuilt from md_map");
	}
	free(mp); free(dst); free(msg); free(out);
}

static void check_aes(const uint8_t *d, size_t n, int raw) {
	if (n < 1 + 32 + 16) return;
	size_t kl = 16 + 8 * (d[0] % 3);
	uint8_t *key = dup_exact(d + 1, kl), *iv = dup_exact(d + 33, 16);
	d += 49; n -= 49;
	if (!raw) {
		if (n == 0) goto done;                       /* known finding: empty plaintext refused */
		size_t cl = 16 * (n / 16 + 1), ol = cl, pl;
		uint8_t *pt = dup_exact(d, n), *ct = (uint8_t *)malloc(cl), *back;
		if (bc_aes_cbc_enc(ct, &ol, pt, n, key, kl, iv) != RLC_OK || ol != cl) die("bc_aes_cbc_enc refused / wrong length");
		back = (uint8_t *)malloc(cl);
		pl = cl;
		if (bc_aes_cbc_dec(back, &pl, ct, cl, key, kl, iv) != RLC_OK) die("dec(enc(m)) refused");
		if (pl != n || memcmp(back, pt, n) != 0) die("dec(enc(m)) != m");
		free(pt); free(ct); free(back);
	} else {
		size_t pl = n;
		uint8_t *ct = dup_exact(d, n), *pt = (uint8_t *)malloc(n ? n : 1);
		if (bc_aes_cbc_dec(pt, &pl, ct, n, key, kl, iv) == RLC_OK) {
			if (n == 0 || n % 16 != 0 || pl >= n || n - pl > 16) die("bc_aes_cbc_dec accepted an impossible length");
			size_t cl = n;
			uint8_t *p2 = dup_exact(pt, pl), *c2 = (uint8_t *)malloc(n);
			if (bc_aes_cbc_enc(c2, &cl, p2, pl, key, kl, iv) != RLC_OK || cl != n || memcmp(c2, ct, n) != 0)
				die("enc(dec(c)) != c for an accepted ciphertext (padding check too lax)");
			free(p2); free(c2);
		}
		free(ct); free(pt);
	}
done:
	free(key); free(iv);
}

int LLVMFuzzerTestOneInput(const uint8_t *data, size_t size) {
	static int init;
	if (!init) {
		if (core_init() != RLC_OK) abort();
		init = 1;
	}
	if (size < 1) return 0;
	int sel = data[0] % 5;
	data++; size--;
	err_t e;
	RLC_TRY {
		switch (sel) {
			case 0: check_hmac(data, size); break;
			case 1: check_kdf(data, size); break;
			case 2: check_xmd(data, size); break;
			case 3: check_aes(data, size, 0); break;
			default: check_aes(data, size, 1); break;
		}
	} RLC_CATCH(e) {
		die("unexpected library error for an admissible input");
	}
	return 0;
}

#else
int LLVMFuzzerTestOneInput(const uint8_t *data, size_t size) { (void)data; (void)size; return 0; }
#endif

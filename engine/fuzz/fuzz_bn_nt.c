/* C09: gcd, reductions, exponentiation, recodings (ops 5-7, 11) */
#define FZ_OPS_MASK 0x8E0
#include "fuzz_bn.c"

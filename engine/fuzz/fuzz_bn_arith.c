/* C01: integer arithmetic, codecs and digit forms only (ops 0-4, 8-10) */
#define FZ_OPS_MASK 0x71F
#include "fuzz_bn.c"

/* libFuzzer target for C07: byte 0 selects the decoder, the rest is the untrusted input.
 *
 * In-target oracle (no reference model here, so validity is RECOMPUTED BY A DIFFERENT CODE PATH than the one the
 * decoder uses): accepted => coordinates / coefficients are canonical (dv_cmp with the modulus; no bit at or above
 * the field degree), the point satisfies the curve equation evaluated with *_rhs + squaring on the normalised
 * point (not *_on_curve), and writing the object back in the same format and length reproduces the input byte for
 * byte. Decoders run inside RLC_TRY (the protected style of src/cp). A failed oracle prints FUZZ-ORACLE: <what>
 * and traps, which libFuzzer saves as crash-*.
 *
 * The parameter set is fixed per process: VS_FUZZ_EP=<id> (prime curve, default: first that configures),
 * VS_FUZZ_EB=<id> (binary curve). Classes that are known findings of the Hypothesis check (known_findings.json) are
 * skipped by the oracle, each behind a KNOWN_* switch so that a repair can be verified by turning the switch off
 * (all four are repaired in /repo now, so the switches are off).
 *
 * VS_FUZZ_EMIT=<dir> writes a seed corpus of valid encodings (every selector, every accepted length) and exits:
 * engine/fuzz/corpus/fuzz_decode was produced that way. */
#include "vs.h"

#ifndef KNOWN_FP2_PACKED_UNCHECKED
#define KNOWN_FP2_PACKED_UNCHECKED 0      /* fp2_read_bin(L+1): result of fp2_upk ignored, any sign octet */
#endif
#ifndef KNOWN_FP12_PACKED_UNCHECKED
#define KNOWN_FP12_PACKED_UNCHECKED 0     /* fp12_read_bin(8L): no cyclotomic test */
#endif
#ifndef KNOWN_FB_UNREDUCED
#define KNOWN_FB_UNREDUCED 0              /* fb_read_bin keeps bits >= m */
#endif
#ifndef KNOWN_ED_X_ZERO
#define KNOWN_ED_X_ZERO 0                 /* second encodings of the Edwards points with x = 0 */
#endif

static int inited, have_ep, have_ep2, have_eb, have_ed;

static void oracle_fail(const char *what) {
	fprintf(stderr, "FUZZ-ORACLE: %s\n", what);
	fflush(stderr);
	__builtin_trap();
}

static void clear_err(void) {
	ctx_t *ctx = core_get();
	ctx->code = RLC_OK;
#ifdef CHECK
	ctx->last = NULL;
	ctx->caught = 0;
#endif
}

static int try_set(void (*fn)(int), int id) {
	volatile int ok = 1;
	clear_err();
	RLC_TRY { fn(id); } RLC_CATCH_ANY { ok = 0; }
	if (err_get_code() != RLC_OK) ok = 0;
	clear_err();
	return ok;
}

static void emit(const char *dir, const char *name, int sel, const uint8_t *b, size_t n) {
	char path[512];
	snprintf(path, sizeof path, "%s/%s", dir, name);
	FILE *f = fopen(path, "wb");
	if (!f) return;
	fputc(sel, f);
	fwrite(b, 1, n, f);
	fclose(f);
}

static void emit_seeds(const char *dir) {
	static uint8_t b[16 * 12 * RLC_FP_BYTES + 64];
	char nm[64];
	RLC_TRY {
#if defined(WITH_BN)
		emit(dir, "bn_bin_small", 0, (const uint8_t *)"\x01\x02\x03", 3);
		emit(dir, "bn_bin_lead0", 0, (const uint8_t *)"\x00\x00\xff\x10", 4);
		emit(dir, "bn_str_10", 1, (const uint8_t *)"\x08-1234567890\0", 14);
		emit(dir, "bn_str_16", 1, (const uint8_t *)"\x0e" "DEADBEEF00ff\0", 14);
		emit(dir, "bn_str_64", 1, (const uint8_t *)"\x3e" "zZ+/09aA\0", 10);
#endif
#if defined(WITH_FP)
		{
			fp_t a; fp_null(a); fp_new(a);
			for (int i = 0; i < 3; i++) {
				if (i == 0) fp_set_dig(a, 5); else if (i == 1) { fp_set_dig(a, 1); fp_neg(a, a); } else fp_rand(a);
				fp_write_bin(b, RLC_FP_BYTES, a);
				snprintf(nm, sizeof nm, "fp_%d", i); emit(dir, nm, 2, b, RLC_FP_BYTES);
			}
			fp_free(a);
		}
#endif
#if defined(WITH_EP)
		if (have_ep) {
			ep_t p; ep_null(p); ep_new(p);
			ep_curve_get_gen(p);
			for (int i = 0; i < 3; i++) {
				ep_write_bin(b, 2 * RLC_FP_BYTES + 1, p, 0);
				snprintf(nm, sizeof nm, "ep_u_%d", i); emit(dir, nm, 5, b, 2 * RLC_FP_BYTES + 1);
				ep_write_bin(b, RLC_FP_BYTES + 1, p, 1);
				snprintf(nm, sizeof nm, "ep_c_%d", i); emit(dir, nm, 6, b, RLC_FP_BYTES + 1);
				ep_dbl(p, p); ep_norm(p, p);
			}
			b[0] = 0; emit(dir, "ep_inf", 5, b, 1);
			ep_free(p);
		}
#endif
#if defined(WITH_FPX) && defined(WITH_EP)
		if (have_ep) {
			fp2_t a, c; fp2_null(a); fp2_null(c); fp2_new(a); fp2_new(c);
			fp2_rand(a);
			fp2_write_bin(b, 2 * RLC_FP_BYTES, a, 0); emit(dir, "fp2_full", 3, b, 2 * RLC_FP_BYTES);
			fp2_conv_cyc(c, a);
			fp2_write_bin(b, RLC_FP_BYTES + 1, c, 1); emit(dir, "fp2_packed", 3, b, RLC_FP_BYTES + 1);
			fp2_free(a); fp2_free(c);
		}
#endif
#if defined(WITH_EPX) && defined(WITH_EP) && defined(WITH_PC)
		if (have_ep2) {
			ep2_t q; fp12_t g; ep_t p; ep2_null(q); fp12_null(g); ep_null(p);
			ep2_new(q); fp12_new(g); ep_new(p);
			ep2_curve_get_gen(q); ep_curve_get_gen(p);
			for (int i = 0; i < 2; i++) {
				ep2_write_bin(b, 4 * RLC_FP_BYTES + 1, q, 0);
				snprintf(nm, sizeof nm, "ep2_u_%d", i); emit(dir, nm, 7, b, 4 * RLC_FP_BYTES + 1);
				ep2_write_bin(b, 2 * RLC_FP_BYTES + 1, q, 1);
				snprintf(nm, sizeof nm, "ep2_c_%d", i); emit(dir, nm, 7, b, 2 * RLC_FP_BYTES + 1);
				ep2_dbl(q, q); ep2_norm(q, q);
			}
			b[0] = 0; emit(dir, "ep2_inf", 7, b, 1);
			pp_map_k12(g, p, q);
			fp12_write_bin(b, 12 * RLC_FP_BYTES, g, 0); emit(dir, "fp12_full", 4, b, 12 * RLC_FP_BYTES);
			fp12_write_bin(b, 8 * RLC_FP_BYTES, g, 1); emit(dir, "fp12_packed", 4, b, 8 * RLC_FP_BYTES);
			fp12_rand(g);
			fp12_write_bin(b, 12 * RLC_FP_BYTES, g, 0); emit(dir, "fp12_random", 4, b, 12 * RLC_FP_BYTES);
			ep2_free(q); fp12_free(g); ep_free(p);
		}
#endif
#if defined(WITH_EB)
		if (have_eb) {
			eb_t p; eb_null(p); eb_new(p);
			eb_curve_get_gen(p);
			for (int i = 0; i < 2; i++) {
				eb_write_bin(b, 2 * RLC_FB_BYTES + 1, p, 0);
				snprintf(nm, sizeof nm, "eb_u_%d", i); emit(dir, nm, 8, b, 2 * RLC_FB_BYTES + 1);
				eb_write_bin(b, RLC_FB_BYTES + 1, p, 1);
				snprintf(nm, sizeof nm, "eb_c_%d", i); emit(dir, nm, 8, b, RLC_FB_BYTES + 1);
				fb_write_bin(b, RLC_FB_BYTES, p->x);
				snprintf(nm, sizeof nm, "fb_%d", i); emit(dir, nm, 9, b, RLC_FB_BYTES);
				eb_dbl(p, p); eb_norm(p, p);
			}
			b[0] = 0; emit(dir, "eb_inf", 8, b, 1);
			eb_free(p);
		}
#endif
#if defined(WITH_ED)
		if (have_ed) {
			ed_t p; ed_null(p); ed_new(p);
			ed_curve_get_gen(p);
			for (int i = 0; i < 2; i++) {
				ed_write_bin(b, 2 * RLC_FP_BYTES + 1, p, 0);
				snprintf(nm, sizeof nm, "ed_u_%d", i); emit(dir, nm, 10, b, 2 * RLC_FP_BYTES + 1);
				ed_write_bin(b, RLC_FP_BYTES + 1, p, 1);
				snprintf(nm, sizeof nm, "ed_c_%d", i); emit(dir, nm, 10, b, RLC_FP_BYTES + 1);
				ed_dbl(p, p); ed_norm(p, p);
			}
			ed_free(p);
		}
#endif
	} RLC_CATCH_ANY { fprintf(stderr, "seed emission failed\n"); }
	clear_err();
}

int LLVMFuzzerInitialize(int *argc, char ***argv) {
	(void)argc; (void)argv;
	if (core_init() != RLC_OK) abort();
	inited = 1;
#if defined(WITH_EP)
	{
		const char *e = getenv("VS_FUZZ_EP");
		if (e) have_ep = try_set(ep_param_set, atoi(e));
		for (int id = 1; !have_ep && id < 90; id++) have_ep = try_set(ep_param_set, id);
#if defined(WITH_EPX) && defined(WITH_PC)
		if (have_ep && ep_curve_is_pairf() && ep_curve_embed() == 12) {
			volatile int ok = 1;
			RLC_TRY { ep2_curve_set_twist(getenv("VS_FUZZ_TWIST") ? atoi(getenv("VS_FUZZ_TWIST")) : RLC_EP_DTYPE); } RLC_CATCH_ANY { ok = 0; }
			have_ep2 = ok && err_get_code() == RLC_OK && ep2_curve_is_twist();
			clear_err();
		}
#endif
	}
#endif
#if defined(WITH_EB)
	{
		const char *e = getenv("VS_FUZZ_EB");
		if (e) have_eb = try_set(eb_param_set, atoi(e));
		for (int id = 1; !have_eb && id < 40; id++) have_eb = try_set(eb_param_set, id);
	}
#endif
#if defined(WITH_ED)
	have_ed = try_set(ed_param_set, 1);
#endif
	if (getenv("VS_FUZZ_EMIT")) {
		emit_seeds(getenv("VS_FUZZ_EMIT"));
		exit(0);
	}
	return 0;
}


#if defined(WITH_FP)
static int fp_canon(const fp_t a) { return dv_cmp(a, fp_prime_get(), RLC_FP_DIGS) == RLC_LT; }
#endif

int LLVMFuzzerTestOneInput(const uint8_t *data, size_t size) {
	if (!inited || size < 1) return 0;
	int sel = data[0] % 12;
	size_t len = size - 1;
	if (len > 4096) return 0;
	/* exact-size heap copies so that ASan sees any access outside the input / output */
	uint8_t *in = (uint8_t *)malloc(len ? len : 1);
	uint8_t *out = (uint8_t *)malloc(len ? len : 1);
	memcpy(in, data + 1, len);
	memset(out, 0xA5, len);
	volatile int accepted = 0;
	clear_err();

	switch (sel) {
#if defined(WITH_BN)
	case 0: {            /* bn_read_bin: every string is a number; re-encoding at the same length is the identity */
		bn_t a; bn_null(a);
		if (len > RLC_BN_DIGS * (RLC_DIG / 8)) break;
		RLC_TRY {
			bn_new(a);
			bn_read_bin(a, in, len);
			accepted = 1;
			size_t lz = 0;
			while (lz < len && in[lz] == 0) lz++;
			if (bn_size_bin(a) != len - lz) oracle_fail("bn_size_bin(bn_read_bin(b)) != len - leading zeros");
			if (a->used < 1 || (a->used > 1 && a->dp[a->used - 1] == 0) || a->sign != RLC_POS) oracle_fail("bn_read_bin: result not normalised");
			bn_write_bin(out, len, a);
			if (memcmp(in, out, len) != 0) oracle_fail("bn_write_bin(bn_read_bin(b)) != b");
		} RLC_CATCH_ANY { if (accepted) oracle_fail("bn re-encoding failed"); else oracle_fail("bn_read_bin rejected a string within the precision"); }
		RLC_FINALLY { bn_free(a); }
		break;
	}
	case 1: {            /* bn_read_str: radix from byte 1; read -> write -> read is stable */
		bn_t a, b; bn_null(a); bn_null(b);
		if (len < 2 || len > 200) break;
		uint_t radix = 2 + in[0] % 63;
		in[len - 1] = 0;
		static char txt[2200];
		RLC_TRY {
			bn_new(a); bn_new(b);
			bn_read_str(a, (const char *)in + 1, len - 2, radix);
			accepted = 1;
			if (a->used < 1 || (a->used > 1 && a->dp[a->used - 1] == 0) || (bn_is_zero(a) && a->sign != RLC_POS)) oracle_fail("bn_read_str: result not normalised");
			if (bn_bits(a) <= RLC_BN_BITS) {
				size_t n = bn_size_str(a, radix);
				if (n > sizeof txt) oracle_fail("bn_size_str absurd");
				bn_write_str(txt, n, a, radix);
				if (strlen(txt) + 1 != n) oracle_fail("bn_size_str != strlen(bn_write_str) + 1");
				bn_read_str(b, txt, n - 1, radix);
				if (bn_cmp(a, b) != RLC_EQ) oracle_fail("bn_read_str(bn_write_str(a)) != a");
			}
		} RLC_CATCH_ANY { /* capacity errors (len * bits(radix) > precision) are admissible */ }
		RLC_FINALLY { bn_free(a); bn_free(b); }
		break;
	}
#endif
#if defined(WITH_FP)
	case 2: {            /* fp_read_bin */
		fp_t a; fp_null(a);
		RLC_TRY {
			fp_new(a);
			fp_read_bin(a, in, len);
			accepted = 1;
			if (len != RLC_FP_BYTES) oracle_fail("fp_read_bin accepted a wrong length");
			if (!fp_canon(a)) oracle_fail("fp_read_bin: result >= p");
			fp_write_bin(out, len, a);
			if (memcmp(in, out, len) != 0) oracle_fail("fp_write_bin(fp_read_bin(b)) != b");
		} RLC_CATCH_ANY { if (accepted) oracle_fail("fp re-encoding failed"); }
		RLC_FINALLY { fp_free(a); }
		break;
	}
#endif
#if defined(WITH_FPX) && defined(WITH_EP)
	case 3: {            /* fp2_read_bin */
		fp2_t a; fp2_null(a);
		if (!have_ep) break;
		RLC_TRY {
			fp2_new(a);
			fp2_read_bin(a, in, len);
			accepted = 1;
			if (len != RLC_FP_BYTES + 1 && len != 2 * RLC_FP_BYTES) oracle_fail("fp2_read_bin accepted a wrong length");
			if (!fp_canon(a[0]) || !fp_canon(a[1])) oracle_fail("fp2_read_bin: coefficient >= p");
			if (len == 2 * RLC_FP_BYTES || !KNOWN_FP2_PACKED_UNCHECKED) {
				int pack = len == RLC_FP_BYTES + 1;
				if (pack && !fp2_test_cyc(a)) oracle_fail("fp2_read_bin(packed): result does not have norm 1");
				fp2_write_bin(out, len, a, pack);
				if (memcmp(in, out, len) != 0) oracle_fail("fp2_write_bin(fp2_read_bin(b)) != b");
			}
		} RLC_CATCH_ANY { if (accepted) oracle_fail("fp2 re-encoding failed"); }
		RLC_FINALLY { fp2_free(a); }
		break;
	}
	case 4: {            /* fp12_read_bin / gt_read_bin */
		fp12_t a; fp12_null(a);
		if (!have_ep2) break;
		RLC_TRY {
			fp12_new(a);
			fp12_read_bin(a, in, len);
			accepted = 1;
			if (len != 8 * RLC_FP_BYTES && len != 12 * RLC_FP_BYTES) oracle_fail("fp12_read_bin accepted a wrong length");
			for (int i = 0; i < 2; i++) for (int j = 0; j < 3; j++) for (int k = 0; k < 2; k++)
				if (!fp_canon(a[i][j][k])) oracle_fail("fp12_read_bin: coefficient >= p");
			if (len == 8 * RLC_FP_BYTES && !KNOWN_FP12_PACKED_UNCHECKED && !fp12_test_cyc(a)) oracle_fail("fp12_read_bin(8L): result not cyclotomic");
			fp12_write_bin(out, len, a, len == 8 * RLC_FP_BYTES);
			if (memcmp(in, out, len) != 0) oracle_fail("fp12_write_bin(fp12_read_bin(b)) != b");
		} RLC_CATCH_ANY { if (accepted) oracle_fail("fp12 re-encoding failed"); }
		RLC_FINALLY { fp12_free(a); }
		break;
	}
#endif
#if defined(WITH_EP)
	case 5: case 6: {    /* ep_read_bin */
		ep_t a, t; fp_t l, r; ep_null(a); ep_null(t); fp_null(l); fp_null(r);
		if (!have_ep) break;
		RLC_TRY {
			ep_new(a); ep_new(t); fp_new(l); fp_new(r);
			ep_read_bin(a, in, len);
			accepted = 1;
			if (len != 1 && len != RLC_FP_BYTES + 1 && len != 2 * RLC_FP_BYTES + 1) oracle_fail("ep_read_bin accepted a wrong length");
			if (!ep_is_infty(a)) {
				ep_norm(t, a);
				if (!fp_canon(t->x) || !fp_canon(t->y)) oracle_fail("ep_read_bin: coordinate >= p");
				ep_rhs(r, t->x);
				fp_sqr(l, t->y);
				if (fp_cmp(l, r) != RLC_EQ) oracle_fail("ep_read_bin accepted a point that is not on the curve");
				if (len == 1) oracle_fail("ep_read_bin: one octet decoded to a finite point");
			} else if (len != 1) oracle_fail("ep_read_bin: long string decoded to the identity");
			ep_write_bin(out, len, a, len == RLC_FP_BYTES + 1);
			if (memcmp(in, out, len) != 0) oracle_fail("ep_write_bin(ep_read_bin(b)) != b");
			if (ep_size_bin(a, len == RLC_FP_BYTES + 1) != len) oracle_fail("ep_size_bin != accepted length");
		} RLC_CATCH_ANY { if (accepted) oracle_fail("ep re-encoding failed"); }
		RLC_FINALLY { ep_free(a); ep_free(t); fp_free(l); fp_free(r); }
		break;
	}
#endif
#if defined(WITH_EPX) && defined(WITH_EP)
	case 7: {            /* ep2_read_bin */
		ep2_t a, t; fp2_t l, r; ep2_null(a); ep2_null(t); fp2_null(l); fp2_null(r);
		if (!have_ep2) break;
		RLC_TRY {
			ep2_new(a); ep2_new(t); fp2_new(l); fp2_new(r);
			ep2_read_bin(a, in, len);
			accepted = 1;
			if (len != 1 && len != 2 * RLC_FP_BYTES + 1 && len != 4 * RLC_FP_BYTES + 1) oracle_fail("ep2_read_bin accepted a wrong length");
			int pack = len == 2 * RLC_FP_BYTES + 1;
			if (!ep2_is_infty(a)) {
				ep2_norm(t, a);
				if (!fp_canon(t->x[0]) || !fp_canon(t->x[1]) || !fp_canon(t->y[0]) || !fp_canon(t->y[1])) oracle_fail("ep2_read_bin: coordinate >= p");
				ep2_rhs(r, t->x);
				fp2_sqr(l, t->y);
				if (fp2_cmp(l, r) != RLC_EQ) oracle_fail("ep2_read_bin accepted a point that is not on the curve");
				/* known: ep2_pck takes the sign from y1 only (y1 == 0 is mis-signed) */
				if (pack && fp_is_zero(t->y[1])) pack = -1;
			} else if (len != 1) oracle_fail("ep2_read_bin: long string decoded to the identity");
			if (pack >= 0) {
				ep2_write_bin(out, len, a, pack);
				if (memcmp(in, out, len) != 0) oracle_fail("ep2_write_bin(ep2_read_bin(b)) != b");
			}
		} RLC_CATCH_ANY { if (accepted) oracle_fail("ep2 re-encoding failed"); }
		RLC_FINALLY { ep2_free(a); ep2_free(t); fp2_free(l); fp2_free(r); }
		break;
	}
#endif
#if defined(WITH_EB)
	case 8: case 9: {    /* eb_read_bin / fb_read_bin */
		eb_t a, t; fb_t l, r; eb_null(a); eb_null(t); fb_null(l); fb_null(r);
		if (!have_eb) break;
		int spare = 8 * RLC_FB_BYTES - RLC_FB_BITS;
		RLC_TRY {
			eb_new(a); eb_new(t); fb_new(l); fb_new(r);
			if (sel == 9) {
				fb_read_bin(l, in, len);
				accepted = 1;
				if (len != RLC_FB_BYTES) oracle_fail("fb_read_bin accepted a wrong length");
				if (!(KNOWN_FB_UNREDUCED && spare && (in[0] >> (8 - spare)))) {
					if (fb_bits(l) > RLC_FB_BITS) oracle_fail("fb_read_bin: degree >= m");
					fb_write_bin(out, len, l);
					if (memcmp(in, out, len) != 0) oracle_fail("fb_write_bin(fb_read_bin(b)) != b");
				}
			} else {
				eb_read_bin(a, in, len);
				accepted = 1;
				if (len != 1 && len != RLC_FB_BYTES + 1 && len != 2 * RLC_FB_BYTES + 1) oracle_fail("eb_read_bin accepted a wrong length");
				int skip = 0;
				if (!eb_is_infty(a)) {
					eb_norm(t, a);
					if (fb_bits(t->x) > RLC_FB_BITS || fb_bits(t->y) > RLC_FB_BITS) {
						if (KNOWN_FB_UNREDUCED) skip = 1; else oracle_fail("eb_read_bin: coordinate of degree >= m");
					}
					if (!skip) {
						/* y^2 + xy == x^3 + a x^2 + b */
						eb_rhs(r, t->x);
						fb_sqr(l, t->y);
						fb_mul(a->z, t->x, t->y);
						fb_add(l, l, a->z);
						fb_set_dig(a->z, 1);
						if (fb_cmp(l, r) != RLC_EQ) oracle_fail("eb_read_bin accepted a point that is not on the curve");
					}
				} else if (len != 1) oracle_fail("eb_read_bin: long string decoded to the identity");
				if (!skip) {
					eb_write_bin(out, len, t->coord == BASIC && !eb_is_infty(a) ? t : a, len == RLC_FB_BYTES + 1);
					if (memcmp(in, out, len) != 0) oracle_fail("eb_write_bin(eb_read_bin(b)) != b");
				}
			}
		} RLC_CATCH_ANY { if (accepted) oracle_fail("eb/fb re-encoding failed"); }
		RLC_FINALLY { eb_free(a); eb_free(t); fb_free(l); fb_free(r); }
		break;
	}
#endif
#if defined(WITH_ED)
	case 10: {           /* ed_read_bin */
		ed_t a, t; ed_null(a); ed_null(t);
		if (!have_ed) break;
		RLC_TRY {
			ed_new(a); ed_new(t);
			ed_read_bin(a, in, len);
			accepted = 1;
			if (len != 1 && len != RLC_FP_BYTES + 1 && len != 2 * RLC_FP_BYTES + 1) oracle_fail("ed_read_bin accepted a wrong length");
			ed_norm(t, a);
			if (!fp_canon(t->x) || !fp_canon(t->y)) oracle_fail("ed_read_bin: coordinate >= p");
			{
				/* a x^2 + y^2 == 1 + d x^2 y^2 */
				fp_t xx, yy, l, r; fp_null(xx); fp_null(yy); fp_null(l); fp_null(r);
				fp_new(xx); fp_new(yy); fp_new(l); fp_new(r);
				fp_sqr(xx, t->x); fp_sqr(yy, t->y);
				fp_mul(l, xx, core_get()->ed_a); fp_add(l, l, yy);
				fp_mul(r, xx, yy); fp_mul(r, r, core_get()->ed_d); fp_add_dig(r, r, 1);
				if (fp_cmp(l, r) != RLC_EQ) oracle_fail("ed_read_bin accepted a point that is not on the curve");
				fp_free(xx); fp_free(yy); fp_free(l); fp_free(r);
			}
			if (!(KNOWN_ED_X_ZERO && fp_is_zero(t->x))) {
				ed_write_bin(out, len, a, len == RLC_FP_BYTES + 1);
				if (memcmp(in, out, len) != 0) oracle_fail("ed_write_bin(ed_read_bin(b)) != b");
			}
		} RLC_CATCH_ANY { if (accepted) oracle_fail("ed re-encoding failed"); }
		RLC_FINALLY { ed_free(a); ed_free(t); }
		break;
	}
#endif
	default:
		break;
	}
	clear_err();
	free(in);
	free(out);
	return 0;
}

"""One interface over the two kinds of pairing context, for the checks that run the same targets on every embedding
degree (C04, C12):

  engine.pcctx    k = 12, G2 on a twist over Fp2, several parameter sets per build (ep_param_set + ep2_curve_set_twist)
  engine.pcctx_k  one set per build (the one pc_param_set_any installs), G2 over Fp^K, K = 2 (k = 8), 3 (k = 18),
                  4 (k = 16, 24), 8 (k = 48)

Degree-neutral attributes added to either context object by prep():
  kemb   embedding degree = degree of the target field (RLC_GT_EMBED of the build)
  K, FK  degree / reference field of the G2 coordinates (FK = x.F2 for k = 12)
  FT     target-field arithmetic for the oracle: the generic tower engine.ref.ext.Ext for k = 12 (as before), the
         GTField wrapper below for the larger towers (same interface, products and powers through ext.Flat, which is
         derived from the generic tower and cross-checked against it when the wrapper is built)
  G1     generator of G1 (reference coordinates)
GT elements travel as raw coefficient vectors in the library's flat memory order (= FT.flatten, the depth-first
nesting of the tower; the layout and the tower parameters are validated by C10)."""
import struct

from . import ecctx, pcctx, pcctx_k
from .core import Unsupported, Violation
from .ref import ext as rext

_KIND = {}


class GTField:
    """Ext-compatible facade (elements are tower tuples) whose mul / pow / frob run on ext.Flat."""

    def __init__(self, F):
        self.F = F
        self.fl = rext.Flat(F)
        self.fl.check(rext.sample_elements(F, "gtfield", 2), e=(1 << 17) + 0x1F35)
        self.one, self.zero, self.deg, self.p, self.K, self.d = F.one, F.zero, F.deg, F.p, F.K, F.d
        self.q = F.q

    def eq(self, a, b):
        return self.F.eq(a, b)

    def is_zero(self, a):
        return self.F.is_zero(a)

    def neg(self, a):
        return self.F.neg(a)

    def add(self, a, b):
        return self.F.add(a, b)

    def sub(self, a, b):
        return self.F.sub(a, b)

    def embed(self, a):
        return self.F.embed(a)

    def from_int(self, n):
        return self.F.from_int(n)

    def flatten(self, a):
        return self.F.flatten(a)

    def unflatten(self, v):
        return self.F.unflatten(v)

    def inv(self, a):
        return self.F.inv(a)

    def mul(self, a, b):
        fl = self.fl
        fa = fl.from_tower(a)
        return fl.to_tower(fl.mul(fa, fa if b is a else fl.from_tower(b)))

    def sqr(self, a):
        return self.mul(a, a)

    def pow(self, a, e):
        fl = self.fl
        if e < 0:
            a, e = self.F.inv(a), -e
        return fl.to_tower(fl.pow(fl.from_tower(a), e))

    def frob(self, a, i=1):
        fl = self.fl
        return fl.to_tower(fl.frob(fl.from_tower(a), i))


def is_k12(env, cfg):
    """does engine.pcctx serve this configuration (k = 12 pairing layer with G2 over Fp2)?"""
    if cfg not in _KIND:
        r = env.runner(cfg)
        if "info_pc" not in r.ops() or "pc_map" not in r.ops():
            raise Unsupported()
        inf = r.info("info_pc")
        _KIND[cfg] = (inf[0] == 12 and inf[1] == 2)
    return _KIND[cfg]


def prep(env, cfg, x):
    if getattr(x, "_g", False):
        return x
    if isinstance(x, pcctx.PairCtx):
        x.kemb, x.K, x.FK, x.FT, x.mod = 12, 2, x.F2, x.F12, pcctx
    else:
        x.mod = pcctx_k
        x.G1 = x.base.G
        if x.kemb not in x.T:
            raise Unsupported()
        # every level of the construction chain must be a field (reference check, as in C10)
        F = x.T[x.kemb]
        chain = []
        while isinstance(F, rext.Ext):
            chain.append(F)
            F = F.K
        for F in reversed(chain):
            K = F.K
            if not isinstance(K, rext.Ext) or K.deg <= 3:
                ok = F.irreducible()
            elif F.d == 2:
                ok = not K.is_square_norm(F.nr)
            else:
                qk = K.p ** K.deg
                fl = rext.Flat(K)
                ok = (qk - 1) % 3 == 0 and fl.pow(fl.from_tower(F.nr), (qk - 1) // 3) != fl.one
            if not ok:
                raise Violation("pairing set %d: the tower level %s read from the library is not a field" % (x.cid, F.name))
        x.FT = GTField(x.T[x.kemb])
        if x.kemb == 12:
            x.F12 = x.FT
    if not hasattr(x.base, "_small"):
        x.base._small = {}
    x._g = True
    return x


def job_ctx(env, cfg):
    if is_k12(env, cfg):
        return prep(env, cfg, pcctx.job_ctx(env, cfg))
    return prep(env, cfg, pcctx_k.job_ctx(env, cfg))


def ctx_for(env, cfg, cid):
    if is_k12(env, cfg):
        return prep(env, cfg, pcctx.ctx_for(env, cfg, cid))
    return prep(env, cfg, pcctx_k.ctx_for(env, cfg, cid))


def run(env, cfg, x, builder, poison, seed=b""):
    return x.mod.run(env, cfg, x, builder, poison, seed=seed)


def forget_selection(env, cfg, x):
    """after an out-of-band Runner.info(): the k = 12 contexts re-select the curve with the next program"""
    if x.mod is pcctx:
        pcctx.discover(env, cfg)["cur"] = None


# ------------------------------------------------------------------------------------ transport

def zK(x, z):
    """generated Z coordinate (int, or list of up to K ints) -> element of FK"""
    p = x.F.p
    if isinstance(z, int):
        z = [z]
    z = [v % p for v in z][:x.K]
    return x.FK.unflatten(z + [0] * (x.K - len(z)))


def enc_g2(x, P, kind="basic", z=None, infty_style=0):
    zz = x.FK.one if z is None else zK(x, z)
    if x.mod is pcctx:
        return pcctx.enc_point2(x, P, kind, zz, infty_style)
    return pcctx_k.enc_point(x, P, kind, zz, infty_style)


def g2_vec(x, encs, count=None):
    n = len(encs)
    return bytes([x.K]) + struct.pack("<II", n if count is None else count, n) + b"".join(e[1:] for e in encs)


def g2_table(x, n):
    return bytes([x.K]) + struct.pack("<II", n, 0)


def dec_g2s(x, blob, what):
    if x.mod is pcctx:
        return pcctx.dec_points2(x, blob, what)
    return pcctx_k.dec_points(x, blob, what)


def dec_g2(x, blob, what):
    return dec_g2s(x, blob[:3 * x.K * x.F.nbytes + 5], what)[0]


def enc_gt(x, a):
    F = x.F
    body = b"".join(F.to_raw_int(v).to_bytes(F.nbytes, "little") for v in x.FT.flatten(a))
    return bytes([x.kemb]) + struct.pack("<I", len(body)) + body


def dec_gt(x, blob, what):
    F = x.F
    nb = F.nbytes
    vals = []
    for j in range(x.kemb):
        v, raw = F.dec(blob[j * nb:(j + 1) * nb])
        if v is None:
            raise Violation("%s: GT coefficient not canonical (raw >= p)" % what, raw=raw)
        vals.append(v)
    return x.FT.unflatten(vals)


def gt_gen(env, cfg, x):
    """gt_get_gen() of the selected set (read once per context)"""
    g = getattr(x, "gt_gen", None)
    if g is None:
        def build(p):
            s = p.new("FPX", enc_gt(x, x.FT.one))
            p.call("gt_get_gen", s)
            p.dump(s)
            return s
        res, s = run(env, cfg, x, build, 0x4D)
        if res.calls[0].errored or res.calls[0].unsupported:
            raise Unsupported()
        g = x.gt_gen = dec_gt(x, res.dumps[s], "gt_get_gen")
    return g


def small_multiple2(x, m):
    m %= x.r
    if m == 0:
        return None
    if m not in x._small2:
        if len(x._small2) > 3000:
            x._small2.clear()
        x._small2[m] = x.E2c.mul(m, x.G2)
    return x._small2[m]


def opname(x, op):
    """case dictionaries carry the k = 12 names; the other degrees use the twin routine of their own tower"""
    if x.kemb != 12:
        if op.startswith("fp12_"):
            return "fp%d_%s" % (x.kemb, op[5:])
        if op.endswith("_k12"):
            return op[:-2] + str(x.kemb)
    return op

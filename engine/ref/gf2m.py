"""Reference model of GF(2^m) = GF(2)[z] / (f(z)), written from the textbook (Hankerson-Menezes-Vanstone,
"Guide to ECC", ch. 2.3; IEEE 1363 Annex A.4), not from RELIC.

A polynomial over GF(2) is a Python int: bit i is the coefficient of z^i. Everything is the naive, obviously
correct method: carry-less product by shift-and-xor, reduction by folding z^m = f(z) - z^m, inversion by the
polynomial extended Euclidean algorithm, square root as a^(2^(m-1)), trace as the sum of all conjugates, half-trace
for odd m (general linear formula for even m), Rabin's irreducibility test."""


def clmul(a, b):
    """Carry-less product in GF(2)[z] (shift and xor)."""
    if a.bit_count() < b.bit_count():
        a, b = b, a
    r = 0
    while b:
        low = b & -b
        r ^= a << (low.bit_length() - 1)
        b ^= low
    return r


def clsqr(a):
    """Square in GF(2)[z]: (sum a_i z^i)^2 = sum a_i z^(2i), i.e. the binary digits re-read in base 4."""
    return int(format(a, "b"), 4)


def polydivmod(a, f):
    """Quotient and remainder of a by f in GF(2)[z] (long division)."""
    if f == 0:
        raise ZeroDivisionError
    q = 0
    df = f.bit_length()
    while a.bit_length() >= df:
        s = a.bit_length() - df
        q ^= 1 << s
        a ^= f << s
    return q, a


def polygcd(a, b):
    while b:
        a, b = b, polydivmod(a, b)[1]
    return a


def _prime_factors(n):
    out, p = [], 2
    while p * p <= n:
        if n % p == 0:
            out.append(p)
            while n % p == 0:
                n //= p
        p += 1
    if n > 1:
        out.append(n)
    return out


def is_irreducible(f):
    """Rabin's test: f of degree m is irreducible over GF(2) iff z^(2^m) = z mod f and
    gcd(z^(2^(m/p)) - z, f) = 1 for every prime divisor p of m."""
    m = f.bit_length() - 1
    if m < 1:
        return False
    if m == 1:
        return True
    if not (f & 1):
        return False            # divisible by z

    def frob_iter(k):
        x = 2                   # the polynomial z
        for _ in range(k):
            x = polydivmod(clsqr(x), f)[1]
        return x
    for p in _prime_factors(m):
        h = frob_iter(m // p) ^ 2
        if polygcd(f, h) != 1:
            return False
    return frob_iter(m) == polydivmod(2, f)[1]


class GF2m:
    def __init__(self, f):
        self.f = f
        self.m = f.bit_length() - 1
        self.mask = (1 << self.m) - 1
        self.taps = [i for i in range(self.m) if (f >> i) & 1]      # z^m = sum of z^taps
        self._delta = None

    # ------------------------------------------------------------------ ring operations
    def red(self, a):
        """a mod f for a polynomial of any degree."""
        m = self.m
        while a >> m:
            t = a >> m
            a &= self.mask
            for s in self.taps:
                a ^= t << s
        return a

    def add(self, a, b):
        return a ^ b

    def mul(self, a, b):
        return self.red(clmul(a, b))

    def sqr(self, a):
        return self.red(clsqr(a))

    def inv(self, a):
        """Inverse by the polynomial extended Euclidean algorithm (HMV Alg. 2.48)."""
        a = self.red(a)
        if a == 0:
            raise ZeroDivisionError("inverse of zero in GF(2^m)")
        u, v = a, self.f
        g1, g2 = 1, 0
        while u != 1:
            if u == 0:
                raise ValueError("modulus is not irreducible")
            j = u.bit_length() - v.bit_length()
            if j < 0:
                u, v = v, u
                g1, g2 = g2, g1
                j = -j
            u ^= v << j
            g1 ^= g2 << j
        return self.red(g1)

    def div(self, a, b):
        return self.mul(a, self.inv(b))

    def pow(self, a, e):
        """a^e for any integer e (0^0 = 1; 0^negative raises)."""
        a = self.red(a)
        if e < 0:
            a = self.inv(a)
            e = -e
        if a == 0:
            return 1 if e == 0 else 0
        e %= (1 << self.m) - 1
        r = 1
        for i in range(e.bit_length() - 1, -1, -1):
            r = self.sqr(r)
            if (e >> i) & 1:
                r = self.mul(r, a)
        return r

    def frob(self, a, k):
        """a^(2^k) for any integer k (negative k = iterated square roots); the Frobenius has order m."""
        k %= self.m
        for _ in range(k):
            a = self.sqr(a)
        return a

    def sqrt(self, a):
        return self.frob(a, self.m - 1)

    def trace(self, a):
        t, x = 0, a
        for _ in range(self.m):
            t ^= x
            x = self.sqr(x)
        if t not in (0, 1):
            raise ValueError("trace outside GF(2): modulus not irreducible?")
        return t

    def half_trace(self, a):
        """H(a) = sum_{i=0..(m-1)/2} a^(2^(2i)), m odd; H(a)^2 + H(a) = a + Tr(a)."""
        if self.m % 2 == 0:
            raise ValueError("half-trace needs odd m")
        h, x = 0, a
        for i in range((self.m - 1) // 2 + 1):
            h ^= x
            x = self.sqr(self.sqr(x))
        return h

    def solve_quadratic(self, a):
        """One solution c of c^2 + c = a, or None when Tr(a) = 1 (the other solution is c + 1)."""
        a = self.red(a)
        if self.trace(a) != 0:
            return None
        if self.m % 2 == 1:
            c = self.half_trace(a)
        else:
            # IEEE 1363 A.4.7 (general m): pick delta with Tr(delta) = 1,
            # c = sum_{i=0..m-2} ( sum_{j=i+1..m-1} delta^(2^j) ) * a^(2^i)
            if self._delta is None:
                d = 1
                while self.trace(d) != 1:
                    d += 1
                self._delta = d
            conj = [self._delta]
            for _ in range(self.m - 1):
                conj.append(self.sqr(conj[-1]))
            c, x = 0, a
            for i in range(self.m - 1):
                s = 0
                for j in range(i + 1, self.m):
                    s ^= conj[j]
                c ^= self.mul(s, x)
                x = self.sqr(x)
        if self.sqr(c) ^ c != a:
            raise ValueError("quadratic solver self-check failed")
        return c


class GF2m2:
    """Quadratic extension GF(2^m)[s] / (s^2 + s + 1) (m odd so that the polynomial is irreducible);
    elements are pairs (a0, a1) = a0 + a1 s."""

    def __init__(self, K):
        if K.m % 2 == 0:
            raise ValueError("s^2 + s + 1 is reducible over GF(2^m) for even m")
        self.K = K

    def add(self, a, b):
        return (a[0] ^ b[0], a[1] ^ b[1])

    def mul(self, a, b):
        K = self.K
        # s^2 = s + 1
        p00, p11 = K.mul(a[0], b[0]), K.mul(a[1], b[1])
        cross = K.mul(a[0], b[1]) ^ K.mul(a[1], b[0])
        return (p00 ^ p11, cross ^ p11)

    def sqr(self, a):
        return self.mul(a, a)

    def mul_s(self, a):
        return self.mul(a, (0, 1))

    def inv(self, a):
        K = self.K
        if a == (0, 0):
            raise ZeroDivisionError
        # conjugate of a0 + a1 s is a0 + a1 (s + 1); the norm a * conj(a) lies in GF(2^m)
        conj = (a[0] ^ a[1], a[1])
        n = self.mul(a, conj)
        if n[1] != 0:
            raise ValueError("norm not in the base field")
        ni = K.inv(n[0])
        return (K.mul(conj[0], ni), K.mul(conj[1], ni))

    def trace(self, a):
        """Absolute trace GF(2^2m) -> GF(2): sum of all 2m conjugates."""
        t, x = (0, 0), a
        for _ in range(2 * self.K.m):
            t = self.add(t, x)
            x = self.sqr(x)
        if t not in ((0, 0), (1, 0)):
            raise ValueError("trace outside GF(2)")
        return t[0]

    def is_solution(self, c, a):
        """c^2 + c == a ?"""
        return self.add(self.sqr(c), c) == a


# ------------------------------------------------------------------------------------ self-test

# irreducible reduction polynomials of FIPS 186-4 D.1.3 / SEC 2
NIST_POLY = {
    163: (1 << 163) | (1 << 7) | (1 << 6) | (1 << 3) | 1,
    233: (1 << 233) | (1 << 74) | 1,
    283: (1 << 283) | (1 << 12) | (1 << 7) | (1 << 5) | 1,
    409: (1 << 409) | (1 << 87) | 1,
    571: (1 << 571) | (1 << 10) | (1 << 5) | (1 << 2) | 1,
}


def self_test():
    # FIPS-197 section 4.2: {57} * {83} = {c1} in GF(2^8) mod z^8+z^4+z^3+z+1; section 5.1.1: inverse of {53} is {ca}
    A = GF2m(0x11B)
    assert A.mul(0x57, 0x83) == 0xC1
    assert A.mul(0x57, 0x13) == 0xFE
    assert A.inv(0x53) == 0xCA and A.mul(0x53, 0xCA) == 1
    assert is_irreducible(0x11B)
    assert not is_irreducible(0x101)                       # z^8 + 1 = (z + 1)^8
    assert not is_irreducible(0b10101)                     # z^4 + z^2 + 1 = (z^2 + z + 1)^2
    assert not is_irreducible(0x11B ^ 2)                   # z^8+z^4+z^3+1 has the root 1
    assert is_irreducible(0b111) and is_irreducible(0b1011) and is_irreducible(0b10011)
    # GCM polynomial (NIST SP 800-38D): z^128 + z^7 + z^2 + z + 1
    assert is_irreducible((1 << 128) | 0x87)
    for m, f in NIST_POLY.items():
        assert is_irreducible(f), m
    # exhaustive field axioms in GF(2^8) and in GF(2^7) (odd degree: half-trace), cross-checking every derived operation
    for f in (0x11B, 0b10000011):
        K = GF2m(f)
        q = 1 << K.m
        ntr0 = 0
        for a in range(q):
            assert K.sqr(a) == K.mul(a, a) == polydivmod(clmul(a, a), f)[1]
            assert K.sqr(K.sqrt(a)) == a and K.sqrt(K.sqr(a)) == a
            assert K.pow(a, q) == a
            if a:
                assert K.mul(a, K.inv(a)) == 1 and K.pow(a, -1) == K.inv(a) and K.pow(a, q - 2) == K.inv(a)
            t = K.trace(a)
            c = K.solve_quadratic(a)
            assert (c is None) == (t == 1)
            ntr0 += (t == 0)
            if c is not None:
                assert K.sqr(c) ^ c == a
            for k in (-3, -1, 0, 1, 5, K.m, K.m + 2):
                want = a
                for _ in range(k % K.m):
                    want = K.mul(want, want)
                assert K.frob(a, k) == want
        assert ntr0 == q // 2
        for a in range(1, q, 7):
            for b in range(0, q, 5):
                assert K.mul(a, b) == polydivmod(clmul(a, b), f)[1] == K.mul(b, a)
                assert K.mul(a, b ^ 0x35) == K.mul(a, b) ^ K.mul(a, 0x35)
    # wide operands: clmul against long multiplication with interleaved bits, reduction against long division
    K = GF2m(NIST_POLY[283])
    x = int("9a3c" * 35, 16) & K.mask
    y = int("71e5" * 35, 16) & K.mask
    naive = 0
    for i in range(y.bit_length()):
        if (y >> i) & 1:
            naive ^= x << i
    assert clmul(x, y) == naive and clsqr(x) == clmul(x, x)
    assert K.mul(x, y) == polydivmod(naive, K.f)[1]
    assert K.mul(K.inv(x), x) == 1 and K.sqr(K.sqrt(y)) == y
    assert K.pow(x, (1 << 283) - 2) == K.inv(x)
    # quadratic extension: exhaustive in GF(2^7)[s]/(s^2+s+1) on a sample, s has order 3
    K7 = GF2m(0b10000011)
    E = GF2m2(K7)
    assert E.mul((0, 1), E.mul((0, 1), (0, 1))) == (1, 0)
    nsol = 0
    for a0 in range(0, 128, 3):
        for a1 in range(0, 128, 5):
            a = (a0, a1)
            if a != (0, 0):
                assert E.mul(a, E.inv(a)) == (1, 0)
            assert E.sqr(a) == E.mul(a, a)
            assert E.mul_s(a) == E.mul(a, (0, 1))
            # Tr_{2m}(a0 + a1 s) = Tr_m(a1) because s + s^(2^m) = 1 for odd m
            assert E.trace(a) == K7.trace(a1)
            nsol += 1
    assert nsol > 0
    return True


if __name__ == "__main__":
    self_test()
    print("gf2m self-test ok")

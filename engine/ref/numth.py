"""Number-theoretic reference helpers for C09, written from the textbook definitions (HAC ch. 2-4,
Cohen ch. 1, Arnault 1995 for the pseudoprime construction). Nothing here is derived from RELIC's code."""
import math

SMALL_PRIMES = [2, 3, 5, 7, 11, 13, 17, 19, 23, 29, 31, 37, 41, 43, 47, 53, 59, 61, 67, 71, 73, 79, 83, 89, 97, 101,
                103, 107, 109, 113, 127, 131, 137, 139, 149, 151, 157, 163, 167, 173, 179, 181, 191, 193, 197, 199]


def jacobi(a, n):
    """Jacobi symbol (a|n), n odd positive; binary algorithm of HAC 2.149."""
    if n <= 0 or n % 2 == 0:
        raise ValueError("n must be odd and positive")
    a %= n
    t = 1
    while a:
        while a % 2 == 0:
            a //= 2
            if n % 8 in (3, 5):
                t = -t
        a, n = n, a
        if a % 4 == 3 and n % 4 == 3:
            t = -t
        a %= n
    return t if n == 1 else 0


def strong_probable_prime(n, a):
    """Miller-Rabin: is odd n > 2 a strong probable prime to base a (HAC 4.24, one round)."""
    d, s = n - 1, 0
    while d % 2 == 0:
        d //= 2
        s += 1
    y = pow(a, d, n)
    if y == 1 or y == n - 1:
        return True
    for _ in range(s - 1):
        y = y * y % n
        if y == n - 1:
            return True
        if y == 1:
            return False
    return False


def mr_rounds_hac(bits):
    """Number of Miller-Rabin rounds for error <= 2^-80 per HAC Table 4.4 as a function of the bit length."""
    for lo, t in ((1300, 2), (850, 3), (650, 4), (550, 5), (450, 6), (400, 7), (350, 8), (300, 9), (250, 12),
                  (200, 15), (150, 18)):
        if bits >= lo:
            return t
    return 27


def passes_fixed_base_mr(n, t=None):
    """True if odd n > 3 is a strong probable prime to each of the first t primes (bases >= n-1 are skipped)."""
    if n < 3 or n % 2 == 0:
        return n == 2
    if t is None:
        t = mr_rounds_hac(n.bit_length())
    for a in SMALL_PRIMES[:t]:
        if a >= n - 1:
            break
        if not strong_probable_prime(n, a):
            return False
    return True


def poly_from_roots(roots, q):
    """Coefficients c[0..n] (low to high) of prod (x - r) mod q; the empty product is the constant 1."""
    c = [1 % q]
    for r in roots:
        nxt = [0] * (len(c) + 1)
        for i, ci in enumerate(c):
            nxt[i + 1] = (nxt[i + 1] + ci) % q
            nxt[i] = (nxt[i] - r * ci) % q
        c = nxt
    return c


def horner(coeffs, x, q):
    """sum coeffs[i] x^i mod q."""
    acc = 0
    for ci in reversed(coeffs):
        acc = (acc * x + ci) % q
    return acc


def barrett_final_subtractions(a, m, W):
    """Replay Barrett reduction (HAC 14.42, radix 2^W) on 0 <= a < 2^(2*W*k) and count the final subtractions of m
    (0, 1 or 2). Used only to classify cases."""
    b = 1 << W
    k = (m.bit_length() + W - 1) // W
    mu = b ** (2 * k) // m
    q3 = ((a >> (W * (k - 1))) * mu) >> (W * (k + 1))
    r = (a % b ** (k + 1)) - (q3 * m) % b ** (k + 1)
    if r < 0:
        r += b ** (k + 1)
    n = 0
    while r >= m:
        r -= m
        n += 1
    if r != a % m:
        raise AssertionError("Barrett replay is wrong")
    return n


def continuant_pair(quotients):
    """(a, b) with a >= b > 0 ... whose Euclidean quotient sequence is `quotients` (last quotient >= 2 is not
    enforced: callers only need gcd(a, b) == 1 and the prescribed quotients up to normalisation)."""
    a, b = 1, 0
    for q in reversed(quotients):
        a, b = q * a + b, a
    return a, b


def euclid_quotients(a, b):
    a, b = abs(a), abs(b)
    out = []
    while b:
        q, r = divmod(a, b)
        out.append(q)
        a, b = b, r
    return out


# ------------------------------------------------------------------ composites passing fixed-base Miller-Rabin

def arnault_residues(bases, k2, k3):
    """For n = p1 p2 p3 with p_i = k_i (p1 - 1) + 1, all p_i = 3 (mod 4) and (p_i - 1) | (n - 1), n is a strong
    pseudoprime to base a whenever (a|p1) = (a|p2) = (a|p3) (Arnault, 'Constructing Carmichael numbers which are
    strong pseudoprimes to several bases', 1995: then a^((n-1)/2) = (a|p_i) mod every p_i). Returns
    {modulus: [allowed residues of p1]} for each base plus the Carmichael conditions modulo k2, k3."""
    conds = {}
    # p1 mod 8: p_i = 3 mod 4 for all i needs p1 = 3 mod 4 and k_i odd; base 2 needs equal (2|p_i), i.e. all
    # p_i in the same class {3} or {7} mod 8
    allowed8 = []
    for r in (3, 7):
        ps = [r, (k2 * (r - 1) + 1) % 8, (k3 * (r - 1) + 1) % 8]
        if all(p % 4 == 3 for p in ps) and (2 not in bases or len({p % 8 for p in ps}) == 1):
            allowed8.append(r)
    conds[8] = allowed8
    for a in bases:
        if a == 2:
            continue
        ok = []
        for r in range(1, a):
            ps = [r, (k2 * (r - 1) + 1) % a, (k3 * (r - 1) + 1) % a]
            if any(p == 0 for p in ps):
                continue
            # all p_i = 3 mod 4: (a|p_i) = (p_i|a) * (-1)^((a-1)/2), the same sign factor for every i
            if len({jacobi(p, a) for p in ps}) == 1:
                ok.append(r)
        conds[a] = ok
    # (p_i - 1) | (n - 1):  p1 = -1/k3 (mod k2) and p1 = -1/k2 (mod k3)
    for k, other in ((k2, k3), (k3, k2)):
        if k == 1:
            continue
        if math.gcd(k, other) != 1:
            return None
        r = (-pow(other, -1, k)) % k
        if k in conds:
            if r not in conds[k]:
                return None
            conds[k] = [r]
        else:
            conds[k] = [r]
    return conds


def crt(res_mod):
    x, m = 0, 1
    for r, q in res_mod:
        g = math.gcd(m, q)
        if g != 1:
            if (r - x) % g:
                return None
            q2 = q // g
            t = ((r - x) // g * pow(m // g, -1, q2)) % q2 if q2 > 1 else 0
            x, m = x + m * t, m * q2
        else:
            t = ((r - x) * pow(m, -1, q)) % q
            x, m = x + m * t, m * q
    return x % m, m


def find_fixed_base_pseudoprime(nbits_lo, nbits_hi, t, rnd, isprime, k2=None, k3=None, max_tries=4000000):
    """Search a composite n = p1 p2 p3 (Arnault form) with nbits_lo <= bits(n) <= nbits_hi that is a strong
    pseudoprime to the first t primes. rnd(k) returns a random integer below k. Returns (n, (p1, p2, p3))."""
    bases = SMALL_PRIMES[:t]
    cands = [(k2, k3)] if k2 else [(13, 41), (37, 41), (29, 37), (61, 101), (73, 109), (313, 353), (5, 17)]
    # the k_i must not collide with a base (then p_i = 1 mod base could still be fine, but keep it simple)
    for kk2, kk3 in cands:
        conds = arnault_residues(bases, kk2, kk3)
        if not conds or any(len(v) == 0 for v in conds.values()):
            continue
        # use as many bases in the CRT as the size allows, the rest is tested directly
        target_p1_bits = (nbits_lo + nbits_hi) // 2 - (kk2 * kk3).bit_length()
        target_p1_bits = (target_p1_bits + 2) // 3
        mods = sorted(conds)
        tries = 0
        while tries < max_tries:
            pick = [(conds[m][rnd(len(conds[m]))], m) for m in mods]
            M = 1
            use = []
            for r, m in pick:
                if (M * m).bit_length() < target_p1_bits - 12:
                    use.append((r, m))
                    M *= m // math.gcd(M, m)
            sol = crt(use)
            if sol is None:
                tries += 1
                continue
            r0, M = sol
            span = (1 << target_p1_bits) // M
            for _ in range(4096):
                tries += 1
                p1 = r0 + M * (span + rnd(span))
                ok = True
                for m in mods:
                    if p1 % m not in conds[m]:
                        ok = False
                        break
                if not ok:
                    continue
                p2, p3 = kk2 * (p1 - 1) + 1, kk3 * (p1 - 1) + 1
                if pow(2, p1 - 1, p1) != 1 or pow(2, p2 - 1, p2) != 1 or pow(2, p3 - 1, p3) != 1:
                    continue
                if not (isprime(p1) and isprime(p2) and isprime(p3)):
                    continue
                n = p1 * p2 * p3
                if nbits_lo <= n.bit_length() <= nbits_hi and passes_fixed_base_mr(n, t):
                    return n, (p1, p2, p3)
    return None


def self_test():
    import sympy
    for n in (1, 3, 5, 7, 9, 15, 21, 45, 97, 561, 1729, 10403):
        for a in range(-20, 60):
            assert jacobi(a, n) == sympy.jacobi_symbol(a, n), (a, n)
    # HAC example 2.153: (158|235) = -1
    assert jacobi(158, 235) == -1
    # published psi_k (smallest strong pseudoprimes to the first k primes), Jaeschke 1993 / Pomerance et al. 1980
    psi = {1: 2047, 2: 1373653, 3: 25326001, 4: 3215031751, 5: 2152302898747, 6: 3474749660383,
           7: 341550071728321, 9: 3825123056546413051, 12: 318665857834031151167461, 13: 3317044064679887385961981}
    for k, n in psi.items():
        assert passes_fixed_base_mr(n, k), k
        assert not sympy.isprime(n)
        assert not passes_fixed_base_mr(n, 20), k      # a composite fails for some small base
    for p in (3, 5, 7, 97, 65537, (1 << 61) - 1, (1 << 127) - 1):
        assert passes_fixed_base_mr(p, 27)
    assert poly_from_roots([], 97) == [1]
    assert poly_from_roots([1, 2], 97) == [2, 94, 1]           # (x-1)(x-2) = x^2 - 3x + 2
    assert horner([2, 94, 1], 5, 97) == 12                     # (5-1)(5-2)
    a, b = continuant_pair([1, 2, 3, 4])
    assert math.gcd(a, b) == 1 and euclid_quotients(a, b) == [1, 2, 3, 4]
    assert barrett_final_subtractions(3982696604, 786, 8) == 2 and barrett_final_subtractions(3561, 47, 8) <= 2   # HAC ex. 14.44 style
    assert mr_rounds_hac(1024) == 3 and mr_rounds_hac(512) == 6 and mr_rounds_hac(256) == 12 and mr_rounds_hac(100) == 27

"""Reference model for the second pairing group of k = 12 curves with a sextic twist (BN, BLS12), written from the
literature, never from RELIC's code:

* curve families:  BN  p = 36x^4+36x^3+24x^2+6x+1, r = 36x^4+36x^3+18x^2+6x+1   (Barreto-Naehrig 2005)
                   B12 r = x^4-x^2+1, p = (x-1)^2 r/3 + x                         (Barreto-Lynn-Scott 2002)
  the parameter x is *derived* from (p, r), it is not read from the library;
* the twist isomorphism Psi: E'(Fp2) -> E(Fp12), E: y^2 = x^3 + b, E': y^2 = x^3 + b', w^6 = xi in the tower
      D-type (b' = b/xi):  (x, y) -> (x w^2, y w^3)        M-type (b' = b xi):  (x, y) -> (x / w^2, y / w^3)
  and the untwist-Frobenius-twist endomorphism psi = Psi^-1 o pi_p o Psi evaluated in Fp12 with the p-power Frobenius
  computed by plain exponentiation (engine.ref.ext);
* effective cofactor of the published fast cofactor-clearing maps: a homomorphism f: E'(Fp2) -> E'[r] kills the part of
  order dividing h2 (gcd(h2, r) = 1) and acts on the cyclic group E'[r] as a scalar e, so f = [h_eff] with
  h_eff = 0 (mod h2), h_eff = e (mod r) by the CRT.  Candidates for e from the papers, with psi = [p] on E'[r]:
      BN  (Fuentes-Castaneda, Knapp, Rodriguez-Henriquez, SAC 2011):  x + 3x p + x p^2 + p^3
      B12 (Budroni, Pintore 2017 = RFC 9380 section 8.8.2 / G.4):      (x^2-x-1) + (x-1) p + 2 p^2
      plain multiplication by the cofactor:                            h2
  A candidate is only *used* by a check after it reproduced the library's map on concrete points.

self_test() checks everything against the published BLS12-381 constants (parameter, p, r, G2 generator, G2 cofactor,
RFC 9380 h_eff)."""
from math import gcd, isqrt

from . import ec as rec
from . import ext as rext

DTYPE, MTYPE = 1, 2


def bn_p(x):
    return 36 * x ** 4 + 36 * x ** 3 + 24 * x ** 2 + 6 * x + 1


def bn_r(x):
    return 36 * x ** 4 + 36 * x ** 3 + 18 * x ** 2 + 6 * x + 1


def b12_r(x):
    return x ** 4 - x ** 2 + 1


def b12_p(x):
    return (x - 1) ** 2 * b12_r(x) // 3 + x


def family(p, r):
    """('BN' | 'B12', x) with the polynomial parametrisation reproducing (p, r) exactly, or (None, None)."""
    d = p - r
    if d > 0 and d % 6 == 0:
        s = isqrt(d // 6)
        if s * s == d // 6:
            for x in (s, -s):
                if bn_p(x) == p and bn_r(x) == r:
                    return "BN", x
    # B12: x^2 = (1 + sqrt(4r - 3)) / 2
    s = isqrt(4 * r - 3)
    if s * s == 4 * r - 3 and (1 + s) % 2 == 0:
        x2 = (1 + s) // 2
        t = isqrt(x2)
        if t * t == x2:
            for x in (t, -t):
                if b12_r(x) == r and (x - 1) ** 2 * r % 3 == 0 and b12_p(x) == p:
                    return "B12", x
    return None, None


class Twist:
    """Twist map and psi for one tower (T from engine.ref.ext.build_tower) and twist type."""

    def __init__(self, T, ttype, b, b2):
        self.T, self.ttype = T, ttype
        self.F2, self.F6, self.F12 = T[2], T[6], T[12]
        self.p = self.F2.p
        F2, F6, F12 = self.F2, self.F6, self.F12
        self.w = rext.art(F12)
        self.w2 = F12.mul(self.w, self.w)
        self.w3 = F12.mul(self.w2, self.w)
        self.w2i, self.w3i = F12.inv(self.w2), F12.inv(self.w3)
        xi = F6.nr                                       # v^3 = xi, w^2 = v
        assert F12.eq(F12.pow(self.w, 6), self.up(xi)), "w^6 != xi"
        bb = F2.from_int(b)
        want = F2.mul(bb, F2.inv(xi)) if ttype == DTYPE else F2.mul(bb, xi)
        assert F2.eq(want, b2), "twist coefficient does not match the declared twist type"
        self.E12 = rec.Curve(F12, F12.zero, F12.from_int(b))
        self._g = {}

    def up(self, a):
        """Fp2 -> Fp12"""
        return self.F12.embed(self.F6.embed(a))

    def down(self, A):
        """Fp12 -> Fp2 (None when A is not in the subfield)"""
        F6, F2 = self.F6, self.F2
        if not F6.is_zero(A[1]) or not F2.is_zero(A[0][1]) or not F2.is_zero(A[0][2]):
            return None
        return A[0][0]

    def to_E(self, P):
        """Psi: E'(Fp2) -> E(Fp12)"""
        if P is None:
            return None
        F12 = self.F12
        X, Y = self.up(P[0]), self.up(P[1])
        if self.ttype == DTYPE:
            return (F12.mul(X, self.w2), F12.mul(Y, self.w3))
        return (F12.mul(X, self.w2i), F12.mul(Y, self.w3i))

    def from_E(self, Q):
        """Psi^-1 (None-tuple when the image does not have Fp2 coordinates)"""
        if Q is None:
            return None
        F12 = self.F12
        if self.ttype == DTYPE:
            X, Y = F12.mul(Q[0], self.w2i), F12.mul(Q[1], self.w3i)
        else:
            X, Y = F12.mul(Q[0], self.w2), F12.mul(Q[1], self.w3)
        x, y = self.down(X), self.down(Y)
        if x is None or y is None:
            raise ArithmeticError("untwisted Frobenius image is not defined over Fp2")
        return (x, y)

    def psi_full(self, P, i=1):
        """psi^i(P) with every step carried out in Fp12 (p-power Frobenius by exponentiation)."""
        if P is None:
            return None
        F12 = self.F12
        Q = self.to_E(P)
        for _ in range(i):
            Q = (F12.frob(Q[0]), F12.frob(Q[1]))
        return self.from_E(Q)

    def gammas(self):
        """(g2, g3) in Fp2 with psi(x, y) = (x^p g2, y^p g3): the Fp12 computation of psi applied to the factors of
        x w^(+-2), y w^(+-3) separately (Frobenius is multiplicative); constants obtained by Fp12 exponentiation."""
        if "g" not in self._g:
            F12 = self.F12
            if self.ttype == DTYPE:
                a2, a3, b2, b3 = self.w2, self.w3, self.w2i, self.w3i
            else:
                a2, a3, b2, b3 = self.w2i, self.w3i, self.w2, self.w3
            g2 = self.down(F12.mul(F12.frob(a2), b2))
            g3 = self.down(F12.mul(F12.frob(a3), b3))
            if g2 is None or g3 is None:
                raise ArithmeticError("Frobenius twist constants are not in Fp2")
            self._g["g"] = (g2, g3)
        return self._g["g"]

    def psi(self, P, i=1):
        """psi^i(P), Fp2 arithmetic with the Fp12-derived constants (cross-checked against psi_full in self_test and,
        on sampled cases, by the property itself)."""
        if P is None:
            return None
        F2 = self.F2
        g2, g3 = self.gammas()
        x, y = P
        for _ in range(i):
            x, y = F2.mul(F2.frob(x), g2), F2.mul(F2.frob(y), g3)
        return (x, y)


def crt_heff(e, h2, r):
    """the scalar mod h2*r that is 0 mod h2 and e mod r"""
    assert gcd(h2, r) == 1
    return (h2 * ((e % r) * pow(h2, -1, r) % r)) % (h2 * r)


def heff_candidates(fam, x, p, r, h2):
    """[(name, h_eff)] from the literature; psi = [p] on E'[r]."""
    out = []
    if fam == "BN":
        out.append(("BN:Fuentes-Castaneda-Knapp-Rodriguez-Henriquez", crt_heff(x + 3 * x * p + x * p * p + p ** 3, h2, r)))
    if fam == "B12":
        out.append(("B12:Budroni-Pintore/RFC9380", crt_heff((x * x - x - 1) + (x - 1) * p + 2 * p * p, h2, r)))
    out.append(("plain-cofactor", h2 % (h2 * r)))
    return out


def small_prime_factors(n, bound=1 << 16):
    """prime factors of n below bound by trial division (with multiplicity ignored)"""
    out = []
    q = 2
    while q < bound and q * q <= n:
        if n % q == 0:
            out.append(q)
            while n % q == 0:
                n //= q
        q += 1 if q == 2 else 2
    if 1 < n < bound:
        out.append(n)
    return out


# ---------------------------------------------------------------------------------------------- published vectors

BLS12_381 = dict(
    x=-0xd201000000010000,
    p=0x1A0111EA397FE69A4B1BA7B6434BACD764774B84F38512BF6730D2A0F6B0F6241EABFFFEB153FFFFB9FEFFFFFFFFAAAB,
    r=0x73EDA753299D7D483339D80809A1D80553BDA402FFFE5BFEFFFFFFFF00000001,
    h2=0x5d543a95414e7f1091d50792876a202cd91de4547085abaa68a205b2e5a7ddfa628f1cb4d9e82ef21537e293a6691ae1616ec6e786f0c70cf1c38e31c7238e5,
    heff=0xbc69f08f2ee75b3584c6a0ea91b352888e2a8e9145ad7689986ff031508ffe1329c2f178731db956d82bf015d1212b02ec0ec69d7477c1ae954cbc06689f6a359894c0adebbf6b4e8020005aaa95551,
    G2=((0x024aa2b2f08f0a91260805272dc51051c6e47ad4fa403b02b4510b647ae3d1770bac0326a805bbefd48056c8c121bdb8,
         0x13e02b6052719f607dacd3a088274f65596bd0d09920b61ab5da61bbdc7f5049334cf11213945d57e5ac7d055d042b7e),
        (0x0ce5d527727d6e118cc9cdc6da2e351aadfd9baa8cbdd3a76d429a695160d12c923ac9cc3baca289e193548608b82801,
         0x0606c4a02ea734cc32acd2b02bc28b99cb3e287e85a763af267492ab572e99ab3f370d275cec1da1aaa9075ff05f79be)))


def self_test():
    v = BLS12_381
    p, r, h2 = v["p"], v["r"], v["h2"]
    assert family(p, r) == ("B12", v["x"])
    # BN254 (Nogami et al. / "alt_bn128" parameter) as a family-detection vector
    xb = 4965661367192848881
    assert family(bn_p(xb), bn_r(xb)) == ("BN", xb)
    assert bn_p(xb) == 21888242871839275222246405745257275088696311157297823662689037894645226208583
    assert bn_r(xb) == 21888242871839275222246405745257275088548364400416034343698204186575808495617
    # RFC 9380: h_eff of BLS12-381 G2 equals the CRT construction from the Budroni-Pintore formula
    cands = dict(heff_candidates("B12", v["x"], p, r, h2))
    assert cands["B12:Budroni-Pintore/RFC9380"] == v["heff"] and v["heff"] == h2 * (3 * v["x"] ** 2 - 3)
    # standard tower Fp2 = Fp[i]/(i^2+1), xi = 1 + i, M-type twist y^2 = x^3 + 4(1+i)
    T = rext.build_tower(p, -1, None, (1, 1))
    tw = Twist(T, MTYPE, 4, (4, 4))
    F2 = T[2]
    E2 = rec.Curve(F2, F2.zero, (4, 4))
    G = v["G2"]
    assert E2.on_curve(G) and E2.mul(r, G) is None
    assert tw.E12.on_curve(tw.to_E(G))
    assert tw.from_E(tw.to_E(G)) == G
    # psi acts on G2 as multiplication by p (the property the GLS methods rely on), both evaluation routes agree
    want = E2.mul(p % r, G)
    assert E2.eq(tw.psi_full(G), want)
    assert E2.eq(tw.psi(G), want)
    assert E2.eq(tw.psi(G, 2), E2.mul(p * p % r, G))
    # a point outside the subgroup: psi is still an endomorphism of E'(Fp2) and satisfies psi^2 - t psi + p = 0
    P = None
    k = 1
    while P is None:
        P = E2.lift_x((k, 1))
        k += 1
    assert E2.mul(r, P) is not None and E2.mul(h2 * r, P) is None
    assert E2.eq(tw.psi_full(P), tw.psi(P)) and E2.on_curve(tw.psi(P))
    t = v["x"] + 1
    lhs = E2.add(tw.psi(P, 2), E2.mul(p, P))
    assert E2.eq(lhs, E2.mul(t, tw.psi(P)))
    # RFC 9380 clear_cofactor for G2 == multiplication by h_eff, evaluated with the reference psi
    x = v["x"]
    R = E2.add(E2.add(E2.mul(x * x - x - 1, P), tw.psi(E2.mul(x - 1, P))), tw.psi(E2.mul(2, P), 2))
    assert E2.eq(R, E2.mul(v["heff"], P)) and E2.mul(r, R) is None and R is not None
    assert small_prime_factors(2 * 3 * 3 * 65521 * 1000003) == [2, 3, 65521]

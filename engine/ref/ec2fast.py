"""Scalar multiplication on y^2 = x^3 + b over Fp2 = Fp[i]/(i^2 - beta), written for speed (plain ints, Jacobian
coordinates, EFD formulas dbl-2009-l / madd-2007-bl, every exceptional case handled).  It only exists to make the
reference [k]P affordable (about 5x faster than engine.ref.ec.Curve.mul over engine.ref.ext.Ext); it is NOT an
independent oracle by itself: self_test() ties it to the textbook affine chord-and-tangent law of engine.ref.ec on
deterministic pseudo-random inputs and on exceptional inputs, and the property re-checks sampled results against
Curve.mul while it runs.  Points are None or ((x0, x1), (y0, y1)) exactly as in engine.ref.ec over engine.ref.ext."""
from . import ec as rec
from . import ext as rext


class FastMul2:
    def __init__(self, p, beta, b):
        self.p, self.beta, self.b = p, beta % p, (b[0] % p, b[1] % p)

    def mul(self, k, P):
        if P is None or k == 0:
            return None
        p, be = self.p, self.beta
        (x0, x1), (y0, y1) = P
        if k < 0:
            k, y0, y1 = -k, (-y0) % p, (-y1) % p
        Pn = ((x0 % p, x1 % p), (y0 % p, y1 % p))
        # R = (X, Y, Z) Jacobian, identity <=> Z = 0
        X0 = X1 = Y0 = Y1 = Z0 = Z1 = 0
        inf = True
        for bit in bin(k)[2:]:
            if not inf:
                if Y0 == 0 and Y1 == 0:
                    inf = True                                   # doubling a point of order two
                else:
                    # dbl-2009-l (a = 0)
                    A0 = (X0 * X0 + be * X1 * X1) % p
                    A1 = (2 * X0 * X1) % p
                    B0 = (Y0 * Y0 + be * Y1 * Y1) % p
                    B1 = (2 * Y0 * Y1) % p
                    C0 = (B0 * B0 + be * B1 * B1) % p
                    C1 = (2 * B0 * B1) % p
                    t0, t1 = X0 + B0, X1 + B1
                    D0 = (2 * (t0 * t0 + be * t1 * t1 - A0 - C0)) % p
                    D1 = (2 * (2 * t0 * t1 - A1 - C1)) % p
                    E0, E1 = 3 * A0, 3 * A1
                    F0 = (E0 * E0 + be * E1 * E1) % p
                    F1 = (2 * E0 * E1) % p
                    nX0 = (F0 - 2 * D0) % p
                    nX1 = (F1 - 2 * D1) % p
                    u0, u1 = D0 - nX0, D1 - nX1
                    nY0 = (E0 * u0 + be * E1 * u1 - 8 * C0) % p
                    nY1 = (E0 * u1 + E1 * u0 - 8 * C1) % p
                    nZ0 = (2 * (Y0 * Z0 + be * Y1 * Z1)) % p
                    nZ1 = (2 * (Y0 * Z1 + Y1 * Z0)) % p
                    X0, X1, Y0, Y1, Z0, Z1 = nX0, nX1, nY0, nY1, nZ0, nZ1
            if bit == "1":
                if inf:
                    X0, X1, Y0, Y1, Z0, Z1 = x0, x1, y0, y1, 1, 0
                    inf = False
                    continue
                # madd-2007-bl
                ZZ0 = (Z0 * Z0 + be * Z1 * Z1) % p
                ZZ1 = (2 * Z0 * Z1) % p
                U0 = (x0 * ZZ0 + be * x1 * ZZ1) % p
                U1 = (x0 * ZZ1 + x1 * ZZ0) % p
                t0 = (Z0 * ZZ0 + be * Z1 * ZZ1) % p
                t1 = (Z0 * ZZ1 + Z1 * ZZ0) % p
                S0 = (y0 * t0 + be * y1 * t1) % p
                S1 = (y0 * t1 + y1 * t0) % p
                H0, H1 = (U0 - X0) % p, (U1 - X1) % p
                r0, r1 = (2 * (S0 - Y0)) % p, (2 * (S1 - Y1)) % p
                if H0 == 0 and H1 == 0:
                    if r0 == 0 and r1 == 0:
                        # R == P (possible when P has small order): the sum is the double of the affine point
                        R = self._dbl_affine(Pn)
                        if R is None:
                            inf = True
                        else:
                            (X0, X1), (Y0, Y1) = R
                            Z0, Z1 = 1, 0
                        continue
                    inf = True
                    continue
                HH0 = (H0 * H0 + be * H1 * H1) % p
                HH1 = (2 * H0 * H1) % p
                I0, I1 = 4 * HH0, 4 * HH1
                J0 = (H0 * I0 + be * H1 * I1) % p
                J1 = (H0 * I1 + H1 * I0) % p
                V0 = (X0 * I0 + be * X1 * I1) % p
                V1 = (X0 * I1 + X1 * I0) % p
                nX0 = (r0 * r0 + be * r1 * r1 - J0 - 2 * V0) % p
                nX1 = (2 * r0 * r1 - J1 - 2 * V1) % p
                u0, u1 = V0 - nX0, V1 - nX1
                nY0 = (r0 * u0 + be * r1 * u1 - 2 * (Y0 * J0 + be * Y1 * J1)) % p
                nY1 = (r0 * u1 + r1 * u0 - 2 * (Y0 * J1 + Y1 * J0)) % p
                t0, t1 = Z0 + H0, Z1 + H1
                nZ0 = (t0 * t0 + be * t1 * t1 - ZZ0 - HH0) % p
                nZ1 = (2 * t0 * t1 - ZZ1 - HH1) % p
                X0, X1, Y0, Y1, Z0, Z1 = nX0, nX1, nY0, nY1, nZ0, nZ1
        if inf or (Z0 == 0 and Z1 == 0):
            return None
        # to affine
        n = (Z0 * Z0 - be * Z1 * Z1) % p
        ni = pow(n, -1, p)
        i0, i1 = Z0 * ni % p, (-Z1) * ni % p
        j0 = (i0 * i0 + be * i1 * i1) % p
        j1 = (2 * i0 * i1) % p
        ax0 = (X0 * j0 + be * X1 * j1) % p
        ax1 = (X0 * j1 + X1 * j0) % p
        k0 = (j0 * i0 + be * j1 * i1) % p
        k1 = (j0 * i1 + j1 * i0) % p
        ay0 = (Y0 * k0 + be * Y1 * k1) % p
        ay1 = (Y0 * k1 + Y1 * k0) % p
        return ((ax0, ax1), (ay0, ay1))

    def _dbl_affine(self, P):
        F2 = rext.Ext(rec.PrimeField(self.p), 2, self.beta, "Fp2")
        return rec.Curve(F2, F2.zero, self.b).dbl(P)


def self_test():
    # BLS12-381 twist and a small curve with points of small order (exceptional cases inside the ladder)
    from . import g2
    v = g2.BLS12_381
    p = v["p"]
    F2 = rext.Ext(rec.PrimeField(p), 2, p - 1, "Fp2")
    E = rec.Curve(F2, F2.zero, (4, 4))
    M = FastMul2(p, -1, (4, 4))
    G = v["G2"]
    seed = 0x9E3779B97F4A7C15
    for i in range(12):
        seed = (seed * 6364136223846793005 + 1442695040888963407) % (1 << 64)
        k = (seed ** 5) % (1 << (8 + 41 * i)) - (seed & 1) * (1 << (7 + 40 * i))
        assert E.eq(M.mul(k, G), E.mul(k, G)), k
    for k in (0, 1, -1, 2, 3, v["r"] - 1, v["r"], v["r"] + 1, 2 * v["r"], -v["r"]):
        assert E.eq(M.mul(k, G), E.mul(k, G)), k
    # y^2 = x^3 + b over F_{103^2}: every point, scalars across the group order (orders 2, 3, ... occur)
    q = 103
    K = rext.Ext(rec.PrimeField(q), 2, q - 1, "F103^2")
    for b in ((1, 0), (2, 1)):
        C = rec.Curve(K, K.zero, b)
        Mq = FastMul2(q, -1, b)
        cnt = 0
        for x0 in range(0, q, 7):
            for x1 in range(0, q, 5):
                P = C.lift_x((x0, x1))
                if P is None:
                    continue
                cnt += 1
                for k in (1, 2, 3, 4, 5, 6, 7, 12, 13, 103, 104, 10608, 10609, 10610, -9, 35):
                    assert C.eq(Mq.mul(k, P), C.mul_naive(k, P) if abs(k) < 40 else C.mul(k, P)), (b, P, k)
        assert cnt > 50

"""Control-flow traces for C20: symbol table of a runner binary, function tables for the recorder in
engine/shim/b_trace.c, decoding and symbolising of recorded traces.

Nothing here models RELIC. The only 'reference' is the ELF file itself: function bounds come from `nm`,
the address of the instrumentation call of a function's entry block is found by scanning the function's
bytes for `call rel32` (0xE8) instructions whose target is the hook symbol. All addresses handed to the
runner are relative to the hook symbol, so PIE and ASLR do not matter."""
import bisect
import os
import re
import struct
import subprocess

import numpy as np

HOOK = "__sanitizer_cov_trace_pc"
_CACHE = {}


class TraceError(Exception):
    pass


class SymTab:
    def __init__(self, exe):
        self.exe = exe
        out = subprocess.check_output(["nm", "-n", "-S", "--defined-only", exe]).decode()
        funcs = []
        self.hook = None
        for line in out.splitlines():
            parts = line.split()
            if len(parts) != 4 or parts[2] not in "tTwW":
                continue
            addr, size, name = int(parts[0], 16), int(parts[1], 16), parts[3]
            if name == HOOK:
                self.hook = addr
            if size > 0:
                funcs.append((addr, size, name))
        if self.hook is None:
            raise TraceError("no %s in %s (not a trace build?)" % (HOOK, exe))
        funcs.sort()
        self.funcs = funcs
        self.starts = [f[0] for f in funcs]
        self.by_name = {}
        for f in funcs:
            self.by_name.setdefault(f[2], []).append(f)
        self.data = open(exe, "rb").read()
        self._loads = self._phdrs()
        self._calls = {}
        self.build_id = self._build_id()

    def _phdrs(self):
        d = self.data
        if d[:4] != b"\x7fELF" or d[4] != 2 or d[5] != 1:
            raise TraceError("not a little-endian ELF64 file")
        e_phoff = struct.unpack_from("<Q", d, 0x20)[0]
        e_phentsize, e_phnum = struct.unpack_from("<HH", d, 0x36)
        loads = []
        for i in range(e_phnum):
            off = e_phoff + i * e_phentsize
            p_type, _flags, p_offset, p_vaddr, _pa, p_filesz, _memsz, _al = struct.unpack_from("<IIQQQQQQ", d, off)
            if p_type == 1:
                loads.append((p_vaddr, p_filesz, p_offset))
        return loads

    def _build_id(self):
        """NT_GNU_BUILD_ID of the file (b"" if the linker wrote none)."""
        d = self.data
        e_phoff = struct.unpack_from("<Q", d, 0x20)[0]
        e_phentsize, e_phnum = struct.unpack_from("<HH", d, 0x36)
        for i in range(e_phnum):
            off = e_phoff + i * e_phentsize
            p_type, _f, p_offset, _va, _pa, p_filesz, _m, _a = struct.unpack_from("<IIQQQQQQ", d, off)
            if p_type != 4:
                continue
            p, end = p_offset, p_offset + p_filesz
            while p + 12 <= end:
                namesz, descsz, ntype = struct.unpack_from("<III", d, p)
                name = d[p + 12:p + 12 + namesz]
                desc = p + 12 + ((namesz + 3) & ~3)
                if ntype == 3 and name == b"GNU\0":
                    return d[desc:desc + descsz]
                p = desc + ((descsz + 3) & ~3)
        return b""

    def _bytes(self, addr, size):
        for va, fs, off in self._loads:
            if va <= addr and addr + size <= va + fs:
                return self.data[off + addr - va: off + addr - va + size]
        raise TraceError("address %#x not in a loaded segment" % addr)

    def hook_calls(self, addr, size):
        """Return addresses (= what __builtin_return_address(0) yields) of every `call hook` in [addr, addr+size)."""
        key = (addr, size)
        r = self._calls.get(key)
        if r is None:
            b = self._bytes(addr, size)
            r = []
            i = b.find(b"\xe8")
            while i >= 0 and i + 5 <= size:
                rel = struct.unpack_from("<i", b, i + 1)[0]
                if addr + i + 5 + rel == self.hook:
                    r.append(addr + i + 5)
                    i = b.find(b"\xe8", i + 5)
                else:
                    i = b.find(b"\xe8", i + 1)
            self._calls[key] = r
        return r

    def lookup(self, addr):
        i = bisect.bisect_right(self.starts, addr) - 1
        if i >= 0:
            a, s, n = self.funcs[i]
            if a <= addr < a + s:
                return n, addr - a
        return None, addr

    def sym(self, rel):
        """Symbolise a recorded event (address relative to the hook)."""
        n, off = self.lookup(int(rel) + self.hook)
        return "%s+%#x" % (n, off) if n else "?%#x" % off

    def block_index(self, rel):
        """(function, ordinal of the instrumented block inside the function) for an event."""
        addr = int(rel) + self.hook
        i = bisect.bisect_right(self.starts, addr) - 1
        a, s, n = self.funcs[i]
        calls = self.hook_calls(a, s)
        return n, calls.index(addr) if addr in calls else -1


def symtab(exe):
    key = (exe, os.path.getmtime(exe))
    st = _CACHE.get(key)
    if st is None:
        st = SymTab(exe)
        _CACHE.clear()
        _CACHE[key] = st
    return st


class Table:
    """Function table for one target: set A by exact names / regex, set B by regex (minus A, minus `drop`)."""

    def __init__(self, st, a_pat, b_pat, drop_pat=None):
        self.st = st
        ra = re.compile(a_pat)
        rb = re.compile(b_pat) if b_pat else None
        rd = re.compile(drop_pat) if drop_pat else None
        rows = []
        self.a_names, self.b_names, self.uninstrumented = set(), set(), set()
        for addr, size, name in st.funcs:
            if name == HOOK:
                continue
            kind = 0
            if ra.fullmatch(name):
                kind = 1
            elif rb is not None and rb.fullmatch(name) and not (rd is not None and rd.fullmatch(name)):
                kind = 2
            if not kind:
                continue
            calls = st.hook_calls(addr, size)
            if not calls:
                self.uninstrumented.add(name)
                continue
            (self.a_names if kind == 1 else self.b_names).add(name)
            rows.append((addr - st.hook, addr + size - st.hook, calls[0] - st.hook, kind))
        rows.sort()
        dedup = []
        for r in rows:                      # aliases (two names, one address) appear once
            if dedup and r[0] < dedup[-1][1]:
                continue
            dedup.append(r)
        self.rows = dedup
        self.blob = b"C20T" + struct.pack("<I", len(st.build_id)) + st.build_id + \
            b"".join(struct.pack("<iiii", *r) for r in dedup)
        self.b_entries = np.array(sorted(r[2] for r in dedup if r[3] == 2), dtype=np.int64)

    def b_mask(self, ev):
        if len(self.b_entries) == 0:
            return np.zeros(len(ev), dtype=bool)
        return np.isin(ev, self.b_entries)


class Trace:
    __slots__ = ("flags", "aux", "raw", "evb")

    def __init__(self, blob):
        if len(blob) < 16:
            raise TraceError("short trace blob")
        self.flags, self.aux, self.raw = struct.unpack_from("<IIQ", blob, 0)
        self.evb = blob[16:]

    @property
    def overflow(self):
        return bool(self.flags & 1)

    @property
    def mismatch(self):
        return bool(self.flags & 2)

    @property
    def stray(self):
        return bool(self.flags & 4)

    def events(self):
        return np.frombuffer(self.evb, dtype="<i4").astype(np.int64)

    def __len__(self):
        return len(self.evb) // 4


def first_diff(a, b):
    n = min(len(a), len(b))
    if n:
        ne = np.nonzero(a[:n] != b[:n])[0]
        if len(ne):
            return int(ne[0])
    return n if len(a) != len(b) else -1


def context(st, ev, i, before=4, after=4):
    lo = max(0, i - before)
    out = []
    for j in range(lo, min(len(ev), i + after + 1)):
        out.append(("> " if j == i else "  ") + "[%d] %s" % (j, st.sym(ev[j])))
    if i >= len(ev):
        out.append("> [%d] <end of trace>" % i)
    return out


def summarize(st, ev, limit=12):
    """Run-length summary of a symbolised event sequence by function name (for messages)."""
    out = []
    last, cnt = None, 0
    for e in ev:
        n, _ = st.lookup(int(e) + st.hook)
        if n == last:
            cnt += 1
        else:
            if last is not None:
                out.append("%s x%d" % (last, cnt) if cnt > 1 else last)
            last, cnt = n, 1
    if last is not None:
        out.append("%s x%d" % (last, cnt) if cnt > 1 else last)
    return out[:limit] + (["..."] if len(out) > limit else [])


def self_test():
    """The scanner must find the entry-block call of hand-assembled code, and must reject a non-matching call."""
    class _Fake(SymTab):
        def __init__(self):
            # push rbp; mov rbp,rsp; call hook; nop; call other; call hook; ret   (function at 0x1000, hook at 0x2000)
            self.hook = 0x2000
            code = b"\x55\x48\x89\xe5" + b"\xe8" + struct.pack("<i", 0x2000 - (0x1000 + 4 + 5)) + b"\x90" + \
                b"\xe8" + struct.pack("<i", 0x3000 - (0x1000 + 10 + 5)) + \
                b"\xe8" + struct.pack("<i", 0x2000 - (0x1000 + 15 + 5)) + b"\xc3"
            self.code = code
            self._calls = {}
            self.funcs = [(0x1000, len(code), "f")]
            self.starts = [0x1000]

        def _bytes(self, addr, size):
            return self.code[addr - 0x1000: addr - 0x1000 + size]
    f = _Fake()
    calls = f.hook_calls(0x1000, len(f.code))
    assert calls == [0x1009, 0x1014], calls
    assert f.sym(0x1009 - 0x2000) == "f+0x9"
    a = np.array([1, 2, 3, 4]); b = np.array([1, 2, 5, 4])
    assert first_diff(a, b) == 2 and first_diff(a, a) == -1 and first_diff(a, a[:3]) == 3

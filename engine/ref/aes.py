"""Reference AES (FIPS 197), CBC mode (SP 800-38A 6.2) and PKCS#7 padding (RFC 5652 6.3).

Written from the standards' pseudo-code; deliberately table-free except for the S-box, which is *computed*
from its definition (multiplicative inverse in GF(2^8) followed by the affine map, FIPS 197 5.1.1) instead of
being typed in.  Slow and simple on purpose: it is an oracle, not a cipher."""

# ---------------------------------------------------------------- GF(2^8), FIPS 197 section 4


def xtime(a):
    a <<= 1
    if a & 0x100:
        a ^= 0x11B          # m(x) = x^8 + x^4 + x^3 + x + 1
    return a & 0xFF


def gmul(a, b):
    r = 0
    while b:
        if b & 1:
            r ^= a
        a = xtime(a)
        b >>= 1
    return r


def _ginv(a):
    if a == 0:
        return 0
    # a^254 = a^-1 in GF(2^8)*
    r, e, base = 1, 254, a
    while e:
        if e & 1:
            r = gmul(r, base)
        base = gmul(base, base)
        e >>= 1
    return r


def _sbox_entry(x):
    b = _ginv(x)
    out = 0
    for i in range(8):
        bit = ((b >> i) ^ (b >> ((i + 4) % 8)) ^ (b >> ((i + 5) % 8)) ^ (b >> ((i + 6) % 8)) ^
               (b >> ((i + 7) % 8)) ^ (0x63 >> i)) & 1
        out |= bit << i
    return out


SBOX = [_sbox_entry(x) for x in range(256)]
INV_SBOX = [0] * 256
for _i, _v in enumerate(SBOX):
    INV_SBOX[_v] = _i

_MUL = {c: [gmul(x, c) for x in range(256)] for c in (2, 3, 9, 11, 13, 14)}

# ---------------------------------------------------------------- key expansion, FIPS 197 5.2


def key_expansion(key):
    nk = len(key) // 4
    if len(key) not in (16, 24, 32):
        raise ValueError("AES key must be 16, 24 or 32 bytes")
    nr = nk + 6
    w = [list(key[4 * i:4 * i + 4]) for i in range(nk)]
    rcon = 1
    for i in range(nk, 4 * (nr + 1)):
        temp = list(w[i - 1])
        if i % nk == 0:
            temp = temp[1:] + temp[:1]                       # RotWord
            temp = [SBOX[t] for t in temp]                   # SubWord
            temp[0] ^= rcon
            rcon = xtime(rcon)
        elif nk > 6 and i % nk == 4:
            temp = [SBOX[t] for t in temp]
        w.append([a ^ b for a, b in zip(w[i - nk], temp)])
    # round keys as 16-byte lists (column-major like the state)
    return [sum((w[4 * r + c] for c in range(4)), []) for r in range(nr + 1)], nr


# state is kept as a flat list s[4*c + r] (input byte order), FIPS 197 3.4

def _add_round_key(s, rk):
    return [a ^ b for a, b in zip(s, rk)]


def _shift_rows(s):
    return [s[4 * ((c + r) % 4) + r] for c in range(4) for r in range(4)]


def _inv_shift_rows(s):
    return [s[4 * ((c - r) % 4) + r] for c in range(4) for r in range(4)]


def _mix_columns(s):
    m2, m3 = _MUL[2], _MUL[3]
    out = []
    for c in range(4):
        a0, a1, a2, a3 = s[4 * c:4 * c + 4]
        out += [m2[a0] ^ m3[a1] ^ a2 ^ a3, a0 ^ m2[a1] ^ m3[a2] ^ a3,
                a0 ^ a1 ^ m2[a2] ^ m3[a3], m3[a0] ^ a1 ^ a2 ^ m2[a3]]
    return out


def _inv_mix_columns(s):
    m9, mb, md, me = _MUL[9], _MUL[11], _MUL[13], _MUL[14]
    out = []
    for c in range(4):
        a0, a1, a2, a3 = s[4 * c:4 * c + 4]
        out += [me[a0] ^ mb[a1] ^ md[a2] ^ m9[a3], m9[a0] ^ me[a1] ^ mb[a2] ^ md[a3],
                md[a0] ^ m9[a1] ^ me[a2] ^ mb[a3], mb[a0] ^ md[a1] ^ m9[a2] ^ me[a3]]
    return out


class AES:
    def __init__(self, key):
        self.rks, self.nr = key_expansion(bytes(key))

    def encrypt_block(self, block):              # Cipher(), FIPS 197 5.1
        s = _add_round_key(list(block), self.rks[0])
        for r in range(1, self.nr):
            s = [SBOX[x] for x in s]
            s = _shift_rows(s)
            s = _mix_columns(s)
            s = _add_round_key(s, self.rks[r])
        s = [SBOX[x] for x in s]
        s = _shift_rows(s)
        s = _add_round_key(s, self.rks[self.nr])
        return bytes(s)

    def decrypt_block(self, block):              # InvCipher(), FIPS 197 5.3
        s = _add_round_key(list(block), self.rks[self.nr])
        for r in range(self.nr - 1, 0, -1):
            s = _inv_shift_rows(s)
            s = [INV_SBOX[x] for x in s]
            s = _add_round_key(s, self.rks[r])
            s = _inv_mix_columns(s)
        s = _inv_shift_rows(s)
        s = [INV_SBOX[x] for x in s]
        s = _add_round_key(s, self.rks[0])
        return bytes(s)


_CACHE = {}


def _aes(key):
    key = bytes(key)
    a = _CACHE.get(key)
    if a is None:
        if len(_CACHE) > 64:
            _CACHE.clear()
        a = _CACHE[key] = AES(key)
    return a


def _xor(a, b):
    return bytes(x ^ y for x, y in zip(a, b))


def cbc_encrypt_raw(key, iv, data):
    """SP 800-38A 6.2, no padding: len(data) must be a multiple of 16."""
    if len(data) % 16 or len(iv) != 16:
        raise ValueError("bad length")
    a = _aes(key)
    prev, out = bytes(iv), []
    for i in range(0, len(data), 16):
        prev = a.encrypt_block(_xor(data[i:i + 16], prev))
        out.append(prev)
    return b"".join(out)


def cbc_decrypt_raw(key, iv, data):
    if len(data) % 16 or len(iv) != 16:
        raise ValueError("bad length")
    a = _aes(key)
    prev, out = bytes(iv), []
    for i in range(0, len(data), 16):
        blk = data[i:i + 16]
        out.append(_xor(a.decrypt_block(blk), prev))
        prev = blk
    return b"".join(out)


def pkcs7_pad(m, k=16):
    n = k - (len(m) % k)
    return bytes(m) + bytes([n]) * n


def pkcs7_unpad(p, k=16):
    """Returns the message or None when the padding is invalid (RFC 5652 6.3: the last n bytes all equal n,
    1 <= n <= k; an empty or non-block-multiple input has no valid padding)."""
    if len(p) == 0 or len(p) % k:
        return None
    n = p[-1]
    if n < 1 or n > k:
        return None
    if p[-n:] != bytes([n]) * n:
        return None
    return bytes(p[:-n])


def cbc_pkcs7_encrypt(key, iv, m):
    return cbc_encrypt_raw(key, iv, pkcs7_pad(m))


def cbc_pkcs7_decrypt(key, iv, c):
    """Plaintext, or None when c is not a valid ciphertext (empty, not a block multiple, bad padding)."""
    if len(c) == 0 or len(c) % 16:
        return None
    return pkcs7_unpad(cbc_decrypt_raw(key, iv, c))


# ---------------------------------------------------------------- self-test against published vectors

def self_test():
    h = bytes.fromhex
    # FIPS 197 5.1.1 figure 7 spot checks of the computed S-box
    assert SBOX[0x00] == 0x63 and SBOX[0x53] == 0xED and SBOX[0xFF] == 0x16 and SBOX[0x01] == 0x7C
    # FIPS 197 section 4.2 example: {57} x {83} = {c1}; 4.2.1: {57} x {13} = {fe}
    assert gmul(0x57, 0x83) == 0xC1 and gmul(0x57, 0x13) == 0xFE
    # FIPS 197 appendix B
    assert AES(h("2b7e151628aed2a6abf7158809cf4f3c")).encrypt_block(h("3243f6a8885a308d313198a2e0370734")) == \
        h("3925841d02dc09fbdc118597196a0b32")
    # FIPS 197 appendix A.1: last word of the AES-128 expansion of the appendix-B key is b6630ca6
    rks, nr = key_expansion(h("2b7e151628aed2a6abf7158809cf4f3c"))
    assert nr == 10 and bytes(rks[10][12:16]) == h("b6630ca6")
    # FIPS 197 appendix C.1 - C.3
    pt = h("00112233445566778899aabbccddeeff")
    for klen, ct in ((16, "69c4e0d86a7b0430d8cdb78070b4c55a"), (24, "dda97ca4864cdfe06eaf70a0ec0d7191"),
                     (32, "8ea2b7ca516745bfeafc49904b496089")):
        a = AES(bytes(range(klen)))
        assert a.encrypt_block(pt) == h(ct), klen
        assert a.decrypt_block(h(ct)) == pt, klen
    # SP 800-38A F.2.1 - F.2.6 (CBC-AES128/192/256, encrypt and decrypt)
    iv = h("000102030405060708090a0b0c0d0e0f")
    p = h("6bc1bee22e409f96e93d7e117393172a" "ae2d8a571e03ac9c9eb76fac45af8e51"
          "30c81c46a35ce411e5fbc1191a0a52ef" "f69f2445df4f9b17ad2b417be66c3710")
    vec = [("2b7e151628aed2a6abf7158809cf4f3c",
            "7649abac8119b246cee98e9b12e9197d" "5086cb9b507219ee95db113a917678b2"
            "73bed6b8e3c1743b7116e69e22229516" "3ff1caa1681fac09120eca307586e1a7"),
           ("8e73b0f7da0e6452c810f32b809079e562f8ead2522c6b7b",
            "4f021db243bc633d7178183a9fa071e8" "b4d9ada9ad7dedf4e5e738763f69145a"
            "571b242012fb7ae07fa9baac3df102e0" "08b0e27988598881d920a9e64f5615cd"),
           ("603deb1015ca71be2b73aef0857d77811f352c073b6108d72d9810a30914dff4",
            "f58c4c04d6e5f1ba779eabfb5f7bfbd6" "9cfc4e967edb808d679f777bc6702c7d"
            "39f23369a9d9bacfa530e26304231461" "b2eb05e2c39be9fcda6c19078c6a9d1b")]
    for k, c in vec:
        assert cbc_encrypt_raw(h(k), iv, p) == h(c), k
        assert cbc_decrypt_raw(h(k), iv, h(c)) == p, k
    # PKCS#7 (RFC 5652 6.3): every residue, including the full extra block for multiples of the block size
    for n in range(0, 50):
        m = bytes(range(n))
        q = pkcs7_pad(m)
        assert len(q) % 16 == 0 and len(q) > n and len(q) - n <= 16 and q[-1] == len(q) - n
        assert pkcs7_unpad(q) == m
    assert pkcs7_pad(b"") == bytes([16]) * 16 and pkcs7_unpad(bytes([16]) * 16) == b""
    for bad in (b"", bytes(16), bytes(15) + b"\x11", bytes(14) + b"\x01\x02", bytes(15), bytes(13) + b"\x03\x02\x03",
                bytes(32)[:31] + b"\x20"):
        assert pkcs7_unpad(bad) is None, bad
    k = h(vec[0][0])
    for n in (0, 1, 15, 16, 17, 33):
        m = bytes((7 * i + 1) & 0xFF for i in range(n))
        c = cbc_pkcs7_encrypt(k, iv, m)
        assert len(c) == 16 * (n // 16 + 1) and cbc_pkcs7_decrypt(k, iv, c) == m
    return True


if __name__ == "__main__":
    self_test()
    print("aes reference self-test ok")

"""Reference twisted Edwards arithmetic a x^2 + y^2 = 1 + d x^2 y^2 over Fp (Bernstein-Birkner-Joye-Lange-Peters,
"Twisted Edwards curves", 2008: the affine addition law; Hisil-Wong-Carter-Dawson 2008 extended coordinates only
to make [k]P affordable, cross-checked against the affine law). Nothing is taken from RELIC."""
from . import fp as rfp


class Edwards:
    """Points are (x, y) tuples; the identity is (0, 1)."""

    def __init__(self, p, a, d):
        self.p, self.a, self.d = p, a % p, d % p
        self.O = (0, 1)

    def on_curve(self, P):
        p = self.p
        x, y = P
        return (self.a * x * x + y * y - 1 - self.d * x * x * y * y) % p == 0

    def neg(self, P):
        return ((-P[0]) % self.p, P[1])

    def add(self, P, Q):
        """the affine law; raises ZeroDivisionError on an exceptional pair (cannot happen when a is a square and
        d a non-square)"""
        p = self.p
        x1, y1 = P
        x2, y2 = Q
        t = self.d * x1 * x2 * y1 * y2 % p
        x3 = (x1 * y2 + y1 * x2) * pow((1 + t) % p, -1, p) % p
        y3 = (y1 * y2 - self.a * x1 * x2) * pow((1 - t) % p, -1, p) % p
        return (x3, y3)

    def _eadd(self, P, Q):
        p = self.p
        X1, Y1, Z1, T1 = P
        X2, Y2, Z2, T2 = Q
        A = X1 * X2 % p
        B = Y1 * Y2 % p
        C = self.d * T1 * T2 % p
        D = Z1 * Z2 % p
        E = ((X1 + Y1) * (X2 + Y2) - A - B) % p
        F = (D - C) % p
        G = (D + C) % p
        H = (B - self.a * A) % p
        return (E * F % p, G * H % p, F * G % p, E * H % p)

    def mul(self, k, P):
        if k < 0:
            return self.mul(-k, self.neg(P))
        p = self.p
        R = (0, 1, 1, 0)
        Q = (P[0], P[1], 1, P[0] * P[1] % p)
        for i in range(k.bit_length() - 1, -1, -1):
            R = self._eadd(R, R)
            if (k >> i) & 1:
                R = self._eadd(R, Q)
        zi = pow(R[2], -1, p)
        return (R[0] * zi % p, R[1] * zi % p)

    def mul_naive(self, k, P):
        R = self.O
        Q = P if k >= 0 else self.neg(P)
        for _ in range(abs(k)):
            R = self.add(R, Q)
        return R

    def lift_y(self, y):
        """a point with this y: x^2 = (1 - y^2) / (a - d y^2)"""
        p = self.p
        den = (self.a - self.d * y * y) % p
        if den == 0:
            return None
        x = rfp.sqrt_mod((1 - y * y) * pow(den, -1, p) % p, p)
        if x is None:
            return None
        return (x, y % p)

    def complete(self):
        """the addition law is complete iff a is a square and d is a non-square (BBJLP08, section 6)"""
        return rfp.legendre(self.a, self.p) == 1 and rfp.legendre(self.d, self.p) == -1


def self_test():
    import hashlib
    p = 2 ** 255 - 19
    d = (-121665 * pow(121666, -1, p)) % p
    E = Edwards(p, -1, d)
    assert E.complete()
    By = 4 * pow(5, -1, p) % p
    B = E.lift_y(By)
    if B[0] & 1:
        B = E.neg(B)
    assert B[0] == 0x216936D3CD6E53FEC0A4E231FDD6DC5C692CC7609525A7B2C9562D608F25D51A
    L = 2 ** 252 + 27742317777372353535851937790883648493
    assert E.on_curve(B) and E.mul(L, B) == E.O and E.mul(L - 1, B) == E.neg(B)
    for k in range(-3, 9):
        assert E.mul(k, B) == E.mul_naive(k, B)
    # RFC 8032, section 7.1, test 1: public key of the secret key
    sk = bytes.fromhex("9d61b19deffd5a60ba844af492ec2cc44449c5697b326919703bac031cae7f60")
    h = hashlib.sha512(sk).digest()
    a = int.from_bytes(h[:32], "little")
    a &= (1 << 254) - 8
    a |= 1 << 254
    A = E.mul(a, B)
    enc = (A[1] | ((A[0] & 1) << 255)).to_bytes(32, "little")
    assert enc.hex() == "d75a980182b10ab7d54bfed3c964073a0ee172f3daa62325af021a68f707511a"
    # a point of order 8 exists (cofactor 8) and [8L] kills every point
    cnt = 0
    for y in range(2, 30):
        P = E.lift_y(y)
        if P is not None:
            cnt += 1
            assert E.on_curve(P) and E.mul(8 * L, P) == E.O
    assert cnt > 5

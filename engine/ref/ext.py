"""Generic reference for extension towers: one class 'K[X]/(X^d - nr)' with schoolbook multiplication, closed-form
inverses for d = 2, 3, and Frobenius computed as a^(p^i) by plain exponentiation (never by constants).
Elements are tuples of d subfield elements; the base field is engine.ref.ec.PrimeField (ints)."""
from .ec import PrimeField


class Ext:
    def __init__(self, K, d, nr, name=""):
        assert d in (2, 3)
        self.K, self.d, self.nr, self.name = K, d, nr, name
        self.zero = tuple(K.zero for _ in range(d))
        self.one = (K.one,) + tuple(K.zero for _ in range(d - 1))
        self.deg = d * getattr(K, "deg", 1)
        self.p = K.p
        self.q = self.p ** self.deg            # field size

    # -- structure
    def from_int(self, n):
        return (self.K.from_int(n),) + tuple(self.K.zero for _ in range(self.d - 1))

    def embed(self, a):
        """subfield element -> this field"""
        return (a,) + tuple(self.K.zero for _ in range(self.d - 1))

    def eq(self, a, b):
        return all(self.K.eq(x, y) for x, y in zip(a, b))

    def is_zero(self, a):
        return all(self.K.is_zero(x) for x in a)

    def add(self, a, b):
        return tuple(self.K.add(x, y) for x, y in zip(a, b))

    def sub(self, a, b):
        return tuple(self.K.sub(x, y) for x, y in zip(a, b))

    def neg(self, a):
        return tuple(self.K.neg(x) for x in a)

    def mul(self, a, b):
        K, d = self.K, self.d
        acc = [K.zero] * (2 * d - 1)
        for i in range(d):
            if K.is_zero(a[i]):
                continue
            for j in range(d):
                acc[i + j] = K.add(acc[i + j], K.mul(a[i], b[j]))
        for k in range(2 * d - 2, d - 1, -1):
            acc[k - d] = K.add(acc[k - d], K.mul(self.nr, acc[k]))
        return tuple(acc[:d])

    def sqr(self, a):
        return self.mul(a, a)

    def mul_sub(self, a, s):
        """multiply by a subfield element"""
        return tuple(self.K.mul(x, s) for x in a)

    def inv(self, a):
        K = self.K
        if self.is_zero(a):
            raise ZeroDivisionError("inverse of zero in %s" % self.name)
        if self.d == 2:
            a0, a1 = a
            n = K.sub(K.mul(a0, a0), K.mul(self.nr, K.mul(a1, a1)))
            ni = K.inv(n)
            return (K.mul(a0, ni), K.neg(K.mul(a1, ni)))
        a0, a1, a2 = a
        nr = self.nr
        c0 = K.sub(K.mul(a0, a0), K.mul(nr, K.mul(a1, a2)))
        c1 = K.sub(K.mul(nr, K.mul(a2, a2)), K.mul(a0, a1))
        c2 = K.sub(K.mul(a1, a1), K.mul(a0, a2))
        n = K.add(K.mul(a0, c0), K.mul(nr, K.add(K.mul(a2, c1), K.mul(a1, c2))))
        ni = K.inv(n)
        return (K.mul(c0, ni), K.mul(c1, ni), K.mul(c2, ni))

    def pow(self, a, e):
        if e < 0:
            return self.pow(self.inv(a), -e)
        r = self.one
        for i in range(e.bit_length() - 1, -1, -1):
            r = self.mul(r, r)
            if (e >> i) & 1:
                r = self.mul(r, a)
        return r

    def frob(self, a, i=1):
        """a^(p^i) by exponentiation"""
        return self.pow(a, self.p ** (i % self.deg) if self.deg else 1)

    def is_square(self, a):
        if self.is_zero(a):
            return True
        return self.eq(self.pow(a, (self.q - 1) // 2), self.one)

    def sqrt(self, a):
        """Any square root (generic Tonelli-Shanks in the multiplicative group) or None."""
        if self.is_zero(a):
            return self.zero
        if not self.is_square(a):
            return None
        q = self.q
        s, t = 0, q - 1
        while t % 2 == 0:
            s, t = s + 1, t // 2
        # deterministic search for a non-square
        z = None
        for cand in self._candidates():
            if not self.is_zero(cand) and not self.is_square(cand):
                z = cand
                break
        c = self.pow(z, t)
        r = self.pow(a, (t + 1) // 2)
        tt = self.pow(a, t)
        m = s
        while not self.eq(tt, self.one):
            i, x = 0, tt
            while not self.eq(x, self.one):
                x = self.mul(x, x)
                i += 1
            b = self.pow(c, 1 << (m - i - 1))
            r = self.mul(r, b)
            c = self.mul(b, b)
            tt = self.mul(tt, c)
            m = i
        return r

    def _candidates(self):
        K = self.K
        k = 1
        while True:
            yield self.from_int(k)
            yield tuple(K.from_int(k + j) for j in range(self.d))
            yield (K.zero,) + (K.from_int(k),) + tuple(K.zero for _ in range(self.d - 2))
            k += 1

    # -- flat coefficient vectors over Fp in the library's memory order (depth-first nesting)
    def flatten(self, a):
        out = []
        for x in a:
            if isinstance(self.K, PrimeField):
                out.append(x)
            else:
                out.extend(self.K.flatten(x))
        return out

    def unflatten(self, v):
        if isinstance(self.K, PrimeField):
            return tuple(x % self.p for x in v[:self.d])
        n = self.K.deg
        return tuple(self.K.unflatten(v[i * n:(i + 1) * n]) for i in range(self.d))

    def irreducible(self):
        """X^d - nr is irreducible over K iff nr is not a d-th power residue pattern: for d=2 nr non-square;
        for d=3 nr non-cube (needs |K*| divisible by 3)."""
        K = self.K
        qk = K.p ** getattr(K, "deg", 1)
        pw = (lambda a, e: pow(a, e, K.p)) if isinstance(K, PrimeField) else K.pow
        one = K.one
        if self.d == 2:
            return not K.eq(pw(self.nr, (qk - 1) // 2), one)
        if (qk - 1) % 3 != 0:
            return False
        return not K.eq(pw(self.nr, (qk - 1) // 3), one)


def art(F):
    """the adjoined root of F as an element of F"""
    return (F.K.zero, F.K.one) + tuple(F.K.zero for _ in range(F.d - 2))


def build_tower(p, qnr, cnr, E2, E3=None):
    """Fields by degree following relic_fpx.h: Fp2={1,i}, i^2=qnr; Fp3={1,j,j^2}, j^3=cnr; Fp4=Fp2[s]/(s^2-E);
    Fp6=Fp2[v]/(v^3-E); Fp8=Fp4[v]/(v^2-s); Fp9=Fp3[v]/(v^3-E3); Fp12=Fp6[w]/(w^2-v); Fp16=Fp8[w]/(w^2-v);
    Fp18=Fp9[w]/(w^2-v); Fp24=Fp8[t]/(t^3-v); Fp48=Fp24[u]/(u^2-t); Fp54=Fp18[u]/(u^3-t).
    E2 (in Fp2) and E3 (in Fp3) are the published non-residues; absent ones leave that branch out."""
    Fp = PrimeField(p)
    T = {1: Fp}
    if qnr is not None:
        T[2] = Ext(Fp, 2, qnr % p, "Fp2")
        if E2 is not None:
            T[4] = Ext(T[2], 2, E2, "Fp4")
            T[6] = Ext(T[2], 3, E2, "Fp6")
            T[8] = Ext(T[4], 2, art(T[4]), "Fp8")
            T[12] = Ext(T[6], 2, art(T[6]), "Fp12")
            T[16] = Ext(T[8], 2, art(T[8]), "Fp16")
            T[24] = Ext(T[8], 3, art(T[8]), "Fp24")
            T[48] = Ext(T[24], 2, art(T[24]), "Fp48")
    if cnr is not None:
        T[3] = Ext(Fp, 3, cnr % p, "Fp3")
        if E3 is not None:
            T[9] = Ext(T[3], 3, E3, "Fp9")
            T[18] = Ext(T[9], 2, art(T[9]), "Fp18")
            T[54] = Ext(T[18], 3, art(T[18]), "Fp54")
    return T


def self_test():
    # Fp2 over p = 7 mod 8... use the BLS12-381 prime with i^2 = -1 and E = 1 + i (standard tower)
    p = 0x1A0111EA397FE69A4B1BA7B6434BACD764774B84F38512BF6730D2A0F6B0F6241EABFFFEB153FFFFB9FEFFFFFFFFAAAB
    T = build_tower(p, -1, None, (1, 1))
    F2, F6, F12 = T[2], T[6], T[12]
    assert F2.irreducible() and F6.irreducible() and F12.irreducible() and T[4].irreducible()
    a = (3, 5)
    assert F2.mul(a, F2.inv(a)) == F2.one
    assert F2.mul((0, 1), (0, 1)) == (p - 1, 0)
    assert F2.frob(a) == (3, p - 5)                      # conjugation
    x = ((1, 2), (3, 4), (5, 6))
    assert F6.eq(F6.mul(x, F6.inv(x)), F6.one)
    v = art(F6)
    assert F6.mul(F6.mul(v, v), v) == F6.embed((1, 1))   # v^3 = E
    y = (x, ((7, 8), (9, 10), (11, 12)))
    assert F12.eq(F12.mul(y, F12.inv(y)), F12.one)
    w = art(F12)
    assert F12.mul(w, w) == F12.embed(v)
    assert F12.flatten(y) == list(range(1, 13)) and F12.unflatten(list(range(1, 13))) == y
    # Frobenius is a ring homomorphism fixing Fp
    z = F6.mul(x, x)
    assert F6.eq(F6.frob(z), F6.mul(F6.frob(x), F6.frob(x)))
    r = F2.sqrt(F2.mul(a, a))
    assert r is not None and F2.eq(F2.mul(r, r), F2.mul(a, a))
    # cubic tower over a prime = 1 mod 3
    p3 = 0xB640000002A3A6F1D603AB4FF58EC74521F2934B1A7AEEDBE56F9B27E351457D
    assert p3 % 3 == 1
    F3 = Ext(PrimeField(p3), 3, 2, "Fp3")
    b = (3, 1, 4)
    if F3.irreducible():
        assert F3.eq(F3.mul(b, F3.inv(b)), F3.one)

"""Generic reference for extension towers: one class 'K[X]/(X^d - nr)' with schoolbook multiplication, closed-form
inverses for d = 2, 3, and Frobenius computed as a^(p^i) by plain exponentiation (never by constants).
Elements are tuples of d subfield elements; the base field is engine.ref.ec.PrimeField (ints)."""
from .ec import PrimeField


class Ext:
    def __init__(self, K, d, nr, name=""):
        assert d in (2, 3)
        self.K, self.d, self.nr, self.name = K, d, nr, name
        self.zero = tuple(K.zero for _ in range(d))
        self.one = (K.one,) + tuple(K.zero for _ in range(d - 1))
        self.deg = d * getattr(K, "deg", 1)
        self.p = K.p
        self.q = self.p ** self.deg            # field size

    # -- structure
    def from_int(self, n):
        return (self.K.from_int(n),) + tuple(self.K.zero for _ in range(self.d - 1))

    def embed(self, a):
        """subfield element -> this field"""
        return (a,) + tuple(self.K.zero for _ in range(self.d - 1))

    def eq(self, a, b):
        return all(self.K.eq(x, y) for x, y in zip(a, b))

    def is_zero(self, a):
        return all(self.K.is_zero(x) for x in a)

    def add(self, a, b):
        return tuple(self.K.add(x, y) for x, y in zip(a, b))

    def sub(self, a, b):
        return tuple(self.K.sub(x, y) for x, y in zip(a, b))

    def neg(self, a):
        return tuple(self.K.neg(x) for x in a)

    def mul(self, a, b):
        K, d = self.K, self.d
        acc = [K.zero] * (2 * d - 1)
        for i in range(d):
            if K.is_zero(a[i]):
                continue
            for j in range(d):
                acc[i + j] = K.add(acc[i + j], K.mul(a[i], b[j]))
        for k in range(2 * d - 2, d - 1, -1):
            acc[k - d] = K.add(acc[k - d], K.mul(self.nr, acc[k]))
        return tuple(acc[:d])

    def sqr(self, a):
        return self.mul(a, a)

    def mul_sub(self, a, s):
        """multiply by a subfield element"""
        return tuple(self.K.mul(x, s) for x in a)

    def inv(self, a):
        K = self.K
        if self.is_zero(a):
            raise ZeroDivisionError("inverse of zero in %s" % self.name)
        if self.d == 2:
            a0, a1 = a
            n = K.sub(K.mul(a0, a0), K.mul(self.nr, K.mul(a1, a1)))
            ni = K.inv(n)
            return (K.mul(a0, ni), K.neg(K.mul(a1, ni)))
        a0, a1, a2 = a
        nr = self.nr
        c0 = K.sub(K.mul(a0, a0), K.mul(nr, K.mul(a1, a2)))
        c1 = K.sub(K.mul(nr, K.mul(a2, a2)), K.mul(a0, a1))
        c2 = K.sub(K.mul(a1, a1), K.mul(a0, a2))
        n = K.add(K.mul(a0, c0), K.mul(nr, K.add(K.mul(a2, c1), K.mul(a1, c2))))
        ni = K.inv(n)
        return (K.mul(c0, ni), K.mul(c1, ni), K.mul(c2, ni))

    def pow(self, a, e):
        if e < 0:
            return self.pow(self.inv(a), -e)
        r = self.one
        for i in range(e.bit_length() - 1, -1, -1):
            r = self.mul(r, r)
            if (e >> i) & 1:
                r = self.mul(r, a)
        return r

    def frob(self, a, i=1):
        """a^(p^i) by exponentiation"""
        return self.pow(a, self.p ** (i % self.deg) if self.deg else 1)

    def is_square(self, a):
        if self.is_zero(a):
            return True
        return self.eq(self.pow(a, (self.q - 1) // 2), self.one)

    # -- norm to the subfield and the norm-based quadratic character (recursion down to Euler's criterion in Fp)
    def norm(self, a):
        """N_{F/K}(a) as an element of K: the product of the conjugates of a over K, written out for the binomial
        X^d - nr (d = 2: a0^2 - nr a1^2; d = 3: a0^3 + nr a1^3 + nr^2 a2^3 - 3 nr a0 a1 a2)."""
        K, nr = self.K, self.nr
        if self.d == 2:
            a0, a1 = a
            return K.sub(K.mul(a0, a0), K.mul(nr, K.mul(a1, a1)))
        a0, a1, a2 = a
        c0 = K.mul(a0, K.mul(a0, a0))
        c1 = K.mul(nr, K.mul(a1, K.mul(a1, a1)))
        c2 = K.mul(K.mul(nr, nr), K.mul(a2, K.mul(a2, a2)))
        m = K.mul(K.mul(nr, a0), K.mul(a1, a2))
        return K.sub(K.add(K.add(c0, c1), c2), K.add(m, K.add(m, m)))

    def is_square_norm(self, a):
        """a is a square in F iff N_{F/K}(a) is a square in K (the norm maps F*/F*^2 onto K*/K*^2 bijectively for
        finite fields of odd characteristic). Zero counts as a square."""
        if self.is_zero(a):
            return True
        n = self.norm(a)
        if isinstance(self.K, PrimeField):
            return pow(n, (self.p - 1) // 2, self.p) == 1
        return self.K.is_square_norm(n)

    def sqrt(self, a):
        """Any square root (generic Tonelli-Shanks in the multiplicative group) or None."""
        if self.is_zero(a):
            return self.zero
        if not self.is_square(a):
            return None
        q = self.q
        s, t = 0, q - 1
        while t % 2 == 0:
            s, t = s + 1, t // 2
        # deterministic search for a non-square
        z = None
        for cand in self._candidates():
            if not self.is_zero(cand) and not self.is_square(cand):
                z = cand
                break
        c = self.pow(z, t)
        r = self.pow(a, (t + 1) // 2)
        tt = self.pow(a, t)
        m = s
        while not self.eq(tt, self.one):
            i, x = 0, tt
            while not self.eq(x, self.one):
                x = self.mul(x, x)
                i += 1
            b = self.pow(c, 1 << (m - i - 1))
            r = self.mul(r, b)
            c = self.mul(b, b)
            tt = self.mul(tt, c)
            m = i
        return r

    def _candidates(self):
        K = self.K
        k = 1
        while True:
            yield self.from_int(k)
            yield tuple(K.from_int(k + j) for j in range(self.d))
            yield (K.zero,) + (K.from_int(k),) + tuple(K.zero for _ in range(self.d - 2))
            k += 1

    # -- flat coefficient vectors over Fp in the library's memory order (depth-first nesting)
    def flatten(self, a):
        out = []
        for x in a:
            if isinstance(self.K, PrimeField):
                out.append(x)
            else:
                out.extend(self.K.flatten(x))
        return out

    def unflatten(self, v):
        if isinstance(self.K, PrimeField):
            return tuple(x % self.p for x in v[:self.d])
        n = self.K.deg
        return tuple(self.K.unflatten(v[i * n:(i + 1) * n]) for i in range(self.d))

    def irreducible(self):
        """X^d - nr is irreducible over K iff nr is not a d-th power residue pattern: for d=2 nr non-square;
        for d=3 nr non-cube (needs |K*| divisible by 3)."""
        K = self.K
        qk = K.p ** getattr(K, "deg", 1)
        pw = (lambda a, e: pow(a, e, K.p)) if isinstance(K, PrimeField) else K.pow
        one = K.one
        if self.d == 2:
            return not K.eq(pw(self.nr, (qk - 1) // 2), one)
        if (qk - 1) % 3 != 0:
            return False
        return not K.eq(pw(self.nr, (qk - 1) // 3), one)


def art(F):
    """the adjoined root of F as an element of F"""
    return (F.K.zero, F.K.one) + tuple(F.K.zero for _ in range(F.d - 2))


def build_tower(p, qnr, cnr, E2, E3=None):
    """Fields by degree following relic_fpx.h: Fp2={1,i}, i^2=qnr; Fp3={1,j,j^2}, j^3=cnr; Fp4=Fp2[s]/(s^2-E);
    Fp6=Fp2[v]/(v^3-E); Fp8=Fp4[v]/(v^2-s); Fp9=Fp3[v]/(v^3-E3); Fp12=Fp6[w]/(w^2-v); Fp16=Fp8[w]/(w^2-v);
    Fp18=Fp9[w]/(w^2-v); Fp24=Fp8[t]/(t^3-v); Fp48=Fp24[u]/(u^2-t); Fp54=Fp18[u]/(u^3-t).
    E2 (in Fp2) and E3 (in Fp3) are the published non-residues; absent ones leave that branch out."""
    Fp = PrimeField(p)
    T = {1: Fp}
    if qnr is not None:
        T[2] = Ext(Fp, 2, qnr % p, "Fp2")
        if E2 is not None:
            T[4] = Ext(T[2], 2, E2, "Fp4")
            T[6] = Ext(T[2], 3, E2, "Fp6")
            T[8] = Ext(T[4], 2, art(T[4]), "Fp8")
            T[12] = Ext(T[6], 2, art(T[6]), "Fp12")
            T[16] = Ext(T[8], 2, art(T[8]), "Fp16")
            T[24] = Ext(T[8], 3, art(T[8]), "Fp24")
            T[48] = Ext(T[24], 2, art(T[24]), "Fp48")
    if cnr is not None:
        T[3] = Ext(Fp, 3, cnr % p, "Fp3")
        if E3 is not None:
            T[9] = Ext(T[3], 3, E3, "Fp9")
            T[18] = Ext(T[9], 2, art(T[9]), "Fp18")
            T[54] = Ext(T[18], 3, art(T[18]), "Fp54")
    return T


# ---------------------------------------------------------------------------------------------------------------
# Fast path: the same field as Fp[theta]/(f), theta = the root adjoined last. Derived from the generic tower only
# (powers of theta computed with Ext.mul, linear algebra mod p), multiplication by Kronecker substitution (one big
# integer product). Used where the generic path is too slow (long exponentiations, Frobenius); the generic Ext
# stays the oracle of record and both are cross-checked in self_test() and by Flat.check().

def _mat_inv_mod(M, p):
    n = len(M)
    A = [list(r) + [1 if i == j else 0 for j in range(n)] for i, r in enumerate(M)]
    for c in range(n):
        piv = next((r for r in range(c, n) if A[r][c] % p), None)
        if piv is None:
            raise ValueError("theta does not generate the field")
        A[c], A[piv] = A[piv], A[c]
        iv = pow(A[c][c], -1, p)
        A[c] = [x * iv % p for x in A[c]]
        for r in range(n):
            if r != c and A[r][c]:
                f = A[r][c]
                A[r] = [(x - f * y) % p for x, y in zip(A[r], A[c])]
    return [r[n:] for r in A]


class Flat:
    """Elements are lists of N = [F:Fp] integers: the coefficients of 1, theta, ..., theta^(N-1)."""

    def __init__(self, F):
        self.F, self.N, self.p = F, F.deg, F.p
        N, p = self.N, self.p
        theta = art(F)
        pw = [F.one]
        for _ in range(N):
            pw.append(F.mul(pw[-1], theta))
        M = [F.flatten(x) for x in pw[:N]]                 # tower vector = c . M
        Mi = _mat_inv_mod(M, p)                            # c = tower vector . Mi
        self._M = [[(k, v) for k, v in enumerate(row) if v] for row in M]
        self._Mi = [[(k, v) for k, v in enumerate(row) if v] for row in Mi]
        top = F.flatten(pw[N])
        f = [0] * N
        for t, x in enumerate(top):
            if x:
                for k, v in self._Mi[t]:
                    f[k] = (f[k] + x * v) % p
        self.f = [(d, v) for d, v in enumerate(f) if v]    # theta^N = sum v theta^d
        self.SB = (2 * p.bit_length() + N.bit_length() + 8) // 8 + 1
        self.one = [1] + [0] * (N - 1)
        self._frob = {}

    # -- conversions
    def from_tower(self, a):
        v = self.F.flatten(a)
        c = [0] * self.N
        for t, x in enumerate(v):
            if x:
                for k, m in self._Mi[t]:
                    c[k] += x * m
        return [x % self.p for x in c]

    def to_tower(self, c):
        v = [0] * self.N
        for k, x in enumerate(c):
            if x:
                for t, m in self._M[k]:
                    v[t] += x * m
        return self.F.unflatten([x % self.p for x in v])

    # -- arithmetic
    def mul(self, a, b):
        N, SB, p = self.N, self.SB, self.p
        A = int.from_bytes(b"".join(x.to_bytes(SB, "little") for x in a), "little")
        B = A if b is a else int.from_bytes(b"".join(x.to_bytes(SB, "little") for x in b), "little")
        raw = (A * B).to_bytes(2 * N * SB, "little")
        c = [int.from_bytes(raw[k * SB:(k + 1) * SB], "little") for k in range(2 * N - 1)]
        f = self.f
        for k in range(2 * N - 2, N - 1, -1):
            ck = c[k] % p
            if ck:
                for d, v in f:
                    c[k - N + d] += v * ck
        return [x % p for x in c[:N]]

    def pow(self, a, e):
        if e < 0:
            a = self.from_tower(self.F.inv(self.to_tower(a)))
            e = -e
        if e == 0:
            return list(self.one)
        # fixed 4-bit windows
        tab = [None, a]
        a2 = self.mul(a, a)
        for _ in range(7):
            tab.append(self.mul(tab[-1], a2))                # odd powers a^1, a^3, ..., a^15 at index (k+1)//2
        r = None
        i = e.bit_length() - 1
        while i >= 0:
            if not (e >> i) & 1:
                r = self.mul(r, r)
                i -= 1
                continue
            j = max(i - 3, 0)
            while not (e >> j) & 1:
                j += 1
            w = (e >> j) & ((1 << (i - j + 1)) - 1)
            if r is None:
                r = tab[(w + 1) // 2]
            else:
                for _ in range(i - j + 1):
                    r = self.mul(r, r)
                r = self.mul(r, tab[(w + 1) // 2])
            i = j - 1
        return r

    def frob_rows(self, i):
        """rows k -> coefficients of (theta^k)^(p^i): Frobenius is Fp-linear, so a^(p^i) = sum a_k (theta^(p^i))^k.
        theta^(p^i) itself is obtained by exponentiation (never from constants)."""
        i %= self.N
        if i not in self._frob:
            if i == 0:
                rows = [[(k, 1)] for k in range(self.N)]
            else:
                prev = self.frob_rows(i - 1)
                tp = [0] * self.N
                for k, v in prev[1] if self.N > 1 else []:
                    tp[k] = v
                tp = self.pow(tp, self.p)                    # theta^(p^i) = (theta^(p^(i-1)))^p
                rows, cur = [], list(self.one)
                for k in range(self.N):
                    rows.append([(d, v) for d, v in enumerate(cur) if v])
                    cur = self.mul(cur, tp)
            self._frob[i] = rows
        return self._frob[i]

    def frob(self, a, i=1):
        rows = self.frob_rows(i)
        c = [0] * self.N
        for k, x in enumerate(a):
            if x:
                for d, v in rows[k]:
                    c[d] += x * v
        return [x % self.p for x in c]

    def check(self, samples, e=(1 << 40) + 12345):
        """cross-check against the generic path on the given tower elements; raises AssertionError"""
        F = self.F
        for a in samples:
            for b in samples:
                assert F.eq(self.to_tower(self.mul(self.from_tower(a), self.from_tower(b))), F.mul(a, b)), "flat mul"
            assert F.eq(self.to_tower(self.from_tower(a)), a), "flat round trip"
            assert F.eq(self.to_tower(self.pow(self.from_tower(a), e)), F.pow(a, e)), "flat pow"
            assert F.eq(self.to_tower(self.pow(self.from_tower(a), -3)), F.pow(a, -3)), "flat negative pow"


def sample_elements(F, seed, n=2):
    """deterministic dense elements (hash-derived), for self-checks and pools"""
    import hashlib
    out = []
    for j in range(n):
        v = []
        for k in range(F.deg):
            h = hashlib.sha512(("%s/%d/%d/%d" % (seed, F.deg, j, k)).encode()).digest()
            v.append(int.from_bytes(h + hashlib.sha512(h).digest(), "little") % F.p)
        out.append(F.unflatten(v))
    return out


def self_test():
    # Fp2 over p = 7 mod 8... use the BLS12-381 prime with i^2 = -1 and E = 1 + i (standard tower)
    p = 0x1A0111EA397FE69A4B1BA7B6434BACD764774B84F38512BF6730D2A0F6B0F6241EABFFFEB153FFFFB9FEFFFFFFFFAAAB
    T = build_tower(p, -1, None, (1, 1))
    F2, F6, F12 = T[2], T[6], T[12]
    assert F2.irreducible() and F6.irreducible() and F12.irreducible() and T[4].irreducible()
    a = (3, 5)
    assert F2.mul(a, F2.inv(a)) == F2.one
    assert F2.mul((0, 1), (0, 1)) == (p - 1, 0)
    assert F2.frob(a) == (3, p - 5)                      # conjugation
    x = ((1, 2), (3, 4), (5, 6))
    assert F6.eq(F6.mul(x, F6.inv(x)), F6.one)
    v = art(F6)
    assert F6.mul(F6.mul(v, v), v) == F6.embed((1, 1))   # v^3 = E
    y = (x, ((7, 8), (9, 10), (11, 12)))
    assert F12.eq(F12.mul(y, F12.inv(y)), F12.one)
    w = art(F12)
    assert F12.mul(w, w) == F12.embed(v)
    assert F12.flatten(y) == list(range(1, 13)) and F12.unflatten(list(range(1, 13))) == y
    # Frobenius is a ring homomorphism fixing Fp
    z = F6.mul(x, x)
    assert F6.eq(F6.frob(z), F6.mul(F6.frob(x), F6.frob(x)))
    r = F2.sqrt(F2.mul(a, a))
    assert r is not None and F2.eq(F2.mul(r, r), F2.mul(a, a))
    # cubic tower over a prime = 1 mod 3
    p3 = 0xB640000002A3A6F1D603AB4FF58EC74521F2934B1A7AEEDBE56F9B27E351457D
    assert p3 % 3 == 1
    F3 = Ext(PrimeField(p3), 3, 2, "Fp3")
    b = (3, 1, 4)
    if F3.irreducible():
        assert F3.eq(F3.mul(b, F3.inv(b)), F3.one)
    # norm-based square test agrees with Euler's criterion; generic sqrt agrees
    for a in [(3, 5), (7, 1), (2, 0), (0, 9), (p - 1, 0)]:
        assert F2.is_square_norm(a) == F2.is_square(a)
    # small-prime towers: every level cross-checked between the generic path, the flat path and plain exponentiation
    # q = 1000003 = 3 mod 8, = 1 mod 3 : i^2 = -1, E = 1 + i
    for (q, qnr, E) in ((1000003, -1, (1, 1)), (1000033, -5, (0, 1))):
        Tq = build_tower(q, qnr, None, E)
        for d in (2, 4, 6, 8, 12):
            F = Tq[d]
            if not all(Tq[k].irreducible() for k in Tq if k > 1 and d % k == 0 and _in_chain(Tq, k, d)):
                continue
            fl = Flat(F)
            xs = sample_elements(F, "st%d" % q, 2)
            fl.check(xs)
            a = xs[0]
            assert F.eq(fl.to_tower(fl.frob(fl.from_tower(a), 1)), F.pow(a, q)), "flat frobenius"
            assert F.eq(fl.to_tower(fl.frob(fl.from_tower(a), 3)), F.pow(a, q ** 3)), "flat frobenius^3"
            assert F.is_square_norm(a) == F.is_square(a) and F.is_square_norm(F.mul(a, a))
            if d == 12:
                # the cyclotomic subgroup: easy part lands in it
                c = fl.pow(fl.from_tower(a), (q ** 6 - 1) * (q ** 2 + 1))
                assert fl.pow(c, q ** 4 - q ** 2 + 1) == fl.one
    # cubic branch over a small prime = 1 mod 9: j^3 = 2 (non-cube), v^3 = j
    q3 = next(q for q in range(1000, 5000) if q % 18 == 1 and all(q % r for r in range(2, 70))
              and pow(2, (q - 1) // 3, q) != 1 and pow(2, (q - 1) // 2, q) != 1)
    T3 = build_tower(q3, None, 2, None, (0, 1, 0))
    for d in (3, 9, 18):
        F = T3[d]
        if not F.irreducible():
            break
        fl = Flat(F)
        xs = sample_elements(F, "st3", 2)
        fl.check(xs)
        assert F.eq(fl.to_tower(fl.frob(fl.from_tower(xs[0]), 2)), F.pow(xs[0], q3 ** 2))
        assert F.is_square_norm(xs[0]) == F.is_square(xs[0])


def _in_chain(T, k, d):
    """is T[k] a subfield in the construction chain of T[d]?"""
    F = T[d]
    while isinstance(F, Ext):
        if F is T[k]:
            return True
        F = F.K
    return False

"""Reference hash-based derivation functions, written from the standards on top of hashlib:

* KDF2  (IEEE 1363a-2004 13.2 / ISO 18033-2 6.2.3): T = Hash(Z || I2OSP(1,4)) || Hash(Z || I2OSP(2,4)) || ...
* MGF1  (PKCS#1 v2.1 / RFC 8017 B.2.1; = KDF1 of ISO 18033-2): same with the counter starting at 0
* HMAC  (RFC 2104) by its two-hash definition (used to cross-check the `hmac` module set-up for BLAKE2s)
* expand_message_xmd (RFC 9380 5.3.1)

Hash functions are named by the ids used in the C14 check:
  sh224 sh256 sh384 sh512 (FIPS 180-4)   b2s160 b2s256 (RFC 7693 BLAKE2s with 20 / 32 byte digests, unkeyed)."""
import hashlib
import hmac as _hmac

HASHES = {
    # name: (constructor, digest length, input block length)
    "sh224": (lambda d=b"": hashlib.sha224(d), 28, 64),
    "sh256": (lambda d=b"": hashlib.sha256(d), 32, 64),
    "sh384": (lambda d=b"": hashlib.sha384(d), 48, 128),
    "sh512": (lambda d=b"": hashlib.sha512(d), 64, 128),
    "b2s160": (lambda d=b"": hashlib.blake2s(d, digest_size=20), 20, 64),
    "b2s256": (lambda d=b"": hashlib.blake2s(d, digest_size=32), 32, 64),
}


def H(name, data):
    return HASHES[name][0](bytes(data)).digest()


def hlen(name):
    return HASHES[name][1]


def blen(name):
    return HASHES[name][2]


def i2osp(x, n):
    if x < 0 or x >= 1 << (8 * n):
        raise ValueError("integer too large")
    return x.to_bytes(n, "big")


def _counter_kdf(name, z, olen, start):
    out = b""
    c = start
    while len(out) < olen:
        out += H(name, bytes(z) + i2osp(c, 4))
        c += 1
    return out[:olen]


def kdf2(name, z, olen):
    return _counter_kdf(name, z, olen, 1)


def mgf1(name, seed, olen):
    return _counter_kdf(name, seed, olen, 0)


def hmac_def(name, key, msg):
    """RFC 2104 section 2, literally."""
    B = blen(name)
    key = bytes(key)
    if len(key) > B:
        key = H(name, key)
    key = key + bytes(B - len(key))
    ipad = bytes(k ^ 0x36 for k in key)
    opad = bytes(k ^ 0x5C for k in key)
    return H(name, opad + H(name, ipad + bytes(msg)))


def hmac_lib(name, key, msg):
    """The standard library's HMAC over the same hash (independent implementation of RFC 2104)."""
    return _hmac.new(bytes(key), bytes(msg), HASHES[name][0]).digest()


class Abort(Exception):
    """expand_message_xmd must abort (RFC 9380 5.3.1 step 2)."""


def expand_message_xmd(name, msg, dst, len_in_bytes):
    b_in_bytes, s_in_bytes = hlen(name), blen(name)
    ell = -(-len_in_bytes // b_in_bytes)
    if ell > 255 or len_in_bytes > 65535 or len(dst) > 255:
        raise Abort()
    dst_prime = bytes(dst) + i2osp(len(dst), 1)
    z_pad = i2osp(0, s_in_bytes)
    l_i_b_str = i2osp(len_in_bytes, 2)
    msg_prime = z_pad + bytes(msg) + l_i_b_str + i2osp(0, 1) + dst_prime
    b_0 = H(name, msg_prime)
    b = [H(name, b_0 + i2osp(1, 1) + dst_prime)]
    for i in range(2, ell + 1):
        b.append(H(name, bytes(x ^ y for x, y in zip(b_0, b[-1])) + i2osp(i, 1) + dst_prime))
    return b"".join(b)[:len_in_bytes]


# ---------------------------------------------------------------- self-test

def self_test():
    h = bytes.fromhex
    # FIPS 180-4 / RFC 7693 one-block examples: the hashlib constructors are wired to the right functions
    assert H("sh224", b"abc") == h("23097d223405d8228642a477bda255b32aadbce4bda0b3f7e36c9da7")
    assert H("sh256", b"abc") == h("ba7816bf8f01cfea414140de5dae2223b00361a396177a9cb410ff61f20015ad")
    assert H("sh384", b"abc") == h("cb00753f45a35e8bb5a03d699ac65007272c32ab0eded1631a8b605a43ff5bed"
                                   "8086072ba1e7cc2358baeca134c825a7")
    assert H("sh512", b"abc") == h("ddaf35a193617abacc417349ae20413112e6fa4e89a97ea20a9eeee64b55d39a"
                                   "2192992a274fc1a836ba3c23a3feebbd454d4423643ce80e2a9ac94fa54ca49f")
    assert H("b2s256", b"abc") == h("508c5e8c327c14e2e1a72ba34eeb452f37458b209ed63a294d999b4c86675982")   # RFC 7693 app. B
    assert len(H("b2s160", b"abc")) == 20 and H("b2s160", b"abc") != H("b2s256", b"abc")[:20]     # length is a parameter
    for n, (_, hl, bl) in HASHES.items():
        assert HASHES[n][0]().digest_size == hl and HASHES[n][0]().block_size == bl, n

    # RFC 4231 test cases 1, 2 (HMAC-SHA-256) and 6 (131-byte key: longer than the block), both implementations
    tc = [(b"\x0b" * 20, b"Hi There", "b0344c61d8db38535ca8afceaf0bf12b881dc200c9833da726e9376c2e32cff7"),
          (b"Jefe", b"what do ya want for nothing?", "5bdcc146bf60754e6a042426089575c75a003f089d2739839dec58b964ec3843"),
          (b"\xaa" * 131, b"Test Using Larger Than Block-Size Key - Hash Key First",
           "60e431591ee0b67f0d8a26aacbf5b77f8e0bc6213728c5140546040f0ee37f54")]
    for k, m, mac in tc:
        assert hmac_def("sh256", k, m) == h(mac) and hmac_lib("sh256", k, m) == h(mac)
    # the two HMAC implementations agree for every hash and for key lengths around the block size
    for n in HASHES:
        B = blen(n)
        for kl in (0, 1, B - 1, B, B + 1, 2 * B, 200):
            k = bytes((i * 5 + 3) & 0xFF for i in range(kl))
            for ml in (0, 1, B - 1, B, 3 * B + 5):
                m = bytes((i * 11 + 1) & 0xFF for i in range(ml))
                assert hmac_def(n, k, m) == hmac_lib(n, k, m), (n, kl, ml)

    # MGF1: widely published examples (SHA-1 based ones cannot be used here: SHA-1 is not in the library);
    # MGF1-SHA256("bar", 50)
    assert mgf1("sh256", b"bar", 50) == h("382576a7841021cc28fc4c0948753fb8312090cea942ea4c4e735d10dc724b15"
                                          "5f9f6069f289d61daca0cb814502ef04eae1")
    # structure, from the definitions: first block, counter width / order / start, truncation, KDF2 = MGF1 shifted
    for n in HASHES:
        hl = hlen(n)
        z = b"shared secret \x00\xff"
        assert mgf1(n, z, hl) == H(n, z + b"\x00\x00\x00\x00")
        assert kdf2(n, z, hl) == H(n, z + b"\x00\x00\x00\x01")
        assert kdf2(n, z, 2 * hl + 1) == H(n, z + b"\x00\x00\x00\x01") + H(n, z + b"\x00\x00\x00\x02") + \
            H(n, z + b"\x00\x00\x00\x03")[:1]
        for ol in (0, 1, hl - 1, hl, hl + 1, 2 * hl, 2 * hl + 1, 1000):
            a, b = kdf2(n, z, ol), mgf1(n, z, ol + hl)
            assert len(a) == ol and b[hl:] == a and mgf1(n, z, ol) == b[:ol]

    # RFC 9380 appendix K.1 (expand_message_xmd, SHA-256) and K.3 (SHA-512)
    d256 = b"QUUX-V01-CS02-with-expander-SHA256-128"
    d512 = b"QUUX-V01-CS02-with-expander-SHA512-256"
    assert len(d256) == 0x26
    k1 = [(b"", "68a985b87eb6b46952128911f2a4412bbc302a9d759667f87f7a21d803f07235"),
          (b"abc", "d8ccab23b5985ccea865c6c97b6e5b8350e794e603b4b97902f53a8a0d605615"),
          (b"abcdef0123456789", "eff31487c770a893cfb36f912fbfcbff40d5661771ca4b2cb4eafe524333f5c1")]
    for m, u in k1:
        assert expand_message_xmd("sh256", m, d256, 0x20) == h(u), m
    k3 = [(b"", "6b9a7312411d92f921c6f68ca0b6380730a1a4d982c507211a90964c394179ba"),
          (b"abc", "0da749f12fbe5483eb066a5f595055679b976e93abe9be6f0f6318bce7aca8dc")]
    for m, u in k3:
        assert expand_message_xmd("sh512", m, d512, 0x20) == h(u), m
    # structure, from the pseudo-code: prefix property does NOT hold across lengths (l_i_b_str is hashed),
    # output length exact, abort conditions
    for n in ("sh224", "sh256", "sh384", "sh512"):
        hl = hlen(n)
        assert expand_message_xmd(n, b"m", b"d", 0) == b""
        assert len(expand_message_xmd(n, b"m", b"d", 255 * hl)) == 255 * hl
        assert expand_message_xmd(n, b"m", b"d", hl + 1)[:hl] != expand_message_xmd(n, b"m", b"d", hl)
        assert len(expand_message_xmd(n, b"m", b"d" * 255, 5)) == 5
        for bad in ((b"d", 255 * hl + 1), (b"d" * 256, 5)):
            try:
                expand_message_xmd(n, b"m", bad[0], bad[1])
            except Abort:
                pass
            else:
                raise AssertionError("no abort")
        # one-block case spelled out
        dp = b"DST" + b"\x03"
        b0 = H(n, bytes(blen(n)) + b"msg" + i2osp(hl, 2) + b"\x00" + dp)
        assert expand_message_xmd(n, b"msg", b"DST", hl) == H(n, b0 + b"\x01" + dp)
    return True


if __name__ == "__main__":
    self_test()
    print("kdf reference self-test ok")

"""Reference short-Weierstrass arithmetic y^2 = x^3 + a x + b over an arbitrary field (textbook chord-and-tangent
law with every exceptional case spelled out). The field is any object with
  zero, one, add, sub, mul, neg, inv, eq(a, b), is_zero(a), from_int(n)
so that the same code serves Fp (engine.ref.ec.PrimeField) and the extension towers (engine.ref.ext)."""


class PrimeField:
    def __init__(self, p):
        self.p = p
        self.zero, self.one = 0, 1

    def add(self, a, b):
        return (a + b) % self.p

    def sub(self, a, b):
        return (a - b) % self.p

    def mul(self, a, b):
        return a * b % self.p

    def sqr(self, a):
        return a * a % self.p

    def neg(self, a):
        return (-a) % self.p

    def inv(self, a):
        return pow(a, -1, self.p)

    def eq(self, a, b):
        return (a - b) % self.p == 0

    def is_zero(self, a):
        return a % self.p == 0

    def from_int(self, n):
        return n % self.p

    def sqrt(self, a):
        from . import fp
        return fp.sqrt_mod(a, self.p)


class Curve:
    """Points are None (identity) or (x, y) tuples of field elements."""

    def __init__(self, K, a, b):
        self.K, self.a, self.b = K, a, b

    def rhs(self, x):
        K = self.K
        return K.add(K.add(K.mul(K.mul(x, x), x), K.mul(self.a, x)), self.b)

    def on_curve(self, P):
        if P is None:
            return True
        K = self.K
        return K.eq(K.mul(P[1], P[1]), self.rhs(P[0]))

    def neg(self, P):
        if P is None:
            return None
        return (P[0], self.K.neg(P[1]))

    def eq(self, P, Q):
        if P is None or Q is None:
            return P is None and Q is None
        return self.K.eq(P[0], Q[0]) and self.K.eq(P[1], Q[1])

    def dbl(self, P):
        K = self.K
        if P is None:
            return None
        x, y = P
        if K.is_zero(y):
            return None                      # point of order two
        l = K.mul(K.add(K.mul(K.from_int(3), K.mul(x, x)), self.a), K.inv(K.add(y, y)))
        x3 = K.sub(K.mul(l, l), K.add(x, x))
        y3 = K.sub(K.mul(l, K.sub(x, x3)), y)
        return (x3, y3)

    def add(self, P, Q):
        K = self.K
        if P is None:
            return Q
        if Q is None:
            return P
        x1, y1 = P
        x2, y2 = Q
        if K.eq(x1, x2):
            if K.eq(y1, y2):
                return self.dbl(P)
            return None                      # P = -Q
        l = K.mul(K.sub(y2, y1), K.inv(K.sub(x2, x1)))
        x3 = K.sub(K.sub(K.mul(l, l), x1), x2)
        y3 = K.sub(K.mul(l, K.sub(x1, x3)), y1)
        return (x3, y3)

    def sub(self, P, Q):
        return self.add(P, self.neg(Q))

    # --- Jacobian helpers used only to make [k]P affordable; cross-checked against the affine law in self_test
    def _jdbl(self, P):
        K = self.K
        X, Y, Z = P
        if K.is_zero(Z) or K.is_zero(Y):
            return (K.one, K.one, K.zero)
        YY = K.mul(Y, Y)
        S = K.mul(K.from_int(4), K.mul(X, YY))
        ZZ = K.mul(Z, Z)
        M = K.add(K.mul(K.from_int(3), K.mul(X, X)), K.mul(self.a, K.mul(ZZ, ZZ)))
        X3 = K.sub(K.mul(M, M), K.add(S, S))
        Y3 = K.sub(K.mul(M, K.sub(S, X3)), K.mul(K.from_int(8), K.mul(YY, YY)))
        Z3 = K.mul(K.add(Y, Y), Z)
        return (X3, Y3, Z3)

    def _jadd_affine(self, P, Q):
        """Jacobian P + affine Q (Q not identity)."""
        K = self.K
        X1, Y1, Z1 = P
        if K.is_zero(Z1):
            return (Q[0], Q[1], K.one)
        Z1Z1 = K.mul(Z1, Z1)
        U2 = K.mul(Q[0], Z1Z1)
        S2 = K.mul(Q[1], K.mul(Z1, Z1Z1))
        if K.eq(U2, X1):
            if K.eq(S2, Y1):
                return self._jdbl(P)
            return (K.one, K.one, K.zero)
        H = K.sub(U2, X1)
        R = K.sub(S2, Y1)
        HH = K.mul(H, H)
        HHH = K.mul(H, HH)
        V = K.mul(X1, HH)
        X3 = K.sub(K.sub(K.mul(R, R), HHH), K.add(V, V))
        Y3 = K.sub(K.mul(R, K.sub(V, X3)), K.mul(Y1, HHH))
        Z3 = K.mul(Z1, H)
        return (X3, Y3, Z3)

    def _jaffine(self, P):
        K = self.K
        X, Y, Z = P
        if K.is_zero(Z):
            return None
        zi = K.inv(Z)
        zi2 = K.mul(zi, zi)
        return (K.mul(X, zi2), K.mul(Y, K.mul(zi2, zi)))

    def mul(self, k, P):
        """[k]P for any integer k (left-to-right double-and-add on |k|)."""
        if P is None or k == 0:
            return None
        if k < 0:
            return self.mul(-k, self.neg(P))
        K = self.K
        R = (K.one, K.one, K.zero)
        for i in range(k.bit_length() - 1, -1, -1):
            R = self._jdbl(R)
            if (k >> i) & 1:
                R = self._jadd_affine(R, P)
        return self._jaffine(R)

    def mul_naive(self, k, P):
        """[k]P by repeated affine addition (small |k| only) — the definition itself."""
        R = None
        Q = P if k >= 0 else self.neg(P)
        for _ in range(abs(k)):
            R = self.add(R, Q)
        return R

    def lift_x(self, x):
        """A point with this x-coordinate, or None."""
        y = self.K.sqrt(self.rhs(x))
        if y is None:
            return None
        return (x, y)


def self_test():
    # NIST P-256 generator multiples (FIPS 186 / well-known vectors)
    p = 0xFFFFFFFF00000001000000000000000000000000FFFFFFFFFFFFFFFFFFFFFFFF
    a = p - 3
    b = 0x5AC635D8AA3A93E7B3EBBD55769886BC651D06B0CC53B0F63BCE3C3E27D2604B
    G = (0x6B17D1F2E12C4247F8BCE6E563A440F277037D812DEB33A0F4A13945D898C296,
         0x4FE342E2FE1A7F9B8EE7EB4A7C0F9E162BCE33576B315ECECBB6406837BF51F5)
    n = 0xFFFFFFFF00000000FFFFFFFFFFFFFFFFBCE6FAADA7179E84F3B9CAC2FC632551
    E = Curve(PrimeField(p), a, b)
    assert E.on_curve(G)
    G2 = E.mul(2, G)
    assert G2 == (0x7CF27B188D034F7E8A52380304B51AC3C08969E277F21B35A60B48FC47669978,
                  0x07775510DB8ED040293D9AC69F7430DBBA7DADE63CE982299E04B79D227873D1)
    assert E.mul(n, G) is None and E.mul(n - 1, G) == E.neg(G) and E.mul(n + 1, G) == G
    for k in range(-5, 12):
        assert E.mul(k, G) == E.mul_naive(k, G)
    k = 0x1234567890ABCDEF1234567890ABCDEF
    assert E.add(E.mul(k, G), E.mul(n - k, G)) is None
    # secp256k1: 2G
    p2 = 2 ** 256 - 2 ** 32 - 977
    E2 = Curve(PrimeField(p2), 0, 7)
    Gk = (0x79BE667EF9DCBBAC55A06295CE870B07029BFCDB2DCE28D959F2815B16F81798,
          0x483ADA7726A3C4655DA4FBFC0E1108A8FD17B448A68554199C47D08FFB10D4B8)
    assert E2.mul(2, Gk) == (0xC6047F9441ED7D6D3045406E95C07CD85C778E4B8CEF3CA7ABAC09B95C709EE5,
                             0x1AE168FEA63DC339A3C58419466CEAEEF7F632653266D0E1236431A950CFE52A)

"""Reference arithmetic in Z/pZ (textbook algorithms on Python ints; nothing from RELIC)."""


def legendre(a, p):
    """Euler's criterion: 0, 1 or -1."""
    a %= p
    if a == 0:
        return 0
    return 1 if pow(a, (p - 1) // 2, p) == 1 else -1


def is_square(a, p):
    return legendre(a, p) >= 0


def sqrt_mod(a, p):
    """Tonelli-Shanks. Returns one root or None."""
    a %= p
    if a == 0:
        return 0
    if legendre(a, p) != 1:
        return None
    if p % 4 == 3:
        return pow(a, (p + 1) // 4, p)
    q, s = p - 1, 0
    while q % 2 == 0:
        q //= 2
        s += 1
    z = 2
    while legendre(z, p) != -1:
        z += 1
    m, c, t, r = s, pow(z, q, p), pow(a, q, p), pow(a, (q + 1) // 2, p)
    while t != 1:
        i, t2 = 0, t
        while t2 != 1:
            t2 = t2 * t2 % p
            i += 1
        b = pow(c, 1 << (m - i - 1), p)
        m, c = i, b * b % p
        t, r = t * c % p, r * b % p
    return r


def is_cube(a, p):
    a %= p
    if a == 0 or p % 3 != 1:
        return True
    return pow(a, (p - 1) // 3, p) == 1


def self_test():
    p = 0xFFFFFFFF00000001000000000000000000000000FFFFFFFFFFFFFFFFFFFFFFFF
    for a in (2, 3, 5, 1234567, p - 1):
        r = sqrt_mod(a * a % p, p)
        assert r is not None and r * r % p == a * a % p
    assert legendre(0, p) == 0 and legendre(1, p) == 1
    p2 = 0x1A0111EA397FE69A4B1BA7B6434BACD764774B84F38512BF6730D2A0F6B0F6241EABFFFEB153FFFFB9FEFFFFFFFFAAAB
    assert sqrt_mod(p2 - 1, p2) is None          # -1 is a non-residue for p = 3 mod 4
    p3 = 2 ** 255 - 19
    r = sqrt_mod(p3 - 1, p3)
    assert r * r % p3 == p3 - 1
    assert is_cube(8, 13) and not is_cube(2, 13)


class Field:
    """A prime field as configured in one runner: knows the internal representation."""

    def __init__(self, fid, p, W, digs, monty):
        self.fid, self.p, self.W, self.digs, self.monty = fid, p, W, digs, monty
        self.R = 1 << (W * digs)
        self.Rinv = pow(self.R, -1, p)
        self.nbytes = W * digs // 8

    def to_raw_int(self, x):
        x %= self.p
        return x * self.R % self.p if self.monty else x

    def enc(self, x):
        """payload of an FP slot holding the field element x"""
        import struct
        b = self.to_raw_int(x).to_bytes(self.nbytes, "little")
        return struct.pack("<I", len(b)) + b

    def enc_raw(self, raw):
        import struct
        b = raw.to_bytes(self.nbytes, "little")
        return struct.pack("<I", len(b)) + b

    def dec(self, blob):
        """(value, raw_int); value is None if raw is not canonical (>= p)"""
        raw = int.from_bytes(blob, "little")
        if raw >= self.p:
            return None, raw
        return (raw * self.Rinv % self.p if self.monty else raw), raw

"""Protocol formulas for C06 part B, written from the standards / papers (never from RELIC's code):

* ECIES (ISO 18033-2 / IEEE 1363a DHAES shape): shared x-coordinate -> KDF2 -> (AES-CBC key || HMAC key) ->
  body = CBC-PKCS7(m), tag = HMAC(body). The three scheme options a standard leaves open (encoding of x, key split
  order, IV) are parameters here; the property module fixes them to what src/cp/relic_cp_ecies.c documents.
* ECDH: ECSVDP-DH / ECSVDP-DHC of IEEE 1363 followed by KDF2 over FE2OSP(x).
* ECMQV: ECSVDP-MQV of IEEE 1363 (implicit signature e = t s + u, associate value t = (x mod 2^h) + 2^h,
  h = ceil(log2(r) / 2)), followed by KDF2.
* Shamir sharing: Lagrange interpolation at 0 over Z_q; polynomial utilities.
* Beaver multiplication triples.
* BGN (Freeman's prime-order variant as used by RELIC): linear relations between ciphertext and plaintext.
"""
from . import sym


# ------------------------------------------------------------------------------------------- octet strings

def i2osp(x, n):
    return x.to_bytes(n, "big")


def fe2osp(x, p):
    """IEEE 1363 FE2OSP for prime fields: fixed length ceil(log256 p)."""
    return x.to_bytes((p.bit_length() + 7) // 8, "big")


def x_minimal(x):
    """shortest big-endian encoding (what stripping leading zero octets produces); one zero octet for 0"""
    return x.to_bytes(max(1, (x.bit_length() + 7) // 8), "big")


def x_java_biginteger(x):
    """two's-complement encoding of a non-negative integer as produced by java.math.BigInteger.toByteArray():
    minimal length plus a leading zero octet when the top bit of the top octet is set (and for 0, whose bit length
    is a multiple of 8, one extra octet)"""
    n = (x.bit_length() + 7) // 8
    if x.bit_length() % 8 == 0:
        n += 1
    return x.to_bytes(n, "big")


# ------------------------------------------------------------------------------------------- ECIES

def ecies_keys(h, z, size):
    k = sym.kdf2(h, z, 2 * size)
    return k[:size], k[size:]


def ecies_encrypt(h, z, size, m, iv=bytes(16)):
    """(body, tag) for shared-secret octets z, AES key size `size` bytes (HMAC key has the same size)"""
    ke, km = ecies_keys(h, z, size)
    body = sym.cbc_pkcs7_encrypt(ke, iv, m)
    return body, sym.hmac(h, km, body)


def ecies_decrypt(h, z, size, ct, iv=bytes(16)):
    """plaintext, or None when the ciphertext must be rejected"""
    hl = h().digest_size
    if len(ct) < hl:
        return None
    ke, km = ecies_keys(h, z, size)
    body, tag = ct[:-hl], ct[-hl:]
    if sym.hmac(h, km, body) != tag:
        return None
    return sym.cbc_pkcs7_decrypt(ke, iv, body)


# ------------------------------------------------------------------------------------------- ECDH / ECMQV

def ecdh_point(E, cof, d, Q):
    """ECSVDP-DHC without compatibility: P = [h d]Q (ECSVDP-DH when h = 1); None = 'invalid public key'"""
    return E.mul(cof * d, Q)


def mqv_h(r):
    """h = ceil(log2(r) / 2) for a prime r (never a power of two)"""
    return (r.bit_length() + 1) // 2


def mqv_avf(x, r):
    h = mqv_h(r)
    return (x % (1 << h)) + (1 << h)


def mqv_point(E, r, s, u, V, Wp, Vp):
    """ECSVDP-MQV: own static private s, own ephemeral private u, own ephemeral public V, peer static public W',
    peer ephemeral public V'. Returns the shared point (None = identity / 'invalid public key')."""
    t = mqv_avf(V[0], r)
    tp = mqv_avf(Vp[0], r)
    e = (t * s + u) % r
    return E.mul(e, E.add(Vp, E.mul(tp, Wp)))


# ------------------------------------------------------------------------------------------- polynomials over Z_q

def poly_from_roots(roots, q):
    """coefficients (constant term first) of prod (X - a_i) mod q; the empty product is 1"""
    c = [1 % q]
    for a in roots:
        n = [0] * (len(c) + 1)
        for i, ci in enumerate(c):
            n[i + 1] = (n[i + 1] + ci) % q
            n[i] = (n[i] - a * ci) % q
        c = n
    return c


def poly_eval(c, x, q):
    r = 0
    for ci in reversed(c):
        r = (r * x + ci) % q
    return r


def lagrange_at(xs, ys, x0, q):
    """value at x0 of the unique polynomial of degree < len(xs) through the points (distinct xs mod q, q prime)"""
    tot = 0
    for i, (xi, yi) in enumerate(zip(xs, ys)):
        num = den = 1
        for j, xj in enumerate(xs):
            if j != i:
                num = num * (x0 - xj) % q
                den = den * (xi - xj) % q
        tot = (tot + yi * num * pow(den, -1, q)) % q
    return tot


def lagrange_at_zero(xs, ys, q):
    return lagrange_at(xs, ys, 0, q)


# ------------------------------------------------------------------------------------------- Beaver triples

def beaver_open(x_sh, y_sh, a_sh, b_sh, n):
    d = (sum(x_sh) - sum(a_sh)) % n
    e = (sum(y_sh) - sum(b_sh)) % n
    return d, e


def self_test():
    sym.self_test()
    assert x_java_biginteger(0x7F) == b"\x7f" and x_java_biginteger(0x80) == b"\x00\x80"
    assert x_java_biginteger(0x1234) == b"\x12\x34" and x_java_biginteger(0xFF00) == b"\x00\xff\x00"
    assert x_minimal(0) == b"\x00" and x_minimal(0x100) == b"\x01\x00"
    assert fe2osp(5, 2 ** 255 - 19) == bytes(31) + b"\x05"
    q = 2 ** 127 - 1
    c = poly_from_roots([3, 5, 7], q)
    assert c == [(-105) % q, 71, (-15) % q, 1] and poly_eval(c, 5, q) == 0 and poly_eval(c, 1, q) == (-48) % q
    assert poly_from_roots([], q) == [1]
    f = [123456789, 987654321, 5555, 42]
    pts = [(x, poly_eval(f, x, q)) for x in (1, 2, 5, 9)]
    assert lagrange_at_zero([x for x, _ in pts], [y for _, y in pts], q) == f[0]
    assert lagrange_at([x for x, _ in pts], [y for _, y in pts], 11, q) == poly_eval(f, 11, q)
    assert lagrange_at_zero([1, 2, 5], [y for _, y in pts[:3]], q) != f[0]
    assert mqv_h(2 ** 255 - 19) == 128 and mqv_h((1 << 256) - 189) == 128 and mqv_avf(0x12345, 251) == 0x5 + 16
    import hashlib
    body, tag = ecies_encrypt(hashlib.sha256, b"\x01\x02", 16, b"hello")
    assert len(body) == 16 and ecies_decrypt(hashlib.sha256, b"\x01\x02", 16, body + tag) == b"hello"
    assert ecies_decrypt(hashlib.sha256, b"\x01\x02", 16, body + tag[:-1] + bytes([tag[-1] ^ 1])) is None
    assert ecies_decrypt(hashlib.sha256, b"\x01\x02", 16, tag[:5]) is None

"""Reference model of the group of a non-supersingular binary Weierstrass curve
        E: y^2 + x y = x^3 + a x^2 + b   over GF(2^m),  b != 0
written from the textbook (Hankerson-Menezes-Vanstone, "Guide to ECC", ch. 3.1.2; Knudsen / Fong et al. for
halving), not from RELIC. Points are affine pairs (x, y) of ints; None is the point at infinity.

  -(x, y) = (x, x + y)
  P + Q, x1 != x2:  l = (y1 + y2)/(x1 + x2);  x3 = l^2 + l + x1 + x2 + a;  y3 = l (x1 + x3) + x3 + y1
  2P,   x1 != 0:    l = x1 + y1/x1;           x3 = l^2 + l + a;            y3 = x1^2 + (l + 1) x3
  2P = O for the unique point of order two (0, sqrt(b)); P + (-P) = O."""
from . import gf2m


class BinaryCurve:
    def __init__(self, K, a, b):
        if K.red(b) == 0:
            raise ValueError("singular curve (b = 0)")
        self.K, self.a, self.b = K, K.red(a), K.red(b)

    # ------------------------------------------------------------------ predicates
    def on_curve(self, P):
        if P is None:
            return True
        K = self.K
        x, y = P
        if x >> K.m or y >> K.m:
            return False
        lhs = K.sqr(y) ^ K.mul(x, y)
        x2 = K.sqr(x)
        rhs = K.mul(x2, x) ^ K.mul(self.a, x2) ^ self.b
        return lhs == rhs

    def eq(self, P, Q):
        return P == Q

    # ------------------------------------------------------------------ group law
    def neg(self, P):
        if P is None:
            return None
        return (P[0], P[0] ^ P[1])

    def dbl(self, P):
        if P is None:
            return None
        K = self.K
        x1, y1 = P
        if x1 == 0:
            return None                       # the point of order two
        l = x1 ^ K.div(y1, x1)
        x3 = K.sqr(l) ^ l ^ self.a
        y3 = K.sqr(x1) ^ K.mul(l ^ 1, x3)
        return (x3, y3)

    def add(self, P, Q):
        if P is None:
            return Q
        if Q is None:
            return P
        K = self.K
        x1, y1 = P
        x2, y2 = Q
        if x1 == x2:
            if y1 == y2:
                return self.dbl(P)
            # the only other point with this x-coordinate is -P = (x1, x1 + y1)
            return None
        l = K.div(y1 ^ y2, x1 ^ x2)
        x3 = K.sqr(l) ^ l ^ x1 ^ x2 ^ self.a
        y3 = K.mul(l, x1 ^ x3) ^ x3 ^ y1
        return (x3, y3)

    def sub(self, P, Q):
        return self.add(P, self.neg(Q))

    def mul(self, k, P):
        """[k]P by left-to-right double-and-add."""
        if k < 0:
            return self.mul(-k, self.neg(P))
        R = None
        for i in range(k.bit_length() - 1, -1, -1):
            R = self.dbl(R)
            if (k >> i) & 1:
                R = self.add(R, P)
        return R

    def mul_by_additions(self, k, P):
        """[k]P by k-fold repeated addition (cross-check for small k)."""
        R = None
        Q = P if k >= 0 else self.neg(P)
        for _ in range(abs(k)):
            R = self.add(R, Q)
        return R

    # ------------------------------------------------------------------ special points and maps
    def order2(self):
        """The unique point of order two."""
        return (0, self.K.sqrt(self.b))

    def lift_x(self, x):
        """One of the (up to two) points with this x-coordinate, or None. x = 0 gives the point of order two."""
        K = self.K
        x = K.red(x)
        if x == 0:
            return self.order2()
        # y = x z with z^2 + z = x + a + b / x^2
        rhs = x ^ self.a ^ K.div(self.b, K.sqr(x))
        z = K.solve_quadratic(rhs)
        if z is None:
            return None
        return (x, K.mul(x, z))

    def halves(self, P):
        """All points H with 2H = P (0 or 2 of them for P != O, x(P) != 0): solve l^2 + l = x + a,
        x_H^2 = y + x (l + 1)  i.e. 2H = P with l = x_H + y_H / x_H (Knudsen 1999)."""
        if P is None:
            return [None, self.order2()]
        K = self.K
        x, y = P
        out = []
        if x == 0:
            # halves of the order-2 point are the points of order four: x_H^4 = b  (from x3 = x1^2 + b/x1^2 = 0)
            xh = K.sqrt(K.sqrt(self.b))
            H = self.lift_x(xh)
            if H is not None:
                out = [H, self.neg(H)]
            return [h for h in out if self.dbl(h) == P]
        l0 = K.solve_quadratic(x ^ self.a)
        if l0 is None:
            return []
        for l in (l0, l0 ^ 1):
            xh = K.sqrt(y ^ K.mul(x, l ^ 1))
            if xh == 0:
                continue
            yh = K.mul(xh, xh ^ l)
            H = (xh, yh)
            if self.on_curve(H) and self.dbl(H) == P:
                out.append(H)
        return out

    def frobenius(self, P):
        """(x, y) -> (x^2, y^2); an endomorphism when a, b lie in GF(2) (Koblitz curves)."""
        if P is None:
            return None
        return (self.K.sqr(P[0]), self.K.sqr(P[1]))


# ------------------------------------------------------------------------------------ self-test

# FIPS 186-4 D.1.3.3 (K-283, B-283): a, b, base point and its prime order
B283 = dict(
    a=1,
    b=0x27B680AC8B8596DA5A4AF8A19A0303FCA97FD7645309FA2A581485AF6263E313B79A2F5,
    gx=0x5F939258DB7DD90E1934F8C70B0DFEC2EED25B8557EAC9C80E2E198F8CDBECD86B12053,
    gy=0x3676854FE24141CB98FE6D4B20D02B4516FF702350EDDB0826779C813F0DF45BE8112F4,
    n=7770675568902916283677847627294075626569625924376904889109196526770044277787378692871, h=2)
K283 = dict(
    a=0, b=1,
    gx=0x503213F78CA44883F1A3B8162F188E553CD265F23C1567A16876913B0C2AC2458492836,
    gy=0x1CCDA380F1C9E318D90F95D07E5426FE87E45C0E8184698E45962364E34116177DD2259,
    n=3885337784451458141838923813647037813284811733793061324295874997529815829704422603873, h=4)


def self_test():
    # exhaustive check of the group law on a tiny curve: closure, associativity sample, group order by enumeration,
    # [k]P against repeated addition, the order-two point, halving
    K = gf2m.GF2m(0b10000011)                                  # GF(2^7)
    for (a, b) in ((1, 1), (0, 1), (1, 0b1011)):
        E = BinaryCurve(K, a, b)
        pts = [None]
        for x in range(128):
            for y in range(128):
                if E.on_curve((x, y)):
                    pts.append((x, y))
        N = len(pts)
        # Hasse bound and the trace condition: #E is even, and = 0 mod 4 iff Tr(a) = 0
        assert abs(N - 129) <= 2 * 11.4 and N % 2 == 0 and (N % 4 == 0) == (K.trace(a) == 0)
        T = E.order2()
        assert E.on_curve(T) and E.dbl(T) is None and E.neg(T) == T and E.add(T, T) is None
        for i, P in enumerate(pts):
            assert E.add(P, None) == P and E.add(None, P) == P
            assert E.add(P, E.neg(P)) is None
            assert E.on_curve(E.dbl(P)) and E.add(P, P) == E.dbl(P)
            assert E.mul(N, P) is None
            for k in (0, 1, 2, 3, 5, 8, -1, -4):
                assert E.mul(k, P) == E.mul_by_additions(k, P)
            assert (E.lift_x(P[0]) in (P, E.neg(P))) if P is not None else True
            hs = E.halves(P)
            assert all(E.dbl(H) == P for H in hs)
            assert len(hs) == sum(1 for H in pts if E.dbl(H) == P)
            Q = pts[(7 * i + 3) % N]
            R = pts[(13 * i + 5) % N]
            S = E.add(P, Q)
            assert E.on_curve(S) and S == E.add(Q, P)
            assert E.add(S, R) == E.add(P, E.add(Q, R))
            assert E.sub(S, Q) == P
        if (a, b) != (1, 0b1011):
            for P in pts[:40]:
                F = E.frobenius(P)
                assert E.on_curve(F)
                # tau^2 - mu tau + 2 = 0 with mu = (-1)^(1-a)
                mu = 1 if a == 1 else -1
                lhs = E.add(E.frobenius(F), E.mul(2, P))
                assert lhs == E.mul(mu, F)
    # NIST curves over GF(2^283): generator on the curve, [n]G = O, [n-1]G = -G, cofactor from the trace of a
    K = gf2m.GF2m(gf2m.NIST_POLY[283])
    for c in (B283, K283):
        E = BinaryCurve(K, c["a"], c["b"])
        G = (c["gx"], c["gy"])
        assert E.on_curve(G)
        assert E.mul(c["n"], G) is None
        assert E.mul(c["n"] - 1, G) == E.neg(G)
        assert E.mul(5, G) == E.mul_by_additions(5, G)
        assert (c["h"] == 2) == (K.trace(c["a"]) == 1)
        T = E.order2()
        assert E.on_curve(T) and E.dbl(T) is None
        hs = E.halves(G)
        assert len(hs) == 2 and all(E.dbl(H) == G for H in hs)
    return True


if __name__ == "__main__":
    self_test()
    print("ecb self-test ok")

"""Reference signers / verifiers for the signature protocols with an independent definition (C05 part A).
Pure Python on ints, hashlib and the reference curve arithmetic of engine.ref.ec; nothing is taken from RELIC's code.

  ECDSA       FIPS 186-4 section 6.4 / SEC 1 v2 section 4.1.3-4.1.4, digest conversion = leftmost min(hashlen, |n|)
              bits; public-key validation SEC 1 v2 section 3.2.2.1 (Q != O, on the curve, [n]Q = O)
  RSA         RFC 8017: RSASSA-PSS (8.1.2, EMSA-PSS 9.1 with a chosen sLen, MGF1 B.2.1), RSASSA-PKCS1-v1_5 (8.2.2,
              EMSA-PKCS1-v1_5 9.2 with the DigestInfo prefixes of 9.2 note 1), RSAVP1 / RSASP1 by pow()
  EC-Schnorr  the construction that cp_ecss_sig realises (there is no normative text in the header): r = x([k]G) mod n
              (r != 0), e = H(m || I2OSP(r, field bytes)) reduced like an ECDSA digest and then mod n, s = k - d e mod n;
              verify: e in [0, n-1], s in [1, n-1], R = [s]G + [e]Q != O, r = x(R) mod n != 0, e == H(m || r)
  vBNN-IBS    Cao, Kou, Dang, Zhao, "IMBAS" (2008): user key (R = [r]G, s = r + H1(ID || R) x), signature
              (R, h = H2(ID || m || R || Y), z = y + h s); verify h == H2(ID || m || R || [z]G - [h](R + [c]P0))
  PoK / SoK   Camenisch, Stadler (1997): c = H([m ||] G || Y || [v]G), r = v - c x; verify c == H(.. || [r]G + [c]Y);
              OR-composition: c0 + c1 == H(..) mod n
Points inside hashes use the compressed form of SEC 1 section 2.3.3 (O -> 00; 02 | (y mod 2) followed by x) unless the
Group carries another compression function (Group.compress_fn).
"""
import hashlib

from . import ec as rec


def i2osp(x, n):
    return x.to_bytes(n, "big")


def os2ip(b):
    return int.from_bytes(b, "big")


def hash_fn(name):
    """name in SH224 | SH256 | SH384 | SH512 | B2S160 | B2S256 -> (function bytes -> digest, digest length)"""
    if name == "SH224":
        return (lambda m: hashlib.sha224(m).digest()), 28
    if name == "SH256":
        return (lambda m: hashlib.sha256(m).digest()), 32
    if name == "SH384":
        return (lambda m: hashlib.sha384(m).digest()), 48
    if name == "SH512":
        return (lambda m: hashlib.sha512(m).digest()), 64
    if name == "B2S160":
        return (lambda m: hashlib.blake2s(m, digest_size=20).digest()), 20
    if name == "B2S256":
        return (lambda m: hashlib.blake2s(m, digest_size=32).digest()), 32
    raise ValueError(name)


# ------------------------------------------------------------------------------------------ groups

class Group:
    """A prime-order subgroup <G> of E(Fp): E is an engine.ref.ec.Curve, n the order of G, h the cofactor,
    fbytes the byte length of a field element in encodings."""

    def __init__(self, E, G, n, h, p, fbytes=None, compress_fn=None):
        self.E, self.G, self.n, self.h, self.p = E, G, n, h, p
        self.fbytes = fbytes if fbytes is not None else (p.bit_length() + 7) // 8
        self._gtab = None
        # how a point is written inside a hash input; default SEC 1 section 2.3.3. An implementation whose compressed
        # format uses another sign convention supplies its own (the schemes only need signer and verifier to agree).
        self.compress_fn = compress_fn

    def mul_g(self, k):
        """[k]G through a table of [2^i]G (same group law, fewer operations)."""
        k %= self.n
        if self._gtab is None:
            t, P = [], self.G
            for _ in range(self.n.bit_length()):
                t.append(P)
                P = self.E.dbl(P)
            self._gtab = t
        R = None
        i = 0
        while k:
            if k & 1:
                R = self.E.add(R, self._gtab[i])
            k >>= 1
            i += 1
        return R

    def lincomb(self, a, P, b, Q):
        """[a]P + [b]Q for any integers a, b (no reduction of the scalars: P, Q may lie outside <G>)."""
        return self.E.add(self.E.mul(a, P), self.E.mul(b, Q))


def point_defect(g, P, allow_identity=False):
    """None if P is a valid element of <G> \\ {O} (SEC 1 3.2.2.1), else the reason."""
    if P is None:
        return None if allow_identity else "identity"
    x, y = P
    if not (0 <= x < g.p and 0 <= y < g.p):
        return "coordinate-range"
    if not g.E.on_curve(P):
        return "off-curve"
    if g.h != 1 and g.E.mul(g.n, P) is not None:
        return "outside-subgroup"
    return None


def compress(g, P):
    if g.compress_fn is not None:
        return g.compress_fn(P)
    if P is None:
        return b"\x00"
    return bytes([2 | (P[1] & 1)]) + i2osp(P[0], g.fbytes)


def bits2int(digest, nbits):
    """leftmost min(8 * len, nbits) bits of the digest as an integer (FIPS 186-4 6.4, SEC 1 4.1.3 step 5)"""
    e = os2ip(digest)
    extra = 8 * len(digest) - nbits
    return e >> extra if extra > 0 else e


# ------------------------------------------------------------------------------------------- ECDSA

def ecdsa_sign(g, d, k, digest):
    """(r, s) or None if this k is to be rejected (r == 0 or s == 0)."""
    n = g.n
    if not 1 <= k < n:
        return None
    R = g.mul_g(k)
    r = R[0] % n
    if r == 0:
        return None
    e = bits2int(digest, n.bit_length())
    s = pow(k, -1, n) * (e + d * r) % n
    if s == 0:
        return None
    return r, s


def ecdsa_verify(g, Q, r, s, digest):
    """(verdict, reason)"""
    n = g.n
    bad = point_defect(g, Q)
    if bad:
        return False, "key:" + bad
    if not 1 <= r < n:
        return False, "r-range"
    if not 1 <= s < n:
        return False, "s-range"
    e = bits2int(digest, n.bit_length())
    w = pow(s, -1, n)
    u1, u2 = e * w % n, r * w % n
    R = g.E.add(g.mul_g(u1), g.E.mul(u2, Q))
    if R is None:
        return False, "R=O"
    if R[0] % n == r:
        return True, "ok"
    return False, "equation"


# ---------------------------------------------------------------------------------------- EC-Schnorr

def ecss_challenge(g, msg, r, H):
    e = bits2int(H(bytes(msg) + i2osp(r, g.fbytes)), g.n.bit_length())
    return e % g.n


def ecss_sign(g, d, k, msg, H):
    n = g.n
    if not 1 <= k < n:
        return None
    r = g.mul_g(k)[0] % n
    if r == 0:
        return None
    e = ecss_challenge(g, msg, r, H)
    return e, (k - d * e) % n


def ecss_verify(g, Q, e, s, msg, H):
    n = g.n
    bad = point_defect(g, Q)
    if bad:
        return False, "key:" + bad
    if not 0 <= e < n:
        return False, "e-range"
    if not 1 <= s < n:
        return False, "s-range"
    R = g.E.add(g.mul_g(s), g.E.mul(e, Q))
    if R is None:
        return False, "R=O"
    r = R[0] % n
    if r == 0:
        return False, "r=0"
    if ecss_challenge(g, msg, r, H) == e:
        return True, "ok"
    return False, "equation"


# ----------------------------------------------------------------------------------------------- RSA

DIGEST_INFO = {   # RFC 8017 section 9.2, note 1
    "SH224": bytes.fromhex("302d300d06096086480165030402040500041c"),
    "SH256": bytes.fromhex("3031300d060960864801650304020105000420"),
    "SH384": bytes.fromhex("3041300d060960864801650304020205000430"),
    "SH512": bytes.fromhex("3051300d060960864801650304020305000440"),
    "SHA1": bytes.fromhex("3021300906052b0e03021a05000414"),
}


def mgf1(seed, length, H):
    out = b""
    c = 0
    while len(out) < length:
        out += H(seed + i2osp(c, 4))
        c += 1
    return out[:length]


def emsa_pss_encode(mhash, embits, H, hlen, salt=b""):
    """RFC 8017 9.1.1 from step 3 on (mHash given). Returns EM (emLen bytes) or None ('encoding error')."""
    emlen = (embits + 7) // 8
    if emlen < hlen + len(salt) + 2:
        return None
    h = H(bytes(8) + mhash + salt)
    db = bytes(emlen - len(salt) - hlen - 2) + b"\x01" + salt
    mask = mgf1(h, emlen - hlen - 1, H)
    mdb = bytearray(a ^ b for a, b in zip(db, mask))
    mdb[0] &= 0xFF >> (8 * emlen - embits)
    return bytes(mdb) + h + b"\xbc"


def emsa_pss_verify(mhash, em, embits, H, hlen, slen=0):
    """RFC 8017 9.1.2 from step 3 on: (consistent?, failing step)"""
    emlen = (embits + 7) // 8
    if len(em) != emlen:
        return False, "emLen"
    if emlen < hlen + slen + 2:
        return False, "step3:emLen too small"
    if em[-1] != 0xBC:
        return False, "step4:trailer"
    mdb, h = em[:emlen - hlen - 1], em[emlen - hlen - 1:emlen - 1]
    zbits = 8 * emlen - embits
    if zbits and mdb[0] >> (8 - zbits):
        return False, "step6:leftmost bits of maskedDB"
    mask = mgf1(h, emlen - hlen - 1, H)
    db = bytearray(a ^ b for a, b in zip(mdb, mask))
    db[0] &= 0xFF >> zbits
    ps = emlen - hlen - slen - 2
    if any(db[:ps]) or db[ps] != 0x01:
        return False, "step10:PS / 0x01 separator"
    salt = bytes(db[len(db) - slen:]) if slen else b""
    if H(bytes(8) + mhash + salt) != h:
        return False, "step14:H"
    return True, "ok"


def rsa_pss_sign(n, d, mhash, H, hlen, salt=b""):
    modbits = n.bit_length()
    em = emsa_pss_encode(mhash, modbits - 1, H, hlen, salt)
    if em is None:
        return None
    return i2osp(pow(os2ip(em), d, n), (modbits + 7) // 8)


def _rsavp1(n, e, sig):
    """steps 1-2a of 8.1.2 / 8.2.2: length check, OS2IP, range check, RSAVP1. Returns (m, None) or (None, reason)."""
    k = (n.bit_length() + 7) // 8
    if len(sig) != k:
        return None, "length"
    s = os2ip(sig)
    if s >= n:
        return None, "representative out of range"
    return pow(s, e, n), None


def rsa_pss_verify(n, e, sig, mhash, H, hlen, slen=0):
    m, why = _rsavp1(n, e, bytes(sig))
    if m is None:
        return False, why
    embits = n.bit_length() - 1
    emlen = (embits + 7) // 8
    if m >> (8 * emlen):
        return False, "I2OSP: integer too large"
    return emsa_pss_verify(mhash, i2osp(m, emlen), embits, H, hlen, slen)


def emsa_pkcs1_v15_encode(digest, emlen, hname):
    t = DIGEST_INFO[hname] + digest
    if emlen < len(t) + 11:
        return None
    return b"\x00\x01" + b"\xff" * (emlen - len(t) - 3) + b"\x00" + t


def rsa_pkcs1_sign(n, d, digest, hname):
    k = (n.bit_length() + 7) // 8
    em = emsa_pkcs1_v15_encode(digest, k, hname)
    if em is None:
        return None
    return i2osp(pow(os2ip(em), d, n), k)


def rsa_pkcs1_verify(n, e, sig, digest, hname):
    """8.2.2: encode the expected EM and compare."""
    m, why = _rsavp1(n, e, bytes(sig))
    if m is None:
        return False, why
    k = (n.bit_length() + 7) // 8
    em = emsa_pkcs1_v15_encode(digest, k, hname)
    if em is None:
        return False, "modulus too short"
    return (i2osp(m, k) == em), "EM comparison"


def em_type1_raw(data, emlen):
    """block type 1 without DigestInfo: 00 01 FF..FF 00 D (what the library documents for pre-hashed PKCS#1 input)"""
    if emlen < len(data) + 11:
        return None
    return b"\x00\x01" + b"\xff" * (emlen - len(data) - 3) + b"\x00" + data


def em_basic(data, emlen):
    """RELIC's BASIC block as documented in relic_cp_rsa.c: 00 .. 00 | FF | D"""
    if emlen < len(data) + 2:
        return None
    return bytes(emlen - len(data) - 1) + b"\xff" + data


def rsa_em_sign(n, d, em):
    k = (n.bit_length() + 7) // 8
    return i2osp(pow(os2ip(em), d, n), k)


def rsa_em_verify(n, e, sig, em):
    """generic 'encode and compare' verification against an expected k-byte block"""
    m, why = _rsavp1(n, e, bytes(sig))
    if m is None:
        return False, why
    k = (n.bit_length() + 7) // 8
    return (em is not None and i2osp(m, k) == em), "EM comparison"


def rsa_key_defect(key):
    """Consistency of a generated key (n, e, d, p, q, dp, dq, qi): None or a description."""
    import math
    from sympy import isprime
    n, e, d, p, q, dp, dq, qi = (key[k] for k in ("n", "e", "d", "p", "q", "dp", "dq", "qi"))
    if p * q != n:
        return "n != p q"
    if p == q:
        return "p == q"
    if not isprime(p) or not isprime(q):
        return "p or q is not prime"
    lam = (p - 1) * (q - 1) // math.gcd(p - 1, q - 1)
    if e * d % lam != 1:
        return "e d != 1 mod lcm(p-1, q-1)"
    if dp != d % (p - 1) or dq != d % (q - 1):
        return "dP / dQ wrong"
    if qi * q % p != 1:
        return "qInv wrong"
    return None


# ------------------------------------------------------------------------------------------ vBNN-IBS

def hash_to_zn(g, data, H):
    return os2ip(H(data)) % g.n


def vbnn_extract(g, x, r, idb, H):
    """user key for identity idb: (R, s)"""
    R = g.mul_g(r)
    return R, (r + hash_to_zn(g, bytes(idb) + compress(g, R), H) * x) % g.n


def vbnn_sign(g, R, s, y, idb, msg, H):
    Y = g.mul_g(y)
    h = hash_to_zn(g, bytes(idb) + bytes(msg) + compress(g, R) + compress(g, Y), H)
    return R, (y + h * s) % g.n, h


def vbnn_verify(g, mpk, R, z, h, idb, msg, H):
    n = g.n
    bad = point_defect(g, mpk)
    if bad:
        return False, "mpk:" + bad
    bad = point_defect(g, R)
    if bad:
        return False, "R:" + bad
    if not 0 <= z < n:
        return False, "z-range"
    if not 0 <= h < n:
        return False, "h-range"
    c = hash_to_zn(g, bytes(idb) + compress(g, R), H)
    T = g.E.add(R, g.E.mul(c, mpk))
    Z = g.E.sub(g.mul_g(z), g.E.mul(h, T))
    if hash_to_zn(g, bytes(idb) + bytes(msg) + compress(g, R) + compress(g, Z), H) == h:
        return True, "ok"
    return False, "equation"


# ----------------------------------------------------------------------------------------- PoK / SoK

def _pad(b, size):
    return b + bytes(size - len(b))


def zk_dl_challenge(g, msg, B, Y, T, H):
    """c = H(m || B || Y || T) mod n; the three points occupy a zero-padded block of 3 (fbytes + 1) bytes"""
    blk = _pad(compress(g, B) + compress(g, Y) + compress(g, T), 3 * (g.fbytes + 1))
    return hash_to_zn(g, bytes(msg) + blk, H)


def zk_dl_prove(g, x, v, Y, msg, H):
    c = zk_dl_challenge(g, msg, g.G, Y, g.mul_g(v), H)
    return c, (v - c * x) % g.n


def zk_dl_verify(g, c, r, Y, msg, H):
    n = g.n
    bad = point_defect(g, Y, allow_identity=True)
    if bad:
        return False, "Y:" + bad
    if not 0 <= c < n:
        return False, "c-range"
    if not 0 <= r < n:
        return False, "r-range"
    T = g.E.add(g.mul_g(r), g.E.mul(c, Y))
    if zk_dl_challenge(g, msg, g.G, Y, T, H) == c:
        return True, "ok"
    return False, "equation"


def zk_or_hash(g, msg, Bs, Ys, Ts, H):
    blk = b"".join(compress(g, Bs[i]) + compress(g, Ys[i]) + compress(g, Ts[i]) for i in range(2))
    return hash_to_zn(g, bytes(msg) + _pad(blk, 6 * (g.fbytes + 1)), H)


def zk_or_prove(g, x, known, Ys, Bs, cfake, vs, msg, H):
    """OR-proof for Ys[known] = [x]Bs[known]; cfake is the simulated challenge of the other branch."""
    n = g.n
    other = 1 - known
    Ts = [None, None]
    Ts[other] = g.lincomb(vs[other], Bs[other], cfake, Ys[other])
    Ts[known] = g.E.mul(vs[known], Bs[known])
    z = zk_or_hash(g, msg, Bs, Ys, Ts, H)
    c = [0, 0]
    r = [0, 0]
    c[other] = cfake % n
    c[known] = (z - cfake) % n
    r[other] = vs[other] % n
    r[known] = (vs[known] - c[known] * x) % n
    return c, r


def zk_or_verify(g, cs, rs, Ys, Bs, msg, H):
    n = g.n
    for i in range(2):
        bad = point_defect(g, Ys[i], allow_identity=True)
        if bad:
            return False, "Y%d:%s" % (i, bad)
        bad = point_defect(g, Bs[i])
        if bad:
            return False, "G%d:%s" % (i, bad)
        if not 0 <= cs[i] < n:
            return False, "c-range"
        if not 0 <= rs[i] < n:
            return False, "r-range"
    Ts = [g.lincomb(rs[i], Bs[i], cs[i], Ys[i]) for i in range(2)]
    if (zk_or_hash(g, msg, Bs, Ys, Ts, H) - cs[0] - cs[1]) % n == 0:
        return True, "ok"
    return False, "equation"


# ------------------------------------------------------------------------------------------ self-test

def _p256():
    p = 0xFFFFFFFF00000001000000000000000000000000FFFFFFFFFFFFFFFFFFFFFFFF
    b = 0x5AC635D8AA3A93E7B3EBBD55769886BC651D06B0CC53B0F63BCE3C3E27D2604B
    G = (0x6B17D1F2E12C4247F8BCE6E563A440F277037D812DEB33A0F4A13945D898C296,
         0x4FE342E2FE1A7F9B8EE7EB4A7C0F9E162BCE33576B315ECECBB6406837BF51F5)
    n = 0xFFFFFFFF00000000FFFFFFFFFFFFFFFFBCE6FAADA7179E84F3B9CAC2FC632551
    return Group(rec.Curve(rec.PrimeField(p), p - 3, b), G, n, 1, p)


def self_test():
    sha1 = lambda m: hashlib.sha1(m).digest()
    sha256 = lambda m: hashlib.sha256(m).digest()
    sha512 = lambda m: hashlib.sha512(m).digest()
    # --- ECDSA, RFC 6979 appendix A.2.5 (NIST P-256), keys / k / signatures as published
    g = _p256()
    d = 0xC9AFA9D845BA75166B5C215767B1D6934E50C3DB36E89B127B8A622B120F6721
    Q = (0x60FED4BA255A9D31C961EB74C6356D68C049B8923B61FA6CE669622E60F29FB6,
         0x7903FE1008B8BC99A41AE9E95628BC64F2F1B20C2D7E9F5177A3C294D4462299)
    assert g.mul_g(d) == Q and g.E.mul(d, g.G) == Q
    vec = [
        (sha256, b"sample", 0xA6E3C57DD01ABE90086538398355DD4C3B17AA873382B0F24D6129493D8AAD60,
         0xEFD48B2AACB6A8FD1140DD9CD45E81D69D2C877B56AAF991C34D0EA84EAF3716,
         0xF7CB1C942D657C41D436C7A1B6E29F65F3E900DBB9AFF4064DC4AB2F843ACDA8),
        (sha256, b"test", 0xD16B6AE827F17175E040871A1C7EC3500192C4C92677336EC2537ACAEE0008E0,
         0xF1ABB023518351CD71D881567B1EA663ED3EFCF6C5132B354F28D3B0B7D38367,
         0x019F4113742A2B14BD25926B49C649155F267E60D3814B4C0CC84250E46F0083),
        # digest longer than the order: leftmost 256 bits of SHA-512
        (sha512, b"sample", 0x5FA81C63109BADB88C1F367B47DA606DA28CAD69AA22C4FE6AD7DF73A7173AA5,
         0x8496A60B5E9B47C825488827E0495B0E3FA109EC4568FD3F8D1097678EB97F00,
         0x2362AB1ADBE2B8ADF9CB9EDAB740EA6049C028114F2460F96554F61FAE3302FE),
        # digest shorter than the order: SHA-1
        (sha1, b"sample", 0x882905F1227FD620FBF2ABF21244F0BA83D0DC3A9103DBBEE43A1FB858109DB4,
         0x61340C88C3AAEBEB4F6D667F672CA9759A6CCAA9FA8811313039EE4A35471D32,
         0x6D7F147DAC089441BB2E2FE8F7A3FA264B9C475098FDCF6E00D7C996E1B8B7EB),
    ]
    for H, msg, k, r, s in vec:
        dig = H(msg)
        assert ecdsa_sign(g, d, k, dig) == (r, s), "ECDSA signing vector"
        assert ecdsa_verify(g, Q, r, s, dig) == (True, "ok")
        assert ecdsa_verify(g, Q, r, g.n - s, dig)[0] is True            # (r, n - s) is the other valid signature
        assert ecdsa_verify(g, Q, r, s, H(msg + b"x"))[0] is False
        assert ecdsa_verify(g, Q, r + g.n, s, dig) == (False, "r-range")
        assert ecdsa_verify(g, Q, r, s + g.n, dig) == (False, "s-range")
        assert ecdsa_verify(g, Q, 0, s, dig)[0] is False and ecdsa_verify(g, Q, r, 0, dig)[0] is False
        assert ecdsa_verify(g, None, r, s, dig) == (False, "key:identity")
        assert ecdsa_verify(g, (Q[0], Q[1] ^ 1), r, s, dig) == (False, "key:off-curve")
        assert ecdsa_verify(g, g.E.neg(Q), r, s, dig)[0] is False
    assert bits2int(b"\xff\xff", 12) == 0xFFF and bits2int(b"\x12\x34", 16) == 0x1234 and bits2int(b"\x12", 16) == 0x12
    assert bits2int(b"", 256) == 0
    # --- Schnorr variant: algebraic self-consistency on P-256 (no published vectors exist for this variant)
    for k in (1, 2, 0x1234567, g.n - 1):
        e, s = ecss_sign(g, d, k, b"abc", sha256)
        if s:
            assert ecss_verify(g, Q, e, s, b"abc", sha256) == (True, "ok")
            assert ecss_verify(g, Q, e, s, b"abd", sha256)[0] is False
            assert ecss_verify(g, Q, e, s + g.n, b"abc", sha256) == (False, "s-range")
            assert ecss_verify(g, Q, (e + 1) % g.n, s, b"abc", sha256)[0] is False
    # --- MGF1 (vectors of the MGF1 article / PKCS#1 test suites)
    assert mgf1(b"foo", 3, sha1).hex() == "1ac907"
    assert mgf1(b"foo", 5, sha1).hex() == "1ac9075cd4"
    assert mgf1(b"bar", 5, sha1).hex() == "bc0c655e01"
    assert mgf1(b"bar", 50, sha256).hex() == ("382576a7841021cc28fc4c0948753fb8312090cea942ea4c4e735d10dc724b155f9f6069"
                                            "f289d61daca0cb814502ef04eae1")
    # --- RSA encodings: structure per RFC 8017 on a toy key built from two known primes
    p_, q_ = 2 ** 127 - 1, 2 ** 521 - 1
    n_, e_ = p_ * q_, 65537
    d_ = pow(e_, -1, (p_ - 1) * (q_ - 1))
    mh = sha256(b"message")
    for salt in (b"", b"\x01\x02\x03"):
        sig = rsa_pss_sign(n_, d_, mh, sha256, 32, salt)
        assert rsa_pss_verify(n_, e_, sig, mh, sha256, 32, len(salt)) == (True, "ok")
        assert rsa_pss_verify(n_, e_, sig, sha256(b"other"), sha256, 32, len(salt))[0] is False
        assert rsa_pss_verify(n_, e_, b"\x00" + sig, mh, sha256, 32, len(salt)) == (False, "length")
        big = i2osp(os2ip(sig) + n_, len(sig)) if (os2ip(sig) + n_).bit_length() <= 8 * len(sig) else None
        if big:
            assert rsa_pss_verify(n_, e_, big, mh, sha256, 32, len(salt)) == (False, "representative out of range")
    em = emsa_pss_encode(mh, n_.bit_length() - 1, sha256, 32)
    assert em[-1] == 0xBC and len(em) == (n_.bit_length() - 1 + 7) // 8
    assert emsa_pss_verify(mh, em, n_.bit_length() - 1, sha256, 32) == (True, "ok")
    assert emsa_pss_verify(mh, em[:-1] + b"\xcc", n_.bit_length() - 1, sha256, 32)[1].startswith("step4")
    top = bytes([em[0] | 0x80]) + em[1:]
    assert emsa_pss_verify(mh, top, n_.bit_length() - 1, sha256, 32)[1].startswith("step6")
    sig = rsa_pkcs1_sign(n_, d_, mh, "SH256")
    assert rsa_pkcs1_verify(n_, e_, sig, mh, "SH256")[0] is True
    assert rsa_pkcs1_verify(n_, e_, sig, sha256(b"x"), "SH256")[0] is False
    em = emsa_pkcs1_v15_encode(mh, 81, "SH256")
    assert em[:2] == b"\x00\x01" and em[2:2 + 81 - 54] == b"\xff" * 27 and em[29] == 0 and em[30:49] == DIGEST_INFO["SH256"]
    assert emsa_pkcs1_v15_encode(mh, 61, "SH256") is None and emsa_pkcs1_v15_encode(mh, 62, "SH256") is not None
    assert em_basic(b"\x01\x02", 6) == b"\x00\x00\x00\xff\x01\x02"
    assert em_type1_raw(b"\xaa", 12) == b"\x00\x01" + b"\xff" * 8 + b"\x00\xaa"
    # --- vBNN-IBS, PoK, SoK: completeness and sensitivity of the reference equations
    x, r0, y0 = 0x1111, 0x2222, 0x3333
    P0 = g.mul_g(x)
    R, sk = vbnn_extract(g, x, r0, b"alice", sha256)
    R, z, h = vbnn_sign(g, R, sk, y0, b"alice", b"msg", sha256)
    assert vbnn_verify(g, P0, R, z, h, b"alice", b"msg", sha256) == (True, "ok")
    assert vbnn_verify(g, P0, R, z, h, b"bob", b"msg", sha256)[0] is False
    assert vbnn_verify(g, P0, R, z + g.n, h, b"alice", b"msg", sha256) == (False, "z-range")
    c, rr = zk_dl_prove(g, x, 0x4444, P0, b"", sha256)
    assert zk_dl_verify(g, c, rr, P0, b"", sha256) == (True, "ok")
    assert zk_dl_verify(g, c, (rr + 1) % g.n, P0, b"", sha256)[0] is False
    assert zk_dl_verify(g, c, rr, P0, b"m", sha256)[0] is False
    Y1 = g.mul_g(0x9999)
    for known in (0, 1):
        Ys = [Y1, Y1]
        Ys[known] = P0
        cs, rs = zk_or_prove(g, x, known, Ys, [g.G, g.G], 0x5555, [0x6666, 0x7777], b"m", sha256)
        assert zk_or_verify(g, cs, rs, Ys, [g.G, g.G], b"m", sha256) == (True, "ok")
        assert zk_or_verify(g, cs, rs, Ys, [g.G, g.G], b"n", sha256)[0] is False
        assert zk_or_verify(g, cs[::-1], rs, Ys, [g.G, g.G], b"m", sha256)[0] is False
    assert compress(g, None) == b"\x00" and compress(g, g.G)[0] == 3 and len(compress(g, g.G)) == 33

"""Reference models for the integer-based public-key encryption schemes (C06 part A).

Written from the standards / papers, not from RELIC's code:

* RSAES-OAEP and RSAES-PKCS1-v1_5: RFC 8017 (PKCS #1 v2.2) sections 7.1, 7.2, B.2.1 (MGF1), 4.1/4.2 (I2OSP/OS2IP),
  5.1 (RSAEP/RSADP incl. the range check on the ciphertext representative).
* "BASIC" padding: RELIC-specific; the only documentation is the source comment `EB = 00 | FF | D` (the encryption
  block is k bytes long, so the comment is read as: leading zero byte(s), one 0xFF marker, the data).
* Rabin: M. O. Rabin 1979 (c = m^2 mod n, p = q = 3 mod 4, four roots by CRT) with the redundancy RELIC documents in its
  source comment `EB = 00 | FF || D || SUFFIX` where SUFFIX repeats the last 8 bytes of `FF || D`.
* Benaloh: J. Benaloh, "Dense probabilistic encryption" (SAC 1994): c = y^m u^r mod n, decryption by comparing
  c^(phi/r) with powers of y^(phi/r).
* Paillier: P. Paillier, EUROCRYPT 1999, Scheme 1 with g = n + 1: c = g^m r^n mod n^2,
  m = L(c^lambda mod n^2) / L(g^lambda mod n^2) mod n, L(u) = (u - 1) / n; Scheme 3 (subgroup variant):
  g of order alpha*n, c = g^(m + n r) mod n^2, m = L(c^alpha mod n^2) / L(g^alpha mod n^2) mod n.
* Damgard-Jurik, PKC 2001: c = (1+n)^m r^(n^s) mod n^(s+1); plaintext extraction by the paper's iterative algorithm
  (division by k! is a modular inverse).
"""
import hashlib
from math import gcd


class DecryptionError(Exception):
    """The standard's 'decryption error' (a single undistinguished failure)."""


# ------------------------------------------------------------------------------------ octet strings

def i2osp(x, n):
    if x < 0 or x >= 256 ** n:
        raise ValueError("integer too large")
    return x.to_bytes(n, "big")


def os2ip(b):
    return int.from_bytes(b, "big")


def byte_len(n):
    return (n.bit_length() + 7) // 8


def _xor(a, b):
    assert len(a) == len(b)
    return bytes(x ^ y for x, y in zip(a, b))


def mgf1(seed, length, hash=hashlib.sha256):
    """RFC 8017 B.2.1."""
    out = b""
    counter = 0
    while len(out) < length:
        out += hash(seed + counter.to_bytes(4, "big")).digest()
        counter += 1
    return out[:length]


# ------------------------------------------------------------------------------------ RSAES-OAEP

def oaep_max_len(k, hash=hashlib.sha256):
    return k - 2 * hash().digest_size - 2


def oaep_encode(m, k, seed, label=b"", hash=hashlib.sha256, lhash=None, sep=b"\x01", y=b"\x00", ps=None):
    """EME-OAEP encoding (RFC 8017 7.1.1 step 2). lhash/sep/y/ps override the standard's values to build
    deliberately broken encodings."""
    hlen = hash().digest_size
    if ps is None:
        if len(m) > k - 2 * hlen - 2:
            raise ValueError("message too long")
        ps = bytes(k - len(m) - 2 * hlen - 2)
    if len(seed) != hlen:
        raise ValueError("seed length")
    lh = hash(label).digest() if lhash is None else lhash
    db = lh + ps + sep + m
    if len(db) != k - hlen - 1:
        raise ValueError("DB length")
    masked_db = _xor(db, mgf1(seed, k - hlen - 1, hash))
    masked_seed = _xor(seed, mgf1(masked_db, hlen, hash))
    return y + masked_seed + masked_db


def oaep_decode(em, k, label=b"", hash=hashlib.sha256):
    """EME-OAEP decoding (RFC 8017 7.1.2 step 3)."""
    hlen = hash().digest_size
    if len(em) != k or k < 2 * hlen + 2:
        raise DecryptionError("length")
    y, masked_seed, masked_db = em[0], em[1:1 + hlen], em[1 + hlen:]
    seed = _xor(masked_seed, mgf1(masked_db, hlen, hash))
    db = _xor(masked_db, mgf1(seed, k - hlen - 1, hash))
    lh, rest = db[:hlen], db[hlen:]
    i = 0
    while i < len(rest) and rest[i] == 0:
        i += 1
    if y != 0:
        raise DecryptionError("Y != 0")
    if lh != hash(label).digest():
        raise DecryptionError("lHash")
    if i == len(rest) or rest[i] != 1:
        raise DecryptionError("no 0x01 separator")
    return rest[i + 1:]


# ------------------------------------------------------------------------------------ RSAES-PKCS1-v1_5

def v15_max_len(k):
    return k - 11


def v15_encode(m, k, ps, bt=b"\x02", y=b"\x00", sep=b"\x00"):
    """EME-PKCS1-v1_5 (RFC 8017 7.2.1 step 2): EM = 00 | 02 | PS | 00 | M, PS = k - mLen - 3 non-zero octets.
    bt / y / sep and a PS of another length build broken encodings (the caller keeps the total at k)."""
    em = y + bt + ps + sep + m
    if len(em) != k:
        raise ValueError("EM length")
    return em


def v15_decode(em, k):
    """RFC 8017 7.2.2 step 3."""
    if len(em) != k or k < 11:
        raise DecryptionError("length")
    if em[0] != 0 or em[1] != 2:
        raise DecryptionError("header")
    z = em.find(b"\x00", 2)
    if z < 0:
        raise DecryptionError("no separator")
    if z - 2 < 8:
        raise DecryptionError("PS shorter than 8")
    return em[z + 1:]


# ------------------------------------------------------------------------------------ RELIC "BASIC" padding

def basic_max_len(k):
    return k - 2


def basic_encode(m, k):
    """EB = 00 | FF | D as a k-byte block (leading zeros up to the marker)."""
    if len(m) > k - 2:
        raise ValueError("message too long")
    return bytes(k - len(m) - 1) + b"\xff" + m


def basic_decode(em, k):
    if len(em) != k or em[0] != 0:
        raise DecryptionError("first byte")
    i = 0
    while i < k and em[i] == 0:
        i += 1
    if i == k or em[i] != 0xFF:
        raise DecryptionError("marker")
    return em[i + 1:]


PADDINGS = {
    # name: (max_len(k), decode(em, k))
    "pkcs2": (oaep_max_len, oaep_decode),
    "pkcs1": (v15_max_len, v15_decode),
    "basic": (basic_max_len, basic_decode),
}


# ------------------------------------------------------------------------------------ RSA primitives

def rsaep(n, e, em):
    m = os2ip(em)
    if m >= n:
        raise ValueError("message representative out of range")
    return i2osp(pow(m, e, n), byte_len(n))


def rsa_decrypt(n, d, c, padding):
    """RSAES-*-DECRYPT: length check, RSADP with its range check, then the padding's decoding. Returns M or raises
    DecryptionError."""
    k = byte_len(n)
    if len(c) != k:
        raise DecryptionError("ciphertext length")
    ci = os2ip(c)
    if ci >= n:
        raise DecryptionError("ciphertext representative out of range")
    em = i2osp(pow(ci, d, n), k)
    return PADDINGS[padding][1](em, k)


def rsa_private_ok(n, e, d, p, q, dp, dq, qi):
    """Consistency of an RSA private key (RFC 8017 3.2)."""
    return (p * q == n and e * d % ((p - 1) * (q - 1) // gcd(p - 1, q - 1)) == 1 and dp == d % (p - 1)
            and dq == d % (q - 1) and qi * q % p == 1)


# ------------------------------------------------------------------------------------ Rabin

RABIN_RED = 8


def rabin_max_len(k):
    return k - RABIN_RED - 2


def rabin_encode(m, marker=0xFF):
    """integer value of 00 | FF | D | SUFFIX (SUFFIX = last 8 bytes of FF | D, zero-extended on the left)."""
    x = (marker << (8 * len(m))) | os2ip(m)
    return (x << (8 * RABIN_RED)) | (x & ((1 << (8 * RABIN_RED)) - 1))


def rabin_encrypt(n, m):
    k = byte_len(n)
    if not 1 <= len(m) <= rabin_max_len(k):
        raise ValueError("message length")
    return i2osp(pow(rabin_encode(m), 2, n), k)


def rabin_roots(p, q, c):
    """All square roots of c modulo n = p q for p = q = 3 (mod 4); [] when c is not a square."""
    assert p % 4 == 3 and q % 4 == 3
    rp = pow(c, (p + 1) // 4, p)
    rq = pow(c, (q + 1) // 4, q)
    if (rp * rp - c) % p or (rq * rq - c) % q:
        return []
    n = p * q
    qi = pow(q, -1, p)
    out = set()
    for a in (rp, p - rp):
        for b in (rq, q - rq):
            out.add((b + q * (((a - b) * qi) % p)) % n)
    return sorted(out)


def rabin_decrypt(p, q, c_int):
    """Returns the list of messages D of the roots that carry the documented redundancy and structure (a unique
    element for honest ciphertexts; [] means reject)."""
    k = byte_len(p * q)
    out = []
    mask = (1 << (8 * RABIN_RED)) - 1
    for r in rabin_roots(p, q, c_int % (p * q)):
        if (r & mask) != ((r >> (8 * RABIN_RED)) & mask):
            continue
        x = r >> (8 * RABIN_RED)           # 00 | FF | D
        xb = i2osp(x, k - RABIN_RED)
        if xb[0] != 0:
            continue
        i = 0
        while i < len(xb) and xb[i] == 0:
            i += 1
        if i == len(xb) or xb[i] != 0xFF:
            continue
        out.append(xb[i + 1:])
    return out


# ------------------------------------------------------------------------------------ Benaloh

def benaloh_key_ok(p, q, y, t):
    """t | p-1, gcd(t, (p-1)/t) = 1, gcd(t, q-1) = 1, y^(phi/t) != 1 (t prime)."""
    n = p * q
    phi = (p - 1) * (q - 1)
    return ((p - 1) % t == 0 and gcd(t, (p - 1) // t) == 1 and gcd(t, q - 1) == 1 and pow(y, phi // t, n) != 1)


def benaloh_encrypt(n, y, t, m, u):
    return pow(y, m, n) * pow(u, t, n) % n


def benaloh_decrypt(p, q, y, t, c):
    n = p * q
    e = (p - 1) * (q - 1) // t
    a = pow(c, e, n)
    x = pow(y, e, n)
    z = 1
    for m in range(t):
        if z == a:
            return m
        z = z * x % n
    raise DecryptionError("not in the subgroup generated by y^(phi/t)")


# ------------------------------------------------------------------------------------ Paillier

def _L(u, n):
    if (u - 1) % n:
        raise DecryptionError("L-function argument is not 1 mod n")
    return (u - 1) // n


def paillier_encrypt(n, m, r):
    n2 = n * n
    return pow(n + 1, m, n2) * pow(r, n, n2) % n2


def paillier_decrypt(p, q, c):
    n = p * q
    n2 = n * n
    lam = (p - 1) * (q - 1) // gcd(p - 1, q - 1)
    if gcd(c, n) != 1:
        raise DecryptionError("ciphertext not a unit")
    mu = pow(_L(pow(n + 1, lam, n2), n), -1, n)
    return _L(pow(c, lam, n2), n) * mu % n


def paillier_add(n, c, d):
    return c * d % (n * n)


def paillier_sub_decrypt(n, alpha, g, c):
    """Paillier Scheme 3: m = L(c^alpha) / L(g^alpha) mod n."""
    n2 = n * n
    if gcd(c, n) != 1:
        raise DecryptionError("ciphertext not a unit")
    den = _L(pow(g, alpha, n2), n)
    if gcd(den, n) != 1:
        raise DecryptionError("g^alpha has no invertible L value: g does not have order alpha*n")
    return _L(pow(c, alpha, n2), n) * pow(den, -1, n) % n


# ------------------------------------------------------------------------------------ Damgard-Jurik

def dj_encrypt(n, s, m, r):
    ns1 = n ** (s + 1)
    return pow(n + 1, m, ns1) * pow(r, n ** s, ns1) % ns1


def dj_dlog(n, s, a):
    """Given a = (1+n)^i mod n^(s+1) returns i mod n^s (Damgard-Jurik 2001, section 3)."""
    i = 0
    for j in range(1, s + 1):
        nj = n ** j
        t1 = _L(a % (n ** (j + 1)), n)
        t2 = i
        kfact = 1
        for k in range(2, j + 1):
            i -= 1
            kfact *= k
            t2 = t2 * i % nj
            t1 = (t1 - t2 * n ** (k - 1) * pow(kfact, -1, nj)) % nj
        i = t1 % nj
    return i


def dj_decrypt(n, d, s, c):
    """d is any multiple of lambda(n) that is invertible modulo n^s (RELIC stores phi(n))."""
    ns = n ** s
    if gcd(c, n) != 1:
        raise DecryptionError("ciphertext not a unit")
    i = dj_dlog(n, s, pow(c, d, n ** (s + 1)))
    return i * pow(d, -1, ns) % ns


# ------------------------------------------------------------------------------------ self test

def self_test():
    # MGF1 (vectors as published with the common MGF1 example: seed "foo"/"bar")
    assert mgf1(b"foo", 3, hashlib.sha1).hex() == "1ac907"
    assert mgf1(b"foo", 5, hashlib.sha1).hex() == "1ac9075cd4"
    assert mgf1(b"bar", 5, hashlib.sha1).hex() == "bc0c655e01"
    assert mgf1(b"bar", 50, hashlib.sha1).hex() == (
        "bc0c655e016bc2931d85a2e675181adcef7f581f76df2739da74faac41627be2f7f415c89e983fd0ce80ced9878641cb4876")
    assert mgf1(b"bar", 50, hashlib.sha256).hex() == (
        "382576a7841021cc28fc4c0948753fb8312090cea942ea4c4e735d10dc724b155f9f6069f289d61daca0cb814502ef04eae1")

    # RSAES-OAEP: RSA Laboratories oaep-vect.txt, Example 1.1 (1024-bit key, SHA-1, empty label)
    n = int("a8b3b284af8eb50b387034a860f146c4919f318763cd6c5598c8ae4811a1e0abc4c7e0b082d693a5e7fced675cf4668512772c0c"
            "bc64a742c6c630f533c8cc72f62ae833c40bf25842e984bb78bdbf97c0107d55bdb662f5c4e0fab9845cb5148ef7392dd3aaff93"
            "ae1e6b667bb3d4247616d4f5ba10d4cfd226de88d39f16fb", 16)
    e = 0x10001
    d = int("53339cfdb79fc8466a655c7316aca85c55fd8f6dd898fdaf119517ef4f52e8fd8e258df93fee180fa0e4ab29693cd83b152a553d4a"
            "c4d1812b8b9fa5af0e7f55fe7304df41570926f3311f15c4d65a732c483116ee3d3d2d0af3549ad9bf7cbfb78ad884f84d5beb04"
            "724dc7369b31def37d0cf539e9cfcdd3de653729ead5d1", 16)
    msg = bytes.fromhex("6628194e12073db03ba94cda9ef9532397d50dba79b987004afefe34")
    seed = bytes.fromhex("18b776ea21069d69776a33e96bad48e1dda0a5ef")
    ct = bytes.fromhex("354fe67b4a126d5d35fe36c777791a3f7ba13def484e2d3908aff722fad468fb21696de95d0be911c2d3174f8afcc201"
                       "035f7b6d8e69402de5451618c21a535fa9d7bfc5b8dd9fc243f8cf927db31322d6e881eaa91a996170e657a05a266426"
                       "d98c88003f8477c1227094a0d9fa1e8c4024309ce1ecccb5210035d47ac72e8a")
    k = byte_len(n)
    assert k == 128
    em = oaep_encode(msg, k, seed, hash=hashlib.sha1)
    assert rsaep(n, e, em) == ct
    assert oaep_decode(i2osp(pow(os2ip(ct), d, n), k), k, hash=hashlib.sha1) == msg

    # cross-implementation vectors (produced once with OpenSSL 3.5 `pkeyutl -encrypt`, see NOTES_C06A.md):
    # 768-bit key, OAEP/SHA-256/MGF1-SHA-256/empty label and PKCS#1 v1.5
    for name, ct_hex in XIMPL["ct"].items():
        pad, want = name.split(":")[0], bytes.fromhex(name.split(":")[1])
        got = rsa_decrypt(XIMPL["n"], XIMPL["d"], bytes.fromhex(ct_hex), pad)
        assert got == want, name

    # structure: every decoder inverts its encoder at the boundary lengths and rejects each single defect
    k = 80
    h = hashlib.sha256
    sd = bytes(range(32))
    for ml in (0, 1, oaep_max_len(k) - 1, oaep_max_len(k)):
        m = bytes([0] * (ml // 2)) + bytes([0xC3] * (ml - ml // 2))
        assert oaep_decode(oaep_encode(m, k, sd), k) == m
    m = b"\x00\x01\x02"
    ps = bytes(k - len(m) - 66)
    for bad in (oaep_encode(m, k, sd, lhash=h(b"x").digest()), oaep_encode(m, k, sd, sep=b"\x02"),
                oaep_encode(m, k, sd, y=b"\x01"), oaep_encode(b"", k, sd, sep=b"\x00", ps=bytes(k - 66)),
                oaep_encode(m, k, sd, ps=ps[:-1] + b"\x02")):
        try:
            oaep_decode(bad, k)
        except DecryptionError:
            continue
        raise AssertionError("broken OAEP encoding accepted")
    # a non-zero PS byte equal to 0x01 legitimately moves the separator (longer message)
    assert oaep_decode(oaep_encode(m, k, sd, ps=ps[:-1] + b"\x01"), k) == b"\x01" + m
    try:
        oaep_encode(bytes(oaep_max_len(k) + 1), k, sd)
        raise AssertionError("over-long message encoded")
    except ValueError:
        pass

    k = 32
    for ml in (0, 1, v15_max_len(k) - 1, v15_max_len(k)):
        m = bytes([0] * (ml // 2)) + bytes([0xC3] * (ml - ml // 2))
        assert v15_decode(v15_encode(m, k, b"\x5a" * (k - ml - 3)), k) == m
    m = b"\x11\xaa"
    for bad in (v15_encode(m, k, b"\x5a" * (k - 5), bt=b"\x01"), v15_encode(m, k, b"\x5a" * (k - 5), y=b"\x01"),
                v15_encode(m, k, b"\x5a" * (k - 5), sep=b"\x07"),
                v15_encode(b"\x11" * (k - 10), k, b"\x5a" * 7),            # PS of 7 octets
                v15_encode(b"\x11" * (k - 3), k, b""),                      # empty PS
                v15_encode(b"\x5a" * (k - 9) + b"\x00\x11\x22", k, b"\x5a\x00\x5a")):   # zero inside first 8
        try:
            v15_decode(bad, k)
        except DecryptionError:
            continue
        raise AssertionError("broken v1.5 encoding accepted")
    assert v15_decode(v15_encode(b"\x11" * (k - 11), k, b"\x5a" * 8), k) == b"\x11" * (k - 11)

    for ml in (0, 1, basic_max_len(k)):
        m = bytes([0] * (ml // 2)) + bytes([0xC3] * (ml - ml // 2))
        assert basic_decode(basic_encode(m, k), k) == m
    for bad in (b"\xff" + bytes(k - 1), bytes(k), bytes(3) + b"\xfe" + bytes(k - 4)):
        try:
            basic_decode(bad, k)
        except DecryptionError:
            continue
        raise AssertionError("broken BASIC encoding accepted")

    # Rabin with small Blum primes; all four roots square back to c
    p = 340282366920938463463374607431768211283      # 2^128 - 173, = 3 mod 4
    q = 340282366920938463463374607431768211219      # 2^128 - 237, = 3 mod 4
    from sympy import isprime
    assert isprime(p) and isprime(q) and p % 4 == 3 and q % 4 == 3
    n = p * q
    for m in (b"\x00", b"\x01\x02\x03", b"\x00" * 9 + b"\x07", bytes(range(1, rabin_max_len(byte_len(n)) + 1))):
        c = os2ip(rabin_encrypt(n, m))
        rs = rabin_roots(p, q, c)
        assert len(rs) == 4 and all(r * r % n == c for r in rs)
        assert rabin_decrypt(p, q, c) == [m]
    assert rabin_encode(b"\x01\x02") == 0xFF0102_0000000000FF0102
    assert rabin_encode(bytes(range(1, 10))) == int("ff010203040506070809" "0203040506070809", 16)

    # Benaloh toy example: p = 31 (t = 5 | 30, gcd(5, 6) = 1), q = 23 (gcd(5, 22) = 1)
    p, q, t = 31, 23, 5
    n = p * q
    y = next(y for y in range(2, n) if gcd(y, n) == 1 and benaloh_key_ok(p, q, y, t))
    for m in range(t):
        for u in (1, 2, 3, 100):
            assert benaloh_decrypt(p, q, y, t, benaloh_encrypt(n, y, t, m, u)) == m
    assert benaloh_decrypt(p, q, y, t, benaloh_encrypt(n, y, t, 4, 7) * benaloh_encrypt(n, y, t, 3, 9) % n) == 2

    # Paillier: worked example p = 7, q = 11, (n = 77, g = 78): m = 42, r = 23 and exhaustive small checks
    p, q = 7, 11
    n = 77
    for m in range(n):
        c = paillier_encrypt(n, m, 23)
        assert paillier_decrypt(p, q, c) == m
    c = paillier_add(n, paillier_encrypt(n, 70, 2), paillier_encrypt(n, 30, 3))
    assert paillier_decrypt(p, q, c) == (70 + 30) % 77
    # textbook identity: (1+n)^m = 1 + m n (mod n^2)
    assert pow(n + 1, 42, n * n) == (1 + 42 * n) % (n * n)

    # Damgard-Jurik: s = 1 coincides with Paillier; s = 1..4 exhaustive-ish on a toy modulus, then a 64-bit modulus
    for (p, q) in ((7, 11), (4294967311, 4294967357)):
        n = p * q
        phi = (p - 1) * (q - 1)
        for s in (1, 2, 3, 4):
            ns = n ** s
            for m in (0, 1, 2, n - 1, n % ns, (n + 1) % ns, ns // 2, ns - 2, ns - 1, (ns * 5) // 7, 123456789 % ns):
                c = dj_encrypt(n, s, m, 3)
                assert dj_decrypt(n, phi, s, c) == m, (n, s, m)
                assert dj_dlog(n, s, pow(n + 1, m, n ** (s + 1))) == m
        assert dj_encrypt(n, 1, 5, 9) == paillier_encrypt(n, 5, 9)

    # Paillier scheme 3 on a toy subgroup: p = 23 (p - 1 = 2 * 11), q = 7, alpha = 11; g = (1+n) * h, ord(h) = alpha
    p, q, alpha = 23, 7, 11
    n = p * q
    n2 = n * n
    h = next(pow(x, n * (p - 1) * (q - 1) // alpha, n2) for x in range(2, 50)
             if pow(x, n * (p - 1) * (q - 1) // alpha, n2) != 1)
    g = (1 + n) * h % n2
    assert pow(g, alpha * n, n2) == 1 and pow(g, n, n2) != 1 and pow(g, alpha, n2) != 1
    for m in (0, 1, 50, n - 1):
        for r in (0, 1, 5):
            assert paillier_sub_decrypt(n, alpha, g, pow(g, m + n * r, n2)) == m


# filled from OpenSSL (see NOTES_C06A.md); 768-bit key
XIMPL = {
    "n": int("b5c91cc9abe3fa1eb0719c13042b92ff34c6662a9cc6461d6ca6ae8e7e726bd2a109029b6fba7f6773222ba7d088615e68d3a9740f"
             "171168e7f82ef277f875a34793b5a47d330429451e6a0b9edf989392d1e3be820584b9cda5abda74f7e181", 16),
    "d": int("11f73f561b1bdbe35e92cbd70149812ca1bd9de946373e44b8313cfd2e3806b9f95a579c9f0d327c39dfbdaac72c435b13a16836cb"
             "4fcd2b469fe30d3bb4038f404ac6b4d6fb4b05198bdc5c18846eb81c426698d98f18de811d75ceab2a6575", 16),
    # "<padding>:<plaintext hex>": ciphertext hex
    "ct": {
        "pkcs2:68656c6c6f204f4145500000":
            "aacea521313144b6da6c6b90978e19feceb05bc114b78994daca74abeba3e4f42773ab989304410f9b5115e71718c51a5e8fb0e1"
            "b3d74ae9c70969fa735cbb526f5b35f67c372bf804de52b57468812edb448e81bf5203ded958536a477ecddf",
        "pkcs2:00006c656164":
            "398ebc8ad0bfdcf58d0632e8e5e6f1f990c9b642c359add2255ae104e9f7315dcb8618957db1a387130ec8dec1b18c8c66e58b4c"
            "fcb7174a13a7ede082f765f71ab90d4ef828e301624d72c555f9ccb1c2bc2c9a721a5ea4327a0223d8aa2244",
        "pkcs1:68656c6c6f204f4145500000":
            "ae42425736067f932dcae264243c2ac81873d4c7516bb404ae61dc37882bcc33781d6d29392479465828c3941c067ecfbdca365d"
            "f0a46f3df69ab405795c43e5aefd7bc08728d2cf23d472b2dfdd0bb452d94a9849b9886954cdccb7a8369441",
        "pkcs1:00006c656164":
            "964d9ca1d9099b7d8fcade72593ed2328ee8e2ac93a2b34f73659a25b898f9795f37a261f6e5890880452276fade2831e20e5a85"
            "c58d9c5e5ddca69a703c7b3352172e7c0f7fe06250ee3f6241f899cf68563964fe9f8c65e5ac4cd2130c62e6",
    },
}

"""Reference arithmetic for binary fields GF(2)[z]/(f) and binary curves y^2 + xy = x^3 + a x^2 + b.

Polynomials over GF(2) are Python ints (bit i = coefficient of z^i). Written from the textbook (Lidl-Niederreiter
for Rabin's irreducibility test; Hankerson-Menezes-Vanstone, Guide to ECC, ch. 3 for the curve arithmetic);
nothing is taken from RELIC. The projective (Lopez-Dahab) formulas only serve to make [k]P affordable and are
cross-checked against the affine chord-and-tangent law in self_test()."""

_SPREAD = []
for _i in range(256):
    _v = 0
    for _b in range(8):
        if (_i >> _b) & 1:
            _v |= 1 << (2 * _b)
    _SPREAD.append(_v)


def pdeg(a):
    return a.bit_length() - 1


def pmul(a, b):
    """carry-less product"""
    if a.bit_length() < b.bit_length():
        a, b = b, a
    r = 0
    # 4-bit window over b
    tab = [0, a, a << 1, (a << 1) ^ a]
    tab += [tab[1] << 2, (tab[1] << 2) ^ tab[1], (tab[1] << 2) ^ tab[2], (tab[1] << 2) ^ tab[3]]
    tab += [t ^ (a << 3) for t in tab[:8]]
    sh = 0
    while b:
        w = b & 15
        if w:
            r ^= tab[w] << sh
        b >>= 4
        sh += 4
    return r


def psqr(a):
    r = 0
    sh = 0
    while a:
        r |= _SPREAD[a & 255] << sh
        a >>= 8
        sh += 16
    return r


def pmod(a, f):
    df = pdeg(f)
    da = pdeg(a)
    while da >= df:
        a ^= f << (da - df)
        da = pdeg(a)
    return a


def pdivmod(a, f):
    df = pdeg(f)
    q = 0
    da = pdeg(a)
    while da >= df:
        q |= 1 << (da - df)
        a ^= f << (da - df)
        da = pdeg(a)
    return q, a


def pgcd(a, b):
    while b:
        a, b = b, pmod(a, b)
    return a


def prime_factors(n):
    out, d = [], 2
    while d * d <= n:
        if n % d == 0:
            out.append(d)
            while n % d == 0:
                n //= d
        d += 1
    if n > 1:
        out.append(n)
    return out


def frob_pow(k, f):
    """z^(2^k) mod f"""
    x = pmod(2, f)
    for _ in range(k):
        x = pmod(psqr(x), f)
    return x


def irreducible(f):
    """Rabin's test: f of degree n >= 1 over GF(2) is irreducible iff z^(2^n) = z (mod f) and
    gcd(z^(2^(n/q)) - z, f) = 1 for every prime q | n."""
    n = pdeg(f)
    if n < 1:
        return False
    if n == 1:
        return True
    if not (f & 1):
        return False                       # divisible by z
    stops = sorted({n // q for q in prime_factors(n)})
    x = pmod(2, f)
    z = pmod(2, f)
    k = 0
    for s in stops + [n]:
        while k < s:
            x = pmod(psqr(x), f)
            k += 1
        if s == n:
            return x == z
        if pgcd(x ^ z, f) != 1:
            return False
    return False


def irreducible_benor(f):
    """Ben-Or's test (independent formulation): no factor of degree <= n/2."""
    n = pdeg(f)
    if n < 1:
        return False
    x = pmod(2, f)
    z = x
    for _ in range(n // 2):
        x = pmod(psqr(x), f)
        if pgcd(x ^ z, f) != 1:
            return False
    return True


class GF2m:
    def __init__(self, f):
        self.f = f
        self.m = pdeg(f)
        self.zero, self.one = 0, 1

    def red(self, a):
        return pmod(a, self.f)

    def add(self, a, b):
        return a ^ b

    def mul(self, a, b):
        return pmod(pmul(a, b), self.f)

    def sqr(self, a):
        return pmod(psqr(a), self.f)

    def inv(self, a):
        """extended Euclid over GF(2)[z]"""
        if a == 0:
            raise ZeroDivisionError("inverse of zero in GF(2^m)")
        u, v = a, self.f
        g1, g2 = 1, 0
        while u != 1:
            j = pdeg(u) - pdeg(v)
            if j < 0:
                u, v = v, u
                g1, g2 = g2, g1
                j = -j
            u ^= v << j
            g1 ^= g2 << j
            if u == 0:
                raise ZeroDivisionError("not invertible (modulus reducible?)")
        return pmod(g1, self.f)

    def pow(self, a, e):
        r = 1
        for i in range(e.bit_length() - 1, -1, -1):
            r = self.sqr(r)
            if (e >> i) & 1:
                r = self.mul(r, a)
        return r

    def trace(self, a):
        t = a
        x = a
        for _ in range(self.m - 1):
            x = self.sqr(x)
            t ^= x
        return t                         # 0 or 1 for a field

    def half_trace(self, a):
        """H(a) = sum_{i=0}^{(m-1)/2} a^(2^(2i)), m odd: H(a)^2 + H(a) = a + Tr(a)."""
        assert self.m % 2 == 1
        h = a
        x = a
        for _ in range((self.m - 1) // 2):
            x = self.sqr(self.sqr(x))
            h ^= x
        return h

    def solve_quadratic(self, c):
        """a root of y^2 + y = c, or None (exists iff Tr(c) = 0)."""
        if self.trace(c) != 0:
            return None
        if self.m % 2 == 1:
            return self.half_trace(c)
        # m even: y = sum_{i} (sum_{j<=i}? ) ... use the generic formula with an element of trace 1
        t = None
        for cand in range(1, 1 << 12):
            if self.trace(cand) == 1:
                t = cand
                break
        y, s = 0, c
        # y = sum_{i=0}^{m-2} ( sum_{j=i+1}^{m-1} t^(2^j) ) * c^(2^i)
        tp = [t]
        for _ in range(self.m - 1):
            tp.append(self.sqr(tp[-1]))
        suffix = [0] * (self.m + 1)
        for j in range(self.m - 1, -1, -1):
            suffix[j] = suffix[j + 1] ^ tp[j]
        for i in range(self.m - 1):
            y ^= self.mul(suffix[i + 1], s)
            s = self.sqr(s)
        return y


class BinCurve:
    """y^2 + xy = x^3 + a x^2 + b over GF(2^m); points are None or (x, y)."""

    def __init__(self, K, a, b):
        self.K, self.a, self.b = K, a, b

    def on_curve(self, P):
        if P is None:
            return True
        K = self.K
        x, y = P
        lhs = K.sqr(y) ^ K.mul(x, y)
        x2 = K.sqr(x)
        rhs = K.mul(x2, x) ^ K.mul(self.a, x2) ^ self.b
        return lhs == rhs

    def neg(self, P):
        return None if P is None else (P[0], P[0] ^ P[1])

    def add(self, P, Q):
        K = self.K
        if P is None:
            return Q
        if Q is None:
            return P
        x1, y1 = P
        x2, y2 = Q
        if x1 == x2:
            if y1 == y2:
                return self.dbl(P)
            return None
        l = K.mul(y1 ^ y2, K.inv(x1 ^ x2))
        x3 = K.sqr(l) ^ l ^ x1 ^ x2 ^ self.a
        y3 = K.mul(l, x1 ^ x3) ^ x3 ^ y1
        return (x3, y3)

    def dbl(self, P):
        K = self.K
        if P is None:
            return None
        x1, y1 = P
        if x1 == 0:
            return None                  # the point of order two
        l = x1 ^ K.mul(y1, K.inv(x1))
        x3 = K.sqr(l) ^ l ^ self.a
        y3 = K.sqr(x1) ^ K.mul(l ^ 1, x3)
        return (x3, y3)

    # Lopez-Dahab projective: x = X/Z, y = Y/Z^2
    def _ld_dbl(self, P):
        K = self.K
        X, Y, Z = P
        if Z == 0 or X == 0:
            return (1, 0, 0)
        z2 = K.sqr(Z)
        x2 = K.sqr(X)
        bz4 = K.mul(self.b, K.sqr(z2))
        Z3 = K.mul(x2, z2)
        X3 = K.sqr(x2) ^ bz4
        Y3 = K.mul(bz4, Z3) ^ K.mul(X3, K.mul(self.a, Z3) ^ K.sqr(Y) ^ bz4)
        return (X3, Y3, Z3)

    def _ld_add_affine(self, P, Q):
        K = self.K
        X1, Y1, Z1 = P
        x2, y2 = Q
        if Z1 == 0:
            return (x2, y2, 1)
        z1s = K.sqr(Z1)
        A = K.mul(y2, z1s) ^ Y1
        B = K.mul(x2, Z1) ^ X1
        if B == 0:
            if A == 0:
                return self._ld_dbl((x2, y2, 1))
            return (1, 0, 0)
        C = K.mul(Z1, B)
        D = K.mul(K.sqr(B), C ^ K.mul(self.a, z1s))
        Z3 = K.sqr(C)
        E = K.mul(A, C)
        X3 = K.sqr(A) ^ D ^ E
        F = X3 ^ K.mul(x2, Z3)
        G = K.mul(x2 ^ y2, K.sqr(Z3))
        Y3 = K.mul(E ^ Z3, F) ^ G
        return (X3, Y3, Z3)

    def _ld_affine(self, P):
        K = self.K
        X, Y, Z = P
        if Z == 0:
            return None
        zi = K.inv(Z)
        return (K.mul(X, zi), K.mul(Y, K.sqr(zi)))

    def mul(self, k, P):
        if P is None or k == 0:
            return None
        if k < 0:
            return self.mul(-k, self.neg(P))
        R = (1, 0, 0)
        for i in range(k.bit_length() - 1, -1, -1):
            R = self._ld_dbl(R)
            if (k >> i) & 1:
                R = self._ld_add_affine(R, P)
        return self._ld_affine(R)

    def mul_naive(self, k, P):
        R = None
        Q = P if k >= 0 else self.neg(P)
        for _ in range(abs(k)):
            R = self.add(R, Q)
        return R

    def lift_x(self, x):
        """a point with this x-coordinate or None; x = 0 gives the 2-torsion point (0, sqrt(b))."""
        K = self.K
        if x == 0:
            y = self.b
            for _ in range(K.m - 1):
                y = K.sqr(y)
            return (0, y)
        xi = K.inv(x)
        c = x ^ self.a ^ K.mul(self.b, K.sqr(xi))
        z = K.solve_quadratic(c)
        if z is None:
            return None
        return (x, K.mul(x, z))


def self_test():
    # irreducibility: AES polynomial, a reducible neighbour, the NIST reduction polynomials, small exhaustive check
    assert irreducible(0x11B) and irreducible_benor(0x11B)
    assert not irreducible(0x101) and not irreducible_benor(0x101)            # z^8 + 1 = (z + 1)^8
    # every polynomial of degree <= 9: Rabin and Ben-Or agree with trial division
    small_irr = set()
    for f in range(2, 1 << 10):
        d = pdeg(f)
        red = any(pmod(f, g) == 0 for g in range(2, 1 << (d // 2 + 1)) if pdeg(g) >= 1 and pdeg(g) <= d // 2)
        if not red:
            small_irr.add(f)
        assert irreducible(f) == (not red), f
        assert irreducible_benor(f) == (not red), f
    f163 = (1 << 163) | (1 << 7) | (1 << 6) | (1 << 3) | 1
    f233 = (1 << 233) | (1 << 74) | 1
    f283 = (1 << 283) | (1 << 12) | (1 << 7) | (1 << 5) | 1
    for f in (f163, f233, f283):
        assert irreducible(f)
    assert not irreducible(f163 ^ (1 << 1) ^ (1 << 2))      # z^163 + z^7 + z^6 + z^3 + z^2 + z + 1 has even weight
    # field arithmetic
    K = GF2m(f163)
    a = 0x123456789ABCDEF0123456789ABCDEF012345678 & ((1 << 163) - 1)
    assert K.mul(a, K.inv(a)) == 1
    assert K.sqr(a) == K.mul(a, a)
    assert K.pow(a, (1 << 163) - 1) == 1
    assert K.trace(a ^ K.sqr(a)) == 0
    h = K.half_trace(a)
    assert K.sqr(h) ^ h == a ^ K.trace(a)
    # NIST K-163 (FIPS 186-4 D.1.3.1.1): a = 1, b = 1
    Gx = 0x2FE13C0537BBC11ACAA07D793DE4E6D5E5C94EEE8
    Gy = 0x289070FB05D38FF58321F2E800536D538CCDAA3D9
    n = 0x4000000000000000000020108A2E0CC0D99F8A5EF
    E = BinCurve(K, 1, 1)
    G = (Gx, Gy)
    assert E.on_curve(G)
    assert E.mul(n, G) is None and E.mul(n - 1, G) == E.neg(G) and E.mul(n + 1, G) == G
    for k in range(-4, 10):
        assert E.mul(k, G) == E.mul_naive(k, G)
    P = E.mul(0x1234567, G)
    Q = E.mul(0x7654321, G)
    assert E.add(P, Q) == E.mul(0x1234567 + 0x7654321, G)
    assert E.on_curve(E.dbl(P)) and E.dbl(P) == E.add(P, P)
    # NIST B-163 (D.1.3.1.2): a = 1
    b = 0x20A601907B8C953CA1481EB10512F78744A3205FD
    Gx2 = 0x3F0EBA16286A2D57EA0991168D4994637E8343E36
    Gy2 = 0x0D51FBC6C71A0094FA2CDD545B11C5C0C797324F1
    n2 = 0x40000000000000000000292FE77E70C12A4234C33
    E2 = BinCurve(K, 1, b)
    assert E2.on_curve((Gx2, Gy2)) and E2.mul(n2, (Gx2, Gy2)) is None
    # lifting: every lifted point is on the curve; [2n]P = O for random points of B-163 (cofactor 2)
    cnt = 0
    for x in range(2, 40):
        Pt = E2.lift_x(x)
        if Pt is not None:
            cnt += 1
            assert E2.on_curve(Pt)
            assert E2.mul(2 * n2, Pt) is None
    assert cnt > 5
    T = E2.lift_x(0)
    assert E2.on_curve(T) and E2.dbl(T) is None
    # even extension degree: quadratic solver
    K8 = GF2m(0x11B)
    for c in range(256):
        y = K8.solve_quadratic(c)
        if K8.trace(c) == 0:
            assert y is not None and K8.sqr(y) ^ y == c
        else:
            assert y is None

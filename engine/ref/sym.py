"""Symmetric primitives needed by the protocol references of C06 part B, written from the standards:

* AES (FIPS-197: SubBytes/ShiftRows/MixColumns/AddRoundKey/KeyExpansion exactly as in the standard's pseudo-code),
  CBC mode (SP 800-38A section 6.2), PKCS#7 padding (RFC 5652 section 6.3);
* KDF2 of IEEE 1363a / ISO 18033-2 (identical to the ANSI X9.63 KDF with empty SharedInfo): the key is the
  concatenation Hash(Z || I2OSP(counter, 4)) for counter = 1, 2, ... truncated to the requested length. This is the
  function include/relic_md.h names ("the standardized KDF2 function"). KDF1 / MGF1 is the same with counter 0;
* HMAC (RFC 2104) through the standard library's hmac module.

Nothing here is derived from RELIC's code. self_test() checks FIPS-197 appendix B and C, SP 800-38A F.2.1/F.2.5,
the BouncyCastle KDF2-SHA-256 vector, the block structure of KDF2 / MGF1 and RFC 4231."""
import hashlib
import hmac as _hmac

# ------------------------------------------------------------------------------------------- AES


def _xtime(a):
    a <<= 1
    if a & 0x100:
        a ^= 0x11B
    return a & 0xFF


def _gmul(a, b):
    r = 0
    while b:
        if b & 1:
            r ^= a
        a = _xtime(a)
        b >>= 1
    return r


def _make_sbox():
    # multiplicative inverse in GF(2^8) followed by the affine transformation of FIPS-197 section 5.1.1
    inv = [0] * 256
    for a in range(1, 256):
        for b in range(1, 256):
            if _gmul(a, b) == 1:
                inv[a] = b
                break
    sbox = [0] * 256
    for a in range(256):
        x = inv[a]
        y = 0
        for i in range(8):
            bit = ((x >> i) ^ (x >> ((i + 4) % 8)) ^ (x >> ((i + 5) % 8)) ^ (x >> ((i + 6) % 8)) ^
                   (x >> ((i + 7) % 8)) ^ (0x63 >> i)) & 1
            y |= bit << i
        sbox[a] = y
    inv_sbox = [0] * 256
    for a, s in enumerate(sbox):
        inv_sbox[s] = a
    return sbox, inv_sbox


_SBOX, _INV_SBOX = _make_sbox()
_MUL = {k: [_gmul(x, k) for x in range(256)] for k in (2, 3, 9, 11, 13, 14)}


def _key_expansion(key):
    nk = len(key) // 4
    if len(key) not in (16, 24, 32):
        raise ValueError("AES key length %d" % len(key))
    nr = nk + 6
    w = [list(key[4 * i:4 * i + 4]) for i in range(nk)]
    rcon = 1
    for i in range(nk, 4 * (nr + 1)):
        t = list(w[i - 1])
        if i % nk == 0:
            t = t[1:] + t[:1]
            t = [_SBOX[b] for b in t]
            t[0] ^= rcon
            rcon = _xtime(rcon)
        elif nk > 6 and i % nk == 4:
            t = [_SBOX[b] for b in t]
        w.append([a ^ b for a, b in zip(w[i - nk], t)])
    return [sum(w[4 * r:4 * r + 4], []) for r in range(nr + 1)], nr


def _add_round_key(s, k):
    return [a ^ b for a, b in zip(s, k)]


def _shift_rows(s):
    # state is column-major: s[4*c + r]
    return [s[4 * ((c + r) % 4) + r] for c in range(4) for r in range(4)]


def _inv_shift_rows(s):
    return [s[4 * ((c - r) % 4) + r] for c in range(4) for r in range(4)]


def _mix_columns(s):
    o = []
    m2, m3 = _MUL[2], _MUL[3]
    for c in range(4):
        a0, a1, a2, a3 = s[4 * c:4 * c + 4]
        o += [m2[a0] ^ m3[a1] ^ a2 ^ a3, a0 ^ m2[a1] ^ m3[a2] ^ a3, a0 ^ a1 ^ m2[a2] ^ m3[a3], m3[a0] ^ a1 ^ a2 ^ m2[a3]]
    return o


def _inv_mix_columns(s):
    o = []
    m9, mb, md, me = _MUL[9], _MUL[11], _MUL[13], _MUL[14]
    for c in range(4):
        a0, a1, a2, a3 = s[4 * c:4 * c + 4]
        o += [me[a0] ^ mb[a1] ^ md[a2] ^ m9[a3], m9[a0] ^ me[a1] ^ mb[a2] ^ md[a3],
              md[a0] ^ m9[a1] ^ me[a2] ^ mb[a3], mb[a0] ^ md[a1] ^ m9[a2] ^ me[a3]]
    return o


class AES:
    def __init__(self, key):
        self.rk, self.nr = _key_expansion(bytes(key))

    def encrypt_block(self, block):
        s = _add_round_key(list(block), self.rk[0])
        for r in range(1, self.nr):
            s = _add_round_key(_mix_columns(_shift_rows([_SBOX[b] for b in s])), self.rk[r])
        s = _add_round_key(_shift_rows([_SBOX[b] for b in s]), self.rk[self.nr])
        return bytes(s)

    def decrypt_block(self, block):
        s = _add_round_key(list(block), self.rk[self.nr])
        for r in range(self.nr - 1, 0, -1):
            s = _inv_mix_columns(_add_round_key([_INV_SBOX[b] for b in _inv_shift_rows(s)], self.rk[r]))
        s = _add_round_key([_INV_SBOX[b] for b in _inv_shift_rows(s)], self.rk[0])
        return bytes(s)


def pkcs7_pad(m, bs=16):
    n = bs - len(m) % bs
    return bytes(m) + bytes([n]) * n


def pkcs7_unpad(m, bs=16):
    """plaintext or None when the padding is malformed"""
    if len(m) == 0 or len(m) % bs:
        return None
    n = m[-1]
    if n < 1 or n > bs or m[-n:] != bytes([n]) * n:
        return None
    return m[:-n]


def cbc_encrypt_raw(key, iv, m):
    a = AES(key)
    out = b""
    prev = bytes(iv)
    for i in range(0, len(m), 16):
        prev = a.encrypt_block(bytes(x ^ y for x, y in zip(m[i:i + 16], prev)))
        out += prev
    return out


def cbc_decrypt_raw(key, iv, c):
    a = AES(key)
    out = b""
    prev = bytes(iv)
    for i in range(0, len(c), 16):
        blk = c[i:i + 16]
        out += bytes(x ^ y for x, y in zip(a.decrypt_block(blk), prev))
        prev = blk
    return out


def cbc_pkcs7_encrypt(key, iv, m):
    return cbc_encrypt_raw(key, iv, pkcs7_pad(m))


def cbc_pkcs7_decrypt(key, iv, c):
    if len(c) == 0 or len(c) % 16:
        return None
    return pkcs7_unpad(cbc_decrypt_raw(key, iv, c))


# ------------------------------------------------------------------------------------------- hashes, KDF, HMAC

def hash_fn(name):
    """hash constructor by RELIC method name"""
    if name in ("SH224", "SH256", "SH384", "SH512"):
        return getattr(hashlib, "sha" + name[2:])
    if name == "B2S160":
        return lambda d=b"": hashlib.blake2s(d, digest_size=20)
    if name == "B2S256":
        return lambda d=b"": hashlib.blake2s(d, digest_size=32)
    if name == "SHA1":
        return hashlib.sha1
    raise ValueError(name)


def _kdf(h, z, n, start):
    out = b""
    ctr = start
    while len(out) < n:
        out += h(bytes(z) + ctr.to_bytes(4, "big")).digest()
        ctr += 1
    return out[:n]


def kdf2(h, z, n):
    """IEEE 1363a / ISO 18033-2 KDF2 (= ANSI X9.63 KDF without SharedInfo): counter from 1, 4 bytes big-endian, after Z."""
    return _kdf(h, z, n, 1)


def mgf1(h, z, n):
    """PKCS#1 MGF1 (= KDF1): counter from 0."""
    return _kdf(h, z, n, 0)


def hmac(h, key, msg):
    return _hmac.new(bytes(key), bytes(msg), h).digest()


# ------------------------------------------------------------------------------------------- self test

def self_test():
    hx = bytes.fromhex
    pt = hx("00112233445566778899aabbccddeeff")
    # FIPS-197 appendix C.1 - C.3
    for klen, ct in ((16, "69c4e0d86a7b0430d8cdb78070b4c55a"), (24, "dda97ca4864cdfe06eaf70a0ec0d7191"),
                     (32, "8ea2b7ca516745bfeafc49904b496089")):
        a = AES(bytes(range(klen)))
        assert a.encrypt_block(pt) == hx(ct), "FIPS-197 C encrypt %d" % klen
        assert a.decrypt_block(hx(ct)) == pt, "FIPS-197 C decrypt %d" % klen
    # FIPS-197 appendix B
    assert AES(hx("2b7e151628aed2a6abf7158809cf4f3c")).encrypt_block(hx("3243f6a8885a308d313198a2e0370734")) == \
        hx("3925841d02dc09fbdc118597196a0b32")
    assert _SBOX[0x00] == 0x63 and _SBOX[0x53] == 0xED and _INV_SBOX[0x63] == 0
    # SP 800-38A F.2.1 / F.2.2 CBC-AES128
    key = hx("2b7e151628aed2a6abf7158809cf4f3c")
    iv = bytes(range(16))
    p = hx("6bc1bee22e409f96e93d7e117393172aae2d8a571e03ac9c9eb76fac45af8e51"
           "30c81c46a35ce411e5fbc1191a0a52eff69f2445df4f9b17ad2b417be66c3710")
    c = hx("7649abac8119b246cee98e9b12e9197d5086cb9b507219ee95db113a917678b2"
           "73bed6b8e3c1743b7116e69e222295163ff1caa1681fac09120eca307586e1a7")
    assert cbc_encrypt_raw(key, iv, p) == c and cbc_decrypt_raw(key, iv, c) == p
    # SP 800-38A F.2.5 CBC-AES256 first block
    key256 = hx("603deb1015ca71be2b73aef0857d77811f352c073b6108d72d9810a30914dff4")
    assert cbc_encrypt_raw(key256, iv, p[:16]) == hx("f58c4c04d6e5f1ba779eabfb5f7bfbd6")
    for n in range(0, 50):
        m = bytes((7 * i + n) & 0xFF for i in range(n))
        e = cbc_pkcs7_encrypt(key, iv, m)
        assert len(e) == 16 * (n // 16 + 1) and cbc_pkcs7_decrypt(key, iv, e) == m
    assert pkcs7_pad(b"") == bytes([16]) * 16 and pkcs7_unpad(bytes(16)) is None
    assert pkcs7_unpad(b"\x01" * 15 + b"\x11") is None and pkcs7_unpad(b"a" * 14 + b"\x02\x02") == b"a" * 14
    # KDF2 with SHA-256: vector of BouncyCastle's KDF2GeneratorTest (ISO 18033-2 KDF2)
    seed2 = hx("032e45326fa859a72ec235acff929b15d1372e30b207255f0611b8f785d764374152e0ac009e509e7ba30cd2f1778e113b64e135c"
               "f4e2292c75efe5288edfda4")
    mask2 = hx("10a2403db42a8743cb989de86e668d168cbe6046e23ff26f741e87949a3bba1311ac179f819a3d18412e9eb45668f2923c087c1299"
               "005f8d5fd42ca257bc93e8fee0c5a0d2a8aa70185401fbbd99379ec76c663e9a29d0b70f3fe261a59cdc24875a60b4aacb1319fa11"
               "c3365a8b79a44669f26fba933d012db213d7e3b16349")
    assert kdf2(hashlib.sha256, seed2, len(mask2)) == mask2, "KDF2/SHA-256 vector"
    # structure: first block is Hash(Z || 00000001); MGF1 first block is Hash(Z || 00000000)
    assert kdf2(hashlib.sha256, b"abc", 32) == hashlib.sha256(b"abc\x00\x00\x00\x01").digest()
    assert kdf2(hashlib.sha256, b"abc", 40)[32:] == hashlib.sha256(b"abc\x00\x00\x00\x02").digest()[:8]
    assert mgf1(hashlib.sha256, b"abc", 32) == hashlib.sha256(b"abc\x00\x00\x00\x00").digest()
    assert kdf2(hashlib.sha256, b"abc", 0) == b""
    # RFC 4231 test case 2
    assert hmac(hashlib.sha256, b"Jefe", b"what do ya want for nothing?") == \
        hx("5bdcc146bf60754e6a042426089575c75a003f089d2739839dec58b964ec3843")


if __name__ == "__main__":
    self_test()
    print("sym self-test ok")
